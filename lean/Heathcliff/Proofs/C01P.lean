/- C01 (task P): BFV / BGV decryption of the MODEL equals the exact-integer SPEC.
   All helper names carry the prefix `c01p_`.

   Part A  exact side: `Spec.crt` is the CRT lift (`c01p_crt_spec`), `zNegMul` is the negacyclic convolution
           (`c01p_zNegMul_getD`, `c01p_contrib_sum`), residues of the size-2 phase (`c01p_X_spec`).
   Part B  model side: `DecOK`, `BehzDecryptOK`; `fastConvertArray` from `fastConvert`; `decryptScaleAndRound` on a polynomial
           with known CRT values (`c01p_decrypt_of_crt`).   Part B2: `exactConvey` / `decryptModT` (`c01p_decryptModT_of_crt`).
   Part E  `Spec.phase` of ANY size per component (Horner form, `c01p_phase_general`), core lemmas `c01p_bfv_core/_bgv_core`.
   Part C  `DecOK` from `RNSTool.new` (`c01p_new_inv`, `c01p_toolDecOK_of_new`, `c01p_decOK_of_new`), `Level.WF` from
           `NTTTables.new` (`c01p_levelWF_of_new`).
   Part D  a concrete instance of all hypotheses (`c01p_hypotheses_satisfiable`).
   Property theorems (end of file): `bfvDecrypt_size2_eq_spec`, `bgvDecrypt_size2_eq_spec`, refusals,
           `bfvDecrypt_eq_spec_of_phase` / `bgvDecrypt_eq_spec_of_phase` (any size, conditional on the per-prime phase of the model).

   Remarks.  (1) `Spec.crt` uses `Spec.invMod` (Euclid with fuel 400): fine here because its arguments are reduced modulo a
   61-bit prime first (`c01j_invMod_spec`).  (2) BGV: the model's `exactRound` rounds a tie x = Q/2 upwards (x ↦ x - Q) whereas
   `Spec.centred` keeps +Q/2; ties only exist for even Q and are excluded by `BgvNoTie` (`c01p_noTie_of_odd`). -/
import Heathcliff.Spec.Scheme
import Heathcliff.Proofs.C01O
import Heathcliff.Proofs.C01J
import Mathlib.Algebra.BigOperators.ModEq
import Mathlib.Tactic.Ring
import Mathlib.Tactic.Linarith
namespace HC
open Finset

/-! ## Part A: the exact-integer side -/

/-- the values of the level's moduli (the list the driver hands to `Spec.phase`) -/
def c01p_qvals (l : Level) : List Nat := l.qs.toList.map (·.value)

/-- the values of the moduli of a base -/
def c01p_bvals (b : RNSBase) : List Nat := (List.range b.size).map (fun i => (b.q i).value)

theorem c01p_foldl_add_sum (f : Nat → Nat) (l : List Nat) (a : Nat) :
    l.foldl (fun acc i => acc + f i) a = a + (l.map f).sum := by
  induction l generalizing a with
  | nil => simp
  | cons x l ih => rw [List.foldl_cons, ih, List.map_cons, List.sum_cons, Nat.add_assoc]

theorem c01p_prodL_eq (qs : List Nat) : Spec.prodL qs = qs.prod := by
  unfold Spec.prodL
  rw [List.prod_eq_foldl]

theorem c01p_prodL_bvals {b : RNSBase} (hb : b.WF) : Spec.prodL (c01p_bvals b) = b.prod := by
  rw [c01p_prodL_eq, hb.prod_eq]; rfl

theorem c01p_bvals_length (b : RNSBase) : (c01p_bvals b).length = b.size := by
  simp [c01p_bvals]

theorem c01p_bvals_getD (b : RNSBase) {i : Nat} (hi : i < b.size) : (c01p_bvals b).getD i 1 = (b.q i).value := by
  simp [c01p_bvals, List.getD, hi]

theorem c01p_punct_eq_div {b : RNSBase} (hb : b.WF) {i : Nat} (hi : i < b.size) :
    b.prod / (b.q i).value = b.punct.getD i 0 := by
  have h2 := (hb.mwf i hi).two_le
  rw [← hb.punct_eq i hi]
  exact Nat.mul_div_cancel _ (by omega)

theorem c01p_punct_coprime {b : RNSBase} (hb : b.WF) {i : Nat} (hi : i < b.size) :
    Nat.Coprime (b.punct.getD i 0) (b.q i).value := by
  have h := (hb.inv_wf i hi).2
  apply Nat.coprime_of_mul_modEq_one (b.invPunct.getD i default).operand
  unfold Nat.ModEq
  rw [Nat.mod_mul_mod] at h
  exact h

/-- one CRT summand of `Spec.crt` -/
def c01p_crtTerm (qs rs : List Nat) (i : Nat) : Nat :=
  (rs.getD i 0 % qs.getD i 1) * (Spec.prodL qs / qs.getD i 1) * Spec.invMod (Spec.prodL qs / qs.getD i 1) (qs.getD i 1)

theorem c01p_crt_eq (qs rs : List Nat) :
    Spec.crt qs rs = (((List.range qs.length).map (c01p_crtTerm qs rs)).sum) % Spec.prodL qs := by
  have := c01p_foldl_add_sum (c01p_crtTerm qs rs) (List.range qs.length) 0
  rw [Nat.zero_add] at this
  rw [← this]
  rfl

theorem c01p_crtTerm_b {b : RNSBase} (hb : b.WF) (rs : List Nat) {i : Nat} (hi : i < b.size) :
    c01p_crtTerm (c01p_bvals b) rs i =
      (rs.getD i 0 % (b.q i).value) * b.punct.getD i 0 * Spec.invMod (b.punct.getD i 0) (b.q i).value := by
  unfold c01p_crtTerm
  rw [c01p_bvals_getD b hi, c01p_prodL_bvals hb, c01p_punct_eq_div hb hi]

/-- `Spec.crt` is the CRT lift: below the product and with the given residues -/
theorem c01p_crt_spec {b : RNSBase} (hb : b.WF) (rs : List Nat) :
    Spec.crt (c01p_bvals b) rs < b.prod ∧
    ∀ i, i < b.size → Spec.crt (c01p_bvals b) rs % (b.q i).value = rs.getD i 0 % (b.q i).value := by
  rw [c01p_crt_eq, c01p_prodL_bvals hb, c01p_bvals_length]
  refine ⟨Nat.mod_lt _ hb.prod_pos, fun i hi => ?_⟩
  have hq2 := (hb.mwf i hi).two_le
  have hq61 := (hb.mwf i hi).lt
  rw [Nat.mod_mod_of_dvd _ (hb.q_dvd_prod hi),
    RNSH.sum_range_mod_single (c01p_crtTerm (c01p_bvals b) rs) (b.q i).value i b.size, if_pos hi,
    c01p_crtTerm_b hb rs hi]
  · have hinv := c01j_invMod_spec hq2 (by omega : (b.q i).value < 2^199) (c01p_punct_coprime hb hi)
    rw [Nat.mod_eq_of_lt (by omega : 1 < (b.q i).value)] at hinv
    rw [Nat.mul_assoc, Nat.mul_mod, Nat.mul_comm (b.punct.getD i 0), hinv, Nat.mul_one, Nat.mod_mod, Nat.mod_mod]
  · intro j hj hji
    rw [c01p_crtTerm_b hb rs hj]
    apply Nat.mod_eq_zero_of_dvd
    exact Dvd.dvd.mul_right (Dvd.dvd.mul_left (hb.q_dvd_punct hj hi hji) _) _

/-! ### `crtPoly`, `zAdd`, `zNegMul` coefficient-wise -/

theorem c01p_crtPoly_size (qs : List Nat) (p : RnsPoly) (n : Nat) : (Spec.crtPoly qs p n).size = n := by
  simp [Spec.crtPoly]

theorem c01p_crtPoly_getD (qs : List Nat) (p : RnsPoly) (n : Nat) {j : Nat} (hj : j < n) :
    (Spec.crtPoly qs p n).getD j 0 = (Spec.crt qs (p.toList.map (fun c => c.getD j 0)) : Int) := by
  unfold Spec.crtPoly
  rw [c01o_ofFn_getD _ _ _ hj]

theorem c01p_toList_map_getD (p : RnsPoly) (f : Array Nat → Nat) {i : Nat} (hi : i < p.size) :
    (p.toList.map f).getD i 0 = f (p.getD i #[]) := by
  simp [List.getD, Array.getD, hi]

theorem c01p_zAdd_size (a b : Spec.ZPoly) (Q : Nat) : (Spec.zAdd a b Q).size = a.size := by
  simp [Spec.zAdd]

theorem c01p_zAdd_getD (a b : Spec.ZPoly) (Q : Nat) {j : Nat} (hj : j < a.size) :
    (Spec.zAdd a b Q).getD j 0 = (a.getD j 0 + b.getD j 0) % (Q : Int) := by
  unfold Spec.zAdd
  rw [c01o_ofFn_getD _ _ _ hj]

/-- contribution of the pair (i, j) to coefficient k of the negacyclic product -/
def c01p_contrib (n : Nat) (a b : Spec.ZPoly) (i j k : Nat) : Int :=
  if i + j < n then (if k = i + j then a.getD i 0 * b.getD j 0 else 0)
  else (if k = i + j - n then - (a.getD i 0 * b.getD j 0) else 0)

theorem c01p_getD_modify (xs : Array Int) (m : Nat) (f : Int → Int) (k : Nat) :
    (xs.modify m f).getD k 0 = if m = k ∧ k < xs.size then f (xs.getD k 0) else xs.getD k 0 := by
  by_cases hk : k < xs.size
  · have hk' : k < (xs.modify m f).size := by rw [Array.size_modify]; exact hk
    have e1 : (xs.modify m f).getD k 0 = (xs.modify m f)[k] := by simp [Array.getD, hk]
    have e2 : xs.getD k 0 = xs[k] := by simp [Array.getD, hk]
    rw [e1, e2, Array.getElem_modify]
    by_cases hm : m = k <;> simp [hm, hk]
  · simp [Array.getD, hk]

/-- the inner loop of `zNegMul` -/
def c01p_innerStep (n : Nat) (a : Spec.ZPoly) (bj : Int) (j : Nat) (acc : Array Int) (i : Nat) : Array Int :=
  if i + j < n then acc.modify (i + j) (· + a.getD i 0 * bj) else acc.modify (i + j - n) (· - a.getD i 0 * bj)

theorem c01p_innerStep_size (n : Nat) (a : Spec.ZPoly) (bj : Int) (j : Nat) (acc : Array Int) (i : Nat) :
    (c01p_innerStep n a bj j acc i).size = acc.size := by
  unfold c01p_innerStep; split <;> simp

theorem c01p_innerStep_getD (n : Nat) (a b : Spec.ZPoly) (j : Nat) (acc : Array Int) (hacc : acc.size = n) (i : Nat)
    {k : Nat} (hk : k < n) :
    (c01p_innerStep n a (b.getD j 0) j acc i).getD k 0 = acc.getD k 0 + c01p_contrib n a b i j k := by
  unfold c01p_innerStep c01p_contrib
  by_cases h1 : i + j < n
  · rw [if_pos h1, if_pos h1, c01p_getD_modify]
    by_cases h2 : k = i + j
    · rw [if_pos ⟨h2.symm, by omega⟩, if_pos h2]
    · rw [if_neg (fun h => h2 h.1.symm), if_neg h2, add_zero]
  · rw [if_neg h1, if_neg h1, c01p_getD_modify]
    by_cases h2 : k = i + j - n
    · rw [if_pos ⟨h2.symm, by omega⟩, if_pos h2]; ring
    · rw [if_neg (fun h => h2 h.1.symm), if_neg h2, add_zero]

theorem c01p_inner_fold (n : Nat) (a b : Spec.ZPoly) (j : Nat) (L : List Nat) (acc : Array Int) (hacc : acc.size = n) :
    (L.foldl (c01p_innerStep n a (b.getD j 0) j) acc).size = n ∧
    ∀ k, k < n → (L.foldl (c01p_innerStep n a (b.getD j 0) j) acc).getD k 0
      = acc.getD k 0 + (L.map (fun i => c01p_contrib n a b i j k)).sum := by
  induction L generalizing acc with
  | nil => exact ⟨hacc, fun k _ => by simp⟩
  | cons i L ih =>
    have hs : (c01p_innerStep n a (b.getD j 0) j acc i).size = n := by rw [c01p_innerStep_size, hacc]
    obtain ⟨h1, h2⟩ := ih _ hs
    refine ⟨h1, fun k hk => ?_⟩
    rw [List.foldl_cons, h2 k hk, c01p_innerStep_getD n a b j acc hacc i hk, List.map_cons, List.sum_cons, add_assoc]

/-- the outer loop of `zNegMul` -/
def c01p_outerStep (n : Nat) (a b : Spec.ZPoly) (acc : Array Int) (j : Nat) : Array Int :=
  (List.range n).foldl (c01p_innerStep n a (b.getD j 0) j) acc

theorem c01p_outer_fold (n : Nat) (a b : Spec.ZPoly) (L : List Nat) (acc : Array Int) (hacc : acc.size = n) :
    (L.foldl (c01p_outerStep n a b) acc).size = n ∧
    ∀ k, k < n → (L.foldl (c01p_outerStep n a b) acc).getD k 0
      = acc.getD k 0 + (L.map (fun j => ((List.range n).map (fun i => c01p_contrib n a b i j k)).sum)).sum := by
  induction L generalizing acc with
  | nil => exact ⟨hacc, fun k _ => by simp⟩
  | cons j L ih =>
    obtain ⟨s1, s2⟩ := c01p_inner_fold n a b j (List.range n) acc hacc
    obtain ⟨h1, h2⟩ := ih (c01p_outerStep n a b acc j) s1
    refine ⟨h1, fun k hk => ?_⟩
    rw [List.foldl_cons, h2 k hk]
    unfold c01p_outerStep
    rw [s2 k hk, List.map_cons, List.sum_cons, add_assoc]

theorem c01p_zNegMul_eq (a b : Spec.ZPoly) (Q : Nat) :
    Spec.zNegMul a b Q =
      ((((List.range a.size).filter (fun j => b.getD j 0 ≠ 0)).foldl (c01p_outerStep a.size a b)
        (Array.replicate a.size (0 : Int))).map (fun x => x % (Q : Int))) := rfl

theorem c01p_filter_sum (L : List Nat) (p : Nat → Bool) (f : Nat → Int) (h : ∀ x, p x = false → f x = 0) :
    ((L.filter p).map f).sum = (L.map f).sum := by
  induction L with
  | nil => rfl
  | cons x L ih =>
    rw [List.filter_cons]
    by_cases hp : p x = true
    · rw [if_pos hp, List.map_cons, List.sum_cons, ih, List.map_cons, List.sum_cons]
    · rw [if_neg hp, ih, List.map_cons, List.sum_cons, h x (by simpa using hp), zero_add]

theorem c01p_list_sum_range (n : Nat) (f : Nat → Int) : ((List.range n).map f).sum = ∑ i ∈ range n, f i := by
  induction n with
  | zero => simp
  | succ k ih => rw [List.range_succ, List.map_append, List.sum_append, ih, Finset.sum_range_succ]; simp

theorem c01p_getD_map_int (a : Array Int) (f : Int → Int) {j : Nat} (hj : j < a.size) :
    (a.map f).getD j 0 = f (a.getD j 0) := by
  simp [Array.getD, hj]

theorem c01p_zNegMul_size (a b : Spec.ZPoly) (Q : Nat) : (Spec.zNegMul a b Q).size = a.size := by
  rw [c01p_zNegMul_eq, Array.size_map]
  exact (c01p_outer_fold a.size a b _ _ (by simp)).1

theorem c01p_zNegMul_getD (a b : Spec.ZPoly) (Q : Nat) {k : Nat} (hk : k < a.size) :
    (Spec.zNegMul a b Q).getD k 0 =
      (∑ j ∈ range a.size, ∑ i ∈ range a.size, c01p_contrib a.size a b i j k) % (Q : Int) := by
  obtain ⟨h1, h2⟩ := c01p_outer_fold a.size a b ((List.range a.size).filter (fun j => b.getD j 0 ≠ 0))
    (Array.replicate a.size (0 : Int)) (by simp)
  rw [c01p_zNegMul_eq, c01p_getD_map_int _ _ (by rw [h1]; exact hk), h2 k hk]
  have h0 : (Array.replicate a.size (0 : Int)).getD k 0 = 0 := by simp [Array.getD, hk]
  rw [h0, zero_add, c01p_filter_sum]
  · simp only [c01p_list_sum_range]
  · intro j hj
    have hb : b.getD j 0 = 0 := by simpa using hj
    apply List.sum_eq_zero
    intro x hx
    obtain ⟨i, -, rfl⟩ := List.mem_map.mp hx
    unfold c01p_contrib
    rw [hb]; split <;> split <;> simp

/-- the double sum collapses to the negacyclic convolution -/
theorem c01p_contrib_sum (n : Nat) (a b : Spec.ZPoly) {k : Nat} (hk : k < n) :
    (∑ j ∈ range n, ∑ i ∈ range n, c01p_contrib n a b i j k) =
      ∑ i ∈ range n, if i ≤ k then a.getD i 0 * b.getD (k - i) 0 else - (a.getD i 0 * b.getD (n + k - i) 0) := by
  rw [Finset.sum_comm]
  apply Finset.sum_congr rfl
  intro i hi
  have hi' : i < n := mem_range.mp hi
  by_cases hik : i ≤ k
  · rw [if_pos hik, Finset.sum_eq_single (k - i)]
    · unfold c01p_contrib
      rw [if_pos (by omega), if_pos (by omega)]
    · intro j hj hne
      have hj' : j < n := mem_range.mp hj
      unfold c01p_contrib
      by_cases h1 : i + j < n
      · rw [if_pos h1, if_neg (by omega)]
      · rw [if_neg h1, if_neg (by omega)]
    · intro h; exfalso; exact h (mem_range.mpr (by omega))
  · rw [if_neg hik, Finset.sum_eq_single (n + k - i)]
    · unfold c01p_contrib
      rw [if_neg (by omega), if_pos (by omega)]
    · intro j hj hne
      have hj' : j < n := mem_range.mp hj
      unfold c01p_contrib
      by_cases h1 : i + j < n
      · rw [if_pos h1, if_neg (by omega)]
      · rw [if_neg h1, if_neg (by omega)]
    · intro h; exfalso; exact h (mem_range.mpr (by omega))

/-! ### the exact phase of a size-2 ciphertext and its residues -/

theorem c01p_phase2_eq (qs : List Nat) (n : Nat) (sk : Array Int) (c0 c1 : RnsPoly) :
    Spec.phase qs n sk [c0, c1] =
      (Spec.zAdd (Spec.zNegMul (Spec.crtPoly qs c1 n) sk (Spec.prodL qs)) (Spec.crtPoly qs c0 n) (Spec.prodL qs)).map
        (fun x => Spec.centred x.toNat (Spec.prodL qs)) := rfl

/-- the exact phase coefficient j in [0, Q) (before centring) -/
def c01p_X (qs : List Nat) (n : Nat) (sk : Array Int) (c0 c1 : RnsPoly) (j : Nat) : Nat :=
  ((Spec.zAdd (Spec.zNegMul (Spec.crtPoly qs c1 n) sk (Spec.prodL qs)) (Spec.crtPoly qs c0 n) (Spec.prodL qs)).getD j 0).toNat

theorem c01p_phase2_size (qs : List Nat) (n : Nat) (sk : Array Int) (c0 c1 : RnsPoly) :
    (Spec.phase qs n sk [c0, c1]).size = n := by
  rw [c01p_phase2_eq, Array.size_map, c01p_zAdd_size, c01p_zNegMul_size, c01p_crtPoly_size]

theorem c01p_phase2_getD (qs : List Nat) (n : Nat) (sk : Array Int) (c0 c1 : RnsPoly) {j : Nat} (hj : j < n) :
    (Spec.phase qs n sk [c0, c1]).getD j 0 = Spec.centred (c01p_X qs n sk c0 c1 j) (Spec.prodL qs) := by
  rw [c01p_phase2_eq, c01p_getD_map_int _ _ (by rw [c01p_zAdd_size, c01p_zNegMul_size, c01p_crtPoly_size]; exact hj)]
  rfl

/-- residues of the secret key modulo q -/
def c01p_skResQ (sk : Array Int) (q : Nat) : Array Nat := sk.map fun c => (c % (q : Int)).toNat

theorem c01p_skRes_eq (l : Level) (sk : Array Int) (i : Nat) : skRes l sk i = c01p_skResQ sk (l.q i).value := rfl

theorem c01p_skResQ_modEq (sk : Array Int) {q : Nat} (hq : 0 < q) (m : Nat) :
    (((c01p_skResQ sk q).getD m 0 : Nat) : Int) ≡ sk.getD m 0 [ZMOD q] := by
  by_cases hm : m < sk.size
  · have e : (c01p_skResQ sk q).getD m 0 = (sk[m] % (q : Int)).toNat := by simp [c01p_skResQ, Array.getD, hm]
    have e2 : sk.getD m 0 = sk[m] := by simp [Array.getD, hm]
    rw [e, e2, Int.toNat_of_nonneg (Int.emod_nonneg _ (by omega))]
    exact Int.mod_modEq _ _
  · have e : (c01p_skResQ sk q).getD m 0 = 0 := by simp [c01p_skResQ, Array.getD, hm]
    have e2 : sk.getD m 0 = 0 := by simp [Array.getD, hm]
    rw [e, e2]; rfl

/-- the negacyclic sum over the integers is congruent to the one over residues -/
theorem c01p_negsum_modEq (n : Nat) (z : Spec.ZPoly) (sk : Array Int) (A : Array Nat) {q : Nat} (hq : 0 < q)
    (hz : ∀ i, i < n → z.getD i 0 ≡ ((A.getD i 0 : Nat) : Int) [ZMOD q]) (k : Nat) :
    (∑ i ∈ range n, if i ≤ k then z.getD i 0 * sk.getD (k - i) 0 else - (z.getD i 0 * sk.getD (n + k - i) 0))
      ≡ (negMulNat n q A (c01p_skResQ sk q) k : Int) [ZMOD q] := by
  unfold negMulNat
  rw [Int.toNat_of_nonneg (Int.emod_nonneg _ (by omega))]
  refine Int.ModEq.trans ?_ (Int.mod_modEq _ _).symm
  apply Int.ModEq.sum
  intro i hi
  have hi' := mem_range.mp hi
  by_cases hik : i ≤ k
  · rw [if_pos hik, if_pos hik]
    push_cast
    exact (hz i hi').mul (c01p_skResQ_modEq sk hq _).symm
  · rw [if_neg hik, if_neg hik]
    push_cast
    exact ((hz i hi').mul (c01p_skResQ_modEq sk hq _).symm).neg

theorem c01p_X_spec {b : RNSBase} (hb : b.WF) {n : Nat} {sk : Array Int} {c0 c1 : RnsPoly}
    (h0 : c0.size = b.size) (h1 : c1.size = b.size) {j : Nat} (hj : j < n) :
    c01p_X (c01p_bvals b) n sk c0 c1 j < b.prod ∧
    ∀ i, i < b.size → c01p_X (c01p_bvals b) n sk c0 c1 j % (b.q i).value =
      ((c0.getD i #[]).getD j 0 + negMulNat n (b.q i).value (c1.getD i #[]) (c01p_skResQ sk (b.q i).value) j)
        % (b.q i).value := by
  have hQ0 := hb.prod_pos
  have hQz : (0 : Int) < (b.prod : Int) := by exact_mod_cast hQ0
  unfold c01p_X
  rw [c01p_prodL_bvals hb, c01p_zAdd_getD _ _ _ (by rw [c01p_zNegMul_size, c01p_crtPoly_size]; exact hj),
    c01p_zNegMul_getD _ _ _ (by rw [c01p_crtPoly_size]; exact hj), c01p_crtPoly_size,
    c01p_contrib_sum n _ _ hj, c01p_crtPoly_getD _ _ _ hj]
  generalize hS : (∑ i ∈ range n, if i ≤ j then (Spec.crtPoly (c01p_bvals b) c1 n).getD i 0 * sk.getD (j - i) 0
      else - ((Spec.crtPoly (c01p_bvals b) c1 n).getD i 0 * sk.getD (n + j - i) 0)) = S
  generalize hV : (S % (b.prod : Int) + ((Spec.crt (c01p_bvals b) (c0.toList.map (fun c => c.getD j 0)) : Nat) : Int))
    % (b.prod : Int) = V
  have hV0 : 0 ≤ V := by rw [← hV]; exact Int.emod_nonneg _ (by omega)
  have hVlt : V < b.prod := by rw [← hV]; exact Int.emod_lt_of_pos _ hQz
  refine ⟨by omega, fun i hi => ?_⟩
  have hq2 := (hb.mwf i hi).two_le
  have hq0 : 0 < (b.q i).value := by omega
  have hdvd : ((b.q i).value : Int) ∣ (b.prod : Int) := by exact_mod_cast hb.q_dvd_prod hi
  -- V ≡ S + crt(c0) modulo q_i
  have hVm : V ≡ S + ((Spec.crt (c01p_bvals b) (c0.toList.map (fun c => c.getD j 0)) : Nat) : Int) [ZMOD (b.q i).value] := by
    have e1 : V ≡ S % (b.prod : Int) + ((Spec.crt (c01p_bvals b) (c0.toList.map (fun c => c.getD j 0)) : Nat) : Int)
        [ZMOD (b.prod : Int)] := by rw [← hV]; exact Int.mod_modEq _ _
    have e2 := e1.trans ((Int.mod_modEq S (b.prod : Int)).add_right _)
    exact e2.of_dvd hdvd
  -- crt values modulo q_i
  have hcrt : ∀ (p : RnsPoly), p.size = b.size → ∀ m,
      ((Spec.crt (c01p_bvals b) (p.toList.map (fun c => c.getD m 0)) : Nat) : Int)
        ≡ (((p.getD i #[]).getD m 0 : Nat) : Int) [ZMOD (b.q i).value] := by
    intro p hp m
    apply Int.natCast_modEq_iff.mpr
    unfold Nat.ModEq
    rw [(c01p_crt_spec hb _).2 i hi, c01p_toList_map_getD p _ (by rw [hp]; exact hi)]
  have hSm : S ≡ (negMulNat n (b.q i).value (c1.getD i #[]) (c01p_skResQ sk (b.q i).value) j : Int) [ZMOD (b.q i).value] := by
    rw [← hS]
    apply c01p_negsum_modEq n _ sk (c1.getD i #[]) hq0
    intro m hm
    rw [c01p_crtPoly_getD _ _ _ hm]
    exact hcrt c1 h1 m
  have hfin : ((V.toNat : Nat) : Int) ≡ (((c0.getD i #[]).getD j 0 +
      negMulNat n (b.q i).value (c1.getD i #[]) (c01p_skResQ sk (b.q i).value) j : Nat) : Int) [ZMOD (b.q i).value] := by
    rw [Int.toNat_of_nonneg hV0]
    push_cast
    rw [add_comm]
    exact hVm.trans (hSm.add (hcrt c0 h0 j))
  exact Int.natCast_modEq_iff.mp hfin

/-! ## Part B: the model side -/

/-- what `RNSTool.new` establishes for the constants `decrypt_scale_and_round` uses
    (derived from the constructor in `c01p_toolDecOK_of_new`) -/
structure c01p_ToolDecOK (r : RNSTool) : Prop where
  qwf : r.baseQ.WF
  twf : r.t.WF
  gwf : r.gamma.WF
  tg : ∃ btg conv ig, r.baseTGamma = some btg ∧ r.qToTGamma = some conv ∧ r.invGammaModT = some ig ∧
        btg.WF ∧ btg.size = 2 ∧ btg.q 0 = r.t ∧ btg.q 1 = r.gamma ∧ BaseConverter.new r.baseQ btg = .ok conv ∧
        WFOp r.t ig ∧ (ig.operand * r.gamma.value) % r.t.value = 1
  ptg : ∀ i, i < r.baseQ.size → WFOp (r.baseQ.q i) (r.prodTGammaModQ.getD i default) ∧
        (r.prodTGammaModQ.getD i default).operand = (r.t.value * r.gamma.value) % (r.baseQ.q i).value
  niq0 : WFOp r.t (r.negInvQModTGamma.getD 0 default) ∧
        ((r.negInvQModTGamma.getD 0 default).operand * r.baseQ.prod + 1) % r.t.value = 0
  niq1 : WFOp r.gamma (r.negInvQModTGamma.getD 1 default) ∧
        ((r.negInvQModTGamma.getD 1 default).operand * r.baseQ.prod + 1) % r.gamma.value = 0
  qT : ∃ bt cT, r.qToT = some cT ∧ bt.WF ∧ bt.size = 1 ∧ bt.q 0 = r.t ∧ BaseConverter.new r.baseQ bt = .ok cT

/-- the level's tool is the BEHZ tool of the level's moduli and plain modulus, with well-formed decryption constants -/
structure DecOK (l : Level) : Prop where
  n_eq : l.tool.n = l.n
  t_eq : l.tool.t = l.t
  base_eq : l.tool.baseQ.base = l.qs
  tool : c01p_ToolDecOK l.tool

/-- the BEHZ γ-condition on the exact (centred) phase: with w = round(t·x̃/Q) and e = t·x̃ - Q·w,
    2γ|e| + 2kQ ≤ Qγ (i.e. |e/Q| ≤ 1/2 - k/γ) for every coefficient -/
def BehzDecryptOK (l : Level) (ph : Spec.ZPoly) : Prop :=
  ∀ j, j < l.n →
    2 * (l.tool.gamma.value : Int) *
        |(l.t.value : Int) * ph.getD j 0
          - (Spec.prodL (c01p_qvals l) : Int) * Spec.roundDiv ((l.t.value : Int) * ph.getD j 0) (Spec.prodL (c01p_qvals l))|
      + 2 * (l.size : Int) * (Spec.prodL (c01p_qvals l) : Int)
    ≤ (Spec.prodL (c01p_qvals l) : Int) * (l.tool.gamma.value : Int)

theorem c01p_base_size {l : Level} (hd : DecOK l) : l.tool.baseQ.size = l.size := by
  unfold RNSBase.size Level.size; rw [hd.base_eq]

theorem c01p_base_q {l : Level} (hd : DecOK l) {i : Nat} (hi : i < l.size) : l.tool.baseQ.q i = l.q i := by
  unfold RNSBase.q Level.q
  rw [hd.base_eq]
  have hi' : i < l.qs.size := hi
  simp [Array.getD, hi']

theorem c01p_qvals_eq {l : Level} (hd : DecOK l) : c01p_qvals l = c01p_bvals l.tool.baseQ := by
  unfold c01p_qvals c01p_bvals
  apply List.ext_getElem
  · simp [c01p_base_size hd, Level.size]
  · intro i h1 h2
    have hi : i < l.size := by simpa [Level.size] using h1
    simp only [List.getElem_map, List.getElem_range, Array.getElem_toList]
    rw [c01p_base_q hd hi]
    unfold Level.q
    have hi' : i < l.qs.size := hi
    simp [Array.getD, hi']

theorem c01p_prodL_qvals {l : Level} (hd : DecOK l) : Spec.prodL (c01p_qvals l) = l.tool.baseQ.prod := by
  rw [c01p_qvals_eq hd, c01p_prodL_bvals hd.tool.qwf]

/-! ### `fastConvertArray` from `fastConvert` -/

/-- the value of a successful computation -/
def c01p_val {α : Type} [Inhabited α] (x : R α) : α := match x with | .ok v => v | .error _ => default

theorem c01p_val_ok {α : Type} [Inhabited α] {x : R α} (h : ∃ y, x = .ok y) : x = .ok (c01p_val x) := by
  obtain ⟨y, rfl⟩ := h; rfl

theorem c01p_transpose_toList (p : RnsPoly) (n : Nat) :
    (transpose p n).toList = (List.range n).map (fun j => p.map (fun comp => comp.getD j 0)) := by
  apply List.ext_getElem
  · simp [transpose]
  · intro i h1 h2
    simp [transpose]

theorem c01p_untranspose_getD (cols : Array (Array Nat)) (k : Nat) {i : Nat} (hi : i < k) :
    (untranspose cols k).getD i #[] = cols.map (fun col => col.getD i 0) := by
  unfold untranspose
  rw [c01o_ofFn_getD _ _ _ hi]

theorem c01p_fastConvertArray_spec (c : BaseConverter) (p : RnsPoly) (n : Nat)
    (hok : ∀ j, j < n → ∃ y, c.fastConvert (p.map (fun comp => comp.getD j 0)) = .ok y) :
    ∃ tg, c.fastConvertArray p n = .ok tg ∧ ∀ i, i < c.obase.size → (tg.getD i #[]).size = n ∧
      ∀ j, j < n → ∃ y, c.fastConvert (p.map (fun comp => comp.getD j 0)) = .ok y ∧
        (tg.getD i #[]).getD j 0 = y.getD i 0 := by
  unfold BaseConverter.fastConvertArray
  rw [c01p_transpose_toList, listMapM_ok _ _ (fun x => c01p_val (c.fastConvert x))]
  · refine ⟨_, rfl, fun i hi => ?_⟩
    rw [c01p_untranspose_getD _ _ hi]
    refine ⟨by simp, fun j hj => ⟨_, c01p_val_ok (hok j hj), ?_⟩⟩
    simp [Array.getD, hj]
  · intro x hx
    obtain ⟨j, hj, rfl⟩ := List.mem_map.mp hx
    exact c01p_val_ok (hok j (List.mem_range.mp hj))

/-- `decryptScaleAndRound_spec` (C10I) with the size of the result -/
theorem c01p_decryptScaleAndRound_spec {r : RNSTool} {p tg : RnsPoly} {btg : RNSBase} {conv : BaseConverter}
    {ig : MulOperand}
    (h1 : r.baseTGamma = some btg) (h2 : r.qToTGamma = some conv) (h3 : r.invGammaModT = some ig)
    (hconv : conv.fastConvertArray ((List.range r.baseQ.size).map (fun i =>
        (p.getD i #[]).map (fun x => (x * (r.prodTGammaModQ.getD i default).operand) % (r.baseQ.q i).value))).toArray r.n
        = .ok tg)
    (hq : ∀ i, i < r.baseQ.size → (r.baseQ.q i).WF ∧ WFOp (r.baseQ.q i) (r.prodTGammaModQ.getD i default))
    (hp : ∀ i, i < r.baseQ.size → ∀ x ∈ p.getD i #[], x < 2^64)
    (ht : r.t.WF) (hgam : r.gamma.WF) (hig : WFOp r.t ig)
    (hn0 : WFOp r.t (r.negInvQModTGamma.getD 0 default)) (hn1 : WFOp r.gamma (r.negInvQModTGamma.getD 1 default))
    (hs0 : (tg.getD 0 #[]).size = r.n) (hs1 : (tg.getD 1 #[]).size = r.n)
    (hw0 : ∀ x ∈ tg.getD 0 #[], x < 2^64) (hw1 : ∀ x ∈ tg.getD 1 #[], x < 2^64) :
    ∃ out, r.decryptScaleAndRound p = .ok out ∧ out.size = r.n ∧ ∀ j, j < r.n →
      out.getD j 0 =
        scaleAndRoundCoeff r.t.value r.gamma.value (r.negInvQModTGamma.getD 0 default).operand
          (r.negInvQModTGamma.getD 1 default).operand ig.operand
          ((tg.getD 0 #[]).getD j 0) ((tg.getD 1 #[]).getD j 0) := by
  have ht0 : 0 < r.t.value := by have := ht.two_le; omega
  have hg0 : 0 < r.gamma.value := by have := hgam.two_le; omega
  have hg61 := hgam.lt
  have htemp : (List.range r.baseQ.size).mapM (fun i =>
      mapM' (p.getD i #[]) (fun x => mulOperandMod x (r.prodTGammaModQ.getD i default) (r.baseQ.q i)))
      = .ok ((List.range r.baseQ.size).map (fun i =>
        (p.getD i #[]).map (fun x => (x * (r.prodTGammaModQ.getD i default).operand) % (r.baseQ.q i).value))) := by
    apply listMapM_ok
    intro i hi
    rw [List.mem_range] at hi
    obtain ⟨hqi, hop⟩ := hq i hi
    exact mapM'_ok _ (fun x hx => mulOperandMod_exact hqi (hp i hi x hx) hop.1 (wfop_new hqi hop))
  have htp : mapM' (tg.getD 0 #[]) (fun x => mulOperandMod x (r.negInvQModTGamma.getD 0 default) r.t)
      = .ok ((tg.getD 0 #[]).map (fun x => (x * (r.negInvQModTGamma.getD 0 default).operand) % r.t.value)) :=
    mapM'_ok _ (fun x hx => mulOperandMod_exact ht (hw0 x hx) hn0.1 (wfop_new ht hn0))
  have hgp : mapM' (tg.getD 1 #[]) (fun x => mulOperandMod x (r.negInvQModTGamma.getD 1 default) r.gamma)
      = .ok ((tg.getD 1 #[]).map (fun x => (x * (r.negInvQModTGamma.getD 1 default).operand) % r.gamma.value)) :=
    mapM'_ok _ (fun x hx => mulOperandMod_exact hgam (hw1 x hx) hn1.1 (wfop_new hgam hn1))
  unfold RNSTool.decryptScaleAndRound
  simp only [h1, h2, h3]
  rw [htemp, ok_bind, hconv, ok_bind, htp, ok_bind, hgp, ok_bind]
  rw [zipM'_ok (g := fun a g =>
      if (if g > r.gamma.value / 2 then (a + (r.gamma.value - g) % r.t.value) % r.t.value
          else (a + r.t.value - g % r.t.value) % r.t.value) ≠ 0
      then ((if g > r.gamma.value / 2 then (a + (r.gamma.value - g) % r.t.value) % r.t.value
             else (a + r.t.value - g % r.t.value) % r.t.value) * ig.operand) % r.t.value
      else (if g > r.gamma.value / 2 then (a + (r.gamma.value - g) % r.t.value) % r.t.value
            else (a + r.t.value - g % r.t.value) % r.t.value))]
  · refine ⟨_, rfl, ?_, ?_⟩
    · rw [List.size_toArray, List.length_map, List.length_range, Array.size_map, hs0]
    intro j hj
    rw [getD_rangeMap _ _ (by rw [Array.size_map, hs0]; exact hj),
      c10i_getD_map_lt _ _ (by rw [hs1]; exact hj), c10i_getD_map_lt _ _ (by rw [hs0]; exact hj)]
    rfl
  · intro k hk
    refine scaleAndRound_step_ok ht hig ?_ ?_ (by omega)
    · apply getD_lt_of_forall _ ht0
      intro x hx
      obtain ⟨y, -, rfl⟩ := Array.mem_map.mp hx
      exact Nat.mod_lt _ ht0
    · apply Nat.le_of_lt
      apply getD_lt_of_forall _ hg0
      intro x hx
      obtain ⟨y, -, rfl⟩ := Array.mem_map.mp hx
      exact Nat.mod_lt _ hg0

/-! ### one coefficient: γ-correction on the exact phase -/

theorem c01p_centred_modEq (X Q : Nat) : Spec.centred X Q ≡ (X : Int) [ZMOD Q] := by
  unfold Spec.centred
  split
  · refine Int.ModEq.trans (Int.modEq_iff_dvd.2 ⟨1, by ring⟩ : ((X % Q : Nat) : Int) - (Q : Int) ≡ ((X % Q : Nat) : Int) [ZMOD Q]) ?_
    exact cast_mod_modEq X Q
  · exact cast_mod_modEq X Q

theorem c01p_coeff {t gamma nq0 nq1 ig c0v c1v Q k X α : Nat}
    (hnt : (nq0 * Q + 1) % t = 0) (hng : (nq1 * Q + 1) % gamma = 0) (hig : (ig * gamma) % t = 1)
    (hQ : 0 < Q)
    (hc0 : c0v = ((gamma * t * X) % Q + α * Q) % t) (hc1 : c1v = ((gamma * t * X) % Q + α * Q) % gamma)
    (hα : α < k)
    (he : 2 * (gamma : Int) * |(t : Int) * Spec.centred X Q - (Q : Int) * Spec.roundDiv ((t : Int) * Spec.centred X Q) Q|
        + 2 * (k : Int) * (Q : Int) ≤ (Q : Int) * (gamma : Int)) :
    scaleAndRoundCoeff t gamma nq0 nq1 ig c0v c1v = Spec.imod (Spec.roundDiv ((t : Int) * Spec.centred X Q) Q) t := by
  have ht0 : 0 < t := pos_of_negInv hnt
  generalize hxt : Spec.centred X Q = xt at he
  have hxm : xt ≡ (X : Int) [ZMOD Q] := by rw [← hxt]; exact c01p_centred_modEq X Q
  have hx : (((gamma * t * X) % Q : Nat) : Int) = ((gamma : Int) * t * xt) % Q := by
    rw [Int.natCast_mod]; push_cast
    exact (hxm.mul_left ((gamma : Int) * t)).symm
  have key := scaleAndRound_scalar_bound (c0 := c0v) (c1 := c1v) (k := k) (xt := xt)
    (w := Spec.roundDiv ((t : Int) * xt) Q) (e := (t : Int) * xt - (Q : Int) * Spec.roundDiv ((t : Int) * xt) Q)
    (α := (α : Int)) hnt hng hig hQ
    (by rw [hc0, ← hx]; have := cast_mod_modEq ((gamma * t * X) % Q + α * Q) t; push_cast at this; exact this)
    (by rw [hc1, ← hx]; have := cast_mod_modEq ((gamma * t * X) % Q + α * Q) gamma; push_cast at this; exact this)
    (by ring) (by omega) (by exact_mod_cast hα) he
  unfold Spec.imod
  have h1 := key.1
  have hnn : 0 ≤ Spec.roundDiv ((t : Int) * xt) Q % (t : Int) := Int.emod_nonneg _ (by omega)
  omega

/-! ### `decryptScaleAndRound` on a canonical RNS polynomial whose coefficients have known CRT values -/

/-- the scaled input of the base conversion -/
def c01p_temp (r : RNSTool) (p : RnsPoly) : RnsPoly :=
  ((List.range r.baseQ.size).map (fun i =>
    (p.getD i #[]).map (fun x => (x * (r.prodTGammaModQ.getD i default).operand) % (r.baseQ.q i).value))).toArray

theorem c01p_getD_map_gen {α : Type} (a : Array α) (f : α → Nat) (d : α) {j : Nat} (hj : j < a.size) :
    (a.map f).getD j 0 = f (a.getD j d) := by
  simp [Array.getD, hj]

theorem c01p_temp_col_size (r : RNSTool) (p : RnsPoly) (j : Nat) :
    ((c01p_temp r p).map (fun comp => comp.getD j 0)).size = r.baseQ.size := by
  simp [c01p_temp]

theorem c01p_temp_col_getD (r : RNSTool) (p : RnsPoly) {i j : Nat} (hi : i < r.baseQ.size) (hj : j < (p.getD i #[]).size) :
    ((c01p_temp r p).map (fun comp => comp.getD j 0)).getD i 0 =
      ((p.getD i #[]).getD j 0 * (r.prodTGammaModQ.getD i default).operand) % (r.baseQ.q i).value := by
  unfold c01p_temp
  rw [c01p_getD_map_gen _ _ #[] (by simp; exact hi)]
  rw [getD_rangeMap' _ _ _ hi, c10i_getD_map_lt _ _ hj]

theorem c01p_scaled_residue {g t X Q q op ph : Nat} (hdvd : q ∣ Q) (hop : op = (t * g) % q) (hX : X % q = ph) :
    ((g * t * X) % Q) % q = ((ph * op) % q) % q := by
  rw [Nat.mod_mod_of_dvd _ hdvd, Nat.mod_mod, hop, ← hX, ← Nat.mul_mod]
  congr 1; ring

/-- per-coefficient form (explicit CRT values): `X j < Q`, `X j ≡ ph_i[j] (mod q_i)`; the model returns
    round(t·x̃_j/Q) mod t for the centred x̃_j under the γ-condition -/
theorem c01p_decrypt_of_crt {l : Level} (hd : DecOK l) {ph : RnsPoly} (hph : RnsCanon l ph) (X : Nat → Nat)
    (hX : ∀ j, j < l.n → X j < l.tool.baseQ.prod ∧
      ∀ i, i < l.size → X j % (l.q i).value = (ph.getD i #[]).getD j 0)
    (hnoise : ∀ j, j < l.n →
      2 * (l.tool.gamma.value : Int) *
          |(l.t.value : Int) * Spec.centred (X j) l.tool.baseQ.prod
            - (l.tool.baseQ.prod : Int) * Spec.roundDiv ((l.t.value : Int) * Spec.centred (X j) l.tool.baseQ.prod) l.tool.baseQ.prod|
        + 2 * (l.size : Int) * (l.tool.baseQ.prod : Int)
      ≤ (l.tool.baseQ.prod : Int) * (l.tool.gamma.value : Int)) :
    ∃ d, l.tool.decryptScaleAndRound ph = .ok d ∧ d.size = l.n ∧ ∀ j, j < l.n →
      d.getD j 0 = Spec.imod (Spec.roundDiv ((l.t.value : Int) * Spec.centred (X j) l.tool.baseQ.prod) l.tool.baseQ.prod) l.t.value := by
  have hb := hd.tool.qwf
  have hsz := c01p_base_size hd
  obtain ⟨btg, conv, ig, h1, h2, h3, hbtg, hbsz, hq0, hq1, hnew, higw, hig⟩ := hd.tool.tg
  have ht2 := hd.tool.twf.two_le
  have ht61 := hd.tool.twf.lt
  have hg2 := hd.tool.gwf.two_le
  have hg61 := hd.tool.gwf.lt
  have hQ0 := hb.prod_pos
  -- canonical data
  have hcs : ∀ i, i < l.tool.baseQ.size → (ph.getD i #[]).size = l.n := fun i hi => (hph.2 i (by omega)).1
  have hcv : ∀ i, i < l.tool.baseQ.size → ∀ j, j < l.n → (ph.getD i #[]).getD j 0 < (l.tool.baseQ.q i).value :=
    fun i hi j hj => by rw [c01p_base_q hd (by omega)]; exact (hph.2 i (by omega)).2 j hj
  -- every column converts
  have hcol : ∀ j, j < l.n → ∃ out alpha,
      conv.fastConvert ((c01p_temp l.tool ph).map (fun comp => comp.getD j 0)) = .ok out ∧ alpha < l.tool.baseQ.size ∧
      out.getD 0 0 = ((l.tool.gamma.value * l.tool.t.value * X j) % l.tool.baseQ.prod + alpha * l.tool.baseQ.prod) % l.tool.t.value ∧
      out.getD 1 0 = ((l.tool.gamma.value * l.tool.t.value * X j) % l.tool.baseQ.prod + alpha * l.tool.baseQ.prod) % l.tool.gamma.value := by
    intro j hj
    obtain ⟨out, alpha, e1, -, e3, e4⟩ := fastConvert_spec hb hbtg hnew
      (xs := (c01p_temp l.tool ph).map (fun comp => comp.getD j 0))
      (x := (l.tool.gamma.value * l.tool.t.value * X j) % l.tool.baseQ.prod)
      (c01p_temp_col_size _ _ j)
      (fun i hi => by
        rw [c01p_temp_col_getD _ _ hi (by rw [hcs i hi]; exact hj)]
        have h2 := (hb.mwf i hi).two_le
        have h61 := (hb.mwf i hi).lt
        have := Nat.mod_lt ((ph.getD i #[]).getD j 0 * (l.tool.prodTGammaModQ.getD i default).operand)
          (show 0 < (l.tool.baseQ.q i).value by omega)
        omega)
      (Nat.mod_lt _ hQ0)
      (fun i hi => by
        rw [c01p_temp_col_getD _ _ hi (by rw [hcs i hi]; exact hj)]
        apply c01p_scaled_residue (hb.q_dvd_prod hi) (hd.tool.ptg i hi).2
        rw [c01p_base_q hd (by omega)]
        exact (hX j hj).2 i (by omega))
    refine ⟨out, alpha, e1, e3, ?_, ?_⟩
    · rw [e4 0 (by omega), hq0]
    · rw [e4 1 (by omega), hq1]
  obtain ⟨tg, hconv, htg⟩ := c01p_fastConvertArray_spec conv (c01p_temp l.tool ph) l.tool.n
    (fun j hj => by obtain ⟨out, _, e, _⟩ := hcol j (by rw [← hd.n_eq]; exact hj); exact ⟨out, e⟩)
  have hobase : conv.obase.size = 2 := by
    rw [BaseConverter.new_eq hb hbtg] at hnew
    injection hnew with hnew
    rw [← hnew]; exact hbsz
  obtain ⟨hs0, hv0⟩ := htg 0 (by omega)
  obtain ⟨hs1, hv1⟩ := htg 1 (by omega)
  -- both rows of the conversion, with a common α
  have hrows : ∀ j, j < l.n → ∃ alpha, alpha < l.size ∧
      (tg.getD 0 #[]).getD j 0 = ((l.tool.gamma.value * l.tool.t.value * X j) % l.tool.baseQ.prod + alpha * l.tool.baseQ.prod) % l.tool.t.value ∧
      (tg.getD 1 #[]).getD j 0 = ((l.tool.gamma.value * l.tool.t.value * X j) % l.tool.baseQ.prod + alpha * l.tool.baseQ.prod) % l.tool.gamma.value := by
    intro j hj
    obtain ⟨out, alpha, e, ha, o0, o1⟩ := hcol j hj
    obtain ⟨y0, ey0, v0⟩ := hv0 j (by rw [hd.n_eq]; exact hj)
    obtain ⟨y1, ey1, v1⟩ := hv1 j (by rw [hd.n_eq]; exact hj)
    rw [e] at ey0 ey1
    injection ey0 with ey0; injection ey1 with ey1
    subst ey0; subst ey1
    exact ⟨alpha, by omega, by rw [v0, o0], by rw [v1, o1]⟩
  obtain ⟨d, hdok, hdsz, hdv⟩ := c01p_decryptScaleAndRound_spec (r := l.tool) (p := ph) h1 h2 h3 hconv
    (fun i hi => ⟨hb.mwf i hi, (hd.tool.ptg i hi).1⟩)
    (fun i hi => mem_lt_of_getD (fun j hj => by
      have := hcv i hi j (by rw [← hcs i hi]; exact hj)
      have := (hb.mwf i hi).lt
      omega))
    hd.tool.twf hd.tool.gwf higw hd.tool.niq0.1 hd.tool.niq1.1 hs0 hs1
    (mem_lt_of_getD (fun j hj => by
      obtain ⟨a, _, e, _⟩ := hrows j (by rw [← hd.n_eq, ← hs0]; exact hj)
      rw [e]
      have := Nat.mod_lt ((l.tool.gamma.value * l.tool.t.value * X j) % l.tool.baseQ.prod + a * l.tool.baseQ.prod)
        (show 0 < l.tool.t.value by omega)
      omega))
    (mem_lt_of_getD (fun j hj => by
      obtain ⟨a, _, _, e⟩ := hrows j (by rw [← hd.n_eq, ← hs1]; exact hj)
      rw [e]
      have := Nat.mod_lt ((l.tool.gamma.value * l.tool.t.value * X j) % l.tool.baseQ.prod + a * l.tool.baseQ.prod)
        (show 0 < l.tool.gamma.value by omega)
      omega))
  refine ⟨d, hdok, by rw [hdsz, hd.n_eq], fun j hj => ?_⟩
  obtain ⟨alpha, ha, e0, e1⟩ := hrows j hj
  rw [hdv j (by rw [hd.n_eq]; exact hj)]
  have hn := hnoise j hj
  rw [← hd.t_eq] at hn ⊢
  exact c01p_coeff hd.tool.niq0.2 hd.tool.niq1.2 hig hQ0 e0 e1 ha hn

/-! ### BFV decryption of a size-2 ciphertext -/

theorem c01p_bfvDecrypt_eq (l : Level) (sk : Array Int) (c0 c1 : RnsPoly) :
    bfvDecrypt l sk ⟨#[c0, c1], false, 1⟩ = (do
      let ph ← dotProductCtSk l sk ⟨#[c0, c1], false, 1⟩
      let d ← l.tool.decryptScaleAndRound ph
      pure (trimPlain d)) := rfl

theorem c01p_bfvDecode_size (t Q : Nat) (ph : Spec.ZPoly) : (Spec.bfvDecode t Q ph).size = ph.size := by
  simp [Spec.bfvDecode]

theorem c01p_bfvDecode_getD (t Q : Nat) (ph : Spec.ZPoly) {j : Nat} (hj : j < ph.size) :
    (Spec.bfvDecode t Q ph).getD j 0 = Spec.imod (Spec.roundDiv ((t : Int) * ph.getD j 0) Q) t := by
  unfold Spec.bfvDecode
  rw [c01p_getD_map_gen _ _ (0 : Int) hj]

/-- the exact phase coefficients are the CRT values of the model's phase (size 2, coefficient form) -/
theorem c01p_phase_link {l : Level} (hl : l.WF) (hd : DecOK l) {sk : Array Int} (hsk : sk.size = l.n) {c0 c1 : RnsPoly}
    (h0 : RnsCanon l c0) (h1 : RnsCanon l c1) :
    ∃ ph, dotProductCtSk l sk ⟨#[c0, c1], false, 1⟩ = .ok ph ∧ RnsCanon l ph ∧
      ∀ j, j < l.n → c01p_X (c01p_qvals l) l.n sk c0 c1 j < l.tool.baseQ.prod ∧
        ∀ i, i < l.size → c01p_X (c01p_qvals l) l.n sk c0 c1 j % (l.q i).value = (ph.getD i #[]).getD j 0 := by
  obtain ⟨ph, hdot, hcan, hv⟩ := dotProduct_size2_coeff hl hsk h0 h1
  have hsz := c01p_base_size hd
  refine ⟨ph, hdot, hcan, fun j hj => ?_⟩
  rw [c01p_qvals_eq hd]
  obtain ⟨x1, x2⟩ := c01p_X_spec hd.tool.qwf (n := l.n) (sk := sk) (c0 := c0) (c1 := c1)
    (by rw [h0.1, hsz]) (by rw [h1.1, hsz]) hj
  refine ⟨x1, fun i hi => ?_⟩
  have := x2 i (by omega)
  rw [c01p_base_q hd hi] at this
  rw [this, hv i hi j hj, c01p_skRes_eq]

/-! ## Part B2: BGV — `decryptModT` is the exact conveyance of the centred value -/

theorem c01p_round_quot {x Q α : Nat} (hx : x < Q) :
    (2 * (x + α * Q) + Q) / (2 * Q) = α + (if 2 * x ≥ Q then 1 else 0) := by
  have hQ : 0 < 2 * Q := by omega
  have e : 2 * (x + α * Q) + Q = (2 * x + Q) + α * (2 * Q) := by ring
  rw [e, Nat.add_mul_div_right _ _ hQ, Nat.add_comm]
  congr 1
  split
  · apply Nat.div_eq_of_lt_le <;> omega
  · exact Nat.div_eq_of_lt (by omega)

theorem c01p_exactRound_eq (c : BaseConverter) (hi : c.ibase.WF) (T : Nat → Nat) :
    exactRound c ((List.range c.ibase.size).map T) =
      (2 * ((List.range c.ibase.size).map fun i => T i * c.ibase.punct.getD i 0).sum + c.ibase.prod) / (2 * c.ibase.prod) := by
  unfold exactRound
  dsimp only
  have := c01p_foldl_add_sum (fun i => ((List.range c.ibase.size).map T).getD i 0 * (c.ibase.prod / (c.ibase.q i).value))
    (List.range c.ibase.size) 0
  rw [Nat.zero_add] at this
  rw [this]
  congr 4
  apply List.map_congr_left
  intro i hi'
  have hi'' := List.mem_range.mp hi'
  rw [c01p_punct_eq_div hi hi'']
  congr 1
  simp [List.getD, hi'']

/-- `exact_convey_array` on one coefficient: the centred value modulo the single output modulus (no tie 2x = Q) -/
theorem c01p_exactConvey_spec {ib ob : RNSBase} {c : BaseConverter} (hi : ib.WF) (ho : ob.WF) (ho1 : ob.size = 1)
    (hc : BaseConverter.new ib ob = .ok c) {xs : Array Nat} (hx : ∀ i, i < ib.size → xs.getD i 0 < 2^64)
    {x : Nat} (hxl : x < ib.prod) (hxr : ∀ i, i < ib.size → x % (ib.q i).value = xs.getD i 0 % (ib.q i).value)
    (htie : 2 * x ≠ ib.prod) :
    c.exactConvey xs = .ok (Spec.imod (Spec.centred x ib.prod) (ob.q 0).value) := by
  rw [BaseConverter.new_eq hi ho] at hc
  injection hc with hc
  subst hc
  have hp := ho.mwf 0 (by omega)
  have hp2 := hp.two_le
  have hp61 := hp.lt
  have hp0 : 0 < (ob.q 0).value := by omega
  obtain ⟨alpha, ha, hS⟩ := RNSH.crt_sum hi hxl hxr
  have ha64 := hi.le64
  have hM : ((((List.range ob.size).map fun i => (List.range ib.size).map fun j =>
          ib.punct.getD j 0 % (ob.q i).value).map List.toArray).toArray.getD 0 #[]).toList
      = (List.range ib.size).map (fun j => ib.punct.getD j 0 % (ob.q 0).value) := by
    simp [Array.getD, ho1]
  unfold BaseConverter.exactConvey
  dsimp only
  rw [if_neg (by omega), RNSH.scaled_ok _ hi hx, ok_bind, RNSH.moduloUint_limbs hp hi.pos hi.prod_lt, ok_bind, hM,
    RNSH.dot_ok hi hp _ (fun i hi' => Nat.mod_lt _ (by have := (hi.mwf i hi').two_le; omega)), hS, ok_bind,
    c01p_exactRound_eq _ hi, hS, c01p_round_quot hxl]
  have hv : alpha + (if 2 * x ≥ ib.prod then 1 else 0) < 2^64 := by split <;> omega
  have hqp : ib.prod % (ob.q 0).value < (ob.q 0).value := Nat.mod_lt _ hp0
  rw [mulMod_exact hp hv (by omega), ok_bind,
    subMod_exact hp (Nat.mod_lt _ hp0) (Nat.mod_lt _ hp0)]
  congr 1
  generalize hR : ((x + alpha * ib.prod) % (ob.q 0).value + (ob.q 0).value -
    (alpha + (if 2 * x ≥ ib.prod then 1 else 0)) * (ib.prod % (ob.q 0).value) % (ob.q 0).value) % (ob.q 0).value = Rv
  have hRlt : Rv < (ob.q 0).value := by rw [← hR]; exact Nat.mod_lt _ hp0
  have hmod : (Rv : Int) ≡ Spec.centred x ib.prod [ZMOD (ob.q 0).value] := by
    rw [← hR]
    refine (cast_subrep_modEq (by
      have := Nat.mod_lt ((alpha + (if 2 * x ≥ ib.prod then 1 else 0)) * (ib.prod % (ob.q 0).value)) hp0
      omega)).trans ?_
    have e1 := cast_mod_modEq (x + alpha * ib.prod) (ob.q 0).value
    have e2 := cast_mul_modEq (alpha + (if 2 * x ≥ ib.prod then 1 else 0)) (ib.prod % (ob.q 0).value) (ob.q 0).value
    have e3 := (cast_mod_modEq ib.prod (ob.q 0).value).mul_left ((alpha + (if 2 * x ≥ ib.prod then 1 else 0) : Nat) : Int)
    refine (e1.sub (e2.trans e3)).trans ?_
    unfold Spec.centred
    rw [Nat.mod_eq_of_lt hxl]
    by_cases h2 : 2 * x ≥ ib.prod
    · rw [if_pos h2, if_pos (by omega)]
      push_cast
      have : (x : Int) + alpha * ib.prod - (alpha + 1) * ib.prod = x - ib.prod := by ring
      rw [this]
    · rw [if_neg h2, if_neg (by omega)]
      push_cast
      have : (x : Int) + alpha * ib.prod - (alpha + 0) * ib.prod = x := by ring
      rw [this]
  have := eq_emod_of_modEq hRlt hmod
  unfold Spec.imod
  omega

theorem c01p_mapM_map_ok {α β γ : Type} (l : List α) (g : α → β) (f : β → R γ) (h : α → γ)
    (H : ∀ a ∈ l, f (g a) = .ok (h a)) : (l.map g).mapM f = .ok (l.map h) := by
  induction l with
  | nil => rfl
  | cons a l ih =>
    rw [List.map_cons, List.mapM_cons, H a (by simp), ok_bind, ih (fun x hx => H x (by simp [hx])), ok_bind]
    rfl

/-- `decryptModT` on a canonical RNS polynomial whose coefficients have known CRT values `X j` (no tie 2·X j = Q):
    the centred value modulo t -/
theorem c01p_decryptModT_of_crt {l : Level} (hd : DecOK l) {p : RnsPoly} (hp : RnsCanon l p) (X : Nat → Nat)
    (hX : ∀ j, j < l.n → X j < l.tool.baseQ.prod ∧ ∀ i, i < l.size → X j % (l.q i).value = (p.getD i #[]).getD j 0)
    (htie : ∀ j, j < l.n → 2 * X j ≠ l.tool.baseQ.prod) :
    ∃ d, l.tool.decryptModT p = .ok d ∧ d.size = l.n ∧ ∀ j, j < l.n →
      d.getD j 0 = Spec.imod (Spec.centred (X j) l.tool.baseQ.prod) l.t.value := by
  have hb := hd.tool.qwf
  have hsz := c01p_base_size hd
  obtain ⟨bt, cT, hqT, hbt, hbt1, hbt0, hnew⟩ := hd.tool.qT
  have hcol : ∀ j, j < l.n → cT.exactConvey (p.map (fun comp => comp.getD j 0)) =
      .ok (Spec.imod (Spec.centred (X j) l.tool.baseQ.prod) l.t.value) := by
    intro j hj
    have hps : p.size = l.tool.baseQ.size := by rw [hp.1, hsz]
    have hcg : ∀ i, i < l.tool.baseQ.size → (p.map (fun comp => comp.getD j 0)).getD i 0 = (p.getD i #[]).getD j 0 :=
      fun i hi => c01p_getD_map_gen _ _ #[] (by rw [hps]; exact hi)
    have := c01p_exactConvey_spec hb hbt hbt1 hnew (xs := p.map (fun comp => comp.getD j 0)) (x := X j)
      (fun i hi => by
        rw [hcg i hi]
        have h1 := (hp.2 i (by omega)).2 j hj
        have h2 := (hb.mwf i hi).lt
        rw [c01p_base_q hd (by omega)] at h2
        omega)
      (hX j hj).1
      (fun i hi => by
        rw [hcg i hi, c01p_base_q hd (by omega), (hX j hj).2 i (by omega)]
        exact (Nat.mod_eq_of_lt ((hp.2 i (by omega)).2 j hj)).symm)
      (htie j hj)
    rw [this, hbt0, hd.t_eq]
  unfold RNSTool.decryptModT
  rw [hqT]
  dsimp only
  rw [c01p_transpose_toList, c01p_mapM_map_ok _ _ _ (fun j => Spec.imod (Spec.centred (X j) l.tool.baseQ.prod) l.t.value)
    (fun j hj => hcol j (by rw [← hd.n_eq]; exact List.mem_range.mp hj)), ok_bind]
  refine ⟨_, rfl, by simp [hd.n_eq], fun j hj => ?_⟩
  rw [getD_rangeMap _ _ (by rw [hd.n_eq]; exact hj)]

/-! ### BGV decryption of a size-2 ciphertext (NTT form) -/

theorem c01p_bgvDecrypt_eq (l : Level) (sk : Array Int) (c0 c1 : RnsPoly) (cf : Nat) :
    bgvDecrypt l sk ⟨#[c0, c1], true, cf⟩ = (do
      let ph ← dotProductCtSk l sk ⟨#[c0, c1], true, 1⟩
      let d ← l.tool.decryptModT (rnsIntt l ph)
      let d ← if cf ≠ 1 then do
          match ← tryInvert cf l.t.value with
          | none => .error .refused
          | some fix => mapM' d (fun x => mulMod x fix l.t)
        else pure d
      pure (trimPlain d)) := rfl

theorem c01p_rnsIntt_size (l : Level) (a : RnsPoly) : (rnsIntt l a).size = l.size := by
  simp [rnsIntt]

/-- the coefficient form of a canonical NTT-form polynomial is canonical -/
theorem c01p_rnsIntt_canon {l : Level} (hl : l.WF) {a : RnsPoly} (ha : RnsCanon l a) : RnsCanon l (rnsIntt l a) := by
  refine ⟨c01p_rnsIntt_size l a, fun i hi => ?_⟩
  obtain ⟨htw, htm, htn, hqw⟩ := c01o_level_comp hl hi
  rw [c01o_rnsIntt_getD l a hi]
  obtain ⟨a1, a2⟩ := intt_sim htw (a.getD i #[]) (by rw [(ha.2 i hi).1, htn]) (fun j hj => by
    have := (ha.2 i hi).2 j (by omega)
    omega)
  exact ⟨by rw [a1, htn], fun j hj => by have := (a2 j (by omega)).1; omega⟩

/-- the exact phase coefficients (of the coefficient forms of c0, c1) are the CRT values of the coefficient form of the
    model's NTT-form phase -/
theorem c01p_phase_link_ntt {l : Level} (hl : l.WF) (hd : DecOK l) {sk : Array Int} (hsk : sk.size = l.n) {c0 c1 : RnsPoly}
    (h0 : RnsCanon l c0) (h1 : RnsCanon l c1) :
    ∃ ph, dotProductCtSk l sk ⟨#[c0, c1], true, 1⟩ = .ok ph ∧ RnsCanon l (rnsIntt l ph) ∧
      ∀ j, j < l.n → c01p_X (c01p_qvals l) l.n sk (rnsIntt l c0) (rnsIntt l c1) j < l.tool.baseQ.prod ∧
        ∀ i, i < l.size → c01p_X (c01p_qvals l) l.n sk (rnsIntt l c0) (rnsIntt l c1) j % (l.q i).value
          = ((rnsIntt l ph).getD i #[]).getD j 0 := by
  obtain ⟨ph, hdot, hcan, hv⟩ := dotProduct_size2_ntt hl hsk h0 h1
  have hsz := c01p_base_size hd
  refine ⟨ph, hdot, c01p_rnsIntt_canon hl hcan, fun j hj => ?_⟩
  rw [c01p_qvals_eq hd]
  obtain ⟨x1, x2⟩ := c01p_X_spec hd.tool.qwf (n := l.n) (sk := sk) (c0 := rnsIntt l c0) (c1 := rnsIntt l c1)
    (by rw [c01p_rnsIntt_size, hsz]) (by rw [c01p_rnsIntt_size, hsz]) hj
  refine ⟨x1, fun i hi => ?_⟩
  have := x2 i (by omega)
  rw [c01p_base_q hd hi, c01o_rnsIntt_getD l c0 hi, c01o_rnsIntt_getD l c1 hi] at this
  rw [this, c01o_rnsIntt_getD l ph hi, hv i hi j hj, c01p_skRes_eq]

theorem c01p_invMod_lt (cf : Nat) {t : Nat} (ht : 0 < t) : Spec.invMod cf t < t := by
  unfold Spec.invMod
  generalize Spec.egcd ((cf % t : Nat) : Int) (t : Int) = ga
  obtain ⟨g, a⟩ := ga
  dsimp only
  split
  · have h1 := Int.emod_nonneg a (show (t : Int) ≠ 0 by omega)
    have h2 := Int.emod_lt_of_pos a (show (0 : Int) < (t : Int) by omega)
    omega
  · exact ht

theorem c01p_inv_unique {a b c t : Nat} (ha : a < t) (hb : b < t) (h1 : (a * c) % t = 1) (h2 : (b * c) % t = 1) : a = b := by
  have ht1 : 1 < t := by
    by_contra hle
    have : t = 1 := by omega
    subst this
    rw [Nat.mod_one] at h1; omega
  have e1 : a ≡ a * (b * c) [MOD t] := by
    have : a * (b * c) ≡ a * 1 [MOD t] := Nat.ModEq.mul_left a (by unfold Nat.ModEq; rw [h2, Nat.mod_eq_of_lt ht1])
    rw [Nat.mul_one] at this
    exact this.symm
  have e2 : a * (b * c) ≡ b [MOD t] := by
    have e : a * (b * c) = b * (a * c) := by ring
    rw [e]
    have : b * (a * c) ≡ b * 1 [MOD t] := Nat.ModEq.mul_left b (by unfold Nat.ModEq; rw [h1, Nat.mod_eq_of_lt ht1])
    rw [Nat.mul_one] at this
    exact this
  exact (e1.trans e2).eq_of_lt_of_lt ha hb

/-- no coefficient of the centred exact phase sits exactly at Q/2 (only possible for even Q): there the model's
    `exactRound` rounds up while `Spec.centred` keeps +Q/2 -/
def BgvNoTie (l : Level) (ph : Spec.ZPoly) : Prop :=
  ∀ j, j < l.n → 2 * ph.getD j 0 ≠ (Spec.prodL (c01p_qvals l) : Int)

theorem c01p_bgvDecode_size (t cf : Nat) (ph : Spec.ZPoly) : (Spec.bgvDecode t cf ph).size = ph.size := by
  simp [Spec.bgvDecode]

theorem c01p_bgvDecode_getD (t cf : Nat) (ph : Spec.ZPoly) {j : Nat} (hj : j < ph.size) :
    (Spec.bgvDecode t cf ph).getD j 0 = (Spec.imod (ph.getD j 0) t * Spec.invMod cf t) % t := by
  unfold Spec.bgvDecode
  dsimp only
  rw [c01p_getD_map_gen _ _ (0 : Int) hj]

theorem c01p_tie_of_centred {X Q : Nat} (hX : X < Q) (h : 2 * Spec.centred X Q ≠ (Q : Int)) : 2 * X ≠ Q := by
  intro h2
  apply h
  unfold Spec.centred
  rw [Nat.mod_eq_of_lt hX, if_neg (by omega)]
  exact_mod_cast h2

/-! ## Part E: the exact phase of a ciphertext of ANY size, per component (Horner form) -/

/-- one Horner step of `Spec.phase` -/
def c01p_zStep (sk : Array Int) (Q : Nat) (acc : Option Spec.ZPoly) (c : Spec.ZPoly) : Option Spec.ZPoly :=
  match acc with
  | none => some c
  | some a => some (Spec.zAdd (Spec.zNegMul a sk Q) c Q)

theorem c01p_phase_eq (qs : List Nat) (n : Nat) (sk : Array Int) (polys : List RnsPoly) :
    Spec.phase qs n sk polys =
      (((polys.map (fun p => Spec.crtPoly qs p n)).reverse.foldl (c01p_zStep sk (Spec.prodL qs)) none).getD
        (Array.replicate n 0)).map (fun x => Spec.centred x.toNat (Spec.prodL qs)) := rfl

/-- the same Horner step on the residues modulo one prime q (coefficient form, negacyclic product by explicit sum) -/
def c01p_rStep (n q : Nat) (skr : Array Nat) (acc : Option (Array Nat)) (c : Array Nat) : Option (Array Nat) :=
  match acc with
  | none => some c
  | some a => some (Array.ofFn (n := n) fun j => (negMulNat n q a skr j.val + c.getD j.val 0) % q)

/-- Horner evaluation c_0 + s·(c_1 + s·(…)) modulo (X^n + 1, q) of the components -/
def c01p_hornerRes (n q : Nat) (skr : Array Nat) (comps : List (Array Nat)) : Option (Array Nat) :=
  comps.reverse.foldl (c01p_rStep n q skr) none

/-- the big-integer accumulator and the residue accumulator agree modulo q -/
def c01p_Rel (n Q q : Nat) (accZ : Option Spec.ZPoly) (accR : Option (Array Nat)) : Prop :=
  (accZ = none ∧ accR = none) ∨
  ∃ z a, accZ = some z ∧ accR = some a ∧ z.size = n ∧
    ∀ j, j < n → 0 ≤ z.getD j 0 ∧ z.getD j 0 < (Q : Int) ∧ z.getD j 0 ≡ ((a.getD j 0 : Nat) : Int) [ZMOD q]

theorem c01p_Rel_step {b : RNSBase} (hb : b.WF) {n : Nat} {sk : Array Int} {i : Nat} (hi : i < b.size)
    {accZ : Option Spec.ZPoly} {accR : Option (Array Nat)}
    (hrel : c01p_Rel n b.prod (b.q i).value accZ accR) {p : RnsPoly} (hp : p.size = b.size) :
    c01p_Rel n b.prod (b.q i).value (c01p_zStep sk b.prod accZ (Spec.crtPoly (c01p_bvals b) p n))
      (c01p_rStep n (b.q i).value (c01p_skResQ sk (b.q i).value) accR (p.getD i #[])) := by
  have hQ0 := hb.prod_pos
  have hQz : (0 : Int) < (b.prod : Int) := by exact_mod_cast hQ0
  have hq2 := (hb.mwf i hi).two_le
  have hq0 : 0 < (b.q i).value := by omega
  have hdvd : ((b.q i).value : Int) ∣ (b.prod : Int) := by exact_mod_cast hb.q_dvd_prod hi
  have hcrt : ∀ m, m < n → (Spec.crtPoly (c01p_bvals b) p n).getD m 0 ≡ (((p.getD i #[]).getD m 0 : Nat) : Int)
      [ZMOD (b.q i).value] := by
    intro m hm
    rw [c01p_crtPoly_getD _ _ _ hm]
    apply Int.natCast_modEq_iff.mpr
    unfold Nat.ModEq
    rw [(c01p_crt_spec hb _).2 i hi, c01p_toList_map_getD p _ (by rw [hp]; exact hi)]
  rcases hrel with ⟨rfl, rfl⟩ | ⟨z, a, rfl, rfl, hzs, hz⟩
  · refine Or.inr ⟨_, _, rfl, rfl, c01p_crtPoly_size _ _ _, fun j hj => ⟨?_, ?_, hcrt j hj⟩⟩
    · rw [c01p_crtPoly_getD _ _ _ hj]; exact Int.natCast_nonneg _
    · rw [c01p_crtPoly_getD _ _ _ hj]; exact_mod_cast (c01p_crt_spec hb _).1
  · refine Or.inr ⟨_, _, rfl, rfl, by rw [c01p_zAdd_size, c01p_zNegMul_size, hzs], fun j hj => ?_⟩
    rw [c01p_zAdd_getD _ _ _ (by rw [c01p_zNegMul_size, hzs]; exact hj),
      c01p_zNegMul_getD _ _ _ (by rw [hzs]; exact hj), hzs, c01p_contrib_sum n _ _ hj]
    refine ⟨Int.emod_nonneg _ (by omega), Int.emod_lt_of_pos _ hQz, ?_⟩
    have hSm := c01p_negsum_modEq n z sk a hq0 (fun m hm => (hz m hm).2.2) j
    generalize (∑ i ∈ range n, if i ≤ j then z.getD i 0 * sk.getD (j - i) 0
      else - (z.getD i 0 * sk.getD (n + j - i) 0)) = S at hSm ⊢
    have e1 : (S % (b.prod : Int) + (Spec.crtPoly (c01p_bvals b) p n).getD j 0) % (b.prod : Int)
        ≡ S + (Spec.crtPoly (c01p_bvals b) p n).getD j 0 [ZMOD (b.q i).value] :=
      ((Int.mod_modEq _ _).trans ((Int.mod_modEq S (b.prod : Int)).add_right _)).of_dvd hdvd
    refine e1.trans ?_
    rw [c01o_ofFn_getD _ _ _ hj]
    refine Int.ModEq.trans ?_ (cast_mod_modEq _ _).symm
    push_cast
    exact hSm.add (hcrt j hj)

theorem c01p_Rel_fold {b : RNSBase} (hb : b.WF) {n : Nat} {sk : Array Int} {i : Nat} (hi : i < b.size)
    (L : List RnsPoly) (hL : ∀ p ∈ L, p.size = b.size)
    {accZ : Option Spec.ZPoly} {accR : Option (Array Nat)} (hrel : c01p_Rel n b.prod (b.q i).value accZ accR) :
    c01p_Rel n b.prod (b.q i).value
      ((L.map (fun p => Spec.crtPoly (c01p_bvals b) p n)).foldl (c01p_zStep sk b.prod) accZ)
      ((L.map (fun p => p.getD i #[])).foldl (c01p_rStep n (b.q i).value (c01p_skResQ sk (b.q i).value)) accR) := by
  induction L generalizing accZ accR with
  | nil => exact hrel
  | cons p L ih =>
    rw [List.map_cons, List.map_cons, List.foldl_cons, List.foldl_cons]
    exact ih (fun p' hp' => hL p' (by simp [hp'])) (c01p_Rel_step hb hi hrel (hL p (by simp)))

theorem c01p_zStep_fold_some (sk : Array Int) (Q : Nat) (L : List Spec.ZPoly) (z : Spec.ZPoly) :
    ∃ z', L.foldl (c01p_zStep sk Q) (some z) = some z' := by
  induction L generalizing z with
  | nil => exact ⟨z, rfl⟩
  | cons c L ih => exact ih _

/-- GENERAL SIZE, exact side: coefficient j of `Spec.phase` is the centred lift of a value X < Q whose residue modulo
    every q_i is coefficient j of the per-component Horner evaluation -/
theorem c01p_phase_general {b : RNSBase} (hb : b.WF) {n : Nat} {sk : Array Int} {polys : List RnsPoly}
    (hne : polys ≠ []) (hsz : ∀ p ∈ polys, p.size = b.size) {j : Nat} (hj : j < n) :
    (Spec.phase (c01p_bvals b) n sk polys).size = n ∧ ∃ X, X < b.prod ∧ (Spec.phase (c01p_bvals b) n sk polys).getD j 0 = Spec.centred X b.prod ∧
      ∀ i, i < b.size → ∃ a, c01p_hornerRes n (b.q i).value (c01p_skResQ sk (b.q i).value)
          (polys.map (fun p => p.getD i #[])) = some a ∧ X % (b.q i).value = a.getD j 0 % (b.q i).value := by
  rw [c01p_phase_eq, c01p_prodL_bvals hb, ← List.map_reverse]
  have hne' : polys.reverse ≠ [] := by simpa using hne
  obtain ⟨p0, L, hpl⟩ := List.exists_cons_of_ne_nil hne'
  have hmem : ∀ p ∈ polys.reverse, p.size = b.size := fun p hp => hsz p (by simpa using hp)
  -- the accumulator is `some z`
  obtain ⟨z, hz⟩ : ∃ z, (polys.reverse.map (fun p => Spec.crtPoly (c01p_bvals b) p n)).foldl (c01p_zStep sk b.prod) none = some z := by
    rw [hpl, List.map_cons, List.foldl_cons]
    exact c01p_zStep_fold_some _ _ _ _
  -- facts from any one component (there is at least one)
  have h0 := c01p_Rel_fold hb (n := n) (sk := sk) hb.pos polys.reverse hmem (Or.inl ⟨rfl, rfl⟩)
  rw [hz] at h0 ⊢
  rcases h0 with ⟨h, _⟩ | ⟨z', a', hz', _, hzs, hzv⟩
  · cases h
  injection hz' with hz'
  subst hz'
  refine ⟨by rw [Option.getD_some, Array.size_map, hzs], (z.getD j 0).toNat, ?_, ?_, fun i hi => ?_⟩
  · have := hzv j hj; omega
  · rw [Option.getD_some, c01p_getD_map_int _ _ (by rw [hzs]; exact hj)]
  · have hi' := c01p_Rel_fold hb (n := n) (sk := sk) hi polys.reverse hmem (Or.inl ⟨rfl, rfl⟩)
    rw [hz] at hi'
    rcases hi' with ⟨h, _⟩ | ⟨z', a, hz', ha, -, hv⟩
    · cases h
    injection hz' with hz'
    subst hz'
    refine ⟨a, ?_, ?_⟩
    · unfold c01p_hornerRes
      rw [← List.map_reverse]; exact ha
    · have h1 := (hv j hj).2.2
      have h2 := (hv j hj).1
      rw [← Int.toNat_of_nonneg h2] at h1
      exact Int.natCast_modEq_iff.mp h1


/-! ### decryption from ANY model phase whose residues are known (used for size 2 above, and for general size below) -/

theorem c01p_bfv_core {l : Level} (hd : DecOK l) {sk : Array Int} {ct : Ct} (hn : ct.ntt = false) {ph : RnsPoly}
    (hdot : dotProductCtSk l sk ct = .ok ph) (hcan : RnsCanon l ph) {Z : Spec.ZPoly} (hZs : Z.size = l.n) (X : Nat → Nat)
    (hX : ∀ j, j < l.n → X j < l.tool.baseQ.prod ∧ ∀ i, i < l.size → X j % (l.q i).value = (ph.getD i #[]).getD j 0)
    (hZ : ∀ j, j < l.n → Z.getD j 0 = Spec.centred (X j) l.tool.baseQ.prod) (hnoise : BehzDecryptOK l Z) :
    bfvDecrypt l sk ct = .ok (Spec.trim (Spec.bfvDecode l.t.value (Spec.prodL (c01p_qvals l)) Z)) := by
  have hQ := c01p_prodL_qvals hd
  obtain ⟨d, hdok, hdsz, hdv⟩ := c01p_decrypt_of_crt hd hcan X hX
    (fun j hj => by
      have := hnoise j hj
      rw [hZ j hj, hQ] at this
      exact this)
  unfold bfvDecrypt
  rw [if_neg (by rw [hn]; simp), hdot, ok_bind, hdok, ok_bind]
  show Except.ok (trimPlain d) = _
  unfold Spec.trim
  congr 2
  apply array_ext_getD hdsz (by rw [c01p_bfvDecode_size, hZs])
  intro j hj
  rw [hdv j hj, c01p_bfvDecode_getD _ _ _ (by rw [hZs]; exact hj), hZ j hj, hQ]

theorem c01p_bgv_core {l : Level} (hd : DecOK l) {sk : Array Int} {ct : Ct} (hn : ct.ntt = true) {ph : RnsPoly}
    (hdot : dotProductCtSk l sk ct = .ok ph) (hcan : RnsCanon l (rnsIntt l ph)) (hcf : ct.cf < 2^63)
    (hcop : Nat.Coprime ct.cf l.t.value) {Z : Spec.ZPoly} (hZs : Z.size = l.n) (X : Nat → Nat)
    (hX : ∀ j, j < l.n → X j < l.tool.baseQ.prod ∧
      ∀ i, i < l.size → X j % (l.q i).value = ((rnsIntt l ph).getD i #[]).getD j 0)
    (hZ : ∀ j, j < l.n → Z.getD j 0 = Spec.centred (X j) l.tool.baseQ.prod) (htie : BgvNoTie l Z) :
    bgvDecrypt l sk ct = .ok (Spec.trim (Spec.bgvDecode l.t.value ct.cf Z)) := by
  have hQ := c01p_prodL_qvals hd
  have htw : l.t.WF := by rw [← hd.t_eq]; exact hd.tool.twf
  have ht2 := htw.two_le
  have ht61 := htw.lt
  obtain ⟨d, hdok, hdsz, hdv⟩ := c01p_decryptModT_of_crt hd hcan X hX
    (fun j hj => by
      have := htie j hj
      rw [hZ j hj, hQ] at this
      exact c01p_tie_of_centred (hX j hj).1 this)
  have hdlt : ∀ j, j < l.n → d.getD j 0 < l.t.value := by
    intro j hj
    rw [hdv j hj]
    unfold Spec.imod
    have h1 := Int.emod_nonneg (Spec.centred (X j) l.tool.baseQ.prod) (show (l.t.value : Int) ≠ 0 by omega)
    have h2 := Int.emod_lt_of_pos (Spec.centred (X j) l.tool.baseQ.prod) (show (0 : Int) < (l.t.value : Int) by omega)
    omega
  have hinv := c01j_invMod_spec ht2 (by omega : l.t.value < 2^199) hcop
  rw [Nat.mod_eq_of_lt (by omega : 1 < l.t.value)] at hinv
  have hinvlt := c01p_invMod_lt ct.cf (show 0 < l.t.value by omega)
  have hfinal : trimPlain (d.map (fun x => (x * Spec.invMod ct.cf l.t.value) % l.t.value)) =
      Spec.trim (Spec.bgvDecode l.t.value ct.cf Z) := by
    unfold Spec.trim
    congr 1
    apply array_ext_getD (by rw [Array.size_map, hdsz]) (by rw [c01p_bgvDecode_size, hZs])
    intro j hj
    rw [c10i_getD_map_lt _ _ (by rw [hdsz]; exact hj), hdv j hj,
      c01p_bgvDecode_getD _ _ _ (by rw [hZs]; exact hj), hZ j hj]
  unfold bgvDecrypt
  rw [if_neg (by rw [hn]; simp), hdot, ok_bind, hdok, ok_bind]
  dsimp only
  by_cases hc1 : ct.cf = 1
  · rw [if_neg (by omega)]
    have e1 : Spec.invMod ct.cf l.t.value = 1 :=
      c01p_inv_unique hinvlt (by omega) hinv (by rw [hc1]; exact Nat.mod_eq_of_lt (by omega))
    have e2 : d = d.map (fun x => (x * Spec.invMod ct.cf l.t.value) % l.t.value) := by
      apply array_ext_getD hdsz (by rw [Array.size_map, hdsz])
      intro j hj
      rw [c10i_getD_map_lt _ _ (by rw [hdsz]; exact hj), e1, Nat.mul_one, Nat.mod_eq_of_lt (hdlt j hj)]
    show Except.ok (trimPlain d) = _
    rw [← hfinal, ← e2]
  · rw [if_pos hc1]
    have hcf0 : ct.cf ≠ 0 := by
      intro h0
      rw [h0, Nat.coprime_zero_left] at hcop; omega
    obtain ⟨fix, hfx, hfl, hfi⟩ := (tryInvert_spec_partial ht2 ht61 (by omega : ct.cf < 2^64) hcf).1 ⟨hcf0, hcop⟩
    have e1 : fix = Spec.invMod ct.cf l.t.value := c01p_inv_unique hfl hinvlt hfi hinv
    have hmap : mapM' d (fun x => mulMod x fix l.t) = .ok (d.map (fun x => (x * Spec.invMod ct.cf l.t.value) % l.t.value)) := by
      rw [← e1]
      apply mapM'_ok
      intro x hx
      have hxl : x < l.t.value := mem_lt_of_getD (fun j hj => hdlt j (by rw [← hdsz]; exact hj)) x hx
      exact mulMod_exact htw (by omega) (by omega)
    rw [hfx, ok_bind]
    dsimp only
    rw [hmap, ok_bind, ← hfinal]
    rfl

/-- the CRT values of the general-size exact phase, chosen for all coefficients at once -/
theorem c01p_phase_general_choice {l : Level} (hd : DecOK l) {sk : Array Int} {polys : List RnsPoly}
    (hne : polys ≠ []) (hsz : ∀ p ∈ polys, p.size = l.size) :
    (0 < l.n → (Spec.phase (c01p_qvals l) l.n sk polys).size = l.n) ∧
    ∃ X : Nat → Nat, ∀ j, j < l.n → X j < l.tool.baseQ.prod ∧
      (Spec.phase (c01p_qvals l) l.n sk polys).getD j 0 = Spec.centred (X j) l.tool.baseQ.prod ∧
      ∀ i, i < l.size → ∃ a, c01p_hornerRes l.n (l.q i).value (skRes l sk i) (polys.map (fun p => p.getD i #[])) = some a ∧
        X j % (l.q i).value = a.getD j 0 % (l.q i).value := by
  have hb := hd.tool.qwf
  have hs := c01p_base_size hd
  have hsz' : ∀ p ∈ polys, p.size = l.tool.baseQ.size := fun p hp => by rw [hs]; exact hsz p hp
  rw [c01p_qvals_eq hd]
  refine ⟨fun h0 => (c01p_phase_general hb (sk := sk) hne hsz' h0).1, ?_⟩
  have hex : ∀ j, ∃ X, j < l.n → X < l.tool.baseQ.prod ∧
      (Spec.phase (c01p_bvals l.tool.baseQ) l.n sk polys).getD j 0 = Spec.centred X l.tool.baseQ.prod ∧
      ∀ i, i < l.size → ∃ a, c01p_hornerRes l.n (l.q i).value (skRes l sk i) (polys.map (fun p => p.getD i #[])) = some a ∧
        X % (l.q i).value = a.getD j 0 % (l.q i).value := by
    intro j
    by_cases hj : j < l.n
    · obtain ⟨-, X, x1, x2, x3⟩ := c01p_phase_general hb (sk := sk) hne hsz' hj
      refine ⟨X, fun _ => ⟨x1, x2, fun i hi => ?_⟩⟩
      obtain ⟨a, a1, a2⟩ := x3 i (by omega)
      rw [c01p_base_q hd hi] at a1 a2
      exact ⟨a, a1, a2⟩
    · exact ⟨0, fun h => absurd h hj⟩
  choose X hX using hex
  exact ⟨X, hX⟩

/-! ## Part C: `DecOK` from the constructor `RNSTool.new` -/

theorem c01p_bind_ok {α β : Type} {x : R α} {f : α → R β} {b : β} (h : (x >>= f) = .ok b) :
    ∃ a, x = .ok a ∧ f a = .ok b := by
  cases x with
  | error e => cases h
  | ok a => exact ⟨a, rfl, h⟩

theorem c01p_pure_bind {α β : Type} (a : α) (f : α → R β) : ((pure a : R α) >>= f) = f a := rfl

/-- everything `RNSTool.new` does for the plain-modulus related constants (t ≠ 0), read off its definition -/
theorem c01p_new_inv {n : Nat} {q : RNSBase} {t : Modulus} {aux : List Modulus} {r : RNSTool}
    (h : RNSTool.new n q t aux = .ok r) (ht0 : ¬ t.value = 0) :
    ∃ btg conv bt cT g ig ptg niq,
      2 ≤ aux.length ∧ 1 ≤ q.size ∧
      RNSBase.new [t, aux.getD 1 default] = .ok btg ∧ BaseConverter.new q btg = .ok conv ∧
      RNSBase.new [t] = .ok bt ∧ BaseConverter.new q bt = .ok cT ∧
      barrett64 (aux.getD 1 default).value t = .ok g ∧
      (do let o ← tryInvert g t.value
          match o with
          | none => .error .refused
          | some iv => MulOperand.new iv t : R MulOperand) = .ok ig ∧
      q.base.toList.mapM (fun m => do
          let v ← mulMod t.value (aux.getD 1 default).value m
          MulOperand.new v m) = .ok ptg ∧
      btg.base.toList.mapM (fun m => do
          let op ← moduloUint (limbsOf q.size q.prod) m
          let o ← tryInvert op m.value
          match o with
          | none => .error .refused
          | some iv => do
            let ng ← negateMod iv m
            MulOperand.new ng m) = .ok niq ∧
      r.n = n ∧ r.baseQ = q ∧ r.t = t ∧ r.gamma = aux.getD 1 default ∧ r.baseTGamma = some btg ∧
      r.qToTGamma = some conv ∧ r.qToT = some cT ∧ r.invGammaModT = some ig ∧
      r.prodTGammaModQ = ptg.toArray ∧ r.negInvQModTGamma = niq.toArray := by
  unfold RNSTool.new at h
  split at h
  · cases h
  rename_i hqs
  split at h
  · cases h
  dsimp only at h
  split at h
  · cases h
  rename_i hlen
  obtain ⟨mTilde, hmt, h1⟩ := c01p_bind_ok h; clear h
  obtain ⟨baseB, hbB, h⟩ := c01p_bind_ok h1; clear h1
  obtain ⟨baseBsk, hbBsk, h1⟩ := c01p_bind_ok h; clear h
  obtain ⟨baseBskMt, hbBskMt, h⟩ := c01p_bind_ok h1; clear h1
  obtain ⟨btg, hbtg, h1⟩ := c01p_bind_ok h; clear h
  rw [c01p_pure_bind] at h1
  obtain ⟨bt, hbt, h⟩ := c01p_bind_ok h1; clear h1
  obtain ⟨cT, hcT, h1⟩ := c01p_bind_ok h; clear h
  rw [c01p_pure_bind] at h1
  obtain ⟨qToBsk, hqToBsk, h⟩ := c01p_bind_ok h1; clear h1
  obtain ⟨bMt, hbMt, h1⟩ := c01p_bind_ok h; clear h
  obtain ⟨qToMt, hqToMt, h⟩ := c01p_bind_ok h1; clear h1
  obtain ⟨bToQ, hbToQ, h1⟩ := c01p_bind_ok h; clear h
  obtain ⟨bMsk, hbMsk, h⟩ := c01p_bind_ok h1; clear h1
  obtain ⟨bToMsk, hbToMsk, h1⟩ := c01p_bind_ok h; clear h
  dsimp only at h1
  obtain ⟨conv, hconv, h⟩ := c01p_bind_ok h1; clear h1
  rw [c01p_pure_bind] at h
  obtain ⟨prodBModQ, hprodBModQ, h1⟩ := c01p_bind_ok h; clear h
  obtain ⟨invProdQModBsk, hinvProdQModBsk, h⟩ := c01p_bind_ok h1; clear h1
  obtain ⟨tb, htb, h1⟩ := c01p_bind_ok h; clear h
  obtain ⟨invProdBModMsk, hinvProdBModMsk, h⟩ := c01p_bind_ok h1; clear h1
  obtain ⟨invMtModBsk, hinvMtModBsk, h1⟩ := c01p_bind_ok h; clear h
  obtain ⟨tq, htq, h⟩ := c01p_bind_ok h1; clear h1
  obtain ⟨otq, hotq, h1⟩ := c01p_bind_ok h; clear h
  cases otq with
  | none => cases h1
  | some ivq =>
  dsimp only at h1
  obtain ⟨ngq, hngq, h⟩ := c01p_bind_ok h1; clear h1
  obtain ⟨negInvProdQModMt, hnegInvProdQModMt, h1⟩ := c01p_bind_ok h; clear h
  obtain ⟨prodQModBsk, hprodQModBsk, h⟩ := c01p_bind_ok h1; clear h1
  obtain ⟨g, hg, h1⟩ := c01p_bind_ok h; clear h
  obtain ⟨ig, hig, h⟩ := c01p_bind_ok h1; clear h1
  obtain ⟨ptg, hptg, h1⟩ := c01p_bind_ok h; clear h
  obtain ⟨niq, hniq, h⟩ := c01p_bind_ok h1; clear h1
  rw [c01p_pure_bind] at h
  dsimp only at h
  obtain ⟨invQLastModQ, hinvQLastModQ, h1⟩ := c01p_bind_ok h; clear h
  obtain ⟨oql, hoql, h⟩ := c01p_bind_ok h1; clear h1
  cases oql with
  | none => cases h
  | some ivl =>
  dsimp only at h
  rw [c01p_pure_bind] at h
  injection h with h
  subst h
  exact ⟨btg, conv, bt, cT, g, ig, ptg, niq, by omega, by omega, hbtg, hconv, hbt, hcT, hg, hig, hptg, hniq,
    rfl, rfl, rfl, rfl, rfl, rfl, rfl, rfl, rfl, rfl⟩

/-- `invOf v m` of `RNSTool.new` -/
theorem c01p_invOf_spec {m : Modulus} (hm : m.WF) {g : Nat} (hg : g < 2^63) {o : MulOperand}
    (h : (do let o ← tryInvert g m.value
             match o with
             | none => .error .refused
             | some iv => MulOperand.new iv m : R MulOperand) = .ok o) :
    WFOp m o ∧ (o.operand * g) % m.value = 1 := by
  obtain ⟨ov, h1, h2⟩ := c01p_bind_ok h
  cases ov with
  | none => cases h2
  | some iv =>
    obtain ⟨hlt, hinv⟩ := tryInvert_some hm.two_le hm.lt hg h1
    obtain ⟨e1, e2⟩ := mulOperand_new_eq hm hlt h2
    exact ⟨⟨by rw [e1]; exact hlt, by rw [e2, e1]⟩, by rw [e1]; exact hinv⟩

theorem c01p_neg_inv_arith {m iv P : Nat} (hlt : iv < m) (hinv' : (iv * P) % m = 1) : ((m - iv) * P + 1) % m = 0 := by
  have e : (m - iv) * P + iv * P = m * P := by
    rw [← Nat.add_mul, Nat.sub_add_cancel hlt.le]
  have hc := Nat.div_add_mod (iv * P) m
  rw [hinv'] at hc
  generalize iv * P / m = c at hc
  apply Nat.mod_eq_zero_of_dvd
  have hd : m ∣ ((m - iv) * P + 1) + m * c := ⟨P, by omega⟩
  exact (Nat.dvd_add_left (Dvd.intro c rfl)).mp hd

/-- the negated inverse of `P` modulo `m` as `RNSTool.new` computes it -/
theorem c01p_negInv_spec {m : Modulus} (hm : m.WF) {n P : Nat} (hn : 0 < n) (hP : P < 2^(64*n)) {o : MulOperand}
    (h : (do let op ← moduloUint (limbsOf n P) m
             let o ← tryInvert op m.value
             match o with
             | none => .error .refused
             | some iv => do
               let ng ← negateMod iv m
               MulOperand.new ng m : R MulOperand) = .ok o) :
    WFOp m o ∧ (o.operand * P + 1) % m.value = 0 := by
  have h2 := hm.two_le
  have h61 := hm.lt
  rw [RNSH.moduloUint_limbs hm hn hP, ok_bind] at h
  have hop : P % m.value < m.value := Nat.mod_lt _ (by omega)
  obtain ⟨ov, h1, h3⟩ := c01p_bind_ok h
  cases ov with
  | none => cases h3
  | some iv =>
    obtain ⟨hlt, hinv⟩ := tryInvert_some h2 h61 (by omega) h1
    have hiv0 : iv ≠ 0 := by
      rintro rfl
      rw [Nat.zero_mul, Nat.zero_mod] at hinv; omega
    dsimp only at h3
    rw [negateMod_exact hm hlt.le] at h3
    have hng : (m.value - iv) % m.value = m.value - iv := Nat.mod_eq_of_lt (by omega)
    rw [hng] at h3
    obtain ⟨e1, e2⟩ := mulOperand_new_eq hm (by omega : m.value - iv < m.value) h3
    refine ⟨⟨by rw [e1]; omega, by rw [e2, e1]⟩, ?_⟩
    rw [e1]
    have hinv' : (iv * P) % m.value = 1 := by rw [Nat.mul_mod, Nat.mod_eq_of_lt hlt, hinv]
    exact c01p_neg_inv_arith hlt hinv'

theorem c01p_getD_toArray {α : Type} (l : List α) (d : α) {i : Nat} (hi : i < l.length) : l.toArray.getD i d = l[i] := by
  simp [Array.getD, hi]

/-- `RNSTool.new` (t ≠ 0) establishes `c01p_ToolDecOK` -/
theorem c01p_toolDecOK_of_new {n : Nat} {q : RNSBase} {t : Modulus} {aux : List Modulus} {r : RNSTool}
    (hq : q.WF) (ht : t.WF) (haux : ∀ m ∈ aux, m.WF)
    (h : RNSTool.new n q t aux = .ok r) :
    c01p_ToolDecOK r ∧ r.n = n ∧ r.t = t ∧ r.baseQ = q := by
  have ht2 := ht.two_le
  have ht61 := ht.lt
  obtain ⟨btg, conv, bt, cT, g, ig, ptg, niq, hlen, hqs, hbtg, hconv, hbt, hcT, hg, hig, hptg, hniq,
    rn, rq, rt, rgam, rbtg, rconv, rqT, rig, rptg, rniq⟩ := c01p_new_inv h (by omega)
  have hgam : (aux.getD 1 default).WF := by
    apply haux
    have e : aux.getD 1 default = aux[1] := by
      simp [List.getD, List.getElem?_eq_getElem (by omega : 1 < aux.length)]
    rw [e]
    exact List.getElem_mem _
  have hg2 := hgam.two_le
  have hg61 := hgam.lt
  obtain ⟨hbtgwf, hbtgbase⟩ := RNSBase.new_wf (ms := [t, aux.getD 1 default])
    (by intro m hm; simp only [List.mem_cons, List.not_mem_nil, or_false] at hm; rcases hm with rfl | rfl; exact ht; exact hgam)
    (by simp) hbtg
  have hbsz : btg.size = 2 := by unfold RNSBase.size; rw [hbtgbase]; rfl
  have hb0 : btg.q 0 = t := by unfold RNSBase.q; rw [hbtgbase]; rfl
  have hb1 : btg.q 1 = aux.getD 1 default := by unfold RNSBase.q; rw [hbtgbase]; rfl
  -- inverse of gamma modulo t
  rw [barrett64_exact ht (by omega)] at hg
  injection hg with hg
  have hgl : g < t.value := by rw [← hg]; exact Nat.mod_lt _ (by omega)
  obtain ⟨igw, iginv⟩ := c01p_invOf_spec ht (by omega : g < 2^63) hig
  rw [← hg, Nat.mul_mod_mod] at iginv
  -- t·gamma modulo q_i
  have hF := RNSH.mapM_ok_inv _ _ _ hptg
  have hFl := hF.length_eq
  have hptgi : ∀ i, i < q.size → WFOp (q.q i) (ptg.toArray.getD i default) ∧
      (ptg.toArray.getD i default).operand = (t.value * (aux.getD 1 default).value) % (q.q i).value := by
    intro i hi
    have hi1 : i < q.base.toList.length := by simpa [RNSBase.size] using hi
    have hi2 : i < ptg.length := by omega
    have hstep := List.Forall₂.get hF hi1 hi2
    have hqi : q.base.toList.get ⟨i, hi1⟩ = q.q i := by
      unfold RNSBase.q
      have hi3 : i < q.base.size := hi
      simp [Array.getD, hi3]
    rw [hqi] at hstep
    have hmw := hq.mwf i hi
    rw [mulMod_exact hmw (by omega) (by omega)] at hstep
    obtain ⟨e1, e2⟩ := mulOperand_new_eq hmw (Nat.mod_lt _ (by have := hmw.two_le; omega)) hstep
    rw [c01p_getD_toArray _ _ hi2]
    refine ⟨⟨?_, ?_⟩, ?_⟩
    · show (ptg.get ⟨i, hi2⟩).operand < _
      rw [e1]; exact Nat.mod_lt _ (by have := hmw.two_le; omega)
    · show (ptg.get ⟨i, hi2⟩).quotient = (ptg.get ⟨i, hi2⟩).operand * 2^64 / _
      rw [e2, e1]
    · show (ptg.get ⟨i, hi2⟩).operand = _
      rw [e1]
  -- negated inverses of Q modulo t and gamma
  have hbl : btg.base.toList = [t, aux.getD 1 default] := by rw [hbtgbase]
  rw [hbl] at hniq
  have hN := RNSH.mapM_ok_inv _ _ _ hniq
  have hNl := hN.length_eq
  have hn0 := List.Forall₂.get hN (i := 0) (by simp) (by rw [← hNl]; simp)
  have hn1 := List.Forall₂.get hN (i := 1) (by simp) (by rw [← hNl]; simp)
  have hl2 : 1 < niq.length := by rw [← hNl]; simp
  have s0 := c01p_negInv_spec ht (by omega : 0 < q.size) hq.prod_lt hn0
  have s1 := c01p_negInv_spec hgam (by omega : 0 < q.size) hq.prod_lt hn1
  obtain ⟨hbtwf, hbtbase⟩ := RNSBase.new_wf (ms := [t])
    (by intro m hm; simp only [List.mem_cons, List.not_mem_nil, or_false] at hm; rw [hm]; exact ht) (by simp) hbt
  have hbtsz : bt.size = 1 := by unfold RNSBase.size; rw [hbtbase]; rfl
  have hbt0 : bt.q 0 = t := by unfold RNSBase.q; rw [hbtbase]; rfl
  refine ⟨⟨by rw [rq]; exact hq, by rw [rt]; exact ht, by rw [rgam]; exact hgam, ?_, ?_, ?_, ?_,
    ⟨bt, cT, rqT, hbtwf, hbtsz, by rw [hbt0, rt], by rw [rq]; exact hcT⟩⟩, rn, rt, rq⟩
  · refine ⟨btg, conv, ig, rbtg, rconv, rig, hbtgwf, hbsz, by rw [hb0, rt], by rw [hb1, rgam], by rw [rq]; exact hconv,
      by rw [rt]; exact igw, by rw [rt, rgam]; exact iginv⟩
  · intro i hi
    rw [rq] at hi ⊢
    rw [rptg, rt, rgam]
    exact hptgi i hi
  · rw [rniq, rt, rq, c01p_getD_toArray _ _ (by omega : 0 < niq.length)]
    exact s0
  · rw [rniq, rgam, rq, c01p_getD_toArray _ _ hl2]
    exact s1

/-- NON-VACUITY of `DecOK`: a level whose tool was built by the model's constructors (`RNSBase.new` on the level's moduli,
    then `RNSTool.new` with the level's degree and plain modulus) satisfies `DecOK` -/
theorem c01p_decOK_of_new {l : Level} {q : RNSBase} {aux : List Modulus}
    (hm : ∀ m ∈ l.qs.toList, m.WF) (hlen : l.qs.size ≤ 64) (ht : l.t.WF) (haux : ∀ m ∈ aux, m.WF)
    (hq : RNSBase.new l.qs.toList = .ok q) (h : RNSTool.new l.n q l.t aux = .ok l.tool) : DecOK l := by
  obtain ⟨hqwf, hqbase⟩ := RNSBase.new_wf hm (by simpa using hlen) hq
  obtain ⟨h1, h2, h3, h4⟩ := c01p_toolDecOK_of_new hqwf ht haux h
  exact ⟨h2, h3, by rw [h4, hqbase], h1⟩

/-- NON-VACUITY of `Level.WF` (C01O): tables built by `NTTTables.new` for the level's moduli -/
theorem c01p_levelWF_of_new {l : Level} (hn : l.n = 2^l.k) (hk : l.k ≤ 60) (hsz : l.tables.size = l.qs.size)
    (hm : ∀ i, i < l.size → (l.q i).WF)
    (ht : ∀ i, i < l.size → ∃ pr root0, root0 < 2^64 ∧ NTTTables.new l.k (l.q i) pr root0 = .ok (l.tbl i)) : l.WF := by
  refine ⟨hn, hsz, fun i hi => ?_⟩
  obtain ⟨pr, root0, hr, hnew⟩ := ht i hi
  obtain ⟨h1, h2, h3, _⟩ := NTTTables.new_wf_u64 (hm i hi) hk hr hnew
  exact ⟨h1, h3, h2⟩

/-- for an odd modulus product (all moduli odd, the only case the library's parameter sets produce) there are no ties -/
theorem c01p_noTie_of_odd {l : Level} (ph : Spec.ZPoly) (hodd : Spec.prodL (c01p_qvals l) % 2 = 1) : BgvNoTie l ph := by
  intro j _ h
  omega

/-! ## Part D: non-vacuity — a concrete instance of all hypotheses -/

/-! ### a concrete instance of all hypotheses (N = 2, q = 17, t = 5) -/

def c01p_isOk {α : Type} (x : R α) : Bool := match x with | .ok _ => true | .error _ => false

theorem c01p_isOk_val {α : Type} [Inhabited α] {x : R α} (h : c01p_isOk x = true) : x = .ok (c01p_val x) := by
  cases x with
  | ok v => rfl
  | error e => cases h

def c01p_exQ : Modulus := c01p_val (Modulus.mk? 17)
def c01p_exT : Modulus := c01p_val (Modulus.mk? 5)
def c01p_exAux : List Modulus := [c01p_val (Modulus.mk? 13), c01p_val (Modulus.mk? 11), c01p_val (Modulus.mk? 7)]
def c01p_exBase : RNSBase := c01p_val (RNSBase.new [c01p_exQ])
def c01p_exLevel : Level :=
  ⟨.bfv, 2, 1, #[c01p_exQ], c01p_exT, #[c01p_val (NTTTables.new 1 c01p_exQ true 4)],
    c01p_val (RNSTool.new 2 c01p_exBase c01p_exT c01p_exAux)⟩

theorem c01p_mk_val_wf {v : Nat} (h : c01p_isOk (Modulus.mk? v) = true) (hv : v ≠ 0) : (c01p_val (Modulus.mk? v)).WF :=
  (Modulus.mk?_wf (c01p_isOk_val h) hv).1

theorem c01p_exLevel_wf : c01p_exLevel.WF := by
  refine c01p_levelWF_of_new (l := c01p_exLevel) ?_ ?_ ?_ ?_ ?_
  · show 2 = 2^1
    rfl
  · show 1 ≤ 60
    omega
  · show (#[c01p_val (NTTTables.new 1 c01p_exQ true 4)] : Array NTTTables).size = (#[c01p_exQ] : Array Modulus).size
    simp
  · intro i hi
    have : i = 0 := by have : i < 1 := hi; omega
    subst this
    exact c01p_mk_val_wf (v := 17) (by decide) (by decide)
  · intro i hi
    have : i = 0 := by have : i < 1 := hi; omega
    subst this
    exact ⟨true, 4, by norm_num, c01p_isOk_val (by decide)⟩

theorem c01p_exLevel_decOK : DecOK c01p_exLevel := by
  apply c01p_decOK_of_new (q := c01p_exBase) (aux := c01p_exAux)
  · intro m hm
    have : m = c01p_exQ := by simpa [c01p_exLevel] using hm
    rw [this]; exact c01p_mk_val_wf (v := 17) (by decide) (by decide)
  · decide
  · exact c01p_mk_val_wf (v := 5) (by decide) (by decide)
  · intro m hm
    simp only [c01p_exAux, List.mem_cons, List.not_mem_nil, or_false] at hm
    rcases hm with rfl | rfl | rfl
    · exact c01p_mk_val_wf (v := 13) (by decide) (by decide)
    · exact c01p_mk_val_wf (v := 11) (by decide) (by decide)
    · exact c01p_mk_val_wf (v := 7) (by decide) (by decide)
  · exact c01p_isOk_val (by decide)
  · exact c01p_isOk_val (by decide)

def c01p_exSk : Array Int := #[1, 0]
def c01p_exC0 : RnsPoly := #[#[7, 0]]
def c01p_exC1 : RnsPoly := #[#[1, 0]]

theorem c01p_ex_canon (v : Nat) (hv : v < 17) : RnsCanon c01p_exLevel #[#[v, 0]] := by
  refine ⟨rfl, fun i hi => ?_⟩
  have : i = 0 := by have : i < 1 := hi; omega
  subst this
  refine ⟨rfl, fun j hj => ?_⟩
  have hq : (c01p_exLevel.q 0).value = 17 := by decide
  rw [hq]
  have hj2 : j < 2 := hj
  have : j = 0 ∨ j = 1 := by omega
  rcases this with rfl | rfl
  · exact hv
  · show 0 < 17
    omega

theorem c01p_ex_negMul0 : negMulNat 2 17 #[1, 0] (c01p_skResQ #[1, 0] 17) 0 = 1 := by
  simp [negMulNat, c01p_skResQ, Finset.sum_range_succ]

theorem c01p_ex_negMul1 : negMulNat 2 17 #[1, 0] (c01p_skResQ #[1, 0] 17) 1 = 0 := by
  simp [negMulNat, c01p_skResQ, Finset.sum_range_succ]

theorem c01p_ex_X {j : Nat} (hj : j < 2) :
    Spec.centred (c01p_X (c01p_qvals c01p_exLevel) 2 c01p_exSk c01p_exC0 c01p_exC1 j) 17 = if j = 0 then 8 else 0 := by
  have hd := c01p_exLevel_decOK
  have hQ : c01p_exLevel.tool.baseQ.prod = 17 := by rw [← c01p_prodL_qvals hd]; decide
  have hq : (c01p_exLevel.tool.baseQ.q 0).value = 17 := by rw [c01p_base_q hd (by decide)]; decide
  obtain ⟨x1, x2⟩ := c01p_X_spec hd.tool.qwf (n := 2) (sk := c01p_exSk) (c0 := c01p_exC0) (c1 := c01p_exC1)
    (by rw [c01p_base_size hd]; rfl) (by rw [c01p_base_size hd]; rfl) hj
  have h0 := x2 0 (by rw [c01p_base_size hd]; decide)
  rw [← c01p_qvals_eq hd] at x1 h0
  rw [hQ] at x1
  rw [hq, Nat.mod_eq_of_lt x1] at h0
  have : j = 0 ∨ j = 1 := by omega
  rcases this with rfl | rfl
  · rw [h0]
    show Spec.centred ((7 + negMulNat 2 17 #[1, 0] (c01p_skResQ #[1, 0] 17) 0) % 17) 17 = 8
    rw [c01p_ex_negMul0]; decide
  · rw [h0]
    show Spec.centred ((0 + negMulNat 2 17 #[1, 0] (c01p_skResQ #[1, 0] 17) 1) % 17) 17 = 0
    rw [c01p_ex_negMul1]; decide

theorem c01p_ex_behz : BehzDecryptOK c01p_exLevel
    (Spec.phase (c01p_qvals c01p_exLevel) c01p_exLevel.n c01p_exSk [c01p_exC0, c01p_exC1]) := by
  intro j hj
  have hj2 : j < 2 := hj
  have hg : c01p_exLevel.tool.gamma.value = 11 := by decide
  have ht : c01p_exLevel.t.value = 5 := by decide
  have hQ : Spec.prodL (c01p_qvals c01p_exLevel) = 17 := by decide
  have hs : c01p_exLevel.size = 1 := rfl
  have hn : c01p_exLevel.n = 2 := rfl
  rw [hn, c01p_phase2_getD _ _ _ _ _ hj2, hg, ht, hQ, hs, c01p_ex_X hj2]
  have : j = 0 ∨ j = 1 := by omega
  rcases this with rfl | rfl
  · rw [if_pos rfl]
    have : Spec.roundDiv (((5 : Nat) : Int) * 8) 17 = 2 := by decide
    rw [this]
    norm_num
  · rw [if_neg (by omega)]
    have : Spec.roundDiv (((5 : Nat) : Int) * 0) 17 = 0 := by decide
    rw [this]
    norm_num

/-- all hypotheses of `bfvDecrypt_size2_eq_spec` hold simultaneously for a concrete level built by the model's
    constructors (N = 2, q = 17, t = 5, γ = 11) and a concrete ciphertext with non-zero noise -/
theorem c01p_hypotheses_satisfiable :
    ∃ (l : Level) (sk : Array Int) (c0 c1 : RnsPoly), l.WF ∧ DecOK l ∧ sk.size = l.n ∧ RnsCanon l c0 ∧ RnsCanon l c1 ∧
      BehzDecryptOK l (Spec.phase (c01p_qvals l) l.n sk [c0, c1]) :=
  ⟨c01p_exLevel, c01p_exSk, c01p_exC0, c01p_exC1, c01p_exLevel_wf, c01p_exLevel_decOK, rfl,
    c01p_ex_canon 7 (by omega), c01p_ex_canon 1 (by omega), c01p_ex_behz⟩

/-! ## Property theorems -/

/-- MAIN (BFV, size 2, coefficient form): the model's `bfvDecrypt` equals the exact-integer specification
    `trim (bfvDecode t Q (phase …))`, under the BEHZ γ-condition on the exact phase -/
theorem bfvDecrypt_size2_eq_spec {l : Level} (hl : l.WF) (hd : DecOK l) {sk : Array Int} (hsk : sk.size = l.n)
    {c0 c1 : RnsPoly} (h0 : RnsCanon l c0) (h1 : RnsCanon l c1)
    (hnoise : BehzDecryptOK l (Spec.phase (c01p_qvals l) l.n sk [c0, c1])) :
    bfvDecrypt l sk ⟨#[c0, c1], false, 1⟩ =
      .ok (Spec.trim (Spec.bfvDecode l.t.value (Spec.prodL (c01p_qvals l)) (Spec.phase (c01p_qvals l) l.n sk [c0, c1]))) := by
  obtain ⟨ph, hdot, hcan, hX⟩ := c01p_phase_link hl hd hsk h0 h1
  have hQ := c01p_prodL_qvals hd
  obtain ⟨d, hdok, hdsz, hdv⟩ := c01p_decrypt_of_crt hd hcan (c01p_X (c01p_qvals l) l.n sk c0 c1) hX
    (fun j hj => by
      have := hnoise j hj
      rw [c01p_phase2_getD _ _ _ _ _ hj, hQ] at this
      exact this)
  rw [c01p_bfvDecrypt_eq, hdot, ok_bind, hdok, ok_bind]
  show Except.ok (trimPlain d) = _
  unfold Spec.trim
  congr 2
  apply array_ext_getD hdsz (by rw [c01p_bfvDecode_size, c01p_phase2_size])
  intro j hj
  rw [hdv j hj, c01p_bfvDecode_getD _ _ _ (by rw [c01p_phase2_size]; exact hj), c01p_phase2_getD _ _ _ _ _ hj, hQ]

/-- MAIN (BGV, size 2, NTT form, any correction factor cf < 2^63 coprime to t): the model's `bgvDecrypt` equals the
    exact-integer specification on the coefficient forms of the input polynomials; ties x̃ = Q/2 excluded -/
theorem bgvDecrypt_size2_eq_spec {l : Level} (hl : l.WF) (hd : DecOK l) {sk : Array Int} (hsk : sk.size = l.n)
    {c0 c1 : RnsPoly} (h0 : RnsCanon l c0) (h1 : RnsCanon l c1) {cf : Nat} (hcf : cf < 2^63)
    (hcop : Nat.Coprime cf l.t.value)
    (htie : BgvNoTie l (Spec.phase (c01p_qvals l) l.n sk [rnsIntt l c0, rnsIntt l c1])) :
    bgvDecrypt l sk ⟨#[c0, c1], true, cf⟩ =
      .ok (Spec.trim (Spec.bgvDecode l.t.value cf (Spec.phase (c01p_qvals l) l.n sk [rnsIntt l c0, rnsIntt l c1]))) := by
  obtain ⟨ph, hdot, hcan, hX⟩ := c01p_phase_link_ntt hl hd hsk h0 h1
  have hQ := c01p_prodL_qvals hd
  have htw : l.t.WF := by rw [← hd.t_eq]; exact hd.tool.twf
  have ht2 := htw.two_le
  have ht61 := htw.lt
  obtain ⟨d, hdok, hdsz, hdv⟩ := c01p_decryptModT_of_crt hd hcan
    (c01p_X (c01p_qvals l) l.n sk (rnsIntt l c0) (rnsIntt l c1)) hX
    (fun j hj => by
      have := htie j hj
      rw [c01p_phase2_getD _ _ _ _ _ hj, hQ] at this
      exact c01p_tie_of_centred (hX j hj).1 this)
  have hdlt : ∀ j, j < l.n → d.getD j 0 < l.t.value := by
    intro j hj
    rw [hdv j hj]
    unfold Spec.imod
    have h1 := Int.emod_nonneg (Spec.centred (c01p_X (c01p_qvals l) l.n sk (rnsIntt l c0) (rnsIntt l c1) j) l.tool.baseQ.prod)
      (show (l.t.value : Int) ≠ 0 by omega)
    have h2 := Int.emod_lt_of_pos (Spec.centred (c01p_X (c01p_qvals l) l.n sk (rnsIntt l c0) (rnsIntt l c1) j) l.tool.baseQ.prod)
      (show (0 : Int) < (l.t.value : Int) by omega)
    omega
  have hinv := c01j_invMod_spec ht2 (by omega : l.t.value < 2^199) hcop
  rw [Nat.mod_eq_of_lt (by omega : 1 < l.t.value)] at hinv
  have hinvlt := c01p_invMod_lt cf (show 0 < l.t.value by omega)
  -- the decoded value
  have hfinal : trimPlain (d.map (fun x => (x * Spec.invMod cf l.t.value) % l.t.value)) =
      Spec.trim (Spec.bgvDecode l.t.value cf (Spec.phase (c01p_qvals l) l.n sk [rnsIntt l c0, rnsIntt l c1])) := by
    unfold Spec.trim
    congr 1
    apply array_ext_getD (by rw [Array.size_map, hdsz]) (by rw [c01p_bgvDecode_size, c01p_phase2_size])
    intro j hj
    rw [c10i_getD_map_lt _ _ (by rw [hdsz]; exact hj), hdv j hj,
      c01p_bgvDecode_getD _ _ _ (by rw [c01p_phase2_size]; exact hj), c01p_phase2_getD _ _ _ _ _ hj, hQ]
  rw [c01p_bgvDecrypt_eq, hdot, ok_bind, hdok, ok_bind]
  dsimp only
  by_cases hc1 : cf = 1
  · rw [if_neg (by omega)]
    have e1 : Spec.invMod cf l.t.value = 1 :=
      c01p_inv_unique hinvlt (by omega) hinv (by rw [hc1]; exact Nat.mod_eq_of_lt (by omega))
    have e2 : d = d.map (fun x => (x * Spec.invMod cf l.t.value) % l.t.value) := by
      apply array_ext_getD hdsz (by rw [Array.size_map, hdsz])
      intro j hj
      rw [c10i_getD_map_lt _ _ (by rw [hdsz]; exact hj), e1, Nat.mul_one, Nat.mod_eq_of_lt (hdlt j hj)]
    show Except.ok (trimPlain d) = _
    rw [← hfinal, ← e2]
  · rw [if_pos hc1]
    have hcf0 : cf ≠ 0 := by
      rintro rfl
      rw [Nat.coprime_zero_left] at hcop; omega
    obtain ⟨fix, hfx, hfl, hfi⟩ := (tryInvert_spec_partial ht2 ht61 (by omega : cf < 2^64) hcf).1 ⟨hcf0, hcop⟩
    have e1 : fix = Spec.invMod cf l.t.value := c01p_inv_unique hfl hinvlt hfi hinv
    have hmap : mapM' d (fun x => mulMod x fix l.t) = .ok (d.map (fun x => (x * Spec.invMod cf l.t.value) % l.t.value)) := by
      rw [← e1]
      apply mapM'_ok
      intro x hx
      have hxl : x < l.t.value := mem_lt_of_getD (fun j hj => hdlt j (by rw [← hdsz]; exact hj)) x hx
      exact mulMod_exact htw (by omega) (by omega)
    rw [hfx, ok_bind]
    dsimp only
    rw [hmap, ok_bind, ← hfinal]
    rfl

/-! ### refusals -/

/-- BFV decryption refuses NTT-form ciphertexts -/
theorem bfvDecrypt_refuses_ntt (l : Level) (sk : Array Int) (ct : Ct) (h : ct.ntt = true) :
    bfvDecrypt l sk ct = .error .refused := by
  unfold bfvDecrypt
  rw [if_pos h]

/-- BGV decryption refuses coefficient-form ciphertexts -/
theorem bgvDecrypt_refuses_coeff (l : Level) (sk : Array Int) (ct : Ct) (h : ct.ntt = false) :
    bgvDecrypt l sk ct = .error .refused := by
  unfold bgvDecrypt
  rw [if_pos (by rw [h]; rfl)]

/-- both refuse ciphertexts with fewer than two polynomials -/
theorem bfvDecrypt_refuses_small (l : Level) (sk : Array Int) (ct : Ct) (h : ct.polys.size < 2) :
    bfvDecrypt l sk ct = .error .refused := by
  unfold bfvDecrypt
  split
  · rfl
  · unfold dotProductCtSk
    simp only [bind, Except.bind]
    rw [if_pos h]

theorem bgvDecrypt_refuses_small (l : Level) (sk : Array Int) (ct : Ct) (h : ct.polys.size < 2) :
    bgvDecrypt l sk ct = .error .refused := by
  unfold bgvDecrypt
  split
  · rfl
  · unfold dotProductCtSk
    simp only [bind, Except.bind]
    rw [if_pos h]

/-- BFV decryption refuses when the tool has no plain-modulus constants (built with t = 0, the CKKS case) -/
theorem bfvDecrypt_refuses_noT {l : Level} {sk : Array Int} {ct : Ct} {ph : RnsPoly} (hn : ct.ntt = false)
    (hdot : dotProductCtSk l sk ct = .ok ph) (h : l.tool.baseTGamma = none) :
    bfvDecrypt l sk ct = .error .refused := by
  unfold bfvDecrypt
  rw [if_neg (by rw [hn]; simp), hdot, ok_bind]
  unfold RNSTool.decryptScaleAndRound
  rw [h]
  rfl

/-- BGV decryption (size 2, NTT form) refuses a correction factor that is not invertible modulo t -/
theorem bgvDecrypt_size2_refuses_cf {l : Level} (hl : l.WF) (hd : DecOK l) {sk : Array Int} (hsk : sk.size = l.n)
    {c0 c1 : RnsPoly} (h0 : RnsCanon l c0) (h1 : RnsCanon l c1) {cf : Nat} (hcf : cf < 2^63) (hcf1 : cf ≠ 1)
    (hcop : ¬ Nat.Coprime cf l.t.value)
    (htie : BgvNoTie l (Spec.phase (c01p_qvals l) l.n sk [rnsIntt l c0, rnsIntt l c1])) :
    bgvDecrypt l sk ⟨#[c0, c1], true, cf⟩ = .error .refused := by
  obtain ⟨ph, hdot, hcan, hX⟩ := c01p_phase_link_ntt hl hd hsk h0 h1
  have hQ := c01p_prodL_qvals hd
  have htw : l.t.WF := by rw [← hd.t_eq]; exact hd.tool.twf
  obtain ⟨d, hdok, -, -⟩ := c01p_decryptModT_of_crt hd hcan
    (c01p_X (c01p_qvals l) l.n sk (rnsIntt l c0) (rnsIntt l c1)) hX
    (fun j hj => by
      have := htie j hj
      rw [c01p_phase2_getD _ _ _ _ _ hj, hQ] at this
      exact c01p_tie_of_centred (hX j hj).1 this)
  rw [c01p_bgvDecrypt_eq, hdot, ok_bind, hdok, ok_bind]
  dsimp only
  rw [if_pos hcf1, (tryInvert_spec_partial htw.two_le htw.lt (by omega : cf < 2^64) hcf).2 (Or.inr hcop), ok_bind]
  rfl

/-! ### general size (any number ≥ 1 of polynomials), conditional on the per-component phase of the model

  What is proved: the whole chain CRT ↔ `Spec.phase` (Horner in Z_Q[X]/(X^N+1)) ↔ BEHZ scaling / exact conveyance ↔ trimming for
  ciphertexts of ANY size.  What is assumed (`hres`): the model's `dotProductCtSk` returns, in every RNS component, the
  Horner evaluation c_0 + s·(c_1 + s·(…)) modulo (X^N+1, q_i) — for size 2 this is `dotProduct_size2_coeff/_ntt` (C01O);
  for size ≥ 3 (`skPowers`) it is a statement about one prime at a time, not proved here. -/

theorem bfvDecrypt_eq_spec_of_phase {l : Level} (hd : DecOK l) {sk : Array Int} {ct : Ct} (hn : ct.ntt = false)
    (hn0 : 0 < l.n) (hne : ct.polys.toList ≠ []) (hsz : ∀ p ∈ ct.polys.toList, p.size = l.size)
    {ph : RnsPoly} (hdot : dotProductCtSk l sk ct = .ok ph) (hcan : RnsCanon l ph)
    (hres : ∀ i, i < l.size → ∃ a, c01p_hornerRes l.n (l.q i).value (skRes l sk i)
        (ct.polys.toList.map (fun p => p.getD i #[])) = some a ∧
        ∀ j, j < l.n → (ph.getD i #[]).getD j 0 = a.getD j 0 % (l.q i).value)
    (hnoise : BehzDecryptOK l (Spec.phase (c01p_qvals l) l.n sk ct.polys.toList)) :
    bfvDecrypt l sk ct =
      .ok (Spec.trim (Spec.bfvDecode l.t.value (Spec.prodL (c01p_qvals l)) (Spec.phase (c01p_qvals l) l.n sk ct.polys.toList))) := by
  obtain ⟨hsize, X, hX⟩ := c01p_phase_general_choice hd (sk := sk) hne hsz
  refine c01p_bfv_core hd hn hdot hcan (hsize hn0) X (fun j hj => ⟨(hX j hj).1, fun i hi => ?_⟩)
    (fun j hj => (hX j hj).2.1) hnoise
  obtain ⟨a, a1, a2⟩ := (hX j hj).2.2 i hi
  obtain ⟨a', b1, b2⟩ := hres i hi
  rw [a1] at b1
  injection b1 with b1
  rw [a2, b2 j hj, b1]

theorem bgvDecrypt_eq_spec_of_phase {l : Level} (hd : DecOK l) {sk : Array Int} {ct : Ct} (hn : ct.ntt = true)
    (hn0 : 0 < l.n) (hne : ct.polys.toList ≠ []) (hcf : ct.cf < 2^63) (hcop : Nat.Coprime ct.cf l.t.value)
    {ph : RnsPoly} (hdot : dotProductCtSk l sk ct = .ok ph) (hcan : RnsCanon l (rnsIntt l ph))
    (hres : ∀ i, i < l.size → ∃ a, c01p_hornerRes l.n (l.q i).value (skRes l sk i)
        ((ct.polys.toList.map (rnsIntt l)).map (fun p => p.getD i #[])) = some a ∧
        ∀ j, j < l.n → ((rnsIntt l ph).getD i #[]).getD j 0 = a.getD j 0 % (l.q i).value)
    (htie : BgvNoTie l (Spec.phase (c01p_qvals l) l.n sk (ct.polys.toList.map (rnsIntt l)))) :
    bgvDecrypt l sk ct =
      .ok (Spec.trim (Spec.bgvDecode l.t.value ct.cf (Spec.phase (c01p_qvals l) l.n sk (ct.polys.toList.map (rnsIntt l))))) := by
  obtain ⟨hsize, X, hX⟩ := c01p_phase_general_choice hd (sk := sk) (polys := ct.polys.toList.map (rnsIntt l))
    (by simpa using hne)
    (fun p hp => by obtain ⟨p', -, rfl⟩ := List.mem_map.mp hp; exact c01p_rnsIntt_size l p')
  refine c01p_bgv_core hd hn hdot hcan hcf hcop (hsize hn0) X (fun j hj => ⟨(hX j hj).1, fun i hi => ?_⟩)
    (fun j hj => (hX j hj).2.1) htie
  obtain ⟨a, a1, a2⟩ := (hX j hj).2.2 i hi
  obtain ⟨a', b1, b2⟩ := hres i hi
  rw [a1] at b1
  injection b1 with b1
  rw [a2, b2 j hj, b1]

/-- the hypothesis `hres` of `bfvDecrypt_eq_spec_of_phase` is what C01O proves for size 2 (so the general theorem
    specialises to `bfvDecrypt_size2_eq_spec`; non-vacuity of `hres`) -/
theorem c01p_hres_size2 {l : Level} (hl : l.WF) {sk : Array Int} (hsk : sk.size = l.n) {c0 c1 : RnsPoly}
    (h0 : RnsCanon l c0) (h1 : RnsCanon l c1) :
    ∃ ph, dotProductCtSk l sk ⟨#[c0, c1], false, 1⟩ = .ok ph ∧ RnsCanon l ph ∧
      ∀ i, i < l.size → ∃ a, c01p_hornerRes l.n (l.q i).value (skRes l sk i)
        ((#[c0, c1] : Array RnsPoly).toList.map (fun p => p.getD i #[])) = some a ∧
        ∀ j, j < l.n → (ph.getD i #[]).getD j 0 = a.getD j 0 % (l.q i).value := by
  obtain ⟨ph, hdot, hcan, hv⟩ := dotProduct_size2_coeff hl hsk h0 h1
  refine ⟨ph, hdot, hcan, fun i hi => ⟨_, rfl, fun j hj => ?_⟩⟩
  rw [c01o_ofFn_getD _ _ _ hj, hv i hi j hj, Nat.mod_mod, Nat.add_comm]

end HC
