import Heathcliff.Proofs.GenEvalCt
import Heathcliff.Proofs.GenEval

/-!
  Translator phase 4g: `Evaluator::translate_inplace` (generated skeleton over the flat buffers, Gen/EvalCtFns.lean) = `ctTranslate` /
  `ctTranslateBalanced` of Model/Evaluator.lean for ALL size pairs and for unequal correction factors.  Helper names start with `gt_`.
-/
namespace HC
open HC.GenW HC.GenP HC.GenC

/-! ### list plumbing -/

theorem gt_slice_app (O T : List Nat) : GenP.slice (O ++ T) O.length (O.length + T.length) = .ok T := by
  unfold GenP.slice
  rw [if_pos ⟨by omega, by simp⟩, List.drop_left, Nat.add_sub_cancel_left, List.take_length]

theorem gt_splice_app (O T N : List Nat) (h : N.length = T.length) : GenP.splice (O ++ T) O.length N = O ++ N := by
  unfold GenP.splice
  rw [List.take_left, h, ← List.length_append, List.drop_length, List.append_nil]

theorem gt_copy_app (O Z T : List Nat) (h : T.length = Z.length) :
    GenP.copySlice (O ++ Z) O.length (O.length + Z.length) T = .ok (O ++ T) := by
  unfold GenP.copySlice
  rw [if_pos (by omega), gt_splice_app O Z T h]

theorem gt_blk_app (D : Nat) (d z : List Nat) (i : Nat) (h : i * D + D ≤ d.length) : gp_blk D (d ++ z) i = gp_blk D d i := by
  unfold gp_blk
  rw [List.drop_append_of_le_length (by omega), List.take_append_of_le_length (by rw [List.length_drop]; omega)]

theorem gt_blk_drop (D : Nat) (d : List Nat) (a i : Nat) : gp_blk D (d.drop (a * D)) i = gp_blk D d (a + i) := by
  unfold gp_blk
  rw [List.drop_drop, Nat.add_mul]

/-- the blocks `a, a+1, …` of a buffer of `a + c` blocks, concatenated, are the buffer from block `a` on -/
theorem gt_blocks_drop (D : Nat) (d : List Nat) : ∀ c a, d.length = (a + c) * D →
    ((List.range' a c).map (gp_blk D d)).flatten = d.drop (a * D) := by
  intro c
  induction c with
  | zero => intro a h; simp at h ⊢; omega
  | succ c ih =>
    intro a h
    rw [List.range'_succ, List.map_cons, List.flatten_cons, ih (a + 1) (by rw [h]; congr 1; omega)]
    unfold gp_blk
    rw [Nat.succ_mul, ← List.drop_drop, List.take_append_drop]

theorem gt_mapM_append {α β : Type} (f : α → R β) : ∀ (l1 l2 : List α),
    (l1 ++ l2).mapM f = (do let xs ← l1.mapM f; let ys ← l2.mapM f; pure (xs ++ ys)) := by
  intro l1
  induction l1 with
  | nil =>
    intro l2
    simp only [List.nil_append, List.mapM_nil, pure, Except.pure, bind, Except.bind]
    cases l2.mapM f <;> rfl
  | cons x t ih =>
    intro l2
    rw [List.cons_append, List.mapM_cons, List.mapM_cons, ih]
    cases f x with
    | error e => rfl
    | ok y =>
      simp only [bind, Except.bind]
      cases t.mapM f with
      | error e => rfl
      | ok ys =>
        simp only []
        cases l2.mapM f with
        | error e => rfl
        | ok zs => rfl

theorem gt_mapM_pure {α β : Type} (g : α → β) : ∀ (l : List α), l.mapM (fun x => (pure (g x) : R β)) = .ok (l.map g) := by
  intro l
  induction l with
  | nil => rfl
  | cons x t ih => rw [List.mapM_cons, ih]; rfl

theorem gt_flattenRns_length (size n : Nat) (p : RnsPoly) : (flattenRns size n p).length = size * n := by
  simp [flattenRns]

theorem gt_flatten_length (size n : Nat) : ∀ (outs : List RnsPoly), ((outs.map (flattenRns size n)).flatten).length = outs.length * (size * n) := by
  intro outs
  induction outs with
  | nil => simp
  | cons x t ih => rw [List.map_cons, List.flatten_cons, List.length_append, ih, gt_flattenRns_length, List.length_cons, Nat.succ_mul, Nat.add_comm]

/-- `translateShape` = the common polynomials, then the extra ones of the longer operand -/
theorem gt_shape_mapM {β : Type} (f : TrTerm → R β) (s1 s2 : Nat) :
    (translateShape s1 s2).mapM f =
      (do let xs ← (List.range (min s1 s2)).mapM (fun i => f (.both i))
          let ys ← (List.range' (min s1 s2) (max s1 s2 - min s1 s2)).mapM (fun i => f (if s1 > s2 then .left i else .right i))
          pure (xs ++ ys)) := by
  unfold translateShape
  have hr : List.range (max s1 s2) = List.range (min s1 s2) ++ List.range' (min s1 s2) (max s1 s2 - min s1 s2) := by
    rw [List.range_eq_range', List.range_eq_range']
    have h := List.range'_append_1 (s := 0) (m := min s1 s2) (n := max s1 s2 - min s1 s2)
    rw [Nat.zero_add] at h
    rw [h]
    congr 1; omega
  rw [hr, List.map_append, gt_mapM_append, gc_mapM_comp, gc_mapM_comp]
  rw [gp_mapM_congr' _ (fun i => f (.both i)) (List.range (min s1 s2)) (by
        intro i hi; rw [if_pos (List.mem_range.mp hi)]),
      gp_mapM_congr' _ (fun i => f (if s1 > s2 then .left i else .right i)) (List.range' (min s1 s2) (max s1 s2 - min s1 s2)) (by
        intro i hi
        have := (List.mem_range'_1.mp hi).1
        rw [if_neg (by omega)])]

/-- block `i` of the flat buffer as a model polynomial -/
def gt_U (l : Level) (d : List Nat) (i : Nat) : RnsPoly := unflattenRns l.size l.n (gp_blk (l.size * l.n) d i)

/-- the hand model on `unflattenCt` operands, in terms of the blocks of the two buffers -/
theorem gt_ctTranslate_eq (l : Level) (d1 d2 : List Nat) (s1 s2 : Nat) (ntt : Bool) (cf : Nat) (sub : Bool) :
    ctTranslate l (unflattenCt l s1 d1 ntt cf) (unflattenCt l s2 d2 ntt cf) sub =
      (do let xs ← (List.range (min s1 s2)).mapM (fun i => if sub then rnsSub l (gt_U l d1 i) (gt_U l d2 i) else rnsAdd l (gt_U l d1 i) (gt_U l d2 i))
          let ys ← (List.range' (min s1 s2) (max s1 s2 - min s1 s2)).mapM (fun i =>
            if s1 > s2 then pure (gt_U l d1 i) else if sub then rnsNeg l (gt_U l d2 i) else pure (gt_U l d2 i))
          pure { unflattenCt l s1 d1 ntt cf with polys := (xs ++ ys).toArray }) := by
  unfold ctTranslate
  rw [if_neg (by simp [unflattenCt]), if_neg (by simp [unflattenCt]), gc_polys_size, gc_polys_size, gt_shape_mapM]
  rw [gp_mapM_congr' _ (fun i => if sub then rnsSub l (gt_U l d1 i) (gt_U l d2 i) else rnsAdd l (gt_U l d1 i) (gt_U l d2 i))
        (List.range (min s1 s2)) (by
      intro i hi
      have hi := List.mem_range.mp hi
      simp only [gc_polys_getD _ _ _ _ _ _ (show i < s1 by omega), gc_polys_getD _ _ _ _ _ _ (show i < s2 by omega), gt_U]),
    gp_mapM_congr' _ (fun i => if s1 > s2 then pure (gt_U l d1 i) else if sub then rnsNeg l (gt_U l d2 i) else pure (gt_U l d2 i))
        (List.range' (min s1 s2) (max s1 s2 - min s1 s2)) (by
      intro i hi
      have hi := List.mem_range'_1.mp hi
      by_cases h : s1 > s2
      · simp only [h, if_true, gc_polys_getD _ _ _ _ _ _ (show i < s1 by omega), gt_U]
      · simp only [h, if_false, gc_polys_getD _ _ _ _ _ _ (show i < s2 by omega), gt_U])]
  cases (List.range (min s1 s2)).mapM (fun i => if sub then rnsSub l (gt_U l d1 i) (gt_U l d2 i) else rnsAdd l (gt_U l d1 i) (gt_U l d2 i)) with
  | error e => rfl
  | ok xs =>
    simp only [bind, Except.bind]
    cases (List.range' (min s1 s2) (max s1 s2 - min s1 s2)).mapM (fun i =>
        if s1 > s2 then pure (gt_U l d1 i) else if sub then rnsNeg l (gt_U l d2 i) else pure (gt_U l d2 i)) with
    | error e => rfl
    | ok ys => rfl

theorem gt_tail_flat (l : Level) (d : List Nat) (a c : Nat) (h : d.length = (a + c) * (l.size * l.n)) :
    (((List.range' a c).map (gt_U l d)).map (flattenRns l.size l.n)).flatten = d.drop (a * (l.size * l.n)) := by
  rw [List.map_map, ← gt_blocks_drop (l.size * l.n) d c a h]
  congr 1
  apply List.map_congr_left
  intro i hi
  have hi := List.mem_range'_1.mp hi
  have hb : i * (l.size * l.n) + l.size * l.n ≤ d.length := by
    rw [h, ← Nat.succ_mul]; exact Nat.mul_le_mul_right _ (by omega)
  simp only [Function.comp, gt_U]
  exact flatten_unflatten _ _ _ (gp_blk_length _ _ _ hb)

theorem gt_resizeL_grow (d : List Nat) (N : Nat) (h : d.length ≤ N) : GenC.resizeL d N 0 = d ++ List.replicate (N - d.length) 0 := by
  unfold GenC.resizeL; rw [List.take_of_length_le h]

theorem gt_slice_drop (d : List Nat) (a b : Nat) (hb : d.length = b) (ha : a ≤ b) : GenP.slice d a b = .ok (d.drop a) := by
  unfold GenP.slice
  rw [if_pos ⟨ha, by omega⟩, List.take_of_length_le (by rw [List.length_drop]; omega)]

/-- `Evaluator::translate_inplace` (add / sub), equal correction factors, the FIRST operand at least as long as the second (checks passed):
    the common polynomials are added / subtracted, the remaining polynomials of the first operand are kept -/
theorem gt_translate_ge (l : Level) (d1 d2 : List Nat) (s1 s2 : Nat) (ntt : Bool) (cf : Nat) (sub : Bool) (t : Modulus)
    (hle : s2 ≤ s1) (hs : s1 = 0 ∨ (2 ≤ s1 ∧ s1 ≤ 16)) (hl1 : 1 ≤ l.size)
    (h1 : d1.length = s1 * (l.size * l.n)) (h2 : d2.length = s2 * (l.size * l.n)) (hpl : l.n * l.size < B64) (hB : d1.length < B64) :
    GenC.ct_translate_inplace_eq d1 s1 cf d2 s2 cf sub true true true false true l.qs.toList t l.n =
      Except.map (fun c => (flattenCt l c, max s1 s2, cf)) (ctTranslate l (unflattenCt l s1 d1 ntt cf) (unflattenCt l s2 d2 ntt cf) sub) := by
  have hlen : l.qs.toList.length = l.size := by simp [Level.size]
  have hmax : max s1 s2 = s1 := Nat.max_eq_left hle
  have hmin : min s1 s2 = s2 := Nat.min_eq_right hle
  have hle' : s1 * l.n ≤ s1 * (l.size * l.n) := Nat.mul_le_mul_left _ (Nat.le_mul_of_pos_left _ hl1)
  have hck1 : ckMul s1 l.n = .ok (s1 * l.n) := by unfold ckMul; rw [if_pos (by omega)]
  have hck2 : ckMul (s1 * l.n) l.size = .ok (s1 * (l.size * l.n)) := by
    unfold ckMul
    have : s1 * l.n * l.size = s1 * (l.size * l.n) := by rw [Nat.mul_assoc, Nat.mul_comm l.n l.size]
    rw [this, if_pos (by omega)]
  have hsz : ¬ ((s1 < 2 ∧ s1 ≠ 0) ∨ s1 > 16) := by omega
  have hnl : ¬ s1 < s2 := by omega
  have hs2 : s2 * (l.size * l.n) ≤ s1 * (l.size * l.n) := Nat.mul_le_mul_right _ hle
  unfold GenC.ct_translate_inplace_eq
  simp only [if_true, hmax, hmin, ne_eq, not_true_eq_false, if_false, hsz, not_false_eq_true, hlen, hck1, hck2,
    bind, Except.bind, gc_resizeL_same d1 _ h1, hnl, pure, Except.pure, Bool.false_eq_true]
  rw [gt_ctTranslate_eq, hmax, hmin]
  rw [gp_mapM_congr' _ (fun i => (pure (gt_U l d1 i) : R RnsPoly)) (List.range' s2 (s1 - s2)) (by
    intro i hi
    have hi := List.mem_range'_1.mp hi
    rw [if_pos (by omega)]), gt_mapM_pure]
  have htl := gt_tail_flat l d1 s2 (s1 - s2) (by rw [h1]; congr 1; omega)
  cases sub with
  | false =>
    simp only [Bool.false_eq_true, not_false_eq_true, if_true, if_false]
    rw [gp_poly_add_inplace_ps_model l d1 d2 s2 hpl (by omega) (by omega) hB]
    simp only [gt_U]
    cases (List.range s2).mapM (fun i => rnsAdd l (unflattenRns l.size l.n (gp_blk (l.size * l.n) d1 i))
        (unflattenRns l.size l.n (gp_blk (l.size * l.n) d2 i))) with
    | error e => rfl
    | ok outs =>
      simp only [bind, Except.bind, pure, Except.pure, Except.map, flattenCt, List.map_append, List.flatten_append]
      rw [← htl]
  | true =>
    simp only [not_true_eq_false, if_true, if_false]
    rw [gp_poly_sub_inplace_ps_model l d1 d2 s2 hpl (by omega) (by omega) hB]
    simp only [gt_U]
    cases (List.range s2).mapM (fun i => rnsSub l (unflattenRns l.size l.n (gp_blk (l.size * l.n) d1 i))
        (unflattenRns l.size l.n (gp_blk (l.size * l.n) d2 i))) with
    | error e => rfl
    | ok outs =>
      simp only [bind, Except.bind, pure, Except.pure, Except.map, flattenCt, List.map_append, List.flatten_append]
      rw [← htl]

/-- what the generated routine does with the extra polynomials of a LONGER second operand, on the buffer `O ++ Z` (`O` = the common part
    already computed, `Z` = the zero padding of the resize): they are copied and, in a subtraction, negated -/
theorem gt_tail_step (l : Level) (O Z d2 : List Nat) (s1 s2 : Nat) (sub : Bool) (hlt : s1 < s2)
    (hO : O.length = s1 * (l.size * l.n)) (hZ : Z.length = (s2 - s1) * (l.size * l.n)) (h2 : d2.length = s2 * (l.size * l.n))
    (hpl : l.n * l.size < B64) (hB : s2 * (l.size * l.n) < B64) :
    (do let _ ← GenP.slice (O ++ Z) (s1 * (l.size * l.n)) (s2 * (l.size * l.n))
        let src ← GenP.slice d2 (s1 * (l.size * l.n)) (s2 * (l.size * l.n))
        let a ← GenP.copySlice (O ++ Z) (s1 * (l.size * l.n)) (s2 * (l.size * l.n)) src
        if sub = true then
          (do let tl ← GenP.slice a (s1 * (l.size * l.n)) (s2 * (l.size * l.n))
              let o ← GenP.poly_negate_inplace_ps tl (s2 - s1) l.n l.qs.toList
              pure (GenP.splice a (s1 * (l.size * l.n)) o))
        else pure a : R (List Nat)) =
      (do let ys ← (List.range' s1 (s2 - s1)).mapM (fun i => if sub then rnsNeg l (gt_U l d2 i) else pure (gt_U l d2 i))
          pure (O ++ (ys.map (flattenRns l.size l.n)).flatten)) := by
  have hmul : s2 * (l.size * l.n) = s1 * (l.size * l.n) + (s2 - s1) * (l.size * l.n) := by
    rw [← Nat.add_mul]; congr 1; omega
  have hT : (d2.drop (s1 * (l.size * l.n))).length = (s2 - s1) * (l.size * l.n) := by rw [List.length_drop, h2, hmul]; omega
  have hsl2 : GenP.slice d2 (s1 * (l.size * l.n)) (s2 * (l.size * l.n)) = .ok (d2.drop (s1 * (l.size * l.n))) :=
    gt_slice_drop d2 _ _ h2 (Nat.mul_le_mul_right _ (Nat.le_of_lt hlt))
  have hTflat := gt_tail_flat l d2 s1 (s2 - s1) (by rw [h2]; congr 1; omega)
  have hTneg : (List.range' 0 (s2 - s1)).mapM (fun i => rnsNeg l (unflattenRns l.size l.n (gp_blk (l.size * l.n) (d2.drop (s1 * (l.size * l.n))) i))) =
      (List.range' s1 (s2 - s1)).mapM (fun i => rnsNeg l (gt_U l d2 i)) := by
    have hr : List.range' s1 (s2 - s1) = (List.range' 0 (s2 - s1)).map (fun i => s1 + i) := by
      rw [List.map_add_range']; simp
    rw [hr, gc_mapM_comp]
    apply gp_mapM_congr'
    intro i _
    simp only [gt_U, gt_blk_drop]
  rw [hsl2]
  generalize d2.drop (s1 * (l.size * l.n)) = T at hT hTflat hTneg ⊢
  have e1 : s1 * (l.size * l.n) = O.length := hO.symm
  have e2 : s2 * (l.size * l.n) = O.length + Z.length := by rw [hmul, hO, hZ]
  have hZT : Z.length = T.length := by rw [hT, hZ]
  rw [e2, e1, gt_slice_app O Z]
  simp only [bind, Except.bind]
  rw [gt_copy_app O Z T hZT.symm]
  simp only []
  cases sub with
  | false =>
    simp only [Bool.false_eq_true, if_false]
    rw [gt_mapM_pure]
    simp only [pure, Except.pure]
    rw [hTflat]
  | true =>
    simp only [if_true]
    rw [hZT, gt_slice_app O T]
    simp only []
    rw [gp_poly_negate_inplace_ps_model l T (s2 - s1) hpl (by rw [hT]) (by rw [hT]; omega)]
    rw [List.range_eq_range', hTneg, ← hT, List.drop_length]
    cases hm : (List.range' s1 (s2 - s1)).mapM (fun i => rnsNeg l (gt_U l d2 i)) with
    | error e => rfl
    | ok outs =>
      simp only [bind, Except.bind, pure, Except.pure, List.append_nil]
      have hol : ((outs.map (flattenRns l.size l.n)).flatten).length = T.length := by
        rw [gt_flatten_length, hT, gp_mapM_lengthG _ _ _ hm, List.length_range']
      rw [gt_splice_app O _ _ hol]

/-- `Evaluator::translate_inplace` (add / sub), equal correction factors, the SECOND operand longer (checks passed): the first buffer is
    resized, the common polynomials are added / subtracted, the extra polynomials of the second operand are copied and - in a subtraction -
    negated -/
theorem gt_translate_lt (l : Level) (d1 d2 : List Nat) (s1 s2 : Nat) (ntt : Bool) (cf : Nat) (sub : Bool) (t : Modulus)
    (hlt : s1 < s2) (hs : 2 ≤ s2 ∧ s2 ≤ 16) (hl1 : 1 ≤ l.size)
    (h1 : d1.length = s1 * (l.size * l.n)) (h2 : d2.length = s2 * (l.size * l.n)) (hpl : l.n * l.size < B64) (hB : d2.length < B64) :
    GenC.ct_translate_inplace_eq d1 s1 cf d2 s2 cf sub true true true false true l.qs.toList t l.n =
      Except.map (fun c => (flattenCt l c, max s1 s2, cf)) (ctTranslate l (unflattenCt l s1 d1 ntt cf) (unflattenCt l s2 d2 ntt cf) sub) := by
  have hlen : l.qs.toList.length = l.size := by simp [Level.size]
  have hmax : max s1 s2 = s2 := Nat.max_eq_right (Nat.le_of_lt hlt)
  have hmin : min s1 s2 = s1 := Nat.min_eq_left (Nat.le_of_lt hlt)
  have hle' : s2 * l.n ≤ s2 * (l.size * l.n) := Nat.mul_le_mul_left _ (Nat.le_mul_of_pos_left _ hl1)
  have hck1 : ckMul s2 l.n = .ok (s2 * l.n) := by unfold ckMul; rw [if_pos (by omega)]
  have hck2 : ckMul (s2 * l.n) l.size = .ok (s2 * (l.size * l.n)) := by
    unfold ckMul
    have : s2 * l.n * l.size = s2 * (l.size * l.n) := by rw [Nat.mul_assoc, Nat.mul_comm l.n l.size]
    rw [this, if_pos (by omega)]
  have hs12 : s1 * (l.size * l.n) ≤ s2 * (l.size * l.n) := Nat.mul_le_mul_right _ (Nat.le_of_lt hlt)
  have hckA : ckMul l.n l.size = .ok (l.size * l.n) := by unfold ckMul; rw [if_pos hpl, Nat.mul_comm]
  have hckB : ckMul s1 (l.size * l.n) = .ok (s1 * (l.size * l.n)) := by unfold ckMul; rw [if_pos (by omega)]
  have hckC : ckMul s2 (l.size * l.n) = .ok (s2 * (l.size * l.n)) := by unfold ckMul; rw [if_pos (by omega)]
  have hsub : ckSub s2 s1 = .ok (s2 - s1) := by unfold ckSub; rw [if_pos (Nat.le_of_lt hlt)]
  have hsz : ¬ ((s2 < 2 ∧ s2 ≠ 0) ∨ s2 > 16) := by omega
  have hrs : GenC.resizeL d1 (s2 * (l.size * l.n)) 0 = d1 ++ List.replicate ((s2 - s1) * (l.size * l.n)) 0 := by
    rw [gt_resizeL_grow _ _ (by omega), h1, Nat.sub_mul]
  have hd1' : (d1 ++ List.replicate ((s2 - s1) * (l.size * l.n)) 0).length = s2 * (l.size * l.n) := by
    rw [List.length_append, List.length_replicate, h1, ← Nat.add_mul]; congr 1; omega
  have hdrop : (d1 ++ List.replicate ((s2 - s1) * (l.size * l.n)) 0).drop (s1 * (l.size * l.n)) = List.replicate ((s2 - s1) * (l.size * l.n)) 0 := by
    rw [← h1, List.drop_left]
  have hblk : ∀ i, i ∈ List.range s1 → gp_blk (l.size * l.n) (d1 ++ List.replicate ((s2 - s1) * (l.size * l.n)) 0) i = gp_blk (l.size * l.n) d1 i := by
    intro i hi
    exact gt_blk_app _ _ _ _ (by rw [h1]; exact gp_blk_bound (List.mem_range.mp hi))
  unfold GenC.ct_translate_inplace_eq
  simp only [if_true, hmax, hmin, ne_eq, not_true_eq_false, if_false, hsz, not_false_eq_true, hlen, hck1, hck2, hckA, hckB, hckC, hsub,
    bind, Except.bind, hrs, hlt, pure, Except.pure, Bool.false_eq_true]
  rw [gt_ctTranslate_eq, hmax, hmin]
  rw [gp_mapM_congr' _ (fun i => if sub then rnsNeg l (gt_U l d2 i) else (pure (gt_U l d2 i) : R RnsPoly)) (List.range' s1 (s2 - s1)) (by
    intro i _
    rw [if_neg (by omega)])]
  have hstep := fun (O : List Nat) (hO : O.length = s1 * (l.size * l.n)) =>
    gt_tail_step l O (List.replicate ((s2 - s1) * (l.size * l.n)) 0) d2 s1 s2 sub hlt hO (List.length_replicate ..) h2 hpl (by omega)
  cases sub with
  | false =>
    simp only [Bool.false_eq_true, not_false_eq_true, if_true, if_false] at hstep ⊢
    rw [gp_poly_add_inplace_ps_model l _ d2 s1 hpl (by rw [hd1']; exact hs12) (by rw [h2]; exact hs12) (by rw [hd1']; omega), hdrop]
    rw [gp_mapM_congr' _ (fun i => rnsAdd l (gt_U l d1 i) (gt_U l d2 i)) (List.range s1) (by
      intro i hi; simp only [gt_U, hblk i hi])]
    cases hm : (List.range s1).mapM (fun i => rnsAdd l (gt_U l d1 i) (gt_U l d2 i)) with
    | error e => rfl
    | ok outs =>
      have hO : ((outs.map (flattenRns l.size l.n)).flatten).length = s1 * (l.size * l.n) := by
        rw [gt_flatten_length, gp_mapM_lengthG _ _ _ hm, List.length_range]
      have h := hstep _ hO
      simp only [bind, Except.bind, pure, Except.pure] at h ⊢
      rw [h]
      cases (List.range' s1 (s2 - s1)).mapM (fun i => (Except.ok (gt_U l d2 i) : R RnsPoly)) with
      | error e => rfl
      | ok ys => simp [Except.map, flattenCt]
  | true =>
    simp only [not_true_eq_false, if_true, if_false] at hstep ⊢
    rw [gp_poly_sub_inplace_ps_model l _ d2 s1 hpl (by rw [hd1']; exact hs12) (by rw [h2]; exact hs12) (by rw [hd1']; omega), hdrop]
    rw [gp_mapM_congr' _ (fun i => rnsSub l (gt_U l d1 i) (gt_U l d2 i)) (List.range s1) (by
      intro i hi; simp only [gt_U, hblk i hi])]
    cases hm : (List.range s1).mapM (fun i => rnsSub l (gt_U l d1 i) (gt_U l d2 i)) with
    | error e => rfl
    | ok outs =>
      have hO : ((outs.map (flattenRns l.size l.n)).flatten).length = s1 * (l.size * l.n) := by
        rw [gt_flatten_length, gp_mapM_lengthG _ _ _ hm, List.length_range]
      have h := hstep _ hO
      simp only [bind, Except.bind, pure, Except.pure] at h ⊢
      rw [h]
      cases (List.range' s1 (s2 - s1)).mapM (fun i => rnsNeg l (gt_U l d2 i)) with
      | error e => rfl
      | ok ys => simp [Except.map, flattenCt]

/-- **`Evaluator::translate_inplace` = `ctTranslate`, all size pairs.**  The function generated from src/evaluator.rs (skeleton over the
    flat buffers; ciphertext checks, parameter / NTT-form / scale comparisons passed, EQUAL correction factors) equals the hand model on
    `unflattenCt`, for every pair of sizes whose maximum `Ciphertext::resize` accepts (0 or 2..16; otherwise the code panics in `resize`,
    a check the model does not have): result buffer = the flattened model result, new size = the maximum, factor unchanged.  Both sides
    work through the polynomials left to right, so they agree on failures too (no range hypothesis on the coefficients).
    Hypotheses: buffer lengths = size × (components × degree) (the shape `is_buffer_valid` checks), at least one modulus, and the longer
    buffer's length fits a usize. -/
theorem gt_translate_inplace_eq_general (l : Level) (d1 d2 : List Nat) (s1 s2 : Nat) (ntt : Bool) (cf : Nat) (sub : Bool) (t : Modulus)
    (hs : max s1 s2 = 0 ∨ (2 ≤ max s1 s2 ∧ max s1 s2 ≤ 16)) (hl1 : 1 ≤ l.size)
    (h1 : d1.length = s1 * (l.size * l.n)) (h2 : d2.length = s2 * (l.size * l.n)) (hpl : l.n * l.size < B64)
    (hB : max s1 s2 * (l.size * l.n) < B64) :
    GenC.ct_translate_inplace_eq d1 s1 cf d2 s2 cf sub true true true false true l.qs.toList t l.n =
      Except.map (fun c => (flattenCt l c, max s1 s2, cf)) (ctTranslate l (unflattenCt l s1 d1 ntt cf) (unflattenCt l s2 d2 ntt cf) sub) := by
  by_cases hle : s2 ≤ s1
  · have hmax : max s1 s2 = s1 := Nat.max_eq_left hle
    rw [hmax] at hs hB
    exact gt_translate_ge l d1 d2 s1 s2 ntt cf sub t hle hs hl1 h1 h2 hpl (by rw [h1]; exact hB)
  · have hlt : s1 < s2 := by omega
    have hmax : max s1 s2 = s2 := Nat.max_eq_right (Nat.le_of_lt hlt)
    rw [hmax] at hs hB
    exact gt_translate_lt l d1 d2 s1 s2 ntt cf sub t hlt (by omega) hl1 h1 h2 hpl (by rw [h2]; exact hB)

/-- the size `resize` refuses (1, or more than 16 polynomials) is refused by the generated function whatever the data is -/
theorem gt_translate_inplace_refuses_size (d1 d2 : List Nat) (s1 s2 cf : Nat) (sub : Bool) (mods : List Modulus) (t : Modulus) (n : Nat)
    (h : (max s1 s2 < 2 ∧ max s1 s2 ≠ 0) ∨ max s1 s2 > 16) :
    GenC.ct_translate_inplace_eq d1 s1 cf d2 s2 cf sub true true true false true mods t n = .error .refused := by
  unfold GenC.ct_translate_inplace_eq
  simp only [if_true, ne_eq, not_true_eq_false, if_false, Bool.false_eq_true, bind, Except.bind, pure, Except.pure, h]

/-- the top-level generated function with EQUAL factors is the equal-factor routine (its balancing branch is not entered) -/
theorem gt_translate_inplace_top_eq (d1 d2 : List Nat) (s1 s2 cf : Nat) (sub v1 v2 sp nd ss : Bool) (mods : List Modulus) (t : Modulus) (n : Nat) :
    GenC.ct_translate_inplace d1 s1 cf d2 s2 cf sub v1 v2 sp nd ss mods t n =
      GenC.ct_translate_inplace_eq d1 s1 cf d2 s2 cf sub v1 v2 sp nd ss mods t n := by
  unfold GenC.ct_translate_inplace GenC.ct_translate_inplace_eq
  simp only [ne_eq, not_true_eq_false, if_false]

/-! ### unequal correction factors: the balancing branch -/


theorem gt_flatten_getD (size n : Nat) (p : RnsPoly) (j i : Nat) (hj : j < size) (hi : i < n) :
    (flattenRns size n p).getD (j * n + i) 0 = (p.getD j #[]).getD i 0 := by
  unfold flattenRns
  have hx : j * n + i < size * n := by
    calc j * n + i < j * n + n := by omega
      _ = (j + 1) * n := by rw [Nat.succ_mul]
      _ ≤ size * n := Nat.mul_le_mul_right _ hj
  rw [gz_getD_map_range _ _ _ _ hx]
  have h1 : (j * n + i) / n = j := by
    rw [Nat.mul_comm, Nat.mul_add_div (by omega), Nat.div_eq_of_lt hi, Nat.add_zero]
  have h2 : (j * n + i) % n = i := by
    rw [Nat.mul_comm, Nat.mul_add_mod, Nat.mod_eq_of_lt hi]
  rw [h1, h2]

theorem gt_unflatten_flatten (size n : Nat) (p : RnsPoly) (hp : p.size = size) (hc : ∀ j, j < size → (p.getD j #[]).size = n) :
    unflattenRns size n (flattenRns size n p) = p := by
  unfold unflattenRns
  apply Array.ext
  · simp [hp]
  · intro j h1 h2
    have hj : j < size := by simpa using h1
    have hcj := hc j hj
    have hpj : p.getD j #[] = p[j] := by simp [Array.getD, h2]
    rw [hpj] at hcj
    simp only [List.getElem_toArray, List.getElem_map, List.getElem_range]
    apply Array.ext
    · simp [hcj]
    · intro i g1 g2
      have hi : i < n := by simpa using g1
      simp only [List.getElem_toArray, List.getElem_map, List.getElem_range]
      rw [gt_flatten_getD size n p j i hj hi, hpj]
      simp [Array.getD, g2]
theorem gt_blk_flatten (D : Nat) : ∀ (bs : List (List Nat)) (i : Nat), (∀ b, b ∈ bs → b.length = D) → i < bs.length →
    gp_blk D bs.flatten i = bs.getD i [] := by
  intro bs
  induction bs with
  | nil => intro i _ h; simp at h
  | cons b t ih =>
    intro i hall hi
    have hb : b.length = D := hall b List.mem_cons_self
    cases i with
    | zero =>
      unfold gp_blk
      simp only [Nat.zero_mul, List.drop_zero, List.flatten_cons, List.getD_cons_zero]
      rw [← hb, List.take_left]
    | succ j =>
      have := ih j (fun b hb => hall b (List.mem_cons_of_mem _ hb)) (by simpa using hi)
      rw [List.getD_cons_succ, ← this]
      unfold gp_blk
      rw [List.flatten_cons, Nat.succ_mul, Nat.add_comm (j * D) D, ← List.drop_drop, ← hb, List.drop_left]

theorem gt_mapM_getD {α β : Type} (f : α → R β) (da : α) (db : β) : ∀ (l : List α) (vs : List β), l.mapM f = .ok vs →
    ∀ i, i < l.length → f (l.getD i da) = .ok (vs.getD i db) := by
  intro l
  induction l with
  | nil => intro vs _ i hi; simp at hi
  | cons x t ih =>
    intro vs h i hi
    rw [List.mapM_cons] at h
    cases hx : f x with
    | error e => rw [hx] at h; cases h
    | ok y =>
      rw [hx] at h
      cases ht : t.mapM f with
      | error e => rw [ht] at h; cases h
      | ok ys =>
        rw [ht] at h
        cases h
        cases i with
        | zero => simpa using hx
        | succ j => simpa using ih ys ht j (by simpa using hi)

/-- shape of a `compsMap` result: one component per modulus, each as long as the input's -/
theorem gt_compsMap_shape (ms : Array Modulus) (a : RnsPoly) (g : Nat → Modulus → R Nat) (o : RnsPoly) (h : compsMap ms a g = .ok o) :
    o.size = ms.size ∧ ∀ j, j < ms.size → (o.getD j #[]).size = (a.getD j #[]).size := by
  unfold compsMap at h
  rw [gp_foldl_pushG] at h
  cases hm : (List.range ms.size).mapM (fun i => mapM' (a.getD i #[]) (fun x => g x (ms.getD i default))) with
  | error e => rw [hm] at h; cases h
  | ok vs =>
    rw [hm] at h
    have ho : o = vs.toArray := by
      simp only [bind, Except.bind, pure, Except.pure] at h
      cases h; simp
    have hl : vs.length = ms.size := by rw [gp_mapM_lengthG _ _ _ hm, List.length_range]
    refine ⟨by rw [ho]; simpa using hl, ?_⟩
    intro j hj
    have := gt_mapM_getD _ 0 #[] _ _ hm j (by simpa using hj)
    have hr : (List.range ms.size).getD j 0 = j := by simp [List.getD, hj]
    rw [hr] at this
    rw [ho, gz_toArray_getD]
    exact gp_mapM'_size _ _ _ this

/-- shape of the polynomials the model's scaling step produces from a block of the flat buffer -/
theorem gt_scaled_shape (l : Level) (d : List Nat) (s i e : Nat) (hd : d.length = s * (l.size * l.n)) (hi : i < s) (o : RnsPoly)
    (h : compsMap l.qs (gt_U l d i) (fun x m => mulMod x e m) = .ok o) :
    o.size = l.size ∧ ∀ j, j < l.size → (o.getD j #[]).size = l.n := by
  obtain ⟨h1, h2⟩ := gt_compsMap_shape _ _ _ _ h
  refine ⟨h1, ?_⟩
  intro j hj
  rw [h2 j hj]
  have hb : i * (l.size * l.n) + l.size * l.n ≤ d.length := by rw [hd]; exact gp_blk_bound hi
  unfold gt_U
  rw [gp_unflatten_blk l.size l.n _ j hj (by rw [gp_blk_length _ _ _ hb]; exact gp_blk_bound hj)]
  simp only [List.size_toArray]
  exact gp_blk_length _ _ _ (by rw [gp_blk_length _ _ _ hb]; exact gp_blk_bound hj)

/-- re-reading the flattened list of well-shaped polynomials as a model ciphertext gives those polynomials back -/
theorem gt_unflattenCt_flat (l : Level) (outs : List RnsPoly) (ntt : Bool) (f : Nat)
    (hsh : ∀ o, o ∈ outs → o.size = l.size ∧ ∀ j, j < l.size → (o.getD j #[]).size = l.n) :
    unflattenCt l outs.length ((outs.map (flattenRns l.size l.n)).flatten) ntt f = ⟨outs.toArray, ntt, f⟩ := by
  unfold unflattenCt
  congr 1
  congr 1
  apply List.ext_getElem
  · simp
  · intro i h1 h2
    have hi : i < outs.length := by simpa using h1
    simp only [List.getElem_map, List.getElem_range]
    rw [gt_blk_flatten (l.size * l.n) (outs.map (flattenRns l.size l.n)) i (by
      intro b hb
      obtain ⟨o, _, rfl⟩ := List.mem_map.mp hb
      exact gt_flattenRns_length _ _ _) (by simpa using hi)]
    have hg : (outs.map (flattenRns l.size l.n)).getD i [] = flattenRns l.size l.n outs[i] := by
      simp [List.getD, hi]
    rw [hg]
    have := hsh outs[i] (List.getElem_mem hi)
    exact gt_unflatten_flatten _ _ _ this.1 this.2

/-- the scaling step of the balancing branch: `multiply_scalar_inplace_ps` over ALL polynomials of an operand = the model's `scale` -/
theorem gt_scale_step (l : Level) (d : List Nat) (s e : Nat) (hd : d.length = s * (l.size * l.n)) (hpl : l.n * l.size < B64) (hB : d.length < B64) :
    GenP.poly_multiply_scalar_inplace_ps d e s l.n l.qs.toList =
      (do let outs ← (List.range s).mapM (fun i => compsMap l.qs (gt_U l d i) (fun x m => mulMod x e m))
          pure ((outs.map (flattenRns l.size l.n)).flatten)) := by
  rw [gp_poly_multiply_scalar_inplace_ps_model l d e s hpl (by omega) hB, ← hd, List.drop_length]
  simp only [List.append_nil, gt_U]

/-- the model's `scale` of a ciphertext read off a flat buffer, in terms of the blocks -/
theorem gt_ctBalanced_eq (l : Level) (d1 d2 : List Nat) (s1 s2 : Nat) (ntt : Bool) (cf1 cf2 : Nat) (sub : Bool) (hcf : cf1 ≠ cf2) :
    ctTranslateBalanced l (unflattenCt l s1 d1 ntt cf1) (unflattenCt l s2 d2 ntt cf2) sub =
      (do let r ← balanceCorrectionFactors cf1 cf2 l.t
          let o1 ← (List.range s1).mapM (fun i => compsMap l.qs (gt_U l d1 i) (fun x m => mulMod x r.2.1 m))
          let o2 ← (List.range s2).mapM (fun i => compsMap l.qs (gt_U l d2 i) (fun x m => mulMod x r.2.2 m))
          ctTranslate l ⟨o1.toArray, ntt, r.1⟩ ⟨o2.toArray, ntt, r.1⟩ sub) := by
  unfold ctTranslateBalanced
  have hp1 : (unflattenCt l s1 d1 ntt cf1).polys.toList = (List.range s1).map (gt_U l d1) := by simp [unflattenCt, gt_U]
  have hp2 : (unflattenCt l s2 d2 ntt cf2).polys.toList = (List.range s2).map (gt_U l d2) := by simp [unflattenCt, gt_U]
  have hc1 : (unflattenCt l s1 d1 ntt cf1).cf = cf1 := rfl
  have hc2 : (unflattenCt l s2 d2 ntt cf2).cf = cf2 := rfl
  rw [hc1, hc2, if_neg hcf]
  cases balanceCorrectionFactors cf1 cf2 l.t with
  | error e => rfl
  | ok r =>
    obtain ⟨f, e1, e2⟩ := r
    simp only [bind, Except.bind, hp1, hp2, gc_mapM_comp]
    cases (List.range s1).mapM (fun i => compsMap l.qs (gt_U l d1 i) (fun x m => mulMod x e1 m)) with
    | error e => rfl
    | ok o1 =>
      simp only [pure, Except.pure]
      cases (List.range s2).mapM (fun i => compsMap l.qs (gt_U l d2 i) (fun x m => mulMod x e2 m)) with
      | error e => rfl
      | ok o2 => rfl

theorem gt_ctTranslate_cf (l : Level) (a b : Ct) (sub : Bool) (c : Ct) (h : ctTranslate l a b sub = .ok c) : c.cf = a.cf := by
  unfold ctTranslate at h
  split at h
  · cases h
  · split at h
    · cases h
    · simp only [bind, Except.bind] at h
      split at h
      · cases h
      · cases h; rfl

/-- **`Evaluator::translate_inplace` with UNEQUAL correction factors (BGV) = `ctTranslateBalanced`**, all size pairs.  The top-level
    generated function balances the factors (`balance_correction_factors`, tied in Proofs/GenEval.lean), scales ALL polynomials of both
    operands (`multiply_scalar_inplace_ps` with each operand's OWN size), sets the common factor and runs the equal-factor routine; the
    result is the flattened model result, the new size the maximum, the new factor the model's.
    Hypotheses: those of `gt_translate_inplace_eq_general` for both buffers, and those of the balance tie (`l.t.WF`: 2 ≤ t < 2^61 with
    its Barrett ratio; `cf1 < 2^63`, `cf2 < 2^64`). -/
theorem gt_translate_inplace_balanced (l : Level) (d1 d2 : List Nat) (s1 s2 : Nat) (ntt : Bool) (cf1 cf2 : Nat) (sub : Bool)
    (hcf : cf1 ≠ cf2) (ht : l.t.WF) (hc1 : cf1 < 2^63) (hc2 : cf2 < 2^64)
    (hs : max s1 s2 = 0 ∨ (2 ≤ max s1 s2 ∧ max s1 s2 ≤ 16)) (hl1 : 1 ≤ l.size)
    (h1 : d1.length = s1 * (l.size * l.n)) (h2 : d2.length = s2 * (l.size * l.n)) (hpl : l.n * l.size < B64)
    (hB : max s1 s2 * (l.size * l.n) < B64) :
    GenC.ct_translate_inplace d1 s1 cf1 d2 s2 cf2 sub true true true false true l.qs.toList l.t l.n =
      Except.map (fun c => (flattenCt l c, max s1 s2, c.cf))
        (ctTranslateBalanced l (unflattenCt l s1 d1 ntt cf1) (unflattenCt l s2 d2 ntt cf2) sub) := by
  have hB1 : d1.length < B64 := by
    rw [h1]; exact Nat.lt_of_le_of_lt (Nat.mul_le_mul_right _ (Nat.le_max_left s1 s2)) hB
  have hB2 : d2.length < B64 := by
    rw [h2]; exact Nat.lt_of_le_of_lt (Nat.mul_le_mul_right _ (Nat.le_max_right s1 s2)) hB
  rw [gc_translate_inplace_balance_partial d1 d2 s1 s2 cf1 cf2 sub _ _ _ hcf, gy_balance_correction_factors_eq ht cf1 cf2 hc1 hc2,
    gt_ctBalanced_eq l d1 d2 s1 s2 ntt cf1 cf2 sub hcf]
  cases balanceCorrectionFactors cf1 cf2 l.t with
  | error e => rfl
  | ok r =>
    obtain ⟨f, e1, e2⟩ := r
    simp only [bind, Except.bind]
    rw [gt_scale_step l d1 s1 e1 h1 hpl hB1, gt_scale_step l d2 s2 e2 h2 hpl hB2]
    cases hm1 : (List.range s1).mapM (fun i => compsMap l.qs (gt_U l d1 i) (fun x m => mulMod x e1 m)) with
    | error e => rfl
    | ok o1 =>
      simp only [bind, Except.bind, pure, Except.pure]
      cases hm2 : (List.range s2).mapM (fun i => compsMap l.qs (gt_U l d2 i) (fun x m => mulMod x e2 m)) with
      | error e => rfl
      | ok o2 =>
        simp only []
        have hl1' : o1.length = s1 := by rw [gp_mapM_lengthG _ _ _ hm1, List.length_range]
        have hl2' : o2.length = s2 := by rw [gp_mapM_lengthG _ _ _ hm2, List.length_range]
        have hsh1 : ∀ o, o ∈ o1 → o.size = l.size ∧ ∀ j, j < l.size → (o.getD j #[]).size = l.n :=
          gp_mapM_all _ _ _ o1 hm1 (fun i o hi ho => gt_scaled_shape l d1 s1 i e1 h1 (List.mem_range.mp hi) o ho)
        have hsh2 : ∀ o, o ∈ o2 → o.size = l.size ∧ ∀ j, j < l.size → (o.getD j #[]).size = l.n :=
          gp_mapM_all _ _ _ o2 hm2 (fun i o hi ho => gt_scaled_shape l d2 s2 i e2 h2 (List.mem_range.mp hi) o ho)
        have hu1 := gt_unflattenCt_flat l o1 ntt f hsh1
        have hu2 := gt_unflattenCt_flat l o2 ntt f hsh2
        rw [hl1'] at hu1
        rw [hl2'] at hu2
        rw [gt_translate_inplace_eq_general l _ _ s1 s2 ntt f sub l.t hs hl1 (by rw [gt_flatten_length, hl1']) (by rw [gt_flatten_length, hl2']) hpl hB,
          hu1, hu2]
        cases hct : ctTranslate l ⟨o1.toArray, ntt, f⟩ ⟨o2.toArray, ntt, f⟩ sub with
        | error e => rfl
        | ok c =>
          have hcf' : c.cf = f := gt_ctTranslate_cf l _ _ sub c hct
          simp only [Except.map, hcf']

end HC
