import Heathcliff.Proofs.GenEvalCt

/-!
  Translator phase 4g: `Evaluator::translate_inplace` (generated skeleton over the flat buffers, Gen/EvalCtFns.lean) = `ctTranslate` /
  `ctTranslateBalanced` of Model/Evaluator.lean for ALL size pairs and for unequal correction factors.  Helper names start with `gt_`.
-/
namespace HC
open HC.GenW HC.GenP HC.GenC

/-! ### list plumbing -/

theorem gt_slice_app (O T : List Nat) : GenP.slice (O ++ T) O.length (O.length + T.length) = .ok T := by
  unfold GenP.slice
  rw [if_pos ⟨by omega, by simp⟩, List.drop_left, Nat.add_sub_cancel_left, List.take_length]

theorem gt_splice_app (O T N : List Nat) (h : N.length = T.length) : GenP.splice (O ++ T) O.length N = O ++ N := by
  unfold GenP.splice
  rw [List.take_left, h, ← List.length_append, List.drop_length, List.append_nil]

theorem gt_copy_app (O Z T : List Nat) (h : T.length = Z.length) :
    GenP.copySlice (O ++ Z) O.length (O.length + Z.length) T = .ok (O ++ T) := by
  unfold GenP.copySlice
  rw [if_pos (by omega), gt_splice_app O Z T h]

theorem gt_blk_app (D : Nat) (d z : List Nat) (i : Nat) (h : i * D + D ≤ d.length) : gp_blk D (d ++ z) i = gp_blk D d i := by
  unfold gp_blk
  rw [List.drop_append_of_le_length (by omega), List.take_append_of_le_length (by rw [List.length_drop]; omega)]

theorem gt_blk_drop (D : Nat) (d : List Nat) (a i : Nat) : gp_blk D (d.drop (a * D)) i = gp_blk D d (a + i) := by
  unfold gp_blk
  rw [List.drop_drop, Nat.add_mul]

/-- the blocks `a, a+1, …` of a buffer of `a + c` blocks, concatenated, are the buffer from block `a` on -/
theorem gt_blocks_drop (D : Nat) (d : List Nat) : ∀ c a, d.length = (a + c) * D →
    ((List.range' a c).map (gp_blk D d)).flatten = d.drop (a * D) := by
  intro c
  induction c with
  | zero => intro a h; simp at h ⊢; omega
  | succ c ih =>
    intro a h
    rw [List.range'_succ, List.map_cons, List.flatten_cons, ih (a + 1) (by rw [h]; congr 1; omega)]
    unfold gp_blk
    rw [Nat.succ_mul, ← List.drop_drop, List.take_append_drop]

theorem gt_mapM_append {α β : Type} (f : α → R β) : ∀ (l1 l2 : List α),
    (l1 ++ l2).mapM f = (do let xs ← l1.mapM f; let ys ← l2.mapM f; pure (xs ++ ys)) := by
  intro l1
  induction l1 with
  | nil =>
    intro l2
    simp only [List.nil_append, List.mapM_nil, pure, Except.pure, bind, Except.bind]
    cases l2.mapM f <;> rfl
  | cons x t ih =>
    intro l2
    rw [List.cons_append, List.mapM_cons, List.mapM_cons, ih]
    cases f x with
    | error e => rfl
    | ok y =>
      simp only [bind, Except.bind]
      cases t.mapM f with
      | error e => rfl
      | ok ys =>
        simp only []
        cases l2.mapM f with
        | error e => rfl
        | ok zs => rfl

theorem gt_mapM_pure {α β : Type} (g : α → β) : ∀ (l : List α), l.mapM (fun x => (pure (g x) : R β)) = .ok (l.map g) := by
  intro l
  induction l with
  | nil => rfl
  | cons x t ih => rw [List.mapM_cons, ih]; rfl

theorem gt_flattenRns_length (size n : Nat) (p : RnsPoly) : (flattenRns size n p).length = size * n := by
  simp [flattenRns]

theorem gt_flatten_length (size n : Nat) : ∀ (outs : List RnsPoly), ((outs.map (flattenRns size n)).flatten).length = outs.length * (size * n) := by
  intro outs
  induction outs with
  | nil => simp
  | cons x t ih => rw [List.map_cons, List.flatten_cons, List.length_append, ih, gt_flattenRns_length, List.length_cons, Nat.succ_mul, Nat.add_comm]

/-- `translateShape` = the common polynomials, then the extra ones of the longer operand -/
theorem gt_shape_mapM {β : Type} (f : TrTerm → R β) (s1 s2 : Nat) :
    (translateShape s1 s2).mapM f =
      (do let xs ← (List.range (min s1 s2)).mapM (fun i => f (.both i))
          let ys ← (List.range' (min s1 s2) (max s1 s2 - min s1 s2)).mapM (fun i => f (if s1 > s2 then .left i else .right i))
          pure (xs ++ ys)) := by
  unfold translateShape
  have hr : List.range (max s1 s2) = List.range (min s1 s2) ++ List.range' (min s1 s2) (max s1 s2 - min s1 s2) := by
    rw [List.range_eq_range', List.range_eq_range']
    have h := List.range'_append_1 (s := 0) (m := min s1 s2) (n := max s1 s2 - min s1 s2)
    rw [Nat.zero_add] at h
    rw [h]
    congr 1; omega
  rw [hr, List.map_append, gt_mapM_append, gc_mapM_comp, gc_mapM_comp]
  rw [gp_mapM_congr' _ (fun i => f (.both i)) (List.range (min s1 s2)) (by
        intro i hi; rw [if_pos (List.mem_range.mp hi)]),
      gp_mapM_congr' _ (fun i => f (if s1 > s2 then .left i else .right i)) (List.range' (min s1 s2) (max s1 s2 - min s1 s2)) (by
        intro i hi
        have := (List.mem_range'_1.mp hi).1
        rw [if_neg (by omega)])]

/-- block `i` of the flat buffer as a model polynomial -/
def gt_U (l : Level) (d : List Nat) (i : Nat) : RnsPoly := unflattenRns l.size l.n (gp_blk (l.size * l.n) d i)

/-- the hand model on `unflattenCt` operands, in terms of the blocks of the two buffers -/
theorem gt_ctTranslate_eq (l : Level) (d1 d2 : List Nat) (s1 s2 : Nat) (ntt : Bool) (cf : Nat) (sub : Bool) :
    ctTranslate l (unflattenCt l s1 d1 ntt cf) (unflattenCt l s2 d2 ntt cf) sub =
      (do let xs ← (List.range (min s1 s2)).mapM (fun i => if sub then rnsSub l (gt_U l d1 i) (gt_U l d2 i) else rnsAdd l (gt_U l d1 i) (gt_U l d2 i))
          let ys ← (List.range' (min s1 s2) (max s1 s2 - min s1 s2)).mapM (fun i =>
            if s1 > s2 then pure (gt_U l d1 i) else if sub then rnsNeg l (gt_U l d2 i) else pure (gt_U l d2 i))
          pure { unflattenCt l s1 d1 ntt cf with polys := (xs ++ ys).toArray }) := by
  unfold ctTranslate
  rw [if_neg (by simp [unflattenCt]), if_neg (by simp [unflattenCt]), gc_polys_size, gc_polys_size, gt_shape_mapM]
  rw [gp_mapM_congr' _ (fun i => if sub then rnsSub l (gt_U l d1 i) (gt_U l d2 i) else rnsAdd l (gt_U l d1 i) (gt_U l d2 i))
        (List.range (min s1 s2)) (by
      intro i hi
      have hi := List.mem_range.mp hi
      simp only [gc_polys_getD _ _ _ _ _ _ (show i < s1 by omega), gc_polys_getD _ _ _ _ _ _ (show i < s2 by omega), gt_U]),
    gp_mapM_congr' _ (fun i => if s1 > s2 then pure (gt_U l d1 i) else if sub then rnsNeg l (gt_U l d2 i) else pure (gt_U l d2 i))
        (List.range' (min s1 s2) (max s1 s2 - min s1 s2)) (by
      intro i hi
      have hi := List.mem_range'_1.mp hi
      by_cases h : s1 > s2
      · simp only [h, if_true, gc_polys_getD _ _ _ _ _ _ (show i < s1 by omega), gt_U]
      · simp only [h, if_false, gc_polys_getD _ _ _ _ _ _ (show i < s2 by omega), gt_U])]
  cases (List.range (min s1 s2)).mapM (fun i => if sub then rnsSub l (gt_U l d1 i) (gt_U l d2 i) else rnsAdd l (gt_U l d1 i) (gt_U l d2 i)) with
  | error e => rfl
  | ok xs =>
    simp only [bind, Except.bind]
    cases (List.range' (min s1 s2) (max s1 s2 - min s1 s2)).mapM (fun i =>
        if s1 > s2 then pure (gt_U l d1 i) else if sub then rnsNeg l (gt_U l d2 i) else pure (gt_U l d2 i)) with
    | error e => rfl
    | ok ys => rfl

theorem gt_tail_flat (l : Level) (d : List Nat) (a c : Nat) (h : d.length = (a + c) * (l.size * l.n)) :
    (((List.range' a c).map (gt_U l d)).map (flattenRns l.size l.n)).flatten = d.drop (a * (l.size * l.n)) := by
  rw [List.map_map, ← gt_blocks_drop (l.size * l.n) d c a h]
  congr 1
  apply List.map_congr_left
  intro i hi
  have hi := List.mem_range'_1.mp hi
  have hb : i * (l.size * l.n) + l.size * l.n ≤ d.length := by
    rw [h, ← Nat.succ_mul]; exact Nat.mul_le_mul_right _ (by omega)
  simp only [Function.comp, gt_U]
  exact flatten_unflatten _ _ _ (gp_blk_length _ _ _ hb)

theorem gt_resizeL_grow (d : List Nat) (N : Nat) (h : d.length ≤ N) : GenC.resizeL d N 0 = d ++ List.replicate (N - d.length) 0 := by
  unfold GenC.resizeL; rw [List.take_of_length_le h]

theorem gt_slice_drop (d : List Nat) (a b : Nat) (hb : d.length = b) (ha : a ≤ b) : GenP.slice d a b = .ok (d.drop a) := by
  unfold GenP.slice
  rw [if_pos ⟨ha, by omega⟩, List.take_of_length_le (by rw [List.length_drop]; omega)]

/-- `Evaluator::translate_inplace` (add / sub), equal correction factors, the FIRST operand at least as long as the second (checks passed):
    the common polynomials are added / subtracted, the remaining polynomials of the first operand are kept -/
theorem gt_translate_ge (l : Level) (d1 d2 : List Nat) (s1 s2 : Nat) (ntt : Bool) (cf : Nat) (sub : Bool) (t : Modulus)
    (hle : s2 ≤ s1) (hs : s1 = 0 ∨ (2 ≤ s1 ∧ s1 ≤ 16)) (hl1 : 1 ≤ l.size)
    (h1 : d1.length = s1 * (l.size * l.n)) (h2 : d2.length = s2 * (l.size * l.n)) (hpl : l.n * l.size < B64) (hB : d1.length < B64) :
    GenC.ct_translate_inplace_eq d1 s1 cf d2 s2 cf sub true true true false true l.qs.toList t l.n =
      Except.map (fun c => (flattenCt l c, max s1 s2, cf)) (ctTranslate l (unflattenCt l s1 d1 ntt cf) (unflattenCt l s2 d2 ntt cf) sub) := by
  have hlen : l.qs.toList.length = l.size := by simp [Level.size]
  have hmax : max s1 s2 = s1 := Nat.max_eq_left hle
  have hmin : min s1 s2 = s2 := Nat.min_eq_right hle
  have hle' : s1 * l.n ≤ s1 * (l.size * l.n) := Nat.mul_le_mul_left _ (Nat.le_mul_of_pos_left _ hl1)
  have hck1 : ckMul s1 l.n = .ok (s1 * l.n) := by unfold ckMul; rw [if_pos (by omega)]
  have hck2 : ckMul (s1 * l.n) l.size = .ok (s1 * (l.size * l.n)) := by
    unfold ckMul
    have : s1 * l.n * l.size = s1 * (l.size * l.n) := by rw [Nat.mul_assoc, Nat.mul_comm l.n l.size]
    rw [this, if_pos (by omega)]
  have hsz : ¬ ((s1 < 2 ∧ s1 ≠ 0) ∨ s1 > 16) := by omega
  have hnl : ¬ s1 < s2 := by omega
  have hs2 : s2 * (l.size * l.n) ≤ s1 * (l.size * l.n) := Nat.mul_le_mul_right _ hle
  unfold GenC.ct_translate_inplace_eq
  simp only [if_true, hmax, hmin, ne_eq, not_true_eq_false, if_false, hsz, not_false_eq_true, hlen, hck1, hck2,
    bind, Except.bind, gc_resizeL_same d1 _ h1, hnl, pure, Except.pure, Bool.false_eq_true]
  rw [gt_ctTranslate_eq, hmax, hmin]
  rw [gp_mapM_congr' _ (fun i => (pure (gt_U l d1 i) : R RnsPoly)) (List.range' s2 (s1 - s2)) (by
    intro i hi
    have hi := List.mem_range'_1.mp hi
    rw [if_pos (by omega)]), gt_mapM_pure]
  have htl := gt_tail_flat l d1 s2 (s1 - s2) (by rw [h1]; congr 1; omega)
  cases sub with
  | false =>
    simp only [Bool.false_eq_true, not_false_eq_true, if_true, if_false]
    rw [gp_poly_add_inplace_ps_model l d1 d2 s2 hpl (by omega) (by omega) hB]
    simp only [gt_U]
    cases (List.range s2).mapM (fun i => rnsAdd l (unflattenRns l.size l.n (gp_blk (l.size * l.n) d1 i))
        (unflattenRns l.size l.n (gp_blk (l.size * l.n) d2 i))) with
    | error e => rfl
    | ok outs =>
      simp only [bind, Except.bind, pure, Except.pure, Except.map, flattenCt, List.map_append, List.flatten_append]
      rw [← htl]
  | true =>
    simp only [not_true_eq_false, if_true, if_false]
    rw [gp_poly_sub_inplace_ps_model l d1 d2 s2 hpl (by omega) (by omega) hB]
    simp only [gt_U]
    cases (List.range s2).mapM (fun i => rnsSub l (unflattenRns l.size l.n (gp_blk (l.size * l.n) d1 i))
        (unflattenRns l.size l.n (gp_blk (l.size * l.n) d2 i))) with
    | error e => rfl
    | ok outs =>
      simp only [bind, Except.bind, pure, Except.pure, Except.map, flattenCt, List.map_append, List.flatten_append]
      rw [← htl]

/-- what the generated routine does with the extra polynomials of a LONGER second operand, on the buffer `O ++ Z` (`O` = the common part
    already computed, `Z` = the zero padding of the resize): they are copied and, in a subtraction, negated -/
theorem gt_tail_step (l : Level) (O Z d2 : List Nat) (s1 s2 : Nat) (sub : Bool) (hlt : s1 < s2)
    (hO : O.length = s1 * (l.size * l.n)) (hZ : Z.length = (s2 - s1) * (l.size * l.n)) (h2 : d2.length = s2 * (l.size * l.n))
    (hpl : l.n * l.size < B64) (hB : s2 * (l.size * l.n) < B64) :
    (do let _ ← GenP.slice (O ++ Z) (s1 * (l.size * l.n)) (s2 * (l.size * l.n))
        let src ← GenP.slice d2 (s1 * (l.size * l.n)) (s2 * (l.size * l.n))
        let a ← GenP.copySlice (O ++ Z) (s1 * (l.size * l.n)) (s2 * (l.size * l.n)) src
        if sub = true then
          (do let tl ← GenP.slice a (s1 * (l.size * l.n)) (s2 * (l.size * l.n))
              let o ← GenP.poly_negate_inplace_ps tl (s2 - s1) l.n l.qs.toList
              pure (GenP.splice a (s1 * (l.size * l.n)) o))
        else pure a : R (List Nat)) =
      (do let ys ← (List.range' s1 (s2 - s1)).mapM (fun i => if sub then rnsNeg l (gt_U l d2 i) else pure (gt_U l d2 i))
          pure (O ++ (ys.map (flattenRns l.size l.n)).flatten)) := by
  have hmul : s2 * (l.size * l.n) = s1 * (l.size * l.n) + (s2 - s1) * (l.size * l.n) := by
    rw [← Nat.add_mul]; congr 1; omega
  have hT : (d2.drop (s1 * (l.size * l.n))).length = (s2 - s1) * (l.size * l.n) := by rw [List.length_drop, h2, hmul]; omega
  have hsl2 : GenP.slice d2 (s1 * (l.size * l.n)) (s2 * (l.size * l.n)) = .ok (d2.drop (s1 * (l.size * l.n))) :=
    gt_slice_drop d2 _ _ h2 (Nat.mul_le_mul_right _ (Nat.le_of_lt hlt))
  have hTflat := gt_tail_flat l d2 s1 (s2 - s1) (by rw [h2]; congr 1; omega)
  have hTneg : (List.range' 0 (s2 - s1)).mapM (fun i => rnsNeg l (unflattenRns l.size l.n (gp_blk (l.size * l.n) (d2.drop (s1 * (l.size * l.n))) i))) =
      (List.range' s1 (s2 - s1)).mapM (fun i => rnsNeg l (gt_U l d2 i)) := by
    have hr : List.range' s1 (s2 - s1) = (List.range' 0 (s2 - s1)).map (fun i => s1 + i) := by
      rw [List.map_add_range']; simp
    rw [hr, gc_mapM_comp]
    apply gp_mapM_congr'
    intro i _
    simp only [gt_U, gt_blk_drop]
  rw [hsl2]
  generalize d2.drop (s1 * (l.size * l.n)) = T at hT hTflat hTneg ⊢
  have e1 : s1 * (l.size * l.n) = O.length := hO.symm
  have e2 : s2 * (l.size * l.n) = O.length + Z.length := by rw [hmul, hO, hZ]
  have hZT : Z.length = T.length := by rw [hT, hZ]
  rw [e2, e1, gt_slice_app O Z]
  simp only [bind, Except.bind]
  rw [gt_copy_app O Z T hZT.symm]
  simp only []
  cases sub with
  | false =>
    simp only [Bool.false_eq_true, if_false]
    rw [gt_mapM_pure]
    simp only [pure, Except.pure]
    rw [hTflat]
  | true =>
    simp only [if_true]
    rw [hZT, gt_slice_app O T]
    simp only []
    rw [gp_poly_negate_inplace_ps_model l T (s2 - s1) hpl (by rw [hT]) (by rw [hT]; omega)]
    rw [List.range_eq_range', hTneg, ← hT, List.drop_length]
    cases hm : (List.range' s1 (s2 - s1)).mapM (fun i => rnsNeg l (gt_U l d2 i)) with
    | error e => rfl
    | ok outs =>
      simp only [bind, Except.bind, pure, Except.pure, List.append_nil]
      have hol : ((outs.map (flattenRns l.size l.n)).flatten).length = T.length := by
        rw [gt_flatten_length, hT, gp_mapM_lengthG _ _ _ hm, List.length_range']
      rw [gt_splice_app O _ _ hol]

/-- `Evaluator::translate_inplace` (add / sub), equal correction factors, the SECOND operand longer (checks passed): the first buffer is
    resized, the common polynomials are added / subtracted, the extra polynomials of the second operand are copied and - in a subtraction -
    negated -/
theorem gt_translate_lt (l : Level) (d1 d2 : List Nat) (s1 s2 : Nat) (ntt : Bool) (cf : Nat) (sub : Bool) (t : Modulus)
    (hlt : s1 < s2) (hs : 2 ≤ s2 ∧ s2 ≤ 16) (hl1 : 1 ≤ l.size)
    (h1 : d1.length = s1 * (l.size * l.n)) (h2 : d2.length = s2 * (l.size * l.n)) (hpl : l.n * l.size < B64) (hB : d2.length < B64) :
    GenC.ct_translate_inplace_eq d1 s1 cf d2 s2 cf sub true true true false true l.qs.toList t l.n =
      Except.map (fun c => (flattenCt l c, max s1 s2, cf)) (ctTranslate l (unflattenCt l s1 d1 ntt cf) (unflattenCt l s2 d2 ntt cf) sub) := by
  have hlen : l.qs.toList.length = l.size := by simp [Level.size]
  have hmax : max s1 s2 = s2 := Nat.max_eq_right (Nat.le_of_lt hlt)
  have hmin : min s1 s2 = s1 := Nat.min_eq_left (Nat.le_of_lt hlt)
  have hle' : s2 * l.n ≤ s2 * (l.size * l.n) := Nat.mul_le_mul_left _ (Nat.le_mul_of_pos_left _ hl1)
  have hck1 : ckMul s2 l.n = .ok (s2 * l.n) := by unfold ckMul; rw [if_pos (by omega)]
  have hck2 : ckMul (s2 * l.n) l.size = .ok (s2 * (l.size * l.n)) := by
    unfold ckMul
    have : s2 * l.n * l.size = s2 * (l.size * l.n) := by rw [Nat.mul_assoc, Nat.mul_comm l.n l.size]
    rw [this, if_pos (by omega)]
  have hs12 : s1 * (l.size * l.n) ≤ s2 * (l.size * l.n) := Nat.mul_le_mul_right _ (Nat.le_of_lt hlt)
  have hckA : ckMul l.n l.size = .ok (l.size * l.n) := by unfold ckMul; rw [if_pos hpl, Nat.mul_comm]
  have hckB : ckMul s1 (l.size * l.n) = .ok (s1 * (l.size * l.n)) := by unfold ckMul; rw [if_pos (by omega)]
  have hckC : ckMul s2 (l.size * l.n) = .ok (s2 * (l.size * l.n)) := by unfold ckMul; rw [if_pos (by omega)]
  have hsub : ckSub s2 s1 = .ok (s2 - s1) := by unfold ckSub; rw [if_pos (Nat.le_of_lt hlt)]
  have hsz : ¬ ((s2 < 2 ∧ s2 ≠ 0) ∨ s2 > 16) := by omega
  have hrs : GenC.resizeL d1 (s2 * (l.size * l.n)) 0 = d1 ++ List.replicate ((s2 - s1) * (l.size * l.n)) 0 := by
    rw [gt_resizeL_grow _ _ (by omega), h1, Nat.sub_mul]
  have hd1' : (d1 ++ List.replicate ((s2 - s1) * (l.size * l.n)) 0).length = s2 * (l.size * l.n) := by
    rw [List.length_append, List.length_replicate, h1, ← Nat.add_mul]; congr 1; omega
  have hdrop : (d1 ++ List.replicate ((s2 - s1) * (l.size * l.n)) 0).drop (s1 * (l.size * l.n)) = List.replicate ((s2 - s1) * (l.size * l.n)) 0 := by
    rw [← h1, List.drop_left]
  have hblk : ∀ i, i ∈ List.range s1 → gp_blk (l.size * l.n) (d1 ++ List.replicate ((s2 - s1) * (l.size * l.n)) 0) i = gp_blk (l.size * l.n) d1 i := by
    intro i hi
    exact gt_blk_app _ _ _ _ (by rw [h1]; exact gp_blk_bound (List.mem_range.mp hi))
  unfold GenC.ct_translate_inplace_eq
  simp only [if_true, hmax, hmin, ne_eq, not_true_eq_false, if_false, hsz, not_false_eq_true, hlen, hck1, hck2, hckA, hckB, hckC, hsub,
    bind, Except.bind, hrs, hlt, pure, Except.pure, Bool.false_eq_true]
  rw [gt_ctTranslate_eq, hmax, hmin]
  rw [gp_mapM_congr' _ (fun i => if sub then rnsNeg l (gt_U l d2 i) else (pure (gt_U l d2 i) : R RnsPoly)) (List.range' s1 (s2 - s1)) (by
    intro i _
    rw [if_neg (by omega)])]
  have hstep := fun (O : List Nat) (hO : O.length = s1 * (l.size * l.n)) =>
    gt_tail_step l O (List.replicate ((s2 - s1) * (l.size * l.n)) 0) d2 s1 s2 sub hlt hO (List.length_replicate ..) h2 hpl (by omega)
  cases sub with
  | false =>
    simp only [Bool.false_eq_true, not_false_eq_true, if_true, if_false] at hstep ⊢
    rw [gp_poly_add_inplace_ps_model l _ d2 s1 hpl (by rw [hd1']; exact hs12) (by rw [h2]; exact hs12) (by rw [hd1']; omega), hdrop]
    rw [gp_mapM_congr' _ (fun i => rnsAdd l (gt_U l d1 i) (gt_U l d2 i)) (List.range s1) (by
      intro i hi; simp only [gt_U, hblk i hi])]
    cases hm : (List.range s1).mapM (fun i => rnsAdd l (gt_U l d1 i) (gt_U l d2 i)) with
    | error e => rfl
    | ok outs =>
      have hO : ((outs.map (flattenRns l.size l.n)).flatten).length = s1 * (l.size * l.n) := by
        rw [gt_flatten_length, gp_mapM_lengthG _ _ _ hm, List.length_range]
      have h := hstep _ hO
      simp only [bind, Except.bind, pure, Except.pure] at h ⊢
      rw [h]
      cases (List.range' s1 (s2 - s1)).mapM (fun i => (Except.ok (gt_U l d2 i) : R RnsPoly)) with
      | error e => rfl
      | ok ys => simp [Except.map, flattenCt]
  | true =>
    simp only [not_true_eq_false, if_true, if_false] at hstep ⊢
    rw [gp_poly_sub_inplace_ps_model l _ d2 s1 hpl (by rw [hd1']; exact hs12) (by rw [h2]; exact hs12) (by rw [hd1']; omega), hdrop]
    rw [gp_mapM_congr' _ (fun i => rnsSub l (gt_U l d1 i) (gt_U l d2 i)) (List.range s1) (by
      intro i hi; simp only [gt_U, hblk i hi])]
    cases hm : (List.range s1).mapM (fun i => rnsSub l (gt_U l d1 i) (gt_U l d2 i)) with
    | error e => rfl
    | ok outs =>
      have hO : ((outs.map (flattenRns l.size l.n)).flatten).length = s1 * (l.size * l.n) := by
        rw [gt_flatten_length, gp_mapM_lengthG _ _ _ hm, List.length_range]
      have h := hstep _ hO
      simp only [bind, Except.bind, pure, Except.pure] at h ⊢
      rw [h]
      cases (List.range' s1 (s2 - s1)).mapM (fun i => rnsNeg l (gt_U l d2 i)) with
      | error e => rfl
      | ok ys => simp [Except.map, flattenCt]

/-- **`Evaluator::translate_inplace` = `ctTranslate`, all size pairs.**  The function generated from src/evaluator.rs (skeleton over the
    flat buffers; ciphertext checks, parameter / NTT-form / scale comparisons passed, EQUAL correction factors) equals the hand model on
    `unflattenCt`, for every pair of sizes whose maximum `Ciphertext::resize` accepts (0 or 2..16; otherwise the code panics in `resize`,
    a check the model does not have): result buffer = the flattened model result, new size = the maximum, factor unchanged.  Both sides
    work through the polynomials left to right, so they agree on failures too (no range hypothesis on the coefficients).
    Hypotheses: buffer lengths = size × (components × degree) (the shape `is_buffer_valid` checks), at least one modulus, and the longer
    buffer's length fits a usize. -/
theorem gt_translate_inplace_eq_general (l : Level) (d1 d2 : List Nat) (s1 s2 : Nat) (ntt : Bool) (cf : Nat) (sub : Bool) (t : Modulus)
    (hs : max s1 s2 = 0 ∨ (2 ≤ max s1 s2 ∧ max s1 s2 ≤ 16)) (hl1 : 1 ≤ l.size)
    (h1 : d1.length = s1 * (l.size * l.n)) (h2 : d2.length = s2 * (l.size * l.n)) (hpl : l.n * l.size < B64)
    (hB : max s1 s2 * (l.size * l.n) < B64) :
    GenC.ct_translate_inplace_eq d1 s1 cf d2 s2 cf sub true true true false true l.qs.toList t l.n =
      Except.map (fun c => (flattenCt l c, max s1 s2, cf)) (ctTranslate l (unflattenCt l s1 d1 ntt cf) (unflattenCt l s2 d2 ntt cf) sub) := by
  by_cases hle : s2 ≤ s1
  · have hmax : max s1 s2 = s1 := Nat.max_eq_left hle
    rw [hmax] at hs hB
    exact gt_translate_ge l d1 d2 s1 s2 ntt cf sub t hle hs hl1 h1 h2 hpl (by rw [h1]; exact hB)
  · have hlt : s1 < s2 := by omega
    have hmax : max s1 s2 = s2 := Nat.max_eq_right (Nat.le_of_lt hlt)
    rw [hmax] at hs hB
    exact gt_translate_lt l d1 d2 s1 s2 ntt cf sub t hlt (by omega) hl1 h1 h2 hpl (by rw [h2]; exact hB)

/-- the size `resize` refuses (1, or more than 16 polynomials) is refused by the generated function whatever the data is -/
theorem gt_translate_inplace_refuses_size (d1 d2 : List Nat) (s1 s2 cf : Nat) (sub : Bool) (mods : List Modulus) (t : Modulus) (n : Nat)
    (h : (max s1 s2 < 2 ∧ max s1 s2 ≠ 0) ∨ max s1 s2 > 16) :
    GenC.ct_translate_inplace_eq d1 s1 cf d2 s2 cf sub true true true false true mods t n = .error .refused := by
  unfold GenC.ct_translate_inplace_eq
  simp only [if_true, ne_eq, not_true_eq_false, if_false, Bool.false_eq_true, bind, Except.bind, pure, Except.pure, h]

/-- the top-level generated function with EQUAL factors is the equal-factor routine (its balancing branch is not entered) -/
theorem gt_translate_inplace_top_eq (d1 d2 : List Nat) (s1 s2 cf : Nat) (sub v1 v2 sp nd ss : Bool) (mods : List Modulus) (t : Modulus) (n : Nat) :
    GenC.ct_translate_inplace d1 s1 cf d2 s2 cf sub v1 v2 sp nd ss mods t n =
      GenC.ct_translate_inplace_eq d1 s1 cf d2 s2 cf sub v1 v2 sp nd ss mods t n := by
  unfold GenC.ct_translate_inplace GenC.ct_translate_inplace_eq
  simp only [ne_eq, not_true_eq_false, if_false]

end HC
