/- Helper lemmas for Props/C18 (multiparty protocols). All names carry the tag `c18_`. -/
import Heathcliff.Model.Multiparty
import Mathlib.Tactic.Ring
import Mathlib.Tactic.Linarith
import Mathlib.Tactic.Abel
import Mathlib.Algebra.BigOperators.Ring.Finset
import Mathlib.Algebra.BigOperators.Intervals
import Mathlib.Algebra.Order.BigOperators.Group.Finset
import Mathlib.Data.List.Perm.Basic
import Mathlib.Algebra.Group.Equiv.Basic
namespace HC
open HC.MP Finset

variable {α : Type}

/-! ### delivery order -/

theorem c18_receiveAll_cons (p : Reveal α) (x : Nat × α) (l : List (Nat × α)) :
    p.receiveAll (x :: l) = match p.receive x.1 x.2 with
      | .ok p' => p'.receiveAll l
      | .error e => .error e := by
  cases x; rfl

theorem c18_receive_ok (p : Reveal α) (s : Nat) (m : α) (h : s < p.slots.length) :
    p.receive s m = .ok { p with slots := p.slots.set s (some m) } := by
  simp [Reveal.receive, h]

theorem c18_receive_err (p : Reveal α) (s : Nat) (m : α) (h : ¬ s < p.slots.length) :
    p.receive s m = .error .oob := by
  simp [Reveal.receive, h]

/-- two messages from different senders may arrive in either order -/
theorem c18_receiveAll_swap (p : Reveal α) (x y : Nat × α) (l : List (Nat × α)) (h : x.1 ≠ y.1) :
    p.receiveAll (x :: y :: l) = p.receiveAll (y :: x :: l) := by
  rw [c18_receiveAll_cons, c18_receiveAll_cons]
  by_cases hx : x.1 < p.slots.length <;> by_cases hy : y.1 < p.slots.length
  · rw [c18_receive_ok _ _ _ hx, c18_receive_ok _ _ _ hy]
    simp only
    rw [c18_receiveAll_cons, c18_receiveAll_cons]
    rw [c18_receive_ok _ _ _ (by simpa using hy), c18_receive_ok _ _ _ (by simpa using hx)]
    simp only
    rw [List.set_comm _ _ h]
  · rw [c18_receive_ok _ _ _ hx, c18_receive_err _ _ _ hy]
    simp only
    rw [c18_receiveAll_cons, c18_receive_err _ _ _ (by simpa using hy)]
  · rw [c18_receive_err _ _ _ hx, c18_receive_ok _ _ _ hy]
    simp only
    rw [c18_receiveAll_cons, c18_receive_err _ _ _ (by simpa using hx)]
  · rw [c18_receive_err _ _ _ hx, c18_receive_err _ _ _ hy]

/-- any permutation of a delivery history with pairwise different senders leaves the protocol object in the same state -/
theorem c18_receiveAll_perm {d1 d2 : List (Nat × α)} (hp : d1.Perm d2) :
    (d1.map Prod.fst).Nodup → ∀ p : Reveal α, p.receiveAll d1 = p.receiveAll d2 := by
  induction hp with
  | nil => intro _ _; rfl
  | cons x _ ih =>
    intro hn p
    rw [c18_receiveAll_cons, c18_receiveAll_cons]
    rw [List.map_cons] at hn
    have hn' := (List.nodup_cons.mp hn).2
    cases p.receive x.1 x.2 with
    | ok p' => exact ih hn' p'
    | error e => rfl
  | swap x y l =>
    intro hn p
    rw [List.map_cons, List.map_cons] at hn
    have : y.1 ≠ x.1 := by
      have := (List.nodup_cons.mp hn).1
      intro h; apply this; rw [h]; exact List.mem_cons_self ..
    exact c18_receiveAll_swap p y x l this
  | trans h1 _ ih1 ih2 =>
    intro hn p
    rw [ih1 hn p]
    exact ih2 ((h1.map Prod.fst).nodup_iff.mp hn) p

/-! ### the state after a delivery history -/

/-- the last message of sender `j` in a history (none: nothing arrived from `j`) -/
def c18_last : List (Nat × α) → Nat → Option α
  | [], _ => none
  | (s, m) :: rest, j => match c18_last rest j with
    | some x => some x
    | none => if s = j then some m else none

theorem c18_last_none_iff (d : List (Nat × α)) (j : Nat) : c18_last d j = none ↔ j ∉ d.map Prod.fst := by
  induction d with
  | nil => simp [c18_last]
  | cons x rest ih =>
    obtain ⟨s, m⟩ := x
    simp only [c18_last, List.map_cons, List.mem_cons, not_or]
    cases hl : c18_last rest j with
    | some v =>
      have hmem : ¬ (j ∉ rest.map Prod.fst) := fun h => by rw [ih.mpr h] at hl; cases hl
      constructor
      · intro h; cases h
      · intro h; exact absurd h.2 hmem
    | none =>
      have h2 := ih.mp hl
      by_cases hs : s = j
      · simp [hs]
      · simp [hs, h2, Ne.symm hs]

theorem c18_last_msg (msg : Nat → α) (d : List (Nat × α)) (hm : ∀ x ∈ d, x.2 = msg x.1) (j : Nat) (v : α)
    (h : c18_last d j = some v) : v = msg j := by
  induction d generalizing v with
  | nil => simp [c18_last] at h
  | cons x rest ih =>
    obtain ⟨s, m⟩ := x
    simp only [c18_last] at h
    cases hl : c18_last rest j with
    | some w =>
      rw [hl] at h
      have := ih (fun x hx => hm x (List.mem_cons_of_mem _ hx)) w hl
      simp only [Option.some.injEq] at h; rw [← h]; exact this
    | none =>
      rw [hl] at h
      by_cases hs : s = j
      · simp only [hs, if_true, Option.some.injEq] at h
        have := hm (s, m) (List.mem_cons_self ..)
        simp only at this; rw [← h, this, hs]
      · simp [hs] at h

theorem c18_receiveAll_slots (d : List (Nat × α)) : ∀ p : Reveal α, (∀ x ∈ d, x.1 < p.slots.length) →
    ∃ p', p.receiveAll d = .ok p' ∧ p'.id = p.id ∧ p'.own = p.own ∧ p'.slots.length = p.slots.length ∧
      ∀ j, p'.slots[j]? = match c18_last d j with
        | some m => if j < p.slots.length then some (some m) else none
        | none => p.slots[j]? := by
  induction d with
  | nil => intro p _; exact ⟨p, rfl, rfl, rfl, rfl, fun j => by simp [c18_last]⟩
  | cons x rest ih =>
    intro p hr
    obtain ⟨s, m⟩ := x
    have hs : s < p.slots.length := hr (s, m) (List.mem_cons_self ..)
    rw [c18_receiveAll_cons, c18_receive_ok _ _ _ hs]
    simp only
    obtain ⟨p', h1, h2, h3, h4, h5⟩ := ih { p with slots := p.slots.set s (some m) }
      (fun x hx => by simpa using hr x (List.mem_cons_of_mem _ hx))
    refine ⟨p', h1, h2, h3, by simpa using h4, fun j => ?_⟩
    rw [h5 j]
    simp only [c18_last, List.length_set]
    cases c18_last rest j with
    | some v => rfl
    | none =>
      simp only [List.getElem?_set]
      by_cases hsj : s = j
      · subst hsj; simp [hs]
      · simp [hsj]

/-! ### completeness check and sum -/

theorem c18_allSentFrom_iff (id : Nat) (l : List (Option α)) : ∀ i, allSentFrom id i l = true ↔
    ∀ k, k < l.length → ((l[k]?.bind (fun x => x)).isSome = true ∨ i + k = id) := by
  induction l with
  | nil => intro i; simp [allSentFrom]
  | cons x xs ih =>
    intro i
    simp only [allSentFrom, Bool.and_eq_true, Bool.or_eq_true, beq_iff_eq, ih (i + 1), List.length_cons]
    constructor
    · rintro ⟨h0, h1⟩ k hk
      cases k with
      | zero => simpa using h0
      | succ k =>
        have := h1 k (by omega)
        simpa [Nat.add_assoc, Nat.add_comm 1 k] using this
    · intro h
      refine ⟨by simpa using h 0 (by omega), fun k hk => ?_⟩
      have := h (k + 1) (by omega)
      simpa [Nat.add_assoc, Nat.add_comm 1 k] using this

/-! ### a whole run -/

theorem c18_run_state (count id : Nat) (own : α) (d : List (Nat × α)) (hr : ∀ x ∈ d, x.1 < count) :
    ∃ p', (Reveal.new count id own).receiveAll d = .ok p' ∧ p'.id = id ∧ p'.own = own ∧
      p'.slots = (List.range count).map (c18_last d) := by
  obtain ⟨p', h1, h2, h3, h4, h5⟩ := c18_receiveAll_slots d (Reveal.new count id own)
    (by simpa [Reveal.new] using hr)
  refine ⟨p', h1, h2, h3, ?_⟩
  apply List.ext_getElem?
  intro j
  have hrange : ((List.range count).map (c18_last d))[j]? = if j < count then some (c18_last d j) else none := by
    by_cases hj : j < count
    · simp [hj]
    · simp [hj]
  have hlen : (Reveal.new count id own).slots.length = count := by simp [Reveal.new]
  have hnew : (Reveal.new count id own).slots[j]? = if j < count then some none else none := by
    simp [Reveal.new, List.getElem?_replicate]
  rw [h5 j, hrange, hlen, hnew]
  generalize c18_last d j = o
  cases o <;> rfl

theorem c18_allSent_iff (count id : Nat) (d : List (Nat × α)) (p : Reveal α) (hid : p.id = id)
    (hs : p.slots = (List.range count).map (c18_last d)) :
    p.allSent = true ↔ ∀ j, j < count → ((c18_last d j).isSome = true ∨ j = id) := by
  unfold Reveal.allSent
  rw [c18_allSentFrom_iff, hs, hid]
  simp only [List.length_map, List.length_range, Nat.zero_add]
  constructor
  · intro h j hj
    have := h j hj
    simpa [List.getElem?_map, List.getElem?_range, hj] using this
  · intro h j hj
    have := h j hj
    simpa [List.getElem?_map, List.getElem?_range, hj] using this

/-- REFUSAL: a party that misses the message of some other party does not finish (whatever the ring operations are) -/
theorem c18_run_incomplete (o : Ops α) (count id : Nat) (own : α) (d : List (Nat × α)) (hr : ∀ x ∈ d, x.1 < count)
    (j : Nat) (hj : j < count) (hji : j ≠ id) (hmiss : j ∉ d.map Prod.fst) :
    revealRun o count id own d = .error .refused := by
  obtain ⟨p', h1, h2, _, h4⟩ := c18_run_state count id own d hr
  unfold revealRun
  rw [h1]
  simp only [Reveal.finish]
  have : p'.allSent ≠ true := by
    intro h
    rcases (c18_allSent_iff count id d p' h2 h4).mp h j hj with h | h
    · rw [(c18_last_none_iff d j).mpr hmiss] at h; cases h
    · exact hji h
  simp [this]

section ring
variable {A : Type} [CommRing A]

theorem c18_sumSlots_ring (l : List (Option A)) : ∀ acc : A,
    sumSlots (Ops.ring (α := A)).add acc l = .ok (acc + (l.filterMap (fun x => x)).sum) := by
  induction l with
  | nil => intro acc; simp [sumSlots]
  | cons x xs ih =>
    intro acc
    cases x with
    | none => simp only [sumSlots]; rw [ih]; simp
    | some m =>
      simp only [sumSlots, Ops.ring]
      have := ih (acc + m)
      simp only [Ops.ring] at this
      rw [this]; simp [add_assoc]

theorem c18_filterMap_range_sum (f : Nat → Option A) (n : Nat) :
    (((List.range n).map f).filterMap (fun x => x)).sum = ∑ j ∈ range n, (f j).getD 0 := by
  induction n with
  | zero => simp
  | succ n ih =>
    rw [List.range_succ, List.map_append, List.filterMap_append, List.sum_append, ih, Finset.sum_range_succ]
    cases h : f n <;> simp [h]

/-- SUM: with every other party's message delivered (in any order, senders in range, not the party itself), a party that
    broadcasts `msg id` obtains Σ_j msg j -/
theorem c18_run_sum (count id : Nat) (hid : id < count) (msg : Nat → A) (d : List (Nat × A))
    (hr : ∀ x ∈ d, x.1 < count ∧ x.1 ≠ id ∧ x.2 = msg x.1)
    (hall : ∀ j, j < count → j ≠ id → j ∈ d.map Prod.fst) :
    revealRun (Ops.ring (α := A)) count id (msg id) d = .ok (∑ j ∈ range count, msg j) := by
  obtain ⟨p', h1, h2, h3, h4⟩ := c18_run_state count id (msg id) d (fun x hx => (hr x hx).1)
  unfold revealRun
  rw [h1]
  simp only [Reveal.finish]
  have hsent : p'.allSent = true := by
    rw [c18_allSent_iff count id d p' h2 h4]
    intro j hj
    by_cases hji : j = id
    · exact Or.inr hji
    · left
      have := hall j hj hji
      cases hl : c18_last d j with
      | some v => rfl
      | none => exact absurd this ((c18_last_none_iff d j).mp hl)
  rw [if_pos hsent, c18_sumSlots_ring, h3, h4, c18_filterMap_range_sum]
  congr 1
  have hterm : ∀ j ∈ range count, (c18_last d j).getD 0 = msg j - (if j = id then msg id else 0) := by
    intro j hj
    have hj' : j < count := Finset.mem_range.mp hj
    by_cases hji : j = id
    · have hnot : id ∉ d.map Prod.fst := by
        intro hmem
        obtain ⟨x, hx, hx2⟩ := List.mem_map.mp hmem
        exact (hr x hx).2.1 hx2
      subst hji
      rw [(c18_last_none_iff d j).mpr hnot]; simp
    · have := hall j hj' hji
      cases hl : c18_last d j with
      | none => exact absurd this ((c18_last_none_iff d j).mp hl)
      | some v =>
        have hv := c18_last_msg msg d (fun x hx => (hr x hx).2.2) j v hl
        simp [hji, hv]
  rw [Finset.sum_congr rfl hterm, Finset.sum_sub_distrib, Finset.sum_ite_eq' (range count) id (fun _ => msg id)]
  simp [hid]

end ring

/-! ### closed forms of the round functions in a commutative ring -/

section ring2
variable {A : Type} [CommRing A]

/-- value of a noise term: t·e in BGV, e otherwise -/
def c18_nz (sch : Scheme) (t : Nat) (e : A) : A := if sch = .bgv then (t : A) * e else e

theorem c18_noiseOf (sch : Scheme) (t : Nat) (e : A) :
    noiseOf (Ops.ring (α := A)) sch t e = .ok (c18_nz sch t e) := by
  unfold noiseOf c18_nz Ops.ring
  by_cases h : sch = .bgv <;> simp [h]

theorem c18_nz_sum (sch : Scheme) (t : Nat) (e : Nat → A) (s : Finset Nat) :
    ∑ i ∈ s, c18_nz sch t (e i) = c18_nz sch t (∑ i ∈ s, e i) := by
  unfold c18_nz
  by_cases h : sch = .bgv <;> simp [h, Finset.mul_sum]

theorem c18_nz_zero (sch : Scheme) (t : Nat) : c18_nz sch t (0 : A) = 0 := by
  unfold c18_nz; by_cases h : sch = .bgv <;> simp [h]

theorem c18_pkShare (sch : Scheme) (t : Nat) (s a e : A) :
    pkShare Ops.ring sch t s a e = .ok (-(s * a + c18_nz sch t e)) := by
  simp only [pkShare, c18_noiseOf]
  simp [Ops.ring, bind, Except.bind]

theorem c18_rlkRound1 (sch : Scheme) (t : Nat) (s a u e0 e1 w : A) :
    rlkRound1 Ops.ring sch t s a u e0 e1 w = .ok (-(u * a) + s * w + c18_nz sch t e0, s * a + c18_nz sch t e1) := by
  simp only [rlkRound1, c18_noiseOf]
  simp [Ops.ring, bind, Except.bind, pure, Except.pure]

theorem c18_rlkRound2 (sch : Scheme) (t : Nat) (s u h0 h1 e2 e3 : A) :
    rlkRound2 Ops.ring sch t s u h0 h1 e2 e3 = .ok (s * h0 + c18_nz sch t e2, (u - s) * h1 + c18_nz sch t e3) := by
  simp only [rlkRound2, c18_noiseOf]
  simp [Ops.ring, bind, Except.bind, pure, Except.pure]

theorem c18_rlkFinish (h0p h1p h1 : A) : rlkFinish Ops.ring h0p h1p h1 = .ok (h0p + h1p, h1) := by
  simp [rlkFinish, Ops.ring, bind, Except.bind, pure, Except.pure]

theorem c18_ksShare (sch : Scheme) (t : Nat) (ntt : Bool) (s s' c1 e : A) :
    ksShare Ops.ring sch t ntt s s' c1 e = .ok ((s - s') * c1 + c18_nz sch t e) := by
  simp only [ksShare, c18_noiseOf]
  cases ntt <;> simp [Ops.ring, bind, Except.bind, pure, Except.pure]

theorem c18_decShare (sch : Scheme) (t : Nat) (ntt : Bool) (s c1 e : A) :
    decShare Ops.ring sch t ntt s c1 e = .ok (s * c1 + c18_nz sch t e) := by
  simp only [decShare, c18_noiseOf]
  cases ntt <;> simp [Ops.ring, bind, Except.bind, pure, Except.pure]

theorem c18_pksShare (sch : Scheme) (t : Nat) (ntt : Bool) (s c1 p0 p1 u e0 e1 : A) :
    pksShare Ops.ring sch t ntt s c1 p0 p1 u e0 e1
      = .ok (s * c1 + u * p0 + c18_nz sch t e0, p1 * u + c18_nz sch t e1) := by
  simp only [pksShare, c18_noiseOf]
  cases ntt <;> simp [Ops.ring, bind, Except.bind, pure, Except.pure]

theorem c18_c2sShare (sch : Scheme) (t : Nat) (ntt : Bool) (id : Nat) (s c1 e np : A) :
    c2sShare Ops.ring sch t ntt id s c1 e np = .ok (s * c1 + c18_nz sch t e + (if id ≠ 0 then np else 0)) := by
  simp only [c2sShare, c18_decShare]
  by_cases h : id = 0 <;> simp [h, Ops.ring, bind, Except.bind, pure, Except.pure]

theorem c18_s2cShare (sch : Scheme) (t : Nat) (ntt : Bool) (id : Nat) (s a e pl : A) :
    s2cShare Ops.ring sch t ntt id s a e pl = .ok (-s * a + c18_nz sch t e + (if id ≠ 0 then pl else 0)) := by
  simp only [s2cShare, c18_noiseOf]
  by_cases h : id = 0 <;> cases ntt <;> simp [h, Ops.ring, bind, Except.bind, pure, Except.pure]

/-- Σ_i (x_i·c + y_i) = (Σ x_i)·c + Σ y_i -/
theorem c18_sum_mul_add (x y : Nat → A) (c : A) (s : Finset Nat) :
    ∑ i ∈ s, (x i * c + y i) = (∑ i ∈ s, x i) * c + ∑ i ∈ s, y i := by
  rw [Finset.sum_add_distrib, Finset.sum_mul]

end ring2

end HC
