/- C07 part S: the MODEL's `noiseBudget` (dot product, factor t for BFV, `compose` per coefficient, centred infinity norm,
   bit-count difference) equals the definition `Spec.budget` evaluated on the exact big-integer phase `Spec.phase`.
   All helper names carry the prefix `c07s_`. -/
import Heathcliff.Spec.Scheme
import Heathcliff.Proofs.C01O
import Heathcliff.Proofs.C01J
import Heathcliff.Proofs.C07L
import Mathlib.Algebra.BigOperators.Intervals
import Mathlib.Algebra.BigOperators.Ring.Finset
import Mathlib.Data.ZMod.Basic
import Mathlib.Tactic.Ring
import Mathlib.Tactic.Linarith
namespace HC
open Finset

/-! ### generic list / array helpers -/

theorem c07s_getD_modify (a : Array Int) (k m : Nat) (f : Int → Int) :
    (a.modify k f).getD m 0 = if k = m ∧ m < a.size then f (a.getD m 0) else a.getD m 0 := by
  by_cases hm : m < a.size
  · have h1 : m < (a.modify k f).size := by simpa using hm
    have e1 : (a.modify k f).getD m 0 = (a.modify k f)[m] := by simp [Array.getD, hm]
    have e2 : a.getD m 0 = a[m] := by simp [Array.getD, hm]
    rw [e1, e2, Array.getElem_modify]; simp [hm]
  · simp [Array.getD, hm]

theorem c07s_list_sum_range {M : Type} [AddCommMonoid M] (f : Nat → M) (n : Nat) :
    ((List.range n).map f).sum = ∑ i ∈ range n, f i := by
  induction n with
  | zero => simp
  | succ k ih => rw [List.range_succ, List.map_append, List.sum_append, ih, Finset.sum_range_succ]; simp

theorem c07s_sum_filter {α : Type} (p : α → Bool) (F : α → Int) (L : List α) (h : ∀ x ∈ L, p x = false → F x = 0) :
    ((L.filter p).map F).sum = (L.map F).sum := by
  induction L with
  | nil => rfl
  | cons x L ih =>
    have ih' := ih (fun y hy => h y (by simp [hy]))
    by_cases hp : p x = true
    · rw [List.filter_cons_of_pos hp, List.map_cons, List.sum_cons, ih', List.map_cons, List.sum_cons]
    · have hp' : p x = false := by simpa using hp
      rw [List.filter_cons_of_neg hp, ih', List.map_cons, List.sum_cons, h x (by simp) hp', zero_add]

/-! ### `Spec.zNegMul` is the negacyclic product -/

/-- contribution of the pair (i, j) to coefficient k -/
def c07s_term (n : Nat) (a : Array Int) (bj : Int) (j i k : Nat) : Int :=
  if i + j = k then a.getD i 0 * bj else if i + j = k + n then -(a.getD i 0 * bj) else 0

/-- the inner step of `Spec.zNegMul` -/
def c07s_inner (n : Nat) (a : Array Int) (bj : Int) (j : Nat) (acc : Array Int) (i : Nat) : Array Int :=
  let k := i + j
  let t := a.getD i 0 * bj
  if k < n then acc.modify k (· + t) else acc.modify (k - n) (· - t)

theorem c07s_inner_size (n : Nat) (a : Array Int) (bj : Int) (j : Nat) (acc : Array Int) (i : Nat) :
    (c07s_inner n a bj j acc i).size = acc.size := by
  unfold c07s_inner
  simp only
  split <;> simp

theorem c07s_inner_getD (n : Nat) (a : Array Int) (bj : Int) (j : Nat) (acc : Array Int) (hs : acc.size = n) (i k : Nat)
    (hk : k < n) : (c07s_inner n a bj j acc i).getD k 0 = acc.getD k 0 + c07s_term n a bj j i k := by
  unfold c07s_inner c07s_term
  simp only
  by_cases h1 : i + j < n
  · rw [if_pos h1, c07s_getD_modify]
    by_cases h2 : i + j = k
    · rw [if_pos ⟨h2, by omega⟩, if_pos h2]
    · rw [if_neg (fun h => h2 h.1), if_neg h2, if_neg (by omega), add_zero]
  · rw [if_neg h1, c07s_getD_modify]
    by_cases h2 : i + j = k + n
    · rw [if_pos ⟨by omega, by omega⟩, if_neg (by omega), if_pos h2]; ring
    · rw [if_neg (by omega), if_neg (by omega), if_neg h2, add_zero]

theorem c07s_inner_fold (n : Nat) (a : Array Int) (bj : Int) (j : Nat) (L : List Nat) (acc : Array Int) (hs : acc.size = n) :
    (L.foldl (c07s_inner n a bj j) acc).size = n ∧
    ∀ k, k < n → (L.foldl (c07s_inner n a bj j) acc).getD k 0 = acc.getD k 0 + (L.map (fun i => c07s_term n a bj j i k)).sum := by
  induction L generalizing acc with
  | nil => simp [hs]
  | cons i L ih =>
    have hs' : (c07s_inner n a bj j acc i).size = n := by rw [c07s_inner_size, hs]
    obtain ⟨h1, h2⟩ := ih (c07s_inner n a bj j acc i) hs'
    refine ⟨h1, fun k hk => ?_⟩
    rw [List.foldl_cons, h2 k hk, c07s_inner_getD n a bj j acc hs i k hk, List.map_cons, List.sum_cons]; ring

/-- the outer step of `Spec.zNegMul` -/
def c07s_outer (n : Nat) (a b : Array Int) (acc : Array Int) (j : Nat) : Array Int :=
  (List.range n).foldl (c07s_inner n a (b.getD j 0) j) acc

theorem c07s_outer_fold (n : Nat) (a b : Array Int) (L : List Nat) (acc : Array Int) (hs : acc.size = n) :
    (L.foldl (c07s_outer n a b) acc).size = n ∧
    ∀ k, k < n → (L.foldl (c07s_outer n a b) acc).getD k 0 =
      acc.getD k 0 + (L.map (fun j => ((List.range n).map (fun i => c07s_term n a (b.getD j 0) j i k)).sum)).sum := by
  induction L generalizing acc with
  | nil => simp [hs]
  | cons j L ih =>
    obtain ⟨s1, s2⟩ := c07s_inner_fold n a (b.getD j 0) j (List.range n) acc hs
    obtain ⟨h1, h2⟩ := ih (c07s_outer n a b acc j) s1
    refine ⟨h1, fun k hk => ?_⟩
    rw [List.foldl_cons, h2 k hk]
    unfold c07s_outer
    rw [s2 k hk, List.map_cons, List.sum_cons]; ring

theorem c07s_zNegMul_eq (a b : Array Int) (Q : Nat) :
    Spec.zNegMul a b Q =
      (((List.range a.size).filter (fun j => b.getD j 0 ≠ 0)).foldl (c07s_outer a.size a b) (Array.replicate a.size 0)).map
        (fun x => x % (Q : Int)) := rfl

theorem c07s_zNegMul_size (a b : Array Int) (Q : Nat) : (Spec.zNegMul a b Q).size = a.size := by
  rw [c07s_zNegMul_eq, Array.size_map]
  exact (c07s_outer_fold a.size a b _ _ (by simp)).1

theorem c07s_term_zero (n : Nat) (a : Array Int) (j i k : Nat) : c07s_term n a 0 j i k = 0 := by
  unfold c07s_term; simp

theorem c07s_zNegMul_getD (a b : Array Int) (Q : Nat) {k : Nat} (hk : k < a.size) :
    (Spec.zNegMul a b Q).getD k 0 =
      (∑ j ∈ range a.size, ∑ i ∈ range a.size, c07s_term a.size a (b.getD j 0) j i k) % (Q : Int) := by
  obtain ⟨s1, s2⟩ := c07s_outer_fold a.size a b ((List.range a.size).filter (fun j => b.getD j 0 ≠ 0))
    (Array.replicate a.size 0) (by simp)
  rw [c07s_zNegMul_eq]
  have e : ∀ (v : Array Int), k < v.size → (v.map (fun x => x % (Q : Int))).getD k 0 = v.getD k 0 % (Q : Int) := by
    intro v hv; simp [Array.getD, hv]
  rw [e _ (by rw [s1]; exact hk), s2 k hk]
  congr 1
  have z : (Array.replicate a.size (0 : Int)).getD k 0 = 0 := by simp [Array.getD, hk]
  rw [z, zero_add, c07s_sum_filter, c07s_list_sum_range]
  · apply Finset.sum_congr rfl
    intro j _
    rw [c07s_list_sum_range]
  · intro j _ hj
    have hb0 : b.getD j 0 = 0 := by simpa using hj
    rw [hb0]
    simp [c07s_term_zero]

/-- the explicit negacyclic sum (same shape as `negMulNat`) -/
theorem c07s_double_sum (n : Nat) (a b : Array Int) {k : Nat} (hk : k < n) :
    (∑ j ∈ range n, ∑ i ∈ range n, c07s_term n a (b.getD j 0) j i k) =
      ∑ i ∈ range n, if i ≤ k then a.getD i 0 * b.getD (k - i) 0 else -(a.getD i 0 * b.getD (n + k - i) 0) := by
  rw [Finset.sum_comm]
  apply Finset.sum_congr rfl
  intro i hi
  have hi' := mem_range.mp hi
  by_cases hik : i ≤ k
  · rw [if_pos hik]
    have : ∀ j ∈ range n, c07s_term n a (b.getD j 0) j i k = if k - i = j then a.getD i 0 * b.getD j 0 else 0 := by
      intro j hj
      have hj' := mem_range.mp hj
      unfold c07s_term
      by_cases h : i + j = k
      · rw [if_pos h, if_pos (by omega)]
      · rw [if_neg h, if_neg (by omega), if_neg (by omega)]
    rw [Finset.sum_congr rfl this, Finset.sum_ite_eq, if_pos (mem_range.mpr (by omega))]
  · rw [if_neg hik]
    have : ∀ j ∈ range n, c07s_term n a (b.getD j 0) j i k = if n + k - i = j then -(a.getD i 0 * b.getD j 0) else 0 := by
      intro j hj
      have hj' := mem_range.mp hj
      unfold c07s_term
      by_cases h : i + j = k + n
      · rw [if_neg (by omega), if_pos h, if_pos (by omega)]
      · rw [if_neg (by omega), if_neg h, if_neg (by omega)]
    rw [Finset.sum_congr rfl this, Finset.sum_ite_eq, if_pos (mem_range.mpr (by omega))]

/-! ### `Spec.crt` on the moduli of a well-formed base -/

/-- the list of modulus values of a base -/
def c07s_qsv (b : RNSBase) : List Nat := b.base.toList.map (·.value)

theorem c07s_qsv_length (b : RNSBase) : (c07s_qsv b).length = b.size := by
  simp [c07s_qsv, RNSBase.size]

theorem c07s_qsv_getD (b : RNSBase) {i : Nat} (hi : i < b.size) : (c07s_qsv b).getD i 1 = (b.q i).value := by
  have hi' : i < b.base.size := hi
  simp [c07s_qsv, RNSBase.q, Array.getD, List.getD, hi']

theorem c07s_qsv_eq_range (b : RNSBase) : c07s_qsv b = (List.range b.size).map (fun i => (b.q i).value) := by
  apply List.ext_getElem
  · simp [c07s_qsv, RNSBase.size]
  · intro i h1 h2
    have hi : i < b.base.size := by simpa [c07s_qsv] using h1
    simp [c07s_qsv, RNSBase.q, Array.getD, hi]

theorem c07s_prodL_eq_prod (qs : List Nat) : Spec.prodL qs = qs.prod := by
  unfold Spec.prodL
  rw [List.prod_eq_foldl]

theorem c07s_prodL_qsv {b : RNSBase} (hb : b.WF) : Spec.prodL (c07s_qsv b) = b.prod := by
  rw [c07s_prodL_eq_prod, c07s_qsv_eq_range, hb.prod_eq]

theorem c07s_foldl_add (f : Nat → Nat) (L : List Nat) (acc : Nat) :
    L.foldl (fun acc i => acc + f i) acc = acc + (L.map f).sum := by
  induction L generalizing acc with
  | nil => simp
  | cons x L ih => rw [List.foldl_cons, ih, List.map_cons, List.sum_cons]; omega

theorem c07s_crt_eq (qs rs : List Nat) :
    Spec.crt qs rs = ((List.range qs.length).map (fun i =>
      (rs.getD i 0 % qs.getD i 1) * (Spec.prodL qs / qs.getD i 1) * Spec.invMod (Spec.prodL qs / qs.getD i 1) (qs.getD i 1))).sum
        % Spec.prodL qs := by
  unfold Spec.crt
  simp only
  rw [c07s_foldl_add, Nat.zero_add]

theorem c07s_div_eq_punct {b : RNSBase} (hb : b.WF) {i : Nat} (hi : i < b.size) :
    b.prod / (b.q i).value = b.punct.getD i 0 := by
  have h2 := (hb.mwf i hi).two_le
  exact Nat.div_eq_of_eq_mul_left (by omega) (hb.punct_eq i hi).symm

theorem c07s_punct_coprime {b : RNSBase} (hb : b.WF) {i : Nat} (hi : i < b.size) :
    Nat.Coprime (b.punct.getD i 0) (b.q i).value := by
  have h := (hb.inv_wf i hi).2
  rw [Nat.mod_mul_mod] at h
  exact Nat.coprime_of_mul_modEq_one _ h

theorem c07s_inv_term {r p v q : Nat} (hq : 2 ≤ q) (h : (v * p) % q = 1 % q) : ((r % q) * p * v) % q = r % q := by
  rw [Nat.mul_assoc, Nat.mul_mod, Nat.mul_comm p v, h, Nat.mod_mod, Nat.mod_eq_of_lt (show 1 < q by omega), Nat.mul_one,
    Nat.mod_mod]

/-- `Spec.crt` returns THE number below Q with the given residues -/
theorem c07s_crt_spec {b : RNSBase} (hb : b.WF) (rs : List Nat) :
    Spec.crt (c07s_qsv b) rs < b.prod ∧
    ∀ i, i < b.size → Spec.crt (c07s_qsv b) rs % (b.q i).value = rs.getD i 0 % (b.q i).value := by
  have hQ := hb.prod_pos
  rw [c07s_crt_eq, c07s_prodL_qsv hb, c07s_qsv_length]
  refine ⟨Nat.mod_lt _ hQ, fun i hi => ?_⟩
  have hq := hb.mwf i hi
  have h2 := hq.two_le
  have h61 := hq.lt
  rw [Nat.mod_mod_of_dvd _ (hb.q_dvd_prod hi), RNSH.sum_range_mod_single _ _ i, if_pos hi]
  · rw [c07s_qsv_getD b hi, c07s_div_eq_punct hb hi]
    apply c07s_inv_term h2
    exact c01j_invMod_spec h2 (by omega) (c07s_punct_coprime hb hi)
  · intro m hm hmi
    rw [c07s_qsv_getD b hm, c07s_div_eq_punct hb hm]
    apply Nat.mod_eq_zero_of_dvd
    exact Dvd.dvd.mul_right (Dvd.dvd.mul_left (hb.q_dvd_punct hm hi hmi) _) _

/-- the model's `compose` computes `Spec.crt` -/
theorem c07s_compose_eq_crt {b : RNSBase} (hb : b.WF) {rs : Array Nat} (hs : rs.size = b.size)
    (hr : ∀ i, i < b.size → rs.getD i 0 < (b.q i).value) :
    b.compose rs = .ok (Spec.crt (c07s_qsv b) rs.toList) := by
  obtain ⟨x, hx, hxl, hxr⟩ := compose_spec hb hs hr
  obtain ⟨hcl, hcr⟩ := c07s_crt_spec hb rs.toList
  rw [hx]
  congr 1
  apply crt_unique hb hxl hcl
  intro i hi
  rw [hxr i hi, hcr i hi]
  congr 1
  have hi' : i < rs.size := by omega
  simp [Array.getD, List.getD, hi']

/-! ### `Spec.phase` of a size-2 ciphertext, coefficient by coefficient -/

theorem c07s_toList_range {α : Type} (a : Array α) (d : α) :
    a.toList = (List.range a.size).map (fun j => a.getD j d) := by
  apply List.ext_getElem
  · simp
  · intro i h1 h2
    have : i < a.size := by simpa using h1
    simp [Array.getD, this]

theorem c07s_map_getD {α β : Type} (v : Array α) (f : α → β) (d : α) (e : β) {j : Nat} (hj : j < v.size) :
    (v.map f).getD j e = f (v.getD j d) := by
  simp [Array.getD, hj]

theorem c07s_crtPoly_size (qs : List Nat) (p : RnsPoly) (n : Nat) : (Spec.crtPoly qs p n).size = n := by
  simp [Spec.crtPoly]

theorem c07s_crtPoly_getD (qs : List Nat) (p : RnsPoly) (n : Nat) {j : Nat} (hj : j < n) :
    (Spec.crtPoly qs p n).getD j 0 = (Spec.crt qs (p.toList.map (fun c => c.getD j 0)) : Int) := by
  unfold Spec.crtPoly
  rw [c01o_ofFn_getD _ _ _ hj]

theorem c07s_zAdd_size (a b : Array Int) (Q : Nat) : (Spec.zAdd a b Q).size = a.size := by
  simp [Spec.zAdd]

theorem c07s_zAdd_getD (a b : Array Int) (Q : Nat) {j : Nat} (hj : j < a.size) :
    (Spec.zAdd a b Q).getD j 0 = (a.getD j 0 + b.getD j 0) % (Q : Int) := by
  unfold Spec.zAdd
  rw [c01o_ofFn_getD _ _ _ hj]

/-- the uncentred coefficient j of the exact phase c0 + c1·s -/
def c07s_Y (qs : List Nat) (n : Nat) (sk : Array Int) (c0 c1 : RnsPoly) (j : Nat) : Int :=
  ((∑ i ∈ range n, if i ≤ j then (Spec.crtPoly qs c1 n).getD i 0 * sk.getD (j - i) 0
      else -((Spec.crtPoly qs c1 n).getD i 0 * sk.getD (n + j - i) 0)) % (Spec.prodL qs : Int)
    + (Spec.crtPoly qs c0 n).getD j 0) % (Spec.prodL qs : Int)

theorem c07s_phase2_unfold (qs : List Nat) (n : Nat) (sk : Array Int) (c0 c1 : RnsPoly) :
    Spec.phase qs n sk [c0, c1] =
      (Spec.zAdd (Spec.zNegMul (Spec.crtPoly qs c1 n) sk (Spec.prodL qs)) (Spec.crtPoly qs c0 n) (Spec.prodL qs)).map
        (fun x => Spec.centred x.toNat (Spec.prodL qs)) := rfl

theorem c07s_phase2 (qs : List Nat) (n : Nat) (sk : Array Int) (c0 c1 : RnsPoly) :
    Spec.phase qs n sk [c0, c1] =
      ((List.range n).map (fun j => Spec.centred (c07s_Y qs n sk c0 c1 j).toNat (Spec.prodL qs))).toArray := by
  rw [c07s_phase2_unfold]
  generalize hA : Spec.zAdd (Spec.zNegMul (Spec.crtPoly qs c1 n) sk (Spec.prodL qs)) (Spec.crtPoly qs c0 n) (Spec.prodL qs) = A
  have hz : (Spec.zNegMul (Spec.crtPoly qs c1 n) sk (Spec.prodL qs)).size = n := by
    rw [c07s_zNegMul_size, c07s_crtPoly_size]
  have hAs : A.size = n := by rw [← hA, c07s_zAdd_size, hz]
  have hAv : ∀ j, j < n → A.getD j 0 = c07s_Y qs n sk c0 c1 j := by
    intro j hj
    rw [← hA, c07s_zAdd_getD _ _ _ (by rw [hz]; exact hj),
      c07s_zNegMul_getD _ _ _ (by rw [c07s_crtPoly_size]; exact hj), c07s_crtPoly_size, c07s_double_sum n _ _ hj]
    rfl
  apply Array.ext'
  rw [c07s_toList_range _ (0 : Int), Array.size_map, hAs]
  simp only
  apply List.map_congr_left
  intro j hj
  have hj' := List.mem_range.mp hj
  rw [c07s_map_getD A _ 0 0 (by rw [hAs]; exact hj'), hAv j hj']

/-! ### residues: casts into `ZMod q` -/

theorem c07s_cast_emod {q Q : Nat} (h : q ∣ Q) (a : Int) : (((a % (Q : Int) : Int)) : ZMod q) = (a : ZMod q) := by
  rw [← ZMod.intCast_mod (a % (Q : Int)) q, Int.emod_emod_of_dvd a (Int.natCast_dvd_natCast.mpr h), ZMod.intCast_mod]

theorem c07s_cast_toNat {q : Nat} {y : Int} (hy : 0 ≤ y) : ((y.toNat : Nat) : ZMod q) = (y : ZMod q) := by
  conv_rhs => rw [← Int.toNat_of_nonneg hy]
  rw [Int.cast_natCast]

theorem c07s_cast_emod_toNat {q : Nat} (hq : 0 < q) (a : Int) : (((a % (q : Int)).toNat : Nat) : ZMod q) = (a : ZMod q) := by
  rw [c07s_cast_toNat (Int.emod_nonneg a (by omega)), ZMod.intCast_mod]

/-- the negacyclic sum in `ZMod q` -/
def c07s_sumZ (q n : Nat) (a s : Nat → ZMod q) (j : Nat) : ZMod q :=
  ∑ i ∈ range n, if i ≤ j then a i * s (j - i) else -(a i * s (n + j - i))

theorem c07s_negMulNat_cast {q : Nat} (hq : 0 < q) (n : Nat) (a b : Array Nat) (c : Nat) :
    ((negMulNat n q a b c : Nat) : ZMod q) =
      c07s_sumZ q n (fun i => ((a.getD i 0 : Nat) : ZMod q)) (fun i => ((b.getD i 0 : Nat) : ZMod q)) c := by
  unfold negMulNat c07s_sumZ
  rw [c07s_cast_emod_toNat hq, Int.cast_sum]
  apply Finset.sum_congr rfl
  intro i _
  split_ifs <;> push_cast <;> rfl

theorem c07s_intSum_cast (q n : Nat) (a b : Array Int) (j : Nat) :
    (((∑ i ∈ range n, if i ≤ j then a.getD i 0 * b.getD (j - i) 0 else -(a.getD i 0 * b.getD (n + j - i) 0) : Int)) : ZMod q) =
      c07s_sumZ q n (fun i => ((a.getD i 0 : Int) : ZMod q)) (fun i => ((b.getD i 0 : Int) : ZMod q)) j := by
  unfold c07s_sumZ
  rw [Int.cast_sum]
  apply Finset.sum_congr rfl
  intro i _
  split_ifs <;> push_cast <;> rfl

theorem c07s_sumZ_congr {q n : Nat} {a a' s s' : Nat → ZMod q} {j : Nat} (hj : j < n) (ha : ∀ i, i < n → a i = a' i)
    (hs : ∀ i, i < n → s i = s' i) : c07s_sumZ q n a s j = c07s_sumZ q n a' s' j := by
  unfold c07s_sumZ
  apply Finset.sum_congr rfl
  intro i hi
  have hi' := mem_range.mp hi
  rw [ha i hi']
  split_ifs with h
  · rw [hs (j - i) (by omega)]
  · rw [hs (n + j - i) (by omega)]

theorem c07s_skRes_cast (l : Level) (sk : Array Int) (m : Nat) (hq : 0 < (l.q m).value) {k : Nat} (hk : k < sk.size) :
    (((skRes l sk m).getD k 0 : Nat) : ZMod (l.q m).value) = ((sk.getD k 0 : Int) : ZMod (l.q m).value) := by
  have e : (skRes l sk m).getD k 0 = (sk.getD k 0 % ((l.q m).value : Int)).toNat := by
    simp [skRes, Array.getD, hk]
  rw [e, c07s_cast_emod_toNat hq]

/-- CRT uniqueness with the residues compared in `ZMod q_i` -/
theorem c07s_crt_unique_cast {b : RNSBase} (hb : b.WF) {x y : Nat} (hx : x < b.prod) (hy : y < b.prod)
    (h : ∀ i, i < b.size → ((x : Nat) : ZMod (b.q i).value) = ((y : Nat) : ZMod (b.q i).value)) : x = y := by
  apply crt_unique hb hx hy
  intro i hi
  exact (ZMod.natCast_eq_natCast_iff' x y _).mp (h i hi)

theorem c07s_crt_cast {b : RNSBase} (hb : b.WF) (rs : List Nat) {i : Nat} (hi : i < b.size) :
    ((Spec.crt (c07s_qsv b) rs : Nat) : ZMod (b.q i).value) = ((rs.getD i 0 : Nat) : ZMod (b.q i).value) :=
  (ZMod.natCast_eq_natCast_iff' _ _ _).mpr ((c07s_crt_spec hb rs).2 i hi)

/-! ### the level's base Q -/

/-- the `RNSTool` of the level carries the well-formed base of the level's moduli (what `RNSBase.new l.qs.toList` returns,
    see `c07s_levelQ_of_new`) -/
structure c07s_LevelQ (l : Level) : Prop where
  bwf : l.tool.baseQ.WF
  base : l.tool.baseQ.base = l.qs

theorem c07s_LevelQ.size_eq {l : Level} (h : c07s_LevelQ l) : l.tool.baseQ.size = l.size := by
  unfold RNSBase.size Level.size; rw [h.base]

theorem c07s_LevelQ.q_eq {l : Level} (h : c07s_LevelQ l) {i : Nat} (hi : i < l.size) : l.tool.baseQ.q i = l.q i := by
  have hi' : i < l.qs.size := hi
  unfold RNSBase.q Level.q
  rw [h.base]
  simp [Array.getD, hi']

theorem c07s_levelQ_of_new {l : Level} (hl : l.WF) (h64 : l.qs.size ≤ 64) (h : RNSBase.new l.qs.toList = .ok l.tool.baseQ) :
    c07s_LevelQ l := by
  have hm : ∀ m ∈ l.qs.toList, m.WF := by
    intro m hm
    obtain ⟨i, hi, rfl⟩ := List.mem_iff_getElem.mp hm
    have hi' : i < l.size := by simpa [Level.size] using hi
    have := (c01o_level_comp hl hi').2.2.2
    have e : l.q i = l.qs.toList[i] := by
      have hi2 : i < l.qs.size := hi'
      simp only [Level.q, Array.getD, hi2, dite_true]
      rfl
    rw [e] at this
    exact this
  obtain ⟨h1, h2⟩ := RNSBase.new_wf hm (by simpa using h64) h
  exact ⟨h1, by rw [h2]⟩

theorem c07s_listcol_getD (c : RnsPoly) (i m : Nat) :
    (c.toList.map (fun comp => comp.getD i 0)).getD m 0 = (c.getD m #[]).getD i 0 := by
  by_cases hm : m < c.size
  · simp [List.getD, Array.getD, hm]
  · simp [List.getD, Array.getD, hm]

/-! ### the residues of the exact phase are the model's per-component phase -/

theorem c07s_Y_bounds (qs : List Nat) (hQ : 0 < Spec.prodL qs) (n : Nat) (sk : Array Int) (c0 c1 : RnsPoly) (j : Nat) :
    0 ≤ c07s_Y qs n sk c0 c1 j ∧ c07s_Y qs n sk c0 c1 j < (Spec.prodL qs : Int) := by
  unfold c07s_Y
  have hz : (0 : Int) < (Spec.prodL qs : Int) := by exact_mod_cast hQ
  exact ⟨Int.emod_nonneg _ (by omega), Int.emod_lt_of_pos _ hz⟩

theorem c07s_Y_cast {l : Level} (hq : c07s_LevelQ l) (sk : Array Int) (c0 c1 : RnsPoly) {m j : Nat}
    (hm : m < l.size) (hj : j < l.n) :
    (((c07s_Y (c07s_qsv l.tool.baseQ) l.n sk c0 c1 j).toNat : Nat) : ZMod (l.q m).value) =
      (((c0.getD m #[]).getD j 0 : Nat) : ZMod (l.q m).value) +
        c07s_sumZ (l.q m).value l.n (fun i => (((c1.getD m #[]).getD i 0 : Nat) : ZMod (l.q m).value))
          (fun i => ((sk.getD i 0 : Int) : ZMod (l.q m).value)) j := by
  have hb := hq.bwf
  have hmb : m < l.tool.baseQ.size := by rw [hq.size_eq]; exact hm
  have hqe := hq.q_eq hm
  have hdvd : (l.q m).value ∣ Spec.prodL (c07s_qsv l.tool.baseQ) := by
    rw [c07s_prodL_qsv hb, ← hqe]; exact hb.q_dvd_prod hmb
  have hQ : 0 < Spec.prodL (c07s_qsv l.tool.baseQ) := by rw [c07s_prodL_qsv hb]; exact hb.prod_pos
  have hcrt : ∀ (c : RnsPoly) (i : Nat),
      ((Spec.crt (c07s_qsv l.tool.baseQ) (c.toList.map (fun comp => comp.getD i 0)) : Nat) : ZMod (l.q m).value) =
        (((c.getD m #[]).getD i 0 : Nat) : ZMod (l.q m).value) := by
    intro c i
    have := c07s_crt_cast hb (c.toList.map (fun comp => comp.getD i 0)) hmb
    rw [hqe, c07s_listcol_getD] at this
    exact this
  rw [c07s_cast_toNat (c07s_Y_bounds _ hQ _ _ _ _ _).1]
  unfold c07s_Y
  rw [c07s_cast_emod hdvd, Int.cast_add, c07s_cast_emod hdvd, c07s_intSum_cast, c07s_crtPoly_getD _ _ _ hj,
    Int.cast_natCast, hcrt, add_comm]
  congr 1
  apply c07s_sumZ_congr hj
  · intro i hi
    rw [c07s_crtPoly_getD _ _ _ hi, Int.cast_natCast, hcrt]
  · intro i _; rfl

theorem c07s_ph_cast {l : Level} (sk : Array Int) (hsk : sk.size = l.n) (c0 c1 ph : RnsPoly) {m j : Nat}
    (hq0 : 0 < (l.q m).value) (hj : j < l.n)
    (hph : (ph.getD m #[]).getD j 0 =
      ((c0.getD m #[]).getD j 0 + negMulNat l.n (l.q m).value (c1.getD m #[]) (skRes l sk m) j) % (l.q m).value) :
    (((ph.getD m #[]).getD j 0 : Nat) : ZMod (l.q m).value) =
      (((c0.getD m #[]).getD j 0 : Nat) : ZMod (l.q m).value) +
        c07s_sumZ (l.q m).value l.n (fun i => (((c1.getD m #[]).getD i 0 : Nat) : ZMod (l.q m).value))
          (fun i => ((sk.getD i 0 : Int) : ZMod (l.q m).value)) j := by
  rw [hph, ZMod.natCast_mod, Nat.cast_add, c07s_negMulNat_cast hq0]
  congr 1
  apply c07s_sumZ_congr hj
  · intro i _; rfl
  · intro i hi
    exact c07s_skRes_cast l sk m hq0 (by rw [hsk]; exact hi)

/-! ### the model pipeline -/

/-- the BFV factor t, component by component (the identity for BGV) -/
def c07s_scale (l : Level) (ph : RnsPoly) : R RnsPoly :=
  if l.scheme = .bfv then
      (List.range l.size).foldlM (fun acc i => do
        let c ← mapM' (ph.getD i #[]) (fun x => mulMod x l.t.value (l.q i))
        pure (acc.push c)) (#[] : RnsPoly)
    else pure ph

/-- centred absolute value as the model computes it -/
def c07s_abs (Q v : Nat) : Nat := if v ≥ (Q + 1) / 2 then Q - v else v

/-- the model's infinity-norm fold -/
def c07s_norm (Q : Nat) (vals : List Nat) : Nat :=
  vals.foldl (fun acc v => if c07s_abs Q v > acc then c07s_abs Q v else acc) 0

theorem c07s_noiseBudget_eq (l : Level) (sk : Array Int) (ct : Ct) (h1 : ct.ntt = false) (h2 : l.scheme ≠ .ckks) :
    noiseBudget l sk ct = (do
      let ph ← dotProductCtSk l sk ct
      let ph ← c07s_scale l ph
      let vals ← (transpose ph l.n).toList.mapM (fun col => l.tool.baseQ.compose col)
      pure (((bitCount l.tool.baseQ.prod : Int) - (bitCount (c07s_norm l.tool.baseQ.prod vals) : Int) - 1).toNat)) := by
  unfold noiseBudget
  rw [h1]
  simp only [Bool.false_eq_true, if_false, if_neg h2]
  congr 1
  funext ph
  unfold c07s_scale
  split <;> rfl

theorem c07s_dot_cf (l : Level) (sk : Array Int) (polys : Array RnsPoly) (ntt : Bool) (cf : Nat) :
    dotProductCtSk l sk ⟨polys, ntt, cf⟩ = dotProductCtSk l sk ⟨polys, ntt, 1⟩ := rfl

/-- the value of `c07s_scale` -/
def c07s_scaled (l : Level) (ph : RnsPoly) : RnsPoly :=
  if l.scheme = .bfv then
    ((List.range l.size).map (fun i => (ph.getD i #[]).map (fun x => (x * l.t.value) % (l.q i).value))).toArray
  else ph

theorem c07s_scale_ok {l : Level} (hl : l.WF) (ht : l.scheme = .bfv → l.t.value < 2^64) {ph : RnsPoly} (hp : RnsCanon l ph) :
    c07s_scale l ph = .ok (c07s_scaled l ph) := by
  unfold c07s_scale c07s_scaled
  by_cases hs : l.scheme = .bfv
  · rw [if_pos hs, if_pos hs]
    rw [c01o_foldlM_push (List.range l.size) (fun i => mapM' (ph.getD i #[]) (fun x => mulMod x l.t.value (l.q i)))
      (fun i => (ph.getD i #[]).map (fun x => (x * l.t.value) % (l.q i).value))]
    · simp
    · intro i hi
      have hi' := List.mem_range.mp hi
      have hqw := (c01o_level_comp hl hi').2.2.2
      have h61 := hqw.lt
      apply mapM'_ok
      intro x hx
      have hlt := mem_lt_of_getD (a := ph.getD i #[]) (B := (l.q i).value)
        (fun j hj => (hp.2 i hi').2 j (by rw [← (hp.2 i hi').1]; exact hj)) x hx
      exact mulMod_exact hqw (by omega) (ht hs)
  · rw [if_neg hs, if_neg hs]; rfl

theorem c07s_scaled_coeff {l : Level} {ph : RnsPoly} (hp : RnsCanon l ph) {i j : Nat} (hi : i < l.size) (hj : j < l.n) :
    ((c07s_scaled l ph).getD i #[]).getD j 0 =
      if l.scheme = .bfv then ((ph.getD i #[]).getD j 0 * l.t.value) % (l.q i).value else (ph.getD i #[]).getD j 0 := by
  unfold c07s_scaled
  by_cases hs : l.scheme = .bfv
  · rw [if_pos hs, if_pos hs, getD_rangeMap' _ _ _ hi]
    exact c07s_map_getD _ _ 0 0 (by rw [(hp.2 i hi).1]; exact hj)
  · rw [if_neg hs, if_neg hs]

theorem c07s_scaled_canon {l : Level} (hl : l.WF) {ph : RnsPoly} (hp : RnsCanon l ph) : RnsCanon l (c07s_scaled l ph) := by
  refine ⟨?_, fun i hi => ⟨?_, fun j hj => ?_⟩⟩
  · unfold c07s_scaled
    split
    · simp
    · exact hp.1
  · unfold c07s_scaled
    split
    · rw [getD_rangeMap' _ _ _ hi, Array.size_map]; exact (hp.2 i hi).1
    · exact (hp.2 i hi).1
  · rw [c07s_scaled_coeff hp hi hj]
    have h2 := (c01o_level_comp hl hi).2.2.2.two_le
    split
    · exact Nat.mod_lt _ (by omega)
    · exact (hp.2 i hi).2 j hj

theorem c07s_transpose_toList (p : RnsPoly) (n : Nat) :
    (transpose p n).toList = (List.range n).map (fun j => p.map (fun comp => comp.getD j 0)) := by
  have hs : (transpose p n).size = n := by simp [transpose]
  rw [c07s_toList_range _ (#[] : Array Nat), hs]
  apply List.map_congr_left
  intro j hj
  unfold transpose
  rw [c01o_ofFn_getD _ _ _ (List.mem_range.mp hj)]

/-- the per-coefficient `compose` calls all succeed and return `Spec.crt` of the column -/
theorem c07s_vals_ok {l : Level} (hq : c07s_LevelQ l) {p : RnsPoly} (hp : RnsCanon l p) :
    (transpose p l.n).toList.mapM (fun col => l.tool.baseQ.compose col) =
      .ok ((List.range l.n).map (fun j => Spec.crt (c07s_qsv l.tool.baseQ) (p.toList.map (fun c => c.getD j 0)))) := by
  rw [c07s_transpose_toList,
    RNSH.mapM_ok_of_forall _ (fun col => Spec.crt (c07s_qsv l.tool.baseQ) col.toList), List.map_map]
  · congr 1
    apply List.map_congr_left
    intro j _
    simp [Function.comp]
  · intro col hcol
    obtain ⟨j, hj, rfl⟩ := List.mem_map.mp hcol
    have hj' := List.mem_range.mp hj
    apply c07s_compose_eq_crt hq.bwf
    · rw [Array.size_map, hp.1, hq.size_eq]
    · intro i hi
      have hi' : i < l.size := by rw [← hq.size_eq]; exact hi
      rw [c07s_map_getD p _ #[] 0 (by rw [hp.1]; exact hi'), hq.q_eq hi']
      exact (hp.2 i hi').2 j hj'

/-! ### refusals -/

theorem c07s_refuse_ntt (l : Level) (sk : Array Int) (ct : Ct) (h : ct.ntt = true) :
    noiseBudget l sk ct = .error .refused := by
  unfold noiseBudget
  rw [h]; rfl

theorem c07s_refuse_ckks (l : Level) (sk : Array Int) (ct : Ct) (h : l.scheme = .ckks) :
    noiseBudget l sk ct = .error .refused := by
  unfold noiseBudget
  cases ct.ntt
  · simp only [Bool.false_eq_true, if_false, if_pos h]
  · rfl

theorem c07s_refuse_small (l : Level) (sk : Array Int) (ct : Ct) (h : ct.polys.size < 2) :
    noiseBudget l sk ct = .error .refused := by
  by_cases h1 : ct.ntt = true
  · exact c07s_refuse_ntt l sk ct h1
  by_cases h2 : l.scheme = .ckks
  · exact c07s_refuse_ckks l sk ct h2
  rw [c07s_noiseBudget_eq l sk ct (by simpa using h1) h2]
  have : dotProductCtSk l sk ct = .error .refused := by
    unfold dotProductCtSk
    simp only [if_pos h]
  rw [this]; rfl

/-! ### centred norm: model fold = definition -/

theorem c07s_abs_centred {Q v : Nat} (hv : v < Q) : c07s_abs Q v = (Spec.centred v Q).natAbs := by
  unfold c07s_abs Spec.centred
  rw [Nat.mod_eq_of_lt hv]
  split_ifs <;> omega

theorem c07s_centred_cast {q Q : Nat} (h : q ∣ Q) {W : Nat} (hW : W < Q) :
    ((Spec.centred W Q : Int) : ZMod q) = ((W : Nat) : ZMod q) := by
  have hQ0 : ((Q : Nat) : ZMod q) = 0 := (ZMod.natCast_eq_zero_iff _ _).mpr h
  unfold Spec.centred
  rw [Nat.mod_eq_of_lt hW]
  split_ifs
  · push_cast; rw [hQ0, sub_zero]
  · push_cast; rfl

theorem c07s_imod_cast {q Q : Nat} (h : q ∣ Q) (hQ : 0 < Q) (x : Int) :
    ((Spec.imod x Q : Nat) : ZMod q) = ((x : Int) : ZMod q) := by
  rw [← Int.cast_natCast, c07l_imod_cast hQ x, c07s_cast_emod h]

theorem c07s_fold_congr {ι : Type} (L : List ι) (X : ι → Nat) (Z : ι → Int) (A : Nat → Nat) (V : Int → Nat)
    (h : ∀ j ∈ L, A (X j) = V (Z j)) (acc : Nat) :
    (L.map X).foldl (fun acc v => if A v > acc then A v else acc) acc =
      (L.map Z).foldl (fun acc x => max acc (V x)) acc := by
  induction L generalizing acc with
  | nil => rfl
  | cons a L ih =>
    simp only [List.map_cons, List.foldl_cons]
    rw [h a (by simp)]
    have e : (if V (Z a) > acc then V (Z a) else acc) = max acc (V (Z a)) := by
      rw [Nat.max_def]; split_ifs <;> omega
    rw [e]
    exact ih (fun j hj => h j (by simp [hj])) _

/-- one coefficient: the model's centred absolute value of the composed (scaled) phase is the noise value of the definition -/
theorem c07s_coeff {l : Level} (hl : l.WF) (hq : c07s_LevelQ l) {sk : Array Int} (hsk : sk.size = l.n) {c0 c1 ph : RnsPoly}
    (hp : RnsCanon l ph)
    (hph : ∀ i, i < l.size → ∀ j, j < l.n → (ph.getD i #[]).getD j 0 =
      ((c0.getD i #[]).getD j 0 + negMulNat l.n (l.q i).value (c1.getD i #[]) (skRes l sk i) j) % (l.q i).value)
    {j : Nat} (hj : j < l.n) :
    c07s_abs l.tool.baseQ.prod (Spec.crt (c07s_qsv l.tool.baseQ) ((c07s_scaled l ph).toList.map (fun c => c.getD j 0))) =
      (c07l_v (decide (l.scheme = .bfv)) l.t.value l.tool.baseQ.prod
        (Spec.centred (c07s_Y (c07s_qsv l.tool.baseQ) l.n sk c0 c1 j).toNat l.tool.baseQ.prod)).natAbs := by
  have hb := hq.bwf
  have hQ := hb.prod_pos
  have hPL := c07s_prodL_qsv hb
  generalize hW : (c07s_Y (c07s_qsv l.tool.baseQ) l.n sk c0 c1 j).toNat = W
  generalize hX : Spec.crt (c07s_qsv l.tool.baseQ) ((c07s_scaled l ph).toList.map (fun c => c.getD j 0)) = X
  have hWl : W < l.tool.baseQ.prod := by
    have := c07s_Y_bounds (c07s_qsv l.tool.baseQ) (by rw [hPL]; exact hQ) l.n sk c0 c1 j
    rw [hPL] at this
    rw [← hW]
    omega
  have hq0 : ∀ m, m < l.size → 0 < (l.q m).value := fun m hm => by
    have := (c01o_level_comp hl hm).2.2.2.two_le; omega
  have hdvd : ∀ m, m < l.size → (l.q m).value ∣ l.tool.baseQ.prod := fun m hm => by
    rw [← hq.q_eq hm]; exact hb.q_dvd_prod (by rw [hq.size_eq]; exact hm)
  have hWc : ∀ m, m < l.size → ((W : Nat) : ZMod (l.q m).value) = (((ph.getD m #[]).getD j 0 : Nat) : ZMod (l.q m).value) := by
    intro m hm
    rw [← hW, c07s_Y_cast hq sk c0 c1 hm hj, c07s_ph_cast sk hsk c0 c1 ph (hq0 m hm) hj (hph m hm j hj)]
  have hXl : X < l.tool.baseQ.prod := by rw [← hX]; exact (c07s_crt_spec hb _).1
  have hXc : ∀ m, m < l.size →
      ((X : Nat) : ZMod (l.q m).value) = ((((c07s_scaled l ph).getD m #[]).getD j 0 : Nat) : ZMod (l.q m).value) := by
    intro m hm
    have := c07s_crt_cast hb ((c07s_scaled l ph).toList.map (fun c => c.getD j 0)) (i := m) (by rw [hq.size_eq]; exact hm)
    rw [hq.q_eq hm, c07s_listcol_getD, hX] at this
    exact this
  unfold c07l_v
  by_cases hs : l.scheme = .bfv
  · simp only [hs, decide_true, if_true]
    have e : X = Spec.imod ((l.t.value : Int) * Spec.centred W l.tool.baseQ.prod) l.tool.baseQ.prod := by
      apply c07s_crt_unique_cast hb hXl (c07l_imod_lt hQ _)
      intro i hi
      have hi' : i < l.size := by rw [← hq.size_eq]; exact hi
      rw [hq.q_eq hi', hXc i hi', c07s_scaled_coeff hp hi' hj, if_pos hs, ZMod.natCast_mod, Nat.cast_mul,
        c07s_imod_cast (hdvd i hi') hQ, Int.cast_mul, c07s_centred_cast (hdvd i hi') hWl, hWc i hi', Int.cast_natCast,
        mul_comm]
    rw [e]
    exact c07s_abs_centred (c07l_imod_lt hQ _)
  · simp only [hs, decide_false, Bool.false_eq_true, if_false]
    have e : X = W := by
      apply c07s_crt_unique_cast hb hXl hWl
      intro i hi
      have hi' : i < l.size := by rw [← hq.size_eq]; exact hi
      rw [hq.q_eq hi', hXc i hi', c07s_scaled_coeff hp hi' hj, if_neg hs, hWc i hi']
    rw [e]
    exact c07s_abs_centred hWl

/-! ### general size: right multiplication by s as an additive map on `ZMod q`-vectors, Horner evaluation -/

/-- right multiplication by s modulo (X^n + 1) on coefficient functions -/
def c07s_mulS (q n : Nat) (s a : Nat → ZMod q) : Nat → ZMod q := fun j => if j < n then c07s_sumZ q n a s j else 0

theorem c07s_mulS_add (q n : Nat) (s a b : Nat → ZMod q) :
    c07s_mulS q n s (a + b) = c07s_mulS q n s a + c07s_mulS q n s b := by
  funext j
  unfold c07s_mulS
  simp only [Pi.add_apply]
  split
  · unfold c07s_sumZ
    rw [← Finset.sum_add_distrib]
    apply Finset.sum_congr rfl
    intro i _
    simp only [Pi.add_apply]
    split_ifs <;> ring
  · simp

theorem c07s_mulS_zero (q n : Nat) (s : Nat → ZMod q) : c07s_mulS q n s 0 = 0 := by
  funext j
  unfold c07s_mulS c07s_sumZ
  simp

theorem c07s_mulS_congr {q n : Nat} {s s' a a' : Nat → ZMod q} (hs : ∀ i, i < n → s i = s' i) (ha : ∀ i, i < n → a i = a' i) :
    c07s_mulS q n s a = c07s_mulS q n s' a' := by
  funext j
  unfold c07s_mulS
  split
  · rename_i hj; exact c07s_sumZ_congr hj ha hs
  · rfl

/-- Horner evaluation c_0 + M(c_1 + M(c_2 + …)) -/
def c07s_evalZ {V : Type} [AddCommMonoid V] (M : V → V) : List V → V
  | [] => 0
  | c :: cs => c + M (c07s_evalZ M cs)

theorem c07s_iter_zero {V : Type} [AddCommMonoid V] (M : V → V) (h0 : M 0 = 0) (r : Nat) : M^[r] 0 = 0 := by
  induction r with
  | zero => rfl
  | succ k ih => rw [Function.iterate_succ_apply, h0, ih]

theorem c07s_iter_add {V : Type} [AddCommMonoid V] (M : V → V) (hadd : ∀ a b, M (a + b) = M a + M b) (r : Nat) (a b : V) :
    M^[r] (a + b) = M^[r] a + M^[r] b := by
  induction r generalizing a b with
  | zero => rfl
  | succ k ih => rw [Function.iterate_succ_apply, Function.iterate_succ_apply, Function.iterate_succ_apply, hadd, ih]

/-- Horner = sum of iterated images -/
theorem c07s_evalZ_sum {V : Type} [AddCommMonoid V] (M : V → V) (h0 : M 0 = 0) (hadd : ∀ a b, M (a + b) = M a + M b)
    (cs : List V) (r : Nat) :
    M^[r] (c07s_evalZ M cs) = ((List.range cs.length).map (fun k => M^[k + r] (cs.getD k 0))).sum := by
  induction cs generalizing r with
  | nil => simp [c07s_evalZ, c07s_iter_zero M h0]
  | cons c cs ih =>
    rw [c07s_evalZ, c07s_iter_add M hadd, ← Function.iterate_succ_apply, ih (r + 1), List.length_cons,
      List.range_succ_eq_map, List.map_cons, List.sum_cons, List.map_map]
    congr 1
    · simp
    · congr 1
      apply List.map_congr_left
      intro k _
      simp only [Function.comp, List.getD_cons_succ]
      congr 1
      omega

/-- the option-valued Horner fold of `Spec.phase`, as a right fold over the polynomials -/
def c07s_evalO (sk : Array Int) (Q : Nat) (zs : List (Array Int)) : Option (Array Int) :=
  zs.foldr (fun c acc => match acc with
    | none => some c
    | some a => some (Spec.zAdd (Spec.zNegMul a sk Q) c Q)) none

theorem c07s_phase_unfold (qs : List Nat) (n : Nat) (sk : Array Int) (polys : List RnsPoly) :
    Spec.phase qs n sk polys =
      ((c07s_evalO sk (Spec.prodL qs) (polys.map (fun p => Spec.crtPoly qs p n))).getD (Array.replicate n 0)).map
        (fun x => Spec.centred x.toNat (Spec.prodL qs)) := by
  unfold Spec.phase c07s_evalO
  simp only
  rw [List.foldl_reverse]
  rfl

def c07s_vecN (q : Nat) (a : Array Nat) : Nat → ZMod q := fun j => ((a.getD j 0 : Nat) : ZMod q)
def c07s_vecZ (q : Nat) (a : Array Int) : Nat → ZMod q := fun j => ((a.getD j 0 : Int) : ZMod q)

theorem c07s_getD_oob {α : Type} (a : Array α) (d : α) {j : Nat} (hj : ¬ j < a.size) : a.getD j d = d := by
  simp [Array.getD, hj]

theorem c07s_vecZ_zNegMul {q Q n : Nat} (h : q ∣ Q) (a sk : Array Int) (ha : a.size = n) :
    c07s_vecZ q (Spec.zNegMul a sk Q) = c07s_mulS q n (c07s_vecZ q sk) (c07s_vecZ q a) := by
  funext j
  unfold c07s_vecZ c07s_mulS
  by_cases hj : j < n
  · rw [if_pos hj, c07s_zNegMul_getD _ _ _ (by rw [ha]; exact hj), ha, c07s_double_sum n _ _ hj, c07s_cast_emod h,
      c07s_intSum_cast]
  · rw [if_neg hj, c07s_getD_oob _ _ (by rw [c07s_zNegMul_size, ha]; exact hj)]; simp

theorem c07s_vecZ_zAdd {q Q : Nat} (h : q ∣ Q) (a b : Array Int) (hab : b.size = a.size) :
    c07s_vecZ q (Spec.zAdd a b Q) = c07s_vecZ q a + c07s_vecZ q b := by
  funext j
  unfold c07s_vecZ
  simp only [Pi.add_apply]
  by_cases hj : j < a.size
  · rw [c07s_zAdd_getD _ _ _ hj, c07s_cast_emod h, Int.cast_add]
  · rw [c07s_getD_oob _ _ (by rw [c07s_zAdd_size]; exact hj), c07s_getD_oob _ _ hj, c07s_getD_oob _ _ (by rw [hab]; exact hj)]
    simp

theorem c07s_zAdd_nonneg (a b : Array Int) {Q : Nat} (hQ : 0 < Q) (j : Nat) : 0 ≤ (Spec.zAdd a b Q).getD j 0 := by
  by_cases hj : j < a.size
  · rw [c07s_zAdd_getD _ _ _ hj]; exact Int.emod_nonneg _ (by omega)
  · rw [c07s_getD_oob _ _ (by rw [c07s_zAdd_size]; exact hj)]

theorem c07s_evalO_cons (sk : Array Int) (Q : Nat) (z : Array Int) (zs : List (Array Int)) :
    c07s_evalO sk Q (z :: zs) = match c07s_evalO sk Q zs with
      | none => some z
      | some a => some (Spec.zAdd (Spec.zNegMul a sk Q) z Q) := rfl

/-- the Horner fold of the definition, read modulo a divisor q of Q -/
theorem c07s_evalO_spec {q Q n : Nat} (h : q ∣ Q) (hQ : 0 < Q) (sk : Array Int) (zs : List (Array Int))
    (hz : ∀ z ∈ zs, z.size = n ∧ ∀ j, 0 ≤ z.getD j 0) (hne : zs ≠ []) :
    ∃ H, c07s_evalO sk Q zs = some H ∧ H.size = n ∧ (∀ j, 0 ≤ H.getD j 0) ∧
      c07s_vecZ q H = c07s_evalZ (c07s_mulS q n (c07s_vecZ q sk)) (zs.map (c07s_vecZ q)) := by
  induction zs with
  | nil => exact absurd rfl hne
  | cons z zs ih =>
    obtain ⟨hzs, hzn⟩ := hz z (by simp)
    by_cases hnil : zs = []
    · subst hnil
      refine ⟨z, rfl, hzs, hzn, ?_⟩
      simp [c07s_evalZ, c07s_mulS_zero]
    · obtain ⟨H', e1, e2, _, e4⟩ := ih (fun z hz' => hz z (by simp [hz'])) hnil
      refine ⟨Spec.zAdd (Spec.zNegMul H' sk Q) z Q, ?_, ?_, fun j => c07s_zAdd_nonneg _ _ hQ j, ?_⟩
      · rw [c07s_evalO_cons, e1]
      · rw [c07s_zAdd_size, c07s_zNegMul_size, e2]
      · rw [c07s_vecZ_zAdd h _ _ (by rw [c07s_zNegMul_size, e2, hzs]), c07s_vecZ_zNegMul h _ _ e2, e4, List.map_cons,
          c07s_evalZ, add_comm]

/-! ### general size, model side, one NTT table: power chain and sum chain -/

/-- pointwise: transform of x times the k-th power of the transform of b -/
def c07s_E (T : NTTTables) (x b : Array Nat) (k : Nat) : Array Nat :=
  ((List.range x.size).map (fun j => ((ntt T x).getD j 0 * (ntt T b).getD j 0 ^ k) % T.modulus.value)).toArray

theorem c07s_E_size (T : NTTTables) (x b : Array Nat) (k : Nat) : (c07s_E T x b k).size = x.size := by simp [c07s_E]

theorem c07s_E_getD (T : NTTTables) (x b : Array Nat) (k : Nat) {j : Nat} (hj : j < x.size) :
    (c07s_E T x b k).getD j 0 = ((ntt T x).getD j 0 * (ntt T b).getD j 0 ^ k) % T.modulus.value :=
  getD_rangeMap _ _ hj

theorem c07s_vecN_oob (q : Nat) (a : Array Nat) {j : Nat} (hj : ¬ j < a.size) : c07s_vecN q a j = 0 := by
  unfold c07s_vecN; rw [c07s_getD_oob _ _ hj]; simp

theorem c07s_E_chain {T : NTTTables} (hw : T.WF) {x b : Array Nat} (hx : x.size = 2^T.k) (hb : b.size = 2^T.k)
    (hxl : ∀ j, j < 2^T.k → x.getD j 0 < T.modulus.value) (hbl : ∀ j, j < 2^T.k → b.getD j 0 < T.modulus.value) (k : Nat) :
    (intt T (c07s_E T x b k)).size = 2^T.k ∧ (∀ j, j < 2^T.k → (intt T (c07s_E T x b k)).getD j 0 < T.modulus.value) ∧
    c07s_vecN T.modulus.value (intt T (c07s_E T x b k)) =
      (c07s_mulS T.modulus.value (2^T.k) (c07s_vecN T.modulus.value b))^[k] (c07s_vecN T.modulus.value x) := by
  have hq2 := hw.mwf.two_le
  have hq0 : 0 < T.modulus.value := by omega
  obtain ⟨n1, n2⟩ := ntt_sim hw x hx (fun j hj => by have := hxl j hj; omega)
  induction k with
  | zero =>
    have e : c07s_E T x b 0 = ntt T x := by
      apply array_ext_getD (by rw [c07s_E_size, hx]) n1
      intro j hj
      rw [c07s_E_getD _ _ _ _ (by rw [hx]; exact hj), pow_zero, Nat.mul_one, Nat.mod_eq_of_lt (n2 j hj).2.1]
    rw [e, intt_ntt hw x hx hxl]
    exact ⟨hx, hxl, rfl⟩
  | succ k ih =>
    obtain ⟨i1, i2, i3⟩ := ih
    have hEs : ∀ k, (c07s_E T x b k).size = 2^T.k := fun k => by rw [c07s_E_size, hx]
    have hEl : ∀ k j, j < 2^T.k → (c07s_E T x b k).getD j 0 < T.modulus.value := fun k j hj => by
      rw [c07s_E_getD _ _ _ _ (by rw [hx]; exact hj)]; exact Nat.mod_lt _ hq0
    have hdv : ∀ j, j < 2^T.k → (c07s_E T x b (k+1)).getD j 0 =
        ((c07s_E T x b k).getD j 0 * (ntt T b).getD j 0) % T.modulus.value := by
      intro j hj
      rw [c07s_E_getD _ _ _ _ (by rw [hx]; exact hj), c07s_E_getD _ _ _ _ (by rw [hx]; exact hj), Nat.mod_mul_mod, pow_succ,
        Nat.mul_assoc]
    have hc := c01o_conv hw (hEs k) hb (hEs (k+1)) (hEl k) hbl hdv
    obtain ⟨a1, a2⟩ := intt_sim hw (c07s_E T x b (k+1)) (hEs (k+1)) (fun j hj => by have := hEl (k+1) j hj; omega)
    refine ⟨a1, fun j hj => (a2 j hj).1, ?_⟩
    rw [Function.iterate_succ_apply', ← i3]
    funext j
    by_cases hj : j < 2^T.k
    · unfold c07s_mulS
      rw [if_pos hj]
      show (((intt T (c07s_E T x b (k+1))).getD j 0 : Nat) : ZMod T.modulus.value) = _
      rw [hc j hj, c07s_negMulNat_cast hq0]
      rfl
    · rw [c07s_vecN_oob _ _ (by rw [a1]; exact hj)]
      unfold c07s_mulS
      rw [if_neg hj]

/-- pointwise modular sum -/
def c07s_addArr (q : Nat) (a d : Array Nat) : Array Nat :=
  ((List.range a.size).map (fun j => (a.getD j 0 + d.getD j 0) % q)).toArray

theorem c07s_vecN_intt_add {T : NTTTables} (hw : T.WF) {x y : Array Nat}
    (hx : x.size = 2^T.k) (hy : y.size = 2^T.k)
    (hxl : ∀ j, j < 2^T.k → x.getD j 0 < T.modulus.value) (hyl : ∀ j, j < 2^T.k → y.getD j 0 < T.modulus.value) :
    (c07s_addArr T.modulus.value x y).size = 2^T.k ∧
    (∀ j, j < 2^T.k → (c07s_addArr T.modulus.value x y).getD j 0 < T.modulus.value) ∧
    c07s_vecN T.modulus.value (intt T (c07s_addArr T.modulus.value x y)) =
      c07s_vecN T.modulus.value (intt T x) + c07s_vecN T.modulus.value (intt T y) := by
  have hq2 := hw.mwf.two_le
  have hq0 : 0 < T.modulus.value := by omega
  have hzs : (c07s_addArr T.modulus.value x y).size = 2^T.k := by simp [c07s_addArr, hx]
  have hzv : ∀ j, j < 2^T.k → (c07s_addArr T.modulus.value x y).getD j 0 = (x.getD j 0 + y.getD j 0) % T.modulus.value :=
    fun j hj => getD_rangeMap _ _ (by rw [hx]; exact hj)
  have hzl : ∀ j, j < 2^T.k → (c07s_addArr T.modulus.value x y).getD j 0 < T.modulus.value := fun j hj => by
    rw [hzv j hj]; exact Nat.mod_lt _ hq0
  refine ⟨hzs, hzl, ?_⟩
  have hadd := c01o_intt_add hw hx hy hzs hxl hyl hzv
  obtain ⟨a1, _⟩ := intt_sim hw x hx (fun j hj => by have := hxl j hj; omega)
  obtain ⟨b1, _⟩ := intt_sim hw y hy (fun j hj => by have := hyl j hj; omega)
  obtain ⟨c1, _⟩ := intt_sim hw _ hzs (fun j hj => by have := hzl j hj; omega)
  funext j
  simp only [Pi.add_apply]
  by_cases hj : j < 2^T.k
  · unfold c07s_vecN
    rw [hadd j hj, ZMod.natCast_mod, Nat.cast_add]
  · rw [c07s_vecN_oob _ _ (by rw [c1]; exact hj), c07s_vecN_oob _ _ (by rw [a1]; exact hj),
      c07s_vecN_oob _ _ (by rw [b1]; exact hj), add_zero]

theorem c07s_vecN_intt_zero {T : NTTTables} (hw : T.WF) {z : Array Nat} (hz : z.size = 2^T.k) (hz0 : ∀ j, z.getD j 0 = 0) :
    c07s_vecN T.modulus.value (intt T z) = 0 := by
  have hq2 := hw.mwf.two_le
  have hzl : ∀ j, j < 2^T.k → z.getD j 0 < T.modulus.value := fun j _ => by rw [hz0]; omega
  obtain ⟨_, _, h3⟩ := c07s_vecN_intt_add hw hz hz hzl hzl
  have e : c07s_addArr T.modulus.value z z = z := by
    apply array_ext_getD (by simp [c07s_addArr, hz]) hz
    intro j hj
    rw [show (c07s_addArr T.modulus.value z z).getD j 0 = (z.getD j 0 + z.getD j 0) % T.modulus.value from
      getD_rangeMap _ _ (by rw [hz]; exact hj), hz0]
    simp
  rw [e] at h3
  have : c07s_vecN T.modulus.value (intt T z) + 0 = c07s_vecN T.modulus.value (intt T z) + c07s_vecN T.modulus.value (intt T z) := by
    rw [add_zero]; exact h3
  exact (add_left_cancel this).symm

theorem c07s_sum_chain {T : NTTTables} (hw : T.WF) (Ds : List (Array Nat))
    (hD : ∀ d ∈ Ds, d.size = 2^T.k ∧ ∀ j, j < 2^T.k → d.getD j 0 < T.modulus.value) (acc : Array Nat)
    (ha : acc.size = 2^T.k) (hal : ∀ j, j < 2^T.k → acc.getD j 0 < T.modulus.value) :
    (Ds.foldl (c07s_addArr T.modulus.value) acc).size = 2^T.k ∧
    (∀ j, j < 2^T.k → (Ds.foldl (c07s_addArr T.modulus.value) acc).getD j 0 < T.modulus.value) ∧
    c07s_vecN T.modulus.value (intt T (Ds.foldl (c07s_addArr T.modulus.value) acc)) =
      c07s_vecN T.modulus.value (intt T acc) + (Ds.map (fun d => c07s_vecN T.modulus.value (intt T d))).sum := by
  induction Ds generalizing acc with
  | nil => exact ⟨ha, hal, by simp⟩
  | cons d Ds ih =>
    obtain ⟨d1, d2⟩ := hD d (by simp)
    obtain ⟨s1, s2, s3⟩ := c07s_vecN_intt_add hw ha d1 hal d2
    obtain ⟨r1, r2, r3⟩ := ih (fun d' hd' => hD d' (by simp [hd'])) _ s1 s2
    refine ⟨r1, r2, ?_⟩
    rw [List.foldl_cons, r3, s3, List.map_cons, List.sum_cons, add_assoc]

/-! ### general size, model side: evaluating the monadic code -/

theorem c07s_rns_ext {l : Level} {a b : RnsPoly} (ha : a.size = l.size) (hb : b.size = l.size)
    (h : ∀ i, i < l.size → a.getD i #[] = b.getD i #[]) : a = b := by
  apply Array.ext (by omega)
  intro i h1 h2
  have := h i (by omega)
  simpa [Array.getD, h1, h2] using this

/-- k-th entry of the key-power list: the (k+1)-st pointwise power of the transformed key -/
def c07s_Pw (l : Level) (s : RnsPoly) (k : Nat) : RnsPoly :=
  ((List.range l.size).map fun i =>
    ((List.range l.n).map fun j => ((s.getD i #[]).getD j 0 ^ (k+1)) % (l.q i).value).toArray).toArray

theorem c07s_Pw_size (l : Level) (s : RnsPoly) (k : Nat) : (c07s_Pw l s k).size = l.size := by simp [c07s_Pw]

theorem c07s_Pw_comp_size (l : Level) (s : RnsPoly) (k : Nat) {i : Nat} (hi : i < l.size) :
    ((c07s_Pw l s k).getD i #[]).size = l.n := by
  unfold c07s_Pw; rw [getD_rangeMap' _ _ _ hi]; simp

theorem c07s_Pw_coeff (l : Level) (s : RnsPoly) (k : Nat) {i j : Nat} (hi : i < l.size) (hj : j < l.n) :
    ((c07s_Pw l s k).getD i #[]).getD j 0 = ((s.getD i #[]).getD j 0 ^ (k+1)) % (l.q i).value := by
  unfold c07s_Pw; rw [getD_rangeMap' _ _ _ hi]; exact getD_rangeMap _ _ hj

theorem c07s_Pw_canon {l : Level} (hl : l.WF) (s : RnsPoly) (k : Nat) : RnsCanon l (c07s_Pw l s k) := by
  refine ⟨c07s_Pw_size l s k, fun i hi => ⟨c07s_Pw_comp_size l s k hi, fun j hj => ?_⟩⟩
  rw [c07s_Pw_coeff l s k hi hj]
  have := (c01o_level_comp hl hi).2.2.2.two_le
  exact Nat.mod_lt _ (by omega)

theorem c07s_Pw_zero {l : Level} {s : RnsPoly} (hs : RnsCanon l s) : c07s_Pw l s 0 = s := by
  apply c07s_rns_ext (c07s_Pw_size l s 0) hs.1
  intro i hi
  apply array_ext_getD (c07s_Pw_comp_size l s 0 hi) (hs.2 i hi).1
  intro j hj
  rw [c07s_Pw_coeff l s 0 hi hj, Nat.zero_add, pow_one, Nat.mod_eq_of_lt ((hs.2 i hi).2 j hj)]

theorem c07s_zip_canon_lt64 {l : Level} (hl : l.WF) {a : RnsPoly} (ha : RnsCanon l a) :
    ∀ i, i < l.size → ∀ j, j < (a.getD i #[]).size → (a.getD i #[]).getD j 0 < 2^64 := by
  intro i hi j hj
  have := (ha.2 i hi).2 j (by rw [← (ha.2 i hi).1]; exact hj)
  have := (c01o_level_comp hl hi).2.2.2.lt
  omega

/-- pointwise product of two canonical RNS polynomials -/
theorem c07s_dyadic_canon {l : Level} (hl : l.WF) {a b : RnsPoly} (ha : RnsCanon l a) (hb : RnsCanon l b) :
    rnsDyadic l a b = .ok (c01o_zipVal l a b (fun i x y => (x * y) % (l.q i).value)) ∧
    RnsCanon l (c01o_zipVal l a b (fun i x y => (x * y) % (l.q i).value)) := by
  refine ⟨c01o_rnsDyadic_ok hl (c07s_zip_canon_lt64 hl ha) ?_, c01o_zipVal_size _ _ _ _, fun i hi => ⟨?_, fun j hj => ?_⟩⟩
  · intro i hi j hj
    have := (hb.2 i hi).2 j (by rw [← (ha.2 i hi).1]; exact hj)
    have := (c01o_level_comp hl hi).2.2.2.lt
    omega
  · rw [c01o_zipVal_comp_size _ _ _ _ hi]; exact (ha.2 i hi).1
  · rw [c01o_zipVal_coeff _ _ _ _ hi (by rw [(ha.2 i hi).1]; exact hj)]
    have := (c01o_level_comp hl hi).2.2.2.two_le
    exact Nat.mod_lt _ (by omega)

theorem c07s_add_canon {l : Level} (hl : l.WF) {a b : RnsPoly} (ha : RnsCanon l a) (hb : RnsCanon l b) :
    rnsAdd l a b = .ok (c01o_zipVal l a b (fun i x y => (x + y) % (l.q i).value)) ∧
    RnsCanon l (c01o_zipVal l a b (fun i x y => (x + y) % (l.q i).value)) := by
  refine ⟨c01o_rnsAdd_ok hl (fun i hi j hj => (ha.2 i hi).2 j (by rw [← (ha.2 i hi).1]; exact hj))
    (fun i hi j hj => (hb.2 i hi).2 j (by rw [← (ha.2 i hi).1]; exact hj)), c01o_zipVal_size _ _ _ _,
    fun i hi => ⟨?_, fun j hj => ?_⟩⟩
  · rw [c01o_zipVal_comp_size _ _ _ _ hi]; exact (ha.2 i hi).1
  · rw [c01o_zipVal_coeff _ _ _ _ hi (by rw [(ha.2 i hi).1]; exact hj)]
    have := (c01o_level_comp hl hi).2.2.2.two_le
    exact Nat.mod_lt _ (by omega)

theorem c07s_skPowers_succ (l : Level) (s : RnsPoly) (m : Nat) :
    skPowers l s (m+2) = (do
      let prev ← skPowers l s (m+1)
      let nxt ← rnsDyadic l (prev.getLastD s) s
      pure (prev ++ [nxt])) := rfl

theorem c07s_Pw_succ {l : Level} (hl : l.WF) (s : RnsPoly) (k : Nat) :
    c01o_zipVal l (c07s_Pw l s k) s (fun i x y => (x * y) % (l.q i).value) = c07s_Pw l s (k+1) := by
  have hc := c07s_Pw_canon hl s k
  apply c07s_rns_ext (c01o_zipVal_size _ _ _ _) (c07s_Pw_size l s (k+1))
  intro i hi
  apply array_ext_getD (n := l.n)
  · rw [c01o_zipVal_comp_size _ _ _ _ hi]; exact (hc.2 i hi).1
  · exact c07s_Pw_comp_size l s (k+1) hi
  intro j hj
  rw [c01o_zipVal_coeff _ _ _ _ hi (by rw [(hc.2 i hi).1]; exact hj), c07s_Pw_coeff l s k hi hj,
    c07s_Pw_coeff l s (k+1) hi hj, Nat.mod_mul_mod, ← pow_succ]

theorem c07s_skPowers_ok {l : Level} (hl : l.WF) {s : RnsPoly} (hs : RnsCanon l s) (m : Nat) :
    skPowers l s (m+1) = .ok ((List.range (m+1)).map (c07s_Pw l s)) := by
  induction m with
  | zero =>
    show (pure [s] : R (List RnsPoly)) = _
    simp [c07s_Pw_zero hs, pure, Except.pure]
  | succ m ih =>
    rw [c07s_skPowers_succ, ih]
    have hlast : ((List.range (m+1)).map (c07s_Pw l s)).getLastD s = c07s_Pw l s m := by
      rw [List.range_succ, List.map_append]; simp
    simp only [bind, Except.bind]
    rw [hlast, (c07s_dyadic_canon hl (c07s_Pw_canon hl s m) hs).1, c07s_Pw_succ hl s]
    simp only [pure, Except.pure]
    rw [List.range_succ (n := m+1), List.map_append]
    rfl

theorem c07s_rnsNtt_canon {l : Level} (hl : l.WF) {c : RnsPoly} (hc : RnsCanon l c) : RnsCanon l (rnsNtt l c) := by
  refine ⟨by simp [rnsNtt], fun i hi => ?_⟩
  obtain ⟨htw, htm, htn, _⟩ := c01o_level_comp hl hi
  rw [c01o_rnsNtt_getD l c hi]
  obtain ⟨n1, n2⟩ := ntt_sim htw (c.getD i #[]) (by rw [(hc.2 i hi).1, htn]) (fun j hj => by
    have := (hc.2 i hi).2 j (by omega); omega)
  exact ⟨by rw [n1, htn], fun j hj => by have := (n2 j (by omega)).2.1; omega⟩

theorem c07s_rnsIntt_canon {l : Level} (hl : l.WF) {c : RnsPoly} (hc : RnsCanon l c) : RnsCanon l (rnsIntt l c) := by
  refine ⟨by simp [rnsIntt], fun i hi => ?_⟩
  obtain ⟨htw, htm, htn, _⟩ := c01o_level_comp hl hi
  rw [c01o_rnsIntt_getD l c hi]
  obtain ⟨n1, n2⟩ := intt_sim htw (c.getD i #[]) (by rw [(hc.2 i hi).1, htn]) (fun j hj => by
    have := (hc.2 i hi).2 j (by omega); omega)
  exact ⟨by rw [n1, htn], fun j hj => by have := (n2 j (by omega)).1; omega⟩

theorem c07s_rnsZero_canon {l : Level} (hl : l.WF) : RnsCanon l (rnsZero l) := by
  refine ⟨by simp [rnsZero], fun i hi => ?_⟩
  have e : (rnsZero l).getD i #[] = Array.replicate l.n 0 := by simp [rnsZero, Array.getD, hi]
  rw [e]
  refine ⟨by simp, fun j hj => ?_⟩
  have := (c01o_level_comp hl hi).2.2.2.two_le
  simp [Array.getD, hj]; omega

theorem c07s_skNtt_canon {l : Level} (hl : l.WF) {sk : Array Int} (hsk : sk.size = l.n) : RnsCanon l (skNtt l sk) := by
  refine ⟨by simp [skNtt], fun i hi => ?_⟩
  rw [c01o_skNtt_getD l sk hi]
  exact (c01o_sk_comp hl hsk hi).2.2

/-- folding `rnsAdd` over canonical polynomials -/
theorem c07s_foldAdd_ok {l : Level} (hl : l.WF) (Ds : List RnsPoly) (hD : ∀ d ∈ Ds, RnsCanon l d) (acc : RnsPoly)
    (ha : RnsCanon l acc) :
    Ds.foldlM (fun acc p => rnsAdd l acc p) acc =
      .ok (Ds.foldl (fun a p => c01o_zipVal l a p (fun i x y => (x + y) % (l.q i).value)) acc) ∧
    RnsCanon l (Ds.foldl (fun a p => c01o_zipVal l a p (fun i x y => (x + y) % (l.q i).value)) acc) := by
  induction Ds generalizing acc with
  | nil => exact ⟨rfl, ha⟩
  | cons d Ds ih =>
    obtain ⟨e1, e2⟩ := c07s_add_canon hl ha (hD d (by simp))
    obtain ⟨r1, r2⟩ := ih (fun d' hd' => hD d' (by simp [hd'])) _ e2
    refine ⟨?_, r2⟩
    rw [List.foldlM_cons, e1]
    exact r1

theorem c07s_dot_gen_eq (l : Level) (sk : Array Int) (polys : Array RnsPoly) (cf : Nat) (h3 : 3 ≤ polys.size) :
    dotProductCtSk l sk ⟨polys, false, cf⟩ = (do
      let pows ← skPowers l (skNtt l sk) (polys.size - 1)
      let prods ← (List.range (polys.size - 1)).mapM fun i =>
        rnsDyadic l (rnsNtt l (polys.getD (i+1) #[])) (pows.getD i #[])
      let sum ← prods.foldlM (fun acc p => rnsAdd l acc p) (rnsZero l)
      rnsAdd l (rnsIntt l sum) (polys.getD 0 #[])) := by
  unfold dotProductCtSk
  simp only [if_neg (show ¬ polys.size < 2 by omega), if_neg (show ¬ polys.size = 2 by omega), Bool.false_eq_true, if_false]

/-! ### general size, model side: assembling one component -/

theorem c07s_list_getD_rangeMap {β : Type} (m : Nat) (F : Nat → β) (d : β) {i : Nat} (hi : i < m) :
    ((List.range m).map F).getD i d = F i := by
  simp [List.getD, hi]

theorem c07s_comp_gen {T : NTTTables} (hw : T.WF) {q N : Nat} (hq : T.modulus.value = q) (hN : 2^T.k = N)
    {b : Array Nat} (hb : b.size = N) (hbl : ∀ j, j < N → b.getD j 0 < q)
    (cs : List (Array Nat)) (hcs : ∀ c ∈ cs, c.size = N ∧ ∀ j, j < N → c.getD j 0 < q)
    (z : Array Nat) (hz : z.size = N) (hz0 : ∀ j, z.getD j 0 = 0) :
    (((List.range cs.length).map (fun k => c07s_E T (cs.getD k #[]) b (k+1))).foldl (c07s_addArr q) z).size = N ∧
    (∀ j, j < N → (((List.range cs.length).map (fun k => c07s_E T (cs.getD k #[]) b (k+1))).foldl (c07s_addArr q) z).getD j 0 < q) ∧
    c07s_vecN q (intt T (((List.range cs.length).map (fun k => c07s_E T (cs.getD k #[]) b (k+1))).foldl (c07s_addArr q) z)) =
      c07s_mulS q N (c07s_vecN q b) (c07s_evalZ (c07s_mulS q N (c07s_vecN q b)) (cs.map (c07s_vecN q))) := by
  subst hq hN
  have hq2 := hw.mwf.two_le
  have hq0 : 0 < T.modulus.value := by omega
  have hmem : ∀ k, k < cs.length → cs.getD k #[] ∈ cs := fun k hk => by
    have : cs.getD k #[] = cs[k] := by simp [List.getD, hk]
    rw [this]; exact List.getElem_mem hk
  obtain ⟨r1, r2, r3⟩ := c07s_sum_chain hw ((List.range cs.length).map (fun k => c07s_E T (cs.getD k #[]) b (k+1)))
    (by
      intro d hd
      obtain ⟨k, hk, rfl⟩ := List.mem_map.mp hd
      have hc := hcs _ (hmem k (List.mem_range.mp hk))
      refine ⟨by rw [c07s_E_size, hc.1], fun j hj => ?_⟩
      rw [c07s_E_getD _ _ _ _ (by rw [hc.1]; exact hj)]
      exact Nat.mod_lt _ hq0) z hz (fun j _ => by rw [hz0]; omega)
  refine ⟨r1, r2, ?_⟩
  rw [r3, c07s_vecN_intt_zero hw hz hz0, zero_add, List.map_map]
  have h1 := c07s_evalZ_sum (c07s_mulS T.modulus.value (2^T.k) (c07s_vecN T.modulus.value b))
    (c07s_mulS_zero _ _ _) (c07s_mulS_add _ _ _) (cs.map (c07s_vecN T.modulus.value)) 1
  rw [Function.iterate_one] at h1
  rw [h1, List.length_map]
  congr 1
  apply List.map_congr_left
  intro k hk
  have hk' := List.mem_range.mp hk
  have hc := hcs _ (hmem k hk')
  simp only [Function.comp]
  rw [(c07s_E_chain hw hc.1 hb hc.2 hbl (k+1)).2.2]
  congr 1
  simp [List.getD, hk']

theorem c07s_vecN_addArr {q : Nat} {a b : Array Nat} (hab : b.size = a.size) :
    c07s_vecN q (c07s_addArr q a b) = c07s_vecN q a + c07s_vecN q b := by
  funext j
  simp only [Pi.add_apply]
  by_cases hj : j < a.size
  · unfold c07s_vecN c07s_addArr
    rw [getD_rangeMap _ _ hj, ZMod.natCast_mod, Nat.cast_add]
  · rw [c07s_vecN_oob _ _ (by simp [c07s_addArr]; omega), c07s_vecN_oob _ _ hj, c07s_vecN_oob _ _ (by rw [hab]; exact hj),
      add_zero]

theorem c07s_zipAdd_getD (l : Level) (a b : RnsPoly) {i : Nat} (hi : i < l.size) :
    (c01o_zipVal l a b (fun i x y => (x + y) % (l.q i).value)).getD i #[] =
      c07s_addArr (l.q i).value (a.getD i #[]) (b.getD i #[]) := by
  rw [c01o_zipVal_getD _ _ _ _ hi]; rfl

theorem c07s_fold_comp (l : Level) (Ds : List RnsPoly) (acc : RnsPoly) {i : Nat} (hi : i < l.size) :
    (Ds.foldl (fun a p => c01o_zipVal l a p (fun i x y => (x + y) % (l.q i).value)) acc).getD i #[] =
      (Ds.map (fun d => d.getD i #[])).foldl (c07s_addArr (l.q i).value) (acc.getD i #[]) := by
  induction Ds generalizing acc with
  | nil => rfl
  | cons d Ds ih => rw [List.foldl_cons, ih, c07s_zipAdd_getD l acc d hi, List.map_cons, List.foldl_cons]

/-- the k-th product of the general-size dot product -/
def c07s_D (l : Level) (sk : Array Int) (polys : Array RnsPoly) (k : Nat) : RnsPoly :=
  c01o_zipVal l (rnsNtt l (polys.getD (k+1) #[])) (c07s_Pw l (skNtt l sk) k) (fun i x y => (x * y) % (l.q i).value)

theorem c07s_D_comp {l : Level} (hl : l.WF) {sk : Array Int} {polys : Array RnsPoly} {k : Nat}
    (hc : RnsCanon l (polys.getD (k+1) #[])) {i : Nat} (hi : i < l.size) :
    (c07s_D l sk polys k).getD i #[] = c07s_E (l.tbl i) ((polys.getD (k+1) #[]).getD i #[]) (skRes l sk i) (k+1) := by
  obtain ⟨htw, htm, htn, hqw⟩ := c01o_level_comp hl hi
  have hnc := c07s_rnsNtt_canon hl hc
  apply array_ext_getD (n := l.n)
  · unfold c07s_D; rw [c01o_zipVal_comp_size _ _ _ _ hi]; exact (hnc.2 i hi).1
  · rw [c07s_E_size]; exact (hc.2 i hi).1
  intro j hj
  unfold c07s_D
  rw [c01o_zipVal_coeff _ _ _ _ hi (by rw [(hnc.2 i hi).1]; exact hj), c07s_Pw_coeff _ _ _ hi hj,
    c07s_E_getD _ _ _ _ (by rw [(hc.2 i hi).1]; exact hj), c01o_rnsNtt_getD l _ hi, c01o_skNtt_getD l sk hi, htm,
    Nat.mul_mod_mod]

theorem c07s_arr_getD_toList {α : Type} (a : Array α) (k : Nat) (d : α) : a.getD k d = a.toList.getD k d := by
  by_cases hk : k < a.size <;> simp [Array.getD, List.getD, hk]

/-- PHASE, coefficient form, any size ≥ 3: the model returns, in every component, the Horner value
    c_0 + (c_1 + (c_2 + …)·s)·s modulo (X^N + 1, q_i) -/
theorem c07s_dot_gen {l : Level} (hl : l.WF) {sk : Array Int} (hsk : sk.size = l.n) {polys : Array RnsPoly}
    (h3 : 3 ≤ polys.size) (hc : ∀ k, k < polys.size → RnsCanon l (polys.getD k #[])) (cf : Nat) :
    ∃ ph, dotProductCtSk l sk ⟨polys, false, cf⟩ = .ok ph ∧ RnsCanon l ph ∧
      ∀ i, i < l.size → c07s_vecN (l.q i).value (ph.getD i #[]) =
        c07s_evalZ (c07s_mulS (l.q i).value l.n (c07s_vecZ (l.q i).value sk))
          (polys.toList.map (fun p => c07s_vecN (l.q i).value (p.getD i #[]))) := by
  obtain ⟨m, hm⟩ : ∃ m, polys.size - 1 = m + 1 := ⟨polys.size - 2, by omega⟩
  have hs := c07s_skNtt_canon hl hsk
  have hDc : ∀ d ∈ (List.range (m+1)).map (c07s_D l sk polys), RnsCanon l d := by
    intro d hd
    obtain ⟨k, hk, rfl⟩ := List.mem_map.mp hd
    have hk' := List.mem_range.mp hk
    exact (c07s_dyadic_canon hl (c07s_rnsNtt_canon hl (hc (k+1) (by omega))) (c07s_Pw_canon hl _ k)).2
  obtain ⟨f1, f2⟩ := c07s_foldAdd_ok hl _ hDc (rnsZero l) (c07s_rnsZero_canon hl)
  have hIc := c07s_rnsIntt_canon hl f2
  obtain ⟨g1, g2⟩ := c07s_add_canon hl hIc (hc 0 (by omega))
  refine ⟨_, ?_, g2, ?_⟩
  · rw [c07s_dot_gen_eq _ _ _ _ h3, hm, c07s_skPowers_ok hl hs m]
    simp only [bind, Except.bind]
    rw [RNSH.mapM_ok_of_forall _ (c07s_D l sk polys)]
    · simp only
      rw [f1]
      simp only
      exact g1
    · intro k hk
      have hk' := List.mem_range.mp hk
      rw [c07s_list_getD_rangeMap _ _ _ hk']
      exact (c07s_dyadic_canon hl (c07s_rnsNtt_canon hl (hc (k+1) (by omega))) (c07s_Pw_canon hl _ k)).1
  · intro i hi
    obtain ⟨htw, htm, htn, hqw⟩ := c01o_level_comp hl hi
    obtain ⟨s1, s2, _, _⟩ := c01o_sk_comp hl hsk hi
    have hq0 : 0 < (l.q i).value := by have := hqw.two_le; omega
    obtain ⟨p0, tl, htl⟩ : ∃ p0 tl, polys.toList = p0 :: tl := by
      cases h : polys.toList with
      | nil =>
        have : polys.toList.length = polys.size := Array.length_toList
        rw [h, List.length_nil] at this; omega
      | cons a b => exact ⟨a, b, rfl⟩
    have hlen : tl.length = m + 1 := by
      have : polys.toList.length = polys.size := Array.length_toList
      rw [htl, List.length_cons] at this; omega
    have hp0 : polys.getD 0 #[] = p0 := by rw [c07s_arr_getD_toList, htl]; rfl
    have hpk : ∀ k, polys.getD (k+1) #[] = tl.getD k #[] := fun k => by
      rw [c07s_arr_getD_toList, htl, List.getD_cons_succ]
    have hcs : ∀ c ∈ tl.map (fun p => p.getD i #[]), c.size = l.n ∧ ∀ j, j < l.n → c.getD j 0 < (l.q i).value := by
      intro c hcm
      obtain ⟨p, hp, rfl⟩ := List.mem_map.mp hcm
      obtain ⟨k, hk, rfl⟩ := List.mem_iff_getElem.mp hp
      have e : tl[k] = polys.getD (k+1) #[] := by rw [hpk]; simp [List.getD, hk]
      rw [e]
      exact (hc (k+1) (by omega)).2 i hi
    have hz : ((rnsZero l).getD i #[]).size = l.n := ((c07s_rnsZero_canon hl).2 i hi).1
    have hz0 : ∀ j, ((rnsZero l).getD i #[]).getD j 0 = 0 := by
      intro j
      have e : (rnsZero l).getD i #[] = Array.replicate l.n 0 := by simp [rnsZero, Array.getD, hi]
      rw [e]
      by_cases hj : j < l.n <;> simp [Array.getD, hj]
    have hDs : ((List.range (m+1)).map (c07s_D l sk polys)).map (fun d => d.getD i #[]) =
        (List.range (tl.map (fun p => p.getD i #[])).length).map
          (fun k => c07s_E (l.tbl i) ((tl.map (fun p => p.getD i #[])).getD k #[]) (skRes l sk i) (k+1)) := by
      rw [List.length_map, hlen, List.map_map]
      apply List.map_congr_left
      intro k hk
      have hk' := List.mem_range.mp hk
      simp only [Function.comp]
      rw [c07s_D_comp hl (hc (k+1) (by omega)) hi, hpk]
      congr 1
      simp [List.getD, hk', hlen]
    obtain ⟨_, _, c3⟩ := c07s_comp_gen htw htm htn s1 s2 (tl.map (fun p => p.getD i #[])) hcs _ hz hz0
    rw [c07s_zipAdd_getD l _ _ hi, c07s_vecN_addArr (by rw [(hIc.2 i hi).1]; exact ((hc 0 (by omega)).2 i hi).1),
      c01o_rnsIntt_getD l _ hi, c07s_fold_comp l _ _ hi, hDs, c3, htl, List.map_cons, c07s_evalZ, hp0, List.map_map, add_comm]
    have hM : c07s_mulS (l.q i).value l.n (c07s_vecN (l.q i).value (skRes l sk i)) =
        c07s_mulS (l.q i).value l.n (c07s_vecZ (l.q i).value sk) := by
      funext a
      exact c07s_mulS_congr (fun k hk => c07s_skRes_cast l sk i hq0 (by rw [hsk]; exact hk)) (fun _ _ => rfl)
    rw [hM]
    rfl

/-! ### general size: the noise budget -/

/-- one coefficient, abstractly: W is any number below Q with the residues of the model's phase -/
theorem c07s_coeff_gen {l : Level} (hq : c07s_LevelQ l) {ph : RnsPoly} (hp : RnsCanon l ph) {j : Nat} (hj : j < l.n)
    {W : Nat} (hWl : W < l.tool.baseQ.prod)
    (hWc : ∀ m, m < l.size → ((W : Nat) : ZMod (l.q m).value) = (((ph.getD m #[]).getD j 0 : Nat) : ZMod (l.q m).value)) :
    c07s_abs l.tool.baseQ.prod (Spec.crt (c07s_qsv l.tool.baseQ) ((c07s_scaled l ph).toList.map (fun c => c.getD j 0))) =
      (c07l_v (decide (l.scheme = .bfv)) l.t.value l.tool.baseQ.prod (Spec.centred W l.tool.baseQ.prod)).natAbs := by
  have hb := hq.bwf
  have hQ := hb.prod_pos
  generalize hX : Spec.crt (c07s_qsv l.tool.baseQ) ((c07s_scaled l ph).toList.map (fun c => c.getD j 0)) = X
  have hdvd : ∀ m, m < l.size → (l.q m).value ∣ l.tool.baseQ.prod := fun m hm => by
    rw [← hq.q_eq hm]; exact hb.q_dvd_prod (by rw [hq.size_eq]; exact hm)
  have hXl : X < l.tool.baseQ.prod := by rw [← hX]; exact (c07s_crt_spec hb _).1
  have hXc : ∀ m, m < l.size →
      ((X : Nat) : ZMod (l.q m).value) = ((((c07s_scaled l ph).getD m #[]).getD j 0 : Nat) : ZMod (l.q m).value) := by
    intro m hm
    have := c07s_crt_cast hb ((c07s_scaled l ph).toList.map (fun c => c.getD j 0)) (i := m) (by rw [hq.size_eq]; exact hm)
    rw [hq.q_eq hm, c07s_listcol_getD, hX] at this
    exact this
  unfold c07l_v
  by_cases hs : l.scheme = .bfv
  · simp only [hs, decide_true, if_true]
    have e : X = Spec.imod ((l.t.value : Int) * Spec.centred W l.tool.baseQ.prod) l.tool.baseQ.prod := by
      apply c07s_crt_unique_cast hb hXl (c07l_imod_lt hQ _)
      intro i hi
      have hi' : i < l.size := by rw [← hq.size_eq]; exact hi
      rw [hq.q_eq hi', hXc i hi', c07s_scaled_coeff hp hi' hj, if_pos hs, ZMod.natCast_mod, Nat.cast_mul,
        c07s_imod_cast (hdvd i hi') hQ, Int.cast_mul, c07s_centred_cast (hdvd i hi') hWl, hWc i hi', Int.cast_natCast,
        mul_comm]
    rw [e]
    exact c07s_abs_centred (c07l_imod_lt hQ _)
  · simp only [hs, decide_false, Bool.false_eq_true, if_false]
    have e : X = W := by
      apply c07s_crt_unique_cast hb hXl hWl
      intro i hi
      have hi' : i < l.size := by rw [← hq.size_eq]; exact hi
      rw [hq.q_eq hi', hXc i hi', c07s_scaled_coeff hp hi' hj, if_neg hs, hWc i hi']
    rw [e]
    exact c07s_abs_centred hWl

theorem c07s_map_as_range {β : Type} (A : Array Int) {n : Nat} (hA : A.size = n) (f : Int → β) :
    A.map f = ((List.range n).map (fun j => f (A.getD j 0))).toArray := by
  apply Array.ext'
  rw [Array.toList_map, c07s_toList_range A (0 : Int), hA, List.map_map]
  rfl

theorem c07s_centred_mod (x Q : Nat) : Spec.centred x Q = Spec.centred (x % Q) Q := by
  unfold Spec.centred
  rw [Nat.mod_mod]

theorem c07s_vecZ_crtPoly {l : Level} (hq : c07s_LevelQ l) {p : RnsPoly} (hp : RnsCanon l p) {m : Nat} (hm : m < l.size) :
    c07s_vecZ (l.q m).value (Spec.crtPoly (c07s_qsv l.tool.baseQ) p l.n) = c07s_vecN (l.q m).value (p.getD m #[]) := by
  funext j
  by_cases hj : j < l.n
  · unfold c07s_vecZ c07s_vecN
    rw [c07s_crtPoly_getD _ _ _ hj, Int.cast_natCast]
    have := c07s_crt_cast hq.bwf (p.toList.map (fun comp => comp.getD j 0)) (i := m) (by rw [hq.size_eq]; exact hm)
    rw [hq.q_eq hm, c07s_listcol_getD] at this
    exact this
  · rw [c07s_vecN_oob _ _ (by rw [(hp.2 m hm).1]; exact hj)]
    unfold c07s_vecZ
    rw [c07s_getD_oob _ _ (by rw [c07s_crtPoly_size]; exact hj)]
    simp

/-! ## Property theorems -/

/-- NOISE BUDGET, size 2: on a coefficient-form ciphertext (c0, c1) of a BFV or BGV level the model's `noiseBudget` succeeds and
    returns exactly the budget of the definition, `Spec.budget`, evaluated on the exact big-integer phase `Spec.phase` -/
theorem noiseBudget_size2_eq_spec {l : Level} (hl : l.WF) (hq : c07s_LevelQ l) (hs : l.scheme = .bfv ∨ l.scheme = .bgv)
    (ht : l.scheme = .bfv → l.t.value < 2^64) {sk : Array Int} (hsk : sk.size = l.n) {c0 c1 : RnsPoly}
    (h0 : RnsCanon l c0) (h1 : RnsCanon l c1) (cf : Nat) :
    noiseBudget l sk ⟨#[c0, c1], false, cf⟩ =
      .ok (Spec.budget (l.scheme = .bfv) l.t.value (Spec.prodL (l.qs.toList.map (·.value)))
        (Spec.phase (l.qs.toList.map (·.value)) l.n sk [c0, c1])) := by
  have hqs : l.qs.toList.map (·.value) = c07s_qsv l.tool.baseQ := by unfold c07s_qsv; rw [hq.base]
  obtain ⟨ph, hd, hpc, hpv⟩ := dotProduct_size2_coeff hl hsk h0 h1
  have hck : l.scheme ≠ .ckks := by rcases hs with h | h <;> rw [h] <;> decide
  rw [hqs, c07s_phase2, c07s_prodL_qsv hq.bwf, c07s_noiseBudget_eq _ _ _ rfl hck, c07s_dot_cf, hd]
  simp only [bind, Except.bind]
  rw [c07s_scale_ok hl ht hpc]
  simp only
  rw [c07s_vals_ok hq (c07s_scaled_canon hl hpc)]
  simp only [pure, Except.pure]
  rw [budget_eq, c07l_noiseNorm_list]
  unfold c07s_norm
  rw [c07s_fold_congr (List.range l.n) _ _ (c07s_abs l.tool.baseQ.prod)
    (fun x => (c07l_v (decide (l.scheme = .bfv)) l.t.value l.tool.baseQ.prod x).natAbs)]
  intro j hj
  exact c07s_coeff hl hq hsk hpc hpv (List.mem_range.mp hj)

/-- the same, with the hypothesis bundle discharged by the constructor: `l.tool.baseQ` is what `RNSBase.new` returns on the
    level's moduli (this is how `RNSTool.new` is fed) -/
theorem noiseBudget_size2_eq_spec_of_new {l : Level} (hl : l.WF) (h64 : l.qs.size ≤ 64)
    (hq : RNSBase.new l.qs.toList = .ok l.tool.baseQ) (hs : l.scheme = .bfv ∨ l.scheme = .bgv) (ht : l.t.WF)
    {sk : Array Int} (hsk : sk.size = l.n) {c0 c1 : RnsPoly} (h0 : RnsCanon l c0) (h1 : RnsCanon l c1) (cf : Nat) :
    noiseBudget l sk ⟨#[c0, c1], false, cf⟩ =
      .ok (Spec.budget (l.scheme = .bfv) l.t.value (Spec.prodL (l.qs.toList.map (·.value)))
        (Spec.phase (l.qs.toList.map (·.value)) l.n sk [c0, c1])) :=
  noiseBudget_size2_eq_spec hl (c07s_levelQ_of_new hl h64 hq) hs (fun _ => by have := ht.lt; omega) hsk h0 h1 cf

/-- REFUSAL: a ciphertext in NTT form -/
theorem noiseBudget_refuses_ntt (l : Level) (sk : Array Int) (ct : Ct) (h : ct.ntt = true) :
    noiseBudget l sk ct = .error .refused := c07s_refuse_ntt l sk ct h

/-- REFUSAL: CKKS levels -/
theorem noiseBudget_refuses_ckks (l : Level) (sk : Array Int) (ct : Ct) (h : l.scheme = .ckks) :
    noiseBudget l sk ct = .error .refused := c07s_refuse_ckks l sk ct h

/-- REFUSAL: fewer than two polynomials -/
theorem noiseBudget_refuses_small (l : Level) (sk : Array Int) (ct : Ct) (h : ct.polys.size < 2) :
    noiseBudget l sk ct = .error .refused := c07s_refuse_small l sk ct h

/-- a positive budget puts every noise value strictly below Q/2 -/
theorem budget_pos_noise_lt (bfv : Bool) {t Q : Nat} (ph : Array Int) (hb : 0 < Spec.budget bfv t Q ph) :
    ∀ x ∈ ph.toList, 2 * (c07l_v bfv t Q x).natAbs < Q := by
  rw [budget_eq] at hb
  generalize hN : noiseNorm bfv t Q ph = N at hb
  have hk : bitCount N + 2 ≤ bitCount Q := by omega
  have hNl : N < 2 ^ (bitCount Q - 2) := (bitCount_le_iff N _).1 (by omega)
  have hQl : 2 ^ (bitCount Q - 1) ≤ Q := by
    by_contra hc
    have := (bitCount_le_iff Q (bitCount Q - 1)).2 (by omega)
    omega
  have e : bitCount Q - 1 = (bitCount Q - 2) + 1 := by omega
  rw [e, pow_succ] at hQl
  intro x hx
  have := (c07l_noiseNorm_le_iff bfv t Q ph N).1 (by rw [hN]) x hx
  omega

/-- MONOTONICITY COROLLARY (BFV): with a positive budget every coefficient splits as t·x = Q·m' + ν with ν the measured noise,
    2|ν| < Q, and rounding t·x/Q returns the noiseless message m' -/
theorem budget_pos_bfv_round {t Q : Nat} (hQ : 0 < Q) (ph : Array Int) (hb : 0 < Spec.budget true t Q ph) :
    ∀ x ∈ ph.toList, ∃ m' : Int, (t : Int) * x = Q * m' + c07l_v true t Q x ∧ 2 * (c07l_v true t Q x).natAbs < Q ∧
      Spec.roundDiv (t * x) Q = m' := by
  intro x hx
  have hlt := budget_pos_noise_lt true ph hb x hx
  obtain ⟨κ, hκ⟩ := c01j_centred_imod ((t : Int) * x) hQ
  have hv : c07l_v true t Q x = (t : Int) * x - Q * κ := by
    unfold c07l_v; simpa using hκ
  have hdec : (t : Int) * x = Q * κ + c07l_v true t Q x := by rw [hv]; ring
  exact ⟨κ, hdec, hlt, exact_below_threshold hQ hdec hlt⟩

/-- any splitting t·x = Q·m + e with 2|e| < Q is the one the budget measures: e is the noise value -/
theorem c07s_noise_unique {t Q : Nat} {x m e : Int} (h : (t : Int) * x = Q * m + e) (he : 2 * e.natAbs < Q) :
    c07l_v true t Q x = e := by
  have hQ : 0 < Q := by omega
  have e1 : Spec.imod ((t : Int) * x) Q = Spec.imod e Q := by
    unfold Spec.imod
    rw [h, Int.add_comm, Int.add_mul_emod_self_left]
  unfold c07l_v
  simp only [if_true]
  rw [e1]
  exact c01j_centred_small he

/-- BFV decoding under a positive budget: for ANY message/noise splitting t·x_c = Q·m_c + e_c with 2|e_c| < Q of the phase
    coefficients, the decoded coefficient is m_c mod t; and such a splitting exists for every coefficient (`budget_pos_bfv_round`) -/
theorem budget_pos_bfvDecode {t Q : Nat} (hQ : 0 < Q) (ph : Array Int) (hb : 0 < Spec.budget true t Q ph) :
    Spec.bfvDecode t Q ph =
      ph.map (fun x => Spec.imod (((t : Int) * x - c07l_v true t Q x) / (Q : Int)) t) := by
  unfold Spec.bfvDecode
  apply Array.ext'
  rw [Array.toList_map, Array.toList_map]
  apply List.map_congr_left
  intro x hx
  obtain ⟨m', h1, _, h3⟩ := budget_pos_bfv_round hQ ph hb x hx
  have : ((t : Int) * x - c07l_v true t Q x) / (Q : Int) = m' := by
    rw [h1, add_sub_cancel_right, Int.mul_ediv_cancel_left _ (by omega)]
  rw [this, h3]

/-- model-level corollary: when the MODEL reports a positive budget on a BFV ciphertext (c0, c1), exact decoding of the phase
    returns the message part of every coefficient, and every noise value is below Q/2 -/
theorem noiseBudget_pos_bfvDecode {l : Level} (hl : l.WF) (hq : c07s_LevelQ l) (hs : l.scheme = .bfv)
    (ht : l.t.value < 2^64) {sk : Array Int} (hsk : sk.size = l.n) {c0 c1 : RnsPoly}
    (h0 : RnsCanon l c0) (h1 : RnsCanon l c1) (cf : Nat) {b : Nat}
    (hb : noiseBudget l sk ⟨#[c0, c1], false, cf⟩ = .ok b) (hpos : 0 < b) :
    let Q := Spec.prodL (l.qs.toList.map (·.value))
    let ph := Spec.phase (l.qs.toList.map (·.value)) l.n sk [c0, c1]
    (∀ x ∈ ph.toList, 2 * (c07l_v true l.t.value Q x).natAbs < Q) ∧
    Spec.bfvDecode l.t.value Q ph = ph.map (fun x => Spec.imod (((l.t.value : Int) * x - c07l_v true l.t.value Q x) / (Q : Int)) l.t.value) := by
  intro Q ph
  have hm := noiseBudget_size2_eq_spec hl hq (Or.inl hs) (fun _ => ht) hsk h0 h1 cf
  rw [hb] at hm
  have hbe : b = Spec.budget true l.t.value Q ph := by
    have := Except.ok.inj hm
    simpa [hs] using this
  have hQ : 0 < Q := by
    have hqs : l.qs.toList.map (·.value) = c07s_qsv l.tool.baseQ := by unfold c07s_qsv; rw [hq.base]
    show 0 < Spec.prodL (l.qs.toList.map (·.value))
    rw [hqs, c07s_prodL_qsv hq.bwf]; exact hq.bwf.prod_pos
  rw [hbe] at hpos
  exact ⟨budget_pos_noise_lt true ph hpos, budget_pos_bfvDecode hQ ph hpos⟩

/-- NOISE BUDGET, any size ≥ 3 (coefficient form): the model's `noiseBudget` returns the budget of the definition on the
    exact phase Σ c_k s^k -/
theorem noiseBudget_gen_eq_spec {l : Level} (hl : l.WF) (hq : c07s_LevelQ l) (hs : l.scheme = .bfv ∨ l.scheme = .bgv)
    (ht : l.scheme = .bfv → l.t.value < 2^64) {sk : Array Int} (hsk : sk.size = l.n) {polys : Array RnsPoly}
    (h3 : 3 ≤ polys.size) (hc : ∀ k, k < polys.size → RnsCanon l (polys.getD k #[])) (cf : Nat) :
    noiseBudget l sk ⟨polys, false, cf⟩ =
      .ok (Spec.budget (l.scheme = .bfv) l.t.value (Spec.prodL (l.qs.toList.map (·.value)))
        (Spec.phase (l.qs.toList.map (·.value)) l.n sk polys.toList)) := by
  have hqs : l.qs.toList.map (·.value) = c07s_qsv l.tool.baseQ := by unfold c07s_qsv; rw [hq.base]
  have hb := hq.bwf
  have hQ := hb.prod_pos
  obtain ⟨ph, hd, hpc, hpv⟩ := c07s_dot_gen hl hsk h3 hc cf
  have hck : l.scheme ≠ .ckks := by rcases hs with h | h <;> rw [h] <;> decide
  -- the Horner value of the definition
  have hzs : ∀ z ∈ polys.toList.map (fun p => Spec.crtPoly (c07s_qsv l.tool.baseQ) p l.n),
      z.size = l.n ∧ ∀ j, 0 ≤ z.getD j 0 := by
    intro z hz
    obtain ⟨p, _, rfl⟩ := List.mem_map.mp hz
    refine ⟨c07s_crtPoly_size _ _ _, fun j => ?_⟩
    by_cases hj : j < l.n
    · rw [c07s_crtPoly_getD _ _ _ hj]; exact Int.natCast_nonneg _
    · rw [c07s_getD_oob _ _ (by rw [c07s_crtPoly_size]; exact hj)]
  have hne : polys.toList.map (fun p => Spec.crtPoly (c07s_qsv l.tool.baseQ) p l.n) ≠ [] := by
    intro h
    have h1 := congrArg List.length h
    rw [List.length_map, Array.length_toList, List.length_nil] at h1
    omega
  obtain ⟨H, e1, e2, e3, _⟩ := c07s_evalO_spec (q := 1) (one_dvd _) hQ sk _ hzs hne
  have hHc : ∀ m, m < l.size → c07s_vecZ (l.q m).value H = c07s_vecN (l.q m).value (ph.getD m #[]) := by
    intro m hm
    have hdvd : (l.q m).value ∣ l.tool.baseQ.prod := by
      rw [← hq.q_eq hm]; exact hb.q_dvd_prod (by rw [hq.size_eq]; exact hm)
    obtain ⟨H', e1', _, _, e4'⟩ := c07s_evalO_spec hdvd hQ sk _ hzs hne
    have : H' = H := Option.some.inj (e1'.symm.trans e1)
    rw [this] at e4'
    rw [e4', hpv m hm, List.map_map]
    congr 1
    apply List.map_congr_left
    intro p hp
    obtain ⟨k, hk, rfl⟩ := List.mem_iff_getElem.mp hp
    have hk' : k < polys.size := by simpa using hk
    have e : polys.toList[k] = polys.getD k #[] := by simp [Array.getD, hk']
    simp only [Function.comp]
    rw [e]
    exact c07s_vecZ_crtPoly hq (hc k hk') hm
  rw [hqs, c07s_phase_unfold, c07s_prodL_qsv hb, e1, Option.getD_some, c07s_map_as_range H e2,
    c07s_noiseBudget_eq _ _ _ rfl hck, hd]
  simp only [bind, Except.bind]
  rw [c07s_scale_ok hl ht hpc]
  simp only
  rw [c07s_vals_ok hq (c07s_scaled_canon hl hpc)]
  simp only [pure, Except.pure]
  rw [budget_eq, c07l_noiseNorm_list]
  unfold c07s_norm
  rw [c07s_fold_congr (List.range l.n) _ _ (c07s_abs l.tool.baseQ.prod)
    (fun x => (c07l_v (decide (l.scheme = .bfv)) l.t.value l.tool.baseQ.prod x).natAbs)]
  intro j hj
  have hj' := List.mem_range.mp hj
  rw [c07s_centred_mod]
  apply c07s_coeff_gen hq hpc hj' (Nat.mod_lt _ hQ)
  intro m hm
  have hdvd : (l.q m).value ∣ l.tool.baseQ.prod := by
    rw [← hq.q_eq hm]; exact hb.q_dvd_prod (by rw [hq.size_eq]; exact hm)
  have h1 : (((H.getD j 0).toNat % l.tool.baseQ.prod : Nat) : ZMod (l.q m).value) = (((H.getD j 0).toNat : Nat) : ZMod (l.q m).value) := by
    have := c07s_cast_emod hdvd (((H.getD j 0).toNat : Nat) : Int)
    rw [← Int.natCast_mod, Int.cast_natCast, Int.cast_natCast] at this
    exact this
  rw [h1, c07s_cast_toNat (e3 j)]
  exact congrFun (hHc m hm) j

/-- NOISE BUDGET, any size ≥ 2 -/
theorem noiseBudget_eq_spec {l : Level} (hl : l.WF) (hq : c07s_LevelQ l) (hs : l.scheme = .bfv ∨ l.scheme = .bgv)
    (ht : l.scheme = .bfv → l.t.value < 2^64) {sk : Array Int} (hsk : sk.size = l.n) {polys : Array RnsPoly}
    (h2 : 2 ≤ polys.size) (hc : ∀ k, k < polys.size → RnsCanon l (polys.getD k #[])) (cf : Nat) :
    noiseBudget l sk ⟨polys, false, cf⟩ =
      .ok (Spec.budget (l.scheme = .bfv) l.t.value (Spec.prodL (l.qs.toList.map (·.value)))
        (Spec.phase (l.qs.toList.map (·.value)) l.n sk polys.toList)) := by
  by_cases h : polys.size = 2
  · obtain ⟨c0, c1, rfl⟩ : ∃ c0 c1, polys = #[c0, c1] := by
      obtain ⟨L⟩ := polys
      match L, h with
      | [a, b], _ => exact ⟨a, b, rfl⟩
    exact noiseBudget_size2_eq_spec hl hq hs ht hsk (hc 0 (by simp)) (hc 1 (by simp)) cf
  · exact noiseBudget_gen_eq_spec hl hq hs ht hsk (by omega) hc cf

end HC
