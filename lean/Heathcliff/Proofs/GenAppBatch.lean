/-
  Translator phase 4h (app mode): `reverse_bits_u64` (src/util/basic.rs) and the `matrix_reps_index_map` loop of `BatchEncoder::new`
  (src/batch_encoder.rs, a fragment) regenerated into Gen/AppFns.lean = `brev` / `batchIndexMap` of the hand model.  Helper prefix `ga_`.
-/
import Heathcliff.Proofs.GenAppBrev
import Heathcliff.Gen.AppBatchFns
import Heathcliff.Model.Galois

namespace HC
open HC.GenApp

/-! ### `reverse_bits_u64` -/

/-- **`reverse_bits_u64`, generated = `brev`**: `bit_count ≤ 64` (`64 - bit_count` is a checked subtraction; `bit_count = 0` gives 0 in
    both) and an operand of at most `bit_count` bits -/
theorem ga_reverse_bits_u64_eq (x k : Nat) (hk : k ≤ 64) (hx : x < 2^k) : reverse_bits_u64 x k = .ok (brev k x) := by
  unfold reverse_bits_u64
  by_cases h0 : k = 0
  · subst h0; rw [if_pos rfl]; rfl
  · rw [if_neg h0, ga_ckSub hk, ga_ok_bind]
    unfold GenApp.ckShr
    rw [if_pos (by omega), ga_revBitsK_eq_brev]
    have := ga_brev_add k (64 - k) x hx
    rw [show k + (64 - k) = 64 by omega] at this
    rw [this, Nat.shiftRight_eq_div_pow, Nat.mul_div_cancel _ (Nat.two_pow_pos _)]

/-! ### the index-map loop of `BatchEncoder::new` -/

/-- the model's loop step (`batchIndexMap` of Model/Galois.lean) -/
def ga_bimStep (k : Nat) (acc : Array Nat × Nat) (i : Nat) : Array Nat × Nat :=
  let (arr, pos) := acc
  let i1 := (pos - 1) / 2
  let i2 := (2 * 2^k - pos - 1) / 2
  ((arr.setIfInBounds i (brev k i1)).setIfInBounds (i + 2^k / 2) (brev k i2), (pos * galoisGenerator) % (2 * 2^k))

theorem ga_batchIndexMap_eq (k : Nat) :
    batchIndexMap k = ((List.range (2^k / 2)).foldl (ga_bimStep k) (Array.replicate (2^k) 0, 1)).1 := rfl

def ga_ofBim (s : Array Nat × Nat) : List Nat × Nat := (s.1.toList, s.2)

theorem ga_be_index_map_loop1 (k : Nat) (hk1 : 1 ≤ k) (hk : k ≤ 61) (i : Nat) (hi : i < 2^k / 2) (s : Array Nat × Nat)
    (hsz : s.1.size = 2^k) (hpos : s.2 < 2 * 2^k) (hodd : s.2 % 2 = 1) :
    be_index_map_loop1 k (2^k / 2) (2 * 2^k) 3 i (ga_ofBim s) = .ok (.next (ga_ofBim (ga_bimStep k s i))) ∧
      (ga_bimStep k s i).1.size = 2^k ∧ (ga_bimStep k s i).2 < 2 * 2^k ∧ (ga_bimStep k s i).2 % 2 = 1 := by
  obtain ⟨arr, pos⟩ := s
  simp only at hsz hpos hodd
  have hn : 2^k ≤ 2^61 := Nat.pow_le_pow_right (by omega) hk
  have hn2 : 2 ≤ 2^k := by
    calc 2 = 2^1 := rfl
      _ ≤ 2^k := Nat.pow_le_pow_right (by omega) hk1
  have hi1 : (pos - 1) / 2 < 2^k := by omega
  have hi2 : (2 * 2^k - pos - 1) / 2 < 2^k := by omega
  have hm : 2 * 2^k = 2^(k+1) := by rw [Nat.pow_succ]; ring
  have hand : (pos * 3) &&& (2 * 2^k - 1) = (pos * 3) % (2 * 2^k) := by
    rw [hm]; exact Nat.and_two_pow_sub_one_eq_mod _ _
  refine ⟨?_, ?_, ?_, ?_⟩
  · simp only [be_index_map_loop1, ga_ofBim, ga_bimStep, ga_ckSub (show 1 ≤ pos by omega), ga_ckSub (show pos ≤ 2 * 2^k by omega),
      ga_ckSub (show 1 ≤ 2 * 2^k - pos by omega), ga_ok_bind, Nat.shiftRight_eq_div_pow, Nat.pow_one,
      ga_reverse_bits_u64_eq _ k (by omega) hi1, ga_reverse_bits_u64_eq _ k (by omega) hi2,
      ga_ckAdd (show i + 2^k / 2 < 2^64 by omega), ga_ckMul (show pos * 3 < 2^64 by omega),
      ga_ckSub (show 1 ≤ 2 * 2^k by omega), hand]
    have l1 : i < arr.toList.length := by simp [hsz]; omega
    have l2 : i + 2^k / 2 < (arr.toList.set i (brev k ((pos - 1) / 2))).length := by simp [hsz]; omega
    simp only [GenApp.setIdx, if_pos l1, ga_ok_bind, if_pos l2, pure, Except.pure, galoisGenerator, Array.toList_setIfInBounds]
  · simp [ga_bimStep, hsz]
  · exact Nat.mod_lt _ (by omega)
  · show (pos * galoisGenerator) % (2 * 2^k) % 2 = 1
    rw [Nat.mod_mod_of_dvd _ (Dvd.intro _ rfl)]
    simp only [galoisGenerator]; omega

/-- **the `matrix_reps_index_map` loop of `BatchEncoder::new`, generated = `batchIndexMap`**, at `slots = 2^k`, `logn = k`
    (what `get_power_of_two` returns and the `assert!(logn > 0)` admits), `1 ≤ k ≤ 61` -/
theorem ga_be_index_map_eq (k : Nat) (hk1 : 1 ≤ k) (hk : k ≤ 61) :
    be_index_map (2^k) k = .ok (batchIndexMap k).toList := by
  have hn : 2^k ≤ 2^61 := Nat.pow_le_pow_right (by omega) hk
  have hl := ga_forUp_inv ga_ofBim (ga_bimStep k) (fun _ s => s.1.size = 2^k ∧ s.2 < 2 * 2^k ∧ s.2 % 2 = 1)
    (be_index_map_loop1 k (2^k / 2) (2 * 2^k) 3) (2^k / 2) 0 (Array.replicate (2^k) 0, 1)
    ⟨by simp, by have := Nat.two_pow_pos k; omega, rfl⟩
    (fun j s _ h2 hI => ga_be_index_map_loop1 k hk1 hk j (by omega) s hI.1 hI.2.1 hI.2.2)
  have hsh : (2^k <<< 1) % B64 = 2 * 2^k := by
    rw [Nat.shiftLeft_eq, Nat.pow_one, Nat.mul_comm]
    exact Nat.mod_eq_of_lt (by simp only [B64]; omega)
  simp only [be_index_map, Nat.shiftRight_eq_div_pow, Nat.pow_one, hsh, Nat.sub_zero]
  have he : ga_ofBim (Array.replicate (2^k) 0, 1) = (List.replicate (2^k) 0, 1) := by simp [ga_ofBim]
  rw [he] at hl
  rw [hl, ga_ok_bind, ga_batchIndexMap_eq, List.range_eq_range']
  rfl

end HC
