/-
  Second round of phase 4h: `polymod::negacyclic_shift` (src/util/polysmallmod.rs, already REGENERATED into Gen/PolyFns.lean by phase 4b,
  "generated only") = the model's `negacyclicShift` (Model/NTT.lean) — the data rule of `extract_lwe`'s `c1` (reversal with negation is
  the shift by `2N − term`), on the buffer `extract_lwe` passes (`vec![0; n]`).  Helper prefix `gs_`.
-/
import Heathcliff.Gen.PolyFns
import Heathcliff.Model.NTT

namespace HC
open HC.GenP

theorem gs_ok_bind {α β : Type} (a : α) (f : α → R β) : ((Except.ok a : R α) >>= f) = f a := rfl

/-- the model's loop step -/
def gs_step (n shift q : Nat) (a : List Nat) (res : Array Nat) (i : Nat) : Array Nat :=
  res.setIfInBounds ((shift + i) % n) (if a.getD i 0 = 0 ∨ ((shift + i) / n) % 2 = 0 then a.getD i 0 else q - a.getD i 0)

theorem gs_and_bit (raw k : Nat) : (raw &&& 2^k = 0) ↔ (raw / 2^k) % 2 = 0 := by
  have hb := Nat.testBit_eq_decide_div_mod_eq (x := raw) (i := k)
  constructor
  · intro h0
    have ht : (raw &&& 2^k).testBit k = false := by rw [h0]; exact Nat.zero_testBit k
    rw [Nat.testBit_and, Nat.testBit_two_pow_self, Bool.and_true] at ht
    rw [ht] at hb
    have := of_decide_eq_false hb.symm
    omega
  · intro h0
    have ht : raw.testBit k = false := by rw [hb]; exact decide_eq_false (by omega)
    apply Nat.eq_of_testBit_eq
    intro i
    rw [Nat.testBit_and, Nat.zero_testBit]
    by_cases hik : k = i
    · subst hik; rw [ht]; rfl
    · rw [Nat.testBit_two_pow_of_ne hik, Bool.and_false]

theorem gs_idx (a : List Nat) (i : Nat) (h : i < a.length) : GenW.idx a i = .ok (a.getD i 0) := by
  simp [GenW.idx, List.getD_eq_getElem?_getD, h]

theorem gs_loop (a : List Nat) (k shift q : Nat) (hlen : a.length = 2^k) (hq : ∀ i, i < 2^k → a.getD i 0 ≤ q)
    (hsh : shift + 2^k < 2^64) : ∀ (fuel i : Nat) (res : Array Nat), i + fuel = 2^k → res.size = 2^k →
    poly_negacyclic_shift_loop1 a (2^k) (2^k - 1) q fuel i res.toList (shift + i)
      = .ok ((List.range' i fuel).foldl (gs_step (2^k) shift q a) res).toList := by
  intro fuel
  induction fuel with
  | zero => intro i res _ _; rfl
  | succ fuel ih =>
    intro i res hi hs
    have h2 : 0 < 2^k := Nat.two_pow_pos k
    have hlt : (shift + i) % 2^k < res.toList.length := by rw [Array.length_toList, hs]; exact Nat.mod_lt _ h2
    have hlt' : (shift + i) % 2^k < res.size := by rw [hs]; exact Nat.mod_lt _ h2
    have hadd : ckAdd (shift + i) 1 = .ok (shift + (i + 1)) := by
      have : shift + i + 1 < B64 := by simp only [B64]; omega
      unfold ckAdd
      rw [if_pos this, Nat.add_assoc]
    rw [List.range'_succ, List.foldl_cons]
    have hstep : ∀ v, GenW.setIdx res.toList ((shift + i) % 2^k) v = .ok (res.setIfInBounds ((shift + i) % 2^k) v).toList := by
      intro v; simp [GenW.setIdx, hlt', Array.toList_setIfInBounds]
    simp only [poly_negacyclic_shift_loop1, gs_idx a i (by omega), gs_ok_bind, Nat.and_two_pow_sub_one_eq_mod, gs_and_bit]
    by_cases hc : a.getD i 0 = 0 ∨ ((shift + i) / 2^k) % 2 = 0
    · simp only [if_pos hc, hstep, gs_ok_bind, bind_pure_comp, hadd]
      have := ih (i + 1) (gs_step (2^k) shift q a res i) (by omega) (by simp [gs_step, hs])
      simp only [gs_step, if_pos hc] at this ⊢
      simpa [bind, Except.bind, Functor.map, Except.map] using this
    · have hsub : ckSub q (a.getD i 0) = .ok (q - a.getD i 0) := by
        have := hq i (by omega)
        unfold ckSub
        rw [if_pos this]
      simp only [if_neg hc, hsub, hstep, gs_ok_bind, bind_pure_comp, hadd]
      have := ih (i + 1) (gs_step (2^k) shift q a res i) (by omega) (by simp [gs_step, hs])
      simp only [gs_step, if_neg hc] at this ⊢
      simpa [bind, Except.bind, Functor.map, Except.map] using this

/-- **`negacyclic_shift`, generated = model** for a non-zero shift, on a power-of-two length, reduced coefficients (`modulus_value - c` is a
    checked subtraction), a result buffer of zeros (what `extract_lwe` passes: `vec![0; n]`), `shift + n < 2^64` (`index_raw += 1` is checked) -/
theorem gs_negacyclic_shift_eq (a : List Nat) (k shift : Nat) (m : Modulus) (hlen : a.length = 2^k) (hsh0 : shift ≠ 0)
    (hq : ∀ i, i < 2^k → a.getD i 0 ≤ m.value) (hsh : shift + 2^k < 2^64) :
    poly_negacyclic_shift a shift m (List.replicate (2^k) 0) = .ok (negacyclicShift a.toArray shift m).toList := by
  have h2 : 0 < 2^k := Nat.two_pow_pos k
  have hsub : ckSub (2^k) 1 = .ok (2^k - 1) := by unfold ckSub; rw [if_pos (by omega)]
  have hl := gs_loop a k shift m.value hlen hq hsh (2^k) 0 (Array.replicate (2^k) 0) (by omega) (by simp)
  simp only [Array.toList_replicate, Nat.add_zero] at hl
  simp only [poly_negacyclic_shift, if_neg hsh0, List.length_replicate, hsub, gs_ok_bind, hl, negacyclicShift, List.size_toArray, hlen,
    List.range_eq_range']
  have hf : gs_step (2^k) shift m.value a = (fun (res : Array Nat) i => res.setIfInBounds ((shift + i) % 2^k)
      (if a.toArray.getD i 0 = 0 ∨ (shift + i) / 2^k % 2 = 0 then a.toArray.getD i 0 else m.value - a.toArray.getD i 0)) := by
    funext res i; simp [gs_step]
  rw [hf]

end HC
