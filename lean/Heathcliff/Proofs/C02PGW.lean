/- C02 (task P): non-vacuity of `hom_program_bgv_levelled` on a two-level chain built by the driver's own constructor `Drv.Sch.mkLevel`
   (N = 4, t = 17; chain index 1: q = {97, 113, 193}, Q = 2115473; chain index 0: q = {97, 113}, Q' = 10961; secret (1, −1, 0, 1), ‖s‖₁ = 3):
   two fresh ciphertexts at the top level, the program  mod_switch(x0·x1) − mod_switch(x0)  (2×2 product of size 3, two modulus switches,
   mixed-size subtraction at the lower level; the result has correction factor 193^{-1} mod 17 = 3).  All hypotheses discharged. -/
import Heathcliff.Proofs.C02PG
import Heathcliff.Proofs.C01LW
import Heathcliff.Proofs.NonVac
import Heathcliff.Proofs.C02PW
namespace HC
open Finset
attribute [local instance] nv_decModulus nv_decNTTTables
set_option maxRecDepth 8000

def c02p_wL2 : Level := c01w_lv .bgv [97, 113, 193] 17
def c02p_wL1 : Level := c01w_lv .bgv [97, 113] 17
theorem c02p_wL2_mk : Drv.Sch.mkLevel .bgv 4 [97, 113, 193] 17 = .ok c02p_wL2 := c01w_lv_ok _ _ _ (by decide +kernel)
theorem c02p_wL1_mk : Drv.Sch.mkLevel .bgv 4 [97, 113] 17 = .ok c02p_wL1 := c01w_lv_ok _ _ _ (by decide +kernel)

def c02p_wChain (c : Nat) : Level := if c = 0 then c02p_wL1 else c02p_wL2
def c02p_wSk : Array Int := #[1, -1, 0, 1]

theorem c02p_wLevelOK {qs : List Nat} {l : Level} (h : Drv.Sch.mkLevel .bgv 4 qs 17 = .ok l) :
    c02p_LevelOK l ∧ c05u_ToolOK l ∧ c05u_BgvOK l := by
  obtain ⟨a1, a2, a3, a4, a5, _⟩ := mkLevel_ok h
  exact ⟨⟨a1, a2, (a4 (by decide)).1, a5⟩, a3, (a4 (by decide)).2⟩

theorem c02p_wNext : c02p_Next c02p_wL2 c02p_wL1 := by
  refine ⟨⟨by decide +kernel, by decide +kernel, by decide +kernel⟩, by decide +kernel, by decide +kernel⟩

theorem c02p_wChainOK : c02p_ChainOK c02p_wChain 1 := by
  refine ⟨fun c hc => ?_, fun c hc => ?_, fun c h0 hc => ?_, fun c hc => ?_⟩
  · interval_cases c
    · exact (c02p_wLevelOK c02p_wL1_mk).1
    · exact (c02p_wLevelOK c02p_wL2_mk).1
  · interval_cases c
    · exact (c02p_wLevelOK c02p_wL1_mk).2.1
    · exact (c02p_wLevelOK c02p_wL2_mk).2.1
  · have : c = 1 := by omega
    subst this
    exact (c02p_wLevelOK c02p_wL2_mk).2.2
  · have : c = 0 := by omega
    subst this
    exact c02p_wNext

def c02p_wCt0 : Ct := ⟨#[#[#[84, 3, 52, 61], #[84, 77, 42, 110], #[146, 184, 6, 57]],
  #[#[56, 44, 96, 18], #[3, 70, 19, 41], #[104, 28, 181, 93]]], true, 1⟩
def c02p_wCt1 : Ct := ⟨#[#[#[18, 74, 10, 33], #[5, 109, 48, 85], #[176, 84, 161, 0]],
  #[#[19, 55, 21, 71], #[104, 16, 38, 89], #[87, 31, 188, 54]]], true, 1⟩
def c02p_wCts (i : Nat) : Nat × Ct := (1, if i = 0 then c02p_wCt0 else c02p_wCt1)
def c02p_wProg : LProg := .sub (.modSwitch (.mul (.inp 0) (.inp 1))) (.modSwitch (.inp 0))

theorem c02p_wFacts : c02p_wL2.n = 4 ∧ c02p_wL2.t.value = 17 ∧ c02p_wL2.scheme = .bgv := by
  obtain ⟨_, _, _, _, a5, a6, _, _, a9⟩ := mkLevel_ok c02p_wL2_mk
  exact ⟨a6, a9, a5⟩

theorem c02p_wGood (i : Nat) : c02p_Good c02p_wL2 (c02p_wCts i).2 := by
  have hc : ∀ p ∈ [c02p_wCt0.polys.getD 0 #[], c02p_wCt0.polys.getD 1 #[], c02p_wCt1.polys.getD 0 #[], c02p_wCt1.polys.getD 1 #[]],
      RnsCanon c02p_wL2 p := by
    intro p hp
    simp only [List.mem_cons, List.mem_nil_iff, or_false] at hp
    rcases hp with rfl | rfl | rfl | rfl <;> (unfold RnsCanon; decide +kernel)
  have hcf : c02v_cfOk c02p_wL2 1 := by
    unfold c02v_cfOk
    rw [c02p_wFacts.2.2]
    simp only
    rw [c02p_wFacts.2.1]
    decide
  have hun : Nat.Coprime 1 c02p_wL2.t.value := Nat.coprime_one_left _
  unfold c02p_wCts
  dsimp only
  split
  · refine ⟨⟨⟨Nat.le_refl 2, (by decide : 2 ≤ 16), fun k hk => ?_⟩, hcf⟩, rfl, hun⟩
    have hk' : k < 2 := hk
    interval_cases k
    · exact hc _ (by simp)
    · exact hc _ (by simp)
  · refine ⟨⟨⟨Nat.le_refl 2, (by decide : 2 ≤ 16), fun k hk => ?_⟩, hcf⟩, rfl, hun⟩
    have hk' : k < 2 := hk
    interval_cases k
    · exact hc _ (by simp)
    · exact hc _ (by simp)

theorem c02p_wPhase : ∀ i, i < 2 → ∀ j, j < 4 →
    c02p_ph c02p_wL2 c02p_wSk (c02p_wCts i).2 j = ((c02p_wCts i).2.cf : Int) * c02p_exM i j + 17 * c02p_exE i j := by decide +kernel

theorem c02p_wEnc (i : Nat) (hi : i < 2) : c02p_Enc c02p_wL2 c02p_wSk (c02p_wCts i).2 (c02p_exM i) 20 := by
  have h := c02p_enc_of_fresh (sk := c02p_wSk) (c02p_wGood i) (c02p_exM i) (c02p_exE i) 3 1
    (fun j hj => by rw [c02p_wFacts.1] at hj; rw [c02p_wFacts.2.1]; exact c02p_wPhase i hi j hj)
    (fun j hj => by rw [c02p_wFacts.1] at hj; revert i j; decide)
    (fun j hj => by rw [c02p_wFacts.1] at hj; revert i j; decide)
  have hcf : (c02p_wCts i).2.cf = 1 := by interval_cases i <;> rfl
  rw [hcf, c02p_wFacts.2.1] at h
  exact h

/-- the value the model returns: chain index 0 (after the switches), a size-3 ciphertext with correction factor 3 -/
def c02p_wR : Nat × Ct := (c02p_wProg.eval c02p_wChain default #[] c02p_wCts (fun _ => (0, #[]))).toOption.getD default
theorem c02p_wEval : c02p_wProg.eval c02p_wChain default #[] c02p_wCts (fun _ => (0, #[])) = .ok c02p_wR := nv_ok_of_isOk default (by decide +kernel)
theorem c02p_wR_val : (c02p_wR.1, c02p_wR.2.polys.size, c02p_wR.2.cf) = (0, 3, 3) := by decide +kernel

/-- the a-priori bookkeeping: 4·20·20 / 193 + 17·(1 + 3 + 9) = 229 for the switched product, 20 / 193 + 17·(1 + 3) = 68 for the switched
    input, sum 297, and 2·297 < Q' = 10961 -/
theorem c02p_wUB : c02p_wProg.noiseUB c02p_wChain default 0 0 3 (fun _ => (1, 1, 2, 20)) (fun _ => (0, 0)) = some (0, 3, 3, 297) := by decide +kernel

/-- NON-VACUITY of the levelled theorem -/
theorem hom_program_bgv_levelled_example :
    bgvDecrypt (c02p_wChain c02p_wR.1) c02p_wSk c02p_wR.2 =
      .ok (Spec.trim (Array.ofFn (n := (c02p_wChain c02p_wR.1).n) fun j =>
        Spec.imod (c02p_wProg.shadow (c02p_wChain 1).n c02p_exM (fun _ _ => 0) j.val) (c02p_wChain c02p_wR.1).t.value)) :=
  hom_program_bgv_levelled c02p_wChainOK (sk := c02p_wSk) (by rw [show c02p_wChain 1 = c02p_wL2 from rfl, c02p_wFacts.1]; rfl)
    (S := 3) (by rw [show c02p_wChain 1 = c02p_wL2 from rfl, c02p_wFacts.1]; decide)
    default #[] (fun _ _ => 0) (fun _ => 0) 0 0
    c02p_wCts (fun _ => (0, #[])) c02p_exM (fun _ _ => 0) (fun _ => (1, 1, 2, 20)) (fun _ => (0, 0)) c02p_wProg
    (fun hu => by simp [c02p_wProg, LProg.usesRelin] at hu)
    (fun i hi => by
      have hi2 : i < 2 := by
        simp [c02p_wProg, LProg.ctInputs] at hi
        omega
      refine ⟨Nat.le_refl 1, c02p_wEnc i hi2, ?_⟩
      interval_cases i <;> rfl)
    (fun k hk => by simp [c02p_wProg, LProg.plInputs] at hk)
    (lv := c02p_wR.1) (r := c02p_wR.2) c02p_wEval (st := (0, 3, 3)) c02p_wUB (by decide +kernel)

/-- … evaluated: (m0·m1 − m0) mod (X^4 + 1, 17) = (0, 3, 14, 0), trimmed -/
theorem hom_program_bgv_levelled_example_val :
    (bgvDecrypt (c02p_wChain c02p_wR.1) c02p_wSk c02p_wR.2).toOption = some #[0, 3, 14] := by decide +kernel

end HC
