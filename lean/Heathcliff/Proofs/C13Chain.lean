/- C13 helper proofs: structure of the modulus-switching chain built by `Context.new`. -/
import Heathcliff.Model.Context
import Mathlib.Tactic.Linarith
import Mathlib.Data.List.Basic
namespace HC.Ctx
open HC

def dropLastP (p : Params) : Params := { p with q := p.q.dropLast }

namespace Chain

theorem bind_ok {α β : Type} {x : R α} {f : α → R β} {b : β} (h : x >>= f = .ok b) :
    ∃ a, x = .ok a ∧ f a = .ok b := by
  cases x with
  | error e => simp [bind, Except.bind] at h
  | ok a => exact ⟨a, rfl, h⟩

theorem validateBfv_parms {isPrime : Nat → Bool} {c c' : ContextData} {kp Q : Nat} {ok : Bool}
    (h : validateBfv isPrime c kp Q = .ok (c', ok)) : c'.parms = c.parms := by
  simp only [validateBfv] at h
  split_ifs at h
  all_goals first
    | (cases h; rfl)
    | (obtain ⟨a, _, h⟩ := bind_ok h
       obtain ⟨b, _, h⟩ := bind_ok h
       cases h; rfl)

theorem validateCkks_parms {c c' : ContextData} {Q : Nat} {ok : Bool}
    (h : validateCkks c Q = .ok (c', ok)) : c'.parms = c.parms := by
  simp only [validateCkks] at h
  split_ifs at h
  all_goals first
    | (cases h; rfl)
    | (obtain ⟨a, _, h⟩ := bind_ok h
       cases h; rfl)

theorem schemeStep_parms {isPrime : Nat → Bool} {p : Params} {kp Q : Nat} {c : ContextData}
    {r : ContextData × Bool} (h : schemeStep isPrime p kp Q c = .ok r) : r.1.parms = c.parms := by
  obtain ⟨c1, ok⟩ := r
  unfold schemeStep at h
  split at h
  · exact (validateBfv_parms h :)
  · exact (validateBfv_parms h :)
  · exact (validateCkks_parms h :)
  · cases h; rfl

theorem validateTail_parms {isPrime : Nat → Bool} {p : Params} {kp Q : Nat} {c c' : ContextData}
    (h : validateTail isPrime p kp Q c = .ok c') : c'.parms = c.parms := by
  unfold validateTail at h
  obtain ⟨b, _, h⟩ := bind_ok h
  split_ifs at h
  · cases h; rfl
  · cases h; rfl
  · obtain ⟨r, h1, h⟩ := bind_ok h
    have hc1 := schemeStep_parms h1
    split_ifs at h
    · cases h; exact hc1
    · obtain ⟨b2, _, h⟩ := bind_ok h
      split_ifs at h <;> (cases h; exact hc1)

end Chain
open Chain

/-- `validate` stores the parameter object it was given -/
theorem validate_parms {isPrime : Nat → Bool} {p : Params} {sec : SecLevel} {c : ContextData}
    (h : validate isPrime p sec = .ok c) : c.parms = p := by
  unfold validate at h
  extract_lets k at h
  split_ifs at h
  all_goals try (cases h; rfl)
  all_goals split at h
  all_goals first
    | (cases h; rfl)
    | exact validateTail_parms h

namespace Chain

theorem setCoeff_ok {p p' : Params} {q : List Nat} (h : p.setCoeff q = .ok p') :
    p' = { p with q := q } ∧ 1 ≤ q.length := by
  unfold Params.setCoeff at h
  split_ifs at h with h1 h2 h3
  cases h
  refine ⟨rfl, ?_⟩
  simp only [Gen.HE_COEFF_MOD_COUNT_MIN] at h3
  omega

theorem createNext_ok {isPrime : Nat → Bool} {prev : Params} {sec : SecLevel} {o : Option ContextData}
    (h : createNext isPrime prev sec = .ok o) :
    1 < prev.q.length ∧ ∃ c, validate isPrime (dropLastP prev) sec = .ok c ∧ o = if c.valid then some c else none := by
  unfold createNext at h
  obtain ⟨next, h1, h⟩ := bind_ok h
  obtain ⟨rfl, hl⟩ := setCoeff_ok h1
  obtain ⟨c, h2, h⟩ := bind_ok h
  rw [List.length_dropLast] at hl
  refine ⟨by omega, c, h2, ?_⟩
  split_ifs at h ⊢ <;> (cases h; rfl)

end Chain
open Chain

/-- a level produced by `createNext` is the validated, valid parameter set with the last modulus dropped -/
theorem createNext_some {isPrime : Nat → Bool} {prev : Params} {sec : SecLevel} {c : ContextData}
    (h : createNext isPrime prev sec = .ok (some c)) :
    c.parms = dropLastP prev ∧ c.valid = true ∧ validate isPrime (dropLastP prev) sec = .ok c := by
  obtain ⟨_, c', hv, ho⟩ := createNext_ok h
  split_ifs at ho with hval
  cases ho
  exact ⟨validate_parms hv, hval, hv⟩

theorem createNext_none {isPrime : Nat → Bool} {prev : Params} {sec : SecLevel}
    (h : createNext isPrime prev sec = .ok none) :
    ∃ c, validate isPrime (dropLastP prev) sec = .ok c ∧ c.valid = false := by
  obtain ⟨_, c', hv, ho⟩ := createNext_ok h
  split_ifs at ho with hval
  exact ⟨c', hv, by simpa using hval⟩

/-- relation between consecutive levels -/
def Step (isPrime : Nat → Bool) (sec : SecLevel) (c d : ContextData) : Prop :=
  c.parms.q.length > 1 ∧ d.parms = dropLastP c.parms ∧ d.valid = true ∧ validate isPrime d.parms sec = .ok d

namespace Chain

inductive Desc (isPrime : Nat → Bool) (sec : SecLevel) (m : Prop) : Params → List ContextData → Prop
  | nil (prev : Params) :
      (m → prev.q.length ≤ 1 ∨ createNext isPrime prev sec = .ok none) → Desc isPrime sec m prev []
  | cons (prev : Params) (c : ContextData) (rest : List ContextData) :
      createNext isPrime prev sec = .ok (some c) → Desc isPrime sec m c.parms rest →
      Desc isPrime sec m prev (c :: rest)

theorem expandFrom_desc {isPrime : Nat → Bool} {sec : SecLevel} (m : Prop) :
    ∀ (fuel : Nat) (prev : Params) (l : List ContextData),
      expandFrom isPrime sec fuel prev = .ok l → (m → prev.q.length ≤ fuel) → Desc isPrime sec m prev l := by
  intro fuel
  induction fuel with
  | zero =>
    intro prev l h hm
    unfold expandFrom at h
    cases h
    exact .nil _ (fun hm' => Or.inl (by have := hm hm'; omega))
  | succ fuel ih =>
    intro prev l h hm
    unfold expandFrom at h
    split_ifs at h with hlen
    · obtain ⟨o, ho, h⟩ := bind_ok h
      cases o with
      | none =>
        cases h
        exact .nil _ (fun _ => Or.inr ho)
      | some c =>
        obtain ⟨rest, hr, h⟩ := bind_ok h
        cases h
        refine .cons _ _ _ ho (ih _ _ hr ?_)
        intro hm'
        have := hm hm'
        rw [(createNext_some ho).1]
        simp only [dropLastP, List.length_dropLast]
        omega
    · cases h
      exact .nil _ (fun _ => Or.inl (by omega))

theorem desc_step {isPrime : Nat → Bool} {sec : SecLevel} {m : Prop} {prev : Params} {l : List ContextData}
    (hd : Desc isPrime sec m prev l) :
    ∀ cPrev : ContextData, cPrev.parms = prev → ∀ (i : Nat) (c d : ContextData),
      (cPrev :: l)[i]? = some c → (cPrev :: l)[i+1]? = some d → Step isPrime sec c d := by
  induction hd with
  | nil prev _ =>
    intro cPrev _ i c d _ h2
    simp at h2
  | cons prev c' rest hcn _ ih =>
    intro cPrev hp i c d h1 h2
    cases i with
    | zero =>
      simp only [List.getElem?_cons_zero, Option.some.injEq, zero_add, List.getElem?_cons_succ] at h1 h2
      subst h1; subst h2
      obtain ⟨e1, e2, e3⟩ := createNext_some hcn
      refine ⟨?_, ?_, e2, ?_⟩
      · rw [hp]; exact (createNext_ok hcn).1
      · rw [hp]; exact e1
      · rw [e1]; exact e3
    | succ i =>
      simp only [List.getElem?_cons_succ] at h1 h2
      exact ih c' rfl i c d h1 (by simpa using h2)

theorem desc_prefix {isPrime : Nat → Bool} {sec : SecLevel} {m : Prop} {prev : Params} {l : List ContextData}
    (hd : Desc isPrime sec m prev l) :
    ∀ (j : Nat) (d : ContextData), l[j]? = some d →
      d.parms = { prev with q := prev.q.take (prev.q.length - (j+1)) } ∧ j + 1 < prev.q.length := by
  induction hd with
  | nil prev _ =>
    intro j d h
    simp at h
  | cons prev c' rest hcn _ ih =>
    intro j d h
    obtain ⟨e1, _, _⟩ := createNext_some hcn
    have hl := (createNext_ok hcn).1
    cases j with
    | zero =>
      simp only [List.getElem?_cons_zero, Option.some.injEq] at h
      subst h
      refine ⟨?_, by omega⟩
      rw [e1, dropLastP, List.dropLast_eq_take]
    | succ j =>
      simp only [List.getElem?_cons_succ] at h
      obtain ⟨h1, h2⟩ := ih j d h
      rw [e1] at h1 h2
      simp only [dropLastP, List.length_dropLast] at h1 h2
      refine ⟨?_, by omega⟩
      rw [h1, List.dropLast_eq_take, List.take_take]
      congr 2
      omega

theorem desc_last {isPrime : Nat → Bool} {sec : SecLevel} {m : Prop} {prev : Params} {l : List ContextData}
    (hd : Desc isPrime sec m prev l) (hm : m) :
    ∀ cPrev : ContextData, cPrev.parms = prev → ∀ last : ContextData,
      (cPrev :: l)[l.length]? = some last →
      last.parms.q.length ≤ 1 ∨ createNext isPrime last.parms sec = .ok none := by
  induction hd with
  | nil prev hn =>
    intro cPrev hp last h
    simp only [List.length_nil, List.getElem?_cons_zero, Option.some.injEq] at h
    subst h
    rw [hp]; exact hn hm
  | cons prev c' rest hcn _ ih =>
    intro cPrev hp last h
    simp only [List.length_cons, List.getElem?_cons_succ] at h
    exact ih c' rfl last h

theorem new_shape {isPrime : Nat → Bool} {p : Params} {expand : Bool} {sec : SecLevel} {x : Context}
    (h : Context.new isPrime p expand sec = .ok x) :
    ∃ key first? rest, validate isPrime p sec = .ok key ∧
      (first? = none ∧ (key.valid = false ∨ p.q.length = 1 ∨ p.special = true) ∨
        (key.valid = true ∧ p.q.length ≠ 1 ∧ p.special = false ∧ createNext isPrime p sec = .ok first?)) ∧
      (rest = [] ∧ (expand = false ∨ (first?.getD key).valid = false) ∨
        (expand = true ∧ (first?.getD key).valid = true ∧
          expandFrom isPrime sec (first?.getD key).parms.q.length (first?.getD key).parms = .ok rest)) ∧
      x = { levels := key :: (first?.toList ++ rest), firstIdx := if first?.isSome then 1 else 0,
            usingKeyswitching := first?.isSome, sec := sec } := by
  unfold Context.new at h
  obtain ⟨key, hk, h⟩ := bind_ok h
  extract_lets jp at h
  have hjp : ∀ first?, jp first? = .ok x → ∃ rest,
      (rest = [] ∧ (expand = false ∨ (first?.getD key).valid = false) ∨
        (expand = true ∧ (first?.getD key).valid = true ∧
          expandFrom isPrime sec (first?.getD key).parms.q.length (first?.getD key).parms = .ok rest)) ∧
      x = { levels := key :: (first?.toList ++ rest), firstIdx := if first?.isSome then 1 else 0,
            usingKeyswitching := first?.isSome, sec := sec } := by
    intro first? hj
    simp only [jp] at hj
    by_cases hc : (expand && (first?.getD key).valid) = true
    · rw [if_pos hc] at hj
      obtain ⟨rest, hr, hj⟩ := bind_ok hj
      cases hj
      simp only [Bool.and_eq_true] at hc
      exact ⟨rest, Or.inr ⟨hc.1, hc.2, hr⟩, rfl⟩
    · rw [if_neg hc] at hj
      obtain ⟨rest, hr, hj⟩ := bind_ok hj
      cases hj; cases hr
      refine ⟨[], Or.inl ⟨rfl, ?_⟩, rfl⟩
      simp only [Bool.and_eq_true, not_and, Bool.not_eq_true] at hc
      cases expand
      · exact Or.inl rfl
      · exact Or.inr (hc rfl)
  clear_value jp
  split_ifs at h with hc
  · obtain ⟨first?, hf, h⟩ := bind_ok h
    cases hf
    obtain ⟨rest, h1, h2⟩ := hjp _ h
    refine ⟨key, none, rest, hk, Or.inl ⟨rfl, ?_⟩, h1, h2⟩
    simpa [or_assoc] using hc
  · obtain ⟨first?, hf, h⟩ := bind_ok h
    obtain ⟨rest, h1, h2⟩ := hjp _ h
    refine ⟨key, first?, rest, hk, Or.inr ?_, h1, h2⟩
    simp only [Bool.or_eq_true, Bool.not_eq_eq_eq_not, Bool.not_true, beq_iff_eq, not_or, Bool.not_eq_true,
      Bool.not_eq_false] at hc
    exact ⟨hc.1.1, hc.1.2, hc.2, hf⟩

theorem new_shape2 {isPrime : Nat → Bool} {p : Params} {expand : Bool} {sec : SecLevel} {x : Context}
    (h : Context.new isPrime p expand sec = .ok x) :
    ∃ key tl, validate isPrime p sec = .ok key ∧ key.parms = p ∧ x.levels = key :: tl ∧
      Desc isPrime sec (expand = true ∧ key.valid = true) p tl ∧ (tl ≠ [] → key.valid = true) ∧
      (expand = false → tl.length ≤ 1) := by
  obtain ⟨key, first?, rest, hk, hf, hr, rfl⟩ := new_shape h
  have hkp := validate_parms hk
  have hv : (first?.getD key).valid = key.valid := by
    rcases hf with ⟨rfl, _⟩ | ⟨h1, _, _, h4⟩
    · rfl
    · cases first? with
      | none => rfl
      | some f => simp only [Option.getD_some]; rw [h1]; exact (createNext_some h4).2.1
  rw [hv] at hr
  have hd : Desc isPrime sec (expand = true ∧ key.valid = true) (first?.getD key).parms rest := by
    rcases hr with ⟨rfl, h1⟩ | ⟨_, _, h3⟩
    · refine .nil _ (fun hm => ?_)
      rcases h1 with h1 | h1
      · rw [hm.1] at h1; cases h1
      · rw [hm.2] at h1; cases h1
    · exact expandFrom_desc _ _ _ _ h3 (fun _ => le_refl _)
  refine ⟨key, first?.toList ++ rest, hk, hkp, rfl, ?_, ?_, ?_⟩
  · cases first? with
    | none => simpa [hkp] using hd
    | some f =>
      rcases hf with ⟨h0, _⟩ | ⟨_, _, _, h4⟩
      · cases h0
      · exact .cons _ _ _ h4 hd
  · intro hne
    rcases hf with ⟨rfl, _⟩ | ⟨h1, _⟩
    · rcases hr with ⟨rfl, _⟩ | ⟨_, h2, _⟩
      · simp at hne
      · exact h2
    · exact h1
  · intro he
    rcases hr with ⟨rfl, _⟩ | ⟨h1, _⟩
    · cases first? <;> simp
    · rw [he] at h1; cases h1

end Chain
open Chain

/-- the key level is `validate` of the user's parameters -/
theorem chain_key {isPrime : Nat → Bool} {p : Params} {expand : Bool} {sec : SecLevel} {x : Context}
    (h : Context.new isPrime p expand sec = .ok x) :
    ∃ key rest, x.levels = key :: rest ∧ key.parms = p ∧ validate isPrime p sec = .ok key ∧
      (rest ≠ [] → key.valid = true) := by
  obtain ⟨key, tl, h1, h2, h3, _, h5, _⟩ := new_shape2 h
  exact ⟨key, tl, h3, h2, h1, h5⟩

/-- consecutive levels: one modulus dropped, everything else unchanged, the lower level valid -/
theorem chain_step {isPrime : Nat → Bool} {p : Params} {expand : Bool} {sec : SecLevel} {x : Context}
    (h : Context.new isPrime p expand sec = .ok x) :
    ∀ (i : Nat) (c d : ContextData), x.levels[i]? = some c → x.levels[i+1]? = some d → Step isPrime sec c d := by
  obtain ⟨key, tl, h1, h2, h3, h4, h5, _⟩ := new_shape2 h
  rw [h3]
  exact desc_step h4 key h2

/-- every level's moduli are the prefix of the key level's moduli that is `i` shorter; the other parameters are unchanged -/
theorem chain_prefix {isPrime : Nat → Bool} {p : Params} {expand : Bool} {sec : SecLevel} {x : Context}
    (h : Context.new isPrime p expand sec = .ok x) :
    ∀ (i : Nat) (c : ContextData), x.levels[i]? = some c →
      c.parms = { p with q := p.q.take (p.q.length - i) } ∧ i < p.q.length ∨ (i = 0 ∧ c.parms = p) := by
  obtain ⟨key, tl, h1, h2, h3, h4, h5, _⟩ := new_shape2 h
  rw [h3]
  intro i c hi
  cases i with
  | zero =>
    simp only [List.getElem?_cons_zero, Option.some.injEq] at hi
    subst hi
    exact Or.inr ⟨rfl, h2⟩
  | succ j =>
    simp only [List.getElem?_cons_succ] at hi
    exact Or.inl (desc_prefix h4 j c hi)

/-- `chain_index` decreases by one along the chain and ends at 0; the entry points are inside the chain -/
theorem chain_index {isPrime : Nat → Bool} {p : Params} {expand : Bool} {sec : SecLevel} {x : Context}
    (h : Context.new isPrime p expand sec = .ok x) :
    (∀ i, i + 1 < x.levels.length → x.chainIndex (i + 1) + 1 = x.chainIndex i) ∧
    x.chainIndex x.lastIdx = 0 ∧ x.lastIdx < x.levels.length ∧ x.firstIdx < x.levels.length ∧ x.firstIdx ≤ x.lastIdx := by
  obtain ⟨key, first?, rest, hk, hf, hr, rfl⟩ := new_shape h
  simp only [Context.chainIndex, Context.lastIdx, List.length_cons, List.length_append]
  cases first? with
  | none => simp; intro i hi; omega
  | some f => simp; intro i hi; omega

/-- first = key exactly when the key level is invalid, or there is a single modulus, or the special-prime flag is set,
    or the parameters without the last modulus are invalid; `using_keyswitching` says the same -/
theorem chain_entry {isPrime : Nat → Bool} {p : Params} {expand : Bool} {sec : SecLevel} {x : Context}
    (h : Context.new isPrime p expand sec = .ok x) :
    (x.firstIdx = 0 ∨ x.firstIdx = 1) ∧ (x.usingKeyswitching = true ↔ x.firstIdx = 1) ∧
    (x.firstIdx = 0 ↔
      (∃ key, validate isPrime p sec = .ok key ∧ key.valid = false) ∨ p.q.length = 1 ∨ p.special = true ∨
      (∃ c, validate isPrime (dropLastP p) sec = .ok c ∧ c.valid = false)) := by
  obtain ⟨key, first?, rest, hk, hf, hr, rfl⟩ := new_shape h
  cases first? with
  | none =>
    refine ⟨Or.inl rfl, by simp, ?_⟩
    simp only [Option.isSome_none, Bool.false_eq_true, if_false, true_iff]
    rcases hf with ⟨_, h1 | h1 | h1⟩ | ⟨_, _, _, h4⟩
    · exact Or.inl ⟨key, hk, h1⟩
    · exact Or.inr (Or.inl h1)
    · exact Or.inr (Or.inr (Or.inl h1))
    · exact Or.inr (Or.inr (Or.inr (createNext_none h4)))
  | some f =>
    refine ⟨Or.inr rfl, by simp, ?_⟩
    simp only [Option.isSome_some, if_true, one_ne_zero, false_iff]
    rcases hf with ⟨h0, _⟩ | ⟨h1, h2, h3, h4⟩
    · cases h0
    · obtain ⟨_, e2, e3⟩ := createNext_some h4
      rintro (⟨key', hk', hv'⟩ | hl | hs | ⟨c, hc, hcv⟩)
      · rw [hk] at hk'; cases hk'; rw [h1] at hv'; cases hv'
      · exact h2 hl
      · rw [h3] at hs; cases hs
      · rw [e3] at hc; cases hc; rw [e2] at hcv; cases hcv

/-- with chain expansion the chain only stops at a single modulus or in front of an invalid parameter set;
    without it there is at most one level below the key level -/
theorem chain_maximal {isPrime : Nat → Bool} {p : Params} {expand : Bool} {sec : SecLevel} {x : Context}
    (h : Context.new isPrime p expand sec = .ok x) :
    (expand = true → ∀ last, x.levels[x.lastIdx]? = some last → last.valid = true →
        last.parms.q.length ≤ 1 ∨ ∃ c, validate isPrime (dropLastP last.parms) sec = .ok c ∧ c.valid = false) ∧
    (expand = false → x.levels.length ≤ 2) := by
  obtain ⟨key, tl, h1, h2, h3, h4, h5, h6⟩ := new_shape2 h
  constructor
  · intro he last hl hv
    simp only [Context.lastIdx, h3, List.length_cons, Nat.add_sub_cancel] at hl
    have hkv : key.valid = true := by
      by_cases hne : tl = []
      · subst hne
        simp only [List.length_nil, List.getElem?_cons_zero, Option.some.injEq] at hl
        rw [hl]; exact hv
      · exact h5 hne
    rcases desc_last h4 ⟨he, hkv⟩ key h2 last hl with h | h
    · exact Or.inl h
    · exact Or.inr (createNext_none h)
  · intro he
    have := h6 he
    rw [h3, List.length_cons]
    omega

end HC.Ctx
