/- C19 part K: LWE field trace and PackLWEs with the key-switch noise made explicit.

   C19 (Proofs/C19.lean, Props/C19.lean) proves the coefficient placement of the phase-level programs `fieldTracePoly` / `packPoly`
   treating every automorphism as exact.  Here the automorphisms are the MODEL's key-switched `applyGalois` (C04K:
   `applyGalois_phase_sigma(_bgv)`), every application contributing one integer noise polynomial ν.
   Helper names carry the prefix `c19k_`; user-facing theorems are at the end under "Property theorems". -/
import Heathcliff.Proofs.C19
import Heathcliff.Proofs.C04K
import Heathcliff.Proofs.C02V
import Mathlib.Tactic.Ring
import Mathlib.Tactic.Linarith
namespace HC
open Finset

/-! ## σ_g on arrays (`sigmaPoly`, the phase-level program of Model/Lwe.lean) = σ_g on coefficient functions (`c04k_sigma`) -/

section sigma
variable {R : Type} [CommRing R]

/-- `sigmaPoly` writes ±a_i at index i·g mod N (odd g, N = 2^k) -/
theorem c19k_sigmaPoly_written (k g : Nat) (hg : g % 2 = 1) (a : Array R) (i : Nat) (hi : i < 2^k) :
    (sigmaPoly (2^k) a g).getD (i * g % 2^k) 0 = if (i * g / 2^k) % 2 = 1 then - a.getD i 0 else a.getD i 0 := by
  rw [c19_sigmaPoly_eq]
  exact c19_sigmaLoop_written (2^k) (Nat.two_pow_pos _) a g (2^k)
    (fun i hi j hj h => odd_mul_injective hg hi hj h) i hi

theorem c19k_sigmaPoly_getD (k g : Nat) (hg : g % 2 = 1) (a : Array R) (c : Nat) (hc : c < 2^k) :
    (sigmaPoly (2^k) a g).getD c 0 = c04k_sigma (2^k) g (fun i => a.getD i 0) c :=
  (c04k_sigma_of_perm hg (fun i => a.getD i 0) (fun c => (sigmaPoly (2^k) a g).getD c 0)
    (fun i hi => c19k_sigmaPoly_written k g hg a i hi) c hc).symm

/-- every output coefficient of σ_g is ± one input coefficient, position and sign independent of the input -/
theorem c19k_sigmaPoly_perm (k g : Nat) (hg : g % 2 = 1) (c : Nat) (hc : c < 2^k) :
    ∃ i, i < 2^k ∧ ∃ neg : Bool, ∀ a : Array R,
      (sigmaPoly (2^k) a g).getD c 0 = if neg then - a.getD i 0 else a.getD i 0 := by
  have hc' : c ∈ range (2^k) := mem_range.mpr hc
  rw [← c04m_image_eq (k := k) hg, Finset.mem_image] at hc'
  obtain ⟨i, hi, rfl⟩ := hc'
  refine ⟨i, mem_range.mp hi, decide ((i * g / 2^k) % 2 = 1), fun a => ?_⟩
  rw [c19k_sigmaPoly_written k g hg a i (mem_range.mp hi)]
  by_cases h : (i * g / 2^k) % 2 = 1 <;> simp [h]

end sigma

/-- σ_g preserves coefficient-wise congruence -/
theorem c19k_sigma_modEq (k g : Nat) (hg : g % 2 = 1) (q : Int) (a b : Array Int)
    (h : ∀ i, i < 2^k → a.getD i 0 ≡ b.getD i 0 [ZMOD q]) (c : Nat) (hc : c < 2^k) :
    (sigmaPoly (2^k) a g).getD c 0 ≡ (sigmaPoly (2^k) b g).getD c 0 [ZMOD q] := by
  obtain ⟨i, hi, neg, hperm⟩ := c19k_sigmaPoly_perm (R := Int) k g hg c hc
  rw [hperm a, hperm b]
  cases neg with
  | true => simpa using (h i hi).neg
  | false => simpa using h i hi

/-- σ_g of coefficient-wise equal arrays -/
theorem c19k_sigma_congr (k g : Nat) (hg : g % 2 = 1) (a b : Array Int)
    (h : ∀ i, i < 2^k → a.getD i 0 = b.getD i 0) (c : Nat) (hc : c < 2^k) :
    (sigmaPoly (2^k) a g).getD c 0 = (sigmaPoly (2^k) b g).getD c 0 := by
  obtain ⟨i, hi, neg, hperm⟩ := c19k_sigmaPoly_perm (R := Int) k g hg c hc
  rw [hperm a, hperm b, h i hi]

/-- σ_g preserves the ∞-norm -/
theorem c19k_sigma_abs (k g : Nat) (hg : g % 2 = 1) (a : Array Int) (B : Nat)
    (h : ∀ i, i < 2^k → (a.getD i 0).natAbs ≤ B) (c : Nat) (hc : c < 2^k) :
    ((sigmaPoly (2^k) a g).getD c 0).natAbs ≤ B := by
  obtain ⟨i, hi, neg, hperm⟩ := c19k_sigmaPoly_perm (R := Int) k g hg c hc
  rw [hperm a]
  cases neg with
  | true => simpa using h i hi
  | false => simpa using h i hi

/-- σ_g preserves divisibility of all coefficients -/
theorem c19k_sigma_dvd (k g : Nat) (hg : g % 2 = 1) (a : Array Int) (t : Int)
    (h : ∀ i, i < 2^k → t ∣ a.getD i 0) (c : Nat) (hc : c < 2^k) :
    t ∣ (sigmaPoly (2^k) a g).getD c 0 := by
  obtain ⟨i, hi, neg, hperm⟩ := c19k_sigmaPoly_perm (R := Int) k g hg c hc
  rw [hperm a]
  cases neg with
  | true => simpa using (dvd_neg.mpr (h i hi))
  | false => simpa using h i hi

/-- σ_g is additive -/
theorem c19k_sigma_add (k g : Nat) (hg : g % 2 = 1) (a b : Array Int) (c : Nat) (hc : c < 2^k) :
    (sigmaPoly (2^k) (addPoly (2^k) a b) g).getD c 0 = (sigmaPoly (2^k) a g).getD c 0 + (sigmaPoly (2^k) b g).getD c 0 := by
  obtain ⟨i, hi, neg, hperm⟩ := c19k_sigmaPoly_perm (R := Int) k g hg c hc
  rw [hperm, hperm a, hperm b, c19_addPoly_getD _ _ _ _ hi]
  cases neg with
  | true => simp; ring
  | false => simp

theorem c19k_sigma_sub (k g : Nat) (hg : g % 2 = 1) (a b : Array Int) (c : Nat) (hc : c < 2^k) :
    (sigmaPoly (2^k) (subPoly (2^k) a b) g).getD c 0 = (sigmaPoly (2^k) a g).getD c 0 - (sigmaPoly (2^k) b g).getD c 0 := by
  obtain ⟨i, hi, neg, hperm⟩ := c19k_sigmaPoly_perm (R := Int) k g hg c hc
  rw [hperm, hperm a, hperm b, c19_subPoly_getD _ _ _ _ hi]
  cases neg with
  | true => simp; ring
  | false => simp

/-! ## the noisy field trace: accumulated noise, pure algebra over ℤ -/

/-- the noise accumulated by the first `m` layers of the field trace when layer i contributes the fresh noise `ν i`:
    N_0 = 0,  N_{m+1} = N_m + σ_{2^(k-m)+1}(N_m) + ν_m   (every later layer doubles the earlier noise). -/
def c19k_accNoise (k : Nat) (ν : Nat → Array Int) : Nat → Array Int
  | 0 => Array.replicate (2^k) 0
  | m+1 => addPoly (2^k) (addPoly (2^k) (c19k_accNoise k ν m) (sigmaPoly (2^k) (c19k_accNoise k ν m) (2^(k-m)+1))) (ν m)

theorem c19k_accNoise_congr (k : Nat) (ν ν' : Nat → Array Int) (m : Nat) (h : ∀ i, i < m → ν i = ν' i) :
    c19k_accNoise k ν m = c19k_accNoise k ν' m := by
  induction m with
  | zero => rfl
  | succ m ih =>
    unfold c19k_accNoise
    rw [ih (fun i hi => h i (by omega)), h m (by omega)]

theorem c19k_accNoise_succ_getD (k : Nat) (ν : Nat → Array Int) (m c : Nat) (hc : c < 2^k) :
    (c19k_accNoise k ν (m+1)).getD c 0 =
      (c19k_accNoise k ν m).getD c 0 + (sigmaPoly (2^k) (c19k_accNoise k ν m) (2^(k-m)+1)).getD c 0 + (ν m).getD c 0 := by
  show (addPoly (2^k) (addPoly (2^k) _ _) _).getD c 0 = _
  rw [c19_addPoly_getD _ _ _ _ hc, c19_addPoly_getD _ _ _ _ hc]

theorem c19k_odd_two_pow (m : Nat) (h : 1 ≤ m) : (2^m + 1) % 2 = 1 := by
  obtain ⟨d, hd⟩ : ∃ d, m = d + 1 := ⟨m - 1, by omega⟩
  rw [hd, pow_succ]; omega

theorem c19k_odd_elt (k m : Nat) (h : m + 1 ≤ k) : (2^(k-m)+1) % 2 = 1 := by
  obtain ⟨d, hd⟩ : ∃ d, k - m = d + 1 := ⟨k - m - 1, by omega⟩
  rw [hd, pow_succ]; omega

/-- one layer on congruences: x ≡ T + N and x' ≡ x + σ(x) + ν  ⇒  x' ≡ (T + σ T) + (N + σ N + ν) -/
theorem c19k_trace_step (k g : Nat) (hg : g % 2 = 1) (q : Int) (x T N x' ν : Array Int)
    (h : ∀ c, c < 2^k → x.getD c 0 ≡ T.getD c 0 + N.getD c 0 [ZMOD q])
    (h' : ∀ c, c < 2^k → x'.getD c 0 ≡ (addPoly (2^k) x (sigmaPoly (2^k) x g)).getD c 0 + ν.getD c 0 [ZMOD q]) :
    ∀ c, c < 2^k → x'.getD c 0 ≡ (addPoly (2^k) T (sigmaPoly (2^k) T g)).getD c 0
      + (addPoly (2^k) (addPoly (2^k) N (sigmaPoly (2^k) N g)) ν).getD c 0 [ZMOD q] := by
  intro c hc
  have hs : (sigmaPoly (2^k) x g).getD c 0 ≡ (sigmaPoly (2^k) T g).getD c 0 + (sigmaPoly (2^k) N g).getD c 0 [ZMOD q] := by
    rw [← c19k_sigma_add k g hg T N c hc]
    exact c19k_sigma_modEq k g hg q x _ (fun i hi => by rw [c19_addPoly_getD _ _ _ _ hi]; exact h i hi) c hc
  refine (h' c hc).trans ?_
  rw [c19_addPoly_getD _ _ _ _ hc, c19_addPoly_getD _ _ _ _ hc, c19_addPoly_getD _ _ _ _ hc, c19_addPoly_getD _ _ _ _ hc]
  have := ((h c hc).add hs).add (Int.ModEq.refl (n := q) (ν.getD c 0))
  unfold Int.ModEq at this ⊢
  rw [this]; congr 1; ring

/-- EXPLICIT BOUND: if every fresh noise satisfies P·‖ν_i‖∞ ≤ D, the noise accumulated by m layers satisfies
    P·‖N_m‖∞ ≤ (2^m − 1)·D = Σ_{i<m} 2^(m−1−i)·D. -/
theorem c19k_accNoise_bound (k : Nat) (ν : Nat → Array Int) (P D : Nat) (m : Nat) (hm : m ≤ k)
    (h : ∀ i, i < m → ∀ c, c < 2^k → ((ν i).getD c 0).natAbs * P ≤ D) :
    ∀ c, c < 2^k → ((c19k_accNoise k ν m).getD c 0).natAbs * P ≤ (2^m - 1) * D := by
  induction m with
  | zero =>
    intro c _
    have : (c19k_accNoise k ν 0).getD c 0 = 0 := c19_getD_replicate _ _ _
    rw [this]; simp
  | succ m ih =>
    intro c hc
    have ih' := ih (by omega) (fun i hi => h i (by omega))
    rw [c19k_accNoise_succ_getD k ν m c hc]
    set N := c19k_accNoise k ν m
    have hodd := c19k_odd_elt k m hm
    by_cases hP : P = 0
    · subst hP; simp
    have hPpos : 0 < P := Nat.pos_of_ne_zero hP
    -- σ(N) is bounded like N
    have hsig : ((sigmaPoly (2^k) N (2^(k-m)+1)).getD c 0).natAbs * P ≤ (2^m - 1) * D := by
      have hB : ∀ i, i < 2^k → (N.getD i 0).natAbs ≤ ((2^m - 1) * D) / P := fun i hi =>
        (Nat.le_div_iff_mul_le hPpos).mpr (ih' i hi)
      have := c19k_sigma_abs k _ hodd N _ hB c hc
      exact (Nat.le_div_iff_mul_le hPpos).mp this
    have h1 := ih' c hc
    have h3 := h m (by omega) c hc
    have habs : (N.getD c 0 + (sigmaPoly (2^k) N (2^(k-m)+1)).getD c 0 + (ν m).getD c 0).natAbs
        ≤ (N.getD c 0).natAbs + ((sigmaPoly (2^k) N (2^(k-m)+1)).getD c 0).natAbs + ((ν m).getD c 0).natAbs :=
      (Int.natAbs_add_le _ _).trans (Nat.add_le_add_right (Int.natAbs_add_le _ _) _)
    obtain ⟨p, hp⟩ : ∃ p, 2^m = p + 1 := ⟨2^m - 1, by have := Nat.two_pow_pos m; omega⟩
    have e1 : 2^m - 1 = p := by omega
    have e2 : 2^(m+1) - 1 = 2 * p + 1 := by rw [pow_succ]; omega
    rw [e1] at h1 hsig
    rw [e2]
    calc _ ≤ ((N.getD c 0).natAbs + ((sigmaPoly (2^k) N (2^(k-m)+1)).getD c 0).natAbs + ((ν m).getD c 0).natAbs) * P :=
          Nat.mul_le_mul_right _ habs
      _ = (N.getD c 0).natAbs * P + ((sigmaPoly (2^k) N (2^(k-m)+1)).getD c 0).natAbs * P + ((ν m).getD c 0).natAbs * P := by ring
      _ ≤ p * D + p * D + D := by omega
      _ = (2 * p + 1) * D := by ring

/-- BGV: if every fresh noise is a multiple of t, so is the accumulated noise -/
theorem c19k_accNoise_dvd (k : Nat) (ν : Nat → Array Int) (t : Int) (m : Nat) (hm : m ≤ k)
    (h : ∀ i, i < m → ∀ c, c < 2^k → t ∣ (ν i).getD c 0) :
    ∀ c, c < 2^k → t ∣ (c19k_accNoise k ν m).getD c 0 := by
  induction m with
  | zero =>
    intro c _
    have : (c19k_accNoise k ν 0).getD c 0 = 0 := c19_getD_replicate _ _ _
    rw [this]; exact dvd_zero _
  | succ m ih =>
    intro c hc
    have ih' := ih (by omega) (fun i hi => h i (by omega))
    rw [c19k_accNoise_succ_getD k ν m c hc]
    exact dvd_add (dvd_add (ih' c hc) (c19k_sigma_dvd k _ (c19k_odd_elt k m hm) _ t ih' c hc)) (h m (by omega) c hc)

/-! ## model level: hypotheses, phases, add / sub of two-polynomial ciphertexts -/

/-- everything `c04t_KSInput` asks of the KEY LEVEL and the KEY (not of the ciphertext): well-formed key level, `dsz` digits plus the
    special prime, a two-component key with canonical rows, the accumulator guard, the P^{-1} operands. -/
structure c19k_KeyOK (kl : KeyLevel) (dsz : Nat) (key : KSKey) : Prop where
  hkl : kl.WF
  hsz : 2 ≤ kl.ms.size
  hd : dsz + 1 ≤ kl.ms.size
  hks : dsz ≤ key.size
  hkcc : (key.getD 0 #[]).size = 2
  hkey : ∀ i, i ≤ dsz → c04t_KeyCanonAt kl dsz 2 key (c04t_keyIndex kl dsz i)
  hov : ∀ i, i ≤ dsz →
    dsz * (4 * (kl.m (c04t_keyIndex kl dsz i)).value * (kl.m (c04t_keyIndex kl dsz i)).value) < 2^128
  hinv : c04t_InvP kl dsz

/-- a two-polynomial ciphertext with canonical RNS polynomials at level `l` -/
def c19k_CtOK (l : Level) (ct : Ct) : Prop := ct.polys.size = 2 ∧ ∀ k, k < 2 → RnsCanon l (ct.polys.getD k #[])

theorem c19k_canon_of_rns {kl : KeyLevel} {l : Level} (hl : c04k_LevelOf kl l) {p : RnsPoly} (h : RnsCanon l p) :
    c04t_Canon kl l.size p := by
  intro j hj
  obtain ⟨h1, h2⟩ := h.2 j hj
  refine ⟨by rw [h1, hl.n], fun x hx => ?_⟩
  rw [← hl.q j hj]; exact h2 x (by rw [hl.n]; exact hx)

theorem c19k_rns_of_canon {kl : KeyLevel} {l : Level} (hl : c04k_LevelOf kl l) {p : RnsPoly} (hs : p.size = l.size)
    (h : c04t_Canon kl l.size p) : RnsCanon l p := by
  refine ⟨hs, fun j hj => ?_⟩
  obtain ⟨h1, h2⟩ := h j hj
  refine ⟨by rw [h1, hl.n], fun x hx => ?_⟩
  rw [hl.q j hj]; exact h2 x (by rw [← hl.n]; exact hx)

theorem c19k_ksInput {kl : KeyLevel} {l : Level} (hl : c04k_LevelOf kl l) {key : KSKey} (hK : c19k_KeyOK kl l.size key)
    {ct : Ct} (hct : c19k_CtOK l ct) : c04t_KSInput kl l.size ct (ct.polys.getD 1 #[]) key := by
  refine ⟨hK.hkl, hK.hsz, hK.hd, hK.hks, c19k_canon_of_rns hl (hct.2 1 (by omega)), ?_, hK.hov, ?_, hK.hinv⟩
  · rw [hK.hkcc]; exact hK.hkey
  · rw [hK.hkcc]; intro k hk; exact c19k_canon_of_rns hl (hct.2 k hk)

/-- the phase c0 + c1 ⋆ s of RNS component j, as an array of N integers (coefficient functions through `intt` in NTT form) -/
def c19k_phase (kl : KeyLevel) (j : Nat) (ct : Ct) (s : Nat → Int) : Array Int :=
  Array.ofFn (n := kl.n) fun c =>
    c05u_phase2 kl.n (c04k_polyI (kl.tb j) ct.ntt ((ct.polys.getD 0 #[]).getD j #[]))
      (c04k_polyI (kl.tb j) ct.ntt ((ct.polys.getD 1 #[]).getD j #[])) s c.val

theorem c19k_phase_getD (kl : KeyLevel) (j : Nat) (ct : Ct) (s : Nat → Int) (c : Nat) (hc : c < kl.n) :
    (c19k_phase kl j ct s).getD c 0 =
      c05u_phase2 kl.n (c04k_polyI (kl.tb j) ct.ntt ((ct.polys.getD 0 #[]).getD j #[]))
        (c04k_polyI (kl.tb j) ct.ntt ((ct.polys.getD 1 #[]).getD j #[])) s c := by
  unfold c19k_phase; rw [c19_getD_ofFn _ _ _ hc]

/-- component-wise modular subtraction on coefficient functions (both representations) -/
theorem c19k_coef_sub {kl : KeyLevel} (hkl : kl.WF) {j : Nat} (hj : j < kl.ms.size) (isNtt : Bool) {x δ z : Poly}
    (hx : x.size = kl.n) (hxl : ∀ l, l < kl.n → x.getD l 0 < (kl.m j).value)
    (hδ : δ.size = kl.n) (hδl : ∀ l, l < kl.n → δ.getD l 0 < (kl.m j).value)
    (hz : z.size = kl.n) (hzv : ∀ l, l < kl.n → z.getD l 0 = (x.getD l 0 + (kl.m j).value - δ.getD l 0) % (kl.m j).value) :
    ∀ c, c < kl.n → c04k_polyI (kl.tb j) isNtt z c ≡
      c04k_polyI (kl.tb j) isNtt x c - c04k_polyI (kl.tb j) isNtt δ c [ZMOD ((kl.m j).value : Int)] := by
  intro c hc
  have hq : 0 < (kl.m j).value := by have := hxl 0 (by omega); omega
  have := c04k_coef_add hkl hj isNtt (x := z) (δ := δ) (z := x) hz
    (fun l hl => by rw [hzv l hl]; exact Nat.mod_lt _ hq) hδ hδl hx
    (fun l hl => by
      rw [hzv l hl, Nat.mod_add_mod, Nat.sub_add_cancel (by have := hδl l hl; omega), Nat.add_mod_right,
        Nat.mod_eq_of_lt (hxl l hl)]) c hc
  have h2 := this.symm.sub (Int.ModEq.refl (n := ((kl.m j).value : Int)) (c04k_polyI (kl.tb j) isNtt δ c))
  simpa using h2

theorem c19k_polysCanon {l : Level} {ct : Ct} (h : c19k_CtOK l ct) : c02v_PolysCanon l ct :=
  ⟨by rw [h.1], by rw [h.1]; omega, fun k hk => h.2 k (by rw [h.1] at hk; exact hk)⟩

theorem c19k_qsWF {kl : KeyLevel} {l : Level} (hl : c04k_LevelOf kl l) (hkl : kl.WF) (hd : l.size + 1 ≤ kl.ms.size) :
    c02v_QsWF l := fun i hi => by
  rw [hl.q i hi]; exact (c04t_kl_comp hkl (show i < kl.ms.size by omega)).2.2.2

/-- `add_inplace` / `sub` of two canonical two-polynomial ciphertexts in the same representation with the same correction factor:
    succeeds, and the phases add / subtract modulo every q_j -/
theorem c19k_translate_phase {kl : KeyLevel} {l : Level} (hl : c04k_LevelOf kl l) (hkl : kl.WF) (hd : l.size + 1 ≤ kl.ms.size)
    {a b : Ct} (ha : c19k_CtOK l a) (hb : c19k_CtOK l b) (hntt : a.ntt = b.ntt) (hcf : a.cf = b.cf) (sub : Bool)
    (s : Nat → Int) :
    ∃ r, ctTranslateBalanced l a b sub = .ok r ∧ c19k_CtOK l r ∧ r.ntt = a.ntt ∧ r.cf = a.cf ∧
      ∀ j, j < l.size → ∀ c, c < kl.n →
        (c19k_phase kl j r s).getD c 0 ≡
          (if sub then (c19k_phase kl j a s).getD c 0 - (c19k_phase kl j b s).getD c 0
           else (c19k_phase kl j a s).getD c 0 + (c19k_phase kl j b s).getD c 0) [ZMOD ((kl.m j).value : Int)] := by
  obtain ⟨r, hr, hrc, hrs, hrn, hrf, hres⟩ :=
    c02v_ctTranslate_core (c19k_qsWF hl hkl hd) (c19k_polysCanon ha) (c19k_polysCanon hb) sub hntt hcf
  rw [ha.1, hb.1] at hrs hres
  have hrs2 : r.polys.size = 2 := by rw [hrs]; rfl
  refine ⟨r, by rw [ctTranslateBalanced_same l a b sub hcf]; exact hr,
    ⟨hrs2, fun k hk => hrc.canon k (by rw [hrs2]; exact hk)⟩, hrn, hrf, fun j hj c hc => ?_⟩
  have hjk : j < kl.ms.size := by omega
  -- per polynomial k < 2: coefficient functions add / subtract
  have hcomp : ∀ k, k < 2 → ∀ c, c < kl.n →
      c04k_polyI (kl.tb j) r.ntt ((r.polys.getD k #[]).getD j #[]) c ≡
        (if sub then c04k_polyI (kl.tb j) a.ntt ((a.polys.getD k #[]).getD j #[]) c
            - c04k_polyI (kl.tb j) b.ntt ((b.polys.getD k #[]).getD j #[]) c
         else c04k_polyI (kl.tb j) a.ntt ((a.polys.getD k #[]).getD j #[]) c
            + c04k_polyI (kl.tb j) b.ntt ((b.polys.getD k #[]).getD j #[]) c) [ZMOD ((kl.m j).value : Int)] := by
    intro k hk c hc
    have hA := c19k_canon_of_rns hl (ha.2 k hk) j hj
    have hB := c19k_canon_of_rns hl (hb.2 k hk) j hj
    have hR := c19k_canon_of_rns hl (hrc.canon k (by rw [hrs2]; exact hk)) j hj
    have hv : ∀ x, x < kl.n → ((r.polys.getD k #[]).getD j #[]).getD x 0 =
        if sub then (((a.polys.getD k #[]).getD j #[]).getD x 0 + (kl.m j).value - ((b.polys.getD k #[]).getD j #[]).getD x 0)
            % (kl.m j).value
        else (((a.polys.getD k #[]).getD j #[]).getD x 0 + ((b.polys.getD k #[]).getD j #[]).getD x 0) % (kl.m j).value := by
      intro x hx
      have := hres k (by show k < max 2 2; simpa using hk) j hj x (by rw [hl.n]; exact hx)
      rw [if_pos ⟨hk, hk⟩, hl.q j hj] at this
      exact this
    rw [hrn, ← hntt]
    cases sub with
    | true =>
      simp only [if_true]
      exact c19k_coef_sub hkl hjk a.ntt hA.1 hA.2 hB.1 hB.2 hR.1 (fun x hx => by simpa using hv x hx) c hc
    | false =>
      simp only [Bool.false_eq_true, if_false]
      exact c04k_coef_add hkl hjk a.ntt hA.1 hA.2 hB.1 hB.2 hR.1 (fun x hx => by simpa using hv x hx) c hc
  rw [c19k_phase_getD _ _ _ _ _ hc, c19k_phase_getD _ _ _ _ _ hc, c19k_phase_getD _ _ _ _ _ hc]
  unfold c05u_phase2
  cases sub with
  | true =>
    simp only [if_true] at hcomp ⊢
    have h1 := c04k_negMul_modEq kl.n ((kl.m j).value : Int) hc (fun i hi => hcomp 1 (by omega) i hi)
      (fun i _ => Int.ModEq.refl (s i))
    rw [c04k_sub_left] at h1
    have := (hcomp 0 (by omega) c hc).add h1
    unfold Int.ModEq at this ⊢
    rw [this]; congr 1; ring
  | false =>
    simp only [Bool.false_eq_true, if_false] at hcomp ⊢
    have h1 := c04k_negMul_modEq kl.n ((kl.m j).value : Int) hc (fun i hi => hcomp 1 (by omega) i hi)
      (fun i _ => Int.ModEq.refl (s i))
    rw [c05u_negMul_add] at h1
    have := (hcomp 0 (by omega) c hc).add h1
    unfold Int.ModEq at this ⊢
    rw [this]; congr 1; ring

/-! ## L1: the field trace on MODEL ciphertexts -/

/-- one iteration of the loop of `field_trace_inplace` on the model:
    `apply_galois(encrypted, g, keys, &mut temp); add_inplace(encrypted, &temp)` -/
def c19k_traceLayer (kl : KeyLevel) (l : Level) (scheme : Scheme) (ct : Ct) (g : Nat) (key : KSKey) : R Ct := do
  let t ← applyGalois kl l scheme ct g key
  ctTranslateBalanced l ct t false

/-- the first `m` iterations of `field_trace_inplace` (Model/Lwe.lean has the loop only at phase level, `fieldTracePoly`; this is
    the same loop as a fold of MODEL operations on ciphertexts; `keys g` = the Galois key of element g, a missing key is refused) -/
def c19k_traceStepsCt (kl : KeyLevel) (l : Level) (scheme : Scheme) (keys : Nat → Option KSKey) (m : Nat) (ct : Ct) : R Ct :=
  (List.range m).foldlM (fun ct i =>
    match keys (2^(l.k - i) + 1) with
    | none => .error .refused
    | some key => c19k_traceLayer kl l scheme ct (2^(l.k - i) + 1) key) ct

/-- `field_trace_inplace(encrypted, keys, logn)`, N = 2^(l.k):
    `while poly_degree > (1 << logn) { apply_galois(encrypted, poly_degree + 1, …, temp); add_inplace(encrypted, temp); poly_degree >>= 1 }` -/
def c19k_fieldTraceCt (kl : KeyLevel) (l : Level) (scheme : Scheme) (keys : Nat → Option KSKey) (logn : Nat) (ct : Ct) : R Ct :=
  c19k_traceStepsCt kl l scheme keys (l.k - logn) ct

/-- what one layer does: canonical result, same representation and correction factor, phase x + σ_g(x) + ν modulo every q_j -/
def c19k_LayerSpec (kl : KeyLevel) (l : Level) (ct ct' : Ct) (g : Nat) (s : Nat → Int) (ν : Array Int) : Prop :=
  c19k_CtOK l ct' ∧ ct'.ntt = ct.ntt ∧ ct'.cf = ct.cf ∧
    ∀ j, j < l.size → ∀ c, c < 2^l.k →
      (c19k_phase kl j ct' s).getD c 0 ≡
        (addPoly (2^l.k) (c19k_phase kl j ct s) (sigmaPoly (2^l.k) (c19k_phase kl j ct s) g)).getD c 0 + ν.getD c 0
          [ZMOD ((kl.m j).value : Int)]

theorem c19k_sigma_fn (n k g : Nat) (hn : 2^k = n) (hg : g % 2 = 1) (x : Nat → Int) (a : Array Int)
    (ha : ∀ i, i < n → a.getD i 0 = x i) (c : Nat) (hc : c < n) :
    (sigmaPoly (2^k) a g).getD c 0 = c04k_sigma n g x c := by
  subst hn
  rw [c19k_sigmaPoly_getD k g hg a c hc]
  exact c04k_sigma_congr _ _ _ _ _ ha

/-- from the conclusion of `applyGalois_phase_sigma(_bgv)` to the layer -/
theorem c19k_layer_of_galois {kl : KeyLevel} {l : Level} (hl : c04k_LevelOf kl l) (hkl : kl.WF) (hd : l.size + 1 ≤ kl.ms.size)
    {scheme : Scheme} {ct : Ct} {key : KSKey} {g : Nat} (hg : g % 2 = 1) (hct : c19k_CtOK l ct) {s : Nat → Int} {ν : Nat → Int}
    (h : ∃ ct', applyGalois kl l scheme ct g key = .ok ct' ∧ ct'.ntt = ct.ntt ∧ ct'.cf = ct.cf ∧ ct'.polys.size = 2 ∧
      (∀ k, k < 2 → (ct'.polys.getD k #[]).size = l.size ∧ c04t_Canon kl l.size (ct'.polys.getD k #[])) ∧
      ∀ j, j < l.size → ∀ c, c < kl.n →
        c05u_phase2 kl.n (c04k_polyI (kl.tb j) ct.ntt ((ct'.polys.getD 0 #[]).getD j #[]))
            (c04k_polyI (kl.tb j) ct.ntt ((ct'.polys.getD 1 #[]).getD j #[])) s c
          ≡ c04k_sigma kl.n g (c05u_phase2 kl.n (c04k_polyI (kl.tb j) ct.ntt ((ct.polys.getD 0 #[]).getD j #[]))
              (c04k_polyI (kl.tb j) ct.ntt ((ct.polys.getD 1 #[]).getD j #[])) s) c
            + ν c [ZMOD ((kl.m j).value : Int)]) :
    ∃ ct', c19k_traceLayer kl l scheme ct g key = .ok ct' ∧
      c19k_LayerSpec kl l ct ct' g s (Array.ofFn (n := kl.n) fun c => ν c.val) := by
  obtain ⟨t, ht, htn, htcf, hts, htc, htph⟩ := h
  have htok : c19k_CtOK l t := ⟨hts, fun k hk => c19k_rns_of_canon hl (htc k hk).1 (htc k hk).2⟩
  obtain ⟨r, hr, hrok, hrn, hrf, hrph⟩ := c19k_translate_phase hl hkl hd hct htok htn.symm htcf.symm false s
  refine ⟨r, ?_, hrok, hrn, hrf, fun j hj c hc => ?_⟩
  · unfold c19k_traceLayer
    rw [ht]
    exact hr
  · have hc' : c < kl.n := by rw [← hl.k]; exact hc
    have h1 := hrph j hj c hc'
    simp only [Bool.false_eq_true, if_false] at h1
    refine h1.trans ?_
    rw [c19_addPoly_getD _ _ _ _ hc, c19_getD_ofFn _ _ _ hc']
    rw [c19k_sigma_fn kl.n l.k g hl.k hg _ _ (fun i hi => c19k_phase_getD kl j ct s i hi) c hc']
    have h2 := htph j hj c hc'
    have e := c19k_phase_getD kl j t s c hc'
    rw [htn] at e
    rw [← e] at h2
    have := (Int.ModEq.refl (n := ((kl.m j).value : Int)) ((c19k_phase kl j ct s).getD c 0)).add h2
    unfold Int.ModEq at this ⊢
    rw [this]; congr 1; ring

/-- the loop, generically in the step function: m layers accumulate the noise `c19k_accNoise` -/
theorem c19k_traceSteps_generic {kl : KeyLevel} {l : Level} {s : Nat → Int} (b : Bool)
    (step : Nat → Ct → R Ct) (Q : Nat → Ct → Array Int → Prop) (m : Nat) (hm : m ≤ l.k)
    (hstep : ∀ i, i < m → ∀ ct, c19k_CtOK l ct → ct.ntt = b →
      ∃ ct' ν, step i ct = .ok ct' ∧ c19k_LayerSpec kl l ct ct' (2^(l.k - i) + 1) s ν ∧ Q i ct ν)
    (ct : Ct) (hct : c19k_CtOK l ct) (hb : ct.ntt = b) :
    ∃ ct' νs, (List.range m).foldlM (fun ct i => step i ct) ct = .ok ct' ∧ c19k_CtOK l ct' ∧ ct'.ntt = b ∧ ct'.cf = ct.cf ∧
      (∀ i, i < m → ∃ cti, (List.range i).foldlM (fun ct i => step i ct) ct = .ok cti ∧ Q i cti (νs i)) ∧
      ∀ j, j < l.size → ∀ c, c < 2^l.k →
        (c19k_phase kl j ct' s).getD c 0 ≡
          (c19_traceSteps l.k m (c19k_phase kl j ct s)).getD c 0 + (c19k_accNoise l.k νs m).getD c 0
            [ZMOD ((kl.m j).value : Int)] := by
  induction m with
  | zero =>
    refine ⟨ct, fun _ => #[], rfl, hct, hb, rfl, fun i hi => by omega, fun j _ c _ => ?_⟩
    have : (c19k_accNoise l.k (fun _ => #[]) 0).getD c 0 = 0 := c19_getD_replicate _ _ _
    rw [this, add_zero]
    exact Int.ModEq.refl _
  | succ m ih =>
    obtain ⟨ctm, νs, hfold, hok, hbm, hcfm, hQ, hph⟩ := ih (by omega) (fun i hi => hstep i (by omega))
    obtain ⟨ct', ν, hs', hspec, hq⟩ := hstep m (by omega) ctm hok hbm
    obtain ⟨hok', hn', hcf', hph'⟩ := hspec
    refine ⟨ct', fun i => if i = m then ν else νs i, ?_, hok', by rw [hn', hbm], by rw [hcf', hcfm], ?_, ?_⟩
    · rw [List.range_succ, List.foldlM_append, hfold]
      simp only [bind, Except.bind, List.foldlM_cons, List.foldlM_nil, hs']
      rfl
    · intro i hi
      by_cases him : i = m
      · subst him
        exact ⟨ctm, hfold, by simpa using hq⟩
      · obtain ⟨cti, h1, h2⟩ := hQ i (by omega)
        exact ⟨cti, h1, by simpa [him] using h2⟩
    · intro j hj c hc
      have hacc : c19k_accNoise l.k (fun i => if i = m then ν else νs i) m = c19k_accNoise l.k νs m :=
        c19k_accNoise_congr _ _ _ _ (fun i hi => by simp [Nat.ne_of_lt hi])
      have := c19k_trace_step l.k (2^(l.k - m) + 1) (c19k_odd_elt l.k m hm) ((kl.m j).value : Int)
        (c19k_phase kl j ctm s) (c19_traceSteps l.k m (c19k_phase kl j ct s)) (c19k_accNoise l.k νs m)
        (c19k_phase kl j ct' s) ν (hph j hj) (hph' j hj) c hc
      rw [c19_traceSteps_succ]
      show _ ≡ _ + (addPoly (2^l.k) (addPoly (2^l.k) _ _) _).getD c 0 [ZMOD _]
      rw [hacc]
      simpa using this

theorem c19k_elt_le {l : Level} {kl : KeyLevel} (hl : c04k_LevelOf kl l) (i : Nat) : 2^(l.k - i) + 1 ≤ 2 * l.n := by
  rw [hl.n, ← hl.k]
  have h1 : 2^(l.k - i) ≤ 2^l.k := Nat.pow_le_pow_right (by norm_num) (by omega)
  have h2 := Nat.two_pow_pos l.k
  omega

/-- the ν of a layer in the rounding branch, as an array -/
def c19k_nuStdArr (kl : KeyLevel) (l : Level) (ct : Ct) (g : Nat) (key : KSKey) (e : Nat → Nat → Int) (s : Nat → Int) : Array Int :=
  Array.ofFn (n := kl.n) fun c =>
    c04k_nuStd kl l.size ct.ntt (c04k_galRns l ct.ntt g (ct.polys.getD 1 #[])) key e s c.val

/-- the ν of a layer in the BGV branch, as an array -/
def c19k_nuBgvArr (kl : KeyLevel) (l : Level) (ct : Ct) (g : Nat) (key : KSKey) (e : Nat → Nat → Int) (s : Nat → Int) : Array Int :=
  Array.ofFn (n := kl.n) fun c =>
    c04k_nuBgv kl l.size ct.ntt (c04k_galRns l ct.ntt g (ct.polys.getD 1 #[])) key e s c.val

/-- the switch-key noise bound of the rounding branch: P·‖ν‖∞ ≤ dsz·A·N·Be + ⌊P/2⌋·(1 + ‖s‖₁) -/
def c19k_boundStd (kl : KeyLevel) (dsz A Be : Nat) (s : Nat → Int) : Nat :=
  dsz * (A * (kl.n * Be)) + kl.c04t_P / 2 * (1 + ∑ p ∈ range kl.n, (s p).natAbs)

/-- the switch-key noise bound of the BGV branch: P·‖ν‖∞ ≤ dsz·A·N·Be + P·t·(1 + ‖s‖₁) -/
def c19k_boundBgv (kl : KeyLevel) (dsz A Be : Nat) (s : Nat → Int) : Nat :=
  dsz * (A * (kl.n * Be)) + kl.c04t_P * kl.t.value * (1 + ∑ p ∈ range kl.n, (s p).natAbs)

/-- one layer, rounding branch (BFV coefficient form / CKKS NTT form), with its noise bound -/
theorem c19k_layer_std {kl : KeyLevel} {l : Level} (hl : c04k_LevelOf kl l) {scheme : Scheme} {ct : Ct} {key : KSKey} {g : Nat}
    (hK : c19k_KeyOK kl l.size key) (hct : c19k_CtOK l ct) (hmode : c04t_StdMode scheme ct.ntt)
    (hg : g % 2 = 1) (hg2 : g ≤ 2 * l.n)
    {s : Nat → Int} {e : Nat → Nat → Int} {G : Nat → Int} (hke : c04k_KeyEq kl l.size key s (c04k_sigma kl.n g s) e G)
    {A Be : Nat} (hA : ∀ i, i < l.size → (kl.m i).value ≤ A)
    (he : ∀ i, i < l.size → ∀ p, p < kl.n → (e i p).natAbs ≤ Be) :
    ∃ ct', c19k_traceLayer kl l scheme ct g key = .ok ct' ∧
      c19k_LayerSpec kl l ct ct' g s (c19k_nuStdArr kl l ct g key e s) ∧
      ∀ c, c < 2^l.k → ((c19k_nuStdArr kl l ct g key e s).getD c 0).natAbs * kl.c04t_P ≤ c19k_boundStd kl l.size A Be s := by
  have hin := c19k_ksInput hl hK hct
  obtain ⟨ct', h1, h2⟩ := c19k_layer_of_galois hl hK.hkl hK.hd hg hct
    (applyGalois_phase_sigma hl hin hmode hct.1 hg hg2 hK.hkcc hke (fun p _ => rfl))
  refine ⟨ct', h1, h2, fun c hc => ?_⟩
  have hc' : c < kl.n := by rw [← hl.k]; exact hc
  unfold c19k_nuStdArr
  rw [c19_getD_ofFn _ _ _ hc']
  exact switchKey_noise_bound (c04k_galois_input hl hin hK.hkcc hg) hke hA he c hc'

/-- one layer, BGV branch (NTT form): bound, and ν ≡ 0 (mod t) when the key errors are multiples of t -/
theorem c19k_layer_bgv {kl : KeyLevel} {l : Level} (hl : c04k_LevelOf kl l) {ct : Ct} {key : KSKey} {g : Nat}
    (hK : c19k_KeyOK kl l.size key) (hct : c19k_CtOK l ct) (hb : c04t_BgvData kl) (hntt : ct.ntt = true)
    (hg : g % 2 = 1) (hg2 : g ≤ 2 * l.n)
    {s : Nat → Int} {e : Nat → Nat → Int} {G : Nat → Int} (hke : c04k_KeyEq kl l.size key s (c04k_sigma kl.n g s) e G)
    {A Be : Nat} (hA : ∀ i, i < l.size → (kl.m i).value ≤ A)
    (he : ∀ i, i < l.size → ∀ p, p < kl.n → (e i p).natAbs ≤ Be) :
    ∃ ct', c19k_traceLayer kl l .bgv ct g key = .ok ct' ∧
      c19k_LayerSpec kl l ct ct' g s (c19k_nuBgvArr kl l ct g key e s) ∧
      (∀ c, c < 2^l.k → ((c19k_nuBgvArr kl l ct g key e s).getD c 0).natAbs * kl.c04t_P ≤ c19k_boundBgv kl l.size A Be s) ∧
      ((∀ i, i < l.size → ∀ p, p < kl.n → (kl.t.value : Int) ∣ e i p) →
        ∀ c, c < 2^l.k → (kl.t.value : Int) ∣ (c19k_nuBgvArr kl l ct g key e s).getD c 0) := by
  have hin := c19k_ksInput hl hK hct
  obtain ⟨ct', h1, h2⟩ := c19k_layer_of_galois hl hK.hkl hK.hd hg hct
    (applyGalois_phase_sigma_bgv hl hin hb hntt hct.1 hg hg2 hK.hkcc hke (fun p _ => rfl))
  refine ⟨ct', h1, h2, fun c hc => ?_, fun het c hc => ?_⟩
  · have hc' : c < kl.n := by rw [← hl.k]; exact hc
    unfold c19k_nuBgvArr
    rw [c19_getD_ofFn _ _ _ hc']
    exact switchKey_noise_bound_bgv (c04k_galois_input hl hin hK.hkcc hg) hb hke hA he c hc'
  · have hc' : c < kl.n := by rw [← hl.k]; exact hc
    unfold c19k_nuBgvArr
    rw [c19_getD_ofFn _ _ _ hc']
    exact switchKey_noise_bgv_mod_t (c04k_galois_input hl hin hK.hkcc hg) hb hke het c hc'

/-- m layers of the field trace, rounding branch -/
theorem c19k_traceSteps_std {kl : KeyLevel} {l : Level} (hl : c04k_LevelOf kl l) {scheme : Scheme}
    {keys : Nat → Option KSKey} (m : Nat) (hm : m ≤ l.k) {ct : Ct} (hct : c19k_CtOK l ct) (hmode : c04t_StdMode scheme ct.ntt)
    {s : Nat → Int} {e : Nat → Nat → Nat → Int} {G : Nat → Nat → Int}
    (hkeys : ∀ i, i < m → ∃ key, keys (2^(l.k - i) + 1) = some key ∧ c19k_KeyOK kl l.size key ∧
      c04k_KeyEq kl l.size key s (c04k_sigma kl.n (2^(l.k - i) + 1) s) (e i) (G i))
    {A Be : Nat} (hA : ∀ i, i < l.size → (kl.m i).value ≤ A)
    (he : ∀ i, i < m → ∀ d, d < l.size → ∀ p, p < kl.n → (e i d p).natAbs ≤ Be) :
    ∃ ct' νs, c19k_traceStepsCt kl l scheme keys m ct = .ok ct' ∧ c19k_CtOK l ct' ∧ ct'.ntt = ct.ntt ∧ ct'.cf = ct.cf ∧
      (∀ i, i < m → ∃ cti key, c19k_traceStepsCt kl l scheme keys i ct = .ok cti ∧ keys (2^(l.k - i) + 1) = some key ∧
        νs i = c19k_nuStdArr kl l cti (2^(l.k - i) + 1) key (e i) s) ∧
      (∀ j, j < l.size → ∀ c, c < 2^l.k →
        (c19k_phase kl j ct' s).getD c 0 ≡
          (c19_traceSteps l.k m (c19k_phase kl j ct s)).getD c 0 + (c19k_accNoise l.k νs m).getD c 0
            [ZMOD ((kl.m j).value : Int)]) ∧
      ∀ c, c < 2^l.k →
        ((c19k_accNoise l.k νs m).getD c 0).natAbs * kl.c04t_P ≤ (2^m - 1) * c19k_boundStd kl l.size A Be s := by
  obtain ⟨ct', νs, h1, h2, h3, h4, h5, h6⟩ := c19k_traceSteps_generic (kl := kl) (l := l) (s := s) ct.ntt
    (fun i ct => match keys (2^(l.k - i) + 1) with
      | none => .error .refused
      | some key => c19k_traceLayer kl l scheme ct (2^(l.k - i) + 1) key)
    (fun i cti ν => ∃ key, keys (2^(l.k - i) + 1) = some key ∧ ν = c19k_nuStdArr kl l cti (2^(l.k - i) + 1) key (e i) s ∧
      ∀ c, c < 2^l.k → (ν.getD c 0).natAbs * kl.c04t_P ≤ c19k_boundStd kl l.size A Be s)
    m hm
    (fun i hi ct0 hct0 hb0 => by
      obtain ⟨key, hk1, hk2, hk3⟩ := hkeys i hi
      obtain ⟨ct', a1, a2, a3⟩ := c19k_layer_std hl hk2 hct0 (by rw [hb0]; exact hmode) (c19k_odd_elt l.k i (by omega))
        (c19k_elt_le hl i) hk3 hA (he i hi)
      exact ⟨ct', _, by simp only [hk1]; exact a1, a2, key, hk1, rfl, a3⟩)
    ct hct rfl
  refine ⟨ct', νs, h1, h2, h3, h4, fun i hi => ?_, h6, ?_⟩
  · obtain ⟨cti, b1, key, b2, b3, _⟩ := h5 i hi
    exact ⟨cti, key, b1, b2, b3⟩
  · exact c19k_accNoise_bound l.k νs kl.c04t_P _ m hm (fun i hi c hc => by
      obtain ⟨cti, _, key, _, _, b4⟩ := h5 i hi
      exact b4 c hc)

/-- m layers of the field trace, BGV branch -/
theorem c19k_traceSteps_bgv {kl : KeyLevel} {l : Level} (hl : c04k_LevelOf kl l)
    {keys : Nat → Option KSKey} (m : Nat) (hm : m ≤ l.k) {ct : Ct} (hct : c19k_CtOK l ct) (hb : c04t_BgvData kl)
    (hntt : ct.ntt = true)
    {s : Nat → Int} {e : Nat → Nat → Nat → Int} {G : Nat → Nat → Int}
    (hkeys : ∀ i, i < m → ∃ key, keys (2^(l.k - i) + 1) = some key ∧ c19k_KeyOK kl l.size key ∧
      c04k_KeyEq kl l.size key s (c04k_sigma kl.n (2^(l.k - i) + 1) s) (e i) (G i))
    {A Be : Nat} (hA : ∀ i, i < l.size → (kl.m i).value ≤ A)
    (he : ∀ i, i < m → ∀ d, d < l.size → ∀ p, p < kl.n → (e i d p).natAbs ≤ Be) :
    ∃ ct' νs, c19k_traceStepsCt kl l .bgv keys m ct = .ok ct' ∧ c19k_CtOK l ct' ∧ ct'.ntt = ct.ntt ∧ ct'.cf = ct.cf ∧
      (∀ i, i < m → ∃ cti key, c19k_traceStepsCt kl l .bgv keys i ct = .ok cti ∧ keys (2^(l.k - i) + 1) = some key ∧
        νs i = c19k_nuBgvArr kl l cti (2^(l.k - i) + 1) key (e i) s) ∧
      (∀ j, j < l.size → ∀ c, c < 2^l.k →
        (c19k_phase kl j ct' s).getD c 0 ≡
          (c19_traceSteps l.k m (c19k_phase kl j ct s)).getD c 0 + (c19k_accNoise l.k νs m).getD c 0
            [ZMOD ((kl.m j).value : Int)]) ∧
      (∀ c, c < 2^l.k →
        ((c19k_accNoise l.k νs m).getD c 0).natAbs * kl.c04t_P ≤ (2^m - 1) * c19k_boundBgv kl l.size A Be s) ∧
      ((∀ i, i < m → ∀ d, d < l.size → ∀ p, p < kl.n → (kl.t.value : Int) ∣ e i d p) →
        ∀ c, c < 2^l.k → (kl.t.value : Int) ∣ (c19k_accNoise l.k νs m).getD c 0) := by
  obtain ⟨ct', νs, h1, h2, h3, h4, h5, h6⟩ := c19k_traceSteps_generic (kl := kl) (l := l) (s := s) ct.ntt
    (fun i ct => match keys (2^(l.k - i) + 1) with
      | none => .error .refused
      | some key => c19k_traceLayer kl l .bgv ct (2^(l.k - i) + 1) key)
    (fun i cti ν => ∃ key, keys (2^(l.k - i) + 1) = some key ∧ ν = c19k_nuBgvArr kl l cti (2^(l.k - i) + 1) key (e i) s ∧
      (∀ c, c < 2^l.k → (ν.getD c 0).natAbs * kl.c04t_P ≤ c19k_boundBgv kl l.size A Be s) ∧
      ((∀ d, d < l.size → ∀ p, p < kl.n → (kl.t.value : Int) ∣ e i d p) →
        ∀ c, c < 2^l.k → (kl.t.value : Int) ∣ ν.getD c 0))
    m hm
    (fun i hi ct0 hct0 hb0 => by
      obtain ⟨key, hk1, hk2, hk3⟩ := hkeys i hi
      obtain ⟨ct', a1, a2, a3, a4⟩ := c19k_layer_bgv hl hk2 hct0 hb (by rw [hb0]; exact hntt) (c19k_odd_elt l.k i (by omega))
        (c19k_elt_le hl i) hk3 hA (he i hi)
      exact ⟨ct', _, by simp only [hk1]; exact a1, a2, key, hk1, rfl, a3, a4⟩)
    ct hct rfl
  refine ⟨ct', νs, h1, h2, h3, h4, fun i hi => ?_, h6, ?_, fun het => ?_⟩
  · obtain ⟨cti, b1, key, b2, b3, _⟩ := h5 i hi
    exact ⟨cti, key, b1, b2, b3⟩
  · exact c19k_accNoise_bound l.k νs kl.c04t_P _ m hm (fun i hi c hc => by
      obtain ⟨cti, _, key, _, _, b4, _⟩ := h5 i hi
      exact b4 c hc)
  · exact c19k_accNoise_dvd l.k νs _ m hm (fun i hi c hc => by
      obtain ⟨cti, _, key, _, _, _, b5⟩ := h5 i hi
      exact b5 (het i hi) c hc)

/-! ## L2: the noisy merge tree of PackLWEs, pure algebra over ℤ -/

/-- every output coefficient of the monomial shift is ± one input coefficient, position and sign independent of the input -/
theorem c19k_shiftPoly_perm (n s : Nat) (c : Nat) (hc : c < n) :
    ∃ i, i < n ∧ ∃ neg : Bool, ∀ a : Array Int,
      (shiftPoly n a s).getD c 0 = if neg then - a.getD i 0 else a.getD i 0 := by
  have hr : s % n < n := Nat.mod_lt _ (by omega)
  by_cases hle : s % n ≤ c
  · refine ⟨c - s % n, by omega, decide ((s / n) % 2 = 1), fun a => ?_⟩
    rw [c19_shiftPoly_getD _ _ _ _ hc, if_pos hle]
    by_cases h : (s / n) % 2 = 1 <;> simp [h]
  · refine ⟨c + n - s % n, by omega, decide (¬ (s / n) % 2 = 1), fun a => ?_⟩
    rw [c19_shiftPoly_getD _ _ _ _ hc, if_neg hle]
    by_cases h : (s / n) % 2 = 1 <;> simp [h]

theorem c19k_shift_modEq (n s : Nat) (q : Int) (a b : Array Int)
    (h : ∀ i, i < n → a.getD i 0 ≡ b.getD i 0 [ZMOD q]) (c : Nat) (hc : c < n) :
    (shiftPoly n a s).getD c 0 ≡ (shiftPoly n b s).getD c 0 [ZMOD q] := by
  obtain ⟨i, hi, neg, hperm⟩ := c19k_shiftPoly_perm n s c hc
  rw [hperm a, hperm b]
  cases neg with
  | true => simpa using (h i hi).neg
  | false => simpa using h i hi

theorem c19k_shift_add (n s : Nat) (a b : Array Int) (c : Nat) (hc : c < n) :
    (shiftPoly n (addPoly n a b) s).getD c 0 = (shiftPoly n a s).getD c 0 + (shiftPoly n b s).getD c 0 := by
  obtain ⟨i, hi, neg, hperm⟩ := c19k_shiftPoly_perm n s c hc
  rw [hperm, hperm a, hperm b, c19_addPoly_getD _ _ _ _ hi]
  cases neg with
  | true => simp; ring
  | false => simp

/-- the butterfly respects coefficient-wise congruence -/
theorem c19k_packMerge_modEq (k lam : Nat) (q : Int) (E O E' O' : Array Int)
    (hE : ∀ i, i < 2^k → E.getD i 0 ≡ E'.getD i 0 [ZMOD q]) (hO : ∀ i, i < 2^k → O.getD i 0 ≡ O'.getD i 0 [ZMOD q])
    (c : Nat) (hc : c < 2^k) :
    (packMerge k lam E O).getD c 0 ≡ (packMerge k lam E' O').getD c 0 [ZMOD q] := by
  unfold packMerge
  simp only
  have hsh := c19k_shift_modEq (2^k) (2^k / 2^(lam+1)) q O O' hO
  rw [c19_addPoly_getD _ _ _ _ hc, c19_addPoly_getD _ _ _ _ hc, c19_addPoly_getD _ _ _ _ hc, c19_addPoly_getD _ _ _ _ hc]
  refine ((hE c hc).add (hsh c hc)).add ?_
  refine c19k_sigma_modEq k _ (c19k_odd_two_pow (lam+1) (by omega)) q _ _ (fun i hi => ?_) c hc
  rw [c19_subPoly_getD _ _ _ _ hi, c19_subPoly_getD _ _ _ _ hi]
  exact (hE i hi).sub (hsh i hi)

/-- the butterfly is additive -/
theorem c19k_packMerge_add (k lam : Nat) (E O Z Z' : Array Int) (c : Nat) (hc : c < 2^k) :
    (packMerge k lam (addPoly (2^k) E Z) (addPoly (2^k) O Z')).getD c 0 =
      (packMerge k lam E O).getD c 0 + (packMerge k lam Z Z').getD c 0 := by
  have hodd := c19k_odd_two_pow (lam+1) (by omega)
  unfold packMerge
  simp only
  rw [c19_addPoly_getD _ _ _ _ hc, c19_addPoly_getD _ _ _ _ hc, c19_addPoly_getD _ _ _ _ hc, c19_addPoly_getD _ _ _ _ hc,
    c19_addPoly_getD _ _ _ _ hc, c19_addPoly_getD _ _ _ _ hc, c19_addPoly_getD _ _ _ _ hc, c19k_shift_add _ _ _ _ _ hc]
  have hs : (sigmaPoly (2^k) (subPoly (2^k) (addPoly (2^k) E Z) (shiftPoly (2^k) (addPoly (2^k) O Z') (2^k / 2^(lam+1))))
        (2^(lam+1) + 1)).getD c 0
      = (sigmaPoly (2^k) (addPoly (2^k) (subPoly (2^k) E (shiftPoly (2^k) O (2^k / 2^(lam+1))))
          (subPoly (2^k) Z (shiftPoly (2^k) Z' (2^k / 2^(lam+1))))) (2^(lam+1) + 1)).getD c 0 := by
    refine c19k_sigma_congr k (2^(lam+1)+1) hodd _ _ (fun i hi => ?_) c hc
    rw [c19_subPoly_getD _ _ _ _ hi, c19_addPoly_getD _ _ _ _ hi, c19_addPoly_getD _ _ _ _ hi,
      c19_subPoly_getD _ _ _ _ hi, c19_subPoly_getD _ _ _ _ hi, c19k_shift_add _ _ _ _ _ hi]
    ring
  rw [hs, c19k_sigma_add k _ hodd _ _ c hc]
  ring


/-- the merge tree of `pack_lwe_ciphertexts` as a recursion: slot `o` (a multiple of 2^lam) after `lam` layers.  It is the
    in-place loop `packLayer` of Model/Lwe.lean read at the slots later layers use (`c19k_node_eq_layers`). -/
def c19k_nodePoly {α : Type} [Zero α] [Add α] [Sub α] [Neg α] [Mul α] (k : Nat) (leaves : Nat → Array α) : Nat → Nat → Array α
  | 0, o => leaves o
  | lam+1, o => packMerge k lam (c19k_nodePoly k leaves lam o) (c19k_nodePoly k leaves lam (o + 2^lam))

theorem c19k_node_eq_layers {R : Type} [CommRing R] (k l : Nat) (leaves : Array (Array R)) (lam : Nat) (hlam : lam ≤ l)
    (o : Nat) (ho : o < 2^l) (hd : 2^lam ∣ o) :
    (c19_packLayers k l lam leaves).getD o #[] = c19k_nodePoly k (fun i => leaves.getD i #[]) lam o := by
  induction lam generalizing o with
  | zero => rfl
  | succ lam ih =>
    have hmod : o % (2 * 2^lam) = 0 := by
      rw [← pow_succ']; exact Nat.mod_eq_zero_of_dvd hd
    have hd' : 2^lam ∣ o := Dvd.dvd.trans ⟨2, by rw [pow_succ]⟩ hd
    have ho2 := c19_mult_add_lt l lam o hlam ho hd
    have hd2 : 2^lam ∣ o + 2^lam := Dvd.dvd.add hd' (dvd_refl _)
    rw [c19_packLayers_succ, c19_packLayer_even k l lam _ o ho hmod, ih (by omega) o ho hd',
      ih (by omega) (o + 2^lam) ho2 hd2]
    rfl

/-- the noise of slot `o` after `lam` layers when the merge producing slot o of layer lam+1 contributes `ν lam o`:
    Z_{0,o} = 0,  Z_{lam+1,o} = packMerge(Z_{lam,o}, Z_{lam,o+2^lam}) + ν_{lam,o}   (the butterfly is linear) -/
def c19k_nodeNoise (k : Nat) (ν : Nat → Nat → Array Int) : Nat → Nat → Array Int
  | 0, _ => Array.replicate (2^k) 0
  | lam+1, o => addPoly (2^k) (packMerge k lam (c19k_nodeNoise k ν lam o) (c19k_nodeNoise k ν lam (o + 2^lam))) (ν lam o)

/-- one butterfly on congruences -/
theorem c19k_merge_step (k lam : Nat) (q : Int) (Xe Xo Ee Eo Ze Zo X' ν : Array Int)
    (he : ∀ c, c < 2^k → Xe.getD c 0 ≡ Ee.getD c 0 + Ze.getD c 0 [ZMOD q])
    (ho : ∀ c, c < 2^k → Xo.getD c 0 ≡ Eo.getD c 0 + Zo.getD c 0 [ZMOD q])
    (h' : ∀ c, c < 2^k → X'.getD c 0 ≡ (packMerge k lam Xe Xo).getD c 0 + ν.getD c 0 [ZMOD q]) :
    ∀ c, c < 2^k → X'.getD c 0 ≡ (packMerge k lam Ee Eo).getD c 0
      + (addPoly (2^k) (packMerge k lam Ze Zo) ν).getD c 0 [ZMOD q] := by
  intro c hc
  have h1 := c19k_packMerge_modEq k lam q Xe Xo (addPoly (2^k) Ee Ze) (addPoly (2^k) Eo Zo)
    (fun i hi => by rw [c19_addPoly_getD _ _ _ _ hi]; exact he i hi)
    (fun i hi => by rw [c19_addPoly_getD _ _ _ _ hi]; exact ho i hi) c hc
  rw [c19k_packMerge_add k lam Ee Eo Ze Zo c hc] at h1
  have := (h' c hc).trans (h1.add (Int.ModEq.refl (n := q) (ν.getD c 0)))
  rw [c19_addPoly_getD _ _ _ _ hc]
  unfold Int.ModEq at this ⊢
  rw [this]; congr 1; ring

theorem c19k_nodeNoise_at (k : Nat) (ν : Nat → Nat → Array Int) (lam : Nat) (hlam : lam + 1 ≤ k) (o u : Nat) (hu : u < 2^(lam+1)) :
    (c19k_nodeNoise k ν (lam+1) o).getD (2^(k-(lam+1)) * u) 0 =
      (if u % 2 = 0 then 2 * (c19k_nodeNoise k ν lam o).getD (2^(k-lam) * (u / 2)) 0
       else 2 * (c19k_nodeNoise k ν lam (o + 2^lam)).getD (2^(k-lam) * (u / 2)) 0)
      + (ν lam o).getD (2^(k-(lam+1)) * u) 0 := by
  have hw := c19_pow_split k (lam+1) hlam
  have hlt : 2^(k-(lam+1)) * u < 2^k := by
    rw [← hw]; exact Nat.mul_lt_mul_of_pos_left hu (Nat.two_pow_pos _)
  have hkk : 2^(k-lam) = 2^(k-(lam+1)) * 2 := by
    rw [← pow_succ]; congr 1; omega
  show (addPoly (2^k) (packMerge k lam _ _) _).getD _ 0 = _
  rw [c19_addPoly_getD _ _ _ _ hlt, c19_packMerge_at_mult k lam hlam _ _ u hu]
  by_cases hev : u % 2 = 0
  · have e1 : 2^(k-(lam+1)) * u = 2^(k-lam) * (u / 2) := by
      rw [hkk, Nat.mul_assoc]; congr 1; omega
    rw [if_pos hev, if_pos hev, ← e1]
  · have e1 : 2^(k-(lam+1)) * (u - 1) = 2^(k-lam) * (u / 2) := by
      rw [hkk, Nat.mul_assoc]; congr 1; omega
    rw [if_neg hev, if_neg hev, e1]

/-- EXPLICIT BOUND for the merge tree, at the coefficients later layers read (the multiples of N/2^lam): every merge doubles the
    incoming noise and adds its own, P·|Z_{lam,o}[(N/2^lam)·u]| ≤ (2^lam − 1)·D -/
theorem c19k_nodeNoise_bound (k : Nat) (ν : Nat → Nat → Array Int) (P D : Nat) (lam : Nat) (hlam : lam ≤ k)
    (h : ∀ i, i < lam → ∀ o c, c < 2^k → ((ν i o).getD c 0).natAbs * P ≤ D) :
    ∀ o u, u < 2^lam → ((c19k_nodeNoise k ν lam o).getD (2^(k-lam) * u) 0).natAbs * P ≤ (2^lam - 1) * D := by
  induction lam with
  | zero =>
    intro o u _
    have : (c19k_nodeNoise k ν 0 o).getD (2^(k-0) * u) 0 = 0 := c19_getD_replicate _ _ _
    rw [this]; simp
  | succ lam ih =>
    intro o u hu
    have ih' := ih (by omega) (fun i hi => h i (by omega))
    have hw := c19_pow_split k (lam+1) hlam
    have hlt : 2^(k-(lam+1)) * u < 2^k := by
      rw [← hw]; exact Nat.mul_lt_mul_of_pos_left hu (Nat.two_pow_pos _)
    have hu2 : u / 2 < 2^lam := by rw [pow_succ] at hu; omega
    rw [c19k_nodeNoise_at k ν lam hlam o u hu]
    have h3 := h lam (by omega) o _ hlt
    obtain ⟨p, hp⟩ : ∃ p, 2^lam = p + 1 := ⟨2^lam - 1, by have := Nat.two_pow_pos lam; omega⟩
    have e1 : 2^lam - 1 = p := by omega
    have e2 : 2^(lam+1) - 1 = 2 * p + 1 := by rw [pow_succ]; omega
    rw [e2]
    have key : ∀ z : Int, z.natAbs * P ≤ p * D →
        (2 * z + (ν lam o).getD (2^(k-(lam+1)) * u) 0).natAbs * P ≤ (2 * p + 1) * D := by
      intro z hz
      have habs : (2 * z + (ν lam o).getD (2^(k-(lam+1)) * u) 0).natAbs
          ≤ 2 * z.natAbs + ((ν lam o).getD (2^(k-(lam+1)) * u) 0).natAbs := by
        refine (Int.natAbs_add_le _ _).trans ?_
        rw [Int.natAbs_mul]; rfl
      calc _ ≤ (2 * z.natAbs + ((ν lam o).getD (2^(k-(lam+1)) * u) 0).natAbs) * P := Nat.mul_le_mul_right _ habs
        _ = 2 * (z.natAbs * P) + ((ν lam o).getD (2^(k-(lam+1)) * u) 0).natAbs * P := by ring
        _ ≤ 2 * (p * D) + D := by omega
        _ = (2 * p + 1) * D := by ring
    split
    · exact key _ (by have := ih' o (u / 2) hu2; rwa [e1] at this)
    · exact key _ (by have := ih' (o + 2^lam) (u / 2) hu2; rwa [e1] at this)

/-- BGV: divisibility by t at the same coefficients -/
theorem c19k_nodeNoise_dvd (k : Nat) (ν : Nat → Nat → Array Int) (t : Int) (lam : Nat) (hlam : lam ≤ k)
    (h : ∀ i, i < lam → ∀ o c, c < 2^k → t ∣ (ν i o).getD c 0) :
    ∀ o u, u < 2^lam → t ∣ (c19k_nodeNoise k ν lam o).getD (2^(k-lam) * u) 0 := by
  induction lam with
  | zero =>
    intro o u _
    have : (c19k_nodeNoise k ν 0 o).getD (2^(k-0) * u) 0 = 0 := c19_getD_replicate _ _ _
    rw [this]; exact dvd_zero _
  | succ lam ih =>
    intro o u hu
    have ih' := ih (by omega) (fun i hi => h i (by omega))
    have hw := c19_pow_split k (lam+1) hlam
    have hlt : 2^(k-(lam+1)) * u < 2^k := by
      rw [← hw]; exact Nat.mul_lt_mul_of_pos_left hu (Nat.two_pow_pos _)
    have hu2 : u / 2 < 2^lam := by rw [pow_succ] at hu; omega
    rw [c19k_nodeNoise_at k ν lam hlam o u hu]
    refine dvd_add ?_ (h lam (by omega) o _ hlt)
    split
    · exact Dvd.dvd.mul_left (ih' o (u / 2) hu2) 2
    · exact Dvd.dvd.mul_left (ih' (o + 2^lam) (u / 2) hu2) 2


/-! ## L2 on the model: the monomial shift of a ciphertext, the butterfly -/

/-- `polymod::negacyclic_shift_ps(ct.data(), shift, ct.size(), N, modulus, out)`: every component of every polynomial shifted
    (coefficient form) -/
def c19k_shiftCt (l : Level) (ct : Ct) (sh : Nat) : Ct :=
  { ct with polys := ct.polys.map fun p => Array.ofFn (n := l.size) fun i => negacyclicShift (p.getD i.val #[]) sh (l.q i.val) }

theorem c19k_negQ_lt (q x : Nat) (hx : x < q) : c19_negQ q x < q := by
  unfold c19_negQ; split <;> omega

theorem c19k_negQ_int (q x : Nat) (hx : x ≤ q) : ((c19_negQ q x : Nat) : Int) ≡ - (x : Int) [ZMOD (q : Int)] := by
  unfold c19_negQ
  split
  · next h => subst h; simp
  · rw [Nat.cast_sub hx]
    have : ((q : Int) - x) = - (x : Int) + q := by ring
    rw [this]
    exact Int.add_modEq_right

/-- value level: the shifted component is canonical and, as integers modulo q, is `shiftPoly` of the component -/
theorem c19k_shift_comp (a : Array Nat) (sh : Nat) (m : Modulus) (hcan : ∀ i, i < a.size → a.getD i 0 < m.value)
    (f : Nat → Int) (hf : ∀ i, i < a.size → f i = ((a.getD i 0 : Nat) : Int)) (c : Nat) (hc : c < a.size) :
    (negacyclicShift a sh m).getD c 0 < m.value ∧
    (((negacyclicShift a sh m).getD c 0 : Nat) : Int) ≡
      (shiftPoly a.size (Array.ofFn (n := a.size) fun i => f i.val) sh).getD c 0 [ZMOD (m.value : Int)] := by
  have hn : 0 < a.size := by omega
  have hr : sh % a.size < a.size := Nat.mod_lt _ hn
  have hg : ∀ i, i < a.size → (Array.ofFn (n := a.size) fun i => f i.val).getD i 0 = ((a.getD i 0 : Nat) : Int) :=
    fun i hi => by rw [c19_getD_ofFn _ _ _ hi]; exact hf i hi
  rw [c19_shift_coeff_rule a sh m c hc, c19_shiftPoly_getD _ _ _ _ hc]
  by_cases hle : sh % a.size ≤ c
  · have hi : c - sh % a.size < a.size := by omega
    rw [if_pos hle, if_pos hle, hg _ hi]
    by_cases hp : sh / a.size % 2 = 1
    · rw [if_pos hp, if_pos hp]
      exact ⟨c19k_negQ_lt _ _ (hcan _ hi), c19k_negQ_int _ _ (le_of_lt (hcan _ hi))⟩
    · rw [if_neg hp, if_neg hp]
      exact ⟨hcan _ hi, Int.ModEq.refl _⟩
  · have hi : c + a.size - sh % a.size < a.size := by omega
    rw [if_neg hle, if_neg hle, hg _ hi]
    by_cases hp : sh / a.size % 2 = 1
    · rw [if_pos hp, if_pos hp]
      exact ⟨hcan _ hi, Int.ModEq.refl _⟩
    · rw [if_neg hp, if_neg hp]
      exact ⟨c19k_negQ_lt _ _ (hcan _ hi), c19k_negQ_int _ _ (le_of_lt (hcan _ hi))⟩

/-- the monomial shift commutes with the negacyclic product: (X^sh·a1) ⋆ s = X^sh·(a1 ⋆ s) -/
theorem c19k_shift_negMul (n : Nat) (hn : 0 < n) (sh : Nat) (a1 s : Nat → Int) (c : Nat) (hc : c < n) :
    negMulR n (fun i => (shiftPoly n (Array.ofFn (n := n) fun i => a1 i.val) sh).getD i 0) s c =
      (shiftPoly n (Array.ofFn (n := n) fun i => negMulR n a1 s i.val) sh).getD c 0 := by
  have h1 : negMulR n (fun i => (shiftPoly n (Array.ofFn (n := n) fun i => a1 i.val) sh).getD i 0) s c
      = negMulR n (negMulR n a1 (c19_mono n sh)) s c := by
    apply c05u_negMul_congr
    intro i hi
    rw [c19_shift_is_mul n hn _ sh i hi]
    apply c05u_negMul_congr
    intro j hj
    rw [c19_getD_ofFn _ _ _ hj]
  have h2 : (shiftPoly n (Array.ofFn (n := n) fun i => negMulR n a1 s i.val) sh).getD c 0
      = negMulR n (negMulR n a1 s) (c19_mono n sh) c := by
    rw [c19_shift_is_mul n hn _ sh c hc]
    apply c05u_negMul_congr
    intro j hj
    rw [c19_getD_ofFn _ _ _ hj]
  rw [h1, h2, c04k_assoc n _ _ _ hc, c04k_assoc n _ _ _ hc]
  exact c04k_congr_right n _ _ _ hc (fun i hi => c04k_comm n _ _ hi)

/-- hence the phase of the shifted pair is the shifted phase -/
theorem c19k_shift_phase2 (n : Nat) (hn : 0 < n) (sh : Nat) (a0 a1 s : Nat → Int) (c : Nat) (hc : c < n) :
    (shiftPoly n (Array.ofFn (n := n) fun i => a0 i.val) sh).getD c 0
      + negMulR n (fun i => (shiftPoly n (Array.ofFn (n := n) fun i => a1 i.val) sh).getD i 0) s c
    = (shiftPoly n (Array.ofFn (n := n) fun i => c05u_phase2 n a0 a1 s i.val) sh).getD c 0 := by
  rw [c19k_shift_negMul n hn sh a1 s c hc]
  obtain ⟨i, hi, neg, hperm⟩ := c19k_shiftPoly_perm n sh c hc
  rw [hperm, hperm, hperm, c19_getD_ofFn _ _ _ hi, c19_getD_ofFn _ _ _ hi, c19_getD_ofFn _ _ _ hi]
  unfold c05u_phase2
  cases neg with
  | true => simp; ring
  | false => simp


theorem c19k_shift_comp' (a : Array Nat) (n : Nat) (hs : a.size = n) (sh : Nat) (m : Modulus)
    (hcan : ∀ i, i < n → a.getD i 0 < m.value)
    (f : Nat → Int) (hf : ∀ i, i < n → f i = ((a.getD i 0 : Nat) : Int)) (c : Nat) (hc : c < n) :
    (negacyclicShift a sh m).getD c 0 < m.value ∧
    (((negacyclicShift a sh m).getD c 0 : Nat) : Int) ≡
      (shiftPoly n (Array.ofFn (n := n) fun i => f i.val) sh).getD c 0 [ZMOD (m.value : Int)] := by
  subst hs
  exact c19k_shift_comp a sh m hcan f hf c hc

theorem c19k_map_getD {α β : Type} (a : Array α) (f : α → β) (k : Nat) (hk : k < a.size) (d : α) (d' : β) :
    (a.map f).getD k d' = f (a.getD k d) := by
  simp [Array.getD, hk]

theorem c19k_polyI_coeff (t : NTTTables) (p : Poly) (c : Nat) : c04k_polyI t false p c = ((p.getD c 0 : Nat) : Int) := by
  unfold c04k_polyI c04t_coefOf; simp

theorem c19k_shiftCt_poly (l : Level) (ct : Ct) (sh k j : Nat) (hk : k < ct.polys.size) (hj : j < l.size) :
    ((c19k_shiftCt l ct sh).polys.getD k #[]).getD j #[] = negacyclicShift ((ct.polys.getD k #[]).getD j #[]) sh (l.q j) := by
  unfold c19k_shiftCt
  show ((ct.polys.map _).getD k #[]).getD j #[] = _
  rw [c19k_map_getD _ _ _ hk #[] #[], c19_getD_ofFn _ _ _ hj]

/-- the monomial shift of a canonical coefficient-form ciphertext: canonical, and the phase is shifted -/
theorem c19k_shiftCt_spec {kl : KeyLevel} {l : Level} (hl : c04k_LevelOf kl l) {ct : Ct} (hct : c19k_CtOK l ct)
    (hntt : ct.ntt = false) (sh : Nat) (s : Nat → Int) :
    c19k_CtOK l (c19k_shiftCt l ct sh) ∧ (c19k_shiftCt l ct sh).ntt = false ∧ (c19k_shiftCt l ct sh).cf = ct.cf ∧
    ∀ j, j < l.size → ∀ c, c < 2^l.k →
      (c19k_phase kl j (c19k_shiftCt l ct sh) s).getD c 0 ≡ (shiftPoly (2^l.k) (c19k_phase kl j ct s) sh).getD c 0
        [ZMOD ((kl.m j).value : Int)] := by
  have hsz : (c19k_shiftCt l ct sh).polys.size = 2 := by unfold c19k_shiftCt; simp [hct.1]
  have hcomp : ∀ k, k < 2 → ∀ j, j < l.size → ∀ c, c < kl.n →
      (((c19k_shiftCt l ct sh).polys.getD k #[]).getD j #[]).getD c 0 < (kl.m j).value ∧
      ((((((c19k_shiftCt l ct sh).polys.getD k #[]).getD j #[]).getD c 0 : Nat)) : Int) ≡
        (shiftPoly kl.n (Array.ofFn (n := kl.n) fun i =>
          c04k_polyI (kl.tb j) false ((ct.polys.getD k #[]).getD j #[]) i.val) sh).getD c 0 [ZMOD ((kl.m j).value : Int)] := by
    intro k hk j hj c hc
    have hA := c19k_canon_of_rns hl (hct.2 k hk) j hj
    rw [c19k_shiftCt_poly l ct sh k j (by rw [hct.1]; exact hk) hj, hl.q j hj]
    exact c19k_shift_comp' _ kl.n hA.1 sh (kl.m j) hA.2 _ (fun i _ => c19k_polyI_coeff _ _ i) c hc
  refine ⟨⟨hsz, fun k hk => ⟨?_, fun j hj => ⟨?_, fun c hc => ?_⟩⟩⟩, hntt, rfl, fun j hj c hc => ?_⟩
  · unfold c19k_shiftCt
    show ((ct.polys.map _).getD k #[]).size = _
    rw [c19k_map_getD _ _ _ (by rw [hct.1]; exact hk) #[] #[]]; simp
  · rw [c19k_shiftCt_poly l ct sh k j (by rw [hct.1]; exact hk) hj, c19_negacyclicShift_size]
    exact ((hct.2 k hk).2 j hj).1
  · rw [hl.q j hj]; exact (hcomp k hk j hj c (by rw [← hl.n]; exact hc)).1
  · rw [hl.k] at hc ⊢
    rw [c19k_phase_getD _ _ _ _ _ hc]
    have hn0 : 0 < kl.n := by omega
    have e : (c19k_shiftCt l ct sh).ntt = false := hntt
    rw [e]
    unfold c05u_phase2
    have hp : ∀ k, k < 2 → ∀ i, i < kl.n →
        c04k_polyI (kl.tb j) false (((c19k_shiftCt l ct sh).polys.getD k #[]).getD j #[]) i ≡
          (shiftPoly kl.n (Array.ofFn (n := kl.n) fun i =>
            c04k_polyI (kl.tb j) false ((ct.polys.getD k #[]).getD j #[]) i.val) sh).getD i 0 [ZMOD ((kl.m j).value : Int)] := by
      intro k hk i hi
      rw [c19k_polyI_coeff]; exact (hcomp k hk j hj i hi).2
    have h1 := c04k_negMul_modEq kl.n ((kl.m j).value : Int) hc
      (a := c04k_polyI (kl.tb j) false (((c19k_shiftCt l ct sh).polys.getD 1 #[]).getD j #[]))
      (a' := fun i => (shiftPoly kl.n (Array.ofFn (n := kl.n) fun i =>
            c04k_polyI (kl.tb j) false ((ct.polys.getD 1 #[]).getD j #[]) i.val) sh).getD i 0)
      (b := s) (b' := s)
      (fun i hi => hp 1 (by omega) i hi) (fun i _ => Int.ModEq.refl (s i))
    have := (hp 0 (by omega) c hc).add h1
    rw [c19k_shift_phase2 kl.n hn0 sh _ _ s c hc] at this
    have e2 : c19k_phase kl j ct s = Array.ofFn (n := kl.n) fun i =>
        c05u_phase2 kl.n (c04k_polyI (kl.tb j) false ((ct.polys.getD 0 #[]).getD j #[]))
          (c04k_polyI (kl.tb j) false ((ct.polys.getD 1 #[]).getD j #[])) s i.val := by
      unfold c19k_phase; rw [hntt]
    rw [e2]
    exact this


/-- `transform_to_ntt_inplace` / `transform_from_ntt_inplace` on a ciphertext -/
def c19k_toNtt (l : Level) (ct : Ct) : Ct := { ct with polys := ct.polys.map (rnsNtt l), ntt := true }
def c19k_fromNtt (l : Level) (ct : Ct) : Ct := { ct with polys := ct.polys.map (rnsIntt l), ntt := false }

/-- the level's NTT tables are the key level's tables of the same primes -/
def c19k_TablesOf (kl : KeyLevel) (l : Level) : Prop := ∀ j, j < l.size → l.tbl j = kl.tb j

theorem c19k_toNtt_poly (l : Level) (ct : Ct) (k j : Nat) (hk : k < ct.polys.size) (hj : j < l.size) :
    ((c19k_toNtt l ct).polys.getD k #[]).getD j #[] = ntt (l.tbl j) ((ct.polys.getD k #[]).getD j #[]) := by
  unfold c19k_toNtt
  show ((ct.polys.map _).getD k #[]).getD j #[] = _
  rw [c19k_map_getD _ _ _ hk #[] #[]]
  unfold rnsNtt
  rw [c19_getD_ofFn _ _ _ hj]

theorem c19k_fromNtt_poly (l : Level) (ct : Ct) (k j : Nat) (hk : k < ct.polys.size) (hj : j < l.size) :
    ((c19k_fromNtt l ct).polys.getD k #[]).getD j #[] = intt (l.tbl j) ((ct.polys.getD k #[]).getD j #[]) := by
  unfold c19k_fromNtt
  show ((ct.polys.map _).getD k #[]).getD j #[] = _
  rw [c19k_map_getD _ _ _ hk #[] #[]]
  unfold rnsIntt
  rw [c19_getD_ofFn _ _ _ hj]

theorem c19k_toNtt_spec {kl : KeyLevel} {l : Level} (hl : c04k_LevelOf kl l) (hkl : kl.WF) (hd : l.size + 1 ≤ kl.ms.size)
    (hT : c19k_TablesOf kl l) {ct : Ct} (hct : c19k_CtOK l ct) (hntt : ct.ntt = false) (s : Nat → Int) :
    c19k_CtOK l (c19k_toNtt l ct) ∧ (c19k_toNtt l ct).ntt = true ∧ (c19k_toNtt l ct).cf = ct.cf ∧
    ∀ j, j < l.size → ∀ c, c < 2^l.k → (c19k_phase kl j (c19k_toNtt l ct) s).getD c 0 = (c19k_phase kl j ct s).getD c 0 := by
  have hsz : (c19k_toNtt l ct).polys.size = 2 := by unfold c19k_toNtt; simp [hct.1]
  have hfacts : ∀ k, k < 2 → ∀ j, j < l.size →
      (((c19k_toNtt l ct).polys.getD k #[]).getD j #[]) = ntt (kl.tb j) ((ct.polys.getD k #[]).getD j #[]) ∧
      ((ct.polys.getD k #[]).getD j #[]).size = 2^(kl.tb j).k ∧
      ∀ i, i < 2^(kl.tb j).k → ((ct.polys.getD k #[]).getD j #[]).getD i 0 < (kl.tb j).modulus.value := by
    intro k hk j hj
    obtain ⟨htw, htm, htn, hmw⟩ := c04t_kl_comp hkl (show j < kl.ms.size by omega)
    have hA := c19k_canon_of_rns hl (hct.2 k hk) j hj
    refine ⟨by rw [c19k_toNtt_poly l ct k j (by rw [hct.1]; exact hk) hj, hT j hj], by rw [hA.1, htn], fun i hi => ?_⟩
    rw [htm]; exact hA.2 i (by rw [← htn]; exact hi)
  refine ⟨⟨hsz, fun k hk => ⟨?_, fun j hj => ?_⟩⟩, rfl, rfl, fun j hj c hc => ?_⟩
  · unfold c19k_toNtt
    show ((ct.polys.map _).getD k #[]).size = _
    rw [c19k_map_getD _ _ _ (by rw [hct.1]; exact hk) #[] #[]]; simp [rnsNtt]
  · obtain ⟨htw, htm, htn, hmw⟩ := c04t_kl_comp hkl (show j < kl.ms.size by omega)
    obtain ⟨e1, e2, e3⟩ := hfacts k hk j hj
    obtain ⟨f1, f2⟩ := ntt_sim htw _ e2 (fun i hi => by have := e3 i hi; omega)
    rw [e1, hl.q j hj, hl.n]
    refine ⟨by rw [f1, htn], fun i hi => ?_⟩
    rw [← htm]; exact (f2 i (by rw [htn]; exact hi)).2.1
  · obtain ⟨htw, htm, htn, hmw⟩ := c04t_kl_comp hkl (show j < kl.ms.size by omega)
    have hc' : c < kl.n := by rw [← hl.k]; exact hc
    rw [c19k_phase_getD _ _ _ _ _ hc', c19k_phase_getD _ _ _ _ _ hc']
    have e : (c19k_toNtt l ct).ntt = true := rfl
    have hp : ∀ k, k < 2 → c04k_polyI (kl.tb j) true (((c19k_toNtt l ct).polys.getD k #[]).getD j #[])
        = c04k_polyI (kl.tb j) false ((ct.polys.getD k #[]).getD j #[]) := by
      intro k hk
      obtain ⟨e1, e2, e3⟩ := hfacts k hk j hj
      funext x
      unfold c04k_polyI c04t_coefOf
      simp only [if_true, Bool.false_eq_true, if_false]
      rw [e1, intt_ntt htw _ e2 e3]
    rw [e, hntt, hp 0 (by omega), hp 1 (by omega)]

theorem c19k_fromNtt_spec {kl : KeyLevel} {l : Level} (hl : c04k_LevelOf kl l) (hkl : kl.WF) (hd : l.size + 1 ≤ kl.ms.size)
    (hT : c19k_TablesOf kl l) {ct : Ct} (hct : c19k_CtOK l ct) (hntt : ct.ntt = true) (s : Nat → Int) :
    c19k_CtOK l (c19k_fromNtt l ct) ∧ (c19k_fromNtt l ct).ntt = false ∧ (c19k_fromNtt l ct).cf = ct.cf ∧
    ∀ j, j < l.size → ∀ c, c < 2^l.k → (c19k_phase kl j (c19k_fromNtt l ct) s).getD c 0 = (c19k_phase kl j ct s).getD c 0 := by
  have hsz : (c19k_fromNtt l ct).polys.size = 2 := by unfold c19k_fromNtt; simp [hct.1]
  have hpoly : ∀ k, k < 2 → ∀ j, j < l.size →
      (((c19k_fromNtt l ct).polys.getD k #[]).getD j #[]) = intt (kl.tb j) ((ct.polys.getD k #[]).getD j #[]) := by
    intro k hk j hj
    rw [c19k_fromNtt_poly l ct k j (by rw [hct.1]; exact hk) hj, hT j hj]
  refine ⟨⟨hsz, fun k hk => ⟨?_, fun j hj => ?_⟩⟩, rfl, rfl, fun j hj c hc => ?_⟩
  · unfold c19k_fromNtt
    show ((ct.polys.map _).getD k #[]).size = _
    rw [c19k_map_getD _ _ _ (by rw [hct.1]; exact hk) #[] #[]]; simp [rnsIntt]
  · obtain ⟨htw, htm, htn, hmw⟩ := c04t_kl_comp hkl (show j < kl.ms.size by omega)
    have hA := c19k_canon_of_rns hl (hct.2 k hk) j hj
    obtain ⟨f1, f2⟩ := intt_sim htw ((ct.polys.getD k #[]).getD j #[]) (by rw [hA.1, htn])
      (fun i hi => by rw [htm]; have := hA.2 i (by rw [← htn]; exact hi); omega)
    rw [hpoly k hk j hj, hl.q j hj, hl.n]
    refine ⟨by rw [f1, htn], fun i hi => ?_⟩
    rw [← htm]; exact (f2 i (by rw [htn]; exact hi)).1
  · have hc' : c < kl.n := by rw [← hl.k]; exact hc
    rw [c19k_phase_getD _ _ _ _ _ hc', c19k_phase_getD _ _ _ _ _ hc']
    have e : (c19k_fromNtt l ct).ntt = false := rfl
    have hp : ∀ k, k < 2 → c04k_polyI (kl.tb j) false (((c19k_fromNtt l ct).polys.getD k #[]).getD j #[])
        = c04k_polyI (kl.tb j) true ((ct.polys.getD k #[]).getD j #[]) := by
      intro k hk
      funext x
      unfold c04k_polyI c04t_coefOf
      simp only [if_true, Bool.false_eq_true, if_false]
      rw [hpoly k hk j hj]
    rw [e, hntt, hp 0 (by omega), hp 1 (by omega)]


/-- one butterfly of `pack_lwe_ciphertexts` on the model, operands in coefficient form (as the loop keeps them):
    `temp = X^shift·odd; odd = even − temp; even += temp; [to NTT unless BFV]; apply_galois_inplace(odd, 2^(layer+1)+1);
     [from NTT]; even += odd`; the value is the new `even`. -/
def c19k_mergeCt (kl : KeyLevel) (l : Level) (scheme : Scheme) (lam : Nat) (key : KSKey) (even odd : Ct) : R Ct := do
  let temp := c19k_shiftCt l odd (l.n / 2^(lam+1))
  let odd1 ← ctTranslateBalanced l even temp true
  let even1 ← ctTranslateBalanced l even temp false
  let odd2 := if scheme = .bfv then odd1 else c19k_toNtt l odd1
  let odd3 ← applyGalois kl l scheme odd2 (2^(lam+1) + 1) key
  let odd4 := if scheme = .bfv then odd3 else c19k_fromNtt l odd3
  ctTranslateBalanced l even1 odd4 false

/-- what `applyGalois` does to a canonical ciphertext, in array form: phase ≡ σ_g(phase) + ν -/
def c19k_GaloisSpec (kl : KeyLevel) (l : Level) (ct t : Ct) (g : Nat) (s : Nat → Int) (ν : Array Int) : Prop :=
  c19k_CtOK l t ∧ t.ntt = ct.ntt ∧ t.cf = ct.cf ∧
    ∀ j, j < l.size → ∀ c, c < 2^l.k →
      (c19k_phase kl j t s).getD c 0 ≡ (sigmaPoly (2^l.k) (c19k_phase kl j ct s) g).getD c 0 + ν.getD c 0
        [ZMOD ((kl.m j).value : Int)]

theorem c19k_galois_of {kl : KeyLevel} {l : Level} (hl : c04k_LevelOf kl l)
    {scheme : Scheme} {ct : Ct} {key : KSKey} {g : Nat} (hg : g % 2 = 1) {s : Nat → Int} {ν : Nat → Int}
    (h : ∃ ct', applyGalois kl l scheme ct g key = .ok ct' ∧ ct'.ntt = ct.ntt ∧ ct'.cf = ct.cf ∧ ct'.polys.size = 2 ∧
      (∀ k, k < 2 → (ct'.polys.getD k #[]).size = l.size ∧ c04t_Canon kl l.size (ct'.polys.getD k #[])) ∧
      ∀ j, j < l.size → ∀ c, c < kl.n →
        c05u_phase2 kl.n (c04k_polyI (kl.tb j) ct.ntt ((ct'.polys.getD 0 #[]).getD j #[]))
            (c04k_polyI (kl.tb j) ct.ntt ((ct'.polys.getD 1 #[]).getD j #[])) s c
          ≡ c04k_sigma kl.n g (c05u_phase2 kl.n (c04k_polyI (kl.tb j) ct.ntt ((ct.polys.getD 0 #[]).getD j #[]))
              (c04k_polyI (kl.tb j) ct.ntt ((ct.polys.getD 1 #[]).getD j #[])) s) c
            + ν c [ZMOD ((kl.m j).value : Int)]) :
    ∃ t, applyGalois kl l scheme ct g key = .ok t ∧
      c19k_GaloisSpec kl l ct t g s (Array.ofFn (n := kl.n) fun c => ν c.val) := by
  obtain ⟨t, ht, htn, htcf, hts, htc, htph⟩ := h
  refine ⟨t, ht, ⟨hts, fun k hk => c19k_rns_of_canon hl (htc k hk).1 (htc k hk).2⟩, htn, htcf, fun j hj c hc => ?_⟩
  have hc' : c < kl.n := by rw [← hl.k]; exact hc
  rw [c19_getD_ofFn _ _ _ hc']
  rw [c19k_sigma_fn kl.n l.k g hl.k hg _ _ (fun i hi => c19k_phase_getD kl j ct s i hi) c hc']
  have h2 := htph j hj c hc'
  have e := c19k_phase_getD kl j t s c hc'
  rw [htn] at e
  rw [← e] at h2
  exact h2

/-- the butterfly, generically in the Galois step -/
theorem c19k_merge_generic {kl : KeyLevel} {l : Level} (hl : c04k_LevelOf kl l) (hkl : kl.WF) (hd : l.size + 1 ≤ kl.ms.size)
    {scheme : Scheme} (hT : scheme ≠ .bfv → c19k_TablesOf kl l) {key : KSKey} {even odd : Ct}
    (he : c19k_CtOK l even) (ho : c19k_CtOK l odd) (hen : even.ntt = false) (hon : odd.ntt = false) (hcf : even.cf = odd.cf)
    (lam : Nat) (s : Nat → Int) (ν : Ct → Array Int)
    (hgal : ∀ x, c19k_CtOK l x → x.ntt = (if scheme = .bfv then false else true) →
      ∃ t, applyGalois kl l scheme x (2^(lam+1) + 1) key = .ok t ∧ c19k_GaloisSpec kl l x t (2^(lam+1) + 1) s (ν x)) :
    ∃ r x, c19k_mergeCt kl l scheme lam key even odd = .ok r ∧ c19k_CtOK l r ∧ r.ntt = false ∧ r.cf = even.cf ∧
      (∃ odd1, ctTranslateBalanced l even (c19k_shiftCt l odd (l.n / 2^(lam+1))) true = .ok odd1 ∧
        x = if scheme = .bfv then odd1 else c19k_toNtt l odd1) ∧
      c19k_CtOK l x ∧ x.ntt = (if scheme = .bfv then false else true) ∧
      ∀ j, j < l.size → ∀ c, c < 2^l.k →
        (c19k_phase kl j r s).getD c 0 ≡
          (packMerge l.k lam (c19k_phase kl j even s) (c19k_phase kl j odd s)).getD c 0 + (ν x).getD c 0
            [ZMOD ((kl.m j).value : Int)] := by
  have hln : l.n = 2^l.k := by rw [hl.n, hl.k]
  obtain ⟨htok, htn, htcf, htph⟩ := c19k_shiftCt_spec hl ho hon (l.n / 2^(lam+1)) s
  set temp := c19k_shiftCt l odd (l.n / 2^(lam+1)) with htemp
  obtain ⟨odd1, h1, h1ok, h1n, h1f, h1ph⟩ :=
    c19k_translate_phase hl hkl hd he htok (by rw [hen, htn]) (by rw [htcf, hcf]) true s
  obtain ⟨even1, h2, h2ok, h2n, h2f, h2ph⟩ :=
    c19k_translate_phase hl hkl hd he htok (by rw [hen, htn]) (by rw [htcf, hcf]) false s
  simp only [if_true] at h1ph
  simp only [Bool.false_eq_true, if_false] at h2ph
  -- the Galois input
  obtain ⟨x, hx, hxok, hxn, hxf, hxph⟩ : ∃ x, x = (if scheme = .bfv then odd1 else c19k_toNtt l odd1) ∧ c19k_CtOK l x ∧
      x.ntt = (if scheme = .bfv then false else true) ∧ x.cf = even.cf ∧
      ∀ j, j < l.size → ∀ c, c < 2^l.k → (c19k_phase kl j x s).getD c 0 = (c19k_phase kl j odd1 s).getD c 0 := by
    by_cases hs : scheme = .bfv
    · exact ⟨odd1, by rw [if_pos hs], h1ok, by rw [if_pos hs, h1n, hen], h1f, fun _ _ _ _ => rfl⟩
    · obtain ⟨a1, a2, a3, a4⟩ := c19k_toNtt_spec hl hkl hd (hT hs) h1ok (by rw [h1n, hen]) s
      exact ⟨c19k_toNtt l odd1, by rw [if_neg hs], a1, by rw [if_neg hs]; exact a2, by rw [a3, h1f], a4⟩
  obtain ⟨t, ht, htok', htn', htf', htph'⟩ := hgal x hxok hxn
  -- back to coefficient form
  obtain ⟨y, hy, hyok, hyn, hyf, hyph⟩ : ∃ y, y = (if scheme = .bfv then t else c19k_fromNtt l t) ∧ c19k_CtOK l y ∧
      y.ntt = false ∧ y.cf = even.cf ∧
      ∀ j, j < l.size → ∀ c, c < 2^l.k → (c19k_phase kl j y s).getD c 0 = (c19k_phase kl j t s).getD c 0 := by
    by_cases hs : scheme = .bfv
    · exact ⟨t, by rw [if_pos hs], htok', by rw [htn', hxn, if_pos hs], by rw [htf', hxf], fun _ _ _ _ => rfl⟩
    · obtain ⟨a1, a2, a3, a4⟩ := c19k_fromNtt_spec hl hkl hd (hT hs) htok' (by rw [htn', hxn, if_neg hs]) s
      exact ⟨c19k_fromNtt l t, by rw [if_neg hs], a1, a2, by rw [a3, htf', hxf], a4⟩
  obtain ⟨r, h3, h3ok, h3n, h3f, h3ph⟩ :=
    c19k_translate_phase hl hkl hd h2ok hyok (by rw [h2n, hen, hyn]) (by rw [h2f, hyf]) false s
  simp only [Bool.false_eq_true, if_false] at h3ph
  refine ⟨r, x, ?_, h3ok, by rw [h3n, h2n, hen], by rw [h3f, h2f], ⟨odd1, h1, hx⟩, hxok, hxn, fun j hj c hc => ?_⟩
  · unfold c19k_mergeCt
    simp only [← htemp, h1, h2, bind, Except.bind, ← hx, ht, ← hy]
    exact h3
  · have hc' : c < kl.n := by rw [← hl.k]; exact hc
    have hodd := c19k_odd_two_pow (lam+1) (by omega)
    -- phase of the Galois output: σ(E − X^s O) + ν
    have hsig : (sigmaPoly (2^l.k) (c19k_phase kl j x s) (2^(lam+1)+1)).getD c 0 ≡
        (sigmaPoly (2^l.k) (subPoly (2^l.k) (c19k_phase kl j even s)
          (shiftPoly (2^l.k) (c19k_phase kl j odd s) (2^l.k / 2^(lam+1)))) (2^(lam+1)+1)).getD c 0
          [ZMOD ((kl.m j).value : Int)] := by
      refine c19k_sigma_modEq l.k _ hodd _ _ _ (fun i hi => ?_) c hc
      have hi' : i < kl.n := by rw [← hl.k]; exact hi
      rw [hxph j hj i hi, c19_subPoly_getD _ _ _ _ hi]
      refine (h1ph j hj i hi').trans ((Int.ModEq.refl _).sub ?_)
      have := htph j hj i hi
      rw [hln] at this
      exact this
    have hT1 := htph j hj c hc
    rw [hln] at hT1
    have hY : (c19k_phase kl j y s).getD c 0 ≡
        (sigmaPoly (2^l.k) (subPoly (2^l.k) (c19k_phase kl j even s)
          (shiftPoly (2^l.k) (c19k_phase kl j odd s) (2^l.k / 2^(lam+1)))) (2^(lam+1)+1)).getD c 0 + (ν x).getD c 0
          [ZMOD ((kl.m j).value : Int)] := by
      rw [hyph j hj c hc]; exact (htph' j hj c hc).trans (hsig.add (Int.ModEq.refl _))
    have hfin := (h3ph j hj c hc').trans (((h2ph j hj c hc').trans ((Int.ModEq.refl _).add hT1)).add hY)
    unfold packMerge
    simp only
    rw [c19_addPoly_getD _ _ _ _ hc, c19_addPoly_getD _ _ _ _ hc]
    unfold Int.ModEq at hfin ⊢
    rw [hfin]; congr 1; ring


/-! ## L2 on the model: the merge tree -/

def c19k_val (x : R Ct) : Ct := match x with | .ok c => c | .error _ => default

/-- slot `o` after `lam` layers of the merge loop of `pack_lwe_ciphertexts`, as a recursion over the butterflies
    (`merge lam even odd` = the new `even` of a butterfly of layer `lam`) -/
def c19k_nodeCt (merge : Nat → Ct → Ct → R Ct) (leaves : Nat → R Ct) : Nat → Nat → R Ct
  | 0, o => leaves o
  | lam+1, o => do
    let ev ← c19k_nodeCt merge leaves lam o
    let od ← c19k_nodeCt merge leaves lam (o + 2^lam)
    merge lam ev od

/-- the noise of the butterfly producing slot o of layer lam+1, as a function of the computation -/
def c19k_nodeNu (merge : Nat → Ct → Ct → R Ct) (leaves : Nat → R Ct) (νf : Nat → Ct → Ct → Array Int) (lam o : Nat) : Array Int :=
  νf lam (c19k_val (c19k_nodeCt merge leaves lam o)) (c19k_val (c19k_nodeCt merge leaves lam (o + 2^lam)))

/-- canonical coefficient-form two-polynomial ciphertext with correction factor f -/
def c19k_CoefOK (l : Level) (f : Nat) (ct : Ct) : Prop := c19k_CtOK l ct ∧ ct.ntt = false ∧ ct.cf = f

theorem c19k_tree_generic {kl : KeyLevel} {l : Level} {s : Nat → Int} (f : Nat)
    (merge : Nat → Ct → Ct → R Ct) (leaves : Nat → R Ct) (νf : Nat → Ct → Ct → Array Int) (L : Nat)
    (hleaves : ∀ o, ∃ ct, leaves o = .ok ct ∧ c19k_CoefOK l f ct)
    (hmerge : ∀ lam, lam < L → ∀ ev od, c19k_CoefOK l f ev → c19k_CoefOK l f od →
      ∃ r, merge lam ev od = .ok r ∧ c19k_CoefOK l f r ∧
        ∀ j, j < l.size → ∀ c, c < 2^l.k →
          (c19k_phase kl j r s).getD c 0 ≡
            (packMerge l.k lam (c19k_phase kl j ev s) (c19k_phase kl j od s)).getD c 0 + (νf lam ev od).getD c 0
              [ZMOD ((kl.m j).value : Int)]) :
    ∀ lam, lam ≤ L → ∀ o, ∃ r, c19k_nodeCt merge leaves lam o = .ok r ∧ c19k_CoefOK l f r ∧
      ∀ j, j < l.size → ∀ c, c < 2^l.k →
        (c19k_phase kl j r s).getD c 0 ≡
          (c19k_nodePoly l.k (fun i => c19k_phase kl j (c19k_val (leaves i)) s) lam o).getD c 0
            + (c19k_nodeNoise l.k (c19k_nodeNu merge leaves νf) lam o).getD c 0 [ZMOD ((kl.m j).value : Int)] := by
  intro lam
  induction lam with
  | zero =>
    intro _ o
    obtain ⟨ct, h1, h2⟩ := hleaves o
    refine ⟨ct, h1, h2, fun j _ c _ => ?_⟩
    have e : (c19k_nodeNoise l.k (c19k_nodeNu merge leaves νf) 0 o).getD c 0 = 0 := c19_getD_replicate _ _ _
    have e2 : c19k_val (leaves o) = ct := by rw [h1]; rfl
    show _ ≡ (c19k_phase kl j (c19k_val (leaves o)) s).getD c 0 + _ [ZMOD _]
    rw [e, e2, add_zero]
  | succ lam ih =>
    intro hlam o
    obtain ⟨ev, a1, a2, a3⟩ := ih (by omega) o
    obtain ⟨od, b1, b2, b3⟩ := ih (by omega) (o + 2^lam)
    obtain ⟨r, c1, c2, c3⟩ := hmerge lam (by omega) ev od a2 b2
    refine ⟨r, ?_, c2, fun j hj => ?_⟩
    · show (do let ev ← c19k_nodeCt merge leaves lam o; let od ← c19k_nodeCt merge leaves lam (o + 2^lam); merge lam ev od) = _
      rw [a1, b1]; exact c1
    · have hν : c19k_nodeNu merge leaves νf lam o = νf lam ev od := by
        unfold c19k_nodeNu; rw [a1, b1]; rfl
      have := c19k_merge_step l.k lam ((kl.m j).value : Int) _ _ _ _ _ _ _ _ (a3 j hj) (b3 j hj) (c3 j hj)
      intro c hc
      show _ ≡ (packMerge l.k lam _ _).getD c 0 + (addPoly (2^l.k) (packMerge l.k lam _ _) _).getD c 0 [ZMOD _]
      rw [hν]
      exact this c hc


/-- the exact tree at the coefficients later layers read: slot o after lam layers holds at coefficient (N/2^lam)·u the constant
    coefficient of leaf o + brev lam u, times 2^lam (`c19_packLayers_inv` for the recursion) -/
theorem c19k_nodePoly_inv {R : Type} [CommRing R] (k : Nat) (leaf : Nat → Array R) (lam : Nat) (hlam : lam ≤ k)
    (o u : Nat) (hu : u < 2^lam) :
    (c19k_nodePoly k leaf lam o).getD (2^(k-lam) * u) 0 = (2:R)^lam * ((leaf (o + brev lam u)).getD 0 0) := by
  induction lam generalizing o u with
  | zero =>
    have : u = 0 := by simpa using hu
    subst this
    simp [c19k_nodePoly, brev]
  | succ lam ih =>
    have hkk : 2^(k-lam) = 2^(k-(lam+1)) * 2 := by
      rw [← pow_succ]; congr 1; omega
    show (packMerge k lam _ _).getD _ 0 = _
    rw [c19_packMerge_at_mult k lam (by omega) _ _ u hu]
    by_cases hev : u % 2 = 0
    · obtain ⟨u', rfl⟩ : ∃ u', u = 2 * u' := ⟨u / 2, by omega⟩
      have hu' : u' < 2^lam := by rw [pow_succ] at hu; omega
      have e1 : 2^(k-(lam+1)) * (2 * u') = 2^(k-lam) * u' := by rw [hkk]; ring
      rw [if_pos hev, e1, ih (by omega) o u' hu', brev_two_mul, pow_succ]; ring
    · obtain ⟨u', rfl⟩ : ∃ u', u = 2 * u' + 1 := ⟨u / 2, by omega⟩
      have hu' : u' < 2^lam := by rw [pow_succ] at hu; omega
      have e1 : 2^(k-(lam+1)) * (2 * u' + 1 - 1) = 2^(k-lam) * u' := by
        rw [hkk, Nat.add_sub_cancel]; ring
      rw [if_neg hev, e1, ih (by omega) (o + 2^lam) u' hu', brev_two_mul_add_one, pow_succ]
      have e2 : o + 2^lam + brev lam u' = o + (2^lam + brev lam u') := by ring
      rw [e2]; ring

/-- coefficients of the packed phase: tree + final trace, with the tree noise Z and the trace noise N -/
theorem c19k_pack_coeffs (k L : Nat) (hL : L ≤ k) (q : Int) (res X Z N : Array Int) (leaf : Nat → Array Int)
    (hX : ∀ c, c < 2^k → X.getD c 0 ≡ (c19k_nodePoly k leaf L 0).getD c 0 + Z.getD c 0 [ZMOD q])
    (hres : ∀ c, c < 2^k → res.getD c 0 ≡ (fieldTracePoly k L X).getD c 0 + N.getD c 0 [ZMOD q]) :
    (∀ u, u < 2^L → res.getD (2^(k-L) * u) 0 ≡
      (2:Int)^k * (leaf (brev L u)).getD 0 0 + ((2:Int)^(k-L) * Z.getD (2^(k-L) * u) 0 + N.getD (2^(k-L) * u) 0) [ZMOD q]) ∧
    (∀ c, c < 2^k → ¬ 2^(k-L) ∣ c → res.getD c 0 ≡ N.getD c 0 [ZMOD q]) := by
  have hkk : k - (k - L) = L := by omega
  constructor
  · intro u hu
    have hlt : 2^(k-L) * u < 2^k := by
      rw [← c19_pow_split k L hL]; exact Nat.mul_lt_mul_of_pos_left hu (Nat.two_pow_pos _)
    have h1 := hres _ hlt
    rw [c19_fieldTrace_eq, c19_traceSteps_coeff k (k - L) (Nat.sub_le _ _) X _ hlt, if_pos ⟨u, rfl⟩] at h1
    have h2 := hX _ hlt
    rw [c19k_nodePoly_inv k leaf L hL 0 u hu, Nat.zero_add] at h2
    have h3 := (h2.mul_left ((2:Int)^(k-L))).add (Int.ModEq.refl (n := q) (N.getD (2^(k-L) * u) 0))
    refine h1.trans ?_
    have hp : (2:Int)^(k-L) * (2:Int)^L = (2:Int)^k := by rw [← pow_add]; congr 1; omega
    unfold Int.ModEq at h3 ⊢
    rw [h3, ← hp]; congr 1; ring
  · intro c hc hnd
    have h1 := hres c hc
    rw [c19_fieldTrace_eq, c19_traceSteps_coeff k (k - L) (Nat.sub_le _ _) X c hc, if_neg hnd, zero_add] at h1
    exact h1

/-- total bound: P·|2^(k−L)·Z + N| ≤ (2^k − 1)·D from P·|Z| ≤ (2^L − 1)·D and P·|N| ≤ (2^(k−L) − 1)·D -/
theorem c19k_pack_total_bound (k L : Nat) (hL : L ≤ k) (z n : Int) (P D : Nat)
    (hz : z.natAbs * P ≤ (2^L - 1) * D) (hn : n.natAbs * P ≤ (2^(k-L) - 1) * D) :
    ((2:Int)^(k-L) * z + n).natAbs * P ≤ (2^k - 1) * D := by
  have habs : ((2:Int)^(k-L) * z + n).natAbs ≤ 2^(k-L) * z.natAbs + n.natAbs := by
    refine (Int.natAbs_add_le _ _).trans ?_
    rw [Int.natAbs_mul, Int.natAbs_pow]; rfl
  obtain ⟨a, ha⟩ : ∃ a, 2^L = a + 1 := ⟨2^L - 1, by have := Nat.two_pow_pos L; omega⟩
  obtain ⟨b, hb⟩ : ∃ b, 2^(k-L) = b + 1 := ⟨2^(k-L) - 1, by have := Nat.two_pow_pos (k-L); omega⟩
  have hk : 2^k = (b + 1) * (a + 1) := by rw [← ha, ← hb, c19_pow_split k L hL]
  have e1 : 2^L - 1 = a := by omega
  have e2 : 2^(k-L) - 1 = b := by omega
  have e3 : 2^k - 1 = (b + 1) * a + b := by rw [hk]; ring_nf; omega
  rw [e1] at hz; rw [e2] at hn; rw [e3]
  calc _ ≤ (2^(k-L) * z.natAbs + n.natAbs) * P := Nat.mul_le_mul_right _ habs
    _ = (b + 1) * (z.natAbs * P) + n.natAbs * P := by rw [hb]; ring
    _ ≤ (b + 1) * (a * D) + b * D := Nat.add_le_add (Nat.mul_le_mul_left _ hz) hn
    _ = ((b + 1) * a + b) * D := by ring


/-! ## L2 on the model: the concrete butterfly and `pack_lwe_ciphertexts` (rounding branch) -/

/-- the butterfly of layer `lam` with the key looked up (a missing key is refused) -/
def c19k_packMergeStep (kl : KeyLevel) (l : Level) (scheme : Scheme) (keys : Nat → Option KSKey) : Nat → Ct → Ct → R Ct :=
  fun lam ev od => match keys (2^(lam+1) + 1) with
    | none => .error .refused
    | some key => c19k_mergeCt kl l scheme lam key ev od

/-- the ciphertext `apply_galois_inplace` is applied to inside the butterfly: `even − X^shift·odd` (in NTT form unless BFV) -/
def c19k_galoisInput (l : Level) (scheme : Scheme) (lam : Nat) (ev od : Ct) : Ct :=
  match ctTranslateBalanced l ev (c19k_shiftCt l od (l.n / 2^(lam+1))) true with
  | .ok odd1 => if scheme = .bfv then odd1 else c19k_toNtt l odd1
  | .error _ => default

/-- the switch-key noise of the butterfly (rounding branch) -/
def c19k_mergeNuStd (kl : KeyLevel) (l : Level) (scheme : Scheme) (keys : Nat → Option KSKey) (e : Nat → Nat → Nat → Int)
    (s : Nat → Int) (lam : Nat) (ev od : Ct) : Array Int :=
  match keys (2^(lam+1) + 1) with
  | some key => c19k_nuStdArr kl l (c19k_galoisInput l scheme lam ev od) (2^(lam+1) + 1) key (e lam) s
  | none => #[]

/-- `pack_lwe_ciphertexts` after the leaves are prepared (`leaves o` = `rlwes[o]`: `assemble_lwe` of input `reverse_bits(o, L)` divided
    by N, or the zero ciphertext), L = ⌈log2 count⌉: the merge tree, [to NTT unless BFV], `field_trace_inplace(ret, keys, L)`. -/
def c19k_packCt (kl : KeyLevel) (l : Level) (scheme : Scheme) (keys : Nat → Option KSKey) (leaves : Nat → R Ct) (L : Nat) : R Ct := do
  let merged ← c19k_nodeCt (c19k_packMergeStep kl l scheme keys) leaves L 0
  let ret := if scheme = .bfv then merged else c19k_toNtt l merged
  c19k_fieldTraceCt kl l scheme keys L ret

theorem c19k_stdMode_of {scheme : Scheme} (hs : scheme = .bfv ∨ scheme = .ckks) {b : Bool}
    (hb : b = if scheme = .bfv then false else true) : c04t_StdMode scheme b := by
  rcases hs with rfl | rfl
  · left; exact ⟨rfl, by simpa using hb⟩
  · right; exact ⟨rfl, by simpa using hb⟩

/-- the concrete butterfly, rounding branch: phase ≡ packMerge(phases) + ν, with the switch-key bound -/
theorem c19k_merge_std {kl : KeyLevel} {l : Level} (hl : c04k_LevelOf kl l) {scheme : Scheme}
    (hT : scheme ≠ .bfv → c19k_TablesOf kl l) (hscheme : scheme = .bfv ∨ scheme = .ckks)
    {keys : Nat → Option KSKey} {lam : Nat} (hlam : lam + 1 ≤ l.k) {key : KSKey} (hkey : keys (2^(lam+1) + 1) = some key)
    (hK : c19k_KeyOK kl l.size key) {s : Nat → Int} {e : Nat → Nat → Nat → Int} {G : Nat → Int}
    (hke : c04k_KeyEq kl l.size key s (c04k_sigma kl.n (2^(lam+1) + 1) s) (e lam) G)
    {A Be : Nat} (hA : ∀ i, i < l.size → (kl.m i).value ≤ A)
    (he : ∀ d, d < l.size → ∀ p, p < kl.n → (e lam d p).natAbs ≤ Be)
    {f : Nat} {ev od : Ct} (hev : c19k_CoefOK l f ev) (hod : c19k_CoefOK l f od) :
    ∃ r, c19k_packMergeStep kl l scheme keys lam ev od = .ok r ∧ c19k_CoefOK l f r ∧
      (∀ j, j < l.size → ∀ c, c < 2^l.k →
        (c19k_phase kl j r s).getD c 0 ≡
          (packMerge l.k lam (c19k_phase kl j ev s) (c19k_phase kl j od s)).getD c 0
            + (c19k_mergeNuStd kl l scheme keys e s lam ev od).getD c 0 [ZMOD ((kl.m j).value : Int)]) ∧
      ∀ c, c < 2^l.k → ((c19k_mergeNuStd kl l scheme keys e s lam ev od).getD c 0).natAbs * kl.c04t_P
        ≤ c19k_boundStd kl l.size A Be s := by
  have hg := c19k_odd_two_pow (lam+1) (by omega)
  have hg2 : 2^(lam+1) + 1 ≤ 2 * l.n := by
    rw [hl.n, ← hl.k]
    have h1 : 2^(lam+1) ≤ 2^l.k := Nat.pow_le_pow_right (by norm_num) hlam
    have h2 := Nat.two_pow_pos l.k
    omega
  obtain ⟨r, x, h1, h2, h3, h4, ⟨odd1, h5, h6⟩, hxok, hxn, h7⟩ :=
    c19k_merge_generic hl hK.hkl hK.hd hT (key := key) hev.1 hod.1 hev.2.1 hod.2.1 (by rw [hev.2.2, hod.2.2]) lam s
      (fun x => c19k_nuStdArr kl l x (2^(lam+1) + 1) key (e lam) s)
      (fun x hx hxn => c19k_galois_of hl hg
        (applyGalois_phase_sigma hl (c19k_ksInput hl hK hx) (c19k_stdMode_of hscheme hxn) hx.1 hg hg2 hK.hkcc hke
          (fun p _ => rfl)))
  have hgi : c19k_galoisInput l scheme lam ev od = x := by unfold c19k_galoisInput; rw [h5, h6]
  have hnu : c19k_mergeNuStd kl l scheme keys e s lam ev od = c19k_nuStdArr kl l x (2^(lam+1) + 1) key (e lam) s := by
    unfold c19k_mergeNuStd; rw [hkey, hgi]
  refine ⟨r, by unfold c19k_packMergeStep; rw [hkey]; exact h1, ⟨h2, h3, by rw [h4, hev.2.2]⟩, ?_, fun c hc => ?_⟩
  · rw [hnu]; exact h7
  · rw [hnu]
    have hc' : c < kl.n := by rw [← hl.k]; exact hc
    unfold c19k_nuStdArr
    rw [c19_getD_ofFn _ _ _ hc']
    exact switchKey_noise_bound (c04k_galois_input hl (c19k_ksInput hl hK hxok) hK.hkcc hg) hke hA he c hc'


/-! ## non-vacuity: a genuine Galois key for g = 3 on the key level `c04t_exKL` (N = 2, q = 13, P = 17, t = 5)

    s = 1 − X, σ_3(s) = 1 − X^3 = 1 + X; same mask and error as `c04k_exKey`, k0 shifted by P·(σ_3(s) − X) = 17 (mod 13). -/

def c19k_exKey : KSKey := #[#[#[#[0, 8], #[11, 3]], #[#[8, 10], #[16, 14]]]]
def c19k_exKeys : Nat → Option KSKey := fun g => if g = 3 then some c19k_exKey else none

theorem c19k_exKeyCoef :
    c04k_keyCoef c04t_exKL c19k_exKey 0 0 0 = #[4, 7] ∧ c04k_keyCoef c04t_exKL c19k_exKey 0 0 1 = #[9, 5] ∧
    c04k_keyCoef c04t_exKL c19k_exKey 1 0 0 = #[7, 1] ∧ c04k_keyCoef c04t_exKL c19k_exKey 1 0 1 = #[15, 13] := by
  decide +kernel

theorem c19k_exSigma (p : Nat) (hp : p < 2) : c04k_sigma 2 3 c04k_exS p = if p = 0 then 1 else 1 := by
  interval_cases p
  all_goals simp [c04k_sigma, c04k_chi, Finset.sum_range_succ, c04k_exS]

theorem c19k_exKeyEq : c04k_KeyEq c04t_exKL 1 c19k_exKey c04k_exS (c04k_sigma c04t_exKL.n 3 c04k_exS) c04k_exE c04k_exG := by
  obtain ⟨k1, k2, k3, k4⟩ := c19k_exKeyCoef
  obtain ⟨_, v13⟩ := c04t_exMod_wf (v := 13) (by decide) (by decide)
  obtain ⟨_, v17⟩ := c04t_exMod_wf (v := 17) (by decide) (by decide)
  have hm0 : (c04t_exKL.m 0).value = 13 := v13
  have hm1 : (c04t_exKL.m 1).value = 17 := v17
  have hP : c04t_exKL.c04t_P = 17 := v17
  have hn : c04t_exKL.n = 2 := rfl
  refine ⟨fun j hj i hi => ?_, fun idx hu i hi c hc => ?_⟩
  · interval_cases j; interval_cases i
    rw [if_pos rfl]; exact Int.ModEq.refl _
  · interval_cases i
    rw [hn] at hc
    have hidx : idx = 0 ∨ idx = 1 := by
      rcases hu with h | h
      · left; omega
      · right; rw [h]; rfl
    rcases hidx with rfl | rfl
    · rw [hm0, hP, hn, c19k_exSigma c hc]
      unfold c04k_keyI
      rw [k1, k2]
      interval_cases c <;>
        simp [negMulR, Finset.sum_range_succ, c04k_exS, c04k_exE, c04k_exG] <;> decide
    · rw [hm1, hP, hn, c19k_exSigma c hc]
      unfold c04k_keyI
      rw [k3, k4]
      interval_cases c <;>
        simp [negMulR, Finset.sum_range_succ, c04k_exS, c04k_exE, c04k_exG] <;> decide

theorem c19k_exKeyOK : c19k_KeyOK c04t_exKL c04k_exLevel.size c19k_exKey := by
  have h := c04k_exKSInput' false
  obtain ⟨_, v13⟩ := c04t_exMod_wf (v := 13) (by decide) (by decide)
  obtain ⟨_, v17⟩ := c04t_exMod_wf (v := 17) (by decide) (by decide)
  have hm0 : (c04t_exKL.m 0).value = 13 := v13
  have hm1 : (c04t_exKL.m 1).value = 17 := v17
  have hk0 : c04t_keyIndex c04t_exKL 1 0 = 0 := rfl
  have hk1 : c04t_keyIndex c04t_exKL 1 1 = 1 := rfl
  have hsz : c04k_exLevel.size = 1 := rfl
  refine ⟨h.hkl, h.hsz, h.hd, by decide, rfl, ?_, h.hov, h.hinv⟩
  rw [hsz]
  intro i hi j hj k hk
  have hk2 : k < 2 := hk
  interval_cases j
  interval_cases i
  · rw [hk0, hm0]
    interval_cases k
    · refine ⟨rfl, fun l hl => ?_⟩
      have hl2 : l < 2 := hl
      interval_cases l <;> decide
    · refine ⟨rfl, fun l hl => ?_⟩
      have hl2 : l < 2 := hl
      interval_cases l <;> decide
  · rw [hk1, hm1]
    interval_cases k
    · refine ⟨rfl, fun l hl => ?_⟩
      have hl2 : l < 2 := hl
      interval_cases l <;> decide
    · refine ⟨rfl, fun l hl => ?_⟩
      have hl2 : l < 2 := hl
      interval_cases l <;> decide

theorem c19k_exCtOK (ntt : Bool) : c19k_CtOK c04k_exLevel (c04t_exCt ntt) := by
  obtain ⟨_, v13⟩ := c04t_exMod_wf (v := 13) (by decide) (by decide)
  have hq : (c04k_exLevel.q 0).value = 13 := v13
  cases ntt
  all_goals refine ⟨rfl, fun k hk => ⟨by interval_cases k <;> rfl, fun i hi => ?_⟩⟩
  all_goals
    have hi1 : i < 1 := hi
    interval_cases i
    rw [hq]
    interval_cases k
    · refine ⟨rfl, fun j hj => ?_⟩
      have hj2 : j < 2 := hj
      interval_cases j <;> decide
    · refine ⟨rfl, fun j hj => ?_⟩
      have hj2 : j < 2 := hj
      interval_cases j <;> decide

/-! ## Property theorems -/

/-- L1, ONE LAYER of the field trace on the model (rounding branch: BFV in coefficient form, CKKS in NTT form):
    `ct' = ct + applyGalois(ct, g)` for an odd g ≤ 2N with a Galois key from σ_g(s) to s (`c04k_KeyEq … s (σ_g s) e G`) succeeds, stays
    canonical, keeps representation and correction factor, and modulo every level modulus q_j
      phase_s(ct') ≡ x + σ_g(x) + ν,   x = phase_s(ct),   ν = `c04k_nuStd` of the switched σ_g(c1)   (`c19k_LayerSpec`),
    with P·‖ν‖∞ ≤ dsz·A·N·Be + ⌊P/2⌋·(1 + ‖s‖₁)  (`c19k_boundStd`; q_j ≤ A, ‖e_i‖∞ ≤ Be). -/
theorem fieldTrace_layer_noisy {kl : KeyLevel} {l : Level} (hl : c04k_LevelOf kl l) {scheme : Scheme} {ct : Ct} {key : KSKey}
    {g : Nat} (hK : c19k_KeyOK kl l.size key) (hct : c19k_CtOK l ct) (hmode : c04t_StdMode scheme ct.ntt)
    (hg : g % 2 = 1) (hg2 : g ≤ 2 * l.n)
    {s : Nat → Int} {e : Nat → Nat → Int} {G : Nat → Int} (hke : c04k_KeyEq kl l.size key s (c04k_sigma kl.n g s) e G)
    {A Be : Nat} (hA : ∀ i, i < l.size → (kl.m i).value ≤ A)
    (he : ∀ i, i < l.size → ∀ p, p < kl.n → (e i p).natAbs ≤ Be) :
    ∃ ct', c19k_traceLayer kl l scheme ct g key = .ok ct' ∧
      c19k_CtOK l ct' ∧ ct'.ntt = ct.ntt ∧ ct'.cf = ct.cf ∧
      (∀ j, j < l.size → ∀ c, c < 2^l.k →
        (c19k_phase kl j ct' s).getD c 0 ≡
          (addPoly (2^l.k) (c19k_phase kl j ct s) (sigmaPoly (2^l.k) (c19k_phase kl j ct s) g)).getD c 0
            + (c19k_nuStdArr kl l ct g key e s).getD c 0 [ZMOD ((kl.m j).value : Int)]) ∧
      ∀ c, c < 2^l.k → ((c19k_nuStdArr kl l ct g key e s).getD c 0).natAbs * kl.c04t_P ≤ c19k_boundStd kl l.size A Be s := by
  obtain ⟨ct', h1, ⟨h2, h3, h4, h5⟩, h6⟩ := c19k_layer_std hl hK hct hmode hg hg2 hke hA he
  exact ⟨ct', h1, h2, h3, h4, h5, h6⟩

/-- L1, one layer, BGV (NTT form): the same with ν = `c04k_nuBgv`, P·‖ν‖∞ ≤ dsz·A·N·Be + P·t·(1 + ‖s‖₁), and ν ≡ 0 (mod t) when
    every key error is a multiple of t. -/
theorem fieldTrace_layer_noisy_bgv {kl : KeyLevel} {l : Level} (hl : c04k_LevelOf kl l) {ct : Ct} {key : KSKey}
    {g : Nat} (hK : c19k_KeyOK kl l.size key) (hct : c19k_CtOK l ct) (hb : c04t_BgvData kl) (hntt : ct.ntt = true)
    (hg : g % 2 = 1) (hg2 : g ≤ 2 * l.n)
    {s : Nat → Int} {e : Nat → Nat → Int} {G : Nat → Int} (hke : c04k_KeyEq kl l.size key s (c04k_sigma kl.n g s) e G)
    {A Be : Nat} (hA : ∀ i, i < l.size → (kl.m i).value ≤ A)
    (he : ∀ i, i < l.size → ∀ p, p < kl.n → (e i p).natAbs ≤ Be) :
    ∃ ct', c19k_traceLayer kl l .bgv ct g key = .ok ct' ∧
      c19k_CtOK l ct' ∧ ct'.ntt = ct.ntt ∧ ct'.cf = ct.cf ∧
      (∀ j, j < l.size → ∀ c, c < 2^l.k →
        (c19k_phase kl j ct' s).getD c 0 ≡
          (addPoly (2^l.k) (c19k_phase kl j ct s) (sigmaPoly (2^l.k) (c19k_phase kl j ct s) g)).getD c 0
            + (c19k_nuBgvArr kl l ct g key e s).getD c 0 [ZMOD ((kl.m j).value : Int)]) ∧
      (∀ c, c < 2^l.k → ((c19k_nuBgvArr kl l ct g key e s).getD c 0).natAbs * kl.c04t_P ≤ c19k_boundBgv kl l.size A Be s) ∧
      ((∀ i, i < l.size → ∀ p, p < kl.n → (kl.t.value : Int) ∣ e i p) →
        ∀ c, c < 2^l.k → (kl.t.value : Int) ∣ (c19k_nuBgvArr kl l ct g key e s).getD c 0) := by
  obtain ⟨ct', h1, ⟨h2, h3, h4, h5⟩, h6, h7⟩ := c19k_layer_bgv hl hK hct hb hntt hg hg2 hke hA he
  exact ⟨ct', h1, h2, h3, h4, h5, h6, h7⟩

/-- L1, THE WHOLE LOOP `field_trace_inplace(ct, keys, logn)` on the model (`c19k_fieldTraceCt`: the fold of `applyGalois` +
    `add_inplace` over g = N+1, N/2+1, …; N = 2^(l.k)), rounding branch.  Hypotheses: canonical two-polynomial input, and for every
    layer i < log2 N − logn a Galois key for g_i = 2^(l.k−i)+1 from σ_{g_i}(s) to s with errors ‖e_i‖∞ ≤ Be.
    Conclusion: success, and modulo every q_j
        phase_s(result) ≡ fieldTracePoly(phase_s(ct)) + N_acc,
    `fieldTracePoly` the exact phase-level program of C19 (`C19.field_trace_coeffs`), N_acc = `c19k_accNoise` the propagated noise
    N_0 = 0, N_{i+1} = N_i + σ_{g_i}(N_i) + ν_i with ν_i the switch-key noise of layer i (of the i-th intermediate ciphertext),
    and the explicit bound  P·‖N_acc‖∞ ≤ (2^m − 1)·B = Σ_{i<m} 2^(m−1−i)·B,  m = log2 N − logn, B = `c19k_boundStd`. -/
theorem fieldTrace_noisy {kl : KeyLevel} {l : Level} (hl : c04k_LevelOf kl l) {scheme : Scheme}
    {keys : Nat → Option KSKey} (logn : Nat) {ct : Ct} (hct : c19k_CtOK l ct) (hmode : c04t_StdMode scheme ct.ntt)
    {s : Nat → Int} {e : Nat → Nat → Nat → Int} {G : Nat → Nat → Int}
    (hkeys : ∀ i, i < l.k - logn → ∃ key, keys (2^(l.k - i) + 1) = some key ∧ c19k_KeyOK kl l.size key ∧
      c04k_KeyEq kl l.size key s (c04k_sigma kl.n (2^(l.k - i) + 1) s) (e i) (G i))
    {A Be : Nat} (hA : ∀ i, i < l.size → (kl.m i).value ≤ A)
    (he : ∀ i, i < l.k - logn → ∀ d, d < l.size → ∀ p, p < kl.n → (e i d p).natAbs ≤ Be) :
    ∃ ct' νs, c19k_fieldTraceCt kl l scheme keys logn ct = .ok ct' ∧ c19k_CtOK l ct' ∧ ct'.ntt = ct.ntt ∧ ct'.cf = ct.cf ∧
      (∀ i, i < l.k - logn → ∃ cti key, c19k_traceStepsCt kl l scheme keys i ct = .ok cti ∧ keys (2^(l.k - i) + 1) = some key ∧
        νs i = c19k_nuStdArr kl l cti (2^(l.k - i) + 1) key (e i) s) ∧
      (∀ j, j < l.size → ∀ c, c < 2^l.k →
        (c19k_phase kl j ct' s).getD c 0 ≡
          (fieldTracePoly l.k logn (c19k_phase kl j ct s)).getD c 0 + (c19k_accNoise l.k νs (l.k - logn)).getD c 0
            [ZMOD ((kl.m j).value : Int)]) ∧
      ∀ c, c < 2^l.k → ((c19k_accNoise l.k νs (l.k - logn)).getD c 0).natAbs * kl.c04t_P
        ≤ (2^(l.k - logn) - 1) * c19k_boundStd kl l.size A Be s :=
  c19k_traceSteps_std hl (l.k - logn) (Nat.sub_le _ _) hct hmode hkeys hA he

/-- L1, the whole loop, BGV: bound with B = `c19k_boundBgv`, and N_acc ≡ 0 (mod t) when all key errors are multiples of t — the
    plaintext residue of the phase modulo t is exactly that of the exact field trace, same correction factor. -/
theorem fieldTrace_noisy_bgv {kl : KeyLevel} {l : Level} (hl : c04k_LevelOf kl l)
    {keys : Nat → Option KSKey} (logn : Nat) {ct : Ct} (hct : c19k_CtOK l ct) (hb : c04t_BgvData kl) (hntt : ct.ntt = true)
    {s : Nat → Int} {e : Nat → Nat → Nat → Int} {G : Nat → Nat → Int}
    (hkeys : ∀ i, i < l.k - logn → ∃ key, keys (2^(l.k - i) + 1) = some key ∧ c19k_KeyOK kl l.size key ∧
      c04k_KeyEq kl l.size key s (c04k_sigma kl.n (2^(l.k - i) + 1) s) (e i) (G i))
    {A Be : Nat} (hA : ∀ i, i < l.size → (kl.m i).value ≤ A)
    (he : ∀ i, i < l.k - logn → ∀ d, d < l.size → ∀ p, p < kl.n → (e i d p).natAbs ≤ Be) :
    ∃ ct' νs, c19k_fieldTraceCt kl l .bgv keys logn ct = .ok ct' ∧ c19k_CtOK l ct' ∧ ct'.ntt = ct.ntt ∧ ct'.cf = ct.cf ∧
      (∀ i, i < l.k - logn → ∃ cti key, c19k_traceStepsCt kl l .bgv keys i ct = .ok cti ∧ keys (2^(l.k - i) + 1) = some key ∧
        νs i = c19k_nuBgvArr kl l cti (2^(l.k - i) + 1) key (e i) s) ∧
      (∀ j, j < l.size → ∀ c, c < 2^l.k →
        (c19k_phase kl j ct' s).getD c 0 ≡
          (fieldTracePoly l.k logn (c19k_phase kl j ct s)).getD c 0 + (c19k_accNoise l.k νs (l.k - logn)).getD c 0
            [ZMOD ((kl.m j).value : Int)]) ∧
      (∀ c, c < 2^l.k → ((c19k_accNoise l.k νs (l.k - logn)).getD c 0).natAbs * kl.c04t_P
        ≤ (2^(l.k - logn) - 1) * c19k_boundBgv kl l.size A Be s) ∧
      ((∀ i, i < l.k - logn → ∀ d, d < l.size → ∀ p, p < kl.n → (kl.t.value : Int) ∣ e i d p) →
        ∀ c, c < 2^l.k → (kl.t.value : Int) ∣ (c19k_accNoise l.k νs (l.k - logn)).getD c 0) :=
  c19k_traceSteps_bgv hl (l.k - logn) (Nat.sub_le _ _) hct hb hntt hkeys hA he

/-- coefficient form of `fieldTrace_noisy(_bgv)`: whenever phase(result) ≡ fieldTracePoly(x) + N (the conclusion of the two theorems),
    coefficient c of the result phase is (N/2^logn)·x_c + N_c when N/2^logn divides c, and N_c alone otherwise. -/
theorem fieldTrace_noisy_coeffs (k logn : Nat) (q : Int) (r x N : Array Int)
    (h : ∀ c, c < 2^k → r.getD c 0 ≡ (fieldTracePoly k logn x).getD c 0 + N.getD c 0 [ZMOD q]) (c : Nat) (hc : c < 2^k) :
    r.getD c 0 ≡ (if 2^(k - logn) ∣ c then (2:Int)^(k - logn) * x.getD c 0 else 0) + N.getD c 0 [ZMOD q] := by
  have := h c hc
  rw [c19_fieldTrace_eq, c19_traceSteps_coeff k (k - logn) (Nat.sub_le _ _) x c hc] at this
  exact this

/-- refusal: a missing Galois key for the first element N + 1 (when the loop runs at all) -/
theorem fieldTrace_refuses_missing_key (kl : KeyLevel) (l : Level) (scheme : Scheme) (keys : Nat → Option KSKey) (logn : Nat)
    (ct : Ct) (hlog : logn < l.k) (hk : keys (2^l.k + 1) = none) :
    c19k_fieldTraceCt kl l scheme keys logn ct = .error .refused := by
  unfold c19k_fieldTraceCt c19k_traceStepsCt
  obtain ⟨m, hm⟩ : ∃ m, l.k - logn = m + 1 := ⟨l.k - logn - 1, by omega⟩
  rw [hm, List.range_succ_eq_map, List.foldlM_cons]
  simp only [Nat.sub_zero, hk]
  rfl

/-- refusal: a ciphertext that does not have exactly two polynomials (when the loop runs at all) -/
theorem fieldTrace_refuses_size (kl : KeyLevel) (l : Level) (scheme : Scheme) (keys : Nat → Option KSKey) (logn : Nat)
    (ct : Ct) (hlog : logn < l.k) (h2 : ct.polys.size ≠ 2) :
    ∃ err, c19k_fieldTraceCt kl l scheme keys logn ct = .error err := by
  unfold c19k_fieldTraceCt c19k_traceStepsCt
  obtain ⟨m, hm⟩ : ∃ m, l.k - logn = m + 1 := ⟨l.k - logn - 1, by omega⟩
  rw [hm, List.range_succ_eq_map, List.foldlM_cons]
  simp only [Nat.sub_zero]
  cases hk : keys (2^l.k + 1) with
  | none => exact ⟨.refused, rfl⟩
  | some key =>
    refine ⟨.refused, ?_⟩
    simp only [c19k_traceLayer, applyGalois_refuses_size kl l scheme ct _ key h2]
    rfl

/-- logn ≥ log2 N: the loop body never runs -/
theorem fieldTrace_noop (kl : KeyLevel) (l : Level) (scheme : Scheme) (keys : Nat → Option KSKey) (logn : Nat) (ct : Ct)
    (h : l.k ≤ logn) : c19k_fieldTraceCt kl l scheme keys logn ct = .ok ct := by
  unfold c19k_fieldTraceCt c19k_traceStepsCt
  have : l.k - logn = 0 := by omega
  rw [this]; rfl

/-- L2, ONE BUTTERFLY of the merge tree of `pack_lwe_ciphertexts` on the model (rounding branch: BFV, or CKKS with the NTT round trip
    around the automorphism): the monomial shift, `sub`, `add_inplace` are exact on phases, the one `apply_galois_inplace` adds ν:
      phase(even') ≡ packMerge(phase even, phase odd) + ν   (mod q_j),   P·‖ν‖∞ ≤ `c19k_boundStd`. -/
theorem pack_merge_noisy {kl : KeyLevel} {l : Level} (hl : c04k_LevelOf kl l) {scheme : Scheme}
    (hT : scheme ≠ .bfv → c19k_TablesOf kl l) (hscheme : scheme = .bfv ∨ scheme = .ckks)
    {keys : Nat → Option KSKey} {lam : Nat} (hlam : lam + 1 ≤ l.k) {key : KSKey} (hkey : keys (2^(lam+1) + 1) = some key)
    (hK : c19k_KeyOK kl l.size key) {s : Nat → Int} {e : Nat → Nat → Nat → Int} {G : Nat → Int}
    (hke : c04k_KeyEq kl l.size key s (c04k_sigma kl.n (2^(lam+1) + 1) s) (e lam) G)
    {A Be : Nat} (hA : ∀ i, i < l.size → (kl.m i).value ≤ A)
    (he : ∀ d, d < l.size → ∀ p, p < kl.n → (e lam d p).natAbs ≤ Be)
    {f : Nat} {ev od : Ct} (hev : c19k_CoefOK l f ev) (hod : c19k_CoefOK l f od) :
    ∃ r, c19k_packMergeStep kl l scheme keys lam ev od = .ok r ∧ c19k_CoefOK l f r ∧
      (∀ j, j < l.size → ∀ c, c < 2^l.k →
        (c19k_phase kl j r s).getD c 0 ≡
          (packMerge l.k lam (c19k_phase kl j ev s) (c19k_phase kl j od s)).getD c 0
            + (c19k_mergeNuStd kl l scheme keys e s lam ev od).getD c 0 [ZMOD ((kl.m j).value : Int)]) ∧
      ∀ c, c < 2^l.k → ((c19k_mergeNuStd kl l scheme keys e s lam ev od).getD c 0).natAbs * kl.c04t_P
        ≤ c19k_boundStd kl l.size A Be s :=
  c19k_merge_std hl hT hscheme hlam hkey hK hke hA he hev hod

/-- L2, THE WHOLE `pack_lwe_ciphertexts` on the model after leaf preparation (`c19k_packCt`: merge tree of L layers over 2^L canonical
    coefficient-form leaves `rlwes[o]`, then `field_trace_inplace(·, L)`; rounding branch).  With Galois keys for the merge elements
    2^(lam+1)+1 (lam < L) and the trace elements 2^(log2 N − i)+1 (i < log2 N − L), all errors ‖·‖∞ ≤ Be:
    the result phase, modulo every q_j, has
      coefficient (N/2^L)·u  ≡ N · (constant coefficient of the phase of leaf reverse_bits(u, L)) + (N/2^L)·Z + T,
      every other coefficient ≡ T,
    with integer noise arrays Z (merge tree) and T (trace), P·|Z| ≤ (2^L − 1)·B at the coefficients read, P·‖T‖∞ ≤ (N/2^L − 1)·B,
    hence P·|(N/2^L)·Z + T| ≤ (N − 1)·B, B = `c19k_boundStd`.  (With leaves = inputs divided by N, N·leaf = input: the
    documented placement `C19.pack_spec` up to this noise.) -/
theorem pack_noisy {kl : KeyLevel} {l : Level} (hl : c04k_LevelOf kl l) (hkl : kl.WF) (hd : l.size + 1 ≤ kl.ms.size)
    {scheme : Scheme} (hT : scheme ≠ .bfv → c19k_TablesOf kl l) (hscheme : scheme = .bfv ∨ scheme = .ckks)
    {keys : Nat → Option KSKey} {leaves : Nat → R Ct} {L : Nat} (hL : L ≤ l.k) {f : Nat}
    (hleaves : ∀ o, ∃ ct, leaves o = .ok ct ∧ c19k_CoefOK l f ct)
    {s : Nat → Int} {em et : Nat → Nat → Nat → Int} {Gm Gt : Nat → Nat → Int}
    (hmk : ∀ lam, lam < L → ∃ key, keys (2^(lam+1) + 1) = some key ∧ c19k_KeyOK kl l.size key ∧
      c04k_KeyEq kl l.size key s (c04k_sigma kl.n (2^(lam+1) + 1) s) (em lam) (Gm lam))
    (htk : ∀ i, i < l.k - L → ∃ key, keys (2^(l.k - i) + 1) = some key ∧ c19k_KeyOK kl l.size key ∧
      c04k_KeyEq kl l.size key s (c04k_sigma kl.n (2^(l.k - i) + 1) s) (et i) (Gt i))
    {A Be : Nat} (hA : ∀ i, i < l.size → (kl.m i).value ≤ A)
    (hem : ∀ lam, lam < L → ∀ d, d < l.size → ∀ p, p < kl.n → (em lam d p).natAbs ≤ Be)
    (het : ∀ i, i < l.k - L → ∀ d, d < l.size → ∀ p, p < kl.n → (et i d p).natAbs ≤ Be) :
    ∃ (res : Ct) (Z T : Array Int), c19k_packCt kl l scheme keys leaves L = .ok res ∧ c19k_CtOK l res ∧ res.cf = f ∧
      (∀ j, j < l.size → ∀ u, u < 2^L →
        (c19k_phase kl j res s).getD (2^(l.k - L) * u) 0 ≡
          (2:Int)^l.k * (c19k_phase kl j (c19k_val (leaves (brev L u))) s).getD 0 0
            + ((2:Int)^(l.k - L) * Z.getD (2^(l.k - L) * u) 0 + T.getD (2^(l.k - L) * u) 0) [ZMOD ((kl.m j).value : Int)]) ∧
      (∀ j, j < l.size → ∀ c, c < 2^l.k → ¬ 2^(l.k - L) ∣ c →
        (c19k_phase kl j res s).getD c 0 ≡ T.getD c 0 [ZMOD ((kl.m j).value : Int)]) ∧
      (∀ u, u < 2^L → (Z.getD (2^(l.k - L) * u) 0).natAbs * kl.c04t_P ≤ (2^L - 1) * c19k_boundStd kl l.size A Be s) ∧
      (∀ c, c < 2^l.k → (T.getD c 0).natAbs * kl.c04t_P ≤ (2^(l.k - L) - 1) * c19k_boundStd kl l.size A Be s) ∧
      (∀ u, u < 2^L → ((2:Int)^(l.k - L) * Z.getD (2^(l.k - L) * u) 0 + T.getD (2^(l.k - L) * u) 0).natAbs * kl.c04t_P
        ≤ (2^l.k - 1) * c19k_boundStd kl l.size A Be s) := by
  have hms : ∀ lam, lam < L → ∀ ev od, c19k_CoefOK l f ev → c19k_CoefOK l f od →
      ∃ r, c19k_packMergeStep kl l scheme keys lam ev od = .ok r ∧ c19k_CoefOK l f r ∧
      (∀ j, j < l.size → ∀ c, c < 2^l.k →
        (c19k_phase kl j r s).getD c 0 ≡
          (packMerge l.k lam (c19k_phase kl j ev s) (c19k_phase kl j od s)).getD c 0
            + (c19k_mergeNuStd kl l scheme keys em s lam ev od).getD c 0 [ZMOD ((kl.m j).value : Int)]) ∧
      ∀ c, c < 2^l.k → ((c19k_mergeNuStd kl l scheme keys em s lam ev od).getD c 0).natAbs * kl.c04t_P
        ≤ c19k_boundStd kl l.size A Be s := by
    intro lam hlam ev od hev hod
    obtain ⟨key, k1, k2, k3⟩ := hmk lam hlam
    exact c19k_merge_std hl hT hscheme (by omega) k1 k2 k3 hA (hem lam hlam) hev hod
  have htree := c19k_tree_generic (kl := kl) (l := l) (s := s) f (c19k_packMergeStep kl l scheme keys) leaves
    (c19k_mergeNuStd kl l scheme keys em s) L hleaves
    (fun lam hlam ev od hev hod => by
      obtain ⟨r, a1, a2, a3, _⟩ := hms lam hlam ev od hev hod
      exact ⟨r, a1, a2, a3⟩)
  obtain ⟨merged, m1, m2, m3⟩ := htree L (le_refl _) 0
  -- the operand of the final trace
  obtain ⟨ret, hret, hretok, hretn, hretf, hretph⟩ : ∃ ret, ret = (if scheme = .bfv then merged else c19k_toNtt l merged) ∧
      c19k_CtOK l ret ∧ ret.ntt = (if scheme = .bfv then false else true) ∧ ret.cf = f ∧
      ∀ j, j < l.size → ∀ c, c < 2^l.k → (c19k_phase kl j ret s).getD c 0 = (c19k_phase kl j merged s).getD c 0 := by
    by_cases hs : scheme = .bfv
    · exact ⟨merged, by rw [if_pos hs], m2.1, by rw [if_pos hs]; exact m2.2.1, m2.2.2, fun _ _ _ _ => rfl⟩
    · obtain ⟨a1, a2, a3, a4⟩ := c19k_toNtt_spec hl hkl hd (hT hs) m2.1 m2.2.1 s
      exact ⟨c19k_toNtt l merged, by rw [if_neg hs], a1, by rw [if_neg hs]; exact a2, by rw [a3]; exact m2.2.2, a4⟩
  obtain ⟨res, νs, r1, r2, _, r4, _, r6, r7⟩ := fieldTrace_noisy hl (scheme := scheme) (keys := keys) L hretok
    (c19k_stdMode_of hscheme hretn) htk hA het
  set Z := c19k_nodeNoise l.k (c19k_nodeNu (c19k_packMergeStep kl l scheme keys) leaves (c19k_mergeNuStd kl l scheme keys em s)) L 0
    with hZ
  have hZb : ∀ u, u < 2^L → (Z.getD (2^(l.k - L) * u) 0).natAbs * kl.c04t_P ≤ (2^L - 1) * c19k_boundStd kl l.size A Be s := by
    refine c19k_nodeNoise_bound l.k _ kl.c04t_P _ L hL (fun i hi o c hc => ?_) 0
    obtain ⟨ev, e1, e2, _⟩ := htree i (by omega) o
    obtain ⟨od, o1, o2, _⟩ := htree i (by omega) (o + 2^i)
    obtain ⟨_, _, _, _, b⟩ := hms i hi ev od e2 o2
    unfold c19k_nodeNu
    rw [e1, o1]
    exact b c hc
  have hcoef : ∀ j, j < l.size → _ := fun j hj =>
    c19k_pack_coeffs l.k L hL ((kl.m j).value : Int) (c19k_phase kl j res s) (c19k_phase kl j ret s) Z
      (c19k_accNoise l.k νs (l.k - L)) (fun i => c19k_phase kl j (c19k_val (leaves i)) s)
      (fun c hc => by rw [hretph j hj c hc]; exact m3 j hj c hc) (r6 j hj)
  refine ⟨res, Z, c19k_accNoise l.k νs (l.k - L), ?_, r2, by rw [r4, hretf], fun j hj => (hcoef j hj).1,
    fun j hj => (hcoef j hj).2, hZb, r7, fun u hu => ?_⟩
  · unfold c19k_packCt
    rw [m1]
    simp only [bind, Except.bind, ← hret]
    exact r1
  · have hlt : 2^(l.k - L) * u < 2^l.k := by
      rw [← c19_pow_split l.k L hL]; exact Nat.mul_lt_mul_of_pos_left hu (Nat.two_pow_pos _)
    exact c19k_pack_total_bound l.k L hL _ _ _ _ (hZb u hu) (r7 _ hlt)

/-- NON-VACUITY of the L1 hypotheses: on the key level `c04t_exKL` (N = 2, q = 13, P = 17, t = 5), ciphertext level {13}, the genuine
    Galois key `c19k_exKey` for g = 3 (s = 1 − X, σ_3(s) = 1 + X, e = 1 − X) satisfies `c19k_KeyOK` and the key equation, the example
    ciphertext satisfies `c19k_CtOK`; hence the full trace (logn = 0, one layer) succeeds in BFV and BGV with P·‖N_acc‖∞ ≤ B. -/
theorem fieldTrace_noisy_nonvacuous :
    (∃ ct', c19k_fieldTraceCt c04t_exKL c04k_exLevel .bfv c19k_exKeys 0 (c04t_exCt false) = .ok ct') ∧
    (∃ ct', c19k_fieldTraceCt c04t_exKL c04k_exLevel .bgv c19k_exKeys 0 (c04t_exCt true) = .ok ct') := by
  have hkeys : ∀ i, i < c04k_exLevel.k - 0 → ∃ key, c19k_exKeys (2^(c04k_exLevel.k - i) + 1) = some key ∧
      c19k_KeyOK c04t_exKL c04k_exLevel.size key ∧
      c04k_KeyEq c04t_exKL c04k_exLevel.size key c04k_exS (c04k_sigma c04t_exKL.n (2^(c04k_exLevel.k - i) + 1) c04k_exS)
        ((fun _ => c04k_exE) i) ((fun _ => c04k_exG) i) := by
    intro i hi
    have hi1 : i < 1 := hi
    interval_cases i
    exact ⟨c19k_exKey, rfl, c19k_exKeyOK, c19k_exKeyEq⟩
  obtain ⟨_, v13⟩ := c04t_exMod_wf (v := 13) (by decide) (by decide)
  have hA : ∀ i, i < c04k_exLevel.size → (c04t_exKL.m i).value ≤ 13 := fun i hi => by
    have hi1 : i < 1 := hi
    interval_cases i; exact le_of_eq v13
  have he : ∀ i, i < c04k_exLevel.k - 0 → ∀ d, d < c04k_exLevel.size → ∀ p, p < c04t_exKL.n →
      (((fun _ => c04k_exE) i : Nat → Nat → Int) d p).natAbs ≤ 1 := fun i _ d _ p _ => by
    simp only [c04k_exE]; split <;> [decide; (split <;> decide)]
  refine ⟨?_, ?_⟩
  · obtain ⟨ct', _, h, _⟩ := fieldTrace_noisy c04k_exLevelOf (scheme := .bfv) 0 (c19k_exCtOK false) (Or.inl ⟨rfl, rfl⟩)
      hkeys hA he
    exact ⟨ct', h⟩
  · obtain ⟨ct', _, h, _⟩ := fieldTrace_noisy_bgv c04k_exLevelOf 0 (c19k_exCtOK true) c04t_exBgvData rfl hkeys hA he
    exact ⟨ct', h⟩

/-- NON-VACUITY of the L2 hypotheses: on the same concrete world (N = 2, q = 13, P = 17), two coefficient-form leaves, one merge
    layer (L = 1, Galois element 3, the genuine key `c19k_exKey`), BFV: `pack_noisy` applies, so the model's pack succeeds. -/
theorem pack_noisy_nonvacuous :
    ∃ res, c19k_packCt c04t_exKL c04k_exLevel .bfv c19k_exKeys (fun _ => .ok (c04t_exCt false)) 1 = .ok res := by
  obtain ⟨_, v13⟩ := c04t_exMod_wf (v := 13) (by decide) (by decide)
  have hA : ∀ i, i < c04k_exLevel.size → (c04t_exKL.m i).value ≤ 13 := fun i hi => by
    have hi1 : i < 1 := hi
    interval_cases i; exact le_of_eq v13
  have hin := c04k_exKSInput' false
  obtain ⟨res, _, _, h, _⟩ := pack_noisy (kl := c04t_exKL) (l := c04k_exLevel) c04k_exLevelOf hin.hkl hin.hd
    (scheme := .bfv) (fun h => absurd rfl h) (Or.inl rfl) (keys := c19k_exKeys)
    (leaves := fun _ => .ok (c04t_exCt false)) (L := 1) (le_refl _) (f := 1)
    (fun _ => ⟨c04t_exCt false, rfl, c19k_exCtOK false, rfl, rfl⟩)
    (s := c04k_exS) (em := fun _ => c04k_exE) (et := fun _ => c04k_exE) (Gm := fun _ => c04k_exG) (Gt := fun _ => c04k_exG)
    (fun lam hlam => by
      interval_cases lam
      exact ⟨c19k_exKey, rfl, c19k_exKeyOK, c19k_exKeyEq⟩)
    (fun i hi => absurd hi (by show ¬ i < 1 - 1; omega))
    (A := 13) (Be := 1) hA
    (fun _ _ d _ p _ => by simp only [c04k_exE]; split <;> [decide; (split <;> decide)])
    (fun _ _ d _ p _ => by simp only [c04k_exE]; split <;> [decide; (split <;> decide)])
  exact ⟨res, h⟩

end HC
