/- C13 helper proofs: the error ladder of `validate` (which error for which first failing condition). -/
import Heathcliff.Proofs.C13Validate
namespace HC.Ctx
open HC

open Classical in
/-- error of the first rung whose condition holds; `Success` if none does -/
noncomputable def firstFailing : List (Prop × ErrorType) → ErrorType
  | [] => .Success
  | (c, e) :: r => if c then e else firstFailing r

/-- the rungs of `HeContext::validate` in the order of the code: (condition that makes validation stop, error reported).
    `rnsBaseNew … = .ok false` is "RNSBase::new returned Err" (for moduli ≥ 2 that is: not pairwise coprime),
    `rnsToolNew … = .ok false` is "RNSTool::new returned Err". -/
def ladder (isPrime : Nat → Bool) (p : Params) (sec : SecLevel) : List (Prop × ErrorType) :=
  [ (p.scheme = .None, .InvalidScheme),
    (p.q.length > 64 ∨ p.q.length < 1, .InvalidCoeffModulusSize),
    (∃ q ∈ p.q, q < 2 ∨ 2^60 ≤ q, .InvalidCoeffModulusBitCount),
    (p.n < 2 ∨ 131072 < p.n, .InvalidPolyModulusDegree),
    (¬ ∃ e, p.n = 2^e, .InvalidPolyModulusDegreeNonPowerOfTwo),
    (2^64 ≤ p.q.length * p.n, .InvalidParametersTooLarge),
    (sec ≠ .None ∧ Gen.maxBitCount sec p.n < bitCount (prodL p.q), .InvalidParametersInsecure),
    (rnsBaseNew p.q = .ok false, .FailedCreatingRNSBase),
    (∃ q ∈ p.q, ¬ (isPrime q = true ∧ q % (2 * p.n) = 1), .InvalidCoeffModulusNoNTT) ] ++
  (match p.scheme with
   | .CKKS => [ (p.t ≠ 0, .InvalidPlainModulusNonzero) ]
   | _ => [ (p.t < 2 ∨ 2^60 ≤ p.t, .InvalidPlainModulusBitCount),
            (∃ q ∈ p.q, ¬ Nat.Coprime q p.t, .InvalidPlainModulusCoprimality),
            (¬ p.t < prodL p.q, .InvalidPlainModulusTooLarge) ]) ++
  [ (rnsToolNew isPrime p.n p.q p.t = .ok false, .FailedCreatingRNSTool) ]

theorem firstFailing_pos {c : Prop} {e : ErrorType} {r : List (Prop × ErrorType)} (h : c) :
    firstFailing ((c, e) :: r) = e := by
  simp [firstFailing, h]

theorem firstFailing_neg {c : Prop} {e : ErrorType} {r : List (Prop × ErrorType)} (h : ¬ c) :
    firstFailing ((c, e) :: r) = firstFailing r := by
  simp [firstFailing, h]

theorem nttOk_iff {isPrime : Nat → Bool} {kp q : Nat} (hq : 1 ≤ q) :
    nttOk isPrime kp q = true ↔ (isPrime q = true ∧ q % (2 * 2^kp) = 1) := by
  have h2k : 0 < 2^kp := by positivity
  simp only [nttOk, Bool.and_eq_true, beq_iff_eq]
  rw [sub_one_mod_iff hq (by omega)]

/-- the scheme-specific rungs (BFV / BGV) -/
theorem bfv_ladder {isPrime : Nat → Bool} {c0 c' : ContextData} {kp : Nat} {ok : Bool}
    (he : c0.err = .Success) (hq : ∀ q ∈ c0.parms.q, 2 ≤ q ∧ q < 2^60)
    (h : validateBfv isPrime c0 kp (prodL c0.parms.q) = .ok (c', ok)) (rest : List (Prop × ErrorType)) :
    (ok = false ∧ c'.err = firstFailing (
        [ (c0.parms.t < 2 ∨ 2^60 ≤ c0.parms.t, Gen.ErrorType.InvalidPlainModulusBitCount),
          (∃ q ∈ c0.parms.q, ¬ Nat.Coprime q c0.parms.t, .InvalidPlainModulusCoprimality),
          (¬ c0.parms.t < prodL c0.parms.q, .InvalidPlainModulusTooLarge) ] ++ rest)) ∨
    (ok = true ∧ c'.err = .Success ∧ firstFailing (
        [ (c0.parms.t < 2 ∨ 2^60 ≤ c0.parms.t, Gen.ErrorType.InvalidPlainModulusBitCount),
          (∃ q ∈ c0.parms.q, ¬ Nat.Coprime q c0.parms.t, .InvalidPlainModulusCoprimality),
          (¬ c0.parms.t < prodL c0.parms.q, .InvalidPlainModulusTooLarge) ] ++ rest) = firstFailing rest) := by
  simp only [List.cons_append, List.nil_append]
  have hbit : ∀ {t : Nat}, (t / 2^Gen.HE_PLAIN_MOD_BIT_COUNT_MAX > 0 ∨ t / 2^(Gen.HE_PLAIN_MOD_BIT_COUNT_MIN - 1) = 0) ↔
      (t < 2 ∨ 2^60 ≤ t) := by
    intro t
    constructor
    · intro hb
      by_contra hn
      exact (plainBitOk_iff.2 ⟨by omega, by omega⟩) hb
    · intro hb
      by_contra hn
      have := plainBitOk_iff.1 hn
      omega
  have hcop : ¬ (c0.parms.t < 2 ∨ 2^60 ≤ c0.parms.t) →
      (c0.parms.q.any (fun q => gcdU64 q c0.parms.t > 1) = true ↔ ∃ q ∈ c0.parms.q, ¬ Nat.Coprime q c0.parms.t) := by
    intro ht
    rw [List.any_eq_true]
    constructor
    · rintro ⟨q, hqm, hg⟩
      have := hq q hqm
      refine ⟨q, hqm, fun hc => ?_⟩
      have := (gcdU64_coprime_iff (x := q) (y := c0.parms.t) (by omega) (by omega) (by omega)).2 hc
      simp only [decide_eq_true_eq] at hg
      omega
    · rintro ⟨q, hqm, hg⟩
      have := hq q hqm
      refine ⟨q, hqm, ?_⟩
      simp only [decide_eq_true_eq]
      by_contra hc
      exact hg ((gcdU64_coprime_iff (x := q) (y := c0.parms.t) (by omega) (by omega) (by omega)).1 (by omega))
  rcases validateBfv_cases h with ⟨hok, _, (⟨hb, hc'⟩ | ⟨hb, (⟨hg, hc'⟩ | ⟨hg, hlt, hc'⟩)⟩)⟩ |
    ⟨hok, hb, hg, hlt, cdp, puhi, _, _, hc'⟩
  · left
    refine ⟨hok, ?_⟩
    rw [firstFailing_pos (hbit.1 hb), hc']
  · left
    refine ⟨hok, ?_⟩
    have hb' := fun hx => hb (hbit.2 hx)
    rw [firstFailing_neg hb', firstFailing_pos ((hcop hb').1 hg), hc']
  · left
    refine ⟨hok, ?_⟩
    have hb' := fun hx => hb (hbit.2 hx)
    have hg' : ¬ ∃ q ∈ c0.parms.q, ¬ Nat.Coprime q c0.parms.t := fun hx => by
      rw [(hcop hb').2 hx] at hg; cases hg
    rw [firstFailing_neg hb', firstFailing_neg hg', firstFailing_pos hlt, hc']
  · right
    have hb' := fun hx => hb (hbit.2 hx)
    have hg' : ¬ ∃ q ∈ c0.parms.q, ¬ Nat.Coprime q c0.parms.t := fun hx => by
      rw [(hcop hb').2 hx] at hg; cases hg
    refine ⟨hok, ?_, ?_⟩
    · rw [hc']; exact he
    · rw [firstFailing_neg hb', firstFailing_neg hg', firstFailing_neg (not_not.2 hlt)]

/-- the scheme-specific rungs -/
theorem schemeStep_ladder {isPrime : Nat → Bool} {p : Params} {c0 c' : ContextData} {kp : Nat} {ok : Bool}
    (hp : c0.parms = p) (he : c0.err = .Success) (hq : ∀ q ∈ p.q, 2 ≤ q ∧ q < 2^60) (hs : p.scheme ≠ .None)
    (h : schemeStep isPrime p kp (prodL p.q) c0 = .ok (c', ok)) (rest : List (Prop × ErrorType)) :
    (ok = false ∧ c'.err = firstFailing (
        (match p.scheme with
         | .CKKS => [ (p.t ≠ 0, Gen.ErrorType.InvalidPlainModulusNonzero) ]
         | _ => [ (p.t < 2 ∨ 2^60 ≤ p.t, .InvalidPlainModulusBitCount),
                  (∃ q ∈ p.q, ¬ Nat.Coprime q p.t, .InvalidPlainModulusCoprimality),
                  (¬ p.t < prodL p.q, .InvalidPlainModulusTooLarge) ]) ++ rest)) ∨
    (ok = true ∧ c'.err = .Success ∧ firstFailing (
        (match p.scheme with
         | .CKKS => [ (p.t ≠ 0, Gen.ErrorType.InvalidPlainModulusNonzero) ]
         | _ => [ (p.t < 2 ∨ 2^60 ≤ p.t, .InvalidPlainModulusBitCount),
                  (∃ q ∈ p.q, ¬ Nat.Coprime q p.t, .InvalidPlainModulusCoprimality),
                  (¬ p.t < prodL p.q, .InvalidPlainModulusTooLarge) ]) ++ rest) = firstFailing rest) := by
  subst hp
  unfold schemeStep at h
  cases hsch : c0.parms.scheme with
  | None => exact absurd hsch hs
  | BFV =>
    rw [hsch] at h
    exact bfv_ladder (c0 := { c0 with ntt := true }) he hq h rest
  | BGV =>
    rw [hsch] at h
    exact bfv_ladder (c0 := { c0 with ntt := true }) he hq h rest
  | CKKS =>
    rw [hsch] at h
    simp only [List.cons_append, List.nil_append]
    rcases validateCkks_cases h with ⟨hok, ht, hc'⟩ | ⟨hok, ht, puhi, _, hc'⟩
    · left
      refine ⟨hok, ?_⟩
      rw [firstFailing_pos ht, hc']
    · right
      refine ⟨hok, ?_, ?_⟩
      · rw [hc']; exact he
      · rw [firstFailing_neg (not_not.2 ht)]

/-- the rungs of `validateTail` -/
theorem validateTail_ladder {isPrime : Nat → Bool} {p : Params} {c0 c : ContextData} {kp : Nat}
    (hp : c0.parms = p) (he : c0.err = .Success) (hq : ∀ q ∈ p.q, 2 ≤ q ∧ q < 2^60) (hs : p.scheme ≠ .None)
    (hn : p.n = 2^kp)
    (h : validateTail isPrime p kp (prodL p.q) c0 = .ok c) :
    c.err = firstFailing (
      (rnsBaseNew p.q = .ok false, Gen.ErrorType.FailedCreatingRNSBase) ::
      (∃ q ∈ p.q, ¬ (isPrime q = true ∧ q % (2 * p.n) = 1), .InvalidCoeffModulusNoNTT) ::
      ((match p.scheme with
         | .CKKS => [ (p.t ≠ 0, Gen.ErrorType.InvalidPlainModulusNonzero) ]
         | _ => [ (p.t < 2 ∨ 2^60 ≤ p.t, .InvalidPlainModulusBitCount),
                  (∃ q ∈ p.q, ¬ Nat.Coprime q p.t, .InvalidPlainModulusCoprimality),
                  (¬ p.t < prodL p.q, .InvalidPlainModulusTooLarge) ]) ++
       [ (rnsToolNew isPrime p.n p.q p.t = .ok false, .FailedCreatingRNSTool) ])) := by
  have hntt : p.q.all (nttOk isPrime kp) = true ↔ ¬ ∃ q ∈ p.q, ¬ (isPrime q = true ∧ q % (2 * p.n) = 1) := by
    rw [List.all_eq_true, hn]
    push Not
    constructor
    · intro hx q hqm
      exact (nttOk_iff (by have := hq q hqm; omega)).1 (hx q hqm)
    · intro hx q hqm
      exact (nttOk_iff (by have := hq q hqm; omega)).2 (hx q hqm)
  unfold validateTail at h
  cases hb : rnsBaseNew p.q with
  | error e => simp [hb, bind, Except.bind] at h
  | ok b =>
    cases b with
    | false =>
      simp [hb, bind, Except.bind, pure, Except.pure] at h; subst h
      rw [firstFailing_pos rfl]
    | true =>
      rw [firstFailing_neg (by simp)]
      simp only [hb, bind, Except.bind, Bool.not_true, Bool.false_eq_true, if_false] at h
      by_cases hnt : p.q.all (nttOk isPrime kp) = true
      · rw [firstFailing_neg (hntt.1 hnt)]
        simp only [hnt, Bool.not_true, Bool.false_eq_true, if_false] at h
        cases hr : schemeStep isPrime p kp (prodL p.q) c0 with
        | error e => simp [hr] at h
        | ok r =>
          obtain ⟨c', ok⟩ := r
          simp only [hr] at h
          rcases schemeStep_ladder hp he hq hs hr
            [ (rnsToolNew isPrime p.n p.q p.t = .ok false, .FailedCreatingRNSTool) ] with ⟨hok, hc'⟩ | ⟨hok, hc', hff⟩
          · subst hok
            simp only [Bool.not_false, if_true, pure, Except.pure, Except.ok.injEq] at h
            subst h
            exact hc'
          · subst hok
            rw [hff]
            simp only [Bool.not_true, Bool.false_eq_true, if_false] at h
            cases ht : rnsToolNew isPrime p.n p.q p.t with
            | error e => simp [ht] at h
            | ok b2 =>
              cases b2 with
              | false =>
                simp [ht, pure, Except.pure] at h; subst h
                rw [firstFailing_pos rfl]
              | true =>
                simp only [ht, Bool.not_true, Bool.false_eq_true, if_false, pure, Except.pure, Except.ok.injEq] at h
                subst h
                rw [firstFailing_neg (by simp)]
                exact hc'
      · have hnt' : p.q.all (nttOk isPrime kp) = false := by simpa using hnt
        simp only [hnt', Bool.not_false, if_true, pure, Except.pure, Except.ok.injEq] at h
        subst h
        rw [firstFailing_pos (by_contra fun hx => hnt (hntt.2 hx))]

/-- the reported error is that of the first failing rung -/
theorem error_ladder {isPrime : Nat → Bool} {p : Params} {sec : SecLevel} {c : ContextData}
    (h : validate isPrime p sec = .ok c) : c.err = firstFailing (ladder isPrime p sec) := by
  unfold validate at h
  simp only [] at h
  simp only [ladder, List.cons_append, List.nil_append]
  split at h
  · rename_i h1
    cases h
    rw [firstFailing_pos h1]
  rename_i h1
  rw [firstFailing_neg h1]
  split at h
  · rename_i h2
    cases h
    rw [firstFailing_pos (by simpa only [Gen.HE_COEFF_MOD_COUNT_MAX, Gen.HE_COEFF_MOD_COUNT_MIN] using h2)]
  rename_i h2
  rw [firstFailing_neg (by simpa only [Gen.HE_COEFF_MOD_COUNT_MAX, Gen.HE_COEFF_MOD_COUNT_MIN] using h2)]
  have hbits : p.q.any (fun q => q / 2^Gen.HE_USER_MOD_BIT_COUNT_MAX > 0 ∨ q / 2^(Gen.HE_USER_MOD_BIT_COUNT_MIN - 1) = 0) = true ↔
      ∃ q ∈ p.q, q < 2 ∨ 2^60 ≤ q := by
    rw [List.any_eq_true]
    constructor
    · rintro ⟨q, hqm, hx⟩
      refine ⟨q, hqm, ?_⟩
      by_contra hc
      exact ((bitOk_iff (q := q)).2 ⟨by omega, by omega⟩) (by simpa only [decide_eq_true_eq] using hx)
    · rintro ⟨q, hqm, hx⟩
      refine ⟨q, hqm, ?_⟩
      by_contra hc
      have := (bitOk_iff (q := q)).1 (by simpa only [decide_eq_true_eq] using hc)
      omega
  split at h
  · rename_i h3
    cases h
    rw [firstFailing_pos (hbits.1 h3)]
  rename_i h3
  have h3' := fun hx => h3 (hbits.2 hx)
  rw [firstFailing_neg h3']
  have hq : ∀ q ∈ p.q, 2 ≤ q ∧ q < 2^60 := by
    intro q hqm
    by_contra hc
    exact h3' ⟨q, hqm, by omega⟩
  split at h
  · rename_i h4
    cases h
    rw [firstFailing_pos (by simpa only [Gen.HE_POLY_MOD_DEGREE_MIN, Gen.HE_POLY_MOD_DEGREE_MAX, gt_iff_lt] using h4)]
  rename_i h4
  rw [firstFailing_neg (by simpa only [Gen.HE_POLY_MOD_DEGREE_MIN, Gen.HE_POLY_MOD_DEGREE_MAX, gt_iff_lt] using h4)]
  split at h
  · rename_i hkp
    cases h
    rw [firstFailing_pos (powerOfTwo?_none hkp)]
  rename_i kp hkp
  obtain ⟨hpow, _⟩ := powerOfTwo?_some hkp
  rw [firstFailing_neg (not_not.2 ⟨kp, hpow⟩)]
  split at h
  · rename_i h5
    cases h
    rw [firstFailing_pos (by rw [B64_eq] at h5; exact h5)]
  rename_i h5
  rw [firstFailing_neg (by rw [B64_eq] at h5; exact h5)]
  split at h
  · rename_i h6
    cases h
    rw [firstFailing_pos ⟨h6.2, h6.1⟩]
  rename_i h6
  rw [firstFailing_neg (fun hx => h6 ⟨hx.2, hx.1⟩)]
  exact validateTail_ladder rfl rfl hq h1 hpow h

theorem coprime_prodL {m : Nat} : ∀ (l : List Nat), (∀ x ∈ l, Nat.Coprime x m) → Nat.Coprime (prodL l) m
  | [], _ => by simp [prodL]
  | x :: xs, h => by
    simp only [prodL]
    exact Nat.Coprime.mul_left (h x (by simp)) (coprime_prodL xs fun y hy => h y (by simp [hy]))

theorem foldlM_all_true (f : Nat → R Bool) : ∀ (l : List Nat), (∀ i ∈ l, f i = .ok true) →
    l.foldlM (fun ok i => if !ok then pure false else f i) true = .ok true
  | [], _ => rfl
  | a :: l, h => by
    simp only [List.foldlM_cons, Bool.not_true, Bool.false_eq_true, if_false, h a (by simp), bind, Except.bind]
    exact foldlM_all_true f l (fun i hi => h i (by simp [hi]))

theorem getD_mem {l : List Nat} {i : Nat} (h : i < l.length) : l.getD i 0 ∈ l := by
  rw [List.getD_eq_getElem?_getD, List.getElem?_eq_getElem h]
  exact List.getElem_mem h

theorem coprime_others : ∀ (qs : List Nat) (i : Nat), qs.Pairwise Nat.Coprime → i < qs.length →
    ∀ x ∈ qs.take i ++ qs.drop (i + 1), Nat.Coprime x (qs.getD i 0)
  | [], i, _, hi => by simp at hi
  | a :: l, 0, hp, _ => by
    intro x hx
    simp only [List.take_zero, List.nil_append, Nat.zero_add, List.drop_succ_cons, List.drop_zero] at hx
    simp only [List.getD_cons_zero]
    exact ((List.pairwise_cons.1 hp).1 x hx).symm
  | a :: l, j+1, hp, hi => by
    intro x hx
    have hj : j < l.length := by simpa using hi
    obtain ⟨hp1, hp2⟩ := List.pairwise_cons.1 hp
    simp only [List.take_succ_cons, List.cons_append, List.drop_succ_cons, List.mem_cons] at hx
    simp only [List.getD_cons_succ]
    rcases hx with rfl | hx
    · apply hp1
      exact getD_mem hj
    · exact coprime_others l j hp2 hj x hx

theorem invertible_true {v q : Nat} (hq2 : 2 ≤ q) (hq : q < 2^61) (hg : Nat.Coprime v q) :
    invertible (v % q) q = .ok true := by
  have hlt : v % q < q := Nat.mod_lt _ (by omega)
  have hg' : Nat.gcd (v % q) q = 1 := by
    rw [← Nat.gcd_rec, Nat.gcd_comm]; exact hg
  have hv0 : v % q ≠ 0 := by
    intro h0
    rw [h0, Nat.gcd_zero_left] at hg'
    omega
  obtain ⟨r, hr, _⟩ := (tryInvert_spec_partial (v := v % q) hq2 hq (by omega) (by omega)).1 ⟨hv0, hg'⟩
  simp [invertible, hr, bind, Except.bind, pure, Except.pure]

/-- `RNSBase::new` fails exactly when the moduli (all ≥ 2, ≤ 61 bits) are not pairwise coprime -/
theorem rnsBaseNew_eq {qs : List Nat} (hne : qs ≠ []) (hq : ∀ q ∈ qs, 2 ≤ q ∧ q < 2^61) :
    rnsBaseNew qs = .ok (decide (qs.Pairwise Nat.Coprime)) := by
  have h1 : ¬ (qs.isEmpty = true) := by rw [List.isEmpty_iff]; exact hne
  have h2 : ¬ (qs.any (· = 0) = true) := by
    rw [List.any_eq_true]
    rintro ⟨x, hx, h0⟩
    have := hq x hx
    simp only [decide_eq_true_eq] at h0
    omega
  have hiff := pairwiseCoprimeB_iff qs (fun q hqm => by have := hq q hqm; omega)
  unfold rnsBaseNew
  rw [if_neg h1, if_neg h2]
  by_cases hpc : qs.Pairwise Nat.Coprime
  · have hb := hiff.2 hpc
    rw [hb, decide_eq_true hpc]
    simp only [Bool.not_true, Bool.false_eq_true, if_false]
    split
    · apply foldlM_all_true (fun i => invertible (prodExcept qs i % qs.getD i 0) (qs.getD i 0))
      intro i hi
      have hi' : i < qs.length := List.mem_range.1 hi
      have hmem : qs.getD i 0 ∈ qs := getD_mem hi'
      have hqi := hq _ hmem
      exact invertible_true hqi.1 hqi.2 (coprime_prodL _ (coprime_others qs i hpc hi'))
    · rfl
  · have hb : pairwiseCoprimeB qs = false := by
      cases hx : pairwiseCoprimeB qs with
      | false => rfl
      | true => exact absurd (hiff.1 hx) hpc
    rw [hb, decide_eq_false hpc]
    rfl

end HC.Ctx
