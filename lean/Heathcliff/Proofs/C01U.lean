/- C01 part U: the hypothesis bundles of the end-to-end encryption theorems (C01L) FROM THE CONSTRUCTORS, on the driver's own objects:
   U1  two levels built by `Drv.Sch.mkLevel` on a modulus list and on a prefix of it are related by `LevelPrefix` (same moduli, same
       tables, same plain modulus): `mkLevel_prefix`; dropping exactly one modulus gives the whole bundle `PrevLevelOK` of the
       special-prime path: `mkLevel_prevLevelOK`;
   U2  the BFV constants the driver computes from their definitions (`Drv.C01E.bfvConsts`: Harvey operands of ⌊Q/t⌋ mod q_j) satisfy
       `ScalingOK`: `bfvConsts_scalingOK`;
   U3  the BGV lift constants the driver computes (`Drv.C01E.bgvIncr`: fast path iff every q_i > t, increments q_i − t, else the
       multi-word value Q − t) satisfy `BgvLiftOK`: `bgvIncr_liftOK`.
   Helper names carry the prefix `c01u_`. -/
import Heathcliff.Proofs.C01L
import Heathcliff.Proofs.C01Q
import Driver.C01E
namespace HC
open Finset

/-! ## U1: levels on a prefix of the modulus list -/

theorem c01u_forall2_prefix {α β : Type} {f : α → R β} {as r : List α} {bs bs' : List β}
    (h : List.Forall₂ (fun a b => f a = .ok b) as bs) (h' : List.Forall₂ (fun a b => f a = .ok b) (as ++ r) bs') :
    ∀ i (hi : i < bs.length) (hi' : i < bs'.length), bs.get ⟨i, hi⟩ = bs'.get ⟨i, hi'⟩ := by
  intro i hi hi'
  have hl := h.length_eq
  have hia : i < as.length := by omega
  have hia' : i < (as ++ r).length := by rw [List.length_append]; omega
  have s1 := List.Forall₂.get h hia hi
  have s2 := List.Forall₂.get h' hia' hi'
  have e : (as ++ r).get ⟨i, hia'⟩ = as.get ⟨i, hia⟩ := by
    simp [List.getElem_append_left hia]
  rw [e, s1] at s2
  injection s2

theorem c01u_level_q_mk (scheme : Scheme) (n k : Nat) (ms : List Modulus) (tm : Modulus) (tb : List NTTTables) (tool : RNSTool)
    {i : Nat} (hi : i < ms.length) : (⟨scheme, n, k, ms.toArray, tm, tb.toArray, tool⟩ : Level).q i = ms.get ⟨i, hi⟩ := by
  simp [Level.q, Array.getD, hi]

theorem c01u_level_tbl_mk (scheme : Scheme) (n k : Nat) (ms : List Modulus) (tm : Modulus) (tb : List NTTTables) (tool : RNSTool)
    {i : Nat} (hi : i < tb.length) : (⟨scheme, n, k, ms.toArray, tm, tb.toArray, tool⟩ : Level).tbl i = tb.get ⟨i, hi⟩ := by
  simp [Level.tbl, Array.getD, hi]

/-- U1: `mkLevel` on `qs` and on `qs ++ r` (same scheme, degree, plain modulus): the first level is a prefix of the second — the
    SAME `Modulus` and `NTTTables` objects in the common positions (the constructors are functions of the modulus value) -/
theorem mkLevel_prefix {scheme : Scheme} {n : Nat} {qs r : List Nat} {t : Nat} {l L : Level}
    (hl : Drv.Sch.mkLevel scheme n qs t = .ok l) (hL : Drv.Sch.mkLevel scheme n (qs ++ r) t = .ok L) :
    LevelPrefix l L ∧ l.scheme = L.scheme ∧ l.t = L.t ∧ l.size = qs.length ∧ L.size = qs.length + r.length := by
  obtain ⟨ms, tm, tbl, q, aux, tool, hms, htm, htbl, _, _, _, rfl⟩ := c01q_mkLevel_inv hl
  obtain ⟨ms', tm', tbl', q', aux', tool', hms', htm', htbl', _, _, _, rfl⟩ := c01q_mkLevel_inv hL
  have hF1 := RNSH.mapM_ok_inv _ _ _ hms
  have hF2 := RNSH.mapM_ok_inv _ _ _ htbl
  have hF1' := RNSH.mapM_ok_inv _ _ _ hms'
  have hF2' := RNSH.mapM_ok_inv _ _ _ htbl'
  have l1 := hF1.length_eq; have l2 := hF2.length_eq
  have l1' := hF1'.length_eq; have l2' := hF2'.length_eq
  rw [List.length_append] at l1' l2'
  rw [htm] at htm'; injection htm' with htm'; subst htm'
  have hsz : (⟨scheme, n, Nat.log2 n, ms.toArray, tm, tbl.toArray, tool⟩ : Level).size = ms.length := by simp [Level.size]
  have hsz' : (⟨scheme, n, Nat.log2 n, ms'.toArray, tm, tbl'.toArray, tool'⟩ : Level).size = ms'.length := by simp [Level.size]
  refine ⟨⟨by rw [hsz, hsz']; omega, rfl, fun i hi => ?_, fun i hi => ?_⟩, rfl, rfl, by rw [hsz]; omega, by rw [hsz']; omega⟩
  · rw [hsz] at hi
    rw [c01u_level_q_mk _ _ _ _ _ _ _ hi, c01u_level_q_mk _ _ _ _ _ _ _ (show i < ms'.length by omega)]
    exact c01u_forall2_prefix hF1 hF1' i hi _
  · rw [hsz] at hi
    rw [c01u_level_tbl_mk _ _ _ _ _ _ _ (show i < tbl.length by omega),
      c01u_level_tbl_mk _ _ _ _ _ _ _ (show i < tbl'.length by omega)]
    exact c01u_forall2_prefix hF2 hF2' i _ _

/-- U1': the bundle of the special-prime path / of encryption below the first level, for the two levels the driver builds: the level
    `l` on `qs` (at least one modulus — `mkLevel` refuses the empty list) and the previous level `pl` on `qs ++ [qL]`.  The only input
    hypothesis: a BGV level has a plain modulus (t ≠ 0; with t = 0 the tool has no BGV constants, `mkLevel_t0`). -/
theorem mkLevel_prevLevelOK {scheme : Scheme} {n : Nat} {qs : List Nat} {qL t : Nat} {l pl : Level}
    (hl : Drv.Sch.mkLevel scheme n qs t = .ok l) (hpl : Drv.Sch.mkLevel scheme n (qs ++ [qL]) t = .ok pl)
    (hbgv : scheme = .bgv → t ≠ 0) : PrevLevelOK pl l := by
  obtain ⟨hp, hs, ht, hsz, hsz'⟩ := mkLevel_prefix hl hpl
  obtain ⟨a1, a2, a3, a4, a5, a6, a7, a8, a9⟩ := mkLevel_ok hpl
  obtain ⟨b1, b2, b3, b4, b5, b6, b7, b8, b9⟩ := mkLevel_ok hl
  obtain ⟨_, _, _, hq1, _, ht61, _, _⟩ := mkLevel_ok_inputs hl
  have ht64 : pl.t.value < 2^64 := by
    rw [a9]
    have : (2:Nat)^61 < 2^64 := by norm_num
    omega
  simp only [List.length_singleton] at hsz'
  exact ⟨a1, a2, a3, by omega, fun hb => (a4 (hbgv (by rw [← a5, hb]))).2, ht64, b2, b3,
    ⟨by omega, hp.n, hp.q⟩, hp.tbl, hs, ht⟩

/-! ## U2: the BFV scaling constants from their definitions -/

theorem c01u_mulop_new {m : Modulus} (hm : m.WF) {y : Nat} (hy : y < m.value) :
    ∃ o, MulOperand.new y m = .ok o ∧ WFOp m o ∧ o.operand = y := by
  have h2 := hm.two_le
  refine ⟨⟨y, (y * B64 / m.value) % B64⟩, ?_, ⟨hy, ?_⟩, rfl⟩
  · unfold MulOperand.new
    rw [if_neg (by omega)]; rfl
  · show (y * B64 / m.value) % B64 = y * 2^64 / m.value
    have hB : B64 = 2^64 := rfl
    rw [hB]
    apply Nat.mod_eq_of_lt
    rw [Nat.div_lt_iff_lt_mul (show 0 < m.value by omega)]
    rw [Nat.mul_comm (2^64) m.value]
    exact Nat.mul_lt_mul_of_pos_right hy (show 0 < 2^64 by norm_num)

theorem c01u_mapM_range {β : Type} (f : Nat → R β) (g : Nat → β) (k : Nat) (h : ∀ j, j < k → f j = .ok (g j)) :
    (List.range k).mapM f = .ok ((List.range k).map g) := by
  induction k with
  | zero => rfl
  | succ k ih =>
    rw [List.range_succ, List.mapM_append, ih (fun j hj => h j (by omega))]
    simp only [List.mapM_cons, List.mapM_nil, h k (by omega), List.map_append, List.map_cons, List.map_nil]
    rfl

theorem c01u_qvals_getD {l : Level} {qs : List Nat} (h : c01p_qvals l = qs) {j : Nat} (hj : j < l.size) :
    qs.getD j 1 = (l.q j).value := by
  subst h
  have hj' : j < l.qs.size := hj
  simp [c01p_qvals, Level.q, Array.getD, hj', List.getD]

theorem c01u_qvals_length {l : Level} {qs : List Nat} (h : c01p_qvals l = qs) : qs.length = l.size := by
  subst h
  simp [c01p_qvals, Level.size]

/-- U2: the constants `Drv.C01E.bfvConsts` computes for a BFV level the driver builds (t ≥ 2) exist and satisfy `ScalingOK` -/
theorem bfvConsts_scalingOK {scheme : Scheme} {n : Nat} {qs : List Nat} {t : Nat} {l : Level}
    (hl : Drv.Sch.mkLevel scheme n qs t = .ok l) (ht2 : 2 ≤ t) :
    ∃ cdp, Drv.C01E.bfvConsts l qs t = .ok cdp ∧ ScalingOK l (Spec.prodL (c01p_qvals l)) cdp := by
  obtain ⟨b1, b2, b3, b4, b5, b6, b7, b8, b9⟩ := mkLevel_ok hl
  obtain ⟨_, _, _, _, _, ht61, _, _⟩ := mkLevel_ok_inputs hl
  have hlen := c01u_qvals_length b8
  have hqwf : ∀ j, j < l.size → (l.q j).WF := fun j hj => (c01o_level_comp b1 hj).2.2.2
  have hex : ∀ j, ∃ o, j < l.size → MulOperand.new ((Spec.prodL qs / t) % qs.getD j 1) (l.q j) = .ok o ∧ WFOp (l.q j) o ∧
      o.operand = (Spec.prodL qs / t) % (l.q j).value := by
    intro j
    by_cases hj : j < l.size
    · have hw := hqwf j hj
      obtain ⟨o, h1, h2, h3⟩ := c01u_mulop_new hw (y := (Spec.prodL qs / t) % qs.getD j 1)
        (by rw [c01u_qvals_getD b8 hj]; exact Nat.mod_lt _ (by have := hw.two_le; omega))
      exact ⟨o, fun _ => ⟨h1, h2, by rw [h3, c01u_qvals_getD b8 hj]⟩⟩
    · exact ⟨default, fun h => absurd h hj⟩
  choose g hg using hex
  refine ⟨((List.range qs.length).map g).toArray, ?_, ?_⟩
  · unfold Drv.C01E.bfvConsts
    simp only []
    rw [c01u_mapM_range _ g qs.length (fun j hj => (hg j (by omega)).1)]
    rfl
  · rw [b8]
    refine ⟨hqwf, by rw [b9]; exact ht2, by rw [b9]; exact ht61, by simp [hlen], fun j hj => ?_⟩
    have e : (((List.range qs.length).map g).toArray).getD j default = g j := by
      have hj' : j < qs.length := by omega
      simp [Array.getD, hj']
    rw [e, b9]
    exact (hg j hj).2

/-! ## U3: the BGV lift constants from their definitions -/

theorem c01u_getD_getElem (qs : List Nat) {i : Nat} (hi : i < qs.length) : qs.getD i 1 = qs[i] := by
  simp [List.getD_eq_getElem?_getD, hi]

theorem c01u_prod_lt_pow : ∀ (qs : List Nat), (∀ v ∈ qs, v < 2^64) →
    qs.prod ≤ 2^(64 * qs.length) ∧ (qs ≠ [] → qs.prod < 2^(64 * qs.length))
  | [], _ => ⟨by simp, fun h => absurd rfl h⟩
  | a :: rest, h => by
    have ha := h a (by simp)
    obtain ⟨ih, _⟩ := c01u_prod_lt_pow rest (fun v hv => h v (by simp [hv]))
    have e : 64 * (a :: rest).length = 64 + 64 * rest.length := by simp [List.length_cons]; ring
    have hlt : (a :: rest).prod < 2^(64 * (a :: rest).length) := by
      rw [List.prod_cons, e, pow_add]
      exact Nat.mul_lt_mul_of_lt_of_le ha ih (by positivity)
    exact ⟨Nat.le_of_lt hlt, fun _ => hlt⟩

/-- U3: the BGV lift constants `Drv.C01E.bgvIncr` computes for a level the driver builds, with t < Q, satisfy `BgvLiftOK` (threshold
    ⌊(t+1)/2⌋; either path) -/
theorem bgvIncr_liftOK {scheme : Scheme} {n : Nat} {qs : List Nat} {t : Nat} {l : Level}
    (hl : Drv.Sch.mkLevel scheme n qs t = .ok l) (htQ : t < Spec.prodL qs) :
    BgvLiftOK l (Drv.C01E.bgvIncr qs t).1 ((t + 1) / 2) (Drv.C01E.bgvIncr qs t).2 := by
  obtain ⟨b1, b2, b3, b4, b5, b6, b7, b8, b9⟩ := mkLevel_ok hl
  obtain ⟨_, _, _, hq1, _, _, _, hqs⟩ := mkLevel_ok_inputs hl
  have hlen := c01u_qvals_length b8
  unfold BgvLiftOK
  refine ⟨by rw [b9], ?_⟩
  by_cases hfast : qs.all (fun q => !(decide (q ≤ t))) = true
  · have e : Drv.C01E.bgvIncr qs t = (true, (qs.map (fun q => q - t)).toArray) := by
      unfold Drv.C01E.bgvIncr
      simp only [hfast, ↓reduceIte]
    rw [e]
    simp only [↓reduceIte]
    intro i hi
    have hi' : i < qs.length := by omega
    have hv := c01u_qvals_getD b8 hi
    have hmem : qs.getD i 1 ∈ qs := by
      rw [c01u_getD_getElem qs hi']; exact List.getElem_mem _
    have hlt : t < qs.getD i 1 := by
      have := List.all_eq_true.mp hfast _ hmem
      simpa using this
    rw [b9, ← hv]
    refine ⟨hlt, ?_⟩
    simp [Array.getD, hi']
  · have e : Drv.C01E.bgvIncr qs t = (false, (fromNat qs.length (Spec.prodL qs - t)).toArray) := by
      unfold Drv.C01E.bgvIncr
      simp only [hfast, Bool.false_eq_true, ↓reduceIte]
    rw [e]
    simp only [Bool.false_eq_true, ↓reduceIte]
    rw [b8, b9]
    refine ⟨htQ, ?_⟩
    have htake : (fromNat qs.length (Spec.prodL qs - t)).take l.size = fromNat qs.length (Spec.prodL qs - t) := by
      apply List.take_of_length_le
      rw [RNSH.fromNat_length]; omega
    rw [htake, RNSH.toNat_fromNat]
    apply Nat.mod_eq_of_lt
    have hp := (c01u_prod_lt_pow qs (fun v hv => by
      have := (hqs v hv).2.1
      have : (2:Nat)^61 < 2^64 := by norm_num
      omega)).2 (by rintro rfl; simp at hq1)
    rw [c01p_prodL_eq]
    omega

end HC
