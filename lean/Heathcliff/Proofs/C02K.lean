/- C02: ciphertext algebra behind the evaluator — products of ciphertexts of ANY sizes are the Cauchy product, add/sub of
   ciphertexts of different sizes, BGV correction-factor balancing. -/
import Heathcliff.Model.Evaluator
import Heathcliff.Proofs.NTTDefs
import Heathcliff.Proofs.C08A
import Heathcliff.Proofs.C08B
import Mathlib.Algebra.BigOperators.Intervals
import Mathlib.Algebra.BigOperators.Ring.Finset
import Mathlib.Data.Int.ModEq
import Mathlib.Tactic.Ring
import Mathlib.Tactic.Linarith
namespace HC
open Finset

/-- INDEX ARITHMETIC: for output polynomial i the loop visits exactly the pairs (a, b), a < n1, b < n2, a + b = i, each once -/
theorem mulPairs_spec {n1 n2 i : Nat} (h1 : 1 ≤ n1) (h2 : 1 ≤ n2) (hi : i < n1 + n2 - 1) :
    (mulPairs n1 n2 i).Nodup ∧ ∀ a b, (a, b) ∈ mulPairs n1 n2 i ↔ (a < n1 ∧ b < n2 ∧ a + b = i) := by
  unfold mulPairs
  constructor
  · apply List.Nodup.map _ List.nodup_range
    intro j j' h
    simp only [Prod.mk.injEq] at h
    omega
  · intro a b
    simp only [List.mem_map, List.mem_range, Prod.mk.injEq]
    constructor
    · rintro ⟨j, hj, rfl, rfl⟩
      omega
    · rintro ⟨ha, hb, rfl⟩
      refine ⟨a - ((a + b) - min (a + b) (n2 - 1)), ?_, ?_, ?_⟩ <;> omega

variable {R : Type} [CommRing R]

/-- phase of a ciphertext of size n: Σ c_i s^i -/
def ctPhase (n : Nat) (c : Nat → R) (s : R) : R := ∑ i ∈ range n, c i * s ^ i

theorem c02k_pairs_sum {n1 n2 i : Nat} (h1 : 1 ≤ n1) (h2 : 1 ≤ n2) (hi : i < n1 + n2 - 1) (g : Nat × Nat → R) :
    ((mulPairs n1 n2 i).map g).sum
      = ∑ a ∈ range n1, ∑ b ∈ range n2, if a + b = i then g (a, b) else 0 := by
  obtain ⟨hnd, hmem⟩ := mulPairs_spec h1 h2 hi
  rw [← List.sum_toFinset g hnd]
  have hset : (mulPairs n1 n2 i).toFinset = (range n1 ×ˢ range n2).filter (fun p => p.1 + p.2 = i) := by
    ext ⟨a, b⟩
    simp only [List.mem_toFinset, Finset.mem_filter, Finset.mem_product, Finset.mem_range, hmem]
    tauto
  rw [hset, Finset.sum_filter, Finset.sum_product]

/-- PRODUCT: the polynomials d_i = Σ_{(a,b) ∈ mulPairs} c_a·e_b, i < n1+n2-1, have phase(c)·phase(e) — for every pair of sizes -/
theorem ct_mul_phase {n1 n2 : Nat} (h1 : 1 ≤ n1) (h2 : 1 ≤ n2) (c e : Nat → R) (s : R) :
    ctPhase (n1 + n2 - 1) (fun i => ((mulPairs n1 n2 i).map (fun p => c p.1 * e p.2)).sum) s
      = ctPhase n1 c s * ctPhase n2 e s := by
  unfold ctPhase
  rw [Finset.sum_mul_sum]
  have hL : ∀ i ∈ range (n1 + n2 - 1),
      ((mulPairs n1 n2 i).map (fun p => c p.1 * e p.2)).sum * s ^ i
        = ∑ a ∈ range n1, ∑ b ∈ range n2, if a + b = i then c a * e b * s ^ i else 0 := by
    intro i hi
    rw [c02k_pairs_sum h1 h2 (Finset.mem_range.mp hi), Finset.sum_mul]
    refine Finset.sum_congr rfl (fun a _ => ?_)
    rw [Finset.sum_mul]
    refine Finset.sum_congr rfl (fun b _ => ?_)
    split <;> simp
  rw [Finset.sum_congr rfl hL, Finset.sum_comm]
  refine Finset.sum_congr rfl (fun a ha => ?_)
  rw [Finset.sum_comm]
  refine Finset.sum_congr rfl (fun b hb => ?_)
  rw [Finset.sum_ite_eq]
  have : a + b ∈ range (n1 + n2 - 1) := by
    simp only [Finset.mem_range] at *; omega
  rw [if_pos this, pow_add]
  ring

/-- value of one term of `translateShape` -/
def trVal (sub : Bool) (a b : Nat → R) : TrTerm → R
  | .both i => if sub then a i - b i else a i + b i
  | .left i => a i
  | .right i => if sub then - b i else b i

theorem c02k_tr_getD (n1 n2 : Nat) (sub : Bool) (a b : Nat → R) {i : Nat} (hi : i < max n1 n2) :
    ((translateShape n1 n2).map (trVal sub a b)).getD i 0
      = (if i < n1 then a i else 0) + (if sub then -(if i < n2 then b i else 0) else (if i < n2 then b i else 0)) := by
  unfold translateShape
  rw [List.getD_eq_getElem?_getD, List.getElem?_eq_getElem (by simpa using hi), Option.getD_some]
  simp only [List.getElem_map, List.getElem_range]
  by_cases h1 : i < n1 <;> by_cases h2 : i < n2
  · rw [if_pos (by omega), if_pos h1, if_pos h2]
    cases sub <;> simp [trVal, sub_eq_add_neg]
  · rw [if_neg (by omega), if_pos (by omega), if_pos h1, if_neg h2]
    cases sub <;> simp [trVal]
  · rw [if_neg (by omega), if_neg (by omega), if_neg h1, if_pos h2]
    cases sub <;> simp [trVal]
  · omega

theorem c02k_sum_ext {n m : Nat} (h : n ≤ m) (f : Nat → R) (s : R) :
    ∑ i ∈ range m, (if i < n then f i else 0) * s ^ i = ∑ i ∈ range n, f i * s ^ i := by
  have : ∀ i ∈ range m, (if i < n then f i else 0) * s ^ i = if i < n then f i * s ^ i else 0 := by
    intro i _; split <;> simp
  rw [Finset.sum_congr rfl this, ← Finset.sum_filter]
  congr 1
  ext i
  simp only [Finset.mem_filter, Finset.mem_range]
  omega

/-- ADD / SUB of ciphertexts of different sizes: the shorter operand is zero-extended; in a subtraction the polynomials taken
    over from a larger subtrahend are negated -/
theorem translate_phase (n1 n2 : Nat) (sub : Bool) (a b : Nat → R) (s : R) :
    ctPhase (max n1 n2) (fun i => ((translateShape n1 n2).map (trVal sub a b)).getD i 0) s
      = if sub then ctPhase n1 a s - ctPhase n2 b s else ctPhase n1 a s + ctPhase n2 b s := by
  unfold ctPhase
  have hL : ∀ i ∈ range (max n1 n2),
      ((translateShape n1 n2).map (trVal sub a b)).getD i 0 * s ^ i
        = (if i < n1 then a i else 0) * s ^ i
          + (if sub then -((if i < n2 then b i else 0) * s ^ i) else (if i < n2 then b i else 0) * s ^ i) := by
    intro i hi
    rw [c02k_tr_getD n1 n2 sub a b (Finset.mem_range.mp hi)]
    cases sub <;> simp only [if_true, if_false, Bool.false_eq_true] <;> ring
  rw [Finset.sum_congr rfl hL, Finset.sum_add_distrib, c02k_sum_ext (le_max_left n1 n2)]
  cases sub
  · simp only [if_false, Bool.false_eq_true]
    rw [c02k_sum_ext (le_max_right n1 n2)]
  · simp only [if_true]
    rw [Finset.sum_neg_distrib, c02k_sum_ext (le_max_right n1 n2), sub_eq_add_neg]

/-- negation -/
theorem negate_phase (n : Nat) (a : Nat → R) (s : R) : ctPhase n (fun i => - a i) s = - ctPhase n a s := by
  unfold ctPhase
  rw [← Finset.sum_neg_distrib]
  exact Finset.sum_congr rfl (fun i _ => by ring)

/-- multiplication by a plaintext polynomial p (every ciphertext polynomial multiplied by p) -/
theorem mul_plain_phase (n : Nat) (a : Nat → R) (p s : R) : ctPhase n (fun i => a i * p) s = ctPhase n a s * p := by
  unfold ctPhase
  rw [Finset.sum_mul]
  exact Finset.sum_congr rfl (fun i _ => by ring)

/-- adding a plaintext touches only c_0 -/
theorem add_plain_phase (n : Nat) (hn : 1 ≤ n) (a : Nat → R) (p s : R) :
    ctPhase n (fun i => if i = 0 then a i + p else a i) s = ctPhase n a s + p := by
  unfold ctPhase
  obtain ⟨k, rfl⟩ : ∃ k, n = k + 1 := ⟨n - 1, by omega⟩
  rw [Finset.sum_range_succ', Finset.sum_range_succ']
  have : ∀ i ∈ range k, (if i + 1 = 0 then a (i + 1) + p else a (i + 1)) * s ^ (i + 1) = a (i + 1) * s ^ (i + 1) := by
    intro i _
    rw [if_neg (Nat.succ_ne_zero i)]
  rw [Finset.sum_congr rfl this]
  simp only [if_true, pow_zero, mul_one]
  ring

/-! ### BGV correction factors (plaintext = factor^{-1} · phase mod t) -/

/-- reduction of a signed value into [0,t), as done in the loop: reduce |x|, negate if x < 0 -/
def c02k_red (x : Int) (t : Nat) : Nat := if x < 0 then (t - x.natAbs % t) % t else x.natAbs % t

theorem c02k_red_lt {t : Nat} (ht : 0 < t) (x : Int) : c02k_red x t < t := by
  unfold c02k_red; split <;> exact Nat.mod_lt _ ht

theorem c02k_neg_aux {t : Nat} (ht : 0 < t) (n : Nat) : (((t - n % t) % t : Nat) : Int) ≡ -(n : Int) [ZMOD t] := by
  have hdm : (n : Int) = t * (n / t : Nat) + (n % t : Nat) := by
    exact_mod_cast (Nat.div_add_mod n t).symm
  have hle : n % t ≤ t := (Nat.mod_lt _ ht).le
  calc ((((t - n % t) % t : Nat)) : Int) = ((t - n % t : Nat) : Int) % t := Int.natCast_mod _ _
    _ ≡ ((t - n % t : Nat) : Int) [ZMOD t] := Int.mod_modEq _ _
    _ ≡ -(n : Int) [ZMOD t] := by
        rw [Int.modEq_iff_dvd]
        refine ⟨-((n / t : Nat) + 1), ?_⟩
        rw [Nat.cast_sub hle]
        conv_lhs => rw [hdm]
        ring

theorem c02k_red_modEq {t : Nat} (ht : 0 < t) (x : Int) : (c02k_red x t : Int) ≡ x [ZMOD t] := by
  unfold c02k_red
  split
  · rename_i hneg
    have hx : x = -(x.natAbs : Int) := by omega
    conv_rhs => rw [hx]
    exact c02k_neg_aux ht _
  · rename_i hneg
    have hx : x = (x.natAbs : Int) := by omega
    calc (((x.natAbs % t : Nat)) : Int) = (x.natAbs : Int) % t := Int.natCast_mod _ _
      _ ≡ (x.natAbs : Int) [ZMOD t] := Int.mod_modEq _ _
      _ = x := hx.symm

theorem c02k_loop_zero (t : Modulus) (fuel : Nat) (prevA prevB b : Int) (e1 e2 : Nat) (sum : Int) :
    balanceLoop t (fuel + 1) prevA 0 prevB b e1 e2 sum = .ok (e1, e2) := by
  rw [balanceLoop]; rfl

theorem c02k_loop_overflow (t : Modulus) (fuel : Nat) (prevA a prevB b : Int) (e1 e2 : Nat) (sum : Int)
    (ha : a ≠ 0) (hb : ¬ (-(2^63 : Int) ≤ prevB - Int.tdiv prevA a * b ∧ prevB - Int.tdiv prevA a * b < 2^63)) :
    balanceLoop t (fuel + 1) prevA a prevB b e1 e2 sum = .error .overflow := by
  rw [balanceLoop, if_neg ha]
  simp only [ckI64, if_neg hb, bind, Except.bind]

theorem c02k_loop_step {t : Modulus} (ht : t.WF) (fuel : Nat) (prevA a prevB b : Int) (e1 e2 : Nat) (sum : Int)
    (ha : a ≠ 0) (haa : (Int.tmod prevA a).natAbs < 2^64)
    (hb1 : -(2^63 : Int) ≤ prevB - Int.tdiv prevA a * b) (hb2 : prevB - Int.tdiv prevA a * b < 2^63) :
    ∃ e1' e2' sum', balanceLoop t (fuel + 1) prevA a prevB b e1 e2 sum
        = balanceLoop t fuel a (Int.tmod prevA a) b (prevB - Int.tdiv prevA a * b) e1' e2' sum' ∧
      ((e1' = e1 ∧ e2' = e2) ∨
       (e1' = c02k_red (Int.tmod prevA a) t.value ∧ e2' = c02k_red (prevB - Int.tdiv prevA a * b) t.value)) := by
  have hbb : (prevB - Int.tdiv prevA a * b).natAbs < 2^64 := by omega
  have hle1 : (Int.tmod prevA a).natAbs % t.value ≤ t.value :=
    (Nat.mod_lt _ (by have := ht.two_le; omega)).le
  have hle2 : (prevB - Int.tdiv prevA a * b).natAbs % t.value ≤ t.value :=
    (Nat.mod_lt _ (by have := ht.two_le; omega)).le
  rw [balanceLoop, if_neg ha]
  simp only [bind, Except.bind, ckI64_ok hb1 hb2, barrett64_exact ht haa, barrett64_exact ht hbb]
  have hra : ∀ (h : Int.tmod prevA a < 0), (t.value - (Int.tmod prevA a).natAbs % t.value) % t.value
      = c02k_red (Int.tmod prevA a) t.value := fun h => by unfold c02k_red; rw [if_pos h]
  have hra' : ∀ (h : ¬ Int.tmod prevA a < 0), (Int.tmod prevA a).natAbs % t.value
      = c02k_red (Int.tmod prevA a) t.value := fun h => by unfold c02k_red; rw [if_neg h]
  have hrb : ∀ (h : prevB - Int.tdiv prevA a * b < 0),
      (t.value - (prevB - Int.tdiv prevA a * b).natAbs % t.value) % t.value
      = c02k_red (prevB - Int.tdiv prevA a * b) t.value := fun h => by unfold c02k_red; rw [if_pos h]
  have hrb' : ∀ (h : ¬ prevB - Int.tdiv prevA a * b < 0), (prevB - Int.tdiv prevA a * b).natAbs % t.value
      = c02k_red (prevB - Int.tdiv prevA a * b) t.value := fun h => by unfold c02k_red; rw [if_neg h]
  have fin : ∀ am bm : Nat, ∀ ns : Int, ∀ c : Prop, ∀ _ : Decidable c, ∃ e1' e2' sum',
      balanceLoop t fuel a (Int.tmod prevA a) b (prevB - Int.tdiv prevA a * b)
        (if c then if ns < sum then (am, bm, ns) else (e1, e2, sum) else (e1, e2, sum)).1
        (if c then if ns < sum then (am, bm, ns) else (e1, e2, sum) else (e1, e2, sum)).2.1
        (if c then if ns < sum then (am, bm, ns) else (e1, e2, sum) else (e1, e2, sum)).2.2
      = balanceLoop t fuel a (Int.tmod prevA a) b (prevB - Int.tdiv prevA a * b) e1' e2' sum' ∧
      ((e1' = e1 ∧ e2' = e2) ∨ (e1' = am ∧ e2' = bm)) := by
    intro am bm ns c _
    refine ⟨_, _, _, rfl, ?_⟩
    split_ifs <;> simp
  by_cases hn : Int.tmod prevA a < 0 <;> by_cases hn' : prevB - Int.tdiv prevA a * b < 0 <;>
    simp only [hn, hn', if_true, if_false, negateMod_exact ht hle1, negateMod_exact ht hle2, pure, Except.pure]
  · rw [hra hn, hrb hn']; exact fin _ _ _ _ _
  · rw [hra hn, hrb' hn']; exact fin _ _ _ _ _
  · rw [hra' hn, hrb hn']; exact fin _ _ _ _ _
  · rw [hra' hn, hrb' hn']; exact fin _ _ _ _ _

theorem c02k_loop_spec {t : Modulus} (ht : t.WF) (ratio : Int) :
    ∀ (fuel : Nat) (prevA a prevB b : Int) (e1 e2 : Nat) (sum : Int) (r : Nat × Nat),
    a.natAbs < 2^64 → prevA ≡ prevB * ratio [ZMOD t.value] → a ≡ b * ratio [ZMOD t.value] →
    e1 < t.value → (e1 : Int) ≡ e2 * ratio [ZMOD t.value] →
    balanceLoop t fuel prevA a prevB b e1 e2 sum = .ok r →
    r.1 < t.value ∧ (r.1 : Int) ≡ r.2 * ratio [ZMOD t.value] := by
  have htpos : 0 < t.value := by have := ht.two_le; omega
  intro fuel
  induction fuel with
  | zero =>
    intro prevA a prevB b e1 e2 sum r _ _ _ _ _ h
    rw [balanceLoop] at h; cases h
  | succ fuel ih =>
    intro prevA a prevB b e1 e2 sum r hab hPA hA he1 hE h
    by_cases ha : a = 0
    · subst ha
      rw [c02k_loop_zero] at h
      injection h with h
      subst h
      exact ⟨he1, hE⟩
    · by_cases hb : (-(2^63 : Int) ≤ prevB - Int.tdiv prevA a * b ∧ prevB - Int.tdiv prevA a * b < 2^63)
      · have haa : (Int.tmod prevA a).natAbs < 2^64 := by
          rw [Int.natAbs_tmod]
          have : prevA.natAbs % a.natAbs < a.natAbs := Nat.mod_lt _ (by omega)
          omega
        obtain ⟨e1', e2', sum', heq, hcase⟩ := c02k_loop_step ht fuel prevA a prevB b e1 e2 sum ha haa hb.1 hb.2
        rw [heq] at h
        have hA' : Int.tmod prevA a ≡ (prevB - Int.tdiv prevA a * b) * ratio [ZMOD t.value] := by
          rw [Int.tmod_def]
          have := hPA.sub (hA.mul_left (Int.tdiv prevA a))
          have e : prevB * ratio - Int.tdiv prevA a * (b * ratio) = (prevB - Int.tdiv prevA a * b) * ratio := by ring
          rw [e, mul_comm (Int.tdiv prevA a) a] at this
          exact this
        rcases hcase with ⟨rfl, rfl⟩ | ⟨rfl, rfl⟩
        · exact ih _ _ _ _ _ _ _ r haa hA hA' he1 hE h
        · refine ih _ _ _ _ _ _ _ r haa hA hA' (c02k_red_lt htpos _) ?_ h
          exact (c02k_red_modEq htpos _).trans (hA'.trans ((c02k_red_modEq htpos _).symm.mul_right _))
      · rw [c02k_loop_overflow t fuel prevA a prevB b e1 e2 sum ha hb] at h
        cases h

/-- BALANCING: whenever `balance_correction_factors` succeeds, e1·f1 ≡ e2·f2 ≡ f (mod t) and f < t -/
theorem balance_spec {t : Modulus} (ht : t.WF) {f1 f2 f e1 e2 : Nat} (h1 : f1 < t.value) (h2 : f2 < t.value)
    (h : balanceCorrectionFactors f1 f2 t = .ok (f, e1, e2)) :
    (e1 * f1) % t.value = f ∧ (e2 * f2) % t.value = f ∧ f < t.value := by
  have h2le := ht.two_le
  have hlt := ht.lt
  have htpos : 0 < t.value := by omega
  have hinv := tryInvert_spec_partial (v := f1) h2le hlt (by omega) (by omega)
  unfold balanceCorrectionFactors at h
  by_cases hc : f1 ≠ 0 ∧ Nat.gcd f1 t.value = 1
  · obtain ⟨inv, hti, hinvlt, hinv1⟩ := hinv.1 hc
    rw [hti] at h
    simp only [bind, Except.bind, mulMod_exact ht (x := inv) (y := f2) (by omega) (by omega)] at h
    split at h
    · cases h
    · rename_i r hL
      obtain ⟨hr1, hr2⟩ := c02k_loop_spec ht ((inv * f2 % t.value : Nat) : Int) 200 _ _ _ _ _ _ _ r
        (by simp only [Int.natAbs_natCast]; have := Nat.mod_lt (inv * f2) htpos; omega)
        (by simp [Int.ModEq]) (by simp [Int.ModEq]) (Nat.mod_lt _ htpos) (by simp [Int.ModEq]) hL
      rw [mulMod_exact ht (x := r.1) (y := f1) (by omega) (by omega)] at h
      simp only [pure, Except.pure, Except.ok.injEq, Prod.mk.injEq] at h
      obtain ⟨hf, he1, he2⟩ := h
      subst he1 he2
      refine ⟨hf, ?_, by rw [← hf]; exact Nat.mod_lt _ htpos⟩
      rw [← hf]
      have hratio : ((inv * f2 % t.value : Nat) : Int) ≡ (inv : Int) * f2 [ZMOD t.value] := by
        rw [Int.natCast_mod]; push_cast; exact Int.mod_modEq _ _
      have hone : (inv : Int) * f1 ≡ 1 [ZMOD t.value] := by
        have : inv * f1 ≡ 1 [MOD t.value] := by
          unfold Nat.ModEq; rw [hinv1, Nat.mod_eq_of_lt (by omega)]
        exact_mod_cast Int.natCast_modEq_iff.mpr this
      have key : ((r.2 * f2 : Nat) : Int) ≡ ((r.1 * f1 : Nat) : Int) [ZMOD t.value] := by
        push_cast
        calc (r.2 : Int) * f2 = r.2 * f2 * 1 := by ring
          _ ≡ r.2 * f2 * (inv * f1) [ZMOD t.value] := (hone.symm.mul_left _)
          _ = (r.2 * (inv * f2)) * f1 := by ring
          _ ≡ (r.2 * ((inv * f2 % t.value : Nat) : Int)) * f1 [ZMOD t.value] := ((hratio.symm.mul_left _).mul_right _)
          _ ≡ r.1 * f1 [ZMOD t.value] := (hr2.symm.mul_right _)
      exact Int.natCast_modEq_iff.mp key
  · rw [hinv.2 (by by_cases h0 : f1 = 0; exact Or.inl h0; exact Or.inr (fun hg => hc ⟨h0, hg⟩))] at h
    cases h

theorem c02k_loop_total {t : Modulus} (ht : t.WF) :
    ∀ (fuel : Nat) (prevA a prevB b : Int) (e1 e2 : Nat) (sum : Int),
    0 ≤ a → a ≤ prevA → prevA ≤ t.value → prevA * a < 2^fuel →
    ((0 ≤ b ∧ prevB ≤ 0 ∧ b * prevA - prevB * a = t.value) ∨
     (b ≤ 0 ∧ 0 ≤ prevB ∧ prevB * a - b * prevA = t.value)) →
    ∃ r, balanceLoop t (fuel + 1) prevA a prevB b e1 e2 sum = .ok r := by
  have hlt : (t.value : Int) < 2^61 := by exact_mod_cast ht.lt
  intro fuel
  induction fuel with
  | zero =>
    intro prevA a prevB b e1 e2 sum ha0 hale _ hm _
    have : a = 0 := by
      by_contra hne
      have h1 : 1 ≤ a := by omega
      nlinarith
    subst this
    exact ⟨_, c02k_loop_zero _ _ _ _ _ _ _ _⟩
  | succ k ih =>
    intro prevA a prevB b e1 e2 sum ha0 hale hPt hm hinv
    by_cases ha : a = 0
    · subst ha
      exact ⟨_, c02k_loop_zero _ _ _ _ _ _ _ _⟩
    · have hapos : 0 < a := by omega
      have hr0 : 0 ≤ Int.tmod prevA a := Int.tmod_nonneg _ (by omega)
      have hr1 : Int.tmod prevA a < a := Int.tmod_lt_of_pos _ hapos
      have hdef : Int.tmod prevA a = prevA - a * Int.tdiv prevA a := Int.tmod_def _ _
      have hq : 1 ≤ Int.tdiv prevA a := by
        by_contra hq
        have : Int.tdiv prevA a ≤ 0 := by omega
        nlinarith
      have step := c02k_loop_step ht (k + 1) prevA a prevB b e1 e2 sum ha
      generalize Int.tmod prevA a = a' at *
      generalize Int.tdiv prevA a = q at *
      have hinv' : ((0 ≤ prevB - q * b ∧ b ≤ 0 ∧ (prevB - q * b) * a - b * a' = t.value) ∨
          (prevB - q * b ≤ 0 ∧ 0 ≤ b ∧ b * a' - (prevB - q * b) * a = t.value)) := by
        rcases hinv with ⟨hb0, hpb, heq⟩ | ⟨hb0, hpb, heq⟩
        · right
          refine ⟨by nlinarith, hb0, ?_⟩
          rw [hdef]; linear_combination heq
        · left
          refine ⟨by nlinarith, hb0, ?_⟩
          rw [hdef]; linear_combination heq
      have hbnd : -(t.value : Int) ≤ prevB - q * b ∧ prevB - q * b ≤ t.value := by
        rcases hinv' with ⟨h1, h2, heq⟩ | ⟨h1, h2, heq⟩
        · constructor
          · omega
          · nlinarith
        · constructor
          · nlinarith
          · omega
      have hm' : a * a' < 2^k := by
        have h3 : a + a' ≤ prevA := by nlinarith
        have h4 : a * a' < a * a := mul_lt_mul_of_pos_left hr1 hapos
        have h5 : (a + a') * a ≤ prevA * a := mul_le_mul_of_nonneg_right h3 ha0
        have : 2 * (a * a') < 2^(k+1) := by nlinarith
        rw [pow_succ] at this
        omega
      have haa : a'.natAbs < 2^64 := by omega
      obtain ⟨e1', e2', sum', heq, -⟩ := step haa (by omega) (by omega)
      rw [heq]
      exact ih a a' b (prevB - q * b) e1' e2' sum' hr0 hr1.le (by omega) hm' hinv'

/-- and it always succeeds for unit factors -/
theorem balance_total {t : Modulus} (ht : t.WF) {f1 f2 : Nat} (h1 : f1 < t.value) (h2 : f2 < t.value)
    (hc1 : Nat.Coprime f1 t.value) : ∃ r, balanceCorrectionFactors f1 f2 t = .ok r := by
  have h2le := ht.two_le
  have hlt := ht.lt
  have htpos : 0 < t.value := by omega
  have hinv := tryInvert_spec_partial (v := f1) h2le hlt (by omega) (by omega)
  have hf1 : f1 ≠ 0 := by
    rintro rfl
    rw [Nat.Coprime, Nat.gcd_zero_left] at hc1
    omega
  obtain ⟨inv, hti, hinvlt, hinv1⟩ := hinv.1 ⟨hf1, hc1⟩
  have hrlt : inv * f2 % t.value < t.value := Nat.mod_lt _ htpos
  have hrlt' : ((inv * f2 % t.value : Nat) : Int) < t.value := by exact_mod_cast hrlt
  have htI : (t.value : Int) < 2^61 := by exact_mod_cast hlt
  obtain ⟨r, hL⟩ := c02k_loop_total ht 199 (t.value : Int) ((inv * f2 % t.value : Nat) : Int) 0 1
    (inv * f2 % t.value) 1
    (↑(if inv * f2 % t.value > t.value / 2 then ((inv * f2 % t.value : Nat) : Int) - ↑t.value
              else ↑(inv * f2 % t.value)).natAbs +
          ↑(if 1 > t.value / 2 then ((1 : Nat) : Int) - ↑t.value else ↑(1 : Nat)).natAbs)
    (by positivity) hrlt'.le le_rfl
    (by
      have : (t.value : Int) * ((inv * f2 % t.value : Nat) : Int) ≤ 2^61 * 2^61 :=
        mul_le_mul htI.le (by omega) (by positivity) (by positivity)
      calc (t.value : Int) * ((inv * f2 % t.value : Nat) : Int) ≤ 2^61 * 2^61 := this
        _ < 2^199 := by norm_num)
    (Or.inl ⟨by norm_num, le_rfl, by ring⟩)
  obtain ⟨hr1, -⟩ := c02k_loop_spec ht ((inv * f2 % t.value : Nat) : Int) 200 _ _ _ _ _ _ _ r
    (by simp only [Int.natAbs_natCast]; omega)
    (by simp [Int.ModEq]) (by simp [Int.ModEq]) hrlt (by simp [Int.ModEq]) hL
  unfold balanceCorrectionFactors
  rw [hti]
  simp only [bind, Except.bind, mulMod_exact ht (x := inv) (y := f2) (by omega) (by omega)]
  rw [hL]
  simp only [mulMod_exact ht (x := r.1) (y := f1) (by omega) (by omega)]
  exact ⟨_, rfl⟩

/-- SUM UNDER BALANCING: if phase_k ≡ f_k·m_k (mod t) then e1·phase1 + e2·phase2 ≡ f·(m1 + m2) (mod t) -/
theorem bgv_add_balanced {t : Int} {f1 f2 f e1 e2 p1 p2 m1 m2 : Int}
    (hp1 : p1 ≡ f1 * m1 [ZMOD t]) (hp2 : p2 ≡ f2 * m2 [ZMOD t])
    (he1 : e1 * f1 ≡ f [ZMOD t]) (he2 : e2 * f2 ≡ f [ZMOD t]) :
    e1 * p1 + e2 * p2 ≡ f * (m1 + m2) [ZMOD t] := by
  have a1 : e1 * p1 ≡ f * m1 [ZMOD t] := by
    calc e1 * p1 ≡ e1 * (f1 * m1) [ZMOD t] := hp1.mul_left _
      _ = (e1 * f1) * m1 := by ring
      _ ≡ f * m1 [ZMOD t] := he1.mul_right _
  have a2 : e2 * p2 ≡ f * m2 [ZMOD t] := by
    calc e2 * p2 ≡ e2 * (f2 * m2) [ZMOD t] := hp2.mul_left _
      _ = (e2 * f2) * m2 := by ring
      _ ≡ f * m2 [ZMOD t] := he2.mul_right _
  have := a1.add a2
  rwa [← mul_add] at this

/-- PRODUCT: correction factors multiply -/
theorem bgv_mul_factor {t : Int} {f1 f2 p1 p2 m1 m2 : Int}
    (hp1 : p1 ≡ f1 * m1 [ZMOD t]) (hp2 : p2 ≡ f2 * m2 [ZMOD t]) :
    p1 * p2 ≡ (f1 * f2) * (m1 * m2) [ZMOD t] := by
  have := hp1.mul hp2
  have e : f1 * m1 * (f2 * m2) = (f1 * f2) * (m1 * m2) := by ring
  rwa [e] at this

/-- HOMOMORPHISM FOR PROGRAMS (algebraic core, any commutative ring): evaluating a program on phases commutes with
    evaluating it on plaintexts under any ring homomorphism `dec` (e.g. reduction of exact phases Δ·m ↦ m in the noise-free
    idealisation); the noise side condition is tracked separately. -/
inductive Prog where
  | input (k : Nat) | plain (k : Nat)
  | neg (p : Prog) | add (p q : Prog) | sub (p q : Prog) | mul (p q : Prog)
  deriving Repr

def Prog.eval {S : Type} [CommRing S] (inp pl : Nat → S) : Prog → S
  | .input k => inp k | .plain k => pl k
  | .neg p => - p.eval inp pl
  | .add p q => p.eval inp pl + q.eval inp pl
  | .sub p q => p.eval inp pl - q.eval inp pl
  | .mul p q => p.eval inp pl * q.eval inp pl

theorem prog_hom {S T : Type} [CommRing S] [CommRing T] (dec : S →+* T) (inp pl : Nat → S) (p : Prog) :
    dec (p.eval inp pl) = p.eval (fun k => dec (inp k)) (fun k => dec (pl k)) := by
  induction p with
  | input k => rfl
  | plain k => rfl
  | neg p ih => simp only [Prog.eval, map_neg, ih]
  | add p q ihp ihq => simp only [Prog.eval, map_add, ihp, ihq]
  | sub p q ihp ihq => simp only [Prog.eval, map_sub, ihp, ihq]
  | mul p q ihp ihq => simp only [Prog.eval, map_mul, ihp, ihq]

end HC
