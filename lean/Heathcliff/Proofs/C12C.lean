/- C12 part C: the canonical embedding in exact arithmetic — the butterfly network of Proofs/C09D.lean (generic over any
   commutative ring) instantiated over a commutative *-ring K (think ℂ, star = complex conjugation) with a primitive 2N-th
   root ψ (ψ^N = −1, ψ·star ψ = 1).  Prefix every helper lemma with `c12c_`. -/
import Heathcliff.Proofs.C09D
import Heathcliff.Proofs.C09G
import Mathlib.Algebra.Star.Basic
import Mathlib.Algebra.Star.BigOperators
namespace HC
open Finset

variable {K : Type} [CommRing K] [StarRing K]

/-- the forward network evaluates at ψ^e at position brev((e−1)/2), for every odd e < 2N -/
theorem c12c_fwd_at (k : Nat) (ψ : K) (hψ : ψ^(2^k) = -1) (roots : Nat → K)
    (hroots : ∀ j, 0 < j → j < 2^k → roots j = ψ^(brev k j)) (a : Nat → K) {e : Nat} (he : e % 2 = 1) (hlt : e < 2 * 2^k) :
    runFwd (exactArith K) k roots a k (brev k ((e - 1) / 2)) = ∑ j ∈ range (2^k), a j * (ψ^e)^j := by
  have hm : (e - 1) / 2 < 2^k := by omega
  have h := fwd_eval k ψ hψ roots hroots a (brev k ((e - 1) / 2)) (brev_lt _ _)
  rw [brev_brev hm] at h
  have he2 : 2 * ((e - 1) / 2) + 1 = e := by omega
  rw [he2] at h
  exact h

theorem c12c_pow_two_n (k : Nat) (ψ : K) (hψ : ψ^(2^k) = -1) : ψ^(2 * 2^k) = 1 := by
  rw [Nat.mul_comm, pow_mul, hψ]; norm_num

/-- exponents only matter modulo 2N -/
theorem c12c_pow_mod (k : Nat) (ψ : K) (hψ : ψ^(2^k) = -1) (e : Nat) : ψ^(e % (2 * 2^k)) = ψ^e := by
  conv_rhs => rw [← Nat.div_add_mod e (2 * 2^k)]
  rw [pow_add, pow_mul, c12c_pow_two_n k ψ hψ, one_pow, one_mul]

/-- ROUND TRIP (decode ∘ encode = id in exact arithmetic): encode = inverse network then `* fix` with fix = scale/N,
    decode = `* inv_scale` then forward network -/
theorem c12c_roundtrip (k : Nat) (ψ ψi : K) (hinv : ψ * ψi = 1) (roots iroots : Nat → K)
    (hroots : ∀ j, 0 < j → j < 2^k → roots j = ψ^(brev k j))
    (hiroots : ∀ p, 0 < p → p < 2^k → iroots p = ψi^(brev k (p-1) + 1))
    (Ninv s sinv : K) (hN : Ninv * 2^k = 1) (hs : s * sinv = 1) (x : Nat → K) :
    ∀ p, p < 2^k →
      runFwd (exactArith K) k roots (fun j => runInv (exactArith K) k iroots x k j * (s * Ninv) * sinv) k p = x p := by
  intro p hp
  have e : (fun j => runInv (exactArith K) k iroots x k j * (s * Ninv) * sinv)
      = fun j => (s * Ninv * sinv) * runInv (exactArith K) k iroots x k j := by
    funext j; ring
  rw [e, runFwd_smul, fwd_inv k ψ ψi hinv roots iroots hroots hiroots x p hp]
  calc s * Ninv * sinv * (2^k * x p) = (s * sinv) * (Ninv * 2^k) * x p := by ring
    _ = x p := by rw [hs, hN]; ring

/-- position of the conjugate evaluation point: if position p holds the value at ψ^e then this one holds the value at ψ^(2N−e) -/
def c12_conjPos (k p : Nat) : Nat := brev k (2^k - 1 - brev k p)

theorem c12c_conjPos_lt (k p : Nat) : c12_conjPos k p < 2^k := brev_lt _ _

theorem c12c_brev_conjPos (k p : Nat) : brev k (c12_conjPos k p) = 2^k - 1 - brev k p := by
  have h := brev_lt k p
  unfold c12_conjPos
  exact brev_brev (by omega)

theorem c12c_conjPos_invol {k p : Nat} (hp : p < 2^k) : c12_conjPos k (c12_conjPos k p) = p := by
  have h := brev_lt k p
  have e : c12_conjPos k (c12_conjPos k p) = brev k (2^k - 1 - brev k (c12_conjPos k p)) := rfl
  rw [e, c12c_brev_conjPos]
  have e2 : 2^k - 1 - (2^k - 1 - brev k p) = brev k p := by omega
  rw [e2, brev_brev hp]

/-- star of the power at the conjugate exponent -/
theorem c12c_star_pow (k : Nat) (ψ : K) (hψ : ψ^(2^k) = -1) (hu : ψ * star ψ = 1) {e e' : Nat}
    (hee : e + e' = 2 * 2^k) : star (ψ^e') = ψ^e := by
  have h1 : ψ^e * ψ^e' = 1 := by rw [← pow_add, hee, c12c_pow_two_n k ψ hψ]
  have h2 : star (ψ^e') * ψ^e' = 1 := by
    rw [star_pow, ← mul_pow, mul_comm, hu, one_pow]
  calc star (ψ^e') = star (ψ^e') * (ψ^e * ψ^e') := by rw [h1, mul_one]
    _ = (star (ψ^e') * ψ^e') * ψ^e := by ring
    _ = ψ^e := by rw [h2, one_mul]

theorem c12c_star_two_pow (k : Nat) : star ((2 : K)^k) = 2^k := by
  rw [star_pow]
  have : star (2 : K) = 2 := star_ofNat 2
  rw [this]

/-- the forward transform of the conjugated coefficients is the conjugate of the forward transform at the conjugate position -/
theorem c12c_fwd_star (k : Nat) (ψ : K) (hψ : ψ^(2^k) = -1) (hu : ψ * star ψ = 1) (roots : Nat → K)
    (hroots : ∀ j, 0 < j → j < 2^k → roots j = ψ^(brev k j)) (a : Nat → K) (p : Nat) (hp : p < 2^k) :
    runFwd (exactArith K) k roots (fun j => star (a j)) k p
      = star (runFwd (exactArith K) k roots a k (c12_conjPos k p)) := by
  rw [fwd_eval k ψ hψ roots hroots _ p hp,
    fwd_eval k ψ hψ roots hroots a _ (c12c_conjPos_lt k p), c12c_brev_conjPos, star_sum]
  have hb := brev_lt k p
  have hee : (2 * brev k p + 1) + (2 * (2^k - 1 - brev k p) + 1) = 2 * 2^k := by omega
  have hs := c12c_star_pow k ψ hψ hu hee
  apply sum_congr rfl
  intro j _
  rw [star_mul', star_pow, hs]

/-- CONJUGATE SYMMETRY ⇒ REAL COEFFICIENTS: if the scattered vector takes conjugate values at conjugate positions, every
    output of the inverse network is fixed by star (i.e. real, over ℂ) -/
theorem c12c_real_coeffs (k : Nat) (ψ : K) (hψ : ψ^(2^k) = -1) (hu : ψ * star ψ = 1) (roots iroots : Nat → K)
    (hroots : ∀ j, 0 < j → j < 2^k → roots j = ψ^(brev k j))
    (hiroots : ∀ p, 0 < p → p < 2^k → iroots p = (star ψ)^(brev k (p-1) + 1))
    (Ninv : K) (hN : Ninv * 2^k = 1) (x : Nat → K)
    (hx : ∀ p, p < 2^k → x (c12_conjPos k p) = star (x p)) :
    ∀ j, j < 2^k → star (runInv (exactArith K) k iroots x k j) = runInv (exactArith K) k iroots x k j := by
  intro j hj
  have hfi := fwd_inv k ψ (star ψ) hu roots iroots hroots hiroots x
  have hagree : ∀ p, p < 2^k →
      runFwd (exactArith K) k roots (fun j => star (runInv (exactArith K) k iroots x k j)) k p
        = runFwd (exactArith K) k roots (runInv (exactArith K) k iroots x k) k p := by
    intro p hp
    have hp' := c12c_conjPos_lt k p
    rw [c12c_fwd_star k ψ hψ hu roots hroots _ p hp, hfi _ hp', hfi p hp, star_mul', c12c_star_two_pow,
      ← hx _ hp', c12c_conjPos_invol hp]
  have h1 := runInv_congr k iroots _ _ hagree k (Nat.le_refl k) j hj
  rw [inv_fwd k ψ (star ψ) hu roots iroots hroots hiroots _ j hj,
    inv_fwd k ψ (star ψ) hu roots iroots hroots hiroots _ j hj] at h1
  have h2 := congrArg (fun t => Ninv * t) h1
  simp only [← mul_assoc, hN, one_mul] at h2
  exact h2

end HC
