/- C01 part Q: closing the gaps between the end-to-end decryption theorems and the objects the driver builds.
   Q1  `bfvDecrypt_eq_spec` / `bgvDecrypt_eq_spec` for every ciphertext size ≥ 2 (hypothesis `hres` of C01P discharged);
   Q2  `ckksDecrypt_eq_spec` (any size ≥ 2, NTT form) + refusals;
   Q3  `c05u_ToolOK`, `c05u_BgvOK`, `c07s_LevelQ`, `KeyLevel.WF` from the model's constructors;
   Q4  the driver's `Drv.Sch.mkLevel`: every level it returns satisfies all hypothesis bundles.
   All helper names carry the prefix `c01q_`. -/
import Heathcliff.Proofs.C01P
import Heathcliff.Proofs.C07S
import Heathcliff.Proofs.C05U
import Heathcliff.Proofs.C04T
import Driver.Scheme
import Mathlib.Data.ZMod.Basic
import Mathlib.Tactic.Ring
import Mathlib.Tactic.Linarith
namespace HC
open Finset

/-! ## Q1: the per-prime Horner value of C01P (`c01p_hornerRes`) and of C07S (`c07s_evalZ`) agree -/

theorem c01q_hornerRes_cons (n q : Nat) (skr : Array Nat) (c : Array Nat) (cs : List (Array Nat)) :
    c01p_hornerRes n q skr (c :: cs) = c01p_rStep n q skr (c01p_hornerRes n q skr cs) c := by
  unfold c01p_hornerRes
  rw [List.reverse_cons, List.foldl_append]
  rfl

theorem c01q_vecN_oob_size {q : Nat} {a : Array Nat} {n j : Nat} (ha : a.size = n) (hj : ¬ j < n) : c07s_vecN q a j = 0 :=
  c07s_vecN_oob q a (by rw [ha]; exact hj)

/-- the residue Horner evaluation of C01P, read in `ZMod q` -/
theorem c01q_hornerRes_vec {n q : Nat} (hq : 0 < q) (skr : Array Nat) (cs : List (Array Nat)) (hne : cs ≠ [])
    (hcs : ∀ c ∈ cs, c.size = n) :
    ∃ a, c01p_hornerRes n q skr cs = some a ∧ a.size = n ∧
      c07s_vecN q a = c07s_evalZ (c07s_mulS q n (c07s_vecN q skr)) (cs.map (c07s_vecN q)) := by
  induction cs with
  | nil => exact absurd rfl hne
  | cons c cs ih =>
    rw [c01q_hornerRes_cons]
    by_cases hnil : cs = []
    · subst hnil
      refine ⟨c, rfl, hcs c (by simp), ?_⟩
      simp [c07s_evalZ, c07s_mulS_zero]
    · obtain ⟨a, e1, e2, e3⟩ := ih hnil (fun c' hc' => hcs c' (by simp [hc']))
      rw [e1]
      refine ⟨_, rfl, by simp, ?_⟩
      rw [List.map_cons, c07s_evalZ, ← e3]
      funext j
      simp only [Pi.add_apply]
      by_cases hj : j < n
      · unfold c07s_mulS
        rw [if_pos hj]
        show (((Array.ofFn (n := n) fun j => (negMulNat n q a skr j.val + c.getD j.val 0) % q).getD j 0 : Nat) : ZMod q) = _
        rw [c01o_ofFn_getD _ _ _ hj, ZMod.natCast_mod, Nat.cast_add, c07s_negMulNat_cast hq, add_comm]
        rfl
      · rw [c01q_vecN_oob_size (by simp) hj, c01q_vecN_oob_size (hcs c (by simp)) hj]
        unfold c07s_mulS
        rw [if_neg hj, add_zero]

theorem c01q_mulS_sk {l : Level} {sk : Array Int} (hsk : sk.size = l.n) {i : Nat} (hq0 : 0 < (l.q i).value) :
    c07s_mulS (l.q i).value l.n (c07s_vecN (l.q i).value (skRes l sk i)) =
      c07s_mulS (l.q i).value l.n (c07s_vecZ (l.q i).value sk) := by
  funext a
  exact c07s_mulS_congr (fun k hk => c07s_skRes_cast l sk i hq0 (by rw [hsk]; exact hk)) (fun _ _ => rfl)

/-- from the `ZMod`-valued Horner identity to the hypothesis `hres` of `bfvDecrypt_eq_spec_of_phase` -/
theorem c01q_hres_of_vec {l : Level} (hl : l.WF) {sk : Array Int} (hsk : sk.size = l.n) {comps : List RnsPoly}
    (hne : comps ≠ []) (hc : ∀ p ∈ comps, RnsCanon l p) {ph : RnsPoly} (hcan : RnsCanon l ph)
    (hv : ∀ i, i < l.size → c07s_vecN (l.q i).value (ph.getD i #[]) =
      c07s_evalZ (c07s_mulS (l.q i).value l.n (c07s_vecZ (l.q i).value sk))
        (comps.map (fun p => c07s_vecN (l.q i).value (p.getD i #[])))) :
    ∀ i, i < l.size → ∃ a, c01p_hornerRes l.n (l.q i).value (skRes l sk i) (comps.map (fun p => p.getD i #[])) = some a ∧
      ∀ j, j < l.n → (ph.getD i #[]).getD j 0 = a.getD j 0 % (l.q i).value := by
  intro i hi
  have hq2 := (c01o_level_comp hl hi).2.2.2.two_le
  have hq0 : 0 < (l.q i).value := by omega
  obtain ⟨a, e1, _, e3⟩ := c01q_hornerRes_vec hq0 (skRes l sk i) (comps.map (fun p => p.getD i #[]))
    (by simpa using hne)
    (fun c hcm => by obtain ⟨p, hp, rfl⟩ := List.mem_map.mp hcm; exact ((hc p hp).2 i hi).1)
  refine ⟨a, e1, fun j hj => ?_⟩
  rw [c01q_mulS_sk hsk hq0, List.map_map] at e3
  have h1 : c07s_vecN (l.q i).value (ph.getD i #[]) j = c07s_vecN (l.q i).value a j := by
    rw [hv i hi, e3]; rfl
  have h2 := (ZMod.natCast_eq_natCast_iff _ _ _).mp h1
  unfold Nat.ModEq at h2
  rw [← h2, Nat.mod_eq_of_lt ((hcan.2 i hi).2 j hj)]

/-- size 2, one component: the C01O form of the phase as a Horner value -/
theorem c01q_vec2 {n q : Nat} (hq : 0 < q) {p c0 c1 skr : Array Nat} (hp : p.size = n) (h0 : c0.size = n)
    (hv : ∀ j, j < n → p.getD j 0 = (c0.getD j 0 + negMulNat n q c1 skr j) % q) :
    c07s_vecN q p = c07s_evalZ (c07s_mulS q n (c07s_vecN q skr)) [c07s_vecN q c0, c07s_vecN q c1] := by
  funext j
  simp only [c07s_evalZ, Pi.add_apply, c07s_mulS_zero, add_zero]
  by_cases hj : j < n
  · unfold c07s_mulS
    rw [if_pos hj]
    show ((p.getD j 0 : Nat) : ZMod q) = ((c0.getD j 0 : Nat) : ZMod q) + _
    rw [hv j hj, ZMod.natCast_mod, Nat.cast_add, c07s_negMulNat_cast hq]
    rfl
  · rw [c01q_vecN_oob_size hp hj, c01q_vecN_oob_size h0 hj]
    unfold c07s_mulS
    rw [if_neg hj, add_zero]

theorem c01q_two_polys {polys : Array RnsPoly} (h : polys.size = 2) : ∃ c0 c1, polys = #[c0, c1] := by
  obtain ⟨L⟩ := polys
  match L, h with
  | [a, b], _ => exact ⟨a, b, rfl⟩

theorem c01q_polys_mem {l : Level} {polys : Array RnsPoly} (hc : ∀ k, k < polys.size → RnsCanon l (polys.getD k #[])) :
    ∀ p ∈ polys.toList, RnsCanon l p := by
  intro p hp
  obtain ⟨k, hk, rfl⟩ := List.mem_iff_getElem.mp hp
  have hk' : k < polys.size := by simpa using hk
  have e : polys.toList[k] = polys.getD k #[] := by simp [Array.getD, hk']
  rw [e]; exact hc k hk'

theorem c01q_polys_ne {polys : Array RnsPoly} (h2 : 2 ≤ polys.size) : polys.toList ≠ [] := by
  intro h
  have h1 := congrArg List.length h
  rw [Array.length_toList, List.length_nil] at h1
  omega

/-- PHASE of the model, coefficient form, any size ≥ 2 -/
theorem c01q_dot_coeff {l : Level} (hl : l.WF) {sk : Array Int} (hsk : sk.size = l.n) {polys : Array RnsPoly}
    (h2 : 2 ≤ polys.size) (hc : ∀ k, k < polys.size → RnsCanon l (polys.getD k #[])) (cf : Nat) :
    ∃ ph, dotProductCtSk l sk ⟨polys, false, cf⟩ = .ok ph ∧ RnsCanon l ph ∧
      ∀ i, i < l.size → c07s_vecN (l.q i).value (ph.getD i #[]) =
        c07s_evalZ (c07s_mulS (l.q i).value l.n (c07s_vecZ (l.q i).value sk))
          (polys.toList.map (fun p => c07s_vecN (l.q i).value (p.getD i #[]))) := by
  by_cases h : polys.size = 2
  · obtain ⟨c0, c1, rfl⟩ := c01q_two_polys h
    have h0 : RnsCanon l c0 := hc 0 (by simp)
    have h1 : RnsCanon l c1 := hc 1 (by simp)
    obtain ⟨ph, hdot, hcan, hv⟩ := dotProduct_size2_coeff hl hsk h0 h1
    refine ⟨ph, by rw [c07s_dot_cf]; exact hdot, hcan, fun i hi => ?_⟩
    have hq2 := (c01o_level_comp hl hi).2.2.2.two_le
    have hq0 : 0 < (l.q i).value := by omega
    rw [← c01q_mulS_sk hsk hq0]
    exact c01q_vec2 hq0 (hcan.2 i hi).1 (h0.2 i hi).1 (hv i hi)
  · exact c07s_dot_gen hl hsk (by omega) hc cf

/-! ### NTT form, any size ≥ 3: the model side (counterpart of `c07s_dot_gen`) -/

theorem c01q_dot_ntt_eq (l : Level) (sk : Array Int) (polys : Array RnsPoly) (cf : Nat) (h3 : 3 ≤ polys.size) :
    dotProductCtSk l sk ⟨polys, true, cf⟩ = (do
      let pows ← skPowers l (skNtt l sk) (polys.size - 1)
      let prods ← (List.range (polys.size - 1)).mapM fun i =>
        rnsDyadic l (polys.getD (i+1) #[]) (pows.getD i #[])
      let sum ← prods.foldlM (fun acc p => rnsAdd l acc p) (rnsZero l)
      rnsAdd l sum (polys.getD 0 #[])) := by
  unfold dotProductCtSk
  simp only [if_neg (show ¬ polys.size < 2 by omega), if_neg (show ¬ polys.size = 2 by omega), if_true]

/-- the k-th product of the general-size dot product, NTT form -/
def c01q_D (l : Level) (sk : Array Int) (polys : Array RnsPoly) (k : Nat) : RnsPoly :=
  c01o_zipVal l (polys.getD (k+1) #[]) (c07s_Pw l (skNtt l sk) k) (fun i x y => (x * y) % (l.q i).value)

theorem c01q_intt_comp {l : Level} (hl : l.WF) {c : RnsPoly} (hc : RnsCanon l c) {i : Nat} (hi : i < l.size) :
    (intt (l.tbl i) (c.getD i #[])).size = l.n ∧ ∀ j, j < l.n → (intt (l.tbl i) (c.getD i #[])).getD j 0 < (l.q i).value := by
  have := (c07s_rnsIntt_canon hl hc).2 i hi
  rw [c01o_rnsIntt_getD l c hi] at this
  exact this

theorem c01q_D_comp {l : Level} (hl : l.WF) {sk : Array Int} {polys : Array RnsPoly} {k : Nat}
    (hc : RnsCanon l (polys.getD (k+1) #[])) {i : Nat} (hi : i < l.size) :
    (c01q_D l sk polys k).getD i #[] =
      c07s_E (l.tbl i) (intt (l.tbl i) ((polys.getD (k+1) #[]).getD i #[])) (skRes l sk i) (k+1) := by
  obtain ⟨htw, htm, htn, hqw⟩ := c01o_level_comp hl hi
  obtain ⟨i1, _⟩ := c01q_intt_comp hl hc hi
  have hni : ntt (l.tbl i) (intt (l.tbl i) ((polys.getD (k+1) #[]).getD i #[])) = (polys.getD (k+1) #[]).getD i #[] :=
    ntt_intt htw _ (by rw [(hc.2 i hi).1, htn]) (fun j hj => by rw [htm]; exact (hc.2 i hi).2 j (by omega))
  apply array_ext_getD (n := l.n)
  · unfold c01q_D; rw [c01o_zipVal_comp_size _ _ _ _ hi]; exact (hc.2 i hi).1
  · rw [c07s_E_size]; exact i1
  intro j hj
  unfold c01q_D
  rw [c01o_zipVal_coeff _ _ _ _ hi (by rw [(hc.2 i hi).1]; exact hj), c07s_Pw_coeff _ _ _ hi hj,
    c07s_E_getD _ _ _ _ (by rw [i1]; exact hj), hni, c01o_skNtt_getD l sk hi, htm, Nat.mul_mod_mod]

/-- PHASE, NTT form, any size ≥ 3: the inverse transform of the model's result is, in every component, the Horner value
    of the inverse transforms of the input polynomials -/
theorem c01q_dot_gen_ntt {l : Level} (hl : l.WF) {sk : Array Int} (hsk : sk.size = l.n) {polys : Array RnsPoly}
    (h3 : 3 ≤ polys.size) (hc : ∀ k, k < polys.size → RnsCanon l (polys.getD k #[])) (cf : Nat) :
    ∃ ph, dotProductCtSk l sk ⟨polys, true, cf⟩ = .ok ph ∧ RnsCanon l ph ∧
      ∀ i, i < l.size → c07s_vecN (l.q i).value (intt (l.tbl i) (ph.getD i #[])) =
        c07s_evalZ (c07s_mulS (l.q i).value l.n (c07s_vecZ (l.q i).value sk))
          (polys.toList.map (fun p => c07s_vecN (l.q i).value (intt (l.tbl i) (p.getD i #[])))) := by
  obtain ⟨m, hm⟩ : ∃ m, polys.size - 1 = m + 1 := ⟨polys.size - 2, by omega⟩
  have hs := c07s_skNtt_canon hl hsk
  have hDc : ∀ d ∈ (List.range (m+1)).map (c01q_D l sk polys), RnsCanon l d := by
    intro d hd
    obtain ⟨k, hk, rfl⟩ := List.mem_map.mp hd
    have hk' := List.mem_range.mp hk
    exact (c07s_dyadic_canon hl (hc (k+1) (by omega)) (c07s_Pw_canon hl _ k)).2
  obtain ⟨f1, f2⟩ := c07s_foldAdd_ok hl _ hDc (rnsZero l) (c07s_rnsZero_canon hl)
  obtain ⟨g1, g2⟩ := c07s_add_canon hl f2 (hc 0 (by omega))
  refine ⟨_, ?_, g2, ?_⟩
  · rw [c01q_dot_ntt_eq _ _ _ _ h3, hm, c07s_skPowers_ok hl hs m]
    simp only [bind, Except.bind]
    rw [RNSH.mapM_ok_of_forall _ (c01q_D l sk polys)]
    · simp only
      rw [f1]
      simp only
      exact g1
    · intro k hk
      have hk' := List.mem_range.mp hk
      rw [c07s_list_getD_rangeMap _ _ _ hk']
      exact (c07s_dyadic_canon hl (hc (k+1) (by omega)) (c07s_Pw_canon hl _ k)).1
  · intro i hi
    obtain ⟨htw, htm, htn, hqw⟩ := c01o_level_comp hl hi
    obtain ⟨s1, s2, _, _⟩ := c01o_sk_comp hl hsk hi
    have hq0 : 0 < (l.q i).value := by have := hqw.two_le; omega
    obtain ⟨p0, tl, htl⟩ : ∃ p0 tl, polys.toList = p0 :: tl := by
      cases h : polys.toList with
      | nil =>
        have : polys.toList.length = polys.size := Array.length_toList
        rw [h, List.length_nil] at this; omega
      | cons a b => exact ⟨a, b, rfl⟩
    have hlen : tl.length = m + 1 := by
      have : polys.toList.length = polys.size := Array.length_toList
      rw [htl, List.length_cons] at this; omega
    have hp0 : polys.getD 0 #[] = p0 := by rw [c07s_arr_getD_toList, htl]; rfl
    have hpk : ∀ k, polys.getD (k+1) #[] = tl.getD k #[] := fun k => by
      rw [c07s_arr_getD_toList, htl, List.getD_cons_succ]
    have hcs : ∀ c ∈ tl.map (fun p => intt (l.tbl i) (p.getD i #[])),
        c.size = l.n ∧ ∀ j, j < l.n → c.getD j 0 < (l.q i).value := by
      intro c hcm
      obtain ⟨p, hp, rfl⟩ := List.mem_map.mp hcm
      obtain ⟨k, hk, rfl⟩ := List.mem_iff_getElem.mp hp
      have e : tl[k] = polys.getD (k+1) #[] := by rw [hpk]; simp [List.getD, hk]
      rw [e]
      exact c01q_intt_comp hl (hc (k+1) (by omega)) hi
    have hz : ((rnsZero l).getD i #[]).size = l.n := ((c07s_rnsZero_canon hl).2 i hi).1
    have hz0 : ∀ j, ((rnsZero l).getD i #[]).getD j 0 = 0 := by
      intro j
      have e : (rnsZero l).getD i #[] = Array.replicate l.n 0 := by simp [rnsZero, Array.getD, hi]
      rw [e]
      by_cases hj : j < l.n <;> simp [Array.getD, hj]
    have hDs : ((List.range (m+1)).map (c01q_D l sk polys)).map (fun d => d.getD i #[]) =
        (List.range (tl.map (fun p => intt (l.tbl i) (p.getD i #[]))).length).map
          (fun k => c07s_E (l.tbl i) ((tl.map (fun p => intt (l.tbl i) (p.getD i #[]))).getD k #[]) (skRes l sk i) (k+1)) := by
      rw [List.length_map, hlen, List.map_map]
      apply List.map_congr_left
      intro k hk
      have hk' := List.mem_range.mp hk
      simp only [Function.comp]
      rw [c01q_D_comp hl (hc (k+1) (by omega)) hi, hpk]
      congr 1
      simp [List.getD, hk', hlen]
    obtain ⟨c1, c2, c3⟩ := c07s_comp_gen htw htm htn s1 s2 (tl.map (fun p => intt (l.tbl i) (p.getD i #[]))) hcs _ hz hz0
    have hc0 := (hc 0 (by omega)).2 i hi
    have hadd := (c07s_vecN_intt_add htw (x := ((List.range (tl.map (fun p => intt (l.tbl i) (p.getD i #[]))).length).map
          (fun k => c07s_E (l.tbl i) ((tl.map (fun p => intt (l.tbl i) (p.getD i #[]))).getD k #[]) (skRes l sk i) (k+1))).foldl
            (c07s_addArr (l.q i).value) ((rnsZero l).getD i #[])) (y := (polys.getD 0 #[]).getD i #[])
      (by rw [c1, htn]) (by rw [hc0.1, htn]) (fun j hj => by rw [htm]; exact c2 j (by omega))
      (fun j hj => by rw [htm]; exact hc0.2 j (by omega))).2.2
    rw [htm] at hadd
    rw [c07s_zipAdd_getD l _ _ hi, c07s_fold_comp l _ _ hi, hDs, hadd, c3, htl, List.map_cons, c07s_evalZ, hp0, List.map_map,
      add_comm]
    rw [c01q_mulS_sk hsk hq0]
    rfl

/-- PHASE of the model, NTT form, any size ≥ 2 -/
theorem c01q_dot_ntt {l : Level} (hl : l.WF) {sk : Array Int} (hsk : sk.size = l.n) {polys : Array RnsPoly}
    (h2 : 2 ≤ polys.size) (hc : ∀ k, k < polys.size → RnsCanon l (polys.getD k #[])) (cf : Nat) :
    ∃ ph, dotProductCtSk l sk ⟨polys, true, cf⟩ = .ok ph ∧ RnsCanon l ph ∧
      ∀ i, i < l.size → c07s_vecN (l.q i).value (intt (l.tbl i) (ph.getD i #[])) =
        c07s_evalZ (c07s_mulS (l.q i).value l.n (c07s_vecZ (l.q i).value sk))
          (polys.toList.map (fun p => c07s_vecN (l.q i).value (intt (l.tbl i) (p.getD i #[])))) := by
  by_cases h : polys.size = 2
  · obtain ⟨c0, c1, rfl⟩ := c01q_two_polys h
    have h0 : RnsCanon l c0 := hc 0 (by simp)
    have h1 : RnsCanon l c1 := hc 1 (by simp)
    obtain ⟨ph, hdot, hcan, hv⟩ := dotProduct_size2_ntt hl hsk h0 h1
    refine ⟨ph, by rw [c07s_dot_cf]; exact hdot, hcan, fun i hi => ?_⟩
    have hq2 := (c01o_level_comp hl hi).2.2.2.two_le
    have hq0 : 0 < (l.q i).value := by omega
    rw [← c01q_mulS_sk hsk hq0]
    exact c01q_vec2 hq0 (c01q_intt_comp hl hcan hi).1 (c01q_intt_comp hl h0 hi).1 (hv i hi)
  · exact c01q_dot_gen_ntt hl hsk (by omega) hc cf

/-! ### hypotheses of the `_of_phase` theorems of C01P for any size -/

theorem c01q_n_pos {l : Level} (hl : l.WF) : 0 < l.n := by rw [hl.npow]; exact Nat.two_pow_pos _

theorem c01q_hres_coeff {l : Level} (hl : l.WF) {sk : Array Int} (hsk : sk.size = l.n) {polys : Array RnsPoly}
    (h2 : 2 ≤ polys.size) (hc : ∀ k, k < polys.size → RnsCanon l (polys.getD k #[])) (cf : Nat) :
    ∃ ph, dotProductCtSk l sk ⟨polys, false, cf⟩ = .ok ph ∧ RnsCanon l ph ∧
      ∀ i, i < l.size → ∃ a, c01p_hornerRes l.n (l.q i).value (skRes l sk i)
        (polys.toList.map (fun p => p.getD i #[])) = some a ∧
        ∀ j, j < l.n → (ph.getD i #[]).getD j 0 = a.getD j 0 % (l.q i).value := by
  obtain ⟨ph, hdot, hcan, hv⟩ := c01q_dot_coeff hl hsk h2 hc cf
  exact ⟨ph, hdot, hcan, c01q_hres_of_vec hl hsk (c01q_polys_ne h2) (c01q_polys_mem hc) hcan hv⟩

theorem c01q_hres_ntt {l : Level} (hl : l.WF) {sk : Array Int} (hsk : sk.size = l.n) {polys : Array RnsPoly}
    (h2 : 2 ≤ polys.size) (hc : ∀ k, k < polys.size → RnsCanon l (polys.getD k #[])) (cf : Nat) :
    ∃ ph, dotProductCtSk l sk ⟨polys, true, cf⟩ = .ok ph ∧ RnsCanon l ph ∧ RnsCanon l (rnsIntt l ph) ∧
      ∀ i, i < l.size → ∃ a, c01p_hornerRes l.n (l.q i).value (skRes l sk i)
        ((polys.toList.map (rnsIntt l)).map (fun p => p.getD i #[])) = some a ∧
        ∀ j, j < l.n → ((rnsIntt l ph).getD i #[]).getD j 0 = a.getD j 0 % (l.q i).value := by
  obtain ⟨ph, hdot, hcan, hv⟩ := c01q_dot_ntt hl hsk h2 hc cf
  have hci := c07s_rnsIntt_canon hl hcan
  refine ⟨ph, hdot, hcan, hci, ?_⟩
  apply c01q_hres_of_vec hl hsk (by simpa using c01q_polys_ne h2)
    (fun p hp => by obtain ⟨p', hp', rfl⟩ := List.mem_map.mp hp; exact c07s_rnsIntt_canon hl (c01q_polys_mem hc p' hp')) hci
  intro i hi
  rw [c01o_rnsIntt_getD l ph hi, hv i hi, List.map_map]
  congr 1
  apply List.map_congr_left
  intro p _
  simp only [Function.comp]
  rw [c01o_rnsIntt_getD l p hi]

/-! ### the exact phase under `c07s_LevelQ` only (no plain-modulus constants: usable for CKKS) -/

theorem c01q_qvals_eq {l : Level} (hq : c07s_LevelQ l) : c01p_qvals l = c01p_bvals l.tool.baseQ := by
  have h1 : c01p_qvals l = c07s_qsv l.tool.baseQ := by unfold c01p_qvals c07s_qsv; rw [hq.base]
  rw [h1, c07s_qsv_eq_range]; rfl

theorem c01q_phase_general {l : Level} (hq : c07s_LevelQ l) {sk : Array Int} {polys : List RnsPoly}
    (hne : polys ≠ []) (hsz : ∀ p ∈ polys, p.size = l.size) {j : Nat} (hj : j < l.n) :
    (Spec.phase (c01p_qvals l) l.n sk polys).size = l.n ∧ ∃ X, X < l.tool.baseQ.prod ∧
      (Spec.phase (c01p_qvals l) l.n sk polys).getD j 0 = Spec.centred X l.tool.baseQ.prod ∧
      ∀ i, i < l.size → ∃ a, c01p_hornerRes l.n (l.q i).value (skRes l sk i) (polys.map (fun p => p.getD i #[])) = some a ∧
        X % (l.q i).value = a.getD j 0 % (l.q i).value := by
  have hs := hq.size_eq
  obtain ⟨h1, X, x1, x2, x3⟩ := c01p_phase_general hq.bwf (sk := sk) hne (fun p hp => by rw [hs]; exact hsz p hp) hj
  rw [c01q_qvals_eq hq]
  refine ⟨h1, X, x1, x2, fun i hi => ?_⟩
  obtain ⟨a, a1, a2⟩ := x3 i (by omega)
  rw [hq.q_eq hi] at a1 a2
  exact ⟨a, a1, a2⟩

/-! ## Q2: CKKS decryption -/

/-- the value `ckksDecrypt` must return: component i is the forward transform of the exact phase reduced modulo q_i
    (the expression the driver's oracle `exactDec` evaluates) -/
def c01q_ckksSpec (l : Level) (sk : Array Int) (polys : List RnsPoly) : RnsPoly :=
  Array.ofFn (n := l.size) fun i =>
    ntt (l.tbl i.val) ((Spec.phase (c01p_qvals l) l.n sk (polys.map (rnsIntt l))).map fun x => Spec.imod x (l.q i.val).value)

theorem c01q_ckks_comp {l : Level} (hl : l.WF) (hq : c07s_LevelQ l) {sk : Array Int} (hsk : sk.size = l.n)
    {polys : Array RnsPoly} (h2 : 2 ≤ polys.size) (hc : ∀ k, k < polys.size → RnsCanon l (polys.getD k #[])) (cf : Nat) :
    ∃ ph, dotProductCtSk l sk ⟨polys, true, cf⟩ = .ok ph ∧ RnsCanon l ph ∧
      ∀ i, i < l.size → intt (l.tbl i) (ph.getD i #[]) =
        (Spec.phase (c01p_qvals l) l.n sk (polys.toList.map (rnsIntt l))).map fun x => Spec.imod x (l.q i).value := by
  obtain ⟨ph, hdot, hcan, hci, hres⟩ := c01q_hres_ntt hl hsk h2 hc cf
  refine ⟨ph, hdot, hcan, fun i hi => ?_⟩
  have hn0 := c01q_n_pos hl
  have hne : polys.toList.map (rnsIntt l) ≠ [] := by simpa using c01q_polys_ne h2
  have hsz : ∀ p ∈ polys.toList.map (rnsIntt l), p.size = l.size := fun p hp => by
    obtain ⟨p', -, rfl⟩ := List.mem_map.mp hp; exact c01p_rnsIntt_size l p'
  have hq2 := (c01o_level_comp hl hi).2.2.2.two_le
  have hq0 : 0 < (l.q i).value := by omega
  have hdvd : (l.q i).value ∣ l.tool.baseQ.prod := by
    rw [← hq.q_eq hi]; exact hq.bwf.q_dvd_prod (by rw [hq.size_eq]; exact hi)
  have hps := (c01q_phase_general hq (sk := sk) hne hsz hn0).1
  apply array_ext_getD (n := l.n) (c01q_intt_comp hl hcan hi).1 (by rw [Array.size_map, hps])
  intro j hj
  obtain ⟨-, X, x1, x2, x3⟩ := c01q_phase_general hq (sk := sk) hne hsz hj
  obtain ⟨a, a1, a2⟩ := x3 i hi
  obtain ⟨a', b1, b2⟩ := hres i hi
  rw [a1] at b1
  injection b1 with b1
  subst b1
  rw [c07s_map_getD _ _ (0 : Int) (0 : Nat) (by rw [hps]; exact hj), x2, ← c01o_rnsIntt_getD l ph hi]
  apply cast_inj_lt ((hci.2 i hi).2 j hj) (c07l_imod_lt hq0 _)
  rw [c07s_imod_cast (dvd_refl _) hq0, c07s_centred_cast hdvd x1, b2 j hj, ← a2, ZMod.natCast_mod]

theorem c01q_ckks_value {l : Level} (hl : l.WF) (hq : c07s_LevelQ l) {sk : Array Int} (hsk : sk.size = l.n)
    {polys : Array RnsPoly} (h2 : 2 ≤ polys.size) (hc : ∀ k, k < polys.size → RnsCanon l (polys.getD k #[])) (cf : Nat) :
    dotProductCtSk l sk ⟨polys, true, cf⟩ = .ok (c01q_ckksSpec l sk polys.toList) ∧ RnsCanon l (c01q_ckksSpec l sk polys.toList) := by
  obtain ⟨ph, hdot, hcan, hv⟩ := c01q_ckks_comp hl hq hsk h2 hc cf
  have e : ph = c01q_ckksSpec l sk polys.toList := by
    apply c07s_rns_ext hcan.1 (by simp [c01q_ckksSpec])
    intro i hi
    obtain ⟨htw, htm, htn, _⟩ := c01o_level_comp hl hi
    unfold c01q_ckksSpec
    rw [c01o_ofFn_getD _ _ _ hi]
    show ph.getD i #[] = ntt (l.tbl i) _
    rw [← hv i hi, ntt_intt htw _ (by rw [(hcan.2 i hi).1, htn]) (fun j hj => by rw [htm]; exact (hcan.2 i hi).2 j (by omega))]
  rw [← e]
  exact ⟨hdot, hcan⟩

/-- the exact phase is the CENTRED lift: every coefficient lies in (-Q/2, Q/2] -/
theorem c01q_phase_centred {l : Level} (hq : c07s_LevelQ l) {sk : Array Int} {polys : List RnsPoly}
    (hne : polys ≠ []) (hsz : ∀ p ∈ polys, p.size = l.size) {j : Nat} (hj : j < l.n) :
    - (l.tool.baseQ.prod : Int) < 2 * (Spec.phase (c01p_qvals l) l.n sk polys).getD j 0 ∧
      2 * (Spec.phase (c01p_qvals l) l.n sk polys).getD j 0 ≤ (l.tool.baseQ.prod : Int) := by
  obtain ⟨-, X, x1, x2, -⟩ := c01q_phase_general hq (sk := sk) hne hsz hj
  rw [x2]
  unfold Spec.centred
  rw [Nat.mod_eq_of_lt x1]
  split <;> constructor <;> omega

/-! ## Property theorems -/

/-- Q1 (BFV, ANY size ≥ 2, coefficient form): the model's `bfvDecrypt` equals the exact-integer specification
    `trim (bfvDecode t Q (phase …))` under the BEHZ γ-condition on the exact phase; same hypotheses as
    `bfvDecrypt_size2_eq_spec` -/
theorem bfvDecrypt_eq_spec {l : Level} (hl : l.WF) (hd : DecOK l) {sk : Array Int} (hsk : sk.size = l.n)
    {polys : Array RnsPoly} (h2 : 2 ≤ polys.size) (hc : ∀ k, k < polys.size → RnsCanon l (polys.getD k #[])) (cf : Nat)
    (hnoise : BehzDecryptOK l (Spec.phase (c01p_qvals l) l.n sk polys.toList)) :
    bfvDecrypt l sk ⟨polys, false, cf⟩ =
      .ok (Spec.trim (Spec.bfvDecode l.t.value (Spec.prodL (c01p_qvals l)) (Spec.phase (c01p_qvals l) l.n sk polys.toList))) := by
  obtain ⟨ph, hdot, hcan, hres⟩ := c01q_hres_coeff hl hsk h2 hc cf
  exact bfvDecrypt_eq_spec_of_phase hd (ct := ⟨polys, false, cf⟩) rfl (c01q_n_pos hl) (c01q_polys_ne h2)
    (fun p hp => (c01q_polys_mem hc p hp).1) hdot hcan hres hnoise

/-- Q1 (BGV, ANY size ≥ 2, NTT form, correction factor cf < 2^63 coprime to t): the model's `bgvDecrypt` equals the
    exact-integer specification on the coefficient forms of the input polynomials; ties x̃ = Q/2 excluded -/
theorem bgvDecrypt_eq_spec {l : Level} (hl : l.WF) (hd : DecOK l) {sk : Array Int} (hsk : sk.size = l.n)
    {polys : Array RnsPoly} (h2 : 2 ≤ polys.size) (hc : ∀ k, k < polys.size → RnsCanon l (polys.getD k #[]))
    {cf : Nat} (hcf : cf < 2^63) (hcop : Nat.Coprime cf l.t.value)
    (htie : BgvNoTie l (Spec.phase (c01p_qvals l) l.n sk (polys.toList.map (rnsIntt l)))) :
    bgvDecrypt l sk ⟨polys, true, cf⟩ =
      .ok (Spec.trim (Spec.bgvDecode l.t.value cf (Spec.phase (c01p_qvals l) l.n sk (polys.toList.map (rnsIntt l))))) := by
  obtain ⟨ph, hdot, _, hci, hres⟩ := c01q_hres_ntt hl hsk h2 hc cf
  exact bgvDecrypt_eq_spec_of_phase hd (ct := ⟨polys, true, cf⟩) rfl (c01q_n_pos hl) (c01q_polys_ne h2) hcf hcop hdot hci hres htie

/-- BGV decryption (any size ≥ 2, NTT form) refuses a correction factor ≠ 1 that is not invertible modulo t -/
theorem bgvDecrypt_refuses_cf {l : Level} (hl : l.WF) (hd : DecOK l) {sk : Array Int} (hsk : sk.size = l.n)
    {polys : Array RnsPoly} (h2 : 2 ≤ polys.size) (hc : ∀ k, k < polys.size → RnsCanon l (polys.getD k #[]))
    {cf : Nat} (hcf : cf < 2^63) (hcf1 : cf ≠ 1) (hcop : ¬ Nat.Coprime cf l.t.value)
    (htie : BgvNoTie l (Spec.phase (c01p_qvals l) l.n sk (polys.toList.map (rnsIntt l)))) :
    bgvDecrypt l sk ⟨polys, true, cf⟩ = .error .refused := by
  obtain ⟨ph, hdot, _, hci, hres⟩ := c01q_hres_ntt hl hsk h2 hc cf
  obtain ⟨-, X, hX⟩ := c01p_phase_general_choice hd (sk := sk) (polys := polys.toList.map (rnsIntt l))
    (by simpa using c01q_polys_ne h2)
    (fun p hp => by obtain ⟨p', -, rfl⟩ := List.mem_map.mp hp; exact c01p_rnsIntt_size l p')
  have hQ := c01p_prodL_qvals hd
  have htw : l.t.WF := by rw [← hd.t_eq]; exact hd.tool.twf
  obtain ⟨d, hdok, -, -⟩ := c01p_decryptModT_of_crt hd hci X
    (fun j hj => ⟨(hX j hj).1, fun i hi => by
      obtain ⟨a, a1, a2⟩ := (hX j hj).2.2 i hi
      obtain ⟨a', b1, b2⟩ := hres i hi
      rw [a1] at b1
      injection b1 with b1
      rw [a2, b2 j hj, b1]⟩)
    (fun j hj => by
      have := htie j hj
      rw [(hX j hj).2.1, hQ] at this
      exact c01p_tie_of_centred (hX j hj).1 this)
  unfold bgvDecrypt
  rw [if_neg (by simp), hdot, ok_bind, hdok, ok_bind]
  dsimp only
  rw [if_pos hcf1, (tryInvert_spec_partial htw.two_le htw.lt (by omega : cf < 2^64) hcf).2 (Or.inr hcop), ok_bind]
  rfl

/-- Q2 (CKKS, ANY size ≥ 2, NTT form): the model's `ckksDecrypt` returns exactly the NTT form of the exact phase
    `Spec.phase` (of the coefficient forms of the input) reduced modulo every q_i — the expression the driver's oracle evaluates.
    Needs no plain-modulus constants: only `Level.WF` and `c07s_LevelQ`. -/
theorem ckksDecrypt_eq_spec {l : Level} (hl : l.WF) (hq : c07s_LevelQ l) {sk : Array Int} (hsk : sk.size = l.n)
    {polys : Array RnsPoly} (h2 : 2 ≤ polys.size) (hc : ∀ k, k < polys.size → RnsCanon l (polys.getD k #[])) (cf : Nat) :
    ckksDecrypt l sk ⟨polys, true, cf⟩ = .ok (c01q_ckksSpec l sk polys.toList) := by
  unfold ckksDecrypt
  rw [if_neg (by simp)]
  exact (c01q_ckks_value hl hq hsk h2 hc cf).1

/-- Q2, component form: the result is canonical, and the inverse transform of component i is the exact phase modulo q_i;
    the exact phase is the centred lift (all coefficients in (-Q/2, Q/2]) -/
theorem ckksDecrypt_intt_eq_phase {l : Level} (hl : l.WF) (hq : c07s_LevelQ l) {sk : Array Int} (hsk : sk.size = l.n)
    {polys : Array RnsPoly} (h2 : 2 ≤ polys.size) (hc : ∀ k, k < polys.size → RnsCanon l (polys.getD k #[])) (cf : Nat) :
    ∃ ph, ckksDecrypt l sk ⟨polys, true, cf⟩ = .ok ph ∧ RnsCanon l ph ∧
      (∀ i, i < l.size → ∀ j, j < l.n →
        (intt (l.tbl i) (ph.getD i #[])).getD j 0 =
          Spec.imod ((Spec.phase (c01p_qvals l) l.n sk (polys.toList.map (rnsIntt l))).getD j 0) (l.q i).value) ∧
      (∀ j, j < l.n →
        - (Spec.prodL (c01p_qvals l) : Int) < 2 * (Spec.phase (c01p_qvals l) l.n sk (polys.toList.map (rnsIntt l))).getD j 0 ∧
        2 * (Spec.phase (c01p_qvals l) l.n sk (polys.toList.map (rnsIntt l))).getD j 0 ≤ (Spec.prodL (c01p_qvals l) : Int)) := by
  obtain ⟨ph, hdot, hcan, hv⟩ := c01q_ckks_comp hl hq hsk h2 hc cf
  have hne : polys.toList.map (rnsIntt l) ≠ [] := by simpa using c01q_polys_ne h2
  have hsz : ∀ p ∈ polys.toList.map (rnsIntt l), p.size = l.size := fun p hp => by
    obtain ⟨p', -, rfl⟩ := List.mem_map.mp hp; exact c01p_rnsIntt_size l p'
  refine ⟨ph, ?_, hcan, fun i hi j hj => ?_, fun j hj => ?_⟩
  · unfold ckksDecrypt
    rw [if_neg (by simp)]
    exact hdot
  · rw [hv i hi, c07s_map_getD _ _ (0 : Int) (0 : Nat) (by rw [(c01q_phase_general hq (sk := sk) hne hsz hj).1]; exact hj)]
  · rw [c01q_qvals_eq hq, c01p_prodL_bvals hq.bwf, ← c01q_qvals_eq hq]
    exact c01q_phase_centred hq hne hsz hj

/-- CKKS decryption refuses coefficient-form ciphertexts -/
theorem ckksDecrypt_refuses_coeff (l : Level) (sk : Array Int) (ct : Ct) (h : ct.ntt = false) :
    ckksDecrypt l sk ct = .error .refused := by
  unfold ckksDecrypt
  rw [if_pos (by rw [h]; rfl)]

/-- CKKS decryption refuses ciphertexts with fewer than two polynomials -/
theorem ckksDecrypt_refuses_small (l : Level) (sk : Array Int) (ct : Ct) (h : ct.polys.size < 2) :
    ckksDecrypt l sk ct = .error .refused := by
  unfold ckksDecrypt
  split
  · rfl
  · unfold dotProductCtSk
    simp only [bind, Except.bind]
    rw [if_pos h]

end HC
