/- C01 part Q: closing the gaps between the end-to-end decryption theorems and the objects the driver builds.
   Q1  `bfvDecrypt_eq_spec` / `bgvDecrypt_eq_spec` for every ciphertext size ≥ 2 (hypothesis `hres` of C01P discharged);
   Q2  `ckksDecrypt_eq_spec` (any size ≥ 2, NTT form) + refusals;
   Q3  `c05u_ToolOK`, `c05u_BgvOK`, `c07s_LevelQ`, `KeyLevel.WF` from the model's constructors;
   Q4  the driver's `Drv.Sch.mkLevel`: every level it returns satisfies all hypothesis bundles.
   All helper names carry the prefix `c01q_`. -/
import Heathcliff.Proofs.C01P
import Heathcliff.Proofs.C07S
import Heathcliff.Proofs.C05U
import Heathcliff.Proofs.C04T
import Driver.Scheme
import Mathlib.Data.ZMod.Basic
import Mathlib.Tactic.Ring
import Mathlib.Tactic.Linarith
namespace HC
open Finset

/-! ## Q1: the per-prime Horner value of C01P (`c01p_hornerRes`) and of C07S (`c07s_evalZ`) agree -/

theorem c01q_hornerRes_cons (n q : Nat) (skr : Array Nat) (c : Array Nat) (cs : List (Array Nat)) :
    c01p_hornerRes n q skr (c :: cs) = c01p_rStep n q skr (c01p_hornerRes n q skr cs) c := by
  unfold c01p_hornerRes
  rw [List.reverse_cons, List.foldl_append]
  rfl

theorem c01q_vecN_oob_size {q : Nat} {a : Array Nat} {n j : Nat} (ha : a.size = n) (hj : ¬ j < n) : c07s_vecN q a j = 0 :=
  c07s_vecN_oob q a (by rw [ha]; exact hj)

/-- the residue Horner evaluation of C01P, read in `ZMod q` -/
theorem c01q_hornerRes_vec {n q : Nat} (hq : 0 < q) (skr : Array Nat) (cs : List (Array Nat)) (hne : cs ≠ [])
    (hcs : ∀ c ∈ cs, c.size = n) :
    ∃ a, c01p_hornerRes n q skr cs = some a ∧ a.size = n ∧
      c07s_vecN q a = c07s_evalZ (c07s_mulS q n (c07s_vecN q skr)) (cs.map (c07s_vecN q)) := by
  induction cs with
  | nil => exact absurd rfl hne
  | cons c cs ih =>
    rw [c01q_hornerRes_cons]
    by_cases hnil : cs = []
    · subst hnil
      refine ⟨c, rfl, hcs c (by simp), ?_⟩
      simp [c07s_evalZ, c07s_mulS_zero]
    · obtain ⟨a, e1, e2, e3⟩ := ih hnil (fun c' hc' => hcs c' (by simp [hc']))
      rw [e1]
      refine ⟨_, rfl, by simp, ?_⟩
      rw [List.map_cons, c07s_evalZ, ← e3]
      funext j
      simp only [Pi.add_apply]
      by_cases hj : j < n
      · unfold c07s_mulS
        rw [if_pos hj]
        show (((Array.ofFn (n := n) fun j => (negMulNat n q a skr j.val + c.getD j.val 0) % q).getD j 0 : Nat) : ZMod q) = _
        rw [c01o_ofFn_getD _ _ _ hj, ZMod.natCast_mod, Nat.cast_add, c07s_negMulNat_cast hq, add_comm]
        rfl
      · rw [c01q_vecN_oob_size (by simp) hj, c01q_vecN_oob_size (hcs c (by simp)) hj]
        unfold c07s_mulS
        rw [if_neg hj, add_zero]

theorem c01q_mulS_sk {l : Level} {sk : Array Int} (hsk : sk.size = l.n) {i : Nat} (hq0 : 0 < (l.q i).value) :
    c07s_mulS (l.q i).value l.n (c07s_vecN (l.q i).value (skRes l sk i)) =
      c07s_mulS (l.q i).value l.n (c07s_vecZ (l.q i).value sk) := by
  funext a
  exact c07s_mulS_congr (fun k hk => c07s_skRes_cast l sk i hq0 (by rw [hsk]; exact hk)) (fun _ _ => rfl)

/-- from the `ZMod`-valued Horner identity to the hypothesis `hres` of `bfvDecrypt_eq_spec_of_phase` -/
theorem c01q_hres_of_vec {l : Level} (hl : l.WF) {sk : Array Int} (hsk : sk.size = l.n) {comps : List RnsPoly}
    (hne : comps ≠ []) (hc : ∀ p ∈ comps, RnsCanon l p) {ph : RnsPoly} (hcan : RnsCanon l ph)
    (hv : ∀ i, i < l.size → c07s_vecN (l.q i).value (ph.getD i #[]) =
      c07s_evalZ (c07s_mulS (l.q i).value l.n (c07s_vecZ (l.q i).value sk))
        (comps.map (fun p => c07s_vecN (l.q i).value (p.getD i #[])))) :
    ∀ i, i < l.size → ∃ a, c01p_hornerRes l.n (l.q i).value (skRes l sk i) (comps.map (fun p => p.getD i #[])) = some a ∧
      ∀ j, j < l.n → (ph.getD i #[]).getD j 0 = a.getD j 0 % (l.q i).value := by
  intro i hi
  have hq2 := (c01o_level_comp hl hi).2.2.2.two_le
  have hq0 : 0 < (l.q i).value := by omega
  obtain ⟨a, e1, _, e3⟩ := c01q_hornerRes_vec hq0 (skRes l sk i) (comps.map (fun p => p.getD i #[]))
    (by simpa using hne)
    (fun c hcm => by obtain ⟨p, hp, rfl⟩ := List.mem_map.mp hcm; exact ((hc p hp).2 i hi).1)
  refine ⟨a, e1, fun j hj => ?_⟩
  rw [c01q_mulS_sk hsk hq0, List.map_map] at e3
  have h1 : c07s_vecN (l.q i).value (ph.getD i #[]) j = c07s_vecN (l.q i).value a j := by
    rw [hv i hi, e3]; rfl
  have h2 := (ZMod.natCast_eq_natCast_iff _ _ _).mp h1
  unfold Nat.ModEq at h2
  rw [← h2, Nat.mod_eq_of_lt ((hcan.2 i hi).2 j hj)]

/-- size 2, one component: the C01O form of the phase as a Horner value -/
theorem c01q_vec2 {n q : Nat} (hq : 0 < q) {p c0 c1 skr : Array Nat} (hp : p.size = n) (h0 : c0.size = n)
    (hv : ∀ j, j < n → p.getD j 0 = (c0.getD j 0 + negMulNat n q c1 skr j) % q) :
    c07s_vecN q p = c07s_evalZ (c07s_mulS q n (c07s_vecN q skr)) [c07s_vecN q c0, c07s_vecN q c1] := by
  funext j
  simp only [c07s_evalZ, Pi.add_apply, c07s_mulS_zero, add_zero]
  by_cases hj : j < n
  · unfold c07s_mulS
    rw [if_pos hj]
    show ((p.getD j 0 : Nat) : ZMod q) = ((c0.getD j 0 : Nat) : ZMod q) + _
    rw [hv j hj, ZMod.natCast_mod, Nat.cast_add, c07s_negMulNat_cast hq]
    rfl
  · rw [c01q_vecN_oob_size hp hj, c01q_vecN_oob_size h0 hj]
    unfold c07s_mulS
    rw [if_neg hj, add_zero]

theorem c01q_two_polys {polys : Array RnsPoly} (h : polys.size = 2) : ∃ c0 c1, polys = #[c0, c1] := by
  obtain ⟨L⟩ := polys
  match L, h with
  | [a, b], _ => exact ⟨a, b, rfl⟩

theorem c01q_polys_mem {l : Level} {polys : Array RnsPoly} (hc : ∀ k, k < polys.size → RnsCanon l (polys.getD k #[])) :
    ∀ p ∈ polys.toList, RnsCanon l p := by
  intro p hp
  obtain ⟨k, hk, rfl⟩ := List.mem_iff_getElem.mp hp
  have hk' : k < polys.size := by simpa using hk
  have e : polys.toList[k] = polys.getD k #[] := by simp [Array.getD, hk']
  rw [e]; exact hc k hk'

theorem c01q_polys_ne {polys : Array RnsPoly} (h2 : 2 ≤ polys.size) : polys.toList ≠ [] := by
  intro h
  have h1 := congrArg List.length h
  rw [Array.length_toList, List.length_nil] at h1
  omega

/-- PHASE of the model, coefficient form, any size ≥ 2 -/
theorem c01q_dot_coeff {l : Level} (hl : l.WF) {sk : Array Int} (hsk : sk.size = l.n) {polys : Array RnsPoly}
    (h2 : 2 ≤ polys.size) (hc : ∀ k, k < polys.size → RnsCanon l (polys.getD k #[])) (cf : Nat) :
    ∃ ph, dotProductCtSk l sk ⟨polys, false, cf⟩ = .ok ph ∧ RnsCanon l ph ∧
      ∀ i, i < l.size → c07s_vecN (l.q i).value (ph.getD i #[]) =
        c07s_evalZ (c07s_mulS (l.q i).value l.n (c07s_vecZ (l.q i).value sk))
          (polys.toList.map (fun p => c07s_vecN (l.q i).value (p.getD i #[]))) := by
  by_cases h : polys.size = 2
  · obtain ⟨c0, c1, rfl⟩ := c01q_two_polys h
    have h0 : RnsCanon l c0 := hc 0 (by simp)
    have h1 : RnsCanon l c1 := hc 1 (by simp)
    obtain ⟨ph, hdot, hcan, hv⟩ := dotProduct_size2_coeff hl hsk h0 h1
    refine ⟨ph, by rw [c07s_dot_cf]; exact hdot, hcan, fun i hi => ?_⟩
    have hq2 := (c01o_level_comp hl hi).2.2.2.two_le
    have hq0 : 0 < (l.q i).value := by omega
    rw [← c01q_mulS_sk hsk hq0]
    exact c01q_vec2 hq0 (hcan.2 i hi).1 (h0.2 i hi).1 (hv i hi)
  · exact c07s_dot_gen hl hsk (by omega) hc cf

/-! ### NTT form, any size ≥ 3: the model side (counterpart of `c07s_dot_gen`) -/

theorem c01q_dot_ntt_eq (l : Level) (sk : Array Int) (polys : Array RnsPoly) (cf : Nat) (h3 : 3 ≤ polys.size) :
    dotProductCtSk l sk ⟨polys, true, cf⟩ = (do
      let pows ← skPowers l (skNtt l sk) (polys.size - 1)
      let prods ← (List.range (polys.size - 1)).mapM fun i =>
        rnsDyadic l (polys.getD (i+1) #[]) (pows.getD i #[])
      let sum ← prods.foldlM (fun acc p => rnsAdd l acc p) (rnsZero l)
      rnsAdd l sum (polys.getD 0 #[])) := by
  unfold dotProductCtSk
  simp only [if_neg (show ¬ polys.size < 2 by omega), if_neg (show ¬ polys.size = 2 by omega), if_true]

/-- the k-th product of the general-size dot product, NTT form -/
def c01q_D (l : Level) (sk : Array Int) (polys : Array RnsPoly) (k : Nat) : RnsPoly :=
  c01o_zipVal l (polys.getD (k+1) #[]) (c07s_Pw l (skNtt l sk) k) (fun i x y => (x * y) % (l.q i).value)

theorem c01q_intt_comp {l : Level} (hl : l.WF) {c : RnsPoly} (hc : RnsCanon l c) {i : Nat} (hi : i < l.size) :
    (intt (l.tbl i) (c.getD i #[])).size = l.n ∧ ∀ j, j < l.n → (intt (l.tbl i) (c.getD i #[])).getD j 0 < (l.q i).value := by
  have := (c07s_rnsIntt_canon hl hc).2 i hi
  rw [c01o_rnsIntt_getD l c hi] at this
  exact this

theorem c01q_D_comp {l : Level} (hl : l.WF) {sk : Array Int} {polys : Array RnsPoly} {k : Nat}
    (hc : RnsCanon l (polys.getD (k+1) #[])) {i : Nat} (hi : i < l.size) :
    (c01q_D l sk polys k).getD i #[] =
      c07s_E (l.tbl i) (intt (l.tbl i) ((polys.getD (k+1) #[]).getD i #[])) (skRes l sk i) (k+1) := by
  obtain ⟨htw, htm, htn, hqw⟩ := c01o_level_comp hl hi
  obtain ⟨i1, _⟩ := c01q_intt_comp hl hc hi
  have hni : ntt (l.tbl i) (intt (l.tbl i) ((polys.getD (k+1) #[]).getD i #[])) = (polys.getD (k+1) #[]).getD i #[] :=
    ntt_intt htw _ (by rw [(hc.2 i hi).1, htn]) (fun j hj => by rw [htm]; exact (hc.2 i hi).2 j (by omega))
  apply array_ext_getD (n := l.n)
  · unfold c01q_D; rw [c01o_zipVal_comp_size _ _ _ _ hi]; exact (hc.2 i hi).1
  · rw [c07s_E_size]; exact i1
  intro j hj
  unfold c01q_D
  rw [c01o_zipVal_coeff _ _ _ _ hi (by rw [(hc.2 i hi).1]; exact hj), c07s_Pw_coeff _ _ _ hi hj,
    c07s_E_getD _ _ _ _ (by rw [i1]; exact hj), hni, c01o_skNtt_getD l sk hi, htm, Nat.mul_mod_mod]

/-- PHASE, NTT form, any size ≥ 3: the inverse transform of the model's result is, in every component, the Horner value
    of the inverse transforms of the input polynomials -/
theorem c01q_dot_gen_ntt {l : Level} (hl : l.WF) {sk : Array Int} (hsk : sk.size = l.n) {polys : Array RnsPoly}
    (h3 : 3 ≤ polys.size) (hc : ∀ k, k < polys.size → RnsCanon l (polys.getD k #[])) (cf : Nat) :
    ∃ ph, dotProductCtSk l sk ⟨polys, true, cf⟩ = .ok ph ∧ RnsCanon l ph ∧
      ∀ i, i < l.size → c07s_vecN (l.q i).value (intt (l.tbl i) (ph.getD i #[])) =
        c07s_evalZ (c07s_mulS (l.q i).value l.n (c07s_vecZ (l.q i).value sk))
          (polys.toList.map (fun p => c07s_vecN (l.q i).value (intt (l.tbl i) (p.getD i #[])))) := by
  obtain ⟨m, hm⟩ : ∃ m, polys.size - 1 = m + 1 := ⟨polys.size - 2, by omega⟩
  have hs := c07s_skNtt_canon hl hsk
  have hDc : ∀ d ∈ (List.range (m+1)).map (c01q_D l sk polys), RnsCanon l d := by
    intro d hd
    obtain ⟨k, hk, rfl⟩ := List.mem_map.mp hd
    have hk' := List.mem_range.mp hk
    exact (c07s_dyadic_canon hl (hc (k+1) (by omega)) (c07s_Pw_canon hl _ k)).2
  obtain ⟨f1, f2⟩ := c07s_foldAdd_ok hl _ hDc (rnsZero l) (c07s_rnsZero_canon hl)
  obtain ⟨g1, g2⟩ := c07s_add_canon hl f2 (hc 0 (by omega))
  refine ⟨_, ?_, g2, ?_⟩
  · rw [c01q_dot_ntt_eq _ _ _ _ h3, hm, c07s_skPowers_ok hl hs m]
    simp only [bind, Except.bind]
    rw [RNSH.mapM_ok_of_forall _ (c01q_D l sk polys)]
    · simp only
      rw [f1]
      simp only
      exact g1
    · intro k hk
      have hk' := List.mem_range.mp hk
      rw [c07s_list_getD_rangeMap _ _ _ hk']
      exact (c07s_dyadic_canon hl (hc (k+1) (by omega)) (c07s_Pw_canon hl _ k)).1
  · intro i hi
    obtain ⟨htw, htm, htn, hqw⟩ := c01o_level_comp hl hi
    obtain ⟨s1, s2, _, _⟩ := c01o_sk_comp hl hsk hi
    have hq0 : 0 < (l.q i).value := by have := hqw.two_le; omega
    obtain ⟨p0, tl, htl⟩ : ∃ p0 tl, polys.toList = p0 :: tl := by
      cases h : polys.toList with
      | nil =>
        have : polys.toList.length = polys.size := Array.length_toList
        rw [h, List.length_nil] at this; omega
      | cons a b => exact ⟨a, b, rfl⟩
    have hlen : tl.length = m + 1 := by
      have : polys.toList.length = polys.size := Array.length_toList
      rw [htl, List.length_cons] at this; omega
    have hp0 : polys.getD 0 #[] = p0 := by rw [c07s_arr_getD_toList, htl]; rfl
    have hpk : ∀ k, polys.getD (k+1) #[] = tl.getD k #[] := fun k => by
      rw [c07s_arr_getD_toList, htl, List.getD_cons_succ]
    have hcs : ∀ c ∈ tl.map (fun p => intt (l.tbl i) (p.getD i #[])),
        c.size = l.n ∧ ∀ j, j < l.n → c.getD j 0 < (l.q i).value := by
      intro c hcm
      obtain ⟨p, hp, rfl⟩ := List.mem_map.mp hcm
      obtain ⟨k, hk, rfl⟩ := List.mem_iff_getElem.mp hp
      have e : tl[k] = polys.getD (k+1) #[] := by rw [hpk]; simp [List.getD, hk]
      rw [e]
      exact c01q_intt_comp hl (hc (k+1) (by omega)) hi
    have hz : ((rnsZero l).getD i #[]).size = l.n := ((c07s_rnsZero_canon hl).2 i hi).1
    have hz0 : ∀ j, ((rnsZero l).getD i #[]).getD j 0 = 0 := by
      intro j
      have e : (rnsZero l).getD i #[] = Array.replicate l.n 0 := by simp [rnsZero, Array.getD, hi]
      rw [e]
      by_cases hj : j < l.n <;> simp [Array.getD, hj]
    have hDs : ((List.range (m+1)).map (c01q_D l sk polys)).map (fun d => d.getD i #[]) =
        (List.range (tl.map (fun p => intt (l.tbl i) (p.getD i #[]))).length).map
          (fun k => c07s_E (l.tbl i) ((tl.map (fun p => intt (l.tbl i) (p.getD i #[]))).getD k #[]) (skRes l sk i) (k+1)) := by
      rw [List.length_map, hlen, List.map_map]
      apply List.map_congr_left
      intro k hk
      have hk' := List.mem_range.mp hk
      simp only [Function.comp]
      rw [c01q_D_comp hl (hc (k+1) (by omega)) hi, hpk]
      congr 1
      simp [List.getD, hk', hlen]
    obtain ⟨c1, c2, c3⟩ := c07s_comp_gen htw htm htn s1 s2 (tl.map (fun p => intt (l.tbl i) (p.getD i #[]))) hcs _ hz hz0
    have hc0 := (hc 0 (by omega)).2 i hi
    have hadd := (c07s_vecN_intt_add htw (x := ((List.range (tl.map (fun p => intt (l.tbl i) (p.getD i #[]))).length).map
          (fun k => c07s_E (l.tbl i) ((tl.map (fun p => intt (l.tbl i) (p.getD i #[]))).getD k #[]) (skRes l sk i) (k+1))).foldl
            (c07s_addArr (l.q i).value) ((rnsZero l).getD i #[])) (y := (polys.getD 0 #[]).getD i #[])
      (by rw [c1, htn]) (by rw [hc0.1, htn]) (fun j hj => by rw [htm]; exact c2 j (by omega))
      (fun j hj => by rw [htm]; exact hc0.2 j (by omega))).2.2
    rw [htm] at hadd
    rw [c07s_zipAdd_getD l _ _ hi, c07s_fold_comp l _ _ hi, hDs, hadd, c3, htl, List.map_cons, c07s_evalZ, hp0, List.map_map,
      add_comm]
    rw [c01q_mulS_sk hsk hq0]
    rfl

/-- PHASE of the model, NTT form, any size ≥ 2 -/
theorem c01q_dot_ntt {l : Level} (hl : l.WF) {sk : Array Int} (hsk : sk.size = l.n) {polys : Array RnsPoly}
    (h2 : 2 ≤ polys.size) (hc : ∀ k, k < polys.size → RnsCanon l (polys.getD k #[])) (cf : Nat) :
    ∃ ph, dotProductCtSk l sk ⟨polys, true, cf⟩ = .ok ph ∧ RnsCanon l ph ∧
      ∀ i, i < l.size → c07s_vecN (l.q i).value (intt (l.tbl i) (ph.getD i #[])) =
        c07s_evalZ (c07s_mulS (l.q i).value l.n (c07s_vecZ (l.q i).value sk))
          (polys.toList.map (fun p => c07s_vecN (l.q i).value (intt (l.tbl i) (p.getD i #[])))) := by
  by_cases h : polys.size = 2
  · obtain ⟨c0, c1, rfl⟩ := c01q_two_polys h
    have h0 : RnsCanon l c0 := hc 0 (by simp)
    have h1 : RnsCanon l c1 := hc 1 (by simp)
    obtain ⟨ph, hdot, hcan, hv⟩ := dotProduct_size2_ntt hl hsk h0 h1
    refine ⟨ph, by rw [c07s_dot_cf]; exact hdot, hcan, fun i hi => ?_⟩
    have hq2 := (c01o_level_comp hl hi).2.2.2.two_le
    have hq0 : 0 < (l.q i).value := by omega
    rw [← c01q_mulS_sk hsk hq0]
    exact c01q_vec2 hq0 (c01q_intt_comp hl hcan hi).1 (c01q_intt_comp hl h0 hi).1 (hv i hi)
  · exact c01q_dot_gen_ntt hl hsk (by omega) hc cf

/-! ### hypotheses of the `_of_phase` theorems of C01P for any size -/

theorem c01q_n_pos {l : Level} (hl : l.WF) : 0 < l.n := by rw [hl.npow]; exact Nat.two_pow_pos _

theorem c01q_hres_coeff {l : Level} (hl : l.WF) {sk : Array Int} (hsk : sk.size = l.n) {polys : Array RnsPoly}
    (h2 : 2 ≤ polys.size) (hc : ∀ k, k < polys.size → RnsCanon l (polys.getD k #[])) (cf : Nat) :
    ∃ ph, dotProductCtSk l sk ⟨polys, false, cf⟩ = .ok ph ∧ RnsCanon l ph ∧
      ∀ i, i < l.size → ∃ a, c01p_hornerRes l.n (l.q i).value (skRes l sk i)
        (polys.toList.map (fun p => p.getD i #[])) = some a ∧
        ∀ j, j < l.n → (ph.getD i #[]).getD j 0 = a.getD j 0 % (l.q i).value := by
  obtain ⟨ph, hdot, hcan, hv⟩ := c01q_dot_coeff hl hsk h2 hc cf
  exact ⟨ph, hdot, hcan, c01q_hres_of_vec hl hsk (c01q_polys_ne h2) (c01q_polys_mem hc) hcan hv⟩

theorem c01q_hres_ntt {l : Level} (hl : l.WF) {sk : Array Int} (hsk : sk.size = l.n) {polys : Array RnsPoly}
    (h2 : 2 ≤ polys.size) (hc : ∀ k, k < polys.size → RnsCanon l (polys.getD k #[])) (cf : Nat) :
    ∃ ph, dotProductCtSk l sk ⟨polys, true, cf⟩ = .ok ph ∧ RnsCanon l ph ∧ RnsCanon l (rnsIntt l ph) ∧
      ∀ i, i < l.size → ∃ a, c01p_hornerRes l.n (l.q i).value (skRes l sk i)
        ((polys.toList.map (rnsIntt l)).map (fun p => p.getD i #[])) = some a ∧
        ∀ j, j < l.n → ((rnsIntt l ph).getD i #[]).getD j 0 = a.getD j 0 % (l.q i).value := by
  obtain ⟨ph, hdot, hcan, hv⟩ := c01q_dot_ntt hl hsk h2 hc cf
  have hci := c07s_rnsIntt_canon hl hcan
  refine ⟨ph, hdot, hcan, hci, ?_⟩
  apply c01q_hres_of_vec hl hsk (by simpa using c01q_polys_ne h2)
    (fun p hp => by obtain ⟨p', hp', rfl⟩ := List.mem_map.mp hp; exact c07s_rnsIntt_canon hl (c01q_polys_mem hc p' hp')) hci
  intro i hi
  rw [c01o_rnsIntt_getD l ph hi, hv i hi, List.map_map]
  congr 1
  apply List.map_congr_left
  intro p _
  simp only [Function.comp]
  rw [c01o_rnsIntt_getD l p hi]

/-! ### the exact phase under `c07s_LevelQ` only (no plain-modulus constants: usable for CKKS) -/

theorem c01q_qvals_eq {l : Level} (hq : c07s_LevelQ l) : c01p_qvals l = c01p_bvals l.tool.baseQ := by
  have h1 : c01p_qvals l = c07s_qsv l.tool.baseQ := by unfold c01p_qvals c07s_qsv; rw [hq.base]
  rw [h1, c07s_qsv_eq_range]; rfl

theorem c01q_phase_general {l : Level} (hq : c07s_LevelQ l) {sk : Array Int} {polys : List RnsPoly}
    (hne : polys ≠ []) (hsz : ∀ p ∈ polys, p.size = l.size) {j : Nat} (hj : j < l.n) :
    (Spec.phase (c01p_qvals l) l.n sk polys).size = l.n ∧ ∃ X, X < l.tool.baseQ.prod ∧
      (Spec.phase (c01p_qvals l) l.n sk polys).getD j 0 = Spec.centred X l.tool.baseQ.prod ∧
      ∀ i, i < l.size → ∃ a, c01p_hornerRes l.n (l.q i).value (skRes l sk i) (polys.map (fun p => p.getD i #[])) = some a ∧
        X % (l.q i).value = a.getD j 0 % (l.q i).value := by
  have hs := hq.size_eq
  obtain ⟨h1, X, x1, x2, x3⟩ := c01p_phase_general hq.bwf (sk := sk) hne (fun p hp => by rw [hs]; exact hsz p hp) hj
  rw [c01q_qvals_eq hq]
  refine ⟨h1, X, x1, x2, fun i hi => ?_⟩
  obtain ⟨a, a1, a2⟩ := x3 i (by omega)
  rw [hq.q_eq hi] at a1 a2
  exact ⟨a, a1, a2⟩

/-! ## Q2: CKKS decryption -/

/-- the value `ckksDecrypt` must return: component i is the forward transform of the exact phase reduced modulo q_i
    (the expression the driver's oracle `exactDec` evaluates) -/
def c01q_ckksSpec (l : Level) (sk : Array Int) (polys : List RnsPoly) : RnsPoly :=
  Array.ofFn (n := l.size) fun i =>
    ntt (l.tbl i.val) ((Spec.phase (c01p_qvals l) l.n sk (polys.map (rnsIntt l))).map fun x => Spec.imod x (l.q i.val).value)

theorem c01q_ckks_comp {l : Level} (hl : l.WF) (hq : c07s_LevelQ l) {sk : Array Int} (hsk : sk.size = l.n)
    {polys : Array RnsPoly} (h2 : 2 ≤ polys.size) (hc : ∀ k, k < polys.size → RnsCanon l (polys.getD k #[])) (cf : Nat) :
    ∃ ph, dotProductCtSk l sk ⟨polys, true, cf⟩ = .ok ph ∧ RnsCanon l ph ∧
      ∀ i, i < l.size → intt (l.tbl i) (ph.getD i #[]) =
        (Spec.phase (c01p_qvals l) l.n sk (polys.toList.map (rnsIntt l))).map fun x => Spec.imod x (l.q i).value := by
  obtain ⟨ph, hdot, hcan, hci, hres⟩ := c01q_hres_ntt hl hsk h2 hc cf
  refine ⟨ph, hdot, hcan, fun i hi => ?_⟩
  have hn0 := c01q_n_pos hl
  have hne : polys.toList.map (rnsIntt l) ≠ [] := by simpa using c01q_polys_ne h2
  have hsz : ∀ p ∈ polys.toList.map (rnsIntt l), p.size = l.size := fun p hp => by
    obtain ⟨p', -, rfl⟩ := List.mem_map.mp hp; exact c01p_rnsIntt_size l p'
  have hq2 := (c01o_level_comp hl hi).2.2.2.two_le
  have hq0 : 0 < (l.q i).value := by omega
  have hdvd : (l.q i).value ∣ l.tool.baseQ.prod := by
    rw [← hq.q_eq hi]; exact hq.bwf.q_dvd_prod (by rw [hq.size_eq]; exact hi)
  have hps := (c01q_phase_general hq (sk := sk) hne hsz hn0).1
  apply array_ext_getD (n := l.n) (c01q_intt_comp hl hcan hi).1 (by rw [Array.size_map, hps])
  intro j hj
  obtain ⟨-, X, x1, x2, x3⟩ := c01q_phase_general hq (sk := sk) hne hsz hj
  obtain ⟨a, a1, a2⟩ := x3 i hi
  obtain ⟨a', b1, b2⟩ := hres i hi
  rw [a1] at b1
  injection b1 with b1
  subst b1
  rw [c07s_map_getD _ _ (0 : Int) (0 : Nat) (by rw [hps]; exact hj), x2, ← c01o_rnsIntt_getD l ph hi]
  apply cast_inj_lt ((hci.2 i hi).2 j hj) (c07l_imod_lt hq0 _)
  rw [c07s_imod_cast (dvd_refl _) hq0, c07s_centred_cast hdvd x1, b2 j hj, ← a2, ZMod.natCast_mod]

theorem c01q_ckks_value {l : Level} (hl : l.WF) (hq : c07s_LevelQ l) {sk : Array Int} (hsk : sk.size = l.n)
    {polys : Array RnsPoly} (h2 : 2 ≤ polys.size) (hc : ∀ k, k < polys.size → RnsCanon l (polys.getD k #[])) (cf : Nat) :
    dotProductCtSk l sk ⟨polys, true, cf⟩ = .ok (c01q_ckksSpec l sk polys.toList) ∧ RnsCanon l (c01q_ckksSpec l sk polys.toList) := by
  obtain ⟨ph, hdot, hcan, hv⟩ := c01q_ckks_comp hl hq hsk h2 hc cf
  have e : ph = c01q_ckksSpec l sk polys.toList := by
    apply c07s_rns_ext hcan.1 (by simp [c01q_ckksSpec])
    intro i hi
    obtain ⟨htw, htm, htn, _⟩ := c01o_level_comp hl hi
    unfold c01q_ckksSpec
    rw [c01o_ofFn_getD _ _ _ hi]
    show ph.getD i #[] = ntt (l.tbl i) _
    rw [← hv i hi, ntt_intt htw _ (by rw [(hcan.2 i hi).1, htn]) (fun j hj => by rw [htm]; exact (hcan.2 i hi).2 j (by omega))]
  rw [← e]
  exact ⟨hdot, hcan⟩

/-- the exact phase is the CENTRED lift: every coefficient lies in (-Q/2, Q/2] -/
theorem c01q_phase_centred {l : Level} (hq : c07s_LevelQ l) {sk : Array Int} {polys : List RnsPoly}
    (hne : polys ≠ []) (hsz : ∀ p ∈ polys, p.size = l.size) {j : Nat} (hj : j < l.n) :
    - (l.tool.baseQ.prod : Int) < 2 * (Spec.phase (c01p_qvals l) l.n sk polys).getD j 0 ∧
      2 * (Spec.phase (c01p_qvals l) l.n sk polys).getD j 0 ≤ (l.tool.baseQ.prod : Int) := by
  obtain ⟨-, X, x1, x2, -⟩ := c01q_phase_general hq (sk := sk) hne hsz hj
  rw [x2]
  unfold Spec.centred
  rw [Nat.mod_eq_of_lt x1]
  split <;> constructor <;> omega

/-! ## Q3: inversion of `RNSTool.new` for the constants of modulus switching (any plain modulus, including t = 0) -/

/-- what `RNSTool.new` returns for the constants used by modulus switching (any t) -/
def c01q_NewInv (n : Nat) (q : RNSBase) (t : Modulus) (r : RNSTool) : Prop :=
  ∃ (iql : List MulOperand),
      1 ≤ q.size ∧ q.size ≤ 64 ∧ isPow2 n = true ∧ 2 ≤ n ∧ n ≤ 131072 ∧
      (List.range (q.size - 1)).mapM (fun i => (do
          let o ← tryInvert (q.q (q.size - 1)).value (q.q i).value
          match o with
          | none => .error .refused
          | some iv => MulOperand.new iv (q.q i) : R MulOperand)) = .ok iql ∧
      (¬ t.value = 0 → tryInvert (q.q (q.size - 1)).value t.value = .ok (some r.invQLastModT)) ∧
      r.n = n ∧ r.k = Nat.log2 n ∧ r.baseQ = q ∧ r.t = t ∧ r.invQLastModQ = iql.toArray ∧
      (t.value = 0 → r.baseTGamma = none)

theorem c01q_pow2_facts {n : Nat} (hn : ¬((!isPow2 n) = true ∨ n < 2 ∨ n > 131072)) :
    isPow2 n = true ∧ 2 ≤ n ∧ n ≤ 131072 := by
  cases hp : isPow2 n
  · exfalso; apply hn; left; rw [hp]; rfl
  · refine ⟨rfl, ?_, ?_⟩ <;> by_contra hc <;> apply hn <;> right <;> omega

theorem c01q_new_inv_t0 {n : Nat} {q : RNSBase} {t : Modulus} {aux : List Modulus} {r : RNSTool}
    (h : RNSTool.new n q t aux = .ok r) (ht0 : t.value = 0) : c01q_NewInv n q t r := by
  unfold RNSTool.new at h
  split at h
  · cases h
  rename_i hqs
  split at h
  · cases h
  rename_i hn
  dsimp only at h
  split at h
  · cases h
  rename_i hlen
  obtain ⟨mTilde, hmt, h1⟩ := c01p_bind_ok h; clear h
  obtain ⟨baseB, hbB, h⟩ := c01p_bind_ok h1; clear h1
  obtain ⟨baseBsk, hbBsk, h1⟩ := c01p_bind_ok h; clear h
  obtain ⟨baseBskMt, hbBskMt, h⟩ := c01p_bind_ok h1; clear h1
  rw [c01p_pure_bind, c01p_pure_bind] at h
  obtain ⟨qToBsk, hqToBsk, h1⟩ := c01p_bind_ok h; clear h
  obtain ⟨bMt, hbMt, h⟩ := c01p_bind_ok h1; clear h1
  obtain ⟨qToMt, hqToMt, h1⟩ := c01p_bind_ok h; clear h
  obtain ⟨bToQ, hbToQ, h⟩ := c01p_bind_ok h1; clear h1
  obtain ⟨bMsk, hbMsk, h1⟩ := c01p_bind_ok h; clear h
  obtain ⟨bToMsk, hbToMsk, h⟩ := c01p_bind_ok h1; clear h1
  dsimp only at h
  rw [c01p_pure_bind] at h
  obtain ⟨prodBModQ, hprodBModQ, h1⟩ := c01p_bind_ok h; clear h
  obtain ⟨invProdQModBsk, hinvProdQModBsk, h⟩ := c01p_bind_ok h1; clear h1
  obtain ⟨tb, htb, h1⟩ := c01p_bind_ok h; clear h
  obtain ⟨invProdBModMsk, hinvProdBModMsk, h⟩ := c01p_bind_ok h1; clear h1
  obtain ⟨invMtModBsk, hinvMtModBsk, h1⟩ := c01p_bind_ok h; clear h
  obtain ⟨tq, htq, h⟩ := c01p_bind_ok h1; clear h1
  obtain ⟨otq, hotq, h1⟩ := c01p_bind_ok h; clear h
  cases otq with
  | none => cases h1
  | some ivq =>
  dsimp only at h1
  obtain ⟨ngq, hngq, h⟩ := c01p_bind_ok h1; clear h1
  obtain ⟨negInvProdQModMt, hnegInvProdQModMt, h1⟩ := c01p_bind_ok h; clear h
  obtain ⟨prodQModBsk, hprodQModBsk, h⟩ := c01p_bind_ok h1; clear h1
  rw [c01p_pure_bind] at h
  dsimp only at h
  obtain ⟨invQLastModQ, hinvQLastModQ, h1⟩ := c01p_bind_ok h; clear h
  rw [c01p_pure_bind] at h1
  injection h1 with h1
  subst h1
  obtain ⟨p1, p2, p3⟩ := c01q_pow2_facts hn
  exact ⟨invQLastModQ, by omega, by omega, p1, p2, p3, hinvQLastModQ, fun hc => absurd ht0 hc, rfl, rfl, rfl, rfl, rfl, fun _ => rfl⟩

theorem c01q_new_inv_t1 {n : Nat} {q : RNSBase} {t : Modulus} {aux : List Modulus} {r : RNSTool}
    (h : RNSTool.new n q t aux = .ok r) (ht0 : ¬ t.value = 0) : c01q_NewInv n q t r := by
  unfold RNSTool.new at h
  split at h
  · cases h
  rename_i hqs
  split at h
  · cases h
  rename_i hn
  dsimp only at h
  split at h
  · cases h
  rename_i hlen
  obtain ⟨mTilde, hmt, h1⟩ := c01p_bind_ok h; clear h
  obtain ⟨baseB, hbB, h⟩ := c01p_bind_ok h1; clear h1
  obtain ⟨baseBsk, hbBsk, h1⟩ := c01p_bind_ok h; clear h
  obtain ⟨baseBskMt, hbBskMt, h⟩ := c01p_bind_ok h1; clear h1
  obtain ⟨btg, hbtg, h1⟩ := c01p_bind_ok h; clear h
  rw [c01p_pure_bind] at h1
  obtain ⟨bt, hbt, h⟩ := c01p_bind_ok h1; clear h1
  obtain ⟨cT, hcT, h1⟩ := c01p_bind_ok h; clear h
  rw [c01p_pure_bind] at h1
  obtain ⟨qToBsk, hqToBsk, h⟩ := c01p_bind_ok h1; clear h1
  obtain ⟨bMt, hbMt, h1⟩ := c01p_bind_ok h; clear h
  obtain ⟨qToMt, hqToMt, h⟩ := c01p_bind_ok h1; clear h1
  obtain ⟨bToQ, hbToQ, h1⟩ := c01p_bind_ok h; clear h
  obtain ⟨bMsk, hbMsk, h⟩ := c01p_bind_ok h1; clear h1
  obtain ⟨bToMsk, hbToMsk, h1⟩ := c01p_bind_ok h; clear h
  dsimp only at h1
  obtain ⟨conv, hconv, h⟩ := c01p_bind_ok h1; clear h1
  rw [c01p_pure_bind] at h
  obtain ⟨prodBModQ, hprodBModQ, h1⟩ := c01p_bind_ok h; clear h
  obtain ⟨invProdQModBsk, hinvProdQModBsk, h⟩ := c01p_bind_ok h1; clear h1
  obtain ⟨tb, htb, h1⟩ := c01p_bind_ok h; clear h
  obtain ⟨invProdBModMsk, hinvProdBModMsk, h⟩ := c01p_bind_ok h1; clear h1
  obtain ⟨invMtModBsk, hinvMtModBsk, h1⟩ := c01p_bind_ok h; clear h
  obtain ⟨tq, htq, h⟩ := c01p_bind_ok h1; clear h1
  obtain ⟨otq, hotq, h1⟩ := c01p_bind_ok h; clear h
  cases otq with
  | none => cases h1
  | some ivq =>
  dsimp only at h1
  obtain ⟨ngq, hngq, h⟩ := c01p_bind_ok h1; clear h1
  obtain ⟨negInvProdQModMt, hnegInvProdQModMt, h1⟩ := c01p_bind_ok h; clear h
  obtain ⟨prodQModBsk, hprodQModBsk, h⟩ := c01p_bind_ok h1; clear h1
  obtain ⟨g, hg, h1⟩ := c01p_bind_ok h; clear h
  obtain ⟨ig, hig, h⟩ := c01p_bind_ok h1; clear h1
  obtain ⟨ptg, hptg, h1⟩ := c01p_bind_ok h; clear h
  obtain ⟨niq, hniq, h⟩ := c01p_bind_ok h1; clear h1
  rw [c01p_pure_bind] at h
  dsimp only at h
  obtain ⟨invQLastModQ, hinvQLastModQ, h1⟩ := c01p_bind_ok h; clear h
  obtain ⟨oql, hoql, h⟩ := c01p_bind_ok h1; clear h1
  cases oql with
  | none => cases h
  | some ivl =>
  dsimp only at h
  rw [c01p_pure_bind] at h
  injection h with h
  subst h
  obtain ⟨p1, p2, p3⟩ := c01q_pow2_facts hn
  exact ⟨invQLastModQ, by omega, by omega, p1, p2, p3, hinvQLastModQ, fun _ => hoql, rfl, rfl, rfl, rfl, rfl, fun hc => absurd hc ht0⟩

theorem c01q_new_inv {n : Nat} {q : RNSBase} {t : Modulus} {aux : List Modulus} {r : RNSTool}
    (h : RNSTool.new n q t aux = .ok r) : c01q_NewInv n q t r := by
  by_cases ht0 : t.value = 0
  · exact c01q_new_inv_t0 h ht0
  · exact c01q_new_inv_t1 h ht0

/-! ## Q3: the hypothesis bundles from the model's constructors -/

theorem c01q_base_of_new {ms : List Modulus} {b : RNSBase} (h : RNSBase.new ms = .ok b) : b.base = ms.toArray := by
  unfold RNSBase.new at h
  simp only [bind, Except.bind, pure, Except.pure] at h
  split at h
  · cases h
  split at h
  · cases h
  split at h
  · cases h
  split at h
  · split at h
    · cases h
    injection h with h
    subst h
    rfl
  · split at h
    · cases h
    injection h with h
    subst h
    rfl

theorem c01q_levelQ_of_toolOK {l : Level} (h : c05u_ToolOK l) : c07s_LevelQ l := ⟨h.bwf, h.base⟩

theorem c01q_levelQ_of_decOK {l : Level} (h : DecOK l) : c07s_LevelQ l := ⟨h.tool.qwf, h.base_eq⟩

theorem c01q_range_get (m i : Nat) (hi : i < (List.range m).length) : (List.range m).get ⟨i, hi⟩ = i := by simp

/-- `c05u_ToolOK` from `RNSBase.new` + `RNSTool.new` -/
theorem c01q_toolOK_of_new {l : Level} {q : RNSBase} {aux : List Modulus} (hm : ∀ m ∈ l.qs.toList, m.WF)
    (hq : RNSBase.new l.qs.toList = .ok q) (h : RNSTool.new l.n q l.t aux = .ok l.tool) : c05u_ToolOK l := by
  obtain ⟨iql, _, h64, _, _, _, hiql, _, rn, _, rq, _, riql, _⟩ := c01q_new_inv h
  have hb0 : q.base = l.qs := c01q_base_of_new hq
  have hsz : q.size = l.size := by unfold RNSBase.size Level.size; rw [hb0]
  have hlen : l.qs.toList.length ≤ 64 := by rw [Array.length_toList]; show l.size ≤ 64; omega
  obtain ⟨hqwf, _⟩ := RNSBase.new_wf hm hlen hq
  have hqq : ∀ i, q.q i = l.q i := fun i => by unfold RNSBase.q Level.q; rw [hb0]; rfl
  refine ⟨by rw [rq]; exact hqwf, by rw [rq]; exact hb0, rn, fun i hi => ?_⟩
  have hF := RNSH.mapM_ok_inv _ _ _ hiql
  have hFl := hF.length_eq
  rw [List.length_range] at hFl
  have hi1 : i < (List.range (q.size - 1)).length := by rw [List.length_range, hsz]; exact hi
  have hi2 : i < iql.length := by rw [← hFl, hsz]; exact hi
  have hstep := List.Forall₂.get hF hi1 hi2
  rw [c01q_range_get] at hstep
  have hmi : (q.q i).WF := hqwf.mwf i (by omega)
  have hml : (q.q (q.size - 1)).WF := hqwf.mwf _ (by omega)
  have := hml.lt
  obtain ⟨w1, w2⟩ := c01p_invOf_spec hmi (by omega : (q.q (q.size - 1)).value < 2^63) hstep
  rw [riql, c01p_getD_toArray _ _ hi2, ← hqq i, ← hqq (l.size - 1), ← hsz]
  exact ⟨w1, w2⟩

/-- `c05u_BgvOK` from `RNSBase.new` + `RNSTool.new` (plain modulus well formed, i.e. t ≠ 0) -/
theorem c01q_bgvOK_of_new {l : Level} {q : RNSBase} {aux : List Modulus} (hm : ∀ m ∈ l.qs.toList, m.WF) (ht : l.t.WF)
    (hq : RNSBase.new l.qs.toList = .ok q) (h : RNSTool.new l.n q l.t aux = .ok l.tool) : c05u_BgvOK l := by
  obtain ⟨iql, _, h64, _, _, _, _, hinvt, _, _, _, rt, _, _⟩ := c01q_new_inv h
  have hb0 : q.base = l.qs := c01q_base_of_new hq
  have hsz : q.size = l.size := by unfold RNSBase.size Level.size; rw [hb0]
  have hlen : l.qs.toList.length ≤ 64 := by rw [Array.length_toList]; show l.size ≤ 64; omega
  obtain ⟨hqwf, _⟩ := RNSBase.new_wf hm hlen hq
  have hqq : ∀ i, q.q i = l.q i := fun i => by unfold RNSBase.q Level.q; rw [hb0]; rfl
  have ht2 := ht.two_le
  have hml : (q.q (q.size - 1)).WF := hqwf.mwf _ (by omega)
  have := hml.lt
  obtain ⟨w1, w2⟩ := tryInvert_some ht2 ht.lt (by omega : (q.q (q.size - 1)).value < 2^63) (hinvt (by omega))
  rw [hqq, hsz] at w2
  exact ⟨rt, ht, w1, w2⟩

/-- `KeyLevel.WF` (C04T) from `NTTTables.new` per modulus -/
theorem c01q_keyLevelWF_of_new {kl : KeyLevel} {k : Nat} (hn : kl.n = 2^k) (hk : k ≤ 60) (hsz : kl.tables.size = kl.ms.size)
    (hm : ∀ i, i < kl.ms.size → (kl.m i).WF)
    (ht : ∀ i, i < kl.ms.size → ∃ pr root0, root0 < 2^64 ∧ NTTTables.new k (kl.m i) pr root0 = .ok (kl.tb i)) : kl.WF := by
  refine ⟨hsz, fun i hi => ?_⟩
  obtain ⟨pr, root0, hr, hnew⟩ := ht i hi
  obtain ⟨h1, h2, h3, _⟩ := NTTTables.new_wf_u64 (hm i hi) hk hr hnew
  exact ⟨h1, h3, by rw [h2, hn]⟩

/-- a level all of whose parts were produced by the model's constructors -/
structure c01q_Built (l : Level) : Prop where
  npow : l.n = 2^l.k
  klt : l.k ≤ 60
  tsz : l.tables.size = l.qs.size
  mwf : ∀ m ∈ l.qs.toList, m.WF
  tbl : ∀ i, i < l.size → ∃ pr root0, root0 < 2^64 ∧ NTTTables.new l.k (l.q i) pr root0 = .ok (l.tbl i)
  tool : ∃ q aux, (∀ m ∈ aux, m.WF) ∧ RNSBase.new l.qs.toList = .ok q ∧ RNSTool.new l.n q l.t aux = .ok l.tool

theorem c01q_q_mem {l : Level} {i : Nat} (hi : i < l.size) : l.q i ∈ l.qs.toList := by
  have hi' : i < l.qs.size := hi
  have e : l.q i = l.qs.toList[i]'(by simpa using hi') := by
    simp [Level.q, Array.getD, hi']
  rw [e]
  exact List.getElem_mem _

theorem c01q_built_size_le {l : Level} (h : c01q_Built l) : l.qs.size ≤ 64 := by
  obtain ⟨q, aux, _, hq, hnew⟩ := h.tool
  obtain ⟨_, _, h64, _⟩ := c01q_new_inv hnew
  have hb0 : q.base = l.qs := c01q_base_of_new hq
  have hsz : q.size = l.qs.size := by unfold RNSBase.size; rw [hb0]
  omega

/-- Q3: every hypothesis bundle of the end-to-end theorems holds for a level built by the constructors -/
theorem c01q_built_all {l : Level} (h : c01q_Built l) :
    l.WF ∧ c07s_LevelQ l ∧ c05u_ToolOK l ∧ (l.t.WF → DecOK l ∧ c05u_BgvOK l) := by
  obtain ⟨q, aux, haux, hq, hnew⟩ := h.tool
  have hT := c01q_toolOK_of_new h.mwf hq hnew
  refine ⟨c01p_levelWF_of_new h.npow h.klt h.tsz (fun i hi => h.mwf _ (c01q_q_mem hi)) h.tbl,
    c01q_levelQ_of_toolOK hT, hT, fun ht => ⟨?_, c01q_bgvOK_of_new h.mwf ht hq hnew⟩⟩
  exact c01p_decOK_of_new h.mwf (c01q_built_size_le h) ht haux hq hnew

/-! ## Q4: the driver's level constructor `Drv.Sch.mkLevel` -/

theorem c01q_powGo_lt {q : Nat} (hq : 0 < q) (f b e acc : Nat) (ha : acc < q) : powModNat.go q f b e acc < q := by
  induction f generalizing b e acc with
  | zero => exact ha
  | succ f ih =>
    unfold powModNat.go
    split
    · exact ha
    · apply ih
      split
      · exact Nat.mod_lt _ hq
      · exact ha

theorem c01q_powMod_lt {q : Nat} (hq : 0 < q) (x e : Nat) : Spec.powMod x e q < q := by
  unfold Spec.powMod powModNat
  exact c01q_powGo_lt hq _ _ _ _ (Nat.mod_lt _ hq)

/-- the root found by the driver's deterministic search is reduced modulo q -/
theorem c01q_root_lt {n q g : Nat} (h : Spec.somePrimitiveRoot n q = some g) : 2 ≤ q ∧ g < q ∧ (q - 1) % (2*n) = 0 := by
  unfold Spec.somePrimitiveRoot at h
  split at h
  · cases h
  rename_i hc
  have hq2 : 2 ≤ q := by omega
  refine ⟨hq2, ?_, by omega⟩
  obtain ⟨c, _, hc2⟩ := List.exists_of_findSome?_eq_some h
  dsimp only at hc2
  split at hc2
  · injection hc2 with hc2
    rw [← hc2]
    exact c01q_powMod_lt (by omega) _ _
  · cases hc2

theorem c01q_mkTables_inv {k q : Nat} {T : NTTTables} (h : Drv.C09.mkTables k q = .ok T) :
    ∃ m g, Modulus.mk? q = .ok m ∧ 2 ≤ q ∧ g < q ∧ (q - 1) % (2 * 2^k) = 0 ∧
      NTTTables.new k m (Spec.isPrimeMR q) g = .ok T := by
  unfold Drv.C09.mkTables at h
  obtain ⟨m, hm, h1⟩ := c01p_bind_ok h
  split at h1
  · cases h1
  · rename_i g hg
    obtain ⟨h2, h3, h4⟩ := c01q_root_lt hg
    exact ⟨m, g, hm, h2, h3, h4, h1⟩

theorem c01q_getPrimesGo (factor lower : Nat) (f v c : Nat) (acc : List Nat) (ha : ∀ x ∈ acc, Spec.isPrimeMR x = true) :
    ∀ x ∈ Spec.getPrimes.go factor lower f v c acc, Spec.isPrimeMR x = true := by
  induction f generalizing v c acc with
  | zero => unfold Spec.getPrimes.go; simpa using ha
  | succ f ih =>
    unfold Spec.getPrimes.go
    split
    · simpa using ha
    · split
      · rename_i hp
        apply ih
        intro x hx
        rcases List.mem_cons.mp hx with rfl | hx
        · exact hp
        · exact ha x hx
      · exact ih _ _ _ ha

theorem c01q_getPrimes_ne_zero {factor bits count x : Nat} (hx : x ∈ Spec.getPrimes factor bits count) : x ≠ 0 := by
  have h := c01q_getPrimesGo factor (2^(bits-1)) 200000 ((2 ^ bits - 1) / factor * factor + 1) count [] (by simp) x hx
  rintro rfl
  revert h
  decide

theorem c01q_forall2_right {α β : Type} {R : α → β → Prop} {as : List α} {bs : List β} (h : List.Forall₂ R as bs)
    {b : β} (hb : b ∈ bs) : ∃ a ∈ as, R a b := by
  induction h with
  | nil => cases hb
  | cons hab _ ih =>
    rcases List.mem_cons.mp hb with rfl | hb
    · exact ⟨_, by simp, hab⟩
    · obtain ⟨a, ha, hr⟩ := ih hb
      exact ⟨a, by simp [ha], hr⟩

theorem c01q_pow2_log {n : Nat} (h : isPow2 n = true) : n = 2^(Nat.log2 n) := by
  unfold isPow2 at h
  have h' : n ≠ 0 ∧ n &&& (n - 1) = 0 := by simpa using h
  obtain ⟨k, hk⟩ := Nat.ne_zero_and_sub_one_eq_zero_iff_isPowerOfTwo.mp h'
  rw [hk, Nat.log2_two_pow]

theorem c01q_log_le {n : Nat} (h : n = 2^(Nat.log2 n)) (hn : n ≤ 131072) : Nat.log2 n ≤ 60 := by
  by_contra hc
  have : 2^61 ≤ 2^(Nat.log2 n) := Nat.pow_le_pow_right (by norm_num) (by omega)
  have h2 : (2:Nat)^61 = 2305843009213693952 := by norm_num
  omega

/-- inversion of the driver's `mkLevel` -/
theorem c01q_mkLevel_inv {scheme : Scheme} {n : Nat} {qs : List Nat} {t : Nat} {l : Level}
    (h : Drv.Sch.mkLevel scheme n qs t = .ok l) :
    ∃ ms tm tbl q aux tool,
      qs.mapM Modulus.mk? = .ok ms ∧ Modulus.mk? t = .ok tm ∧ qs.mapM (fun q => Drv.C09.mkTables (Nat.log2 n) q) = .ok tbl ∧
      RNSBase.new ms = .ok q ∧ (Spec.getPrimes (2*n) 61 (q.size + 4)).mapM Modulus.mk? = .ok aux ∧
      RNSTool.new n q tm aux = .ok tool ∧ l = ⟨scheme, n, Nat.log2 n, ms.toArray, tm, tbl.toArray, tool⟩ := by
  unfold Drv.Sch.mkLevel at h
  dsimp only at h
  obtain ⟨ms, hms, h1⟩ := c01p_bind_ok h; clear h
  obtain ⟨tm, htm, h⟩ := c01p_bind_ok h1; clear h1
  obtain ⟨tb, htb, h1⟩ := c01p_bind_ok h; clear h
  obtain ⟨tool, htool, h⟩ := c01p_bind_ok h1; clear h1
  unfold Drv.C10.mkTablesAll at htb
  obtain ⟨tbl, htbl, h2⟩ := c01p_bind_ok htb
  unfold Drv.C10.mkTool Drv.C10.mkBase at htool
  obtain ⟨q, hq, h3⟩ := c01p_bind_ok htool
  obtain ⟨ms', hms', hq'⟩ := c01p_bind_ok hq
  obtain ⟨tm', htm', h4⟩ := c01p_bind_ok h3
  obtain ⟨aux, haux, h5⟩ := c01p_bind_ok h4
  unfold Drv.C10.mkMods at hms hms'
  unfold Drv.C10.auxPrimes Drv.C10.mkMods at haux
  rw [hms] at hms'
  injection hms' with hms'
  subst hms'
  rw [htm] at htm'
  injection htm' with htm'
  subst htm'
  injection h2 with h2
  injection h with h
  subst h2
  exact ⟨ms, tm, tbl, q, aux, tool, hms, htm, htbl, hq', haux, h5, h.symm⟩

theorem c01q_forall2_left {α β : Type} {R : α → β → Prop} {as : List α} {bs : List β} (h : List.Forall₂ R as bs)
    {a : α} (ha : a ∈ as) : ∃ b ∈ bs, R a b := by
  induction h with
  | nil => cases ha
  | cons hab _ ih =>
    rcases List.mem_cons.mp ha with rfl | ha
    · exact ⟨_, by simp, hab⟩
    · obtain ⟨b, hb, hr⟩ := ih ha
      exact ⟨b, by simp [hb], hr⟩

theorem c01q_forall2_map {α β : Type} {R : α → β → Prop} {as : List α} {bs : List β} (h : List.Forall₂ R as bs)
    (f : β → α) (hf : ∀ a b, R a b → f b = a) : bs.map f = as := by
  induction h with
  | nil => rfl
  | cons hab _ ih => rw [List.map_cons, ih, hf _ _ hab]

theorem c01q_mk_value {v : Nat} {m : Modulus} (h : Modulus.mk? v = .ok m) : m.value = v := by
  by_cases hv : v = 0
  · subst hv
    unfold Modulus.mk? at h
    rw [if_pos rfl] at h
    injection h with h
    rw [← h]
  · exact (Modulus.mk?_wf h hv).2

/-- Q4 core: whatever `mkLevel` returns was built by the model's constructors, and its fields are the driver's inputs -/
theorem c01q_mkLevel_built {scheme : Scheme} {n : Nat} {qs : List Nat} {t : Nat} {l : Level}
    (h : Drv.Sch.mkLevel scheme n qs t = .ok l) :
    c01q_Built l ∧ l.scheme = scheme ∧ l.n = n ∧ l.k = Nat.log2 n ∧ c01p_qvals l = qs ∧ l.t.value = t ∧ (t ≠ 0 → l.t.WF) := by
  obtain ⟨ms, tm, tbl, q, aux, tool, hms, htm, htbl, hq, haux, hnew, rfl⟩ := c01q_mkLevel_inv h
  have hF1 := RNSH.mapM_ok_inv _ _ _ hms
  have hF2 := RNSH.mapM_ok_inv _ _ _ htbl
  have hF3 := RNSH.mapM_ok_inv _ _ _ haux
  obtain ⟨_, _, _, hp2, _, hn131, _⟩ := c01q_new_inv hnew
  have hnpow := c01q_pow2_log hp2
  have hq2 : ∀ v ∈ qs, 2 ≤ v := by
    intro v hv
    obtain ⟨T, _, hT⟩ := c01q_forall2_left hF2 hv
    obtain ⟨_, _, _, h2, _⟩ := c01q_mkTables_inv hT
    exact h2
  have hmwf : ∀ m ∈ ms, m.WF := by
    intro m hm
    obtain ⟨v, hv, hvm⟩ := c01q_forall2_right hF1 hm
    have := hq2 v hv
    exact (Modulus.mk?_wf hvm (by omega)).1
  have hauxwf : ∀ m ∈ aux, m.WF := by
    intro m hm
    obtain ⟨v, hv, hvm⟩ := c01q_forall2_right hF3 hm
    exact (Modulus.mk?_wf hvm (c01q_getPrimes_ne_zero hv)).1
  have hl1 := hF1.length_eq
  have hl2 := hF2.length_eq
  refine ⟨⟨hnpow, c01q_log_le hnpow hn131, ?_, hmwf, ?_, ⟨q, aux, hauxwf, hq, hnew⟩⟩, rfl, rfl, rfl, ?_, c01q_mk_value htm, ?_⟩
  · show tbl.toArray.size = ms.toArray.size
    simp only [List.size_toArray]
    omega
  · intro i hi
    have hi1 : i < ms.length := by simpa [Level.size] using hi
    have hi0 : i < qs.length := by omega
    have hi2 : i < tbl.length := by omega
    have e1 : (⟨scheme, n, Nat.log2 n, ms.toArray, tm, tbl.toArray, tool⟩ : Level).q i = ms.get ⟨i, hi1⟩ := by
      simp [Level.q, Array.getD, hi1]
    have e2 : (⟨scheme, n, Nat.log2 n, ms.toArray, tm, tbl.toArray, tool⟩ : Level).tbl i = tbl.get ⟨i, hi2⟩ := by
      simp [Level.tbl, Array.getD, hi2]
    rw [e1, e2]
    have s1 := List.Forall₂.get hF1 hi0 hi1
    have s2 := List.Forall₂.get hF2 hi0 hi2
    obtain ⟨m, g, hm, _, hg, _, hT⟩ := c01q_mkTables_inv s2
    rw [s1] at hm
    injection hm with hm
    subst hm
    have hw := hmwf _ (List.get_mem ms ⟨i, hi1⟩)
    have hv := c01q_mk_value s1
    have := hw.lt
    exact ⟨_, g, by omega, hT⟩
  · show (ms.toArray.toList.map (·.value)) = qs
    exact c01q_forall2_map hF1 _ (fun a b hab => c01q_mk_value hab)
  · intro ht0
    exact (Modulus.mk?_wf htm ht0).1

/-! ## Property theorems -/

/-- Q1 (BFV, ANY size ≥ 2, coefficient form): the model's `bfvDecrypt` equals the exact-integer specification
    `trim (bfvDecode t Q (phase …))` under the BEHZ γ-condition on the exact phase; same hypotheses as
    `bfvDecrypt_size2_eq_spec` -/
theorem bfvDecrypt_eq_spec {l : Level} (hl : l.WF) (hd : DecOK l) {sk : Array Int} (hsk : sk.size = l.n)
    {polys : Array RnsPoly} (h2 : 2 ≤ polys.size) (hc : ∀ k, k < polys.size → RnsCanon l (polys.getD k #[])) (cf : Nat)
    (hnoise : BehzDecryptOK l (Spec.phase (c01p_qvals l) l.n sk polys.toList)) :
    bfvDecrypt l sk ⟨polys, false, cf⟩ =
      .ok (Spec.trim (Spec.bfvDecode l.t.value (Spec.prodL (c01p_qvals l)) (Spec.phase (c01p_qvals l) l.n sk polys.toList))) := by
  obtain ⟨ph, hdot, hcan, hres⟩ := c01q_hres_coeff hl hsk h2 hc cf
  exact bfvDecrypt_eq_spec_of_phase hd (ct := ⟨polys, false, cf⟩) rfl (c01q_n_pos hl) (c01q_polys_ne h2)
    (fun p hp => (c01q_polys_mem hc p hp).1) hdot hcan hres hnoise

/-- Q1 (BGV, ANY size ≥ 2, NTT form, correction factor cf < 2^63 coprime to t): the model's `bgvDecrypt` equals the
    exact-integer specification on the coefficient forms of the input polynomials; ties x̃ = Q/2 excluded -/
theorem bgvDecrypt_eq_spec {l : Level} (hl : l.WF) (hd : DecOK l) {sk : Array Int} (hsk : sk.size = l.n)
    {polys : Array RnsPoly} (h2 : 2 ≤ polys.size) (hc : ∀ k, k < polys.size → RnsCanon l (polys.getD k #[]))
    {cf : Nat} (hcf : cf < 2^63) (hcop : Nat.Coprime cf l.t.value)
    (htie : BgvNoTie l (Spec.phase (c01p_qvals l) l.n sk (polys.toList.map (rnsIntt l)))) :
    bgvDecrypt l sk ⟨polys, true, cf⟩ =
      .ok (Spec.trim (Spec.bgvDecode l.t.value cf (Spec.phase (c01p_qvals l) l.n sk (polys.toList.map (rnsIntt l))))) := by
  obtain ⟨ph, hdot, _, hci, hres⟩ := c01q_hres_ntt hl hsk h2 hc cf
  exact bgvDecrypt_eq_spec_of_phase hd (ct := ⟨polys, true, cf⟩) rfl (c01q_n_pos hl) (c01q_polys_ne h2) hcf hcop hdot hci hres htie

/-- BGV decryption (any size ≥ 2, NTT form) refuses a correction factor ≠ 1 that is not invertible modulo t -/
theorem bgvDecrypt_refuses_cf {l : Level} (hl : l.WF) (hd : DecOK l) {sk : Array Int} (hsk : sk.size = l.n)
    {polys : Array RnsPoly} (h2 : 2 ≤ polys.size) (hc : ∀ k, k < polys.size → RnsCanon l (polys.getD k #[]))
    {cf : Nat} (hcf : cf < 2^63) (hcf1 : cf ≠ 1) (hcop : ¬ Nat.Coprime cf l.t.value)
    (htie : BgvNoTie l (Spec.phase (c01p_qvals l) l.n sk (polys.toList.map (rnsIntt l)))) :
    bgvDecrypt l sk ⟨polys, true, cf⟩ = .error .refused := by
  obtain ⟨ph, hdot, _, hci, hres⟩ := c01q_hres_ntt hl hsk h2 hc cf
  obtain ⟨-, X, hX⟩ := c01p_phase_general_choice hd (sk := sk) (polys := polys.toList.map (rnsIntt l))
    (by simpa using c01q_polys_ne h2)
    (fun p hp => by obtain ⟨p', -, rfl⟩ := List.mem_map.mp hp; exact c01p_rnsIntt_size l p')
  have hQ := c01p_prodL_qvals hd
  have htw : l.t.WF := by rw [← hd.t_eq]; exact hd.tool.twf
  obtain ⟨d, hdok, -, -⟩ := c01p_decryptModT_of_crt hd hci X
    (fun j hj => ⟨(hX j hj).1, fun i hi => by
      obtain ⟨a, a1, a2⟩ := (hX j hj).2.2 i hi
      obtain ⟨a', b1, b2⟩ := hres i hi
      rw [a1] at b1
      injection b1 with b1
      rw [a2, b2 j hj, b1]⟩)
    (fun j hj => by
      have := htie j hj
      rw [(hX j hj).2.1, hQ] at this
      exact c01p_tie_of_centred (hX j hj).1 this)
  unfold bgvDecrypt
  rw [if_neg (by simp), hdot, ok_bind, hdok, ok_bind]
  dsimp only
  rw [if_pos hcf1, (tryInvert_spec_partial htw.two_le htw.lt (by omega : cf < 2^64) hcf).2 (Or.inr hcop), ok_bind]
  rfl

/-- Q2 (CKKS, ANY size ≥ 2, NTT form): the model's `ckksDecrypt` returns exactly the NTT form of the exact phase
    `Spec.phase` (of the coefficient forms of the input) reduced modulo every q_i — the expression the driver's oracle evaluates.
    Needs no plain-modulus constants: only `Level.WF` and `c07s_LevelQ`. -/
theorem ckksDecrypt_eq_spec {l : Level} (hl : l.WF) (hq : c07s_LevelQ l) {sk : Array Int} (hsk : sk.size = l.n)
    {polys : Array RnsPoly} (h2 : 2 ≤ polys.size) (hc : ∀ k, k < polys.size → RnsCanon l (polys.getD k #[])) (cf : Nat) :
    ckksDecrypt l sk ⟨polys, true, cf⟩ = .ok (c01q_ckksSpec l sk polys.toList) := by
  unfold ckksDecrypt
  rw [if_neg (by simp)]
  exact (c01q_ckks_value hl hq hsk h2 hc cf).1

/-- Q2, component form: the result is canonical, and the inverse transform of component i is the exact phase modulo q_i;
    the exact phase is the centred lift (all coefficients in (-Q/2, Q/2]) -/
theorem ckksDecrypt_intt_eq_phase {l : Level} (hl : l.WF) (hq : c07s_LevelQ l) {sk : Array Int} (hsk : sk.size = l.n)
    {polys : Array RnsPoly} (h2 : 2 ≤ polys.size) (hc : ∀ k, k < polys.size → RnsCanon l (polys.getD k #[])) (cf : Nat) :
    ∃ ph, ckksDecrypt l sk ⟨polys, true, cf⟩ = .ok ph ∧ RnsCanon l ph ∧
      (∀ i, i < l.size → ∀ j, j < l.n →
        (intt (l.tbl i) (ph.getD i #[])).getD j 0 =
          Spec.imod ((Spec.phase (c01p_qvals l) l.n sk (polys.toList.map (rnsIntt l))).getD j 0) (l.q i).value) ∧
      (∀ j, j < l.n →
        - (Spec.prodL (c01p_qvals l) : Int) < 2 * (Spec.phase (c01p_qvals l) l.n sk (polys.toList.map (rnsIntt l))).getD j 0 ∧
        2 * (Spec.phase (c01p_qvals l) l.n sk (polys.toList.map (rnsIntt l))).getD j 0 ≤ (Spec.prodL (c01p_qvals l) : Int)) := by
  obtain ⟨ph, hdot, hcan, hv⟩ := c01q_ckks_comp hl hq hsk h2 hc cf
  have hne : polys.toList.map (rnsIntt l) ≠ [] := by simpa using c01q_polys_ne h2
  have hsz : ∀ p ∈ polys.toList.map (rnsIntt l), p.size = l.size := fun p hp => by
    obtain ⟨p', -, rfl⟩ := List.mem_map.mp hp; exact c01p_rnsIntt_size l p'
  refine ⟨ph, ?_, hcan, fun i hi j hj => ?_, fun j hj => ?_⟩
  · unfold ckksDecrypt
    rw [if_neg (by simp)]
    exact hdot
  · rw [hv i hi, c07s_map_getD _ _ (0 : Int) (0 : Nat) (by rw [(c01q_phase_general hq (sk := sk) hne hsz hj).1]; exact hj)]
  · rw [c01q_qvals_eq hq, c01p_prodL_bvals hq.bwf, ← c01q_qvals_eq hq]
    exact c01q_phase_centred hq hne hsz hj

/-- CKKS decryption refuses coefficient-form ciphertexts -/
theorem ckksDecrypt_refuses_coeff (l : Level) (sk : Array Int) (ct : Ct) (h : ct.ntt = false) :
    ckksDecrypt l sk ct = .error .refused := by
  unfold ckksDecrypt
  rw [if_pos (by rw [h]; rfl)]

/-- CKKS decryption refuses ciphertexts with fewer than two polynomials -/
theorem ckksDecrypt_refuses_small (l : Level) (sk : Array Int) (ct : Ct) (h : ct.polys.size < 2) :
    ckksDecrypt l sk ct = .error .refused := by
  unfold ckksDecrypt
  split
  · rfl
  · unfold dotProductCtSk
    simp only [bind, Except.bind]
    rw [if_pos h]


/-! ### Q3: the bundles from the constructors (`c01q_toolOK_of_new`, `c01q_bgvOK_of_new`, `c01q_keyLevelWF_of_new`, `c01q_built_all`
    above); re-exports -/

/-- `c07s_LevelQ` from `RNSBase.new` (re-export of C07S) -/
theorem c01q_levelQ_of_new {l : Level} (hl : l.WF) (h64 : l.qs.size ≤ 64) (h : RNSBase.new l.qs.toList = .ok l.tool.baseQ) :
    c07s_LevelQ l := c07s_levelQ_of_new hl h64 h

/-- Q3, all bundles at once, from `RNSBase.new`, `RNSTool.new`, `NTTTables.new` (bundle `c01q_Built` = literally these calls) -/
theorem level_bundles_of_constructors {l : Level} (h : c01q_Built l) :
    l.WF ∧ c07s_LevelQ l ∧ c05u_ToolOK l ∧ (l.t.WF → DecOK l ∧ c05u_BgvOK l) := c01q_built_all h

/-! ### Q4: the driver's `mkLevel` -/

/-- Q4: every level returned by the driver's `Drv.Sch.mkLevel` satisfies all hypothesis bundles of the end-to-end theorems —
    with NO hypothesis on the inputs (everything needed is checked by the constructors the driver calls) — and its fields are
    the driver's inputs.  The plain-modulus bundles (`DecOK`, `c05u_BgvOK`) need t ≠ 0 (for t = 0, the CKKS case, the tool has
    no such constants: see `mkLevel_t0`). -/
theorem mkLevel_ok {scheme : Scheme} {n : Nat} {qs : List Nat} {t : Nat} {l : Level}
    (h : Drv.Sch.mkLevel scheme n qs t = .ok l) :
    l.WF ∧ c07s_LevelQ l ∧ c05u_ToolOK l ∧ (t ≠ 0 → DecOK l ∧ c05u_BgvOK l) ∧
    l.scheme = scheme ∧ l.n = n ∧ l.k = Nat.log2 n ∧ c01p_qvals l = qs ∧ l.t.value = t := by
  obtain ⟨hb, f1, f2, f3, f4, f5, f6⟩ := c01q_mkLevel_built h
  obtain ⟨a1, a2, a3, a4⟩ := c01q_built_all hb
  exact ⟨a1, a2, a3, fun ht => a4 (f6 ht), f1, f2, f3, f4, f5⟩

/-- with t = 0 the tool carries no plain-modulus constants, and BFV decryption at such a level refuses -/
theorem mkLevel_t0 {scheme : Scheme} {n : Nat} {qs : List Nat} {l : Level}
    (h : Drv.Sch.mkLevel scheme n qs 0 = .ok l) : l.tool.baseTGamma = none ∧ ¬ DecOK l := by
  obtain ⟨ms, tm, tbl, q, aux, tool, _, htm, _, _, _, hnew, rfl⟩ := c01q_mkLevel_inv h
  have hv := c01q_mk_value htm
  obtain ⟨_, _, _, _, _, _, _, _, _, _, _, _, _, hnone⟩ := c01q_new_inv hnew
  refine ⟨hnone hv, fun hd => ?_⟩
  obtain ⟨btg, _, _, hs, _⟩ := hd.tool.tg
  rw [hnone hv] at hs
  cases hs

/-- necessary conditions on the inputs (contrapositive = refusals of `mkLevel`): degree a power of two in [2, 2^17],
    between 1 and 64 moduli, each in [2, 2^61), ≡ 1 mod 2n, accepted by the Miller–Rabin test -/
theorem mkLevel_ok_inputs {scheme : Scheme} {n : Nat} {qs : List Nat} {t : Nat} {l : Level}
    (h : Drv.Sch.mkLevel scheme n qs t = .ok l) :
    isPow2 n = true ∧ 2 ≤ n ∧ n ≤ 131072 ∧ 1 ≤ qs.length ∧ qs.length ≤ 64 ∧ t < 2^61 ∧ t ≠ 1 ∧
    ∀ v ∈ qs, 2 ≤ v ∧ v < 2^61 ∧ (v - 1) % (2*n) = 0 ∧ Spec.isPrimeMR v = true := by
  obtain ⟨ms, tm, tbl, q, aux, tool, hms, htm, htbl, hq, _, hnew, rfl⟩ := c01q_mkLevel_inv h
  obtain ⟨_, h1, h64, hp2, hn2, hn131, _⟩ := c01q_new_inv hnew
  have hF1 := RNSH.mapM_ok_inv _ _ _ hms
  have hF2 := RNSH.mapM_ok_inv _ _ _ htbl
  have hb0 : q.base = ms.toArray := c01q_base_of_new hq
  have hsz : q.size = ms.length := by unfold RNSBase.size; rw [hb0]; simp
  have hl := hF1.length_eq
  have hnpow := c01q_pow2_log hp2
  have ht : t < 2^61 ∧ t ≠ 1 := by
    by_cases ht0 : t = 0
    · subst ht0; exact ⟨by norm_num, by omega⟩
    · have hw := Modulus.mk?_wf htm ht0
      have := hw.1.two_le; have := hw.1.lt
      rw [hw.2] at *
      exact ⟨by omega, by omega⟩
  refine ⟨hp2, hn2, hn131, by omega, by omega, ht.1, ht.2, fun v hv => ?_⟩
  obtain ⟨T, _, hT⟩ := c01q_forall2_left hF2 hv
  obtain ⟨m, g, hm, h2, hg, hdiv, hnewT⟩ := c01q_mkTables_inv hT
  have hw := Modulus.mk?_wf hm (by omega)
  have hlt := hw.1.lt
  rw [hw.2] at hlt
  obtain ⟨_, _, _, hpr⟩ := NTTTables.new_wf_u64 hw.1 (c01q_log_le hnpow hn131) (by omega : g < 2^64) hnewT
  rw [← hnpow] at hdiv
  exact ⟨h2, hlt, hdiv, hpr⟩

theorem c01q_coeffPolys_false (l : Level) (polys : Array RnsPoly) (cf : Nat) :
    Drv.Sch.coeffPolys l ⟨polys, false, cf⟩ = polys.toList := by
  unfold Drv.Sch.coeffPolys
  simp

theorem c01q_coeffPolys_true (l : Level) (polys : Array RnsPoly) (cf : Nat) :
    Drv.Sch.coeffPolys l ⟨polys, true, cf⟩ = polys.toList.map (rnsIntt l) := by
  unfold Drv.Sch.coeffPolys
  simp

/-- END TO END on the driver's objects (BFV): for the level the driver builds, the model's decryption equals the expression the
    driver's oracle `exactDec` evaluates (`trim (bfvDecode t (prodL qs) (exactPhase …))`), for every size ≥ 2, under the BEHZ
    γ-condition on the exact phase -/
theorem mkLevel_bfvDecrypt_eq_oracle {scheme : Scheme} {n : Nat} {qs : List Nat} {t : Nat} {l : Level}
    (h : Drv.Sch.mkLevel scheme n qs t = .ok l) (ht : t ≠ 0) {sk : Array Int} (hsk : sk.size = n)
    {polys : Array RnsPoly} (h2 : 2 ≤ polys.size) (hc : ∀ k, k < polys.size → RnsCanon l (polys.getD k #[])) (cf : Nat)
    (hnoise : BehzDecryptOK l (Drv.Sch.exactPhase l qs sk ⟨polys, false, cf⟩)) :
    bfvDecrypt l sk ⟨polys, false, cf⟩ =
      .ok (Spec.trim (Spec.bfvDecode t (Spec.prodL qs) (Drv.Sch.exactPhase l qs sk ⟨polys, false, cf⟩))) := by
  obtain ⟨hl, _, _, hd, _, f2, _, f4, f5⟩ := mkLevel_ok h
  unfold Drv.Sch.exactPhase at hnoise ⊢
  rw [c01q_coeffPolys_false, ← f4] at hnoise ⊢
  rw [← f5]
  exact bfvDecrypt_eq_spec hl (hd ht).1 (by rw [f2]; exact hsk) h2 hc cf hnoise

/-- END TO END on the driver's objects (BGV) -/
theorem mkLevel_bgvDecrypt_eq_oracle {scheme : Scheme} {n : Nat} {qs : List Nat} {t : Nat} {l : Level}
    (h : Drv.Sch.mkLevel scheme n qs t = .ok l) (ht : t ≠ 0) {sk : Array Int} (hsk : sk.size = n)
    {polys : Array RnsPoly} (h2 : 2 ≤ polys.size) (hc : ∀ k, k < polys.size → RnsCanon l (polys.getD k #[]))
    {cf : Nat} (hcf : cf < 2^63) (hcop : Nat.Coprime cf t)
    (htie : ∀ j, j < n → 2 * (Drv.Sch.exactPhase l qs sk ⟨polys, true, cf⟩).getD j 0 ≠ (Spec.prodL qs : Int)) :
    bgvDecrypt l sk ⟨polys, true, cf⟩ =
      .ok (Spec.trim (Spec.bgvDecode t cf (Drv.Sch.exactPhase l qs sk ⟨polys, true, cf⟩))) := by
  obtain ⟨hl, _, _, hd, _, f2, _, f4, f5⟩ := mkLevel_ok h
  unfold Drv.Sch.exactPhase at htie ⊢
  rw [c01q_coeffPolys_true, ← f4] at htie ⊢
  rw [← f5] at hcop ⊢
  refine bgvDecrypt_eq_spec hl (hd ht).1 (by rw [f2]; exact hsk) h2 hc hcf hcop ?_
  intro j hj
  exact htie j (by rw [← f2]; exact hj)

/-- END TO END on the driver's objects (CKKS, any t): the model returns exactly the oracle's value -/
theorem mkLevel_ckksDecrypt_eq_oracle {scheme : Scheme} {n : Nat} {qs : List Nat} {t : Nat} {l : Level}
    (h : Drv.Sch.mkLevel scheme n qs t = .ok l) {sk : Array Int} (hsk : sk.size = n)
    {polys : Array RnsPoly} (h2 : 2 ≤ polys.size) (hc : ∀ k, k < polys.size → RnsCanon l (polys.getD k #[])) (cf : Nat) :
    ckksDecrypt l sk ⟨polys, true, cf⟩ =
      .ok (Array.ofFn (n := l.size) fun i =>
        ntt (l.tbl i.val) ((Drv.Sch.exactPhase l qs sk ⟨polys, true, cf⟩).map fun x => Spec.imod x (l.q i.val).value)) := by
  obtain ⟨hl, hq, _, _, _, f2, _, f4, _⟩ := mkLevel_ok h
  unfold Drv.Sch.exactPhase
  rw [c01q_coeffPolys_true, ← f4]
  exact ckksDecrypt_eq_spec hl hq (by rw [f2]; exact hsk) h2 hc cf

/-! ### non-vacuity: the driver's constructor succeeds on concrete inputs (so `c01q_Built` and all bundles are inhabited) -/

theorem c01q_mkLevel_ex : ∃ l, Drv.Sch.mkLevel .bfv 4 [97, 113] 17 = .ok l := by
  have h : (Drv.Sch.mkLevel .bfv 4 [97, 113] 17).toOption.isSome = true := by decide +kernel
  cases hl : Drv.Sch.mkLevel .bfv 4 [97, 113] 17 with
  | error e => rw [hl] at h; cases h
  | ok l => exact ⟨l, rfl⟩

theorem c01q_mkLevel_ex0 : ∃ l, Drv.Sch.mkLevel .ckks 4 [97, 113] 0 = .ok l := by
  have h : (Drv.Sch.mkLevel .ckks 4 [97, 113] 0).toOption.isSome = true := by decide +kernel
  cases hl : Drv.Sch.mkLevel .ckks 4 [97, 113] 0 with
  | error e => rw [hl] at h; cases h
  | ok l => exact ⟨l, rfl⟩

theorem c01q_built_satisfiable : ∃ l, c01q_Built l ∧ l.t.WF ∧ c01p_qvals l = [97, 113] ∧ l.n = 4 := by
  obtain ⟨l, hl⟩ := c01q_mkLevel_ex
  obtain ⟨hb, _, f2, _, f4, _, f6⟩ := c01q_mkLevel_built hl
  exact ⟨l, hb, f6 (by decide), f4, f2⟩

/-! ### a complete concrete instance (size 3) on the level the driver builds for N = 4, q = {97, 113}, t = 17 -/

def c01q_exL : Level := (Drv.Sch.mkLevel .bfv 4 [97, 113] 17).toOption.getD default

theorem c01q_exL_ok : Drv.Sch.mkLevel .bfv 4 [97, 113] 17 = .ok c01q_exL := by
  have h : (Drv.Sch.mkLevel .bfv 4 [97, 113] 17).toOption.isSome = true := by decide +kernel
  unfold c01q_exL
  cases hl : Drv.Sch.mkLevel .bfv 4 [97, 113] 17 with
  | error e => rw [hl] at h; cases h
  | ok l => rfl

def c01q_exSk : Array Int := #[1, 0, -1, 1]
def c01q_exPolys : Array RnsPoly :=
  #[#[#[5, 96, 3, 0], #[112, 7, 0, 1]], #[#[1, 2, 3, 4], #[4, 3, 2, 1]], #[#[0, 1, 0, 96], #[1, 0, 112, 0]]]

@[instance_reducible] def c01q_decRnsCanon (l : Level) (p : RnsPoly) : Decidable (RnsCanon l p) :=
  inferInstanceAs (Decidable (p.size = l.size ∧ ∀ i, i < l.size → (p.getD i #[]).size = l.n ∧
    ∀ j, j < l.n → (p.getD i #[]).getD j 0 < (l.q i).value))
attribute [local instance] c01q_decRnsCanon

theorem c01q_ex_canon : ∀ k, k < c01q_exPolys.size → RnsCanon c01q_exL (c01q_exPolys.getD k #[]) := by decide +kernel

theorem c01q_ex_behz :
    BehzDecryptOK c01q_exL (Drv.Sch.exactPhase c01q_exL [97, 113] c01q_exSk ⟨c01q_exPolys, false, 1⟩) := by
  unfold BehzDecryptOK
  decide +kernel

/-- all hypotheses of `mkLevel_bfvDecrypt_eq_oracle` hold simultaneously for a size-3 ciphertext on a level the driver builds -/
theorem c01q_hypotheses_satisfiable :
    ∃ (l : Level) (sk : Array Int) (polys : Array RnsPoly), Drv.Sch.mkLevel .bfv 4 [97, 113] 17 = .ok l ∧ sk.size = 4 ∧
      polys.size = 3 ∧ (∀ k, k < polys.size → RnsCanon l (polys.getD k #[])) ∧
      BehzDecryptOK l (Drv.Sch.exactPhase l [97, 113] sk ⟨polys, false, 1⟩) :=
  ⟨c01q_exL, c01q_exSk, c01q_exPolys, c01q_exL_ok, rfl, rfl, c01q_ex_canon, c01q_ex_behz⟩

theorem c01q_ex_decrypt :
    bfvDecrypt c01q_exL c01q_exSk ⟨c01q_exPolys, false, 1⟩ =
      .ok (Spec.trim (Spec.bfvDecode 17 (Spec.prodL [97, 113])
        (Drv.Sch.exactPhase c01q_exL [97, 113] c01q_exSk ⟨c01q_exPolys, false, 1⟩))) :=
  mkLevel_bfvDecrypt_eq_oracle c01q_exL_ok (by decide) rfl (by decide) c01q_ex_canon 1 c01q_ex_behz

/-! ### the driver's two columns (`modelDec` = model, `exactDec` = oracle) agree -/

/-- BFV: whenever the oracle commits to a value (`bfvSafe`) and the BEHZ γ-condition holds, the two strings the driver
    compares are equal -/
theorem driver_dec_bfv {n : Nat} {qs : List Nat} {t : Nat} {l : Level}
    (h : Drv.Sch.mkLevel .bfv n qs t = .ok l) (ht : t ≠ 0) {sk : Array Int} (hsk : sk.size = n)
    {polys : Array RnsPoly} (h2 : 2 ≤ polys.size) (hc : ∀ k, k < polys.size → RnsCanon l (polys.getD k #[])) (cf : Nat)
    (hnoise : BehzDecryptOK l (Drv.Sch.exactPhase l qs sk ⟨polys, false, cf⟩))
    (hsafe : Drv.Sch.bfvSafe t (Spec.prodL qs) (Drv.Sch.exactPhase l qs sk ⟨polys, false, cf⟩) = true) :
    Drv.Sch.modelDec ⟨.bfv, n, qs, t, sk, ⟨polys, false, cf⟩⟩ = Drv.Sch.exactDec ⟨.bfv, n, qs, t, sk, ⟨polys, false, cf⟩⟩ := by
  unfold Drv.Sch.modelDec Drv.Sch.exactDec
  simp only [h]
  rw [mkLevel_bfvDecrypt_eq_oracle h ht hsk h2 hc cf hnoise, if_neg (by omega), if_neg (by simp), if_pos hsafe]
  rfl

/-- CKKS: the two strings are equal for every canonical NTT-form ciphertext of size ≥ 2 -/
theorem driver_dec_ckks {n : Nat} {qs : List Nat} {t : Nat} {l : Level}
    (h : Drv.Sch.mkLevel .ckks n qs t = .ok l) {sk : Array Int} (hsk : sk.size = n)
    {polys : Array RnsPoly} (h2 : 2 ≤ polys.size) (hc : ∀ k, k < polys.size → RnsCanon l (polys.getD k #[])) (cf : Nat) :
    Drv.Sch.modelDec ⟨.ckks, n, qs, t, sk, ⟨polys, true, cf⟩⟩ = Drv.Sch.exactDec ⟨.ckks, n, qs, t, sk, ⟨polys, true, cf⟩⟩ := by
  unfold Drv.Sch.modelDec Drv.Sch.exactDec
  simp only [h]
  rw [mkLevel_ckksDecrypt_eq_oracle h hsk h2 hc cf, if_neg (by omega), if_neg (by simp)]
  rfl

/-- BGV: whenever the oracle commits to a value, the two strings are equal -/
theorem driver_dec_bgv {n : Nat} {qs : List Nat} {t : Nat} {l : Level}
    (h : Drv.Sch.mkLevel .bgv n qs t = .ok l) (ht : t ≠ 0) {sk : Array Int} (hsk : sk.size = n)
    {polys : Array RnsPoly} (h2 : 2 ≤ polys.size) (hc : ∀ k, k < polys.size → RnsCanon l (polys.getD k #[]))
    {cf : Nat} (hcf : cf < 2^63) (hcop : Nat.Coprime cf t)
    (htie : ∀ j, j < n → 2 * (Drv.Sch.exactPhase l qs sk ⟨polys, true, cf⟩).getD j 0 ≠ (Spec.prodL qs : Int))
    (hsafe : (Drv.Sch.exactPhase l qs sk ⟨polys, true, cf⟩).all
      (fun x => (Spec.prodL qs - 2 * x.natAbs) * 2^40 > Spec.prodL qs) = true) :
    Drv.Sch.modelDec ⟨.bgv, n, qs, t, sk, ⟨polys, true, cf⟩⟩ = Drv.Sch.exactDec ⟨.bgv, n, qs, t, sk, ⟨polys, true, cf⟩⟩ := by
  unfold Drv.Sch.modelDec Drv.Sch.exactDec
  simp only [h]
  rw [mkLevel_bgvDecrypt_eq_oracle h ht hsk h2 hc hcf hcop htie, if_neg (by omega), if_neg (by simp), if_pos hsafe]
  rfl

/-! ### the oracle's safety test implies the BEHZ γ-condition on driver-built levels -/

theorem c01q_getPrimesGo' (P : Nat → Prop) (factor lower : Nat) (hP : ∀ v, lower < v → P v) (f v c : Nat) (acc : List Nat)
    (ha : ∀ x ∈ acc, P x) : ∀ x ∈ Spec.getPrimes.go factor lower f v c acc, P x := by
  induction f generalizing v c acc with
  | zero => unfold Spec.getPrimes.go; simpa using ha
  | succ f ih =>
    unfold Spec.getPrimes.go
    split
    · simpa using ha
    · rename_i hc
      split
      · apply ih
        intro x hx
        rcases List.mem_cons.mp hx with rfl | hx
        · exact hP _ (by omega)
        · exact ha x hx
      · exact ih _ _ _ ha

theorem c01q_getPrimes_gt {factor bits count x : Nat} (hx : x ∈ Spec.getPrimes factor bits count) : 2^(bits-1) < x :=
  c01q_getPrimesGo' (fun v => 2^(bits-1) < v) factor (2^(bits-1)) (fun _ h => h) 200000 _ count [] (by simp) x hx

/-- margin of the oracle = Q - 2|e| with e = a - Q·round(a/Q) -/
theorem c01q_margin {Q : Nat} (hQ : 0 < Q) (a : Int) :
    (Spec.roundMargin a Q : Int) = (Q : Int) - 2 * |a - (Q : Int) * Spec.roundDiv a Q| := by
  unfold Spec.roundMargin Spec.roundDiv
  have h1 := c07l_imod_cast (Q := 2 * Q) (by omega) (2 * a + Q)
  have h2 := c07l_imod_lt (Q := 2 * Q) (by omega) (2 * a + Q)
  generalize Spec.imod (2 * a + (Q : Int)) (2 * Q) = fr at h1 h2
  have h3 := Int.emod_add_mul_ediv (2 * a + (Q : Int)) (2 * (Q : Int))
  push_cast at h1
  show ((min fr (2 * Q - fr) : Nat) : Int) = _
  generalize (2 * a + (Q : Int)) / (2 * (Q : Int)) = rd at h3 ⊢
  have he : 2 * (a - (Q : Int) * rd) = (fr : Int) - Q := by rw [← h1] at h3; linarith
  rcases abs_cases (a - (Q : Int) * rd) with ⟨e1, e2⟩ | ⟨e1, e2⟩
  · rw [e1]; omega
  · rw [e1]; omega

theorem c01q_behz_of_margin {l : Level} (hg : 2^60 < l.tool.gamma.value) (hk : l.size ≤ 64)
    (hQ : 0 < Spec.prodL (c01p_qvals l)) {ph : Spec.ZPoly}
    (hm : ∀ j, j < l.n → Spec.roundMargin ((l.t.value : Int) * ph.getD j 0) (Spec.prodL (c01p_qvals l)) * 2^40 >
      2 * Spec.prodL (c01p_qvals l)) : BehzDecryptOK l ph := by
  intro j hj
  have h1 := hm j hj
  have hmar := c01q_margin hQ ((l.t.value : Int) * ph.getD j 0)
  generalize Spec.roundMargin ((l.t.value : Int) * ph.getD j 0) (Spec.prodL (c01p_qvals l)) = M at h1 hmar
  generalize |(l.t.value : Int) * ph.getD j 0 - (Spec.prodL (c01p_qvals l) : Int) *
    Spec.roundDiv ((l.t.value : Int) * ph.getD j 0) (Spec.prodL (c01p_qvals l))| = E at hmar ⊢
  generalize Spec.prodL (c01p_qvals l) = Q at *
  generalize l.tool.gamma.value = γ at *
  generalize l.size = k at *
  have h1' : 2 * (Q : Int) < (M : Int) * 2^40 := by exact_mod_cast h1
  have hγ : (2 : Int)^60 ≤ (γ : Int) := by exact_mod_cast hg.le
  have hk' : (k : Int) ≤ 64 := by exact_mod_cast hk
  have hQ0 : (0 : Int) ≤ (Q : Int) := Int.natCast_nonneg _
  have hM0 : (0 : Int) ≤ (M : Int) := Int.natCast_nonneg _
  have p1 := mul_le_mul_of_nonneg_right hγ hM0
  have p2 := mul_le_mul_of_nonneg_right hk' hQ0
  have p3 : (γ : Int) * M = γ * Q - 2 * (γ * E) := by rw [hmar]; ring
  norm_num at p1 h1'
  linarith

theorem c01q_behz_of_bfvSafe {l : Level} (hg : 2^60 < l.tool.gamma.value) (hk : l.size ≤ 64)
    (hQ : 0 < Spec.prodL (c01p_qvals l)) {ph : Spec.ZPoly} (hs : ph.size = l.n)
    (hsafe : Drv.Sch.bfvSafe l.t.value (Spec.prodL (c01p_qvals l)) ph = true) : BehzDecryptOK l ph := by
  apply c01q_behz_of_margin hg hk hQ
  intro j hj
  unfold Drv.Sch.bfvSafe at hsafe
  rw [Array.all_eq_true] at hsafe
  have hj' : j < ph.size := by rw [hs]; exact hj
  have := hsafe j hj'
  have e : ph.getD j 0 = ph[j] := by simp [Array.getD, hj']
  rw [e]
  exact of_decide_eq_true this

/-- the auxiliary prime γ of a driver-built tool is a 61-bit number -/
theorem c01q_mkLevel_gamma {scheme : Scheme} {n : Nat} {qs : List Nat} {t : Nat} {l : Level}
    (h : Drv.Sch.mkLevel scheme n qs t = .ok l) (ht : t ≠ 0) : 2^60 < l.tool.gamma.value := by
  obtain ⟨ms, tm, tbl, q, aux, tool, _, htm, _, _, haux, hnew, rfl⟩ := c01q_mkLevel_inv h
  have hv := c01q_mk_value htm
  obtain ⟨_, _, _, _, _, _, _, _, hlen, _, _, _, _, _, _, _, _, _, _, _, _, rgam, _⟩ := c01p_new_inv hnew (by rw [hv]; exact ht)
  have hF3 := RNSH.mapM_ok_inv _ _ _ haux
  have hmem : aux.getD 1 default ∈ aux := by
    have e : aux.getD 1 default = aux[1] := by
      simp [List.getD, List.getElem?_eq_getElem (by omega : 1 < aux.length)]
    rw [e]; exact List.getElem_mem _
  obtain ⟨v, hv1, hv2⟩ := c01q_forall2_right hF3 hmem
  show 2^60 < tool.gamma.value
  rw [rgam, c01q_mk_value hv2]
  exact c01q_getPrimes_gt hv1

/-- BFV, the driver's two columns: whenever the oracle commits to a value (`bfvSafe`), the model's output string equals the
    oracle's — for EVERY canonical coefficient-form ciphertext of size ≥ 2, with no further hypothesis (the oracle's safety
    margin 2^-40 implies the BEHZ γ-condition because γ > 2^60 and there are at most 64 moduli) -/
theorem driver_dec_bfv_safe {n : Nat} {qs : List Nat} {t : Nat} {l : Level}
    (h : Drv.Sch.mkLevel .bfv n qs t = .ok l) (ht : t ≠ 0) {sk : Array Int} (hsk : sk.size = n)
    {polys : Array RnsPoly} (h2 : 2 ≤ polys.size) (hc : ∀ k, k < polys.size → RnsCanon l (polys.getD k #[])) (cf : Nat)
    (hsafe : Drv.Sch.bfvSafe t (Spec.prodL qs) (Drv.Sch.exactPhase l qs sk ⟨polys, false, cf⟩) = true) :
    Drv.Sch.modelDec ⟨.bfv, n, qs, t, sk, ⟨polys, false, cf⟩⟩ = Drv.Sch.exactDec ⟨.bfv, n, qs, t, sk, ⟨polys, false, cf⟩⟩ := by
  obtain ⟨hb, _, f2, _, f4, f5, _⟩ := c01q_mkLevel_built h
  obtain ⟨hl, hq, _, hd, _⟩ := mkLevel_ok h
  refine driver_dec_bfv h ht hsk h2 hc cf ?_ hsafe
  have hn0 := c01q_n_pos hl
  have hQ : 0 < Spec.prodL (c01p_qvals l) := by rw [c01p_prodL_qvals (hd ht).1]; exact hq.bwf.prod_pos
  rw [← f4, ← f5] at hsafe
  rw [← f4]
  refine c01q_behz_of_bfvSafe (c01q_mkLevel_gamma h ht) (c01q_built_size_le hb) hQ ?_ hsafe
  unfold Drv.Sch.exactPhase
  rw [c01q_coeffPolys_false]
  exact (c01q_phase_general hq (sk := sk) (c01q_polys_ne h2) (fun p hp => (c01q_polys_mem hc p hp).1) hn0).1

/-- BGV, the driver's two columns: whenever the oracle commits to a value, the model's output string equals the oracle's
    (the oracle's test excludes ties) -/
theorem driver_dec_bgv_safe {n : Nat} {qs : List Nat} {t : Nat} {l : Level}
    (h : Drv.Sch.mkLevel .bgv n qs t = .ok l) (ht : t ≠ 0) {sk : Array Int} (hsk : sk.size = n)
    {polys : Array RnsPoly} (h2 : 2 ≤ polys.size) (hc : ∀ k, k < polys.size → RnsCanon l (polys.getD k #[]))
    {cf : Nat} (hcf : cf < 2^63) (hcop : Nat.Coprime cf t)
    (hsafe : (Drv.Sch.exactPhase l qs sk ⟨polys, true, cf⟩).all
      (fun x => (Spec.prodL qs - 2 * x.natAbs) * 2^40 > Spec.prodL qs) = true) :
    Drv.Sch.modelDec ⟨.bgv, n, qs, t, sk, ⟨polys, true, cf⟩⟩ = Drv.Sch.exactDec ⟨.bgv, n, qs, t, sk, ⟨polys, true, cf⟩⟩ := by
  obtain ⟨hl, hq, _, _, _, f2, _, f4, _⟩ := mkLevel_ok h
  refine driver_dec_bgv h ht hsk h2 hc hcf hcop ?_ hsafe
  intro j hj
  have hsz : (Drv.Sch.exactPhase l qs sk ⟨polys, true, cf⟩).size = l.n := by
    unfold Drv.Sch.exactPhase
    rw [c01q_coeffPolys_true, ← f4]
    exact (c01q_phase_general hq (sk := sk) (by simpa using c01q_polys_ne h2)
      (fun p hp => by obtain ⟨p', -, rfl⟩ := List.mem_map.mp hp; exact c01p_rnsIntt_size l p') (c01q_n_pos hl)).1
  rw [Array.all_eq_true] at hsafe
  have hj' : j < (Drv.Sch.exactPhase l qs sk ⟨polys, true, cf⟩).size := by rw [hsz, f2]; exact hj
  have h1 := of_decide_eq_true (hsafe j hj')
  have e : (Drv.Sch.exactPhase l qs sk ⟨polys, true, cf⟩).getD j 0 = (Drv.Sch.exactPhase l qs sk ⟨polys, true, cf⟩)[j] := by
    simp [Array.getD, hj']
  rw [e]
  generalize (Drv.Sch.exactPhase l qs sk ⟨polys, true, cf⟩)[j] = x at h1 ⊢
  generalize Spec.prodL qs = Q at h1 ⊢
  have h3 : 0 < Q - 2 * x.natAbs := by
    by_contra hc0
    have : Q - 2 * x.natAbs = 0 := by omega
    rw [this] at h1
    omega
  omega

end HC
