/-
  Writers that also report `ErrorKind::Interrupted`: `write_all` retries, so a serializer whose scalar writers all use
  `write_all` behaves on an interrupting stream EXACTLY as on the underlying stream (refinement: erase the interrupts), for any
  finite set of interrupted calls; in particular it is still all-or-error, and total.  Core Lean only.
-/
import Heathcliff.Proofs.Sink
namespace HC.Codec

theorem SinkI.write_cases (w : SinkI) (buf : Bytes) :
    (w.icalls ∈ w.intr ∧ w.write buf = (.error .interrupted, { w with icalls := w.icalls + 1 })) ∨
    (w.icalls ∉ w.intr ∧ ∃ n s', w.s.write buf = (.ok n, s') ∧ w.write buf = (.ok n, { w with s := s', icalls := w.icalls + 1 })) ∨
    (w.icalls ∉ w.intr ∧ ∃ e s', w.s.write buf = (.error e, s') ∧ w.write buf = (.error (.io e), { w with s := s', icalls := w.icalls + 1 })) := by
  by_cases h : w.icalls ∈ w.intr
  · left; exact ⟨h, by simp [SinkI.write, h]⟩
  · rcases hw : w.s.write buf with ⟨r, s'⟩
    cases r with
    | ok n => right; left; exact ⟨h, n, s', rfl, by simp [SinkI.write, h, hw]⟩
    | error e => right; right; exact ⟨h, e, s', rfl, by simp [SinkI.write, h, hw]⟩

theorem sinki_countP_step (l : List Nat) (c : Nat) (h : c ∈ l) :
    l.countP (fun i => decide (c + 1 ≤ i)) + 1 ≤ l.countP (fun i => decide (c ≤ i)) := by
  induction l with
  | nil => simp at h
  | cons a l ih =>
    have hmono : l.countP (fun i => decide (c + 1 ≤ i)) ≤ l.countP (fun i => decide (c ≤ i)) := by
      apply List.countP_mono_left
      intro x _ hx; simp only [decide_eq_true_eq] at hx ⊢; omega
    simp only [List.countP_cons, decide_eq_true_eq]
    rcases List.mem_cons.1 h with rfl | hm
    · simp only [Nat.le_refl, if_true]
      have : ¬ (c + 1 ≤ c) := by omega
      simp only [this, if_false]; omega
    · have := ih hm
      split <;> split <;> omega

/-- an interrupted call uses up one pending interrupt; any other call does not increase the count -/
theorem SinkI.pending_step_intr (w : SinkI) (h : w.icalls ∈ w.intr) :
    ({ w with icalls := w.icalls + 1 } : SinkI).pending + 1 ≤ w.pending := sinki_countP_step w.intr w.icalls h

theorem SinkI.pending_step_other (w : SinkI) (s' : Sink) :
    ({ w with s := s', icalls := w.icalls + 1 } : SinkI).pending ≤ w.pending := by
  unfold SinkI.pending
  apply List.countP_mono_left
  intro x _ hx; simp only [decide_eq_true_eq] at hx ⊢; omega

theorem SinkI.pending_le (w : SinkI) : w.pending ≤ w.intr.length := List.countP_le_length

/-- REFINEMENT (one `write_all`), both loops with explicit fuel: whenever each has enough fuel, the interrupting stream returns
    the result of the underlying stream, the underlying stream ends in the same state, the interrupt set is untouched -/
theorem writeAllIFuel_erase (fuel : Nat) : ∀ (fuel' : Nat) (w : SinkI) (buf : Bytes), buf.length + w.pending ≤ fuel → buf.length ≤ fuel' →
    ∃ r w', writeAllFuel fuel' w.s buf = some r ∧ writeAllIFuel fuel w buf = some (r.1, w') ∧ w'.s = r.2 ∧ w'.intr = w.intr := by
  induction fuel with
  | zero =>
    intro fuel' w buf h _
    cases buf with
    | nil => exact ⟨(.ok (), w.s), w, by simp [writeAllFuel], by simp [writeAllIFuel], rfl, rfl⟩
    | cons b bs => simp at h
  | succ f ih =>
    intro fuel' w buf h h'
    cases buf with
    | nil => exact ⟨(.ok (), w.s), w, by simp [writeAllFuel], by simp [writeAllIFuel], rfl, rfl⟩
    | cons b bs =>
      rcases SinkI.write_cases w (b :: bs) with ⟨hi, hw⟩ | ⟨hi, n, s', hs, hw⟩ | ⟨hi, e, s', hs, hw⟩
      · have hp := SinkI.pending_step_intr w hi
        obtain ⟨r, w', h0, h1, h2, h3⟩ := ih fuel' { w with icalls := w.icalls + 1 } (b :: bs)
          (by simp only [List.length_cons] at h ⊢; omega) h'
        exact ⟨r, w', h0, by simp only [writeAllIFuel, hw]; exact h1, h2, h3⟩
      · have hp := SinkI.pending_step_other w s'
        cases fuel' with
        | zero => simp at h'
        | succ f' =>
          cases n with
          | zero =>
            exact ⟨(.error .writeZero, s'), { w with s := s', icalls := w.icalls + 1 }, by simp only [writeAllFuel, hs],
              by simp only [writeAllIFuel, hw], rfl, rfl⟩
          | succ m =>
            have hm : m + 1 ≤ (b :: bs).length := by
              rcases Sink.write_cases w.s (b :: bs) with ⟨_, hx⟩ | ⟨_, hx⟩
              · rw [hs] at hx; cases hx
              · rw [hs] at hx
                have := (Prod.mk.inj hx).1
                simp only [Except.ok.injEq] at this
                rw [this]; exact Nat.min_le_right _ _
            obtain ⟨r, w', h0, h1, h2, h3⟩ := ih f' { w with s := s', icalls := w.icalls + 1 } ((b :: bs).drop (m + 1))
              (by simp only [List.length_drop, List.length_cons] at h hm ⊢; omega)
              (by simp only [List.length_drop, List.length_cons] at h' hm ⊢; omega)
            exact ⟨r, w', by simp only [writeAllFuel, hs]; exact h0, by simp only [writeAllIFuel, hw]; exact h1, h2, h3⟩
      · cases fuel' with
        | zero => simp at h'
        | succ f' =>
          exact ⟨(.error e, s'), { w with s := s', icalls := w.icalls + 1 }, by simp only [writeAllFuel, hs],
            by simp only [writeAllIFuel, hw], rfl, rfl⟩

/-- `write_all` on an interrupting stream = `write_all` on the underlying stream, for ANY finite set of interrupted calls -/
theorem writeAllI_erase (w : SinkI) (buf : Bytes) :
    (writeAllI w buf).1 = (writeAll w.s buf).1 ∧ (writeAllI w buf).2.s = (writeAll w.s buf).2 ∧ (writeAllI w buf).2.intr = w.intr := by
  obtain ⟨r, w', h0, h1, h2, h3⟩ := writeAllIFuel_erase (buf.length + w.intr.length) buf.length w buf
    (by have := SinkI.pending_le w; omega) (Nat.le_refl _)
  have e : writeAllI w buf = (r.1, w') := by simp only [writeAllI, h1, Option.getD_some]
  have e' : writeAll w.s buf = r := by simp only [writeAll, h0, Option.getD_some]
  rw [e, e']
  exact ⟨rfl, h2, h3⟩

/-- the whole serializer: when every scalar writer uses `write_all`, interrupts are invisible — same result (count or error),
    same bytes on the underlying stream -/
theorem serializeI_erase (mode : SK → WMode) (hm : ∀ k, mode k = .writeAll) :
    ∀ (cs : List Chunk) (w : SinkI),
      ((serializeI mode cs w).1 = match (serialize mode cs w.s).1 with | .ok n => .ok n | .error e => .error (.io e)) ∧
      (serializeI mode cs w).2.s = (serialize mode cs w.s).2 ∧ (serializeI mode cs w).2.intr = w.intr := by
  intro cs
  induction cs with
  | nil => intro w; simp [serializeI, serialize]
  | cons c cs ih =>
    intro w
    obtain ⟨e1, e2, e3⟩ := writeAllI_erase w c.bytes
    rcases hI : writeAllI w c.bytes with ⟨rI, wI⟩
    rcases hS : writeAll w.s c.bytes with ⟨rS, sS⟩
    rw [hI, hS] at e1 e2
    rw [hI] at e3
    simp only at e1 e2 e3
    subst e1
    cases rI with
    | error e =>
      simp [serializeI, serialize, scalarWriteI, scalarWrite, hm, hI, hS, e2, e3]
    | ok u =>
      cases u
      obtain ⟨i1, i2, i3⟩ := ih wI
      rw [e2] at i1 i2
      rcases hI2 : serializeI mode cs wI with ⟨r2, w2⟩
      rcases hS2 : serialize mode cs sS with ⟨q2, s2⟩
      rw [hI2, hS2] at i1 i2
      rw [hI2] at i3
      simp only at i1 i2 i3
      cases q2 with
      | error e => simp only at i1; subst i1; simp [serializeI, serialize, scalarWriteI, scalarWrite, hm, hI, hS, hI2, hS2, i2, i3, e3]
      | ok n => simp only at i1; subst i1; simp [serializeI, serialize, scalarWriteI, scalarWrite, hm, hI, hS, hI2, hS2, i2, i3, e3]

/-- hence all-or-error also holds on interrupting streams -/
theorem serializeI_clean (mode : SK → WMode) (hm : ∀ k, mode k = .writeAll) (cs : List Chunk) (w : SinkI) :
    (∀ n, (serializeI mode cs w).1 = .ok n → n = (flat cs).length ∧ (serializeI mode cs w).2.s.out = w.s.out ++ flat cs) ∧
    (∀ e, (serializeI mode cs w).1 = .error e → ∃ j, j ≤ (flat cs).length ∧ (serializeI mode cs w).2.s.out = w.s.out ++ (flat cs).take j) := by
  obtain ⟨h1, h2, _⟩ := serializeI_erase mode hm cs w
  have hc := serialize_clean mode hm cs w.s
  rw [h2]
  refine ⟨fun n hn => ?_, fun e he => ?_⟩
  · rw [h1] at hn
    cases hr : (serialize mode cs w.s).1 with
    | ok k => rw [hr] at hn; simp only [Except.ok.injEq] at hn; subst hn; exact hc.1 k hr
    | error e => rw [hr] at hn; cases hn
  · rw [h1] at he
    cases hr : (serialize mode cs w.s).1 with
    | ok k => rw [hr] at he; cases he
    | error e' => exact hc.2 e' hr

/-- the pinned `stream.write` form is NOT transparent: an interrupted call surfaces as an error with nothing sent -/
theorem pinned_write_interrupt_witness :
    (serializeI (fun _ => .write) (u64C.chunks 578437695752307201) ⟨⟨[8], none, 0, []⟩, [0], 0⟩).1 = .error .interrupted := by rfl

end HC.Codec
