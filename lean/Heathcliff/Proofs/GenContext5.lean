import Heathcliff.Proofs.GenContext3

/-!
  Round 7 (worker T), part 5: the word-level mirror `wordConsts` of `Model/Context.lean` (the function the correspondence DRIVER compares with the code's
  multi-word constants on every `ctx` / `word` line) equals the value-level definitions — `C13.WordConstsStatement` (until now only stated) for every plain
  modulus that is a `u64`.  Helper names `gcx_`.
-/
namespace HC
open HC.GenW HC.Ctx

theorem gcx_divideUint_ok {k Q t : Nat} {wideT : List Nat} (hk : 1 ≤ k) (hQ : Q < 2^(64*k))
    (hw : Limbs wideT) (hwl : wideT.length = k) (hwv : toNat wideT = t) (ht : 1 ≤ t) :
    divideUint (fromNat k Q) wideT k = .ok (fromNat k (Q % t), fromNat k (Q / t)) := by
  obtain ⟨r, q, hd, hrl, hql, hrL, hqL, heq, hlt⟩ :=
    divideUint_spec hk (fromNat_limbs k Q) hw (fromNat_length k Q) hwl (by rw [hwv]; omega)
  rw [gcx_toNat_fromNat_lt hQ, hwv] at heq
  rw [hwv] at hlt
  have hdm : Q / t = toNat q ∧ Q % t = toNat r :=
    (Nat.div_mod_unique (by omega : 0 < t)).mpr ⟨by rw [heq, Nat.mul_comm, Nat.add_comm], hlt⟩
  rw [hd, gcx_eq_fromNat hqL hql hdm.1.symm, gcx_eq_fromNat hrL hrl hdm.2.symm]

theorem gcx_subUint_ok {k Q t : Nat} {wideT : List Nat} (hk : 1 ≤ k) (hQ : Q < 2^(64*k))
    (hw : Limbs wideT) (hwl : wideT.length = k) (hwv : toNat wideT = t) (htQ : t ≤ Q) :
    subUint (fromNat k Q) wideT k = .ok (fromNat k (Q - t), 0) := by
  have h := gcx_sub_ok hk hQ hw hwl hwv htQ
  rwa [gx_sub_uint_eq, List.length_replicate] at h

theorem gcx_decomposeW_ok {qs : List Nat} {x : Nat} (hk : 1 ≤ qs.length) (hq : ∀ q ∈ qs, 2 ≤ q ∧ q < 2^60) (hx : x < 2^(64 * qs.length))
    (hx1 : qs.length ≤ 1 → x < prodL qs) :
    decomposeW qs (fromNat qs.length x) = .ok (qs.map (fun q => x % q)) := by
  unfold decomposeW
  by_cases h1 : qs.length > 1
  · rw [if_pos h1]
    apply mapM_ok_of_forall
    intro q hqm
    obtain ⟨h2, h60⟩ := hq q hqm
    obtain ⟨m, hm, hwf, hv⟩ := mk?_ok h2 (by omega : q < 2^61)
    have hne : fromNat qs.length x ≠ [] := by
      intro e; have := congrArg List.length e; rw [fromNat_length, List.length_nil] at this; omega
    simp only [hm, bind, Except.bind]
    rw [moduloUint_exact hwf hne (fromNat_limbs _ _), gcx_toNat_fromNat_lt hx, hv]
  · rw [if_neg h1]
    have := gcx_dec_eq (qs := qs) (x := x) hk (fun q hq' => by have := (hq q hq').2; omega) hx1
    rw [if_neg (by omega)] at this
    simp only [pure, Except.pure, this]

/-- **`WordConstsStatement` for every `u64` plain modulus**: the word-level mirror of the multi-word code paths of `validate` (`multiply_many_u64`,
    `get_significant_bit_count_uint`, `divide_uint`, `modulo_uint` decomposition, `sub_uint`, `increment_uint`, `right_shift_uint`) computes the limbs of
    `Π q_i`, its bit count, `⌊Q/t⌋ mod q_i`, `(Q mod t) mod q_i`, `Q mod t`, the limbs of `Q − t` and of `⌈Q/2⌉` -/
theorem gcx_wordConsts_ok (qs : List Nat) (t : Nat) (hk1 : 1 ≤ qs.length) (hq : ∀ q ∈ qs, 2 ≤ q ∧ q < 2^60) (ht2 : 2 ≤ t) (ht64 : t < 2^64)
    (htQ : t < prodL qs) :
    ∃ w, wordConsts qs t = .ok w ∧ w.total = fromNat qs.length (prodL qs) ∧ w.totalBits = bitCount (prodL qs) ∧
      w.quotDec = qs.map (fun q => prodL qs / t % q) ∧ w.remDec = qs.map (fun q => prodL qs % t % q) ∧
      w.qModT = prodL qs % t ∧ w.puhiSlow = fromNat qs.length (prodL qs - t) ∧
      w.uht = fromNat qs.length ((prodL qs + 1) / 2) := by
  have hne : qs ≠ [] := by intro e; rw [e] at hk1; simp at hk1
  have hlimb : Limbs qs := fun q hq' => by have := (hq q hq').2; omega
  have hQlt := gcx_prodL_lt hne hlimb
  have hQ1 := prodL_lt_B64 (fun q hq' => (hq q hq').2) hk1
  rw [B64_eq, ← Nat.pow_mul] at hQ1
  obtain ⟨r, hr, hlen, hlim, hval⟩ := multiplyManyU64_spec hne hlimb (Nat.le_refl _)
  rw [gcx_prodL_foldl] at hval
  have hr' : r = fromNat qs.length (prodL qs) := gcx_eq_fromNat hlim hlen hval
  rw [hr'] at hr
  generalize hQ : prodL qs = Q at *
  have hbits : bitCountUint (fromNat qs.length Q) = .ok (bitCount Q) := by
    unfold bitCountUint
    have : (fromNat qs.length Q).isEmpty = false := by
      cases hfn : fromNat qs.length Q with
      | nil => have := congrArg List.length hfn; rw [fromNat_length, List.length_nil] at this; omega
      | cons _ _ => rfl
    simp only [this, Bool.false_eq_true, if_false, pure, Except.pure, gcx_toNat_fromNat_lt hQlt]
  have hwide : Limbs (t :: List.replicate (qs.length - 1) 0) ∧ (t :: List.replicate (qs.length - 1) 0).length = qs.length ∧
      toNat (t :: List.replicate (qs.length - 1) 0) = t := (gcx_wide qs.length t hk1 ht64).2
  obtain ⟨hw2, hw3, hw4⟩ := hwide
  have hdiv := gcx_divideUint_ok hk1 hQlt hw2 hw3 hw4 (by omega : 1 ≤ t)
  have hsub := gcx_subUint_ok hk1 hQlt hw2 hw3 hw4 (by omega : t ≤ Q)
  have hdq : Q / t < Q := Nat.div_lt_self (by omega) (by omega)
  have hdr : Q % t < Q := Nat.lt_trans (Nat.mod_lt _ (by omega)) htQ
  have hdecq := gcx_decomposeW_ok (x := Q / t) hk1 hq (by omega) (fun _ => by rw [hQ]; exact hdq)
  have hdecr := gcx_decomposeW_ok (x := Q % t) hk1 hq (by omega) (fun _ => by rw [hQ]; exact hdr)
  obtain ⟨inc, c, hadd, hil, hiL, hc, hiv⟩ :=
    addUintU64_spec (a := fromNat qs.length Q) (w := 1) (n := qs.length) hk1 (fromNat_limbs _ _) (by norm_num) (by rw [fromNat_length])
  rw [List.take_of_length_le (by rw [fromNat_length]), gcx_toNat_fromNat_lt hQlt] at hiv
  have hi := toNat_lt hiL
  rw [hil] at hi
  have hc0 : c = 0 := by
    rcases Nat.lt_or_ge c 1 with h | h
    · omega
    · have : c = 1 := by omega
      subst this; omega
  subst hc0
  obtain ⟨s, hsh, hsl, hsL, hsv⟩ := rightShiftUint_spec (a := inc) (s := 1) (cnt := qs.length) hiL (by omega) (by omega)
  rw [List.take_of_length_le (by omega), show toNat inc = Q + 1 by omega] at hsv
  have hs' : s = fromNat qs.length ((Q + 1) / 2) := gcx_eq_fromNat hsL hsl (by rw [hsv]; simp)
  have hqm : (fromNat qs.length (Q % t)).headD 0 = Q % t :=
    (gcx_head_fromNat qs.length (Q % t) hk1 (by have := Nat.mod_lt Q (show t > 0 by omega); omega)).2
  refine ⟨⟨fromNat qs.length Q, bitCount Q, qs.map (fun q => Q / t % q), qs.map (fun q => Q % t % q), Q % t, fromNat qs.length (Q - t),
    fromNat qs.length ((Q + 1) / 2)⟩, ?_, rfl, rfl, rfl, rfl, rfl, rfl, rfl⟩
  unfold wordConsts
  simp only [hr, hbits, bind, Except.bind, if_neg (show ¬ t = 0 by omega), hdiv, hdecq, hdecr, hsub, hadd, hsh, pure, Except.pure, hqm, hs']
end HC
