/- C09 part F: the minimal primitive 2N-th root is a function of (N, q) when q is prime, whatever primitive root the
   random search handed in; correctness of `isPrimitiveRoot` / `minimalRootFrom`. -/
import Heathcliff.Proofs.NTTDefs
import Heathcliff.Proofs.C08A
import Heathcliff.Proofs.C08B
import Mathlib.RingTheory.RootsOfUnity.PrimitiveRoots
import Mathlib.FieldTheory.Finite.Basic
namespace HC

variable {m : Modulus}

/-- "primitive 2N-th root" in the sense the library tests it: g^N ≡ -1 (mod q), 0 < g < q -/
def IsPrim (n q g : Nat) : Prop := 0 < g ∧ g < q ∧ g^n % q = q - 1

/-! ### translation to `ZMod q` -/

theorem cast_pred_zmod {q : Nat} (hq : 1 ≤ q) : ((q - 1 : Nat) : ZMod q) = -1 := by
  rw [Nat.cast_sub hq, ZMod.natCast_self, zero_sub, Nat.cast_one]

theorem pow_mod_eq_pred_iff {q : Nat} (hq : 1 ≤ q) (x n : Nat) :
    x^n % q = q - 1 ↔ ((x : ZMod q))^n = -1 := by
  rw [← cast_pred_zmod hq, ← Nat.cast_pow, ZMod.natCast_eq_natCast_iff',
    Nat.mod_eq_of_lt (a := q - 1) (by omega)]

theorem isPrimitiveRoot_spec (h : m.WF) {n g : Nat} (hg : g < m.value) (hn0 : 0 < n) (hn : 2 * n < 2^64) :
    ∃ b, isPrimitiveRoot g (2*n) m = .ok b ∧ (b = true ↔ IsPrim n m.value g) := by
  have hq2 := h.two_le
  have hq : m.value < 2^64 := lt_trans h.lt (by norm_num)
  unfold isPrimitiveRoot
  by_cases hg0 : g = 0
  · subst hg0
    refine ⟨false, by simp [pure, Except.pure], ?_⟩
    simp [IsPrim]
  · rw [if_neg hg0]
    have hdiv : 2 * n / 2 = n := by omega
    rw [hdiv, exponentiateMod_exact (mulMod_exact h) h (lt_trans hg hq) (by omega)]
    simp only [bind, Except.bind, pure, Except.pure]
    refine ⟨_, rfl, ?_⟩
    have hval : (if n = 0 then 1 else if n = 1 then g else g ^ n % m.value) = g ^ n % m.value := by
      rw [if_neg (by omega)]
      split
      · rename_i h1; subst h1; rw [pow_one, Nat.mod_eq_of_lt hg]
      · rfl
    rw [hval]
    simp only [decide_eq_true_eq, IsPrim]
    constructor
    · intro hh; exact ⟨by omega, hg, hh⟩
    · intro hh; exact hh.2.2

/-- odd powers of a primitive root are primitive -/
theorem isPrim_odd_pow {n q g : Nat} (hq : 2 < q) (hn : 0 < n) (hg : IsPrim n q g) (j : Nat) :
    IsPrim n q (g^(2*j+1) % q) := by
  obtain ⟨_, _, hgn⟩ := hg
  have hq1 : 1 ≤ q := by omega
  have hpow : (g^(2*j+1) % q)^n % q = q - 1 := by
    rw [pow_mod_eq_pred_iff hq1] at hgn ⊢
    rw [ZMod.natCast_mod, Nat.cast_pow, ← pow_mul, mul_comm, pow_mul, hgn]
    exact Odd.neg_one_pow ⟨j, rfl⟩
  refine ⟨?_, Nat.mod_lt _ (by omega), hpow⟩
  rcases Nat.eq_zero_or_pos (g^(2*j+1) % q) with h0 | h0
  · rw [h0, zero_pow (by omega), Nat.zero_mod] at hpow; omega
  · exact h0

/-! ### the loop of `minimalRootFrom` -/

theorem odd_pow_step (g t q : Nat) :
    (g^(2*t+1) % q * (g * g % q)) % q = g^(2*(t+1)+1) % q := by
  have h1 : (g^(2*t+1) % q * (g * g % q)) ≡ g^(2*t+1) * (g * g) [MOD q] :=
    (Nat.mod_modEq _ _).mul (Nat.mod_modEq _ _)
  have h2 : g^(2*t+1) * (g * g) = g^(2*(t+1)+1) := by ring
  rw [← h2]; exact h1

/-- loop invariant: `best` is one of the odd powers seen so far and is below all of them -/
def MinInv (g q t best : Nat) : Prop :=
  (∃ j, (j < t ∨ j = 0) ∧ best = g^(2*j+1) % q) ∧ ∀ j, j < t → best ≤ g^(2*j+1) % q

theorem minimalRootFrom_go_spec (h : m.WF) (g : Nat) :
    ∀ (c t best cur : Nat), cur = g^(2*t+1) % m.value → MinInv g m.value t best →
      ∃ r, minimalRootFrom.go m (g * g % m.value) c best cur = .ok r ∧ MinInv g m.value (t + c) r := by
  have hq : m.value < 2^64 := lt_trans h.lt (by norm_num)
  have hq0 : 0 < m.value := lt_of_lt_of_le (by norm_num) h.two_le
  have hmod : ∀ z, z % m.value < 2^64 := fun z => lt_trans (Nat.mod_lt _ hq0) hq
  intro c
  induction c with
  | zero =>
    intro t best cur _ hinv
    exact ⟨best, by simp [minimalRootFrom.go, pure, Except.pure], by simpa using hinv⟩
  | succ c ih =>
    intro t best cur hcur hinv
    rw [minimalRootFrom.go]
    have hcur64 : cur < 2^64 := by rw [hcur]; exact hmod _
    simp only [bind, Except.bind, mulMod_exact h hcur64 (hmod (g * g))]
    have hcur' : cur * (g * g % m.value) % m.value = g^(2*(t+1)+1) % m.value := by
      rw [hcur, odd_pow_step]
    have hinv' : MinInv g m.value (t+1) (if cur < best then cur else best) := by
      obtain ⟨⟨j, hj, hbest⟩, hle⟩ := hinv
      split
      · rename_i hlt
        refine ⟨⟨t, Or.inl (by omega), hcur⟩, ?_⟩
        intro j' hj'
        rcases Nat.lt_succ_iff_lt_or_eq.mp hj' with h1 | h1
        · exact le_trans (le_of_lt hlt) (hle j' h1)
        · subst h1; exact le_of_eq hcur
      · rename_i hlt
        refine ⟨⟨j, by omega, hbest⟩, ?_⟩
        intro j' hj'
        rcases Nat.lt_succ_iff_lt_or_eq.mp hj' with h1 | h1
        · exact hle j' h1
        · subst h1; rw [← hcur]; omega
    obtain ⟨r, hr, hinvr⟩ := ih (t+1) _ _ hcur' hinv'
    refine ⟨r, hr, ?_⟩
    have : t + (c + 1) = t + 1 + c := by omega
    rw [this]; exact hinvr

/-- the value `minimalRootFrom` returns: the minimum of the N odd powers g^1, g^3, …, g^(2N-1) (mod q) -/
theorem minimalRootFrom_spec (h : m.WF) {n g : Nat} (hn : 0 < n) (hg : g < m.value) :
    ∃ r, minimalRootFrom (2*n) m g = .ok r ∧
      (∃ j, j < n ∧ r = g^(2*j+1) % m.value) ∧ (∀ j, j < n → r ≤ g^(2*j+1) % m.value) := by
  have hq : m.value < 2^64 := lt_trans h.lt (by norm_num)
  have hg64 : g < 2^64 := lt_trans hg hq
  unfold minimalRootFrom
  simp only [bind, Except.bind, mulMod_exact h hg64 hg64]
  have hdiv : (2 * n + 1) / 2 = n := by omega
  rw [hdiv]
  have hg1 : g = g^(2*0+1) % m.value := by simp [Nat.mod_eq_of_lt hg]
  obtain ⟨r, hr, ⟨j, hj, hrj⟩, hle⟩ :=
    minimalRootFrom_go_spec h g n 0 g g hg1 ⟨⟨0, Or.inr rfl, hg1⟩, fun j hj => by omega⟩
  rw [Nat.zero_add] at hle
  refine ⟨r, hr, ⟨j, ?_, hrj⟩, hle⟩
  omega

/-! ### prime modulus: the orbit of odd powers is the set of all primitive roots

  NOTE.  The statements `prim_is_odd_power`, `root_deterministic`, `minimalRoot_least` as originally given
  (arbitrary `n > 0`) are FALSE: for q = 7, n = 3 both 6 and 3 satisfy x^3 ≡ -1, but 6 = -1 has order 2 only, so
  its odd powers are {6} and 3 is not among them.  They are kept as `…Statement : Prop`, the first is refuted
  below (`prim_is_odd_powerStatement_false`), and all three are proved for `n` a power of two (the only case the
  code uses: `n = 2^k` is the ring degree), where x^n = -1 forces the order to be exactly 2n. -/

def prim_is_odd_powerStatement : Prop :=
  ∀ {n q g g' : Nat} (_ : Nat.Prime q) (_ : 0 < n)
    (_ : IsPrim n q g) (_ : IsPrim n q g'), ∃ j, j < n ∧ g' = g^(2*j+1) % q

def root_deterministicStatement : Prop :=
  ∀ {m : Modulus} (_ : m.WF) (_ : Nat.Prime m.value) {n g g' : Nat} (_ : 0 < n)
    (_ : IsPrim n m.value g) (_ : IsPrim n m.value g'),
    minimalRootFrom (2*n) m g = minimalRootFrom (2*n) m g'

def minimalRoot_leastStatement : Prop :=
  ∀ {m : Modulus} (_ : m.WF) (_ : Nat.Prime m.value) {n g : Nat} (_ : 0 < n) (_ : IsPrim n m.value g),
    ∃ r, minimalRootFrom (2*n) m g = .ok r ∧ IsPrim n m.value r ∧ ∀ x, IsPrim n m.value x → r ≤ x

theorem prim_is_odd_powerStatement_false : ¬ prim_is_odd_powerStatement := by
  intro hS
  have h6 : IsPrim 3 7 6 := by unfold IsPrim; decide
  have h3 : IsPrim 3 7 3 := by unfold IsPrim; decide
  obtain ⟨j, hj, he⟩ := hS Nat.prime_seven (by norm_num : 0 < 3) h6 h3
  interval_cases j <;> omega

theorem isPrim_two {n g : Nat} (hg : IsPrim n 2 g) : g = 1 := by
  obtain ⟨h0, h1, _⟩ := hg; omega

/-- in the field Z/q (q prime) every primitive 2N-th root is an odd power (< 2N) of any other one (N = 2^k) -/
theorem prim_is_odd_power_pow2 {n q g g' : Nat} (hp : Nat.Prime q) (hn2 : ∃ k, n = 2^k)
    (hg : IsPrim n q g) (hg' : IsPrim n q g') : ∃ j, j < n ∧ g' = g^(2*j+1) % q := by
  obtain ⟨k, rfl⟩ := hn2
  rcases Nat.lt_or_ge 2 q with hq | hq
  · have : Fact q.Prime := ⟨hp⟩
    have : Fact (2 < q) := ⟨hq⟩
    have hq1 : 1 ≤ q := by omega
    have ha := (pow_mod_eq_pred_iff hq1 g (2^k)).mp hg.2.2
    have hb := (pow_mod_eq_pred_iff hq1 g' (2^k)).mp hg'.2.2
    have ha1 : ¬ (g : ZMod q) ^ 2 ^ k = 1 := by rw [ha]; exact ZMod.neg_one_ne_one
    have ha2 : (g : ZMod q) ^ 2 ^ (k+1) = 1 := by rw [pow_succ, pow_mul, ha]; norm_num
    have hb2 : (g' : ZMod q) ^ 2 ^ (k+1) = 1 := by rw [pow_succ, pow_mul, hb]; norm_num
    have hprim : IsPrimitiveRoot (g : ZMod q) (2^(k+1)) :=
      IsPrimitiveRoot.iff_orderOf.mpr (orderOf_eq_prime_pow ha1 ha2)
    have : NeZero (2^(k+1)) := ⟨by positivity⟩
    obtain ⟨i, hi, hgi⟩ := hprim.eq_pow_of_pow_eq_one hb2
    rcases Nat.even_or_odd' i with ⟨l, hl | hl⟩
    · exfalso
      apply ZMod.neg_one_ne_one (n := q)
      rw [← hb, ← hgi, hl, ← pow_mul, mul_comm 2 l, mul_assoc, ← pow_succ', pow_mul', ha2, one_pow]
    · refine ⟨l, ?_, ?_⟩
      · rw [pow_succ] at hi; omega
      · have : ((g' : Nat) : ZMod q) = ((g^(2*l+1) : Nat) : ZMod q) := by
          rw [Nat.cast_pow, ← hl, hgi]
        rw [ZMod.natCast_eq_natCast_iff', Nat.mod_eq_of_lt hg'.2.1] at this
        exact this
  · have : q = 2 := by have := hp.two_le; omega
    subst this
    rw [isPrim_two hg, isPrim_two hg']
    exact ⟨0, by positivity, by norm_num⟩

/-- odd powers of a primitive root are primitive, prime modulus (covers q = 2) -/
theorem isPrim_odd_pow_prime {n q g : Nat} (hp : Nat.Prime q) (hn : 0 < n) (hg : IsPrim n q g) (j : Nat) :
    IsPrim n q (g^(2*j+1) % q) := by
  rcases Nat.lt_or_ge 2 q with hq | hq
  · exact isPrim_odd_pow hq hn hg j
  · have : q = 2 := by have := hp.two_le; omega
    subst this
    have h1 := isPrim_two hg
    subst h1
    simpa using hg

/-- ROOT DETERMINISM: for prime q the result does not depend on which primitive root the search found -/
theorem root_deterministic_pow2 (h : m.WF) (hp : Nat.Prime m.value) {n g g' : Nat} (hn2 : ∃ k, n = 2^k)
    (hg : IsPrim n m.value g) (hg' : IsPrim n m.value g') :
    minimalRootFrom (2*n) m g = minimalRootFrom (2*n) m g' := by
  have hn : 0 < n := by obtain ⟨k, rfl⟩ := hn2; positivity
  obtain ⟨r, hr, ⟨j, hj, hrj⟩, hle⟩ := minimalRootFrom_spec h hn hg.2.1
  obtain ⟨r', hr', ⟨j', hj', hrj'⟩, hle'⟩ := minimalRootFrom_spec h hn hg'.2.1
  have hrP : IsPrim n m.value r := hrj ▸ isPrim_odd_pow_prime hp hn hg j
  have hrP' : IsPrim n m.value r' := hrj' ▸ isPrim_odd_pow_prime hp hn hg' j'
  obtain ⟨s, hs, hrs⟩ := prim_is_odd_power_pow2 hp hn2 hg' hrP
  obtain ⟨s', hs', hrs'⟩ := prim_is_odd_power_pow2 hp hn2 hg hrP'
  have h1 : r' ≤ r := by rw [hrs]; exact hle' s hs
  have h2 : r ≤ r' := by rw [hrs']; exact hle s' hs'
  rw [hr, hr', le_antisymm h2 h1]

/-- and it is the least primitive root: r ≤ every x with x^N ≡ -1 -/
theorem minimalRoot_least_pow2 (h : m.WF) (hp : Nat.Prime m.value) {n g : Nat} (hn2 : ∃ k, n = 2^k)
    (hg : IsPrim n m.value g) :
    ∃ r, minimalRootFrom (2*n) m g = .ok r ∧ IsPrim n m.value r ∧ ∀ x, IsPrim n m.value x → r ≤ x := by
  have hn : 0 < n := by obtain ⟨k, rfl⟩ := hn2; positivity
  obtain ⟨r, hr, ⟨j, hj, hrj⟩, hle⟩ := minimalRootFrom_spec h hn hg.2.1
  refine ⟨r, hr, hrj ▸ isPrim_odd_pow_prime hp hn hg j, ?_⟩
  intro x hx
  obtain ⟨s, hs, hxs⟩ := prim_is_odd_power_pow2 hp hn2 hg hx
  rw [hxs]; exact hle s hs

/-- the modulus 7 with its Barrett constants -/
def mod7 : Modulus := ⟨7, (2^128 / 7) % B64, (2^128 / 7) / B64, 2^128 % 7, 3⟩

theorem mod7_wf : mod7.WF :=
  ⟨by decide, by decide, by simp only [mod7, B64]; norm_num, by simp only [mod7, B64]; norm_num, rfl⟩

theorem odd_pow_six (j : Nat) : 6^(2*j+1) % 7 = 6 := by
  induction j with
  | zero => rfl
  | succ j ih =>
    have : 6^(2*(j+1)+1) = 6^(2*j+1) * 36 := by ring
    rw [this, Nat.mul_mod, ih]

theorem root_deterministicStatement_false : ¬ root_deterministicStatement := by
  intro hS
  have h6 : IsPrim 3 mod7.value 6 := by unfold IsPrim; decide
  have h3 : IsPrim 3 mod7.value 3 := by unfold IsPrim; decide
  have heq := hS mod7_wf Nat.prime_seven (by norm_num : 0 < 3) h6 h3
  obtain ⟨r, hr, ⟨j, _, hrj⟩, _⟩ := minimalRootFrom_spec mod7_wf (by norm_num : 0 < 3) h6.2.1
  obtain ⟨r', hr', _, hle'⟩ := minimalRootFrom_spec mod7_wf (by norm_num : 0 < 3) h3.2.1
  rw [hr, hr'] at heq
  injection heq with heq
  have h0 := hle' 0 (by norm_num)
  have : r = 6 := by rw [hrj]; exact odd_pow_six j
  have h3' : 3 ^ (2 * 0 + 1) % mod7.value = 3 := by decide
  omega

theorem minimalRoot_leastStatement_false : ¬ minimalRoot_leastStatement := by
  intro hS
  have h6 : IsPrim 3 mod7.value 6 := by unfold IsPrim; decide
  have h3 : IsPrim 3 mod7.value 3 := by unfold IsPrim; decide
  obtain ⟨r0, hr0, _, hmin⟩ := hS mod7_wf Nat.prime_seven (by norm_num : 0 < 3) h6
  obtain ⟨r, hr, ⟨j, _, hrj⟩, _⟩ := minimalRootFrom_spec mod7_wf (by norm_num : 0 < 3) h6.2.1
  rw [hr] at hr0
  injection hr0 with hr0
  have : r = 6 := by rw [hrj]; exact odd_pow_six j
  have := hmin 3 h3
  omega

/-- the determinism genuinely needs primality: for q = 85 = 5·17, N = 2, both 13 and 38 are primitive and minimal
    for their own orbit of odd powers (this is the defect repaired in NTTTables::new) -/
theorem composite_counterexample :
    IsPrim 2 85 13 ∧ IsPrim 2 85 38 ∧
    (∀ j, j < 2 → 13 ≤ 13^(2*j+1) % 85) ∧ (∀ j, j < 2 → 38 ≤ 38^(2*j+1) % 85) := by
  refine ⟨by unfold IsPrim; decide, by unfold IsPrim; decide, ?_, ?_⟩
  · intro j hj; interval_cases j <;> decide
  · intro j hj; interval_cases j <;> decide

end HC
