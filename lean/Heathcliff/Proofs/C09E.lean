/- C09 part E: the lazy modular instance (values in [0,4q) forward, [0,2q) inverse, Harvey multiplication) simulates
   the exact network over ZMod q and stays inside its documented ranges (hence no u64 overflow for q < 2^61);
   the array-cached executable form equals the function form. -/
import Heathcliff.Proofs.NTTDefs
import Heathcliff.Proofs.C08A
namespace HC

variable {m : Modulus}

theorem WFOp.new_eq (h : m.WF) {o : MulOperand} (ho : WFOp m o) : MulOperand.new o.operand m = .ok o := by
  obtain ⟨o', h1, h2, h3⟩ := mulOperand_new h ho.1
  rw [h1]
  congr 1
  cases o; cases o'
  simp only [MulOperand.mk.injEq]
  exact ⟨h2, h3.trans ho.2.symm⟩

/-- lazy multiplication by a well-formed operand: < 2q and congruent, for every x < 2^64 -/
theorem mulRoot_lazy (h : m.WF) {o : MulOperand} (ho : WFOp m o) {x : Nat} (hx : x < 2^64) :
    (modArithLazy m).mulRoot x o < 2 * m.value ∧
    (((modArithLazy m).mulRoot x o : Nat) : ZMod m.value) = (x : ZMod m.value) * (o.operand : ZMod m.value) := by
  obtain ⟨s1, s2⟩ := mulOperandModLazy_spec h hx ho.1 (WFOp.new_eq h ho)
  refine ⟨s1, ?_⟩
  show ((mulOperandModLazy x o m : Nat) : ZMod m.value) = _
  rw [← Nat.cast_mul]
  exact (ZMod.natCast_eq_natCast_iff' _ _ _).mpr s2

/-! ### index arithmetic -/

theorem idx_add {M g N p : Nat} (hN : N = M * (2*g)) (hp : p < N) (ho : p % (2*g) < g) : p + g < N := by
  have hg : 0 < 2*g := by omega
  have hi : p / (2*g) < M := by
    apply (Nat.div_lt_iff_lt_mul hg).mpr; omega
  have h1 := Nat.div_add_mod p (2*g)
  have h2 : (2*g) * (p / (2*g) + 1) ≤ (2*g) * M := Nat.mul_le_mul_left _ hi
  rw [Nat.mul_add, Nat.mul_one] at h2
  rw [Nat.mul_comm M] at hN
  generalize (2*g) * (p / (2*g)) = X at *
  generalize (2*g) * M = Y at *
  omega

theorem idx_div {M g N p : Nat} (hg : 0 < g) (hN : N = M * (2*g)) (hp : p < N) : p / (2*g) < M := by
  apply (Nat.div_lt_iff_lt_mul (by omega)).mpr; omega

theorem pow_split_fwd {k l : Nat} (hl : l < k) : 2^k = 2^l * (2 * 2^(k-l-1)) := by
  rw [← pow_succ', ← pow_add]; congr 1; omega

theorem pow_split_inv {k l : Nat} (hl : l < k) : 2^k = 2^(k-1-l) * (2 * 2^l) := by
  rw [← pow_succ', ← pow_add]; congr 1; omega

/-! ### congruence of the layer functions on indices below 2^k -/

theorem fwdLayer_congrG {α ρ : Type} (A : Arith α ρ) {k l : Nat} (hl : l < k) (roots : Nat → ρ) {v v' : Nat → α}
    (hv : ∀ p, p < 2^k → v p = v' p) {p : Nat} (hp : p < 2^k) :
    fwdLayer A k l roots v p = fwdLayer A k l roots v' p := by
  unfold fwdLayer
  simp only []
  split
  · rename_i ho
    rw [hv p hp, hv _ (idx_add (pow_split_fwd hl) hp ho)]
  · rw [hv p hp, hv (p - 2^(k-l-1)) (Nat.lt_of_le_of_lt (Nat.sub_le _ _) hp)]

theorem invLayer_congrG {α ρ : Type} (A : Arith α ρ) {k l : Nat} (hl : l < k) (roots : Nat → ρ) {v v' : Nat → α}
    (hv : ∀ p, p < 2^k → v p = v' p) {p : Nat} (hp : p < 2^k) :
    invLayer A k l roots v p = invLayer A k l roots v' p := by
  unfold invLayer
  simp only []
  split
  · rename_i ho
    rw [hv p hp, hv _ (idx_add (pow_split_inv hl) hp ho)]
  · rw [hv p hp, hv (p - 2^l) (Nat.lt_of_le_of_lt (Nat.sub_le _ _) hp)]

/-! ### the lazy operations against the exact ones -/

theorem guard_lazy {a : Nat} (ha : a < 4 * m.value) :
    (modArithLazy m).guard a < 2 * m.value ∧
    (((modArithLazy m).guard a : Nat) : ZMod m.value) = (a : ZMod m.value) := by
  show (if a ≥ 2 * m.value then a - 2 * m.value else a) < _ ∧
    (((if a ≥ 2 * m.value then a - 2 * m.value else a) : Nat) : ZMod m.value) = _
  split
  · rename_i hge
    refine ⟨by omega, ?_⟩
    rw [Nat.cast_sub hge]; simp
  · exact ⟨by omega, rfl⟩

theorem sub_lazy {u w : Nat} (hu : u < 2 * m.value) (hw : w < 2 * m.value) :
    (modArithLazy m).sub u w < 4 * m.value ∧
    (((modArithLazy m).sub u w : Nat) : ZMod m.value) = (u : ZMod m.value) - (w : ZMod m.value) := by
  show u + 2 * m.value - w < _ ∧ ((u + 2 * m.value - w : Nat) : ZMod m.value) = _
  refine ⟨by omega, ?_⟩
  rw [Nat.cast_sub (by omega)]; simp

theorem fwdLayer_lazy (h : m.WF) {k l : Nat} (hl : l < k) (roots : Nat → MulOperand)
    (hr : ∀ j, 0 < j → j < 2^k → WFOp m (roots j)) {v : Nat → Nat} {v' : Nat → ZMod m.value}
    (hv : ∀ p, p < 2^k → v p < 4 * m.value ∧ ((v p : Nat) : ZMod m.value) = v' p) {p : Nat} (hp : p < 2^k) :
    fwdLayer (modArithLazy m) k l roots v p < 4 * m.value ∧
    ((fwdLayer (modArithLazy m) k l roots v p : Nat) : ZMod m.value)
      = fwdLayer (exactArith (ZMod m.value)) k l (fun j => ((roots j).operand : ZMod m.value)) v' p := by
  have hq := h.lt
  have hsplit := pow_split_fwd hl
  have hi : p / (2 * 2^(k-l-1)) < 2^l := idx_div (Nat.two_pow_pos _) hsplit hp
  have hroot : WFOp m (roots (2^l + p / (2 * 2^(k-l-1)))) := by
    apply hr
    · exact Nat.add_pos_left (Nat.two_pow_pos l) _
    · have : 2^l * 2 ≤ 2^k := by rw [← pow_succ]; exact Nat.pow_le_pow_right (by norm_num) hl
      omega
  unfold fwdLayer
  simp only []
  split
  · rename_i ho
    obtain ⟨g1, g2⟩ := guard_lazy (m := m) (hv p hp).1
    have hpg := idx_add hsplit hp ho
    obtain ⟨m1, m2⟩ := mulRoot_lazy h hroot (x := v (p + 2^(k-l-1))) (by have := (hv _ hpg).1; omega)
    refine ⟨?_, ?_⟩
    · show _ + _ < _; omega
    · show ((_ + _ : Nat) : ZMod m.value) = v' p + v' (p + 2^(k-l-1)) * _
      rw [Nat.cast_add, g2, m2, (hv p hp).2, (hv _ hpg).2]
  · have hpg : p - 2^(k-l-1) < 2^k := Nat.lt_of_le_of_lt (Nat.sub_le _ _) hp
    obtain ⟨g1, g2⟩ := guard_lazy (m := m) (hv _ hpg).1
    obtain ⟨m1, m2⟩ := mulRoot_lazy h hroot (x := v p) (by have := (hv _ hp).1; omega)
    obtain ⟨s1, s2⟩ := sub_lazy g1 m1
    refine ⟨s1, ?_⟩
    show _ = v' (p - 2^(k-l-1)) - v' p * _
    rw [s2, g2, m2, (hv p hp).2, (hv _ hpg).2]

theorem invLayer_lazy (h : m.WF) {k l : Nat} (hl : l < k) (roots : Nat → MulOperand)
    (hr : ∀ j, 0 < j → j < 2^k → WFOp m (roots j)) {v : Nat → Nat} {v' : Nat → ZMod m.value}
    (hv : ∀ p, p < 2^k → v p < 2 * m.value ∧ ((v p : Nat) : ZMod m.value) = v' p) {p : Nat} (hp : p < 2^k) :
    invLayer (modArithLazy m) k l roots v p < 2 * m.value ∧
    ((invLayer (modArithLazy m) k l roots v p : Nat) : ZMod m.value)
      = invLayer (exactArith (ZMod m.value)) k l (fun j => ((roots j).operand : ZMod m.value)) v' p := by
  have hq := h.lt
  have hsplit := pow_split_inv hl
  have hi : p / (2 * 2^l) < 2^(k-1-l) := idx_div (Nat.two_pow_pos _) hsplit hp
  have hroot : WFOp m (roots (2^k - 2 * 2^(k-1-l) + 1 + p / (2 * 2^l))) := by
    apply hr
    · exact Nat.add_pos_left (Nat.succ_pos _) _
    · have h1 : 0 < 2^(k-1-l) := Nat.two_pow_pos _
      have h2 : 2 * 2^(k-1-l) ≤ 2^k := by
        rw [← pow_succ']; exact Nat.pow_le_pow_right (by norm_num) (by omega)
      omega
  unfold invLayer
  simp only []
  split
  · rename_i ho
    have hpg := idx_add hsplit hp ho
    obtain ⟨g1, g2⟩ := guard_lazy (m := m) (a := v p + v (p + 2^l))
      (by have := (hv _ hp).1; have := (hv _ hpg).1; omega)
    refine ⟨g1, ?_⟩
    show (((modArithLazy m).guard (v p + v (p + 2^l)) : Nat) : ZMod m.value) = v' p + v' (p + 2^l)
    rw [g2, Nat.cast_add, (hv p hp).2, (hv _ hpg).2]
  · have hpg : p - 2^l < 2^k := Nat.lt_of_le_of_lt (Nat.sub_le _ _) hp
    obtain ⟨s1, s2⟩ := sub_lazy (m := m) (hv _ hpg).1 (hv _ hp).1
    obtain ⟨m1, m2⟩ := mulRoot_lazy h hroot (x := (modArithLazy m).sub (v (p - 2^l)) (v p)) (by omega)
    refine ⟨m1, ?_⟩
    show _ = (v' (p - 2^l) - v' p) * _
    rw [m2, s2, (hv p hp).2, (hv _ hpg).2]

/-- FORWARD lazy network: inputs < 4q ⇒ every intermediate and output value < 4q (< 2^63: no overflow in `a + b`,
    `a + 2q - b`), and it computes the exact network modulo q -/
theorem fwd_lazy_sim (h : m.WF) (k : Nat) (roots : Nat → MulOperand)
    (hr : ∀ j, 0 < j → j < 2^k → WFOp m (roots j)) (a : Nat → Nat) (ha : ∀ p, p < 2^k → a p < 4 * m.value) :
    ∀ l, l ≤ k → ∀ p, p < 2^k →
      runFwd (modArithLazy m) k roots a l p < 4 * m.value ∧
      ((runFwd (modArithLazy m) k roots a l p : Nat) : ZMod m.value)
        = runFwd (exactArith (ZMod m.value)) k (fun j => ((roots j).operand : ZMod m.value))
            (fun p => (a p : ZMod m.value)) l p := by
  intro l
  induction l with
  | zero => intro _ p hp; exact ⟨ha p hp, rfl⟩
  | succ l ih =>
    intro hl p hp
    exact fwdLayer_lazy h (by omega) roots hr (ih (by omega)) hp

/-- INVERSE lazy network: inputs < 2q ⇒ every intermediate and output value < 2q, exact modulo q -/
theorem inv_lazy_sim (h : m.WF) (k : Nat) (roots : Nat → MulOperand)
    (hr : ∀ j, 0 < j → j < 2^k → WFOp m (roots j)) (a : Nat → Nat) (ha : ∀ p, p < 2^k → a p < 2 * m.value) :
    ∀ l, l ≤ k → ∀ p, p < 2^k →
      runInv (modArithLazy m) k roots a l p < 2 * m.value ∧
      ((runInv (modArithLazy m) k roots a l p : Nat) : ZMod m.value)
        = runInv (exactArith (ZMod m.value)) k (fun j => ((roots j).operand : ZMod m.value))
            (fun p => (a p : ZMod m.value)) l p := by
  intro l
  induction l with
  | zero => intro _ p hp; exact ⟨ha p hp, rfl⟩
  | succ l ih =>
    intro hl p hp
    exact invLayer_lazy h (by omega) roots hr (ih (by omega)) hp

theorem arrFn_ofFn {α : Type} [Inhabited α] {n : Nat} (f : Fin n → α) {p : Nat} (hp : p < n) :
    arrFn (Array.ofFn f) p = f ⟨p, hp⟩ := by
  simp [arrFn, Array.getD, hp]

/-- the array-cached executable network is the function-level network -/
theorem runFwdA_eq {α ρ : Type} [Inhabited α] (A : Arith α ρ) (k : Nat) (roots : Nat → ρ) (a : Array α)
    (hs : a.size = 2^k) : ∀ l, l ≤ k →
      (runFwdA A k roots a l).size = 2^k ∧
      ∀ p, p < 2^k → arrFn (runFwdA A k roots a l) p = runFwd A k roots (arrFn a) l p := by
  intro l
  induction l with
  | zero => intro _; exact ⟨hs, fun p _ => rfl⟩
  | succ l ih =>
    intro hl
    obtain ⟨_, ih2⟩ := ih (by omega)
    refine ⟨by simp [runFwdA], fun p hp => ?_⟩
    show arrFn (Array.ofFn (n := 2^k) (fun i => fwdLayer A k l roots (arrFn (runFwdA A k roots a l)) i.val)) p = _
    rw [arrFn_ofFn _ hp]
    exact fwdLayer_congrG A (by omega) roots ih2 hp

theorem runInvA_eq {α ρ : Type} [Inhabited α] (A : Arith α ρ) (k : Nat) (roots : Nat → ρ) (a : Array α)
    (hs : a.size = 2^k) : ∀ l, l ≤ k →
      (runInvA A k roots a l).size = 2^k ∧
      ∀ p, p < 2^k → arrFn (runInvA A k roots a l) p = runInv A k roots (arrFn a) l p := by
  intro l
  induction l with
  | zero => intro _; exact ⟨hs, fun p _ => rfl⟩
  | succ l ih =>
    intro hl
    obtain ⟨_, ih2⟩ := ih (by omega)
    refine ⟨by simp [runInvA], fun p hp => ?_⟩
    show arrFn (Array.ofFn (n := 2^k) (fun i => invLayer A k l roots (arrFn (runInvA A k roots a l)) i.val)) p = _
    rw [arrFn_ofFn _ hp]
    exact invLayer_congrG A (by omega) roots ih2 hp

/-- final reductions of the non-lazy wrappers -/
theorem reduce2 {q x : Nat} (hq : 0 < q) (hx : x < 2 * q) : (if x ≥ q then x - q else x) = x % q := by
  have _ := hq
  split
  · rename_i hge
    rw [Nat.mod_eq_sub_mod hge, Nat.mod_eq_of_lt (by omega)]
  · rw [Nat.mod_eq_of_lt (by omega)]

theorem reduce4 {q x : Nat} (hq : 0 < q) (hx : x < 4 * q) :
    (let y := if x ≥ 2*q then x - 2*q else x; if y ≥ q then y - q else y) = x % q := by
  simp only []
  split
  · rename_i hge
    rw [reduce2 hq (by omega)]
    have : x = x - 2*q + q * 2 := by omega
    conv_rhs => rw [this, Nat.add_mul_mod_self_left]
  · exact reduce2 hq (by omega)

end HC
