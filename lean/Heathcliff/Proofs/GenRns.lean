import Heathcliff.Gen.RnsFns
import Heathcliff.Model.RNS
import Heathcliff.Proofs.GenWord
import Heathcliff.Proofs.GenWord3
import Heathcliff.Proofs.C08A

/-!
  Phase 4c of the translator tie: the RNS layer.  `Heathcliff/Gen/RnsFns.lean` is regenerated from src/util/polysmallmod.rs and
  src/util/rns.rs on every run; here the generated component-wise helpers are characterised as `List.mapM`s of the hand model's
  word functions, and the generated `RNSTool` routines (flat `&mut [u64]` buffers, index arithmetic `i * coeff_count + j`, sub-slices)
  are proved EQUAL to the hand model of `Heathcliff/Model/RNS.lean` (arrays of components).  Helper names start with `gr_`.
-/
namespace HC
open HC.GenW HC.GenR

/-! ### basics -/
theorem gr_ok_bind {α β : Type} (v : α) (f : α → R β) : (Except.ok v >>= f) = f v := rfl
theorem gr_err_bind {α β : Type} (e : Err) (f : α → R β) : ((Except.error e : R α) >>= f) = .error e := rfl

theorem gr_mapM_nil {α β : Type} (f : α → R β) : ([] : List α).mapM f = .ok [] := rfl
theorem gr_mapM_cons {α β : Type} (f : α → R β) (a : α) (l : List α) :
    (a :: l).mapM f = (f a >>= fun b => l.mapM f >>= fun bs => .ok (b :: bs)) := by
  rw [List.mapM_cons]; rfl

theorem gr_mapM_congr {α β : Type} (f g : α → R β) (l : List α) (h : ∀ x ∈ l, f x = g x) : l.mapM f = l.mapM g := by
  induction l with
  | nil => rfl
  | cons a l ih =>
    rw [gr_mapM_cons, gr_mapM_cons, h a (by simp), ih (fun x hx => h x (by simp [hx]))]

theorem gr_mapM_ok {α β : Type} (f : α → R β) (g : α → β) (l : List α) (h : ∀ x ∈ l, f x = .ok (g x)) :
    l.mapM f = .ok (l.map g) := by
  induction l with
  | nil => rfl
  | cons a l ih =>
    rw [gr_mapM_cons, h a (by simp), ih (fun x hx => h x (by simp [hx]))]; rfl

theorem gr_mapM_length {α β : Type} (f : α → R β) (l : List α) (r : List β) (h : l.mapM f = .ok r) : r.length = l.length := by
  induction l generalizing r with
  | nil => rw [gr_mapM_nil] at h; cases h; rfl
  | cons a l ih =>
    rw [gr_mapM_cons] at h
    cases hf : f a with
    | error e => rw [hf] at h; cases h
    | ok b =>
      rw [hf, gr_ok_bind] at h
      cases hl : l.mapM f with
      | error e => rw [hl] at h; cases h
      | ok bs => rw [hl, gr_ok_bind] at h; cases h; simp [ih bs hl]

/-- the generic in-place loop: position `i, i+1, …` is rewritten with `G position old-value` -/
theorem gr_idxloop (loop : Nat → Nat → List Nat → R (List Nat)) (G : Nat → Nat → R Nat) (N : Nat)
    (h0 : ∀ i l, loop 0 i l = .ok l)
    (hs : ∀ n i (l : List Nat) (h : i < l.length), i < N → loop (n+1) i l = (G i l[i] >>= fun y => loop n (i+1) (l.set i y))) :
    ∀ n i (l : List Nat), i + n = l.length → l.length ≤ N →
      loop n i l = ((List.range' i n).mapM (fun j => G j (l.getD j 0)) >>= fun ys => .ok (l.take i ++ ys)) := by
  intro n
  induction n with
  | zero =>
    intro i l h _
    rw [h0, List.range'_zero, gr_mapM_nil, gr_ok_bind, List.append_nil, List.take_of_length_le (by omega)]
  | succ n ih =>
    intro i l h hN
    have hi : i < l.length := by omega
    rw [hs n i l hi (by omega), List.range'_succ, gr_mapM_cons]
    have hg : l.getD i 0 = l[i] := by rw [List.getD_eq_getElem?_getD, List.getElem?_eq_getElem hi]; rfl
    rw [hg]
    cases hG : G i l[i] with
    | error e => rfl
    | ok y =>
      rw [gr_ok_bind, gr_ok_bind, ih (i+1) (l.set i y) (by rw [List.length_set]; omega) (by rw [List.length_set]; omega)]
      have hc : (List.range' (i+1) n).mapM (fun j => G j ((l.set i y).getD j 0)) = (List.range' (i+1) n).mapM (fun j => G j (l.getD j 0)) := by
        apply gr_mapM_congr
        intro j hj
        rw [List.mem_range'_1] at hj
        rw [List.getD_eq_getElem?_getD, List.getD_eq_getElem?_getD, List.getElem?_set_ne (by omega)]
      rw [hc]
      cases hm : (List.range' (i+1) n).mapM (fun j => G j (l.getD j 0)) with
      | error e => rfl
      | ok ys =>
        rw [gr_ok_bind, gr_ok_bind, gr_ok_bind, gx_take_set _ _ _ hi, List.append_assoc]; rfl

/-- `(range' 0 n).mapM (F ∘ getD)` over the whole list is `mapM F` -/
theorem gr_range_mapM (F : Nat → R Nat) : ∀ (l : List Nat) (i : Nat),
    (List.range' i l.length).mapM (fun j => F ((l.getD (j - i) 0))) = l.mapM F := by
  intro l
  induction l with
  | nil => intro i; rfl
  | cons a l ih =>
    intro i
    rw [List.length_cons, List.range'_succ, gr_mapM_cons, gr_mapM_cons, Nat.sub_self]
    have : (List.range' (i+1) l.length).mapM (fun j => F ((a :: l).getD (j - i) 0)) = (List.range' (i+1) l.length).mapM (fun j => F (l.getD (j - (i+1)) 0)) := by
      apply gr_mapM_congr
      intro j hj
      rw [List.mem_range'_1] at hj
      have : j - i = (j - (i+1)) + 1 := by omega
      rw [this]; rfl
    rw [this, ih (i+1)]; rfl

theorem gr_maploop (loop : Nat → Nat → List Nat → R (List Nat)) (F : Nat → R Nat)
    (h0 : ∀ i l, loop 0 i l = .ok l)
    (hs : ∀ n i (l : List Nat) (h : i < l.length), loop (n+1) i l = (F l[i] >>= fun y => loop n (i+1) (l.set i y)))
    (l : List Nat) : loop l.length 0 l = l.mapM F := by
  rw [gr_idxloop loop (fun _ x => F x) l.length h0 (fun n i l h _ => hs n i l h) l.length 0 l (by omega) (Nat.le_refl _)]
  have := gr_range_mapM F l 0
  simp only [Nat.sub_zero] at this
  rw [this]
  cases l.mapM F with
  | error e => rfl
  | ok ys => rfl

/-! ### the component-wise helpers of src/util/polysmallmod.rs -/

theorem gr_modulus_reduce_eq (m : Modulus) (x : Nat) : GenR.modulus_reduce m x = barrett64 x m := by
  unfold GenR.modulus_reduce; exact gw_barrett_reduce_u64_eq x m

theorem gr_add_scalar_inplace_eq (l : List Nat) (s : Nat) (m : Modulus) :
    GenR.add_scalar_inplace l s m = l.mapM (fun x => addMod x s m) := by
  unfold GenR.add_scalar_inplace
  refine gr_maploop (GenR.add_scalar_inplace_loop1 s m) (fun x => addMod x s m) (fun _ _ => rfl) ?_ l
  intro n i l h
  rw [GenR.add_scalar_inplace_loop1]
  simp only [gw_idx_eq _ _ h, bind, Except.bind, gw_add_u64_mod_eq, gx_setIdx_ok _ _ _ h]

theorem gr_sub_scalar_inplace_eq (l : List Nat) (s : Nat) (m : Modulus) :
    GenR.sub_scalar_inplace l s m = l.mapM (fun x => subMod x s m) := by
  unfold GenR.sub_scalar_inplace
  refine gr_maploop (GenR.sub_scalar_inplace_loop1 s m) (fun x => subMod x s m) (fun _ _ => rfl) ?_ l
  intro n i l h
  rw [GenR.sub_scalar_inplace_loop1]
  simp only [gw_idx_eq _ _ h, bind, Except.bind, gw_sub_u64_mod_eq, gx_setIdx_ok _ _ _ h]

theorem gr_multiply_operand_inplace_eq (l : List Nat) (o : MulOperand) (m : Modulus) :
    GenR.multiply_operand_inplace l o m = l.mapM (fun x => mulOperandMod x o m) := by
  unfold GenR.multiply_operand_inplace
  refine gr_maploop (GenR.multiply_operand_inplace_loop1 o m) (fun x => mulOperandMod x o m) (fun _ _ => rfl) ?_ l
  intro n i l h
  rw [GenR.multiply_operand_inplace_loop1]
  simp only [gw_idx_eq _ _ h, bind, Except.bind, gw_multiply_u64operand_mod_eq, gx_setIdx_ok _ _ _ h]

theorem gr_multiply_scalar_inplace_eq (l : List Nat) (s : Nat) (m : Modulus) :
    GenR.multiply_scalar_inplace l s m = l.mapM (fun x => mulMod x s m) := by
  unfold GenR.multiply_scalar_inplace
  refine gr_maploop (GenR.multiply_scalar_inplace_loop1 s m) (fun x => mulMod x s m) (fun _ _ => rfl) ?_ l
  intro n i l h
  rw [GenR.multiply_scalar_inplace_loop1]
  simp only [gw_idx_eq _ _ h, bind, Except.bind, gw_multiply_u64_mod_eq, gx_setIdx_ok _ _ _ h]

theorem gr_negate_inplace_eq (l : List Nat) (m : Modulus) :
    GenR.negate_inplace l m = l.mapM (fun x => negateMod x m) := by
  unfold GenR.negate_inplace
  refine gr_maploop (GenR.negate_inplace_loop1 m.value) (fun x => negateMod x m) (fun _ _ => rfl) ?_ l
  intro n i l h
  rw [GenR.negate_inplace_loop1]
  simp only [gw_idx_eq _ _ h, bind, Except.bind, gx_setIdx_ok _ _ _ h]
  unfold negateMod
  by_cases h0 : l[i] = 0
  · rw [if_neg (by omega), if_pos h0]
  · rw [if_pos h0, if_neg h0]

/-- `modulo(component, modulus, result)` for a result buffer of the component's length: the buffer's old contents are irrelevant -/
theorem gr_modulo_eq (c : List Nat) (m : Modulus) (r : List Nat) (h : r.length = c.length) :
    GenR.modulo c m r = c.mapM (fun x => barrett64 x m) := by
  unfold GenR.modulo
  rw [h, Nat.min_self]
  rw [gr_idxloop (GenR.modulo_loop1 c m) (fun j _ => barrett64 (c.getD j 0) m) c.length (fun _ _ => rfl) (by
    intro n i l hi hc
    rw [GenR.modulo_loop1]
    simp only [gw_idx_eq _ _ hc, bind, Except.bind, gr_modulus_reduce_eq, gx_setIdx_ok _ _ _ hi]
    rw [List.getD_eq_getElem?_getD, List.getElem?_eq_getElem hc]; rfl) c.length 0 r (by omega) (by omega)]
  have := gr_range_mapM (fun x => barrett64 x m) c 0
  simp only [Nat.sub_zero] at this
  rw [this]
  cases c.mapM (fun x => barrett64 x m) with
  | error e => rfl
  | ok ys => rfl

def subModV (a b : Nat) (m : Modulus) : Nat := if (subU64 a b).2 > 0 then wAdd (subU64 a b).1 m.value else (subU64 a b).1
theorem gr_subMod (a b : Nat) (m : Modulus) : subMod a b m = .ok (subModV a b m) := rfl

/-- `sub_inplace(comp1, comp2, modulus)` for `comp2.len() >= comp1.len()` (the code asserts it) -/
theorem gr_sub_inplace_eq (a b : List Nat) (m : Modulus) (h : a.length ≤ b.length) :
    GenR.sub_inplace a b m = (List.range' 0 a.length).mapM (fun j => subMod (a.getD j 0) (b.getD j 0) m) := by
  unfold GenR.sub_inplace
  dsimp only
  rw [if_pos (by omega)]
  rw [gr_idxloop (GenR.sub_inplace_loop1 b m.value) (fun j x => subMod x (b.getD j 0) m) b.length (fun _ _ => rfl) (by
    intro n i l hi hc
    rw [GenR.sub_inplace_loop1]
    simp only [gw_idx_eq _ _ hc, gw_idx_eq _ _ hi, bind, Except.bind, gx_setIdx_ok _ _ _ hi]
    show GenR.sub_inplace_loop1 b m.value n (i + 1) (l.set i (if decide ((subU64 l[i] b[i]).2 ≠ 0) = true then wAdd (subU64 l[i] b[i]).1 m.value else (subU64 l[i] b[i]).1)) = _
    rw [List.getD_eq_getElem?_getD, List.getElem?_eq_getElem hc]
    rw [Option.getD_some, gr_subMod]
    unfold subModV
    congr 2
    by_cases hb : (subU64 l[i] b[i]).2 = 0
    · simp [hb]
    · simp [hb, Nat.pos_of_ne_zero hb]) a.length 0 a (by omega) h]
  cases (List.range' 0 a.length).mapM (fun j => subMod (a.getD j 0) (b.getD j 0) m) with
  | error e => rfl
  | ok ys => rfl
