import Heathcliff.Gen.RnsFns
import Heathcliff.Model.RNS
import Heathcliff.Proofs.GenWord
import Heathcliff.Proofs.GenWord2
import Heathcliff.Proofs.GenWord3
import Heathcliff.Proofs.C08A

/-!
  Phase 4c of the translator tie: the RNS layer.  `Heathcliff/Gen/RnsFns.lean` is regenerated from src/util/polysmallmod.rs and
  src/util/rns.rs on every run; here the generated component-wise helpers are characterised as `List.mapM`s of the hand model's
  word functions, and the generated `RNSTool` routines (flat `&mut [u64]` buffers, index arithmetic `i * coeff_count + j`, sub-slices)
  are proved EQUAL to the hand model of `Heathcliff/Model/RNS.lean` (arrays of components).  Helper names start with `gr_`.
-/
namespace HC
open HC.GenW HC.GenR

/-! ### basics -/
theorem gr_ok_bind {α β : Type} (v : α) (f : α → R β) : (Except.ok v >>= f) = f v := rfl
theorem gr_err_bind {α β : Type} (e : Err) (f : α → R β) : ((Except.error e : R α) >>= f) = .error e := rfl
theorem gr_pure {α : Type} (a : α) : (pure a : R α) = .ok a := rfl

theorem gr_mapM_nil {α β : Type} (f : α → R β) : ([] : List α).mapM f = .ok [] := rfl
theorem gr_mapM_cons {α β : Type} (f : α → R β) (a : α) (l : List α) :
    (a :: l).mapM f = (f a >>= fun b => l.mapM f >>= fun bs => .ok (b :: bs)) := by
  rw [List.mapM_cons]; rfl

theorem gr_mapM_congr {α β : Type} (f g : α → R β) (l : List α) (h : ∀ x ∈ l, f x = g x) : l.mapM f = l.mapM g := by
  induction l with
  | nil => rfl
  | cons a l ih =>
    rw [gr_mapM_cons, gr_mapM_cons, h a (by simp), ih (fun x hx => h x (by simp [hx]))]

theorem gr_mapM_ok {α β : Type} (f : α → R β) (g : α → β) (l : List α) (h : ∀ x ∈ l, f x = .ok (g x)) :
    l.mapM f = .ok (l.map g) := by
  induction l with
  | nil => rfl
  | cons a l ih =>
    rw [gr_mapM_cons, h a (by simp), ih (fun x hx => h x (by simp [hx]))]; rfl

theorem gr_mapM_length {α β : Type} (f : α → R β) (l : List α) (r : List β) (h : l.mapM f = .ok r) : r.length = l.length := by
  induction l generalizing r with
  | nil => rw [gr_mapM_nil] at h; cases h; rfl
  | cons a l ih =>
    rw [gr_mapM_cons] at h
    cases hf : f a with
    | error e => rw [hf] at h; cases h
    | ok b =>
      rw [hf, gr_ok_bind] at h
      cases hl : l.mapM f with
      | error e => rw [hl] at h; cases h
      | ok bs => rw [hl, gr_ok_bind] at h; cases h; simp [ih bs hl]

/-- the generic in-place loop: position `i, i+1, …` is rewritten with `G position old-value` -/
theorem gr_idxloop (loop : Nat → Nat → List Nat → R (List Nat)) (G : Nat → Nat → R Nat) (N : Nat)
    (h0 : ∀ i l, loop 0 i l = .ok l)
    (hs : ∀ n i (l : List Nat) (h : i < l.length), i < N → loop (n+1) i l = (G i l[i] >>= fun y => loop n (i+1) (l.set i y))) :
    ∀ n i (l : List Nat), i + n = l.length → l.length ≤ N →
      loop n i l = ((List.range' i n).mapM (fun j => G j (l.getD j 0)) >>= fun ys => .ok (l.take i ++ ys)) := by
  intro n
  induction n with
  | zero =>
    intro i l h _
    rw [h0, List.range'_zero, gr_mapM_nil, gr_ok_bind, List.append_nil, List.take_of_length_le (by omega)]
  | succ n ih =>
    intro i l h hN
    have hi : i < l.length := by omega
    rw [hs n i l hi (by omega), List.range'_succ, gr_mapM_cons]
    have hg : l.getD i 0 = l[i] := by rw [List.getD_eq_getElem?_getD, List.getElem?_eq_getElem hi]; rfl
    rw [hg]
    cases hG : G i l[i] with
    | error e => rfl
    | ok y =>
      rw [gr_ok_bind, gr_ok_bind, ih (i+1) (l.set i y) (by rw [List.length_set]; omega) (by rw [List.length_set]; omega)]
      have hc : (List.range' (i+1) n).mapM (fun j => G j ((l.set i y).getD j 0)) = (List.range' (i+1) n).mapM (fun j => G j (l.getD j 0)) := by
        apply gr_mapM_congr
        intro j hj
        rw [List.mem_range'_1] at hj
        rw [List.getD_eq_getElem?_getD, List.getD_eq_getElem?_getD, List.getElem?_set_ne (by omega)]
      rw [hc]
      cases hm : (List.range' (i+1) n).mapM (fun j => G j (l.getD j 0)) with
      | error e => rfl
      | ok ys =>
        rw [gr_ok_bind, gr_ok_bind, gr_ok_bind, gx_take_set _ _ _ hi, List.append_assoc]; rfl

/-- `(range' 0 n).mapM (F ∘ getD)` over the whole list is `mapM F` -/
theorem gr_range_mapM (F : Nat → R Nat) : ∀ (l : List Nat) (i : Nat),
    (List.range' i l.length).mapM (fun j => F ((l.getD (j - i) 0))) = l.mapM F := by
  intro l
  induction l with
  | nil => intro i; rfl
  | cons a l ih =>
    intro i
    rw [List.length_cons, List.range'_succ, gr_mapM_cons, gr_mapM_cons, Nat.sub_self]
    have : (List.range' (i+1) l.length).mapM (fun j => F ((a :: l).getD (j - i) 0)) = (List.range' (i+1) l.length).mapM (fun j => F (l.getD (j - (i+1)) 0)) := by
      apply gr_mapM_congr
      intro j hj
      rw [List.mem_range'_1] at hj
      have : j - i = (j - (i+1)) + 1 := by omega
      rw [this]; rfl
    rw [this, ih (i+1)]; rfl

theorem gr_maploop (loop : Nat → Nat → List Nat → R (List Nat)) (F : Nat → R Nat)
    (h0 : ∀ i l, loop 0 i l = .ok l)
    (hs : ∀ n i (l : List Nat) (h : i < l.length), loop (n+1) i l = (F l[i] >>= fun y => loop n (i+1) (l.set i y)))
    (l : List Nat) : loop l.length 0 l = l.mapM F := by
  rw [gr_idxloop loop (fun _ x => F x) l.length h0 (fun n i l h _ => hs n i l h) l.length 0 l (by omega) (Nat.le_refl _)]
  have := gr_range_mapM F l 0
  simp only [Nat.sub_zero] at this
  rw [this]
  cases l.mapM F with
  | error e => rfl
  | ok ys => rfl

/-! ### the component-wise helpers of src/util/polysmallmod.rs -/

theorem gr_modulus_reduce_eq (m : Modulus) (x : Nat) : GenR.modulus_reduce m x = barrett64 x m := by
  unfold GenR.modulus_reduce; exact gw_barrett_reduce_u64_eq x m

theorem gr_add_scalar_inplace_eq (l : List Nat) (s : Nat) (m : Modulus) :
    GenR.add_scalar_inplace l s m = l.mapM (fun x => addMod x s m) := by
  unfold GenR.add_scalar_inplace
  refine gr_maploop (GenR.add_scalar_inplace_loop1 s m) (fun x => addMod x s m) (fun _ _ => rfl) ?_ l
  intro n i l h
  rw [GenR.add_scalar_inplace_loop1]
  simp only [gw_idx_eq _ _ h, bind, Except.bind, gw_add_u64_mod_eq, gx_setIdx_ok _ _ _ h]

theorem gr_sub_scalar_inplace_eq (l : List Nat) (s : Nat) (m : Modulus) :
    GenR.sub_scalar_inplace l s m = l.mapM (fun x => subMod x s m) := by
  unfold GenR.sub_scalar_inplace
  refine gr_maploop (GenR.sub_scalar_inplace_loop1 s m) (fun x => subMod x s m) (fun _ _ => rfl) ?_ l
  intro n i l h
  rw [GenR.sub_scalar_inplace_loop1]
  simp only [gw_idx_eq _ _ h, bind, Except.bind, gw_sub_u64_mod_eq, gx_setIdx_ok _ _ _ h]

theorem gr_multiply_operand_inplace_eq (l : List Nat) (o : MulOperand) (m : Modulus) :
    GenR.multiply_operand_inplace l o m = l.mapM (fun x => mulOperandMod x o m) := by
  unfold GenR.multiply_operand_inplace
  refine gr_maploop (GenR.multiply_operand_inplace_loop1 o m) (fun x => mulOperandMod x o m) (fun _ _ => rfl) ?_ l
  intro n i l h
  rw [GenR.multiply_operand_inplace_loop1]
  simp only [gw_idx_eq _ _ h, bind, Except.bind, gw_multiply_u64operand_mod_eq, gx_setIdx_ok _ _ _ h]

theorem gr_multiply_scalar_inplace_eq (l : List Nat) (s : Nat) (m : Modulus) :
    GenR.multiply_scalar_inplace l s m = l.mapM (fun x => mulMod x s m) := by
  unfold GenR.multiply_scalar_inplace
  refine gr_maploop (GenR.multiply_scalar_inplace_loop1 s m) (fun x => mulMod x s m) (fun _ _ => rfl) ?_ l
  intro n i l h
  rw [GenR.multiply_scalar_inplace_loop1]
  simp only [gw_idx_eq _ _ h, bind, Except.bind, gw_multiply_u64_mod_eq, gx_setIdx_ok _ _ _ h]

theorem gr_negate_inplace_eq (l : List Nat) (m : Modulus) :
    GenR.negate_inplace l m = l.mapM (fun x => negateMod x m) := by
  unfold GenR.negate_inplace
  refine gr_maploop (GenR.negate_inplace_loop1 m.value) (fun x => negateMod x m) (fun _ _ => rfl) ?_ l
  intro n i l h
  rw [GenR.negate_inplace_loop1]
  simp only [gw_idx_eq _ _ h, bind, Except.bind, gx_setIdx_ok _ _ _ h]
  unfold negateMod
  by_cases h0 : l[i] = 0
  · rw [if_neg (by omega), if_pos h0]
  · rw [if_pos h0, if_neg h0]

/-- `modulo(component, modulus, result)` for a result buffer of the component's length: the buffer's old contents are irrelevant -/
theorem gr_modulo_eq (c : List Nat) (m : Modulus) (r : List Nat) (h : r.length = c.length) :
    GenR.modulo c m r = c.mapM (fun x => barrett64 x m) := by
  unfold GenR.modulo
  rw [h, Nat.min_self]
  rw [gr_idxloop (GenR.modulo_loop1 c m) (fun j _ => barrett64 (c.getD j 0) m) c.length (fun _ _ => rfl) (by
    intro n i l hi hc
    rw [GenR.modulo_loop1]
    simp only [gw_idx_eq _ _ hc, bind, Except.bind, gr_modulus_reduce_eq, gx_setIdx_ok _ _ _ hi]
    rw [List.getD_eq_getElem?_getD, List.getElem?_eq_getElem hc]; rfl) c.length 0 r (by omega) (by omega)]
  have := gr_range_mapM (fun x => barrett64 x m) c 0
  simp only [Nat.sub_zero] at this
  rw [this]
  cases c.mapM (fun x => barrett64 x m) with
  | error e => rfl
  | ok ys => rfl

def subModV (a b : Nat) (m : Modulus) : Nat := if (subU64 a b).2 > 0 then wAdd (subU64 a b).1 m.value else (subU64 a b).1
theorem gr_subMod (a b : Nat) (m : Modulus) : subMod a b m = .ok (subModV a b m) := rfl

/-- `sub_inplace(comp1, comp2, modulus)` for `comp2.len() >= comp1.len()` (the code asserts it) -/
theorem gr_sub_inplace_eq (a b : List Nat) (m : Modulus) (h : a.length ≤ b.length) :
    GenR.sub_inplace a b m = (List.range' 0 a.length).mapM (fun j => subMod (a.getD j 0) (b.getD j 0) m) := by
  unfold GenR.sub_inplace
  dsimp only
  rw [if_pos (by omega)]
  rw [gr_idxloop (GenR.sub_inplace_loop1 b m.value) (fun j x => subMod x (b.getD j 0) m) b.length (fun _ _ => rfl) (by
    intro n i l hi hc
    rw [GenR.sub_inplace_loop1]
    simp only [gw_idx_eq _ _ hc, gw_idx_eq _ _ hi, bind, Except.bind, gx_setIdx_ok _ _ _ hi]
    show GenR.sub_inplace_loop1 b m.value n (i + 1) (l.set i (if decide ((subU64 l[i] b[i]).2 ≠ 0) = true then wAdd (subU64 l[i] b[i]).1 m.value else (subU64 l[i] b[i]).1)) = _
    rw [List.getD_eq_getElem?_getD, List.getElem?_eq_getElem hc]
    rw [Option.getD_some, gr_subMod]
    unfold subModV
    congr 2
    by_cases hb : (subU64 l[i] b[i]).2 = 0
    · simp [hb]
    · simp [hb, Nat.pos_of_ne_zero hb]) a.length 0 a (by omega) h]
  cases (List.range' 0 a.length).mapM (fun j => subMod (a.getD j 0) (b.getD j 0) m) with
  | error e => rfl
  | ok ys => rfl

/-! ### flat buffers: `[component i][coefficient j]` at `i * n + j` -/

theorem gr_flat_length (n : Nat) : ∀ (cs : List (List Nat)), (∀ c ∈ cs, c.length = n) → cs.flatten.length = cs.length * n := by
  intro cs
  induction cs with
  | nil => intro _; simp
  | cons c cs ih =>
    intro h
    rw [List.flatten_cons, List.length_append, ih (fun x hx => h x (by simp [hx])), h c (by simp), List.length_cons, Nat.succ_mul]; omega

theorem gr_flat_drop_take (n : Nat) : ∀ (cs : List (List Nat)) (i : Nat), (∀ c ∈ cs, c.length = n) → i < cs.length →
    (cs.flatten.drop (i * n)).take n = cs.getD i [] := by
  intro cs
  induction cs with
  | nil => intro i _ hi; simp at hi
  | cons c cs ih =>
    intro i h hi
    have hc := h c (by simp)
    rw [List.flatten_cons]
    cases i with
    | zero => rw [Nat.zero_mul, List.drop_zero, List.take_left' hc]; rfl
    | succ i =>
      rw [Nat.succ_mul, Nat.add_comm, ← List.drop_drop, List.drop_left' hc, List.getD_cons_succ]
      exact ih i (fun x hx => h x (by simp [hx])) (by simpa using hi)

theorem gr_slice_flat (n : Nat) (cs : List (List Nat)) (i : Nat) (h : ∀ c ∈ cs, c.length = n) (hi : i < cs.length) :
    GenR.slice cs.flatten (i * n) (i * n + n) = .ok (cs.getD i []) := by
  unfold GenR.slice
  have hl := gr_flat_length n cs h
  have : i * n + n ≤ cs.length * n := by
    have := Nat.mul_le_mul_right n (Nat.succ_le_of_lt hi)
    rw [Nat.succ_mul] at this; exact this
  rw [if_pos ⟨by omega, by omega⟩, Nat.add_sub_cancel_left, gr_flat_drop_take n cs i h hi]

theorem gr_splice_flat (n : Nat) : ∀ (cs : List (List Nat)) (i : Nat) (new : List Nat), (∀ c ∈ cs, c.length = n) → i < cs.length →
    new.length = n → GenR.splice cs.flatten (i * n) new = (cs.set i new).flatten := by
  intro cs
  induction cs with
  | nil => intro i _ _ hi; simp at hi
  | cons c cs ih =>
    intro i new h hi hn
    have hc := h c (by simp)
    unfold GenR.splice
    rw [List.flatten_cons]
    cases i with
    | zero =>
      rw [Nat.zero_mul, List.take_zero, Nat.zero_add, hn, List.drop_left' hc]; rfl
    | succ i =>
      have e1 : (i + 1) * n = c.length + i * n := by rw [Nat.succ_mul, hc]; omega
      rw [List.set_cons_succ, List.flatten_cons, e1, List.take_append, List.drop_append,
        List.take_of_length_le (by omega), List.drop_eq_nil_of_le (by omega)]
      have e2 : c.length + i * n - c.length = i * n := by omega
      have e3 : c.length + i * n + new.length - c.length = i * n + new.length := by omega
      rw [e2, e3, List.nil_append, List.append_assoc, List.append_assoc]
      have := ih i new (fun x hx => h x (by simp [hx])) (by simpa using hi) hn
      unfold GenR.splice at this
      rw [List.append_assoc] at this
      rw [this]

theorem gr_set_length_mem (n : Nat) (cs : List (List Nat)) (i : Nat) (new : List Nat) (h : ∀ c ∈ cs, c.length = n) (hn : new.length = n) :
    ∀ c ∈ cs.set i new, c.length = n := by
  intro c hc
  rcases List.mem_or_eq_of_mem_set hc with h1 | h1
  · exact h c h1
  · rw [h1]; exact hn

/-! ### small facts about the checked operations and the list inputs -/
theorem gr_ckAdd_ok {a b : Nat} (h : a + b < 2^64) : ckAdd a b = .ok (a + b) := by
  unfold ckAdd; rw [if_pos (by rw [B64_eq]; exact h)]
theorem gr_ckMul_ok {a b : Nat} (h : a * b < 2^64) : ckMul a b = .ok (a * b) := by
  unfold ckMul; rw [if_pos (by rw [B64_eq]; exact h)]
theorem gr_ckSub_ok {a b : Nat} (h : b ≤ a) : ckSub a b = .ok (a - b) := by
  unfold ckSub; rw [if_pos h]

theorem gr_idxMod_ok (l : List Modulus) (i : Nat) (d : Modulus) (h : i < l.length) : GenR.idxMod l i = .ok (l.getD i d) := by
  unfold GenR.idxMod; rw [List.getD_eq_getElem?_getD, List.getElem?_eq_getElem h]; rfl
theorem gr_idxOp_ok (l : List MulOperand) (i : Nat) (d : MulOperand) (h : i < l.length) : GenR.idxOp l i = .ok (l.getD i d) := by
  unfold GenR.idxOp; rw [List.getD_eq_getElem?_getD, List.getElem?_eq_getElem h]; rfl

def mulOpV (x : Nat) (y : MulOperand) (m : Modulus) : Nat :=
  if mulOperandModLazy x y m ≥ m.value then mulOperandModLazy x y m - m.value else mulOperandModLazy x y m
/-- `multiply_u64operand_mod` never traps -/
theorem gr_mulOperandMod (x : Nat) (y : MulOperand) (m : Modulus) : mulOperandMod x y m = .ok (mulOpV x y m) := by
  unfold mulOperandMod mulOpV
  dsimp only
  by_cases h : mulOperandModLazy x y m ≥ m.value
  · rw [if_pos h, if_pos h]; exact gr_ckSub_ok h
  · rw [if_neg h, if_neg h]; rfl

theorem gr_getD_mem_lt {l : List Nat} {B : Nat} (h : ∀ x ∈ l, x < B) (hB : 0 < B) (j : Nat) : l.getD j 0 < B := by
  rw [List.getD_eq_getElem?_getD]
  by_cases hj : j < l.length
  · rw [List.getElem?_eq_getElem hj]; exact h _ (List.getElem_mem hj)
  · rw [List.getElem?_eq_none (by omega)]; exact hB

theorem gr_ext_getD {α : Type} (d : α) (l1 l2 : List α) (hl : l1.length = l2.length) (h : ∀ j, j < l1.length → l1.getD j d = l2.getD j d) :
    l1 = l2 := by
  apply List.ext_getElem hl
  intro j h1 h2
  have := h j h1
  rw [List.getD_eq_getElem?_getD, List.getD_eq_getElem?_getD, List.getElem?_eq_getElem h1, List.getElem?_eq_getElem h2] at this
  exact this

/-! ### `RNSTool::divide_and_round_q_last_inplace` -/

/-- component `i` after the routine, as a function of the (already `+ half`) last component and the old component -/
def gr_darComp (b : Modulus) (half : Nat) (inv : MulOperand) (lastc ci : List Nat) : List Nat :=
  ((List.range' 0 ci.length).map (fun j => subModV (ci.getD j 0)
      ((lastc.map (fun x => subModV (x % b.value) (half % b.value) b)).getD j 0) b)).map (fun x => mulOpV x inv b)

def gr_dflt : Modulus := ⟨0,0,0,0,0⟩

/-- the component list after `k` iterations of the outer loop starting at `i` -/
def gr_darFold (qs : List Modulus) (invs : List MulOperand) (half s : Nat) : Nat → Nat → List (List Nat) → List (List Nat)
  | 0, _, cs => cs
  | k+1, i, cs => gr_darFold qs invs half s k (i+1)
      (cs.set i (gr_darComp (qs.getD i gr_dflt) half (invs.getD i default) (cs.getD (s-1) []) (cs.getD i [])))

theorem gr_dar_loop (qs : List Modulus) (invs : List MulOperand) (half s n : Nat)
    (hqs : qs.length = s) (hinv : s - 1 ≤ invs.length) (hq : ∀ i, i < s → (qs.getD i gr_dflt).WF) (hsn : s * n < 2^64) (hs64 : s < 2^64) (hh : half < 2^64) :
    ∀ k i (cs : List (List Nat)) (temp : List Nat), i + k = s - 1 → cs.length = s → (∀ c ∈ cs, c.length = n) → temp.length = n →
      (∀ x ∈ cs.getD (s-1) [], x < 2^64) →
      GenR.divide_and_round_q_last_inplace_loop1 s n ((s-1)*n) half qs invs k i cs.flatten temp
        = .ok (gr_darFold qs invs half s k i cs).flatten := by
  intro k
  induction k with
  | zero => intro i cs temp _ _ _ _ _; rfl
  | succ k ih =>
    intro i cs temp hik hcs hn ht hl
    have his : i < s - 1 := by omega
    have hs1 : s - 1 < s := by omega
    have hb := hq i (by omega)
    have hmul : ∀ a, a ≤ s → a * n < 2^64 := fun a ha => Nat.lt_of_le_of_lt (Nat.mul_le_mul_right n ha) hsn
    have hlastlen : (cs.getD (s-1) []).length = n := by
      apply hn; rw [List.getD_eq_getElem?_getD, List.getElem?_eq_getElem (by omega)]; exact List.getElem_mem _
    have hcilen : (cs.getD i []).length = n := by
      apply hn; rw [List.getD_eq_getElem?_getD, List.getElem?_eq_getElem (by omega)]; exact List.getElem_mem _
    have e1 : GenR.idxMod qs i = .ok (qs.getD i gr_dflt) := gr_idxMod_ok qs i _ (by omega)
    have e2 : ckAdd ((s-1)*n) n = .ok ((s-1)*n + n) := gr_ckAdd_ok (by have := hmul s (Nat.le_refl _); rw [← Nat.succ_mul]; rwa [show (s-1).succ = s by omega])
    have e3 : GenR.slice cs.flatten ((s-1)*n) ((s-1)*n + n) = .ok (cs.getD (s-1) []) := gr_slice_flat n cs (s-1) hn (by omega)
    have e4 : GenR.modulo (cs.getD (s-1) []) (qs.getD i gr_dflt) temp = .ok ((cs.getD (s-1) []).map (fun x => x % (qs.getD i gr_dflt).value)) := by
      rw [gr_modulo_eq _ _ _ (by rw [ht, hlastlen])]
      exact gr_mapM_ok _ _ _ (fun x hx => barrett64_exact hb (hl x hx))
    have e5 : GenW.barrett_reduce_u64 half (qs.getD i gr_dflt) = .ok (half % (qs.getD i gr_dflt).value) := by
      rw [gw_barrett_reduce_u64_eq]; exact barrett64_exact hb hh
    have e6 : GenR.sub_scalar_inplace ((cs.getD (s-1) []).map (fun x => x % (qs.getD i gr_dflt).value)) (half % (qs.getD i gr_dflt).value) (qs.getD i gr_dflt)
        = .ok ((cs.getD (s-1) []).map (fun x => subModV (x % (qs.getD i gr_dflt).value) (half % (qs.getD i gr_dflt).value) (qs.getD i gr_dflt))) := by
      rw [gr_sub_scalar_inplace_eq, gr_mapM_ok _ (fun x => subModV x (half % (qs.getD i gr_dflt).value) (qs.getD i gr_dflt)) _ (fun x _ => gr_subMod _ _ _), List.map_map]; rfl
    have e7 : ckMul i n = .ok (i * n) := gr_ckMul_ok (hmul i (by omega))
    have e8 : ckAdd i 1 = .ok (i + 1) := gr_ckAdd_ok (by omega)
    have e9 : ckMul (i+1) n = .ok (i * n + n) := by rw [gr_ckMul_ok (hmul (i+1) (by omega)), Nat.succ_mul]
    have e10 : GenR.slice cs.flatten (i*n) (i*n + n) = .ok (cs.getD i []) := gr_slice_flat n cs i hn (by omega)
    have e11 : GenR.sub_inplace (cs.getD i []) ((cs.getD (s-1) []).map (fun x => subModV (x % (qs.getD i gr_dflt).value) (half % (qs.getD i gr_dflt).value) (qs.getD i gr_dflt))) (qs.getD i gr_dflt)
        = .ok ((List.range' 0 (cs.getD i []).length).map (fun j => subModV ((cs.getD i []).getD j 0)
            (((cs.getD (s-1) []).map (fun x => subModV (x % (qs.getD i gr_dflt).value) (half % (qs.getD i gr_dflt).value) (qs.getD i gr_dflt))).getD j 0) (qs.getD i gr_dflt))) := by
      rw [gr_sub_inplace_eq _ _ _ (by rw [List.length_map, hcilen, hlastlen])]
      exact gr_mapM_ok _ _ _ (fun j _ => gr_subMod _ _ _)
    obtain ⟨d, hd⟩ : ∃ d, d = (List.range' 0 (cs.getD i []).length).map (fun j => subModV ((cs.getD i []).getD j 0)
            (((cs.getD (s-1) []).map (fun x => subModV (x % (qs.getD i gr_dflt).value) (half % (qs.getD i gr_dflt).value) (qs.getD i gr_dflt))).getD j 0) (qs.getD i gr_dflt)) := ⟨_, rfl⟩
    rw [← hd] at e11
    have hdlen : d.length = n := by rw [hd, List.length_map, List.length_range', hcilen]
    have e12 : GenR.splice cs.flatten (i*n) d = (cs.set i d).flatten := gr_splice_flat n cs i d hn (by omega) hdlen
    have hn' := gr_set_length_mem n cs i d hn hdlen
    have e13 : GenR.slice (cs.set i d).flatten (i*n) (i*n + n) = .ok d := by
      rw [gr_slice_flat n (cs.set i d) i hn' (by rw [List.length_set]; omega), List.getD_eq_getElem?_getD, List.getElem?_set_self (by omega)]; rfl
    have e14 : GenR.idxOp invs i = .ok (invs.getD i default) := gr_idxOp_ok invs i _ (by omega)
    have e15 : GenR.multiply_operand_inplace d (invs.getD i default) (qs.getD i gr_dflt) = .ok (d.map (fun x => mulOpV x (invs.getD i default) (qs.getD i gr_dflt))) := by
      rw [gr_multiply_operand_inplace_eq]; exact gr_mapM_ok _ _ _ (fun x _ => gr_mulOperandMod _ _ _)
    have e16 : GenR.splice (cs.set i d).flatten (i*n) (d.map (fun x => mulOpV x (invs.getD i default) (qs.getD i gr_dflt)))
        = (cs.set i (d.map (fun x => mulOpV x (invs.getD i default) (qs.getD i gr_dflt)))).flatten := by
      rw [gr_splice_flat n (cs.set i d) i _ hn' (by rw [List.length_set]; omega) (by rw [List.length_map]; exact hdlen), List.set_set]
    rw [GenR.divide_and_round_q_last_inplace_loop1]
    simp only [e1, e2, e3, e4, e5, e6, e7, e8, e9, e10, e11, e12, e13, e14, e15, e16, bind, Except.bind]
    have hcomp : d.map (fun x => mulOpV x (invs.getD i default) (qs.getD i gr_dflt))
        = gr_darComp (qs.getD i gr_dflt) half (invs.getD i default) (cs.getD (s-1) []) (cs.getD i []) := by rw [hd]; rfl
    rw [hcomp, gr_darFold]
    have hcl : (gr_darComp (qs.getD i gr_dflt) half (invs.getD i default) (cs.getD (s-1) []) (cs.getD i [])).length = n := by
      rw [← hcomp, List.length_map]; exact hdlen
    refine ih (i+1) _ _ (by omega) (by rw [List.length_set]; exact hcs) (gr_set_length_mem n cs i _ hn hcl) (by rw [List.length_map]; exact hlastlen) ?_
    rw [List.getD_eq_getElem?_getD, List.getElem?_set_ne (by omega), ← List.getD_eq_getElem?_getD]
    exact hl

theorem gr_mapM_forall {α β : Type} (f : α → R β) (P : β → Prop) (hf : ∀ x y, f x = .ok y → P y) :
    ∀ (l : List α) (r : List β), l.mapM f = .ok r → ∀ y ∈ r, P y := by
  intro l
  induction l with
  | nil => intro r h; rw [gr_mapM_nil] at h; cases h; intro y hy; cases hy
  | cons a l ih =>
    intro r h
    rw [gr_mapM_cons] at h
    cases hfa : f a with
    | error e => rw [hfa] at h; cases h
    | ok b =>
      rw [hfa, gr_ok_bind] at h
      cases hl : l.mapM f with
      | error e => rw [hl] at h; cases h
      | ok bs =>
        rw [hl, gr_ok_bind] at h; cases h
        intro y hy
        rcases List.mem_cons.mp hy with h1 | h1
        · rw [h1]; exact hf a b hfa
        · exact ih bs hl y h1

theorem gr_addMod_lt (x y : Nat) (m : Modulus) (z : Nat) (h : addMod x y m = .ok z) : z < 2^64 := by
  unfold addMod ckAdd at h
  by_cases hc : x + y < B64
  · rw [if_pos hc] at h
    simp only [bind, Except.bind] at h
    rw [B64_eq] at hc
    by_cases h2 : x + y ≥ m.value
    · rw [if_pos h2, gr_ckSub_ok h2] at h; cases h; omega
    · rw [if_neg h2] at h; cases h; exact hc
  · rw [if_neg hc] at h; cases h

theorem gr_getD_set_ne {α : Type} (l : List α) (i j : Nat) (x d : α) (h : i ≠ j) : (l.set i x).getD j d = l.getD j d := by
  rw [List.getD_eq_getElem?_getD, List.getElem?_set_ne h, ← List.getD_eq_getElem?_getD]
theorem gr_getD_set_self {α : Type} (l : List α) (i : Nat) (x d : α) (h : i < l.length) : (l.set i x).getD i d = x := by
  rw [List.getD_eq_getElem?_getD, List.getElem?_set_self h]; rfl
theorem gr_getD_append_left {α : Type} (l1 l2 : List α) (j : Nat) (d : α) (h : j < l1.length) : (l1 ++ l2).getD j d = l1.getD j d := by
  rw [List.getD_eq_getElem?_getD, List.getElem?_append_left h, ← List.getD_eq_getElem?_getD]
theorem gr_getD_append_right {α : Type} (l1 l2 : List α) (j : Nat) (d : α) (h : l1.length ≤ j) : (l1 ++ l2).getD j d = l2.getD (j - l1.length) d := by
  rw [List.getD_eq_getElem?_getD, List.getElem?_append_right h, ← List.getD_eq_getElem?_getD]
theorem gr_getD_map_range' {α : Type} (F : Nat → α) (k j : Nat) (d : α) (h : j < k) : ((List.range' 0 k).map F).getD j d = F j := by
  rw [List.getD_eq_getElem?_getD, List.getElem?_map, List.getElem?_range' h]; simp

/-- the component list after the whole outer loop: components `i .. i+k-1` replaced, the others untouched -/
theorem gr_darFold_getD (qs : List Modulus) (invs : List MulOperand) (half s : Nat) :
    ∀ k i (cs : List (List Nat)), i + k ≤ s - 1 → cs.length = s →
      (gr_darFold qs invs half s k i cs).length = s ∧ ∀ j, (gr_darFold qs invs half s k i cs).getD j [] =
        if i ≤ j ∧ j < i + k then gr_darComp (qs.getD j gr_dflt) half (invs.getD j default) (cs.getD (s-1) []) (cs.getD j []) else cs.getD j [] := by
  intro k
  induction k with
  | zero => intro i cs _ hcs; exact ⟨hcs, fun j => by rw [if_neg (by omega)]; rfl⟩
  | succ k ih =>
    intro i cs hik hcs
    rw [gr_darFold]
    obtain ⟨h1, h2⟩ := ih (i+1) (cs.set i (gr_darComp (qs.getD i gr_dflt) half (invs.getD i default) (cs.getD (s-1) []) (cs.getD i [])))
      (by omega) (by rw [List.length_set]; exact hcs)
    refine ⟨h1, fun j => ?_⟩
    rw [h2 j]
    have hlast : ∀ x, (cs.set i x).getD (s-1) [] = cs.getD (s-1) [] := by
      intro x; rw [List.getD_eq_getElem?_getD, List.getElem?_set_ne (by omega), ← List.getD_eq_getElem?_getD]
    rw [hlast]
    by_cases hj : j = i
    · subst hj
      rw [if_neg (by omega), if_pos (by omega), List.getD_eq_getElem?_getD, List.getElem?_set_self (by omega)]; rfl
    · have : (cs.set i (gr_darComp (qs.getD i gr_dflt) half (invs.getD i default) (cs.getD (s-1) []) (cs.getD i []))).getD j [] = cs.getD j [] := by
        rw [List.getD_eq_getElem?_getD, List.getElem?_set_ne (by omega), ← List.getD_eq_getElem?_getD]
      rw [this]
      by_cases hc : i + 1 ≤ j ∧ j < i + 1 + k
      · rw [if_pos hc, if_pos (by omega)]
      · rw [if_neg hc, if_neg (by omega)]

/-- the generated routine on a flat buffer of `s` components of length `n` -/
theorem gr_dar_list (qs : List Modulus) (invs : List MulOperand) (s n : Nat) (cs : List (List Nat))
    (hs : 1 ≤ s) (hqs : qs.length = s) (hinv : s - 1 ≤ invs.length) (hq : ∀ i, i < s → (qs.getD i gr_dflt).WF) (hsn : s * n < 2^64) (hs64 : s < 2^64)
    (hcs : cs.length = s) (hn : ∀ c ∈ cs, c.length = n) :
    GenR.divide_and_round_q_last_inplace cs.flatten s qs n invs =
      ((cs.getD (s-1) []).mapM (fun x => addMod x ((qs.getD (s-1) gr_dflt).value / 2) (qs.getD (s-1) gr_dflt)) >>= fun lastc =>
        .ok ((List.range' 0 (s-1)).map (fun i => gr_darComp (qs.getD i gr_dflt) ((qs.getD (s-1) gr_dflt).value / 2) (invs.getD i default) lastc (cs.getD i []))
              ++ [lastc]).flatten) := by
  have hmul : ∀ a, a ≤ s → a * n < 2^64 := fun a ha => Nat.lt_of_le_of_lt (Nat.mul_le_mul_right n ha) hsn
  have hL := hq (s-1) (by omega)
  have e1 : ckSub s 1 = .ok (s-1) := gr_ckSub_ok hs
  have e2 : GenR.idxMod qs (s-1) = .ok (qs.getD (s-1) gr_dflt) := gr_idxMod_ok qs _ _ (by omega)
  have e3 : ckMul (s-1) n = .ok ((s-1)*n) := gr_ckMul_ok (hmul _ (by omega))
  have e4 : ckAdd ((s-1)*n) n = .ok ((s-1)*n + n) := gr_ckAdd_ok (by have := hmul s (Nat.le_refl _); rw [← Nat.succ_mul]; rwa [show (s-1).succ = s by omega])
  have e5 : GenR.slice cs.flatten ((s-1)*n) ((s-1)*n + n) = .ok (cs.getD (s-1) []) := gr_slice_flat n cs (s-1) hn (by omega)
  have hhalf : (qs.getD (s-1) gr_dflt).value >>> 1 = (qs.getD (s-1) gr_dflt).value / 2 := by rw [Nat.shiftRight_eq_div_pow]
  unfold GenR.divide_and_round_q_last_inplace
  simp only [e1, e2, e3, e4, e5, bind, Except.bind, hhalf, gr_add_scalar_inplace_eq]
  cases hm : (cs.getD (s-1) []).mapM (fun x => addMod x ((qs.getD (s-1) gr_dflt).value / 2) (qs.getD (s-1) gr_dflt)) with
  | error e => rfl
  | ok lastc =>
    dsimp only
    have hlastlen : (cs.getD (s-1) []).length = n := by
      apply hn; rw [List.getD_eq_getElem?_getD, List.getElem?_eq_getElem (by omega)]; exact List.getElem_mem _
    have hll : lastc.length = n := by rw [gr_mapM_length _ _ _ hm, hlastlen]
    have hlt : ∀ x ∈ lastc, x < 2^64 := gr_mapM_forall _ (fun z => z < 2^64) (fun x y h => gr_addMod_lt _ _ _ _ h) _ _ hm
    rw [gr_splice_flat n cs (s-1) lastc hn (by omega) hll]
    have hlastget : (cs.set (s-1) lastc).getD (s-1) [] = lastc := by
      rw [List.getD_eq_getElem?_getD, List.getElem?_set_self (by omega)]; rfl
    rw [gr_dar_loop qs invs _ s n hqs hinv hq hsn hs64 (by have := hL.lt; omega) (s-1) 0 (cs.set (s-1) lastc) (List.replicate n 0) (by omega)
      (by rw [List.length_set]; exact hcs) (gr_set_length_mem n cs _ _ hn hll) List.length_replicate (by rw [hlastget]; exact hlt)]
    congr 2
    obtain ⟨h1, h2⟩ := gr_darFold_getD qs invs ((qs.getD (s-1) gr_dflt).value / 2) s (s-1) 0 (cs.set (s-1) lastc) (by omega) (by rw [List.length_set]; exact hcs)
    apply gr_ext_getD [] _ _ (by rw [h1, List.length_append, List.length_map, List.length_range']; simp; omega)
    intro j hj
    rw [h2 j, hlastget]
    by_cases hjs : j < s - 1
    · rw [if_pos (by omega), gr_getD_set_ne _ _ _ _ _ (by omega), gr_getD_append_left _ _ _ _ (by rw [List.length_map, List.length_range']; exact hjs),
        gr_getD_map_range' _ _ _ _ hjs]
    · have : j = s - 1 := by omega
      rw [if_neg (by omega), this, hlastget, gr_getD_append_right _ _ _ _ (by rw [List.length_map, List.length_range']),
        List.length_map, List.length_range', Nat.sub_self]
      rfl

theorem gr_flat_getD (n : Nat) : ∀ (cs : List (List Nat)) (i j : Nat), (∀ c ∈ cs, c.length = n) → i < cs.length → j < n →
    cs.flatten.getD (i * n + j) 0 = (cs.getD i []).getD j 0 := by
  intro cs
  induction cs with
  | nil => intro i j _ hi; simp at hi
  | cons c cs ih =>
    intro i j h hi hj
    have hc := h c (by simp)
    rw [List.flatten_cons]
    cases i with
    | zero => rw [Nat.zero_mul, Nat.zero_add, gr_getD_append_left _ _ _ _ (by omega)]; rfl
    | succ i =>
      rw [gr_getD_append_right _ _ _ _ (by rw [hc, Nat.succ_mul]; omega), List.getD_cons_succ]
      have : (i + 1) * n + j - c.length = i * n + j := by rw [hc, Nat.succ_mul]; omega
      rw [this]
      exact ih i j (fun x hx => h x (by simp [hx])) (by simpa using hi) hj


/-- in-place loop at an offset: position `off + j` is rewritten with `G j old-value` for `j = j0, j0+1, …` -/
theorem gr_offloop (loop : Nat → Nat → List Nat → R (List Nat)) (G : Nat → Nat → R Nat) (off N : Nat)
    (h0 : ∀ j l, loop 0 j l = .ok l)
    (hs : ∀ k j (l : List Nat) (h : off + j < l.length), j < N → loop (k+1) j l = (G j l[off + j] >>= fun y => loop k (j+1) (l.set (off + j) y))) :
    ∀ k j (l : List Nat), j + k ≤ N → off + j + k ≤ l.length →
      loop k j l = ((List.range' j k).mapM (fun j' => G j' (l.getD (off + j') 0)) >>= fun ys => .ok (l.take (off + j) ++ ys ++ l.drop (off + j + k))) := by
  intro k
  induction k with
  | zero =>
    intro j l _ _
    rw [h0, List.range'_zero, gr_mapM_nil, gr_ok_bind, List.append_nil, Nat.add_zero, List.take_append_drop]
  | succ k ih =>
    intro j l hN hl
    have hi : off + j < l.length := by omega
    rw [hs k j l hi (by omega), List.range'_succ, gr_mapM_cons]
    have hg : l.getD (off + j) 0 = l[off + j] := by rw [List.getD_eq_getElem?_getD, List.getElem?_eq_getElem hi]; rfl
    rw [hg]
    cases hG : G j l[off + j] with
    | error e => rfl
    | ok y =>
      rw [gr_ok_bind, gr_ok_bind, ih (j+1) (l.set (off + j) y) (by omega) (by rw [List.length_set]; omega)]
      have hc : (List.range' (j+1) k).mapM (fun j' => G j' ((l.set (off + j) y).getD (off + j') 0)) = (List.range' (j+1) k).mapM (fun j' => G j' (l.getD (off + j') 0)) := by
        apply gr_mapM_congr
        intro j' hj
        rw [List.mem_range'_1] at hj
        rw [gr_getD_set_ne _ _ _ _ _ (by omega)]
      rw [hc]
      cases hm : (List.range' (j+1) k).mapM (fun j' => G j' (l.getD (off + j') 0)) with
      | error e => rfl
      | ok ys =>
        rw [gr_ok_bind, gr_ok_bind, gr_ok_bind]
        have e1 : off + (j + 1) = off + j + 1 := by omega
        have e2 : off + j + (k + 1) = off + j + 1 + k := by omega
        rw [e1, e2, gx_take_set _ _ _ hi, List.drop_set_of_lt (by omega)]
        simp

/-! ### `RNSTool::mod_t_and_divide_q_last_ntt_inplace` (the (i)NTT calls are the abstract function inputs) -/

theorem gr_getD_of_lt (l : List Nat) (j : Nat) (h : j < l.length) : l.getD j 0 = l[j] := by
  rw [List.getD_eq_getElem?_getD, List.getElem?_eq_getElem h]; rfl

theorem gr_getD_of_lt' (cs : List (List Nat)) (i : Nat) (h : i < cs.length) : cs.getD i [] = cs[i] := by
  rw [List.getD_eq_getElem?_getD, List.getElem?_eq_getElem h]; rfl

theorem gr_getD_mem (cs : List (List Nat)) (i : Nat) (h : i < cs.length) : cs.getD i [] ∈ cs := by
  rw [List.getD_eq_getElem?_getD, List.getElem?_eq_getElem h]; exact List.getElem_mem _

theorem gr_mtdn_loop2 (cs : List (List Nat)) (s n : Nat) (b : Modulus) (v6 : List Nat) (hb : b.WF) (hs : 1 ≤ s) (hsn : s * n < 2^64)
    (hcs : cs.length = s) (hn : ∀ c ∈ cs, c.length = n) (hw : ∀ x ∈ cs.getD (s-1) [], x < 2^64) (hv : v6.length = n) (hvb : ∀ x ∈ v6, x < b.value) :
    GenR.mod_t_and_divide_q_last_ntt_inplace_loop2 cs.flatten s n b n 0 v6
      = .ok ((List.range' 0 n).map (fun j => v6.getD j 0 + (cs.getD (s-1) []).getD j 0 % b.value)) := by
  have hfl := gr_flat_length n cs hn
  rw [hcs] at hfl
  have hmul : (s-1) * n + n = s * n := by rw [← Nat.succ_mul]; congr 1; omega
  rw [gr_idxloop (GenR.mod_t_and_divide_q_last_ntt_inplace_loop2 cs.flatten s n b)
    (fun j old => barrett64 (cs.flatten.getD ((s-1)*n + j) 0) b >>= fun cl => ckAdd old cl) n (fun _ _ => rfl) (by
      intro k j l hj hjn
      rw [GenR.mod_t_and_divide_q_last_ntt_inplace_loop2]
      have e1 : ckSub s 1 = .ok (s-1) := gr_ckSub_ok hs
      have e2 : ckMul (s-1) n = .ok ((s-1)*n) := gr_ckMul_ok (by omega)
      have e3 : ckAdd ((s-1)*n) j = .ok ((s-1)*n + j) := gr_ckAdd_ok (by omega)
      have hlt : (s-1)*n + j < cs.flatten.length := by omega
      have e4 : GenW.idx cs.flatten ((s-1)*n + j) = .ok (cs.flatten.getD ((s-1)*n + j) 0) := by rw [gw_idx_eq _ _ hlt, gr_getD_of_lt _ _ hlt]
      simp only [e1, e2, e3, e4, gw_idx_eq _ _ hj, gr_modulus_reduce_eq, bind, Except.bind]
      cases barrett64 (cs.flatten.getD ((s-1)*n + j) 0) b with
      | error e => rfl
      | ok cl => rfl) n 0 v6 (by omega) (by omega)]
  rw [gr_mapM_ok _ (fun j => v6.getD j 0 + (cs.getD (s-1) []).getD j 0 % b.value)]
  · rfl
  · intro j hj
    rw [List.mem_range'_1] at hj
    have hb0 : 0 < b.value := by have := hb.two_le; omega
    rw [gr_flat_getD n cs (s-1) j hn (by omega) (by omega), barrett64_exact hb (gr_getD_mem_lt hw (by norm_num) j), gr_ok_bind]
    have h1 := gr_getD_mem_lt hvb hb0 j
    have h2 := Nat.mod_lt ((cs.getD (s-1) []).getD j 0) hb0
    have := hb.lt
    exact gr_ckAdd_ok (by omega)

theorem gr_mtdn_loop3 (cs : List (List Nat)) (s n i : Nat) (b : Modulus) (v6 : List Nat) (hi : i < s) (hsn : s * n < 2^64)
    (hcs : cs.length = s) (hn : ∀ c ∈ cs, c.length = n) (hv : v6.length = n) :
    GenR.mod_t_and_divide_q_last_ntt_inplace_loop3 n v6 i b n 0 cs.flatten
      = .ok (cs.set i ((List.range' 0 n).map (fun j => subModV ((cs.getD i []).getD j 0) (v6.getD j 0) b))).flatten := by
  have hfl := gr_flat_length n cs hn
  rw [hcs] at hfl
  have hin : i * n + n ≤ s * n := by
    have := Nat.mul_le_mul_right n (Nat.succ_le_of_lt hi); rw [Nat.succ_mul] at this; exact this
  rw [gr_offloop (GenR.mod_t_and_divide_q_last_ntt_inplace_loop3 n v6 i b) (fun j old => .ok (subModV old (v6.getD j 0) b)) (i*n) n (fun _ _ => rfl) (by
      intro k j l hj hjn
      rw [GenR.mod_t_and_divide_q_last_ntt_inplace_loop3]
      have e1 : ckMul i n = .ok (i*n) := gr_ckMul_ok (by omega)
      have e2 : ckAdd (i*n) j = .ok (i*n + j) := gr_ckAdd_ok (by omega)
      have hvj : j < v6.length := by omega
      simp only [e1, e2, gw_idx_eq _ _ hj, gw_idx_eq _ _ hvj, gw_sub_u64_mod_eq, gr_subMod, gx_setIdx_ok _ _ _ hj, bind, Except.bind, gr_getD_of_lt _ _ hvj])
    n 0 cs.flatten (by omega) (by omega)]
  rw [gr_mapM_ok _ (fun j => subModV ((cs.getD i []).getD j 0) (v6.getD j 0) b)]
  · rw [gr_ok_bind, Nat.add_zero, ← gr_splice_flat n cs i _ hn (by omega) (by rw [List.length_map, List.length_range'])]
    unfold GenR.splice
    rw [List.length_map, List.length_range']
  · intro j hj
    rw [List.mem_range'_1] at hj
    rw [gr_flat_getD n cs i j hn (by omega) (by omega)]

/-- component `i` after the routine (`NTi` = the forward NTT of table `i`, `neg` = −c_last·q_last⁻¹ mod t, `lastc` = iNTT of the last component) -/
def gr_mtdnComp (b : Modulus) (lastv : Nat) (inv : MulOperand) (NTi : List Nat → List Nat) (neg lastc ci : List Nat) : List Nat :=
  ((List.range' 0 ci.length).map (fun j => subModV (ci.getD j 0)
      ((NTi ((List.range' 0 ci.length).map (fun j => (neg.map (fun x => (x % b.value * lastv) % b.value)).getD j 0 + lastc.getD j 0 % b.value))).getD j 0) b)).map
    (fun x => mulOpV x inv b)

def gr_mtdnFold (qs : List Modulus) (invs : List MulOperand) (NT : Nat → List Nat → List Nat) (lastv s : Nat) (neg : List Nat) :
    Nat → Nat → List (List Nat) → List (List Nat)
  | 0, _, cs => cs
  | k+1, i, cs => gr_mtdnFold qs invs NT lastv s neg k (i+1)
      (cs.set i (gr_mtdnComp (qs.getD i gr_dflt) lastv (invs.getD i default) (NT i) neg (cs.getD (s-1) []) (cs.getD i [])))

theorem gr_mtdn_loop (qs : List Modulus) (invs : List MulOperand) (NT : Nat → List Nat → List Nat) (lastv s n : Nat) (neg : List Nat)
    (hqs : qs.length = s) (hinv : s - 1 ≤ invs.length) (hq : ∀ i, i < s → (qs.getD i gr_dflt).WF) (hsn : s * n < 2^64) (hs64 : s < 2^64)
    (hlv : lastv < 2^64) (hneg : neg.length = n) (hnegw : ∀ x ∈ neg, x < 2^64) (hNT : ∀ i x, i < s - 1 → x.length = n → (∀ y ∈ x, y < 2 * (qs.getD i gr_dflt).value) → (NT i x).length = n) :
    ∀ k i (cs : List (List Nat)) (temp : List Nat), i + k = s - 1 → cs.length = s → (∀ c ∈ cs, c.length = n) → temp.length = n →
      (∀ x ∈ cs.getD (s-1) [], x < 2^64) →
      GenR.mod_t_and_divide_q_last_ntt_inplace_loop1 s lastv n neg qs (fun i x => .ok (NT i x)) invs k i cs.flatten temp
        = .ok (gr_mtdnFold qs invs NT lastv s neg k i cs).flatten := by
  intro k
  induction k with
  | zero => intro i cs temp _ _ _ _ _; rfl
  | succ k ih =>
    intro i cs temp hik hcs hn ht hl
    have hb := hq i (by omega)
    have hb0 : 0 < (qs.getD i gr_dflt).value := by have := hb.two_le; omega
    have hmul : ∀ a, a ≤ s → a * n < 2^64 := fun a ha => Nat.lt_of_le_of_lt (Nat.mul_le_mul_right n ha) hsn
    have hcilen : (cs.getD i []).length = n := hn _ (gr_getD_mem cs i (by omega))
    have e1 : GenR.idxMod qs i = .ok (qs.getD i gr_dflt) := gr_idxMod_ok qs i _ (by omega)
    have e2 : GenR.modulo neg (qs.getD i gr_dflt) temp = .ok (neg.map (fun x => x % (qs.getD i gr_dflt).value)) := by
      rw [gr_modulo_eq _ _ _ (by rw [ht, hneg])]
      exact gr_mapM_ok _ _ _ (fun x hx => barrett64_exact hb (hnegw x hx))
    have e3 : GenR.multiply_scalar_inplace (neg.map (fun x => x % (qs.getD i gr_dflt).value)) lastv (qs.getD i gr_dflt)
        = .ok (neg.map (fun x => (x % (qs.getD i gr_dflt).value * lastv) % (qs.getD i gr_dflt).value)) := by
      rw [gr_multiply_scalar_inplace_eq, gr_mapM_ok _ (fun x => (x * lastv) % (qs.getD i gr_dflt).value), List.map_map]; rfl
      intro x hx
      obtain ⟨y, -, rfl⟩ := List.mem_map.mp hx
      have := Nat.mod_lt y hb0; have := hb.lt
      exact mulMod_exact hb (by omega) hlv
    obtain ⟨d0, hd0⟩ : ∃ d0, d0 = neg.map (fun x => (x % (qs.getD i gr_dflt).value * lastv) % (qs.getD i gr_dflt).value) := ⟨_, rfl⟩
    rw [← hd0] at e3
    have hd0len : d0.length = n := by rw [hd0, List.length_map, hneg]
    have hd0b : ∀ x ∈ d0, x < (qs.getD i gr_dflt).value := by
      intro x hx; rw [hd0] at hx; obtain ⟨y, -, rfl⟩ := List.mem_map.mp hx; exact Nat.mod_lt _ hb0
    have e4 := gr_mtdn_loop2 cs s n (qs.getD i gr_dflt) d0 hb (by omega) hsn hcs hn hl hd0len hd0b
    obtain ⟨d1, hd1⟩ : ∃ d1, d1 = (List.range' 0 n).map (fun j => d0.getD j 0 + (cs.getD (s-1) []).getD j 0 % (qs.getD i gr_dflt).value) := ⟨_, rfl⟩
    rw [← hd1] at e4
    have hd1len : d1.length = n := by rw [hd1, List.length_map, List.length_range']
    have hd1b : ∀ y ∈ d1, y < 2 * (qs.getD i gr_dflt).value := by
      intro y hy
      rw [hd1] at hy
      obtain ⟨j, -, rfl⟩ := List.mem_map.mp hy
      have h1 := gr_getD_mem_lt hd0b hb0 j
      have h2 := Nat.mod_lt ((cs.getD (s-1) []).getD j 0) hb0
      omega
    have hd2len := hNT i d1 (by omega) hd1len hd1b
    have e5 := gr_mtdn_loop3 cs s n i (qs.getD i gr_dflt) (NT i d1) (by omega) hsn hcs hn hd2len
    obtain ⟨d, hd⟩ : ∃ d, d = (List.range' 0 n).map (fun j => subModV ((cs.getD i []).getD j 0) ((NT i d1).getD j 0) (qs.getD i gr_dflt)) := ⟨_, rfl⟩
    rw [← hd] at e5
    have hdlen : d.length = n := by rw [hd, List.length_map, List.length_range']
    have hn' := gr_set_length_mem n cs i d hn hdlen
    have e7 : ckMul i n = .ok (i * n) := gr_ckMul_ok (hmul i (by omega))
    have e8 : ckAdd i 1 = .ok (i + 1) := gr_ckAdd_ok (by omega)
    have e9 : ckMul (i+1) n = .ok (i * n + n) := by rw [gr_ckMul_ok (hmul (i+1) (by omega)), Nat.succ_mul]
    have e13 : GenR.slice (cs.set i d).flatten (i*n) (i*n + n) = .ok d := by
      rw [gr_slice_flat n (cs.set i d) i hn' (by rw [List.length_set]; omega), gr_getD_set_self _ _ _ _ (by omega)]
    have e14 : GenR.idxOp invs i = .ok (invs.getD i default) := gr_idxOp_ok invs i _ (by omega)
    have e15 : GenR.multiply_operand_inplace d (invs.getD i default) (qs.getD i gr_dflt) = .ok (d.map (fun x => mulOpV x (invs.getD i default) (qs.getD i gr_dflt))) := by
      rw [gr_multiply_operand_inplace_eq]; exact gr_mapM_ok _ _ _ (fun x _ => gr_mulOperandMod _ _ _)
    have e16 : GenR.splice (cs.set i d).flatten (i*n) (d.map (fun x => mulOpV x (invs.getD i default) (qs.getD i gr_dflt)))
        = (cs.set i (d.map (fun x => mulOpV x (invs.getD i default) (qs.getD i gr_dflt)))).flatten := by
      rw [gr_splice_flat n (cs.set i d) i _ hn' (by rw [List.length_set]; omega) (by rw [List.length_map]; exact hdlen), List.set_set]
    rw [GenR.mod_t_and_divide_q_last_ntt_inplace_loop1]
    simp only [e1, e2, e3, e4, e5, e7, e8, e9, e13, e14, e15, e16, bind, Except.bind]
    have hcomp : d.map (fun x => mulOpV x (invs.getD i default) (qs.getD i gr_dflt))
        = gr_mtdnComp (qs.getD i gr_dflt) lastv (invs.getD i default) (NT i) neg (cs.getD (s-1) []) (cs.getD i []) := by
      rw [hd, hd1, hd0]; unfold gr_mtdnComp; rw [hcilen]
    rw [hcomp, gr_mtdnFold]
    have hcl : (gr_mtdnComp (qs.getD i gr_dflt) lastv (invs.getD i default) (NT i) neg (cs.getD (s-1) []) (cs.getD i [])).length = n := by
      rw [← hcomp, List.length_map]; exact hdlen
    refine ih (i+1) _ _ (by omega) (by rw [List.length_set]; exact hcs) (gr_set_length_mem n cs i _ hn hcl) hd2len ?_
    rw [gr_getD_set_ne _ _ _ _ _ (by omega)]
    exact hl

theorem gr_mtdnFold_getD (qs : List Modulus) (invs : List MulOperand) (NT : Nat → List Nat → List Nat) (lastv s : Nat) (neg : List Nat) :
    ∀ k i (cs : List (List Nat)), i + k ≤ s - 1 → cs.length = s →
      (gr_mtdnFold qs invs NT lastv s neg k i cs).length = s ∧ ∀ j, (gr_mtdnFold qs invs NT lastv s neg k i cs).getD j [] =
        if i ≤ j ∧ j < i + k then gr_mtdnComp (qs.getD j gr_dflt) lastv (invs.getD j default) (NT j) neg (cs.getD (s-1) []) (cs.getD j []) else cs.getD j [] := by
  intro k
  induction k with
  | zero => intro i cs _ hcs; exact ⟨hcs, fun j => by rw [if_neg (by omega)]; rfl⟩
  | succ k ih =>
    intro i cs hik hcs
    rw [gr_mtdnFold]
    obtain ⟨h1, h2⟩ := ih (i+1) (cs.set i (gr_mtdnComp (qs.getD i gr_dflt) lastv (invs.getD i default) (NT i) neg (cs.getD (s-1) []) (cs.getD i [])))
      (by omega) (by rw [List.length_set]; exact hcs)
    refine ⟨h1, fun j => ?_⟩
    rw [h2 j, gr_getD_set_ne _ _ (s-1) _ _ (by omega)]
    by_cases hj : j = i
    · subst hj
      rw [if_neg (by omega), if_pos (by omega), gr_getD_set_self _ _ _ _ (by omega)]
    · rw [gr_getD_set_ne _ _ j _ _ (by omega)]
      by_cases hc : i + 1 ≤ j ∧ j < i + 1 + k
      · rw [if_pos hc, if_pos (by omega)]
      · rw [if_neg hc, if_neg (by omega)]

/-- `neg_c_last_mod_t`: −c_last (mod t), times q_last⁻¹ (mod t) unless that inverse is 1 -/
def gr_negList (t : Modulus) (invt : Nat) (lastc : List Nat) : List Nat :=
  if invt ≠ 1 then (lastc.map (fun x => (t.value - x % t.value) % t.value)).map (fun x => (x * invt) % t.value)
  else lastc.map (fun x => (t.value - x % t.value) % t.value)

theorem gr_negList_length (t : Modulus) (invt : Nat) (lastc : List Nat) : (gr_negList t invt lastc).length = lastc.length := by
  unfold gr_negList; split <;> simp

theorem gr_negList_lt (t : Modulus) (ht : t.WF) (invt : Nat) (lastc : List Nat) : ∀ x ∈ gr_negList t invt lastc, x < 2^64 := by
  have ht0 : 0 < t.value := by have := ht.two_le; omega
  have := ht.lt
  intro x hx
  unfold gr_negList at hx
  split at hx
  · obtain ⟨y, -, rfl⟩ := List.mem_map.mp hx; have := Nat.mod_lt (y * invt) ht0; omega
  · obtain ⟨y, -, rfl⟩ := List.mem_map.mp hx; have := Nat.mod_lt (t.value - y % t.value) ht0; omega

/-- the three passes that build `neg_c_last_mod_t` (modulo, negate_inplace, conditional multiply_scalar_inplace) -/
theorem gr_neg_passes (t : Modulus) (ht : t.WF) (invt : Nat) (hinvt : invt < 2^64) (lastc buf : List Nat) (hbuf : buf.length = lastc.length)
    (hw : ∀ x ∈ lastc, x < 2^64) :
    ∃ v1 v2, GenR.modulo lastc t buf = .ok v1 ∧ GenR.negate_inplace v1 t = .ok v2 ∧
      (if invt ≠ 1 then GenR.multiply_scalar_inplace v2 invt t else pure v2) = .ok (gr_negList t invt lastc) := by
  have ht0 : 0 < t.value := by have := ht.two_le; omega
  have h61 := ht.lt
  refine ⟨lastc.map (fun x => x % t.value), (lastc.map (fun x => x % t.value)).map (fun y => (t.value - y) % t.value), ?_, ?_, ?_⟩
  · rw [gr_modulo_eq _ _ _ hbuf]; exact gr_mapM_ok _ _ _ (fun x hx => barrett64_exact ht (hw x hx))
  · rw [gr_negate_inplace_eq]
    apply gr_mapM_ok
    intro x hx
    obtain ⟨y, -, rfl⟩ := List.mem_map.mp hx
    exact negateMod_exact ht (Nat.mod_lt _ ht0).le
  · unfold gr_negList
    rw [List.map_map]
    by_cases h1 : invt ≠ 1
    · rw [if_pos h1, if_pos h1, gr_multiply_scalar_inplace_eq, gr_mapM_ok _ (fun x => (x * invt) % t.value)]
      · rfl
      · intro x hx
        obtain ⟨y, -, rfl⟩ := List.mem_map.mp hx
        have := Nat.mod_lt (t.value - y % t.value) ht0
        exact mulMod_exact ht (by simp only [Function.comp]; omega) hinvt
    · rw [if_neg h1, if_neg h1]; rfl

/-- the generated routine on a flat buffer (`IT`, `NT` = what the abstract (i)NTT inputs return; both keep the length `n`) -/
theorem gr_mtdn_list (qs : List Modulus) (invs : List MulOperand) (t : Modulus) (invt s n : Nat) (IT NT : Nat → List Nat → List Nat) (cs : List (List Nat))
    (hs : 1 ≤ s) (hqs : qs.length = s) (hinv : s - 1 ≤ invs.length) (hq : ∀ i, i < s → (qs.getD i gr_dflt).WF) (ht : t.WF) (hinvt : invt < 2^64)
    (hsn : s * n < 2^64) (hs64 : s < 2^64) (hcs : cs.length = s) (hn : ∀ c ∈ cs, c.length = n)
    (hIT : (IT (s-1) (cs.getD (s-1) [])).length = n) (hITw : ∀ x ∈ IT (s-1) (cs.getD (s-1) []), x < 2^64)
    (hNT : ∀ i x, i < s - 1 → x.length = n → (∀ y ∈ x, y < 2 * (qs.getD i gr_dflt).value) → (NT i x).length = n) :
    GenR.mod_t_and_divide_q_last_ntt_inplace cs.flatten s qs n invs t invt (fun i x => .ok (IT i x)) (fun i x => .ok (NT i x)) =
      .ok ((List.range' 0 (s-1)).map (fun i => gr_mtdnComp (qs.getD i gr_dflt) (qs.getD (s-1) gr_dflt).value (invs.getD i default) (NT i)
              (gr_negList t invt (IT (s-1) (cs.getD (s-1) []))) (IT (s-1) (cs.getD (s-1) [])) (cs.getD i []))
            ++ [IT (s-1) (cs.getD (s-1) [])]).flatten := by
  have hmul : ∀ a, a ≤ s → a * n < 2^64 := fun a ha => Nat.lt_of_le_of_lt (Nat.mul_le_mul_right n ha) hsn
  have hsn' : s * n = (s-1) * n + n := by rw [← Nat.succ_mul]; congr 1; omega
  have hL := hq (s-1) (by omega)
  obtain ⟨lastc, hlc⟩ : ∃ lastc, lastc = IT (s-1) (cs.getD (s-1) []) := ⟨_, rfl⟩
  rw [← hlc] at hIT hITw ⊢
  have e1 : ckSub s 1 = .ok (s-1) := gr_ckSub_ok hs
  have e2 : GenR.idxMod qs (s-1) = .ok (qs.getD (s-1) gr_dflt) := gr_idxMod_ok qs _ _ (by omega)
  have e3 : ckMul (s-1) n = .ok ((s-1)*n) := gr_ckMul_ok (hmul _ (by omega))
  have e4 : ckMul s n = .ok ((s-1)*n + n) := by rw [gr_ckMul_ok (hmul _ (Nat.le_refl _)), hsn']
  have e5 : GenR.slice cs.flatten ((s-1)*n) ((s-1)*n + n) = .ok (cs.getD (s-1) []) := gr_slice_flat n cs (s-1) hn (by omega)
  have e6 : GenR.splice cs.flatten ((s-1)*n) lastc = (cs.set (s-1) lastc).flatten := gr_splice_flat n cs (s-1) lastc hn (by omega) hIT
  have hn' := gr_set_length_mem n cs (s-1) lastc hn hIT
  have hlastget : (cs.set (s-1) lastc).getD (s-1) [] = lastc := gr_getD_set_self _ _ _ _ (by omega)
  have e7 : GenR.slice (cs.set (s-1) lastc).flatten ((s-1)*n) ((s-1)*n + n) = .ok lastc := by
    rw [gr_slice_flat n _ (s-1) hn' (by rw [List.length_set]; omega), hlastget]
  obtain ⟨w1, w2, e8, e9, e10⟩ := gr_neg_passes t ht invt hinvt lastc (List.replicate n 0) (by rw [List.length_replicate, hIT]) hITw
  unfold GenR.mod_t_and_divide_q_last_ntt_inplace
  simp only [e1, e2, e3, e4, e5, ← hlc, e6, e7, e8, e9, e10, bind, Except.bind]
  rw [gr_mtdn_loop qs invs NT _ s n _ hqs hinv hq hsn hs64 (by have := hL.lt; omega) (by rw [gr_negList_length, hIT]) (gr_negList_lt t ht invt lastc) hNT
    (s-1) 0 (cs.set (s-1) lastc) (List.replicate n 0) (by omega) (by rw [List.length_set]; exact hcs) hn' List.length_replicate (by rw [hlastget]; exact hITw)]
  congr 2
  obtain ⟨h1, h2⟩ := gr_mtdnFold_getD qs invs NT (qs.getD (s-1) gr_dflt).value s (gr_negList t invt lastc) (s-1) 0 (cs.set (s-1) lastc) (by omega) (by rw [List.length_set]; exact hcs)
  apply gr_ext_getD [] _ _ (by rw [h1, List.length_append, List.length_map, List.length_range']; simp; omega)
  intro j hj
  rw [h2 j, hlastget]
  by_cases hjs : j < s - 1
  · rw [if_pos (by omega), gr_getD_set_ne _ _ _ _ _ (by omega), gr_getD_append_left _ _ _ _ (by rw [List.length_map, List.length_range']; exact hjs),
      gr_getD_map_range' _ _ _ _ hjs]
  · have : j = s - 1 := by omega
    rw [if_neg (by omega), this, hlastget, gr_getD_append_right _ _ _ _ (by rw [List.length_map, List.length_range']),
      List.length_map, List.length_range', Nat.sub_self]
    rfl

/-! ### loops whose per-component step can trap: the monadic fold over components -/

/-- the component list after `k` iterations starting at `i`, each replacing component `i` by `comp i cs` (which may trap) -/
def gr_foldM (comp : Nat → List (List Nat) → R (List Nat)) : Nat → Nat → List (List Nat) → R (List (List Nat))
  | 0, _, cs => .ok cs
  | k+1, i, cs => comp i cs >>= fun c => gr_foldM comp k (i+1) (cs.set i c)

/-- if `comp i` reads only component `i` and the (untouched) component `L`, the fold is a `mapM` over the ORIGINAL components -/
theorem gr_foldM_eq (comp : Nat → List (List Nat) → R (List Nat)) (L : Nat)
    (hc : ∀ i (cs cs' : List (List Nat)), cs.getD i [] = cs'.getD i [] → cs.getD L [] = cs'.getD L [] → comp i cs = comp i cs') :
    ∀ k i (cs : List (List Nat)), i + k ≤ L → L < cs.length →
      gr_foldM comp k i cs = ((List.range' i k).mapM (fun i' => comp i' cs) >>= fun outs => .ok (cs.take i ++ outs ++ cs.drop (i + k))) := by
  intro k
  induction k with
  | zero => intro i cs _ _; rw [gr_foldM, List.range'_zero, gr_mapM_nil, gr_ok_bind, List.append_nil, Nat.add_zero, List.take_append_drop]
  | succ k ih =>
    intro i cs hik hL
    rw [gr_foldM, List.range'_succ, gr_mapM_cons]
    cases hci : comp i cs with
    | error e => rfl
    | ok c =>
      rw [gr_ok_bind, gr_ok_bind, ih (i+1) (cs.set i c) (by omega) (by rw [List.length_set]; exact hL)]
      have hcg : (List.range' (i+1) k).mapM (fun i' => comp i' (cs.set i c)) = (List.range' (i+1) k).mapM (fun i' => comp i' cs) := by
        apply gr_mapM_congr
        intro i' hi'
        rw [List.mem_range'_1] at hi'
        exact hc i' _ _ (gr_getD_set_ne _ _ _ _ _ (by omega)) (gr_getD_set_ne _ _ _ _ _ (by omega))
      rw [hcg]
      cases (List.range' (i+1) k).mapM (fun i' => comp i' cs) with
      | error e => rfl
      | ok outs =>
        rw [gr_ok_bind, gr_ok_bind, gr_ok_bind]
        have e2 : i + (k + 1) = i + 1 + k := by omega
        have hi : i < cs.length := by omega
        have ht : (cs.set i c).take (i + 1) = cs.take i ++ [c] := by
          rw [List.take_succ_eq_append_getElem (by rw [List.length_set]; exact hi), List.getElem_set_self, List.take_set_of_le (Nat.le_refl i)]
        rw [e2, ht, List.drop_set_of_lt (by omega)]
        simp

/-- in-place loop at an offset that also READS the buffer elsewhere: `Inv` describes what the loop may rely on and is kept by its writes -/
theorem gr_offloop_inv (loop : Nat → Nat → List Nat → R (List Nat)) (G : Nat → Nat → R Nat) (off N : Nat) (Inv : List Nat → Prop)
    (hInv : ∀ (l : List Nat) j y, Inv l → j < N → Inv (l.set (off + j) y))
    (h0 : ∀ j l, loop 0 j l = .ok l)
    (hs : ∀ k j (l : List Nat) (h : off + j < l.length), j < N → Inv l → loop (k+1) j l = (G j l[off + j] >>= fun y => loop k (j+1) (l.set (off + j) y))) :
    ∀ k j (l : List Nat), j + k ≤ N → off + j + k ≤ l.length → Inv l →
      loop k j l = ((List.range' j k).mapM (fun j' => G j' (l.getD (off + j') 0)) >>= fun ys => .ok (l.take (off + j) ++ ys ++ l.drop (off + j + k))) := by
  intro k
  induction k with
  | zero =>
    intro j l _ _ _
    rw [h0, List.range'_zero, gr_mapM_nil, gr_ok_bind, List.append_nil, Nat.add_zero, List.take_append_drop]
  | succ k ih =>
    intro j l hN hl hI
    have hi : off + j < l.length := by omega
    rw [hs k j l hi (by omega) hI, List.range'_succ, gr_mapM_cons]
    have hg : l.getD (off + j) 0 = l[off + j] := by rw [List.getD_eq_getElem?_getD, List.getElem?_eq_getElem hi]; rfl
    rw [hg]
    cases hG : G j l[off + j] with
    | error e => rfl
    | ok y =>
      rw [gr_ok_bind, gr_ok_bind, ih (j+1) (l.set (off + j) y) (by omega) (by rw [List.length_set]; omega) (hInv l j y hI (by omega))]
      have hc : (List.range' (j+1) k).mapM (fun j' => G j' ((l.set (off + j) y).getD (off + j') 0)) = (List.range' (j+1) k).mapM (fun j' => G j' (l.getD (off + j') 0)) := by
        apply gr_mapM_congr
        intro j' hj
        rw [List.mem_range'_1] at hj
        rw [gr_getD_set_ne _ _ _ _ _ (by omega)]
      rw [hc]
      cases hm : (List.range' (j+1) k).mapM (fun j' => G j' (l.getD (off + j') 0)) with
      | error e => rfl
      | ok ys =>
        rw [gr_ok_bind, gr_ok_bind, gr_ok_bind]
        have e1 : off + (j + 1) = off + j + 1 := by omega
        have e2 : off + j + (k + 1) = off + j + 1 + k := by omega
        rw [e1, e2, gx_take_set _ _ _ hi, List.drop_set_of_lt (by omega)]
        simp

/-! ### `RNSTool::divide_and_round_q_last_ntt_inplace` (lazy arithmetic: the per-component step can trap) -/

theorem gr_slice_all (l : List Nat) (n : Nat) (h : l.length = n) : GenR.slice l 0 n = .ok l := by
  unfold GenR.slice; rw [if_pos ⟨Nat.zero_le _, by omega⟩, List.drop_zero, Nat.sub_zero, ← h, List.take_length]

theorem gr_set_uint_eq (src tgt : List Nat) (n : Nat) (h1 : src.length = n) (h2 : tgt.length = n) : GenR.set_uint src n tgt = .ok src := by
  unfold GenR.set_uint
  simp only [gr_slice_all _ _ h1, gr_slice_all _ _ h2, bind, Except.bind]
  unfold GenR.copySlice GenR.splice
  rw [if_pos (by omega), List.take_zero, Nat.zero_add, List.drop_eq_nil_of_le (by omega)]; simp

/-- component `i`: `temp = (c_last mod q_i  or  c_last) + (q_i − half mod q_i)` (checked), lazy NTT, `c_i + (4 q_i − temp)` (checked), times the inverse -/
def gr_darnComp (b qL : Modulus) (half : Nat) (inv : MulOperand) (NLi : List Nat → List Nat) (lastc ci : List Nat) : R (List Nat) :=
  (if b.value < qL.value then lastc.map (fun x => x % b.value) else lastc).mapM (fun x => ckAdd x (b.value - half % b.value)) >>= fun temp1 =>
  (List.range' 0 ci.length).mapM (fun j => ckSub (b.value * 4) ((NLi temp1).getD j 0) >>= fun z => ckAdd (ci.getD j 0) z) >>= fun d =>
  .ok (d.map (fun x => mulOpV x inv b))

theorem gr_darn_loop2 (n v9 : Nat) (temp : List Nat) (h : temp.length = n) :
    GenR.divide_and_round_q_last_ntt_inplace_loop2 n v9 n 0 temp = temp.mapM (fun x => ckAdd x v9) := by
  rw [← h]
  refine gr_maploop (GenR.divide_and_round_q_last_ntt_inplace_loop2 temp.length v9) (fun x => ckAdd x v9) (fun _ _ => rfl) ?_ temp
  intro k i l hi
  rw [GenR.divide_and_round_q_last_ntt_inplace_loop2]
  simp only [gw_idx_eq _ _ hi, bind, Except.bind]

theorem gr_darn_loop3 (cs : List (List Nat)) (s n i v11 : Nat) (v6 : List Nat) (hi : i < s) (hsn : s * n < 2^64)
    (hcs : cs.length = s) (hn : ∀ c ∈ cs, c.length = n) (hv : v6.length = n) :
    GenR.divide_and_round_q_last_ntt_inplace_loop3 n v6 i v11 n 0 cs.flatten
      = ((List.range' 0 n).mapM (fun j => ckSub v11 (v6.getD j 0) >>= fun z => ckAdd ((cs.getD i []).getD j 0) z) >>= fun d => .ok (cs.set i d).flatten) := by
  have hfl := gr_flat_length n cs hn
  rw [hcs] at hfl
  have hin : i * n + n ≤ s * n := by
    have := Nat.mul_le_mul_right n (Nat.succ_le_of_lt hi); rw [Nat.succ_mul] at this; exact this
  rw [gr_offloop (GenR.divide_and_round_q_last_ntt_inplace_loop3 n v6 i v11) (fun j old => ckSub v11 (v6.getD j 0) >>= fun z => ckAdd old z) (i*n) n (fun _ _ => rfl) (by
      intro k j l hj hjn
      rw [GenR.divide_and_round_q_last_ntt_inplace_loop3]
      have e1 : ckMul i n = .ok (i*n) := gr_ckMul_ok (by omega)
      have e2 : ckAdd (i*n) j = .ok (i*n + j) := gr_ckAdd_ok (by omega)
      have hvj : j < v6.length := by omega
      simp only [e1, e2, gw_idx_eq _ _ hj, gw_idx_eq _ _ hvj, bind, Except.bind, gr_getD_of_lt _ _ hvj]
      cases ckSub v11 v6[j] with
      | error e => rfl
      | ok z => rfl)
    n 0 cs.flatten (by omega) (by omega)]
  have hcg : (List.range' 0 n).mapM (fun j' => ckSub v11 (v6.getD j' 0) >>= fun z => ckAdd (cs.flatten.getD (i * n + j') 0) z)
      = (List.range' 0 n).mapM (fun j => ckSub v11 (v6.getD j 0) >>= fun z => ckAdd ((cs.getD i []).getD j 0) z) := by
    apply gr_mapM_congr
    intro j hj
    rw [List.mem_range'_1] at hj
    rw [gr_flat_getD n cs i j hn (by omega) (by omega)]
  rw [hcg]
  cases hm : (List.range' 0 n).mapM (fun j => ckSub v11 (v6.getD j 0) >>= fun z => ckAdd ((cs.getD i []).getD j 0) z) with
  | error e => rfl
  | ok d =>
    have hdl : d.length = n := by rw [gr_mapM_length _ _ _ hm, List.length_range']
    rw [gr_ok_bind, gr_ok_bind, Nat.add_zero, ← gr_splice_flat n cs i d hn (by omega) hdl]
    unfold GenR.splice
    rw [hdl]

theorem gr_darn_loop (qs : List Modulus) (invs : List MulOperand) (NL : Nat → List Nat → List Nat) (qL : Modulus) (half s n : Nat)
    (hqs : qs.length = s) (hinv : s - 1 ≤ invs.length) (hq : ∀ i, i < s → (qs.getD i gr_dflt).WF) (hsn : s * n < 2^64) (hs64 : s < 2^64)
    (hh : half < 2^64) (hNL : ∀ i x, i < s - 1 → x.length = n → (NL i x).length = n) :
    ∀ k i (cs : List (List Nat)) (temp : List Nat), i + k = s - 1 → cs.length = s → (∀ c ∈ cs, c.length = n) → temp.length = n →
      (∀ x ∈ cs.getD (s-1) [], x < 2^64) →
      GenR.divide_and_round_q_last_ntt_inplace_loop1 s qL n ((s-1)*n) half qs (fun i x => .ok (NL i x)) invs k i cs.flatten temp
        = (gr_foldM (fun i cs => gr_darnComp (qs.getD i gr_dflt) qL half (invs.getD i default) (NL i) (cs.getD (s-1) []) (cs.getD i [])) k i cs
            >>= fun cs' => .ok cs'.flatten) := by
  intro k
  induction k with
  | zero => intro i cs temp _ _ _ _ _; rfl
  | succ k ih =>
    intro i cs temp hik hcs hn ht hl
    have hb := hq i (by omega)
    have hb0 : 0 < (qs.getD i gr_dflt).value := by have := hb.two_le; omega
    have hb61 := hb.lt
    have hmul : ∀ a, a ≤ s → a * n < 2^64 := fun a ha => Nat.lt_of_le_of_lt (Nat.mul_le_mul_right n ha) hsn
    have hcilen : (cs.getD i []).length = n := hn _ (gr_getD_mem cs i (by omega))
    have hlastlen : (cs.getD (s-1) []).length = n := hn _ (gr_getD_mem cs (s-1) (by omega))
    have e1 : GenR.idxMod qs i = .ok (qs.getD i gr_dflt) := gr_idxMod_ok qs i _ (by omega)
    have e2 : ckAdd ((s-1)*n) n = .ok ((s-1)*n + n) := gr_ckAdd_ok (by have := hmul s (Nat.le_refl _); rw [← Nat.succ_mul]; rwa [show (s-1).succ = s by omega])
    have e3 : GenR.slice cs.flatten ((s-1)*n) ((s-1)*n + n) = .ok (cs.getD (s-1) []) := gr_slice_flat n cs (s-1) hn (by omega)
    have e4 : GenR.modulo (cs.getD (s-1) []) (qs.getD i gr_dflt) temp = .ok ((cs.getD (s-1) []).map (fun x => x % (qs.getD i gr_dflt).value)) := by
      rw [gr_modulo_eq _ _ _ (by rw [ht, hlastlen])]
      exact gr_mapM_ok _ _ _ (fun x hx => barrett64_exact hb (hl x hx))
    have e4' : GenR.set_uint (cs.getD (s-1) []) n temp = .ok (cs.getD (s-1) []) := gr_set_uint_eq _ _ _ hlastlen ht
    obtain ⟨temp0, ht0⟩ : ∃ temp0, temp0 = (if (qs.getD i gr_dflt).value < qL.value then (cs.getD (s-1) []).map (fun x => x % (qs.getD i gr_dflt).value) else cs.getD (s-1) []) := ⟨_, rfl⟩
    have ht0len : temp0.length = n := by
      rw [ht0]; split
      · rw [List.length_map]; exact hlastlen
      · exact hlastlen
    have e5 : GenW.barrett_reduce_u64 half (qs.getD i gr_dflt) = .ok (half % (qs.getD i gr_dflt).value) := by
      rw [gw_barrett_reduce_u64_eq]; exact barrett64_exact hb hh
    have e6 : ckSub (qs.getD i gr_dflt).value (half % (qs.getD i gr_dflt).value) = .ok ((qs.getD i gr_dflt).value - half % (qs.getD i gr_dflt).value) :=
      gr_ckSub_ok (Nat.mod_lt _ hb0).le
    have e7 := gr_darn_loop2 n ((qs.getD i gr_dflt).value - half % (qs.getD i gr_dflt).value) temp0 ht0len
    have e8 : ((qs.getD i gr_dflt).value <<< 2) % B64 = (qs.getD i gr_dflt).value * 4 := by
      rw [Nat.shiftLeft_eq, B64_eq, Nat.mod_eq_of_lt (by omega)]
    rw [GenR.divide_and_round_q_last_ntt_inplace_loop1, gr_foldM]
    simp only [e1, e2, e3, e4, e4', e5, e6, gr_ok_bind]
    have eif : (if (qs.getD i gr_dflt).value < qL.value then (Except.ok ((cs.getD (s-1) []).map (fun x => x % (qs.getD i gr_dflt).value)) : R (List Nat))
        else Except.ok (cs.getD (s-1) [])) = .ok temp0 := by rw [ht0]; split <;> rfl
    rw [eif]
    simp only [gr_ok_bind, e7, e8]
    unfold gr_darnComp
    rw [← ht0]
    cases hm1 : temp0.mapM (fun x => ckAdd x ((qs.getD i gr_dflt).value - half % (qs.getD i gr_dflt).value)) with
    | error e => rfl
    | ok temp1 =>
      have ht1len : temp1.length = n := by rw [gr_mapM_length _ _ _ hm1, ht0len]
      have ht2len := hNL i temp1 (by omega) ht1len
      simp only [gr_ok_bind]
      rw [gr_darn_loop3 cs s n i _ (NL i temp1) (by omega) hsn hcs hn ht2len, hcilen]
      cases hm2 : (List.range' 0 n).mapM (fun j => ckSub ((qs.getD i gr_dflt).value * 4) ((NL i temp1).getD j 0) >>= fun z => ckAdd ((cs.getD i []).getD j 0) z) with
      | error e => rfl
      | ok d =>
        have hdlen : d.length = n := by rw [gr_mapM_length _ _ _ hm2, List.length_range']
        have hn' := gr_set_length_mem n cs i d hn hdlen
        have e9 : ckMul i n = .ok (i * n) := gr_ckMul_ok (hmul i (by omega))
        have e10 : ckAdd i 1 = .ok (i + 1) := gr_ckAdd_ok (by omega)
        have e11 : ckMul (i+1) n = .ok (i * n + n) := by rw [gr_ckMul_ok (hmul (i+1) (by omega)), Nat.succ_mul]
        have e13 : GenR.slice (cs.set i d).flatten (i*n) (i*n + n) = .ok d := by
          rw [gr_slice_flat n (cs.set i d) i hn' (by rw [List.length_set]; omega), gr_getD_set_self _ _ _ _ (by omega)]
        have e14 : GenR.idxOp invs i = .ok (invs.getD i default) := gr_idxOp_ok invs i _ (by omega)
        have e15 : GenR.multiply_operand_inplace d (invs.getD i default) (qs.getD i gr_dflt) = .ok (d.map (fun x => mulOpV x (invs.getD i default) (qs.getD i gr_dflt))) := by
          rw [gr_multiply_operand_inplace_eq]; exact gr_mapM_ok _ _ _ (fun x _ => gr_mulOperandMod _ _ _)
        have e16 : GenR.splice (cs.set i d).flatten (i*n) (d.map (fun x => mulOpV x (invs.getD i default) (qs.getD i gr_dflt)))
            = (cs.set i (d.map (fun x => mulOpV x (invs.getD i default) (qs.getD i gr_dflt)))).flatten := by
          rw [gr_splice_flat n (cs.set i d) i _ hn' (by rw [List.length_set]; omega) (by rw [List.length_map]; exact hdlen), List.set_set]
        simp only [gr_ok_bind, e9, e10, e11, e13, e14, e15, e16]
        refine ih (i+1) _ _ (by omega) (by rw [List.length_set]; exact hcs) (gr_set_length_mem n cs i _ hn (by rw [List.length_map]; exact hdlen)) ht2len ?_
        rw [gr_getD_set_ne _ _ _ _ _ (by omega)]
        exact hl

theorem gr_drop_set_last {α : Type} (cs : List α) (s : Nat) (x : α) (hcs : cs.length = s) (hs : 1 ≤ s) : (cs.set (s-1) x).drop (s-1) = [x] := by
  rw [List.drop_eq_getElem_cons (by rw [List.length_set]; omega), List.getElem_set_self, List.drop_eq_nil_of_le (by rw [List.length_set]; omega)]

/-- the generated routine on a flat buffer (`IT` = what the abstract inverse NTT returns, `NL` = the abstract lazy forward NTT) -/
theorem gr_darn_list (qs : List Modulus) (invs : List MulOperand) (s n : Nat) (IT NL : Nat → List Nat → List Nat) (cs : List (List Nat))
    (hs : 1 ≤ s) (hqs : qs.length = s) (hinv : s - 1 ≤ invs.length) (hq : ∀ i, i < s → (qs.getD i gr_dflt).WF) (hsn : s * n < 2^64) (hs64 : s < 2^64)
    (hcs : cs.length = s) (hn : ∀ c ∈ cs, c.length = n)
    (hIT : (IT (s-1) (cs.getD (s-1) [])).length = n) (hNL : ∀ i x, i < s - 1 → x.length = n → (NL i x).length = n) :
    GenR.divide_and_round_q_last_ntt_inplace cs.flatten s qs n invs (fun i x => .ok (IT i x)) (fun i x => .ok (NL i x)) =
      ((IT (s-1) (cs.getD (s-1) [])).mapM (fun x => addMod x ((qs.getD (s-1) gr_dflt).value / 2) (qs.getD (s-1) gr_dflt)) >>= fun lastc =>
       (List.range' 0 (s-1)).mapM (fun i => gr_darnComp (qs.getD i gr_dflt) (qs.getD (s-1) gr_dflt) ((qs.getD (s-1) gr_dflt).value / 2)
          (invs.getD i default) (NL i) lastc (cs.getD i [])) >>= fun outs => .ok (outs ++ [lastc]).flatten) := by
  have hmul : ∀ a, a ≤ s → a * n < 2^64 := fun a ha => Nat.lt_of_le_of_lt (Nat.mul_le_mul_right n ha) hsn
  have hL := hq (s-1) (by omega)
  obtain ⟨lastI, hli⟩ : ∃ lastI, lastI = IT (s-1) (cs.getD (s-1) []) := ⟨_, rfl⟩
  rw [← hli] at hIT ⊢
  have e1 : ckSub s 1 = .ok (s-1) := gr_ckSub_ok hs
  have e2 : GenR.idxMod qs (s-1) = .ok (qs.getD (s-1) gr_dflt) := gr_idxMod_ok qs _ _ (by omega)
  have e3 : ckMul (s-1) n = .ok ((s-1)*n) := gr_ckMul_ok (hmul _ (by omega))
  have e4 : ckAdd ((s-1)*n) n = .ok ((s-1)*n + n) := gr_ckAdd_ok (by have := hmul s (Nat.le_refl _); rw [← Nat.succ_mul]; rwa [show (s-1).succ = s by omega])
  have e5 : GenR.slice cs.flatten ((s-1)*n) ((s-1)*n + n) = .ok (cs.getD (s-1) []) := gr_slice_flat n cs (s-1) hn (by omega)
  have e6 : GenR.splice cs.flatten ((s-1)*n) lastI = (cs.set (s-1) lastI).flatten := gr_splice_flat n cs (s-1) lastI hn (by omega) hIT
  have hn' := gr_set_length_mem n cs (s-1) lastI hn hIT
  have e7 : GenR.slice (cs.set (s-1) lastI).flatten ((s-1)*n) ((s-1)*n + n) = .ok lastI := by
    rw [gr_slice_flat n _ (s-1) hn' (by rw [List.length_set]; omega), gr_getD_set_self _ _ _ _ (by omega)]
  have hhalf : (qs.getD (s-1) gr_dflt).value >>> 1 = (qs.getD (s-1) gr_dflt).value / 2 := by rw [Nat.shiftRight_eq_div_pow]
  unfold GenR.divide_and_round_q_last_ntt_inplace
  simp only [e1, e2, e3, e4, e5, ← hli, e6, e7, gr_ok_bind, hhalf, gr_add_scalar_inplace_eq]
  cases hm : lastI.mapM (fun x => addMod x ((qs.getD (s-1) gr_dflt).value / 2) (qs.getD (s-1) gr_dflt)) with
  | error e => rfl
  | ok lastc =>
    have hll : lastc.length = n := by rw [gr_mapM_length _ _ _ hm, hIT]
    have hlt : ∀ x ∈ lastc, x < 2^64 := gr_mapM_forall _ (fun z => z < 2^64) (fun x y h => gr_addMod_lt _ _ _ _ h) _ _ hm
    have hcs1 : (cs.set (s-1) lastI).length = s := by rw [List.length_set]; exact hcs
    have hlastget : ((cs.set (s-1) lastI).set (s-1) lastc).getD (s-1) [] = lastc := gr_getD_set_self _ _ _ _ (by omega)
    simp only [gr_ok_bind]
    rw [gr_splice_flat n _ (s-1) lastc hn' (by omega) hll,
      gr_darn_loop qs invs NL _ _ s n hqs hinv hq hsn hs64 (by have := hL.lt; omega) hNL (s-1) 0 _ (List.replicate n 0) (by omega)
        (by rw [List.length_set]; exact hcs1) (gr_set_length_mem n _ _ _ hn' hll) List.length_replicate (by rw [hlastget]; exact hlt),
      gr_foldM_eq _ (s-1) (by intro i a b h1 h2; simp only [h1, h2]) (s-1) 0 _ (by omega) (by rw [List.length_set]; omega)]
    have hcg : (List.range' 0 (s-1)).mapM (fun i' => gr_darnComp (qs.getD i' gr_dflt) (qs.getD (s-1) gr_dflt) ((qs.getD (s-1) gr_dflt).value / 2) (invs.getD i' default) (NL i')
          (((cs.set (s-1) lastI).set (s-1) lastc).getD (s-1) []) (((cs.set (s-1) lastI).set (s-1) lastc).getD i' []))
        = (List.range' 0 (s-1)).mapM (fun i => gr_darnComp (qs.getD i gr_dflt) (qs.getD (s-1) gr_dflt) ((qs.getD (s-1) gr_dflt).value / 2)
          (invs.getD i default) (NL i) lastc (cs.getD i [])) := by
      apply gr_mapM_congr
      intro i' hi'
      rw [List.mem_range'_1] at hi'
      rw [hlastget, gr_getD_set_ne _ _ _ _ _ (by omega), gr_getD_set_ne _ _ _ _ _ (by omega)]
    rw [hcg]
    cases (List.range' 0 (s-1)).mapM (fun i => gr_darnComp (qs.getD i gr_dflt) (qs.getD (s-1) gr_dflt) ((qs.getD (s-1) gr_dflt).value / 2)
          (invs.getD i default) (NL i) lastc (cs.getD i [])) with
    | error e => rfl
    | ok outs =>
      simp only [gr_ok_bind]
      rw [List.take_zero, List.nil_append, Nat.zero_add, gr_drop_set_last _ s lastc hcs1 hs]

/-! ### `RNSTool::mod_t_and_divide_q_last_inplace` (coefficient form; the `+=` of the inner loop can trap) -/

def gr_mtdComp (b : Modulus) (lastv : Nat) (inv : MulOperand) (neg lastc ci : List Nat) : R (List Nat) :=
  (List.range' 0 ci.length).mapM (fun j => ckAdd (ci.getD j 0)
      (b.value * 2 - lastc.getD j 0 % b.value - (neg.map (fun x => (x % b.value * lastv) % b.value)).getD j 0)) >>= fun d =>
  .ok (d.map (fun x => mulOpV x inv b))

theorem gr_mtd_loop2 (cs : List (List Nat)) (s n i : Nat) (b : Modulus) (delta : List Nat) (hb : b.WF) (hi : i < s - 1) (hsn : s * n < 2^64)
    (hcs : cs.length = s) (hn : ∀ c ∈ cs, c.length = n) (hw : ∀ x ∈ cs.getD (s-1) [], x < 2^64) (hd : delta.length = n) (hdb : ∀ x ∈ delta, x < b.value) :
    GenR.mod_t_and_divide_q_last_inplace_loop2 s n delta i b ((b.value <<< 1) % B64) n 0 cs.flatten
      = ((List.range' 0 n).mapM (fun j => ckAdd ((cs.getD i []).getD j 0) (b.value * 2 - (cs.getD (s-1) []).getD j 0 % b.value - delta.getD j 0))
          >>= fun d => .ok (cs.set i d).flatten) := by
  have hfl := gr_flat_length n cs hn
  rw [hcs] at hfl
  have hb0 : 0 < b.value := by have := hb.two_le; omega
  have hb61 := hb.lt
  have hin : i * n + n ≤ (s-1) * n := by
    have := Nat.mul_le_mul_right n (Nat.succ_le_of_lt hi); rw [Nat.succ_mul] at this; exact this
  have hsn' : (s-1) * n + n = s * n := by rw [← Nat.succ_mul]; congr 1; omega
  have e8 : (b.value <<< 1) % B64 = b.value * 2 := by rw [Nat.shiftLeft_eq, B64_eq, Nat.mod_eq_of_lt (by omega)]
  rw [e8, gr_offloop_inv (GenR.mod_t_and_divide_q_last_inplace_loop2 s n delta i b (b.value * 2))
      (fun j old => ckAdd old (b.value * 2 - (cs.getD (s-1) []).getD j 0 % b.value - delta.getD j 0)) (i*n) n
      (fun l => l.length = s * n ∧ ∀ j, j < n → l.getD ((s-1)*n + j) 0 = (cs.getD (s-1) []).getD j 0)
      (by
        intro l j y hI hj
        refine ⟨by rw [List.length_set]; exact hI.1, fun j' hj' => ?_⟩
        rw [gr_getD_set_ne _ _ _ _ _ (by omega)]; exact hI.2 j' hj')
      (fun _ _ => rfl) (by
      intro k j l hj hjn hI
      rw [GenR.mod_t_and_divide_q_last_inplace_loop2]
      have e1 : ckSub s 1 = .ok (s-1) := gr_ckSub_ok (by omega)
      have e2 : ckMul (s-1) n = .ok ((s-1)*n) := gr_ckMul_ok (by omega)
      have e3 : ckAdd ((s-1)*n) j = .ok ((s-1)*n + j) := gr_ckAdd_ok (by omega)
      have hlt : (s-1)*n + j < l.length := by rw [hI.1]; omega
      have e4 : GenW.idx l ((s-1)*n + j) = .ok ((cs.getD (s-1) []).getD j 0) := by rw [gw_idx_eq _ _ hlt, ← gr_getD_of_lt _ _ hlt, hI.2 j hjn]
      have e5 : GenR.modulus_reduce b ((cs.getD (s-1) []).getD j 0) = .ok ((cs.getD (s-1) []).getD j 0 % b.value) := by
        rw [gr_modulus_reduce_eq]; exact barrett64_exact hb (gr_getD_mem_lt hw (by norm_num) j)
      have hm := Nat.mod_lt ((cs.getD (s-1) []).getD j 0) hb0
      have e6 : ckSub (b.value * 2) ((cs.getD (s-1) []).getD j 0 % b.value) = .ok (b.value * 2 - (cs.getD (s-1) []).getD j 0 % b.value) := gr_ckSub_ok (by omega)
      have hdj : j < delta.length := by omega
      have hdl := gr_getD_mem_lt hdb hb0 j
      have e7 : GenW.idx delta j = .ok (delta.getD j 0) := by rw [gw_idx_eq _ _ hdj, gr_getD_of_lt _ _ hdj]
      have e9 : ckSub (b.value * 2 - (cs.getD (s-1) []).getD j 0 % b.value) (delta.getD j 0)
          = .ok (b.value * 2 - (cs.getD (s-1) []).getD j 0 % b.value - delta.getD j 0) := gr_ckSub_ok (by omega)
      have e10 : ckMul i n = .ok (i*n) := gr_ckMul_ok (by omega)
      have e11 : ckAdd (i*n) j = .ok (i*n + j) := gr_ckAdd_ok (by omega)
      simp only [e1, e2, e3, e4, e5, e6, e7, e9, e10, e11, gw_idx_eq _ _ hj, gr_ok_bind])
    n 0 cs.flatten (by omega) (by omega) ⟨hfl, fun j hj => gr_flat_getD n cs (s-1) j hn (by omega) hj⟩]
  have hcg : (List.range' 0 n).mapM (fun j' => ckAdd (cs.flatten.getD (i * n + j') 0) (b.value * 2 - (cs.getD (s-1) []).getD j' 0 % b.value - delta.getD j' 0))
      = (List.range' 0 n).mapM (fun j => ckAdd ((cs.getD i []).getD j 0) (b.value * 2 - (cs.getD (s-1) []).getD j 0 % b.value - delta.getD j 0)) := by
    apply gr_mapM_congr
    intro j hj
    rw [List.mem_range'_1] at hj
    rw [gr_flat_getD n cs i j hn (by omega) (by omega)]
  rw [hcg]
  cases hm : (List.range' 0 n).mapM (fun j => ckAdd ((cs.getD i []).getD j 0) (b.value * 2 - (cs.getD (s-1) []).getD j 0 % b.value - delta.getD j 0)) with
  | error e => rfl
  | ok d =>
    have hdl : d.length = n := by rw [gr_mapM_length _ _ _ hm, List.length_range']
    rw [gr_ok_bind, gr_ok_bind, Nat.add_zero, ← gr_splice_flat n cs i d hn (by omega) hdl]
    unfold GenR.splice
    rw [hdl]

theorem gr_mtd_loop (qs : List Modulus) (invs : List MulOperand) (lastv s n : Nat) (neg : List Nat)
    (hqs : qs.length = s) (hinv : s - 1 ≤ invs.length) (hq : ∀ i, i < s → (qs.getD i gr_dflt).WF) (hsn : s * n < 2^64) (hs64 : s < 2^64)
    (hlv : lastv < 2^64) (hneg : neg.length = n) (hnegw : ∀ x ∈ neg, x < 2^64) :
    ∀ k i (cs : List (List Nat)) (temp : List Nat), i + k = s - 1 → cs.length = s → (∀ c ∈ cs, c.length = n) → temp.length = n →
      (∀ x ∈ cs.getD (s-1) [], x < 2^64) →
      GenR.mod_t_and_divide_q_last_inplace_loop1 s lastv n neg qs invs k i cs.flatten temp
        = (gr_foldM (fun i cs => gr_mtdComp (qs.getD i gr_dflt) lastv (invs.getD i default) neg (cs.getD (s-1) []) (cs.getD i [])) k i cs
            >>= fun cs' => .ok cs'.flatten) := by
  intro k
  induction k with
  | zero => intro i cs temp _ _ _ _ _; rfl
  | succ k ih =>
    intro i cs temp hik hcs hn ht hl
    have hb := hq i (by omega)
    have hb0 : 0 < (qs.getD i gr_dflt).value := by have := hb.two_le; omega
    have hmul : ∀ a, a ≤ s → a * n < 2^64 := fun a ha => Nat.lt_of_le_of_lt (Nat.mul_le_mul_right n ha) hsn
    have hcilen : (cs.getD i []).length = n := hn _ (gr_getD_mem cs i (by omega))
    have e1 : GenR.idxMod qs i = .ok (qs.getD i gr_dflt) := gr_idxMod_ok qs i _ (by omega)
    have e2 : GenR.modulo neg (qs.getD i gr_dflt) temp = .ok (neg.map (fun x => x % (qs.getD i gr_dflt).value)) := by
      rw [gr_modulo_eq _ _ _ (by rw [ht, hneg])]
      exact gr_mapM_ok _ _ _ (fun x hx => barrett64_exact hb (hnegw x hx))
    have e3 : GenR.multiply_scalar_inplace (neg.map (fun x => x % (qs.getD i gr_dflt).value)) lastv (qs.getD i gr_dflt)
        = .ok (neg.map (fun x => (x % (qs.getD i gr_dflt).value * lastv) % (qs.getD i gr_dflt).value)) := by
      rw [gr_multiply_scalar_inplace_eq, gr_mapM_ok _ (fun x => (x * lastv) % (qs.getD i gr_dflt).value), List.map_map]; rfl
      intro x hx
      obtain ⟨y, -, rfl⟩ := List.mem_map.mp hx
      have := Nat.mod_lt y hb0; have := hb.lt
      exact mulMod_exact hb (by omega) hlv
    obtain ⟨d0, hd0⟩ : ∃ d0, d0 = neg.map (fun x => (x % (qs.getD i gr_dflt).value * lastv) % (qs.getD i gr_dflt).value) := ⟨_, rfl⟩
    rw [← hd0] at e3
    have hd0len : d0.length = n := by rw [hd0, List.length_map, hneg]
    have hd0b : ∀ x ∈ d0, x < (qs.getD i gr_dflt).value := by
      intro x hx; rw [hd0] at hx; obtain ⟨y, -, rfl⟩ := List.mem_map.mp hx; exact Nat.mod_lt _ hb0
    have e4 := gr_mtd_loop2 cs s n i (qs.getD i gr_dflt) d0 hb (by omega) hsn hcs hn hl hd0len hd0b
    rw [GenR.mod_t_and_divide_q_last_inplace_loop1, gr_foldM]
    simp only [e1, e2, e3, e4, gr_ok_bind]
    unfold gr_mtdComp
    rw [← hd0, hcilen]
    cases hm2 : (List.range' 0 n).mapM (fun j => ckAdd ((cs.getD i []).getD j 0)
        ((qs.getD i gr_dflt).value * 2 - (cs.getD (s-1) []).getD j 0 % (qs.getD i gr_dflt).value - d0.getD j 0)) with
    | error e => rfl
    | ok d =>
      have hdlen : d.length = n := by rw [gr_mapM_length _ _ _ hm2, List.length_range']
      have hn' := gr_set_length_mem n cs i d hn hdlen
      have e9 : ckMul i n = .ok (i * n) := gr_ckMul_ok (hmul i (by omega))
      have e10 : ckAdd i 1 = .ok (i + 1) := gr_ckAdd_ok (by omega)
      have e11 : ckMul (i+1) n = .ok (i * n + n) := by rw [gr_ckMul_ok (hmul (i+1) (by omega)), Nat.succ_mul]
      have e13 : GenR.slice (cs.set i d).flatten (i*n) (i*n + n) = .ok d := by
        rw [gr_slice_flat n (cs.set i d) i hn' (by rw [List.length_set]; omega), gr_getD_set_self _ _ _ _ (by omega)]
      have e14 : GenR.idxOp invs i = .ok (invs.getD i default) := gr_idxOp_ok invs i _ (by omega)
      have e15 : GenR.multiply_operand_inplace d (invs.getD i default) (qs.getD i gr_dflt) = .ok (d.map (fun x => mulOpV x (invs.getD i default) (qs.getD i gr_dflt))) := by
        rw [gr_multiply_operand_inplace_eq]; exact gr_mapM_ok _ _ _ (fun x _ => gr_mulOperandMod _ _ _)
      have e16 : GenR.splice (cs.set i d).flatten (i*n) (d.map (fun x => mulOpV x (invs.getD i default) (qs.getD i gr_dflt)))
          = (cs.set i (d.map (fun x => mulOpV x (invs.getD i default) (qs.getD i gr_dflt)))).flatten := by
        rw [gr_splice_flat n (cs.set i d) i _ hn' (by rw [List.length_set]; omega) (by rw [List.length_map]; exact hdlen), List.set_set]
      simp only [gr_ok_bind, e9, e10, e11, e13, e14, e15, e16]
      refine ih (i+1) _ _ (by omega) (by rw [List.length_set]; exact hcs) (gr_set_length_mem n cs i _ hn (by rw [List.length_map]; exact hdlen)) hd0len ?_
      rw [gr_getD_set_ne _ _ _ _ _ (by omega)]
      exact hl

theorem gr_mtd_list (qs : List Modulus) (invs : List MulOperand) (t : Modulus) (invt s n : Nat) (cs : List (List Nat))
    (hs : 1 ≤ s) (hqs : qs.length = s) (hinv : s - 1 ≤ invs.length) (hq : ∀ i, i < s → (qs.getD i gr_dflt).WF) (ht : t.WF) (hinvt : invt < 2^64)
    (hsn : s * n < 2^64) (hs64 : s < 2^64) (hcs : cs.length = s) (hn : ∀ c ∈ cs, c.length = n) (hw : ∀ x ∈ cs.getD (s-1) [], x < 2^64) :
    GenR.mod_t_and_divide_q_last_inplace cs.flatten s qs n invs t invt =
      ((List.range' 0 (s-1)).mapM (fun i => gr_mtdComp (qs.getD i gr_dflt) (qs.getD (s-1) gr_dflt).value (invs.getD i default)
          (gr_negList t invt (cs.getD (s-1) [])) (cs.getD (s-1) []) (cs.getD i [])) >>= fun outs => .ok (outs ++ [cs.getD (s-1) []]).flatten) := by
  have hmul : ∀ a, a ≤ s → a * n < 2^64 := fun a ha => Nat.lt_of_le_of_lt (Nat.mul_le_mul_right n ha) hsn
  have hsn' : s * n = (s-1) * n + n := by rw [← Nat.succ_mul]; congr 1; omega
  have hL := hq (s-1) (by omega)
  have hlastlen : (cs.getD (s-1) []).length = n := hn _ (gr_getD_mem cs (s-1) (by omega))
  have e1 : ckSub s 1 = .ok (s-1) := gr_ckSub_ok hs
  have e2 : GenR.idxMod qs (s-1) = .ok (qs.getD (s-1) gr_dflt) := gr_idxMod_ok qs _ _ (by omega)
  have e3 : ckMul (s-1) n = .ok ((s-1)*n) := gr_ckMul_ok (hmul _ (by omega))
  have e4 : ckMul s n = .ok ((s-1)*n + n) := by rw [gr_ckMul_ok (hmul _ (Nat.le_refl _)), hsn']
  have e5 : GenR.slice cs.flatten ((s-1)*n) ((s-1)*n + n) = .ok (cs.getD (s-1) []) := gr_slice_flat n cs (s-1) hn (by omega)
  obtain ⟨w1, w2, e8, e9, e10⟩ := gr_neg_passes t ht invt hinvt (cs.getD (s-1) []) (List.replicate n 0) (by rw [List.length_replicate, hlastlen]) hw
  unfold GenR.mod_t_and_divide_q_last_inplace
  simp only [e1, e2, e3, e4, e5, e8, e9, gr_ok_bind]
  rw [e10]
  simp only [gr_ok_bind]
  rw [gr_mtd_loop qs invs _ s n _ hqs hinv hq hsn hs64 (by have := hL.lt; omega) (by rw [gr_negList_length, hlastlen]) (gr_negList_lt t ht invt _)
      (s-1) 0 cs (List.replicate n 0) (by omega) hcs hn List.length_replicate hw,
    gr_foldM_eq _ (s-1) (by intro i a b h1 h2; simp only [h1, h2]) (s-1) 0 _ (by omega) (by omega)]
  cases (List.range' 0 (s-1)).mapM (fun i' => gr_mtdComp (qs.getD i' gr_dflt) (qs.getD (s-1) gr_dflt).value (invs.getD i' default)
          (gr_negList t invt (cs.getD (s-1) [])) (cs.getD (s-1) []) (cs.getD i' [])) with
  | error e => rfl
  | ok outs =>
    simp only [gr_ok_bind]
    rw [List.take_zero, List.nil_append, Nat.zero_add, List.drop_eq_getElem_cons (by omega), List.drop_eq_nil_of_le (by omega),
      gr_getD_of_lt' cs (s-1) (by omega)]

theorem gr_mapM_forall' {α β : Type} (f : α → R β) (P : α → β → Prop) :
    ∀ (l : List α), (∀ x ∈ l, ∀ y, f x = .ok y → P x y) → ∀ (r : List β), l.mapM f = .ok r → ∀ y ∈ r, ∃ x ∈ l, P x y := by
  intro l
  induction l with
  | nil => intro _ r h; rw [gr_mapM_nil] at h; cases h; intro y hy; cases hy
  | cons a l ih =>
    intro hf r h
    rw [gr_mapM_cons] at h
    cases hfa : f a with
    | error e => rw [hfa] at h; cases h
    | ok b =>
      rw [hfa, gr_ok_bind] at h
      cases hl : l.mapM f with
      | error e => rw [hl] at h; cases h
      | ok bs =>
        rw [hl, gr_ok_bind] at h; cases h
        intro y hy
        rcases List.mem_cons.mp hy with h1 | h1
        · exact ⟨a, by simp, by rw [h1]; exact hf a (by simp) b hfa⟩
        · obtain ⟨x, hx, hp⟩ := ih (fun x hx => hf x (by simp [hx])) bs hl y h1
          exact ⟨x, by simp [hx], hp⟩

/-! ### `RNSTool::sm_mrq` (Montgomery reduction mod q in base Bsk ∪ {m̃}; separate destination buffer) -/

theorem gr_multiply_operand_eq (c : List Nat) (o : MulOperand) (m : Modulus) (r : List Nat) (h : r.length = c.length) :
    GenR.multiply_operand c o m r = c.mapM (fun x => mulOperandMod x o m) := by
  unfold GenR.multiply_operand
  rw [h, Nat.min_self]
  rw [gr_idxloop (GenR.multiply_operand_loop1 c o m) (fun j _ => mulOperandMod (c.getD j 0) o m) c.length (fun _ _ => rfl) (by
    intro n i l hi hc
    rw [GenR.multiply_operand_loop1]
    simp only [gw_idx_eq _ _ hc, bind, Except.bind, gw_multiply_u64operand_mod_eq, gx_setIdx_ok _ _ _ hi]
    rw [List.getD_eq_getElem?_getD, List.getElem?_eq_getElem hc]; rfl) c.length 0 r (by omega) (by omega)]
  have := gr_range_mapM (fun x => mulOperandMod x o m) c 0
  simp only [Nat.sub_zero] at this
  rw [this]
  cases c.mapM (fun x => mulOperandMod x o m) with
  | error e => rfl
  | ok ys => rfl

/-- the fold when the step does not read the component list at all -/
theorem gr_foldM_const (comp : Nat → R (List Nat)) :
    ∀ k i (cs : List (List Nat)), i + k ≤ cs.length →
      gr_foldM (fun i _ => comp i) k i cs = ((List.range' i k).mapM comp >>= fun outs => .ok (cs.take i ++ outs ++ cs.drop (i + k))) := by
  intro k
  induction k with
  | zero => intro i cs _; rw [gr_foldM, List.range'_zero, gr_mapM_nil, gr_ok_bind, List.append_nil, Nat.add_zero, List.take_append_drop]
  | succ k ih =>
    intro i cs hik
    rw [gr_foldM, List.range'_succ, gr_mapM_cons]
    cases hci : comp i with
    | error e => rfl
    | ok c =>
      rw [gr_ok_bind, gr_ok_bind, ih (i+1) (cs.set i c) (by rw [List.length_set]; omega)]
      cases (List.range' (i+1) k).mapM comp with
      | error e => rfl
      | ok outs =>
        rw [gr_ok_bind, gr_ok_bind, gr_ok_bind]
        have e2 : i + (k + 1) = i + 1 + k := by omega
        have hi : i < cs.length := by omega
        have ht : (cs.set i c).take (i + 1) = cs.take i ++ [c] := by
          rw [List.take_succ_eq_append_getElem (by rw [List.length_set]; exact hi), List.getElem_set_self, List.take_set_of_le (Nat.le_refl i)]
        rw [e2, ht, List.drop_set_of_lt (by omega)]
        simp

/-- one coefficient of `sm_mrq`: centred r_m̃ (checked `+= b − m̃`), `(temp·[q]_b + x)·m̃⁻¹ mod b` -/
def gr_smElt (b mt : Modulus) (half : Nat) (pq inv : MulOperand) (rm x : Nat) : R Nat :=
  (if rm ≥ half then (ckSub b.value mt.value >>= fun d => ckAdd rm d) else pure rm) >>= fun temp =>
  mulOperandAddMod temp pq x b >>= fun u => mulOperandMod u inv b

def gr_smComp (b mt : Modulus) (half pqv : Nat) (inv : MulOperand) (rmt xi : List Nat) : R (List Nat) :=
  MulOperand.new pqv b >>= fun pq => (List.range' 0 rmt.length).mapM (fun j => gr_smElt b mt half pq inv (rmt.getD j 0) (xi.getD j 0))

theorem gr_sm_loop2 (inp : List (List Nat)) (ds : List (List Nat)) (sB n i half : Nat) (rmt : List Nat) (b mt : Modulus) (pq : MulOperand) (invs : List MulOperand)
    (hi : i < sB) (hsn : (sB + 1) * n < 2^64) (hinp : inp.length = sB + 1) (hin : ∀ c ∈ inp, c.length = n)
    (hds : ds.length = sB) (hdn : ∀ c ∈ ds, c.length = n) (hr : rmt.length = n) (hinv : sB ≤ invs.length) :
    GenR.sm_mrq_loop2 inp.flatten n half rmt i b pq mt invs n 0 ds.flatten
      = ((List.range' 0 n).mapM (fun j => gr_smElt b mt half pq (invs.getD i default) (rmt.getD j 0) ((inp.getD i []).getD j 0))
          >>= fun d => .ok (ds.set i d).flatten) := by
  have hfi := gr_flat_length n inp hin
  rw [hinp] at hfi
  have hfd := gr_flat_length n ds hdn
  rw [hds] at hfd
  have hin1 : i * n + n ≤ sB * n := by
    have := Nat.mul_le_mul_right n (Nat.succ_le_of_lt hi); rw [Nat.succ_mul] at this; exact this
  have hsb : sB * n + n = (sB + 1) * n := by rw [Nat.succ_mul]
  rw [gr_offloop (GenR.sm_mrq_loop2 inp.flatten n half rmt i b pq mt invs)
      (fun j _ => gr_smElt b mt half pq (invs.getD i default) (rmt.getD j 0) (inp.flatten.getD (i*n + j) 0)) (i*n) n (fun _ _ => rfl) (by
      intro k j l hj hjn
      rw [GenR.sm_mrq_loop2]
      have hrj : j < rmt.length := by omega
      have e1 : ckMul i n = .ok (i*n) := gr_ckMul_ok (by omega)
      have e2 : ckAdd (i*n) j = .ok (i*n + j) := gr_ckAdd_ok (by omega)
      have hlt : i*n + j < inp.flatten.length := by omega
      have e3 : GenW.idx inp.flatten (i*n + j) = .ok (inp.flatten.getD (i*n+j) 0) := by rw [gw_idx_eq _ _ hlt, gr_getD_of_lt _ _ hlt]
      have e4 : GenR.idxOp invs i = .ok (invs.getD i default) := gr_idxOp_ok invs i _ (by omega)
      simp only [e1, e2, e3, e4, gw_idx_eq _ _ hrj, gr_getD_of_lt _ _ hrj, gr_ok_bind, gw_multiply_u64operand_add_u64_mod_eq,
        gw_multiply_u64operand_mod_eq, gx_setIdx_ok _ _ _ hj]
      unfold gr_smElt
      by_cases hge : rmt[j] ≥ half
      · simp only [if_pos hge]
        cases ckSub b.value mt.value with
        | error e => rfl
        | ok d =>
          simp only [gr_ok_bind]
          cases ckAdd rmt[j] d with
          | error e => rfl
          | ok t =>
            simp only [gr_ok_bind]
            cases mulOperandAddMod t pq (inp.flatten.getD (i*n+j) 0) b with
            | error e => rfl
            | ok u => rfl
      · simp only [if_neg hge, gr_ok_bind, gr_pure]
        cases mulOperandAddMod rmt[j] pq (inp.flatten.getD (i*n+j) 0) b with
        | error e => rfl
        | ok u => rfl)
    n 0 ds.flatten (by omega) (by omega)]
  have hcg : (List.range' 0 n).mapM (fun j' => gr_smElt b mt half pq (invs.getD i default) (rmt.getD j' 0) (inp.flatten.getD (i*n + j') 0))
      = (List.range' 0 n).mapM (fun j => gr_smElt b mt half pq (invs.getD i default) (rmt.getD j 0) ((inp.getD i []).getD j 0)) := by
    apply gr_mapM_congr
    intro j hj
    rw [List.mem_range'_1] at hj
    rw [gr_flat_getD n inp i j hin (by omega) (by omega)]
  rw [hcg]
  cases hm : (List.range' 0 n).mapM (fun j => gr_smElt b mt half pq (invs.getD i default) (rmt.getD j 0) ((inp.getD i []).getD j 0)) with
  | error e => rfl
  | ok d =>
    have hdl : d.length = n := by rw [gr_mapM_length _ _ _ hm, List.length_range']
    rw [gr_ok_bind, gr_ok_bind, Nat.add_zero, ← gr_splice_flat n ds i d hdn (by omega) hdl]
    unfold GenR.splice
    rw [hdl]

theorem gr_sm_loop (inp : List (List Nat)) (bs : List Modulus) (pqs : List Nat) (invs : List MulOperand) (mt : Modulus) (sB n half : Nat) (rmt : List Nat)
    (hbs : bs.length = sB) (hpq : pqs.length = sB) (hpqw : ∀ x ∈ pqs, x < 2^64) (hinv : sB ≤ invs.length)
    (hsn : (sB + 1) * n < 2^64) (hinp : inp.length = sB + 1) (hin : ∀ c ∈ inp, c.length = n) (hr : rmt.length = n) :
    ∀ k i (ds : List (List Nat)), i + k = sB → ds.length = sB → (∀ c ∈ ds, c.length = n) →
      GenR.sm_mrq_loop1 inp.flatten sB n half rmt bs pqs mt invs k i ds.flatten
        = (gr_foldM (fun i _ => gr_smComp (bs.getD i gr_dflt) mt half (pqs.getD i 0) (invs.getD i default) rmt (inp.getD i [])) k i ds
            >>= fun ds' => .ok ds'.flatten) := by
  intro k
  induction k with
  | zero => intro i ds _ _ _; rfl
  | succ k ih =>
    intro i ds hik hds hdn
    have e1 : GenR.idxMod bs i = .ok (bs.getD i gr_dflt) := gr_idxMod_ok bs i _ (by omega)
    have hpi : i < pqs.length := by omega
    have e2 : GenW.idx pqs i = .ok (pqs.getD i 0) := by rw [gw_idx_eq _ _ hpi, gr_getD_of_lt _ _ hpi]
    have e3 : GenW.mulop_new (pqs.getD i 0) (bs.getD i gr_dflt) = MulOperand.new (pqs.getD i 0) (bs.getD i gr_dflt) :=
      gx_mulop_new_eq _ _ (gr_getD_mem_lt hpqw (by norm_num) i)
    rw [GenR.sm_mrq_loop1, gr_foldM]
    simp only [e1, e2, e3, gr_ok_bind]
    have hc : gr_smComp (bs.getD i gr_dflt) mt half (pqs.getD i 0) (invs.getD i default) rmt (inp.getD i [])
        = (MulOperand.new (pqs.getD i 0) (bs.getD i gr_dflt) >>= fun pq => (List.range' 0 n).mapM
            (fun j => gr_smElt (bs.getD i gr_dflt) mt half pq (invs.getD i default) (rmt.getD j 0) ((inp.getD i []).getD j 0))) := by
      unfold gr_smComp; rw [hr]
    rw [hc]
    cases MulOperand.new (pqs.getD i 0) (bs.getD i gr_dflt) with
    | error e => rfl
    | ok pq =>
      simp only [gr_ok_bind]
      rw [gr_sm_loop2 inp ds sB n i half rmt (bs.getD i gr_dflt) mt pq invs (by omega) hsn hinp hin hds hdn hr hinv]
      cases hm : (List.range' 0 n).mapM (fun j => gr_smElt (bs.getD i gr_dflt) mt half pq (invs.getD i default) (rmt.getD j 0) ((inp.getD i []).getD j 0)) with
      | error e => rfl
      | ok d =>
        have hdl : d.length = n := by rw [gr_mapM_length _ _ _ hm, List.length_range']
        simp only [gr_ok_bind]
        exact ih (i+1) _ (by omega) (by rw [List.length_set]; exact hds) (gr_set_length_mem n ds i d hdn hdl)

/-- the generated `sm_mrq` on flat buffers: input `sB + 1` components (the last one mod m̃), destination `sB` components (old contents irrelevant) -/
theorem gr_sm_list (inp ds : List (List Nat)) (bs : List Modulus) (pqs : List Nat) (invs : List MulOperand) (mt : Modulus) (ninv : MulOperand) (sB n : Nat)
    (hbs : bs.length = sB) (hpq : pqs.length = sB) (hpqw : ∀ x ∈ pqs, x < 2^64) (hinv : sB ≤ invs.length)
    (hsn : (sB + 1) * n < 2^64) (hs64 : sB + 1 < 2^64) (hinp : inp.length = sB + 1) (hin : ∀ c ∈ inp, c.length = n)
    (hds : ds.length = sB) (hdn : ∀ c ∈ ds, c.length = n) :
    GenR.sm_mrq inp.flatten ds.flatten sB bs n mt ninv pqs invs =
      ((List.range' 0 sB).mapM (fun i => gr_smComp (bs.getD i gr_dflt) mt (mt.value / 2) (pqs.getD i 0) (invs.getD i default)
          ((inp.getD sB []).map (fun x => mulOpV x ninv mt)) (inp.getD i [])) >>= fun outs => .ok outs.flatten) := by
  have hlastlen : (inp.getD sB []).length = n := hin _ (gr_getD_mem inp sB (by omega))
  have hsb : (sB + 1) * n = sB * n + n := Nat.succ_mul sB n
  have e1 : ckMul sB n = .ok (sB * n) := gr_ckMul_ok (by omega)
  have e2 : ckAdd sB 1 = .ok (sB + 1) := gr_ckAdd_ok hs64
  have e3 : ckMul (sB + 1) n = .ok (sB * n + n) := by rw [gr_ckMul_ok hsn, Nat.succ_mul]
  have e4 : GenR.slice inp.flatten (sB * n) (sB * n + n) = .ok (inp.getD sB []) := gr_slice_flat n inp sB hin (by omega)
  have e5 : GenR.multiply_operand (inp.getD sB []) ninv mt (List.replicate n 0) = .ok ((inp.getD sB []).map (fun x => mulOpV x ninv mt)) := by
    rw [gr_multiply_operand_eq _ _ _ _ (by rw [List.length_replicate, hlastlen])]
    exact gr_mapM_ok _ _ _ (fun x _ => gr_mulOperandMod _ _ _)
  have hhalf : mt.value >>> 1 = mt.value / 2 := by rw [Nat.shiftRight_eq_div_pow]
  unfold GenR.sm_mrq
  simp only [e1, e2, e3, e4, e5, hhalf, gr_ok_bind]
  rw [gr_sm_loop inp bs pqs invs mt sB n _ _ hbs hpq hpqw hinv hsn hinp hin (by rw [List.length_map, hlastlen]) sB 0 ds (by omega) hds hdn,
    gr_foldM_const _ sB 0 ds (by omega)]
  cases (List.range' 0 sB).mapM (fun i => gr_smComp (bs.getD i gr_dflt) mt (mt.value / 2) (pqs.getD i 0) (invs.getD i default)
          ((inp.getD sB []).map (fun x => mulOpV x ninv mt)) (inp.getD i [])) with
  | error e => rfl
  | ok outs =>
    simp only [gr_ok_bind]
    rw [List.take_zero, List.nil_append, Nat.zero_add, List.drop_eq_nil_of_le (by omega), List.append_nil]
