/-
  Phase 4m, part 3: `poly_infty_norm` (src/encryptor.rs) as regenerated: one pass of its loop in terms of the hand model's multi-word
  functions (`geUint`, `subUint`, `compareUint`, specified by C08): the centred lift `if c ≥ thr then Q - c else c`, then the running maximum.
-/
import Heathcliff.Proofs.GenDec2
import Heathcliff.Proofs.GenWord5
namespace HC
open HC.GenDec

/-- one coefficient of the model's norm fold (`noiseBudget`, Model/Scheme.lean), on multi-word values:
    `a := if c ≥ thr then Q - c else c; if a > acc then a else acc` -/
def normStepW (Q thr : List Nat) (acc abs c : List Nat) : R (List Nat × List Nat) := do
  let abs ← (if geUint c thr then do let (d, _) ← subUint Q c abs.length; pure d else copyWhole abs c)
  let acc ← (if gq_ofInt (compareUint abs acc) = .gt then copyWhole acc abs else pure acc)
  pure (acc, abs)

theorem gd_norm_loop_zero (poly : List Nat) (k : Nat) (Q thr : List Nat) (cnt i : Nat) (acc abs : List Nat) :
    poly_infty_norm_loop1 poly k Q thr cnt 0 i acc abs = .ok acc := rfl

/-- GENERATED `poly_infty_norm`: refusal unless the modulus has `k` words; threshold = `half_round_up_uint(modulus)`; `len / k` passes from 0 -/
theorem gd_poly_infty_norm_unfold (poly : List Nat) (k : Nat) (Q res : List Nat) :
    poly_infty_norm poly k Q res =
      (if Q.length = k then do
        let thr ← half_round_up_uint Q (List.replicate k 0)
        let cnt ← GenW.ckDiv poly.length k
        poly_infty_norm_loop1 poly k Q thr cnt cnt 0 (List.replicate res.length 0) (List.replicate k 0)
      else .error .refused) := by
  unfold poly_infty_norm; rfl

theorem gd_gt_iff {a b : List Nat} (ha : Limbs a) (hb : Limbs b) : gq_ofInt (compareUint a b) = .gt ↔ toNat b < toNat a := by
  rw [compareUint_spec ha hb]; unfold gq_ofInt
  by_cases h1 : toNat a < toNat b
  · simp [h1] <;> omega
  · by_cases h2 : toNat a > toNat b
    · simp [h1, h2]
    · simp [h1, h2] <;> omega

theorem gd_max_part (acc d : List Nat) (k : Nat) (hacc : Limbs acc) (hd : Limbs d) (lacc : acc.length = k) (ld : d.length = k) :
    ∃ acc', (if gq_ofInt (compareUint d acc) = .gt then copyWhole acc d else pure acc) = .ok acc' ∧ acc'.length = k ∧ Limbs acc' ∧
      toNat acc' = max (toNat acc) (toNat d) := by
  by_cases h : gq_ofInt (compareUint d acc) = .gt
  · have := (gd_gt_iff hd hacc).1 h
    refine ⟨d, ?_, ld, hd, by omega⟩
    simp [h, copyWhole, ld, lacc]
  · have : ¬ toNat acc < toNat d := fun h' => h ((gd_gt_iff hd hacc).2 h')
    refine ⟨acc, ?_, lacc, hacc, by omega⟩
    simp [h]; rfl

/-- value-level meaning of one step for canonical inputs (uses the C08 specifications of the model functions): with `c ≤ Q`, all of `k ≥ 1` words,
    the new maximum is `max acc (if c ≥ thr then Q - c else c)` -/
theorem gd_normStepW_spec (Q thr acc abs c : List Nat) (k : Nat) (hk : 1 ≤ k)
    (hQ : Limbs Q) (hthr : Limbs thr) (hacc : Limbs acc) (hc : Limbs c)
    (lQ : Q.length = k) (lacc : acc.length = k) (labs : abs.length = k) (lc : c.length = k) (hcQ : toNat c ≤ toNat Q) :
    ∃ acc' abs', normStepW Q thr acc abs c = .ok (acc', abs') ∧ acc'.length = k ∧ abs'.length = k ∧ Limbs acc' ∧
      toNat acc' = max (toNat acc) (if toNat thr ≤ toNat c then toNat Q - toNat c else toNat c) := by
  unfold normStepW
  have hge := geUint_iff hc hthr
  by_cases hg : toNat thr ≤ toNat c
  · have hge' : geUint c thr = true := hge.2 hg
    obtain ⟨r, bw, hsub, hrl, hrL, hbw, hval⟩ := subUint_spec (a := Q) (b := c) (n := k) hk hQ hc (by omega) (by omega)
    have hQt : Q.take k = Q := by rw [← lQ]; exact List.take_length
    have hct : c.take k = c := by rw [← lc]; exact List.take_length
    rw [hQt, hct] at hval
    have hbw0 : bw = 0 := by
      rcases Nat.le_one_iff_eq_zero_or_eq_one.1 hbw with h | h
      · exact h
      · subst h
        have hrlt : toNat r < 2^(64*k) := by
          have := toNat_lt hrL; rw [hrl] at this; exact this
        omega
    subst hbw0
    have hrv : toNat r = toNat Q - toNat c := by omega
    obtain ⟨acc', hm, hl, hL, hv⟩ := gd_max_part acc r k hacc hrL lacc hrl
    refine ⟨acc', r, ?_, hl, hrl, hL, by rw [hv, hrv, if_pos hg]⟩
    simp only [hge', if_true, labs, hsub, bind, Except.bind, pure, Except.pure] at hm ⊢
    rw [hm]
  · have hge' : ¬ geUint c thr = true := fun h => hg (hge.1 h)
    obtain ⟨acc', hm, hl, hL, hv⟩ := gd_max_part acc c k hacc hc lacc lc
    refine ⟨acc', c, ?_, hl, lc, hL, by rw [hv, if_neg hg]⟩
    simp only [hge', if_false, copyWhole, lc, labs, if_true, bind, Except.bind, pure, Except.pure, Bool.false_eq_true] at hm ⊢
    rw [hm]

/-- concrete run (Q = 7, threshold 4): coefficients 4, 1, 6, 3 have centred absolute values 3, 1, 1, 3 (the coefficient EQUAL to the threshold is lifted) -/
theorem gd_norm_witness : poly_infty_norm [4, 1, 6, 3] 1 [7] [0] = .ok [3] := by decide

end HC
