/- C01/C02: the MODEL of `dot_product_ct_sk_array` computes the phase c0 + c1·s (per RNS component, as a negacyclic product),
   in both representations; and the gadget / key-switching algebra.  All statements proved as given
   (`gadget_delta` is placed before `gadget_crt`, which uses it; helper lemmas carry the prefix `c01o_`). -/
import Heathcliff.Spec.Scheme
import Heathcliff.Proofs.C09G
import Heathcliff.Proofs.C10H
import Heathcliff.Proofs.C10I
import Mathlib.Tactic.Ring
import Mathlib.Tactic.Linarith
namespace HC
open Finset

/-- a level whose NTT tables are the well-formed tables of its moduli -/
structure Level.WF (l : Level) : Prop where
  npow : l.n = 2^l.k
  tsize : l.tables.size = l.qs.size
  twf : ∀ i, i < l.size → (l.tbl i).WF ∧ (l.tbl i).modulus = l.q i ∧ (l.tbl i).k = l.k

/-- canonical RNS polynomial at level l -/
def RnsCanon (l : Level) (p : RnsPoly) : Prop :=
  p.size = l.size ∧ ∀ i, i < l.size → (p.getD i #[]).size = l.n ∧ ∀ j, j < l.n → (p.getD i #[]).getD j 0 < (l.q i).value

/-- residues of the secret key in component i -/
def skRes (l : Level) (sk : Array Int) (i : Nat) : Array Nat := sk.map fun c => (c % ((l.q i).value : Int)).toNat

/-! ### helpers -/

theorem c01o_foldlM_push {α β : Type} (l : List α) (F : α → R β) (G : α → β)
    (h : ∀ x ∈ l, F x = .ok (G x)) (acc : Array β) :
    l.foldlM (fun acc x => do let y ← F x; pure (acc.push y)) acc = .ok (acc ++ (l.map G).toArray) := by
  induction l generalizing acc with
  | nil => simp [pure, Except.pure]
  | cons a l ih =>
    rw [List.foldlM_cons, h a (by simp)]
    have := ih (fun x hx => h x (by simp [hx])) (acc.push (G a))
    refine Eq.trans (this) ?_
    simp

/-- the value `rnsZip` returns when the scalar operation is total on the data -/
def c01o_zipVal (l : Level) (a b : RnsPoly) (g : Nat → Nat → Nat → Nat) : RnsPoly :=
  ((List.range l.size).map fun i =>
    ((List.range (a.getD i #[]).size).map fun j => g i ((a.getD i #[]).getD j 0) ((b.getD i #[]).getD j 0)).toArray).toArray

theorem c01o_rnsZip_ok {l : Level} {a b : RnsPoly} {f : Nat → Nat → Modulus → R Nat} (g : Nat → Nat → Nat → Nat)
    (h : ∀ i, i < l.size → ∀ j, j < (a.getD i #[]).size →
      f ((a.getD i #[]).getD j 0) ((b.getD i #[]).getD j 0) (l.q i) = .ok (g i ((a.getD i #[]).getD j 0) ((b.getD i #[]).getD j 0))) :
    rnsZip l a b f = .ok (c01o_zipVal l a b g) := by
  unfold rnsZip c01o_zipVal
  rw [c01o_foldlM_push (List.range l.size) (fun i => zipM' (a.getD i #[]) (b.getD i #[]) (fun x y => f x y (l.q i)))
    (fun i => ((List.range (a.getD i #[]).size).map fun j => g i ((a.getD i #[]).getD j 0) ((b.getD i #[]).getD j 0)).toArray)]
  · simp
  · intro i hi
    exact zipM'_ok (g i) (h i (List.mem_range.mp hi))

theorem c01o_zipVal_size (l : Level) (a b : RnsPoly) (g : Nat → Nat → Nat → Nat) : (c01o_zipVal l a b g).size = l.size := by
  simp [c01o_zipVal]

theorem c01o_zipVal_getD (l : Level) (a b : RnsPoly) (g : Nat → Nat → Nat → Nat) {i : Nat} (hi : i < l.size) :
    (c01o_zipVal l a b g).getD i #[] =
      ((List.range (a.getD i #[]).size).map fun j => g i ((a.getD i #[]).getD j 0) ((b.getD i #[]).getD j 0)).toArray := by
  unfold c01o_zipVal
  exact getD_rangeMap' _ _ _ hi

theorem c01o_zipVal_comp_size (l : Level) (a b : RnsPoly) (g : Nat → Nat → Nat → Nat) {i : Nat} (hi : i < l.size) :
    ((c01o_zipVal l a b g).getD i #[]).size = (a.getD i #[]).size := by
  rw [c01o_zipVal_getD l a b g hi]; simp

theorem c01o_zipVal_coeff (l : Level) (a b : RnsPoly) (g : Nat → Nat → Nat → Nat) {i j : Nat} (hi : i < l.size)
    (hj : j < (a.getD i #[]).size) :
    ((c01o_zipVal l a b g).getD i #[]).getD j 0 = g i ((a.getD i #[]).getD j 0) ((b.getD i #[]).getD j 0) := by
  rw [c01o_zipVal_getD l a b g hi]
  exact getD_rangeMap _ _ hj

theorem c01o_ofFn_getD {β : Type} (n : Nat) (f : Fin n → β) (d : β) {i : Nat} (hi : i < n) :
    (Array.ofFn f).getD i d = f ⟨i, hi⟩ := by
  simp [Array.getD, hi]

theorem c01o_skNtt_getD (l : Level) (sk : Array Int) {i : Nat} (hi : i < l.size) :
    (skNtt l sk).getD i #[] = ntt (l.tbl i) (skRes l sk i) := by
  unfold skNtt
  rw [c01o_ofFn_getD _ _ _ hi]
  rfl

theorem c01o_rnsNtt_getD (l : Level) (a : RnsPoly) {i : Nat} (hi : i < l.size) :
    (rnsNtt l a).getD i #[] = ntt (l.tbl i) (a.getD i #[]) := by
  unfold rnsNtt
  rw [c01o_ofFn_getD _ _ _ hi]

theorem c01o_rnsIntt_getD (l : Level) (a : RnsPoly) {i : Nat} (hi : i < l.size) :
    (rnsIntt l a).getD i #[] = intt (l.tbl i) (a.getD i #[]) := by
  unfold rnsIntt
  rw [c01o_ofFn_getD _ _ _ hi]

theorem c01o_skRes_size (l : Level) (sk : Array Int) (i : Nat) : (skRes l sk i).size = sk.size := by
  simp [skRes]

theorem c01o_skRes_lt (l : Level) (sk : Array Int) (i : Nat) (hq : 0 < (l.q i).value) {j : Nat} (hj : j < sk.size) :
    (skRes l sk i).getD j 0 < (l.q i).value := by
  have e : (skRes l sk i).getD j 0 = (sk[j] % ((l.q i).value : Int)).toNat := by
    simp [skRes, Array.getD, hj]
  rw [e]
  have hqz : (0 : Int) < ((l.q i).value : Int) := by exact_mod_cast hq
  have h1 := Int.emod_nonneg sk[j] (ne_of_gt hqz)
  have h2 := Int.emod_lt_of_pos sk[j] hqz
  omega

theorem c01o_evalSpec_cast (t : NTTTables) (a : Array Nat) (i : Nat) :
    ((evalSpec t a i : Nat) : ZMod t.modulus.value) =
      ∑ j ∈ range (2^t.k), ((a.getD j 0 : Nat) : ZMod t.modulus.value) *
        ((t.root : ZMod t.modulus.value) ^ (2 * brev t.k i + 1)) ^ j := by
  unfold evalSpec
  rw [ZMod.natCast_mod]
  push_cast
  rfl

theorem c01o_evalSpec_lt (t : NTTTables) (hq : 0 < t.modulus.value) (a : Array Nat) (i : Nat) :
    evalSpec t a i < t.modulus.value := by
  unfold evalSpec
  exact Nat.mod_lt _ hq

/-- `intt` is additive modulo q on canonical vectors -/
theorem c01o_intt_add {t : NTTTables} (hw : t.WF) {x y z : Array Nat}
    (hx : x.size = 2^t.k) (hy : y.size = 2^t.k) (hz : z.size = 2^t.k)
    (hxl : ∀ j, j < 2^t.k → x.getD j 0 < t.modulus.value) (hyl : ∀ j, j < 2^t.k → y.getD j 0 < t.modulus.value)
    (hzv : ∀ j, j < 2^t.k → z.getD j 0 = (x.getD j 0 + y.getD j 0) % t.modulus.value) :
    ∀ j, j < 2^t.k → (intt t z).getD j 0 = ((intt t x).getD j 0 + (intt t y).getD j 0) % t.modulus.value := by
  have hq2 := hw.mwf.two_le
  have hq0 : 0 < t.modulus.value := by omega
  obtain ⟨a1, a2⟩ := intt_sim hw x hx (fun j hj => by have := hxl j hj; omega)
  obtain ⟨b1, b2⟩ := intt_sim hw y hy (fun j hj => by have := hyl j hj; omega)
  generalize hwdef : ((List.range (2^t.k)).map fun j =>
      ((intt t x).getD j 0 + (intt t y).getD j 0) % t.modulus.value).toArray = w
  have hws : w.size = 2^t.k := by rw [← hwdef]; simp
  have hwv : ∀ j, j < 2^t.k → w.getD j 0 = ((intt t x).getD j 0 + (intt t y).getD j 0) % t.modulus.value := by
    intro j hj; rw [← hwdef]; exact getD_rangeMap _ _ hj
  have hwl : ∀ j, j < 2^t.k → w.getD j 0 < t.modulus.value := by
    intro j hj; rw [hwv j hj]; exact Nat.mod_lt _ hq0
  have hnw : ntt t w = z := by
    obtain ⟨e1, e2⟩ := ntt_eval hw w hws (fun j hj => by have := hwl j hj; omega)
    apply array_ext_getD e1 hz
    intro i hi
    have hxx := ntt_intt hw x hx hxl
    have hyy := ntt_intt hw y hy hyl
    obtain ⟨_, ex⟩ := ntt_eval hw (intt t x) a1 (fun j hj => by have := (a2 j hj).1; omega)
    obtain ⟨_, ey⟩ := ntt_eval hw (intt t y) b1 (fun j hj => by have := (b2 j hj).1; omega)
    have hx' : x.getD i 0 = evalSpec t (intt t x) i := by rw [← ex i hi, hxx]
    have hy' : y.getD i 0 = evalSpec t (intt t y) i := by rw [← ey i hi, hyy]
    rw [e2 i hi, hzv i hi, hx', hy']
    apply cast_inj_lt (c01o_evalSpec_lt t hq0 _ _) (Nat.mod_lt _ hq0)
    rw [ZMod.natCast_mod, Nat.cast_add, c01o_evalSpec_cast, c01o_evalSpec_cast, c01o_evalSpec_cast,
      ← Finset.sum_add_distrib]
    apply Finset.sum_congr rfl
    intro j hj
    rw [hwv j (mem_range.mp hj), ZMod.natCast_mod, Nat.cast_add, add_mul]
  intro j hj
  rw [← hnw, intt_ntt hw w hws hwl, hwv j hj]

/-- pointwise product with a transform = negacyclic product after `intt` -/
theorem c01o_conv {t : NTTTables} (hw : t.WF) {x b d : Array Nat}
    (hx : x.size = 2^t.k) (hb : b.size = 2^t.k) (hd : d.size = 2^t.k)
    (hxl : ∀ j, j < 2^t.k → x.getD j 0 < t.modulus.value) (hbl : ∀ j, j < 2^t.k → b.getD j 0 < t.modulus.value)
    (hdv : ∀ j, j < 2^t.k → d.getD j 0 = (x.getD j 0 * (ntt t b).getD j 0) % t.modulus.value) :
    ∀ c, c < 2^t.k → (intt t d).getD c 0 = negMulNat (2^t.k) t.modulus.value (intt t x) b c := by
  have hq61 := hw.mwf.lt
  obtain ⟨a1, a2⟩ := intt_sim hw x hx (fun j hj => by have := hxl j hj; omega)
  obtain ⟨n1, n2⟩ := ntt_sim hw b hb (fun j hj => by have := hbl j hj; omega)
  obtain ⟨p, hp, _, hpv⟩ := ntt_convolution_api hw (intt t x) b a1 hb (fun j hj => (a2 j hj).1) hbl
  rw [ntt_intt hw x hx hxl] at hp
  obtain ⟨p', hp', hps', hpv'⟩ := dyadicProduct_spec hw.mwf x (ntt t b)
    (fun i hi => by have := hxl i (by omega); omega)
    (fun i hi => by have := (n2 i (by omega)).2.1; omega)
  have hpp : p = p' := by
    rw [hp] at hp'
    exact Except.ok.inj hp'
  have hdp : d = p' := array_ext_getD hd (hps'.trans hx) (fun j hj => by rw [hdv j hj, hpv' j (by omega)])
  intro c hc
  rw [hdp, ← hpp]
  exact hpv c hc

/-- one component of the NTT-form phase -/
theorem c01o_comp_ntt {t : NTTTables} (hw : t.WF) {q N : Nat} (hq : t.modulus.value = q) (hN : 2^t.k = N)
    {x0 x1 b d ph : Array Nat}
    (hx0 : x0.size = N) (hx1 : x1.size = N) (hb : b.size = N) (hd : d.size = N) (hph : ph.size = N)
    (hx0l : ∀ j, j < N → x0.getD j 0 < q) (hx1l : ∀ j, j < N → x1.getD j 0 < q) (hbl : ∀ j, j < N → b.getD j 0 < q)
    (hdv : ∀ j, j < N → d.getD j 0 = (x1.getD j 0 * (ntt t b).getD j 0) % q)
    (hphv : ∀ j, j < N → ph.getD j 0 = (d.getD j 0 + x0.getD j 0) % q) :
    ∀ j, j < N → (intt t ph).getD j 0 = ((intt t x0).getD j 0 + negMulNat N q (intt t x1) b j) % q := by
  subst hq hN
  have hq2 := hw.mwf.two_le
  intro j hj
  have hdl : ∀ j, j < 2^t.k → d.getD j 0 < t.modulus.value := by
    intro j hj; rw [hdv j hj]; exact Nat.mod_lt _ (by omega)
  rw [c01o_intt_add hw hd hx0 hph hdl hx0l hphv j hj, c01o_conv hw hx1 hb hd hx1l hbl hdv j hj, Nat.add_comm]

/-- one component of the coefficient-form phase -/
theorem c01o_comp_coeff {t : NTTTables} (hw : t.WF) {q N : Nat} (hq : t.modulus.value = q) (hN : 2^t.k = N)
    {x1 b d : Array Nat}
    (hx1 : x1.size = N) (hb : b.size = N) (hd : d.size = N)
    (hx1l : ∀ j, j < N → x1.getD j 0 < q) (hbl : ∀ j, j < N → b.getD j 0 < q)
    (hdv : ∀ j, j < N → d.getD j 0 = ((ntt t x1).getD j 0 * (ntt t b).getD j 0) % q) :
    (intt t d).size = N ∧ ∀ j, j < N → (intt t d).getD j 0 = negMulNat N q x1 b j ∧ (intt t d).getD j 0 < q := by
  subst hq hN
  have hq2 := hw.mwf.two_le
  obtain ⟨n1, n2⟩ := ntt_sim hw x1 hx1 (fun j hj => by have := hx1l j hj; omega)
  have hdl : ∀ j, j < 2^t.k → d.getD j 0 < 2 * t.modulus.value := by
    intro j hj; rw [hdv j hj]
    have := Nat.mod_lt ((ntt t x1).getD j 0 * (ntt t b).getD j 0) (show 0 < t.modulus.value by omega)
    omega
  obtain ⟨a1, a2⟩ := intt_sim hw d hd hdl
  refine ⟨a1, fun j hj => ⟨?_, (a2 j hj).1⟩⟩
  have := c01o_conv hw n1 hb hd (fun j hj => (n2 j hj).2.1) hbl hdv j hj
  rw [intt_ntt hw x1 hx1 hx1l] at this
  exact this

theorem c01o_dot_ntt_eq (l : Level) (sk : Array Int) (c0 c1 : RnsPoly) :
    dotProductCtSk l sk ⟨#[c0, c1], true, 1⟩ = (do
      let d ← rnsDyadic l c1 (skNtt l sk)
      rnsAdd l d c0) := rfl

theorem c01o_dot_coeff_eq (l : Level) (sk : Array Int) (c0 c1 : RnsPoly) :
    dotProductCtSk l sk ⟨#[c0, c1], false, 1⟩ = (do
      let d ← rnsDyadic l (rnsNtt l c1) (skNtt l sk)
      rnsAdd l (rnsIntt l d) c0) := rfl

/-- per-component facts of a well-formed level -/
theorem c01o_level_comp {l : Level} (hl : l.WF) {i : Nat} (hi : i < l.size) :
    (l.tbl i).WF ∧ (l.tbl i).modulus.value = (l.q i).value ∧ 2^(l.tbl i).k = l.n ∧ (l.q i).WF := by
  obtain ⟨h1, h2, h3⟩ := hl.twf i hi
  refine ⟨h1, by rw [h2], by rw [h3, hl.npow], ?_⟩
  rw [← h2]; exact h1.mwf

/-- the NTT-form secret key component is canonical -/
theorem c01o_sk_comp {l : Level} (hl : l.WF) {sk : Array Int} (hsk : sk.size = l.n) {i : Nat} (hi : i < l.size) :
    (skRes l sk i).size = l.n ∧ (∀ j, j < l.n → (skRes l sk i).getD j 0 < (l.q i).value) ∧
    (ntt (l.tbl i) (skRes l sk i)).size = l.n ∧ ∀ j, j < l.n → (ntt (l.tbl i) (skRes l sk i)).getD j 0 < (l.q i).value := by
  obtain ⟨htw, htm, htn, hqw⟩ := c01o_level_comp hl hi
  have hq2 := hqw.two_le
  have h1 : (skRes l sk i).size = l.n := by rw [c01o_skRes_size, hsk]
  have h2 : ∀ j, j < l.n → (skRes l sk i).getD j 0 < (l.q i).value :=
    fun j hj => c01o_skRes_lt l sk i (by omega) (by omega)
  obtain ⟨n1, n2⟩ := ntt_sim htw (skRes l sk i) (by rw [h1, htn]) (fun j hj => by
    have := h2 j (by omega); omega)
  refine ⟨h1, h2, by rw [n1, htn], fun j hj => ?_⟩
  have := (n2 j (by omega)).2.1
  omega

/-- `rnsDyadic` on canonical-size data -/
theorem c01o_rnsDyadic_ok {l : Level} (hl : l.WF) {a b : RnsPoly}
    (ha : ∀ i, i < l.size → ∀ j, j < (a.getD i #[]).size → (a.getD i #[]).getD j 0 < 2^64)
    (hb : ∀ i, i < l.size → ∀ j, j < (a.getD i #[]).size → (b.getD i #[]).getD j 0 < 2^64) :
    rnsDyadic l a b = .ok (c01o_zipVal l a b (fun i x y => (x * y) % (l.q i).value)) := by
  unfold rnsDyadic
  apply c01o_rnsZip_ok
  intro i hi j hj
  exact mulMod_exact (c01o_level_comp hl hi).2.2.2 (ha i hi j hj) (hb i hi j hj)

theorem c01o_rnsAdd_ok {l : Level} (hl : l.WF) {a b : RnsPoly}
    (ha : ∀ i, i < l.size → ∀ j, j < (a.getD i #[]).size → (a.getD i #[]).getD j 0 < (l.q i).value)
    (hb : ∀ i, i < l.size → ∀ j, j < (a.getD i #[]).size → (b.getD i #[]).getD j 0 < (l.q i).value) :
    rnsAdd l a b = .ok (c01o_zipVal l a b (fun i x y => (x + y) % (l.q i).value)) := by
  unfold rnsAdd
  apply c01o_rnsZip_ok
  intro i hi j hj
  exact addMod_exact (c01o_level_comp hl hi).2.2.2 (ha i hi j hj) (hb i hi j hj)


/-- PHASE, NTT form, size 2: the model returns (in NTT form) the polynomial whose coefficient form is c0 + c1·s mod (X^N+1, q_i)
    in every component, where c0, c1 are the coefficient forms of the inputs -/
theorem dotProduct_size2_ntt {l : Level} (hl : l.WF) {sk : Array Int} (hsk : sk.size = l.n) {c0 c1 : RnsPoly}
    (h0 : RnsCanon l c0) (h1 : RnsCanon l c1) :
    ∃ ph, dotProductCtSk l sk ⟨#[c0, c1], true, 1⟩ = .ok ph ∧ RnsCanon l ph ∧
      ∀ i, i < l.size → ∀ j, j < l.n →
        (intt (l.tbl i) (ph.getD i #[])).getD j 0 =
          ((intt (l.tbl i) (c0.getD i #[])).getD j 0 +
            negMulNat l.n (l.q i).value (intt (l.tbl i) (c1.getD i #[])) (skRes l sk i) j) % (l.q i).value := by
  have hq61 : ∀ i, i < l.size → (l.q i).value < 2^61 := fun i hi => (c01o_level_comp hl hi).2.2.2.lt
  have hq2 : ∀ i, i < l.size → 2 ≤ (l.q i).value := fun i hi => (c01o_level_comp hl hi).2.2.2.two_le
  have hd := c01o_rnsDyadic_ok hl (a := c1) (b := skNtt l sk)
    (fun i hi j hj => by
      have := (h1.2 i hi).2 j (by rw [← (h1.2 i hi).1]; exact hj)
      have := hq61 i hi; omega)
    (fun i hi j hj => by
      rw [c01o_skNtt_getD l sk hi]
      have := (c01o_sk_comp hl hsk hi).2.2.2 j (by rw [← (h1.2 i hi).1]; exact hj)
      have := hq61 i hi; omega)
  generalize hD : c01o_zipVal l c1 (skNtt l sk) (fun i x y => (x * y) % (l.q i).value) = D at hd
  have hDs : ∀ i, i < l.size → (D.getD i #[]).size = l.n := fun i hi => by
    rw [← hD, c01o_zipVal_comp_size _ _ _ _ hi]; exact (h1.2 i hi).1
  have hDv : ∀ i, i < l.size → ∀ j, j < l.n → (D.getD i #[]).getD j 0 =
      ((c1.getD i #[]).getD j 0 * (ntt (l.tbl i) (skRes l sk i)).getD j 0) % (l.q i).value := fun i hi j hj => by
    rw [← hD, c01o_zipVal_coeff _ _ _ _ hi (by rw [(h1.2 i hi).1]; exact hj), c01o_skNtt_getD l sk hi]
  have ha := c01o_rnsAdd_ok hl (a := D) (b := c0)
    (fun i hi j hj => by
      rw [hDv i hi j (by rw [← hDs i hi]; exact hj)]
      exact Nat.mod_lt _ (by have := hq2 i hi; omega))
    (fun i hi j hj => (h0.2 i hi).2 j (by rw [← hDs i hi]; exact hj))
  generalize hP : c01o_zipVal l D c0 (fun i x y => (x + y) % (l.q i).value) = ph at ha
  have hPs : ∀ i, i < l.size → (ph.getD i #[]).size = l.n := fun i hi => by
    rw [← hP, c01o_zipVal_comp_size _ _ _ _ hi]; exact hDs i hi
  have hPv : ∀ i, i < l.size → ∀ j, j < l.n → (ph.getD i #[]).getD j 0 =
      ((D.getD i #[]).getD j 0 + (c0.getD i #[]).getD j 0) % (l.q i).value := fun i hi j hj => by
    rw [← hP, c01o_zipVal_coeff _ _ _ _ hi (by rw [hDs i hi]; exact hj)]
  refine ⟨ph, ?_, ⟨?_, fun i hi => ⟨hPs i hi, fun j hj => ?_⟩⟩, fun i hi => ?_⟩
  · rw [c01o_dot_ntt_eq, hd]; exact ha
  · rw [← hP]; exact c01o_zipVal_size _ _ _ _
  · rw [hPv i hi j hj]; exact Nat.mod_lt _ (by have := hq2 i hi; omega)
  · obtain ⟨htw, htm, htn, _⟩ := c01o_level_comp hl hi
    obtain ⟨s1, s2, _, _⟩ := c01o_sk_comp hl hsk hi
    exact c01o_comp_ntt htw htm htn (h0.2 i hi).1 (h1.2 i hi).1 s1 (hDs i hi) (hPs i hi)
      (h0.2 i hi).2 (h1.2 i hi).2 s2 (hDv i hi) (hPv i hi)

/-- PHASE, coefficient form, size 2 (BFV): the model returns c0 + c1·s mod (X^N+1, q_i) in coefficient form -/
theorem dotProduct_size2_coeff {l : Level} (hl : l.WF) {sk : Array Int} (hsk : sk.size = l.n) {c0 c1 : RnsPoly}
    (h0 : RnsCanon l c0) (h1 : RnsCanon l c1) :
    ∃ ph, dotProductCtSk l sk ⟨#[c0, c1], false, 1⟩ = .ok ph ∧ RnsCanon l ph ∧
      ∀ i, i < l.size → ∀ j, j < l.n →
        (ph.getD i #[]).getD j 0 =
          ((c0.getD i #[]).getD j 0 + negMulNat l.n (l.q i).value (c1.getD i #[]) (skRes l sk i) j) % (l.q i).value := by
  have hq61 : ∀ i, i < l.size → (l.q i).value < 2^61 := fun i hi => (c01o_level_comp hl hi).2.2.2.lt
  have hq2 : ∀ i, i < l.size → 2 ≤ (l.q i).value := fun i hi => (c01o_level_comp hl hi).2.2.2.two_le
  -- the transformed c1 is canonical
  have hN1 : ∀ i, i < l.size → ((rnsNtt l c1).getD i #[]).size = l.n ∧
      ∀ j, j < l.n → ((rnsNtt l c1).getD i #[]).getD j 0 < (l.q i).value := fun i hi => by
    obtain ⟨htw, htm, htn, _⟩ := c01o_level_comp hl hi
    rw [c01o_rnsNtt_getD l c1 hi]
    obtain ⟨n1, n2⟩ := ntt_sim htw (c1.getD i #[]) (by rw [(h1.2 i hi).1, htn]) (fun j hj => by
      have := (h1.2 i hi).2 j (by omega); omega)
    exact ⟨by rw [n1, htn], fun j hj => by have := (n2 j (by omega)).2.1; omega⟩
  have hd := c01o_rnsDyadic_ok hl (a := rnsNtt l c1) (b := skNtt l sk)
    (fun i hi j hj => by
      have := (hN1 i hi).2 j (by rw [← (hN1 i hi).1]; exact hj)
      have := hq61 i hi; omega)
    (fun i hi j hj => by
      rw [c01o_skNtt_getD l sk hi]
      have := (c01o_sk_comp hl hsk hi).2.2.2 j (by rw [← (hN1 i hi).1]; exact hj)
      have := hq61 i hi; omega)
  generalize hD : c01o_zipVal l (rnsNtt l c1) (skNtt l sk) (fun i x y => (x * y) % (l.q i).value) = D at hd
  have hDs : ∀ i, i < l.size → (D.getD i #[]).size = l.n := fun i hi => by
    rw [← hD, c01o_zipVal_comp_size _ _ _ _ hi]; exact (hN1 i hi).1
  have hDv : ∀ i, i < l.size → ∀ j, j < l.n → (D.getD i #[]).getD j 0 =
      ((ntt (l.tbl i) (c1.getD i #[])).getD j 0 * (ntt (l.tbl i) (skRes l sk i)).getD j 0) % (l.q i).value :=
    fun i hi j hj => by
      rw [← hD, c01o_zipVal_coeff _ _ _ _ hi (by rw [(hN1 i hi).1]; exact hj), c01o_skNtt_getD l sk hi,
        c01o_rnsNtt_getD l c1 hi]
  -- the inverse transform of the product, per component
  have hI : ∀ i, i < l.size → ((rnsIntt l D).getD i #[]).size = l.n ∧ ∀ j, j < l.n →
      ((rnsIntt l D).getD i #[]).getD j 0 = negMulNat l.n (l.q i).value (c1.getD i #[]) (skRes l sk i) j ∧
      ((rnsIntt l D).getD i #[]).getD j 0 < (l.q i).value := fun i hi => by
    obtain ⟨htw, htm, htn, _⟩ := c01o_level_comp hl hi
    obtain ⟨s1, s2, _, _⟩ := c01o_sk_comp hl hsk hi
    rw [c01o_rnsIntt_getD l D hi]
    exact c01o_comp_coeff htw htm htn (h1.2 i hi).1 s1 (hDs i hi) (h1.2 i hi).2 s2 (hDv i hi)
  have ha := c01o_rnsAdd_ok hl (a := rnsIntt l D) (b := c0)
    (fun i hi j hj => ((hI i hi).2 j (by rw [← (hI i hi).1]; exact hj)).2)
    (fun i hi j hj => (h0.2 i hi).2 j (by rw [← (hI i hi).1]; exact hj))
  generalize hP : c01o_zipVal l (rnsIntt l D) c0 (fun i x y => (x + y) % (l.q i).value) = ph at ha
  have hPs : ∀ i, i < l.size → (ph.getD i #[]).size = l.n := fun i hi => by
    rw [← hP, c01o_zipVal_comp_size _ _ _ _ hi]; exact (hI i hi).1
  have hPv : ∀ i, i < l.size → ∀ j, j < l.n → (ph.getD i #[]).getD j 0 =
      (((rnsIntt l D).getD i #[]).getD j 0 + (c0.getD i #[]).getD j 0) % (l.q i).value := fun i hi j hj => by
    rw [← hP, c01o_zipVal_coeff _ _ _ _ hi (by rw [(hI i hi).1]; exact hj)]
  refine ⟨ph, ?_, ⟨?_, fun i hi => ⟨hPs i hi, fun j hj => ?_⟩⟩, fun i hi j hj => ?_⟩
  · rw [c01o_dot_coeff_eq, hd]; exact ha
  · rw [← hP]; exact c01o_zipVal_size _ _ _ _
  · rw [hPv i hi j hj]; exact Nat.mod_lt _ (by have := hq2 i hi; omega)
  · rw [hPv i hi j hj, ((hI i hi).2 j hj).1, Nat.add_comm]

/-! ### key switching: gadget identity and phase algebra -/

/-- each gadget element is ≡ 1 modulo its own prime and ≡ 0 modulo the others — this is why the key generator adds P·s' only to
    component j of key j -/
theorem gadget_delta {b : RNSBase} (hb : b.WF) {i j : Nat} (hi : i < b.size) (hj : j < b.size) :
    (b.punct.getD j 0 * (b.invPunct.getD j default).operand) % (b.q i).value = if i = j then 1 % (b.q i).value else 0 := by
  by_cases hij : i = j
  · subst hij
    rw [if_pos rfl, ← (hb.inv_wf i hi).2, Nat.mod_mul_mod]
  · rw [if_neg hij]
    exact Nat.mod_eq_zero_of_dvd (Dvd.dvd.mul_right (hb.q_dvd_punct hj hi (Ne.symm hij)) _)

/-- CRT GADGET: the digits c mod q_j recombine with the gadget elements g_j = (Q/q_j)·[(Q/q_j)^{-1}]_{q_j} -/
theorem gadget_crt {b : RNSBase} (hb : b.WF) (c : Nat) :
    (∑ j ∈ range b.size, (c % (b.q j).value) * (b.punct.getD j 0 * (b.invPunct.getD j default).operand)) % b.prod = c % b.prod := by
  apply hb.crt_modEq
  intro i hi
  have h2 := (hb.mwf i hi).two_le
  rw [Finset.sum_nat_mod]
  have hterm : ∀ j ∈ range b.size,
      ((c % (b.q j).value) * (b.punct.getD j 0 * (b.invPunct.getD j default).operand)) % (b.q i).value
        = if i = j then c % (b.q i).value else 0 := by
    intro j hj
    rw [Nat.mul_mod, gadget_delta hb hi (mem_range.mp hj)]
    by_cases hij : i = j
    · subst hij
      rw [if_pos rfl, if_pos rfl, Nat.mod_mod, Nat.mod_eq_of_lt (show 1 < (b.q i).value by omega),
        Nat.mul_one, Nat.mod_mod]
    · rw [if_neg hij, if_neg hij, Nat.mul_zero, Nat.zero_mod]
  rw [Finset.sum_congr rfl hterm, Finset.sum_ite_eq, if_pos (mem_range.mpr hi), Nat.mod_mod]

/-- KEY-SWITCH PHASE (any commutative ring): if every key satisfies k0_j + k1_j·s = e_j + P·g_j·s' and Σ_j d_j·g_j = c then
    (Σ_j d_j·k0_j) + (Σ_j d_j·k1_j)·s = P·c·s' + Σ_j d_j·e_j -/
theorem keyswitch_phase {R : Type} [CommRing R] (k : Nat) (d g e k0 k1 : Nat → R) (s s' P c : R)
    (hkey : ∀ j, j < k → k0 j + k1 j * s = e j + P * g j * s') (hg : ∑ j ∈ range k, d j * g j = c) :
    (∑ j ∈ range k, d j * k0 j) + (∑ j ∈ range k, d j * k1 j) * s = P * c * s' + ∑ j ∈ range k, d j * e j := by
  rw [← hg, Finset.sum_mul, ← Finset.sum_add_distrib, Finset.mul_sum, Finset.sum_mul, ← Finset.sum_add_distrib]
  apply Finset.sum_congr rfl
  intro j hj
  have := hkey j (mem_range.mp hj)
  linear_combination d j * this

/-- MOD-DOWN by the special prime with rounding (scalar): X = P·Y + E ⇒ round(X/P) = Y + round(E/P), and |round(E/P)| ≤ |E|/P + 1 -/
theorem moddown_round {P : Nat} (hP : 0 < P) (X Y E : Int) (h : X = P * Y + E) :
    Spec.roundDiv X P = Y + Spec.roundDiv E P ∧ (Spec.roundDiv E P).natAbs * P ≤ E.natAbs + P := by
  have hPz : (0 : Int) < (P : Int) := by exact_mod_cast hP
  have h2P : (2 * (P : Int)) ≠ 0 := by omega
  constructor
  · unfold Spec.roundDiv
    have e : 2 * X + (P : Int) = (2 * E + P) + 2 * (P : Int) * Y := by rw [h]; ring
    rw [e, Int.add_mul_ediv_left _ _ h2P, add_comm]
  · unfold Spec.roundDiv
    generalize hr : (2 * E + (P : Int)) / (2 * (P : Int)) = r
    have h1 : 2 * (P : Int) * r ≤ 2 * E + P := by rw [← hr]; exact Int.mul_ediv_self_le h2P
    have h2 : 2 * E + (P : Int) < 2 * (P : Int) * r + 2 * P := by
      rw [← hr]; exact Int.lt_mul_ediv_self_add (by omega)
    have hgoal : ((r.natAbs * P : Nat) : Int) ≤ ((E.natAbs + P : Nat) : Int) := by
      push_cast
      rcases abs_cases r with ⟨hr1, hr2⟩ | ⟨hr1, hr2⟩ <;> rcases abs_cases E with ⟨he1, he2⟩ | ⟨he1, he2⟩ <;>
        rw [hr1, he1] <;> nlinarith
    exact_mod_cast hgoal

end HC
