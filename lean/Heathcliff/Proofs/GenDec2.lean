/-
  Phase 4m, part 2: the arithmetic tail of `invariant_noise_budget` (generated skeleton `dec_invariant_noise_budget`):
  checks, plan of the opaque steps, `poly_infty_norm`, bit counts, the `- 1`, the clamp at 0.
-/
import Heathcliff.Proofs.GenDec
namespace HC
open HC.GenDec

/-- the model's last two lines of `noiseBudget`: `d := bits(Q) - bits(norm) - 1; d.toNat` -/
def budgetOfBits (totalBits normBits : Nat) : Nat := ((totalBits : Int) - (normBits : Int) - 1).toNat

theorem gd_budget_arith (tb nb : Nat) (htb : tb < 2^63) (hnb : nb < 2^63) :
    (do let t3 ← ckI64 (asI64 tb - asI64 nb); let v6 ← ckI64 (t3 - 1); pure (GenW.asU64 (max v6 0)) : R Nat) = .ok (budgetOfBits tb nb) := by
  rw [gw_asI64_small tb htb, gw_asI64_small nb hnb]
  have h1 : ckI64 ((tb : Int) - (nb : Int)) = .ok ((tb : Int) - (nb : Int)) := by
    unfold ckI64; rw [if_pos ⟨by omega, by omega⟩]; rfl
  have h2 : ckI64 ((tb : Int) - (nb : Int) - 1) = .ok ((tb : Int) - (nb : Int) - 1) := by
    unfold ckI64; rw [if_pos ⟨by omega, by omega⟩]; rfl
  simp only [h1, h2, bind, Except.bind, pure, Except.pure]
  congr 1
  unfold budgetOfBits
  rw [gw_asU64_nonneg _ (by omega) (by omega)]
  omega

/-- GENERATED `invariant_noise_budget` (skeleton): the four refusals in source order (invalid ciphertext, size < 2, scheme not BFV / BGV, NTT form),
    the plan `1, (2 if BFV), 3`, the composed noise must fill the `n·k` words, then norm, bit count and `budgetOfBits`. -/
theorem gd_invariant_noise_budget_eq (valid : Bool) (size : Nat) (scheme : Scheme) (ntt : Bool) (k n : Nat) (Q : List Nat) (tb : Nat)
    (composed plan norm : List Nat) (nb : Nat)
    (hvalid : valid = true) (hsize : 2 ≤ size) (hs : scheme = .bfv ∨ scheme = .bgv) (hntt : ntt = false)
    (hnk : n * k < 2^64) (hlen : composed.length = n * k)
    (hnorm : poly_infty_norm composed k Q (List.replicate k 0) = .ok norm)
    (hbits : get_significant_bit_count_uint norm = .ok nb) (htb : tb < 2^63) (hnb : nb < 2^63) :
    dec_invariant_noise_budget valid size scheme ntt k n Q tb composed plan =
      .ok (plan ++ [1] ++ (if scheme = .bfv then [2] else []) ++ [3], budgetOfBits tb nb) := by
  unfold dec_invariant_noise_budget
  have hm : ckMul n k = .ok (n * k) := by unfold ckMul; rw [if_pos (by simpa [B64] using hnk)]
  have hcw : copyWhole (List.replicate (n * k) 0) composed = .ok composed := by unfold copyWhole; simp [hlen]
  have hsz : ¬ size < 2 := by omega
  have hsch : ¬ (scheme ≠ Scheme.bfv ∧ scheme ≠ Scheme.bgv) := by rcases hs with h | h <;> simp [h]
  have har := gd_budget_arith tb nb htb hnb
  simp only [hvalid, hntt, hsz, hsch, hm, hcw, hnorm, hbits, bind, Except.bind, pure, Except.pure, not_true_eq_false, if_false, Bool.false_eq_true] at har ⊢
  rcases hs with h | h
  · subst h
    simp only [if_true]
    revert har
    cases ckI64 (asI64 tb - asI64 nb) with
    | error e => intro har; cases har
    | ok t3 =>
      simp only []
      cases ckI64 (t3 - 1) with
      | error e => intro har; cases har
      | ok v6 => intro har; simp only [] at har ⊢; injection har with har; rw [har]
  · subst h
    simp only [if_false, reduceCtorEq]
    revert har
    cases ckI64 (asI64 tb - asI64 nb) with
    | error e => intro har; cases har
    | ok t3 =>
      simp only []
      cases ckI64 (t3 - 1) with
      | error e => intro har; cases har
      | ok v6 => intro har; simp only [] at har ⊢; injection har with har; rw [har]; simp

end HC
