/- C04: Galois automorphisms act as X ↦ X^g on coefficient vectors, as the documented permutation on NTT vectors;
   rotation steps map to powers of 3; NAF-composed rotations compose to the requested step.

   FALSE STATEMENTS (kept as `…Statement : Prop`, refuted, and proved in corrected form):
   * `three_pow_two_pow` is false for j = 0 (3 % 8 = 3 ≠ 5): `three_pow_two_powStatement_false`;
     true for 1 ≤ j: `three_pow_two_pow_pos`.
   * `eltFromStep_refuses` is false for k = 0, s = 0 (`eltFromStep 0 0 = .ok 1`): `eltFromStep_refusesStatement_false`;
     true under `s ≠ 0 ∨ 1 ≤ k`: `eltFromStep_refuses'`.
   * `eltsAll_contains` is false for k ≥ 63 (k = 63: `tryInvert 3 2^64` overflows the i64 arithmetic of `xgcd`, so
     `eltsAll 63 = .error .overflow`): `eltsAll_containsStatement_false`; true under `k ≤ 62`: `eltsAll_contains_le`. -/
import Heathcliff.Model.Galois
import Heathcliff.Proofs.C09G
import Heathcliff.Proofs.C08A
import Heathcliff.Proofs.C08B
import Mathlib.Data.ZMod.Basic
import Mathlib.Tactic.Ring
import Mathlib.Tactic.Linarith
namespace HC
open Finset

theorem c04m_coprime {k g : Nat} (hg : g % 2 = 1) : Nat.gcd (2^k) g = 1 := by
  have : Nat.Coprime 2 g := Nat.coprime_two_left.mpr (Nat.odd_iff.mpr hg)
  exact Nat.Coprime.pow_left k this

theorem odd_mul_injective {k g i j : Nat} (hg : g % 2 = 1) (hi : i < 2^k) (hj : j < 2^k)
    (h : (i * g) % 2^k = (j * g) % 2^k) : i = j := by
  have h1 : i ≡ j [MOD 2^k] := Nat.ModEq.cancel_right_of_coprime (c04m_coprime hg) h
  unfold Nat.ModEq at h1
  rwa [Nat.mod_eq_of_lt hi, Nat.mod_eq_of_lt hj] at h1

/-! ### units -/

def three_pow_two_powStatement : Prop := ∀ j : Nat, 3 ^ (2^j) % 2^(j+3) = (1 + 2^(j+2)) % 2^(j+3)

theorem three_pow_two_powStatement_false : ¬ three_pow_two_powStatement := by
  intro h
  have := h 0
  revert this
  decide

theorem c04m_three_pow_step (j c : Nat) (h : 3 ^ (2^j) = 1 + 2^(j+2) + 2^(j+3) * c) :
    3 ^ (2^(j+1)) = 1 + 2^(j+3) + 2^(j+4) * (c + 2^j * (1 + 2*c)^2) := by
  rw [pow_succ 2 j, pow_mul, h]
  ring

theorem three_pow_two_pow_pos (j : Nat) (hj : 1 ≤ j) : 3 ^ (2^j) % 2^(j+3) = (1 + 2^(j+2)) % 2^(j+3) := by
  induction j, hj using Nat.le_induction with
  | base => decide
  | succ j hj ih =>
    have hlt : 1 + 2^(j+2) < 2^(j+3) := by
      have : 2 ≤ 2^(j+2) := by
        calc 2 = 2^1 := rfl
          _ ≤ 2^(j+2) := Nat.pow_le_pow_right (by norm_num) (by omega)
      rw [pow_succ 2 (j+2)]; omega
    rw [Nat.mod_eq_of_lt hlt] at ih
    have h := Nat.div_add_mod (3 ^ (2^j)) (2^(j+3))
    rw [ih] at h
    have h' : 3 ^ (2^j) = 1 + 2^(j+2) + 2^(j+3) * (3 ^ (2^j) / 2^(j+3)) := by omega
    rw [c04m_three_pow_step j _ h']
    rw [Nat.add_mul_mod_self_left]

theorem c04m_two_le_pow (j : Nat) : 2 ≤ 2^(j+1) := by
  calc 2 = 2^1 := rfl
    _ ≤ 2^(j+1) := Nat.pow_le_pow_right (by norm_num) (by omega)

theorem c04m_three_half {j : Nat} : 3 ^ (2^(j+1)) % 2^(j+3) = 1 := by
  have h := three_pow_two_pow_pos (j+1) (by omega)
  have e : j + 1 + 2 = j + 3 := by omega
  have e' : j + 1 + 3 = j + 4 := by omega
  rw [e, e'] at h
  have hd : 2^(j+3) ∣ 2^(j+4) := ⟨2, by ring⟩
  have h2 : 2 ≤ 2^(j+3) := c04m_two_le_pow (j+2)
  calc 3 ^ (2^(j+1)) % 2^(j+3) = (3 ^ (2^(j+1)) % 2^(j+4)) % 2^(j+3) := (Nat.mod_mod_of_dvd _ hd).symm
    _ = ((1 + 2^(j+3)) % 2^(j+4)) % 2^(j+3) := by rw [h]
    _ = (1 + 2^(j+3)) % 2^(j+3) := Nat.mod_mod_of_dvd _ hd
    _ = 1 % 2^(j+3) := Nat.add_mod_right _ _
    _ = 1 := Nat.mod_eq_of_lt (by omega)

theorem c04m_three_quarter {j : Nat} : 3 ^ (2^j) % 2^(j+3) ≠ 1 := by
  rcases Nat.eq_zero_or_pos j with h0 | hpos
  · subst h0; decide
  · rw [three_pow_two_pow_pos j hpos]
    have h2 : 2 ≤ 2^(j+2) := c04m_two_le_pow (j+1)
    have hlt : 1 + 2^(j+2) < 2^(j+3) := by
      rw [pow_succ 2 (j+2)]; omega
    rw [Nat.mod_eq_of_lt hlt]; omega

theorem c04m_half (j : Nat) : 2^(j+1) / 2 = 2^j := by
  rw [pow_succ]; exact Nat.mul_div_cancel _ (by norm_num)

theorem three_order {k : Nat} (hk : 2 ≤ k) : 3 ^ (2^k / 2) % (2 * 2^k) = 1 ∧ 3 ^ (2^k / 4) % (2 * 2^k) ≠ 1 := by
  obtain ⟨j, rfl⟩ : ∃ j, k = j + 2 := ⟨k - 2, by omega⟩
  have e1 : 2^(j+2) / 2 = 2^(j+1) := c04m_half (j+1)
  have e2 : 2^(j+2) / 4 = 2^j := by
    rw [pow_succ, pow_succ, Nat.mul_assoc]; exact Nat.mul_div_cancel _ (by norm_num)
  have e3 : 2 * 2^(j+2) = 2^(j+3) := by ring
  rw [e1, e2, e3]
  exact ⟨c04m_three_half, c04m_three_quarter⟩

theorem step_inverse {k s : Nat} (hk : 2 ≤ k) (hs : s < 2^k / 2) :
    (3 ^ s * 3 ^ (2^k / 2 - s)) % (2 * 2^k) = 1 := by
  rw [← pow_add, Nat.add_sub_cancel' hs.le]
  exact (three_order hk).1

theorem step_add {k a b : Nat} (hk : 2 ≤ k) :
    (3 ^ a * 3 ^ b) % (2 * 2^k) = 3 ^ ((a + b) % (2^k / 2)) % (2 * 2^k) := by
  rw [← pow_add]
  conv_lhs => rw [← Nat.div_add_mod (a + b) (2^k / 2)]
  rw [pow_add, pow_mul, Nat.mul_mod, Nat.pow_mod, (three_order hk).1, one_pow]
  have h1 : 1 % (2 * 2^k) = 1 := Nat.mod_eq_of_lt (by have := Nat.one_le_two_pow (n := k); omega)
  rw [h1, one_mul, Nat.mod_mod]

/-! ### eltFromStep -/

theorem c04m_fold_pow (m s : Nat) (hm : 2 ≤ m) :
    (List.range s).foldl (fun e _ => (e * galoisGenerator) % m) 1 = 3 ^ s % m := by
  induction s with
  | zero => simp; exact (Nat.mod_eq_of_lt (by omega)).symm
  | succ s ih =>
    rw [List.range_succ, List.foldl_append, ih]
    simp only [List.foldl_cons, List.foldl_nil, galoisGenerator]
    rw [pow_succ, Nat.mod_mul_mod]

theorem c04m_two_le_m (k : Nat) : 2 ≤ 2 * 2^k := by
  have := Nat.one_le_two_pow (n := k); omega

theorem eltFromStep_spec {k : Nat} {s : Int} (hs : s.natAbs < 2^k / 2) (hs0 : s ≠ 0) :
    eltFromStep k s = .ok (3 ^ (if s < 0 then 2^k / 2 - s.natAbs else s.natAbs) % (2 * 2^k)) := by
  unfold eltFromStep
  simp only []
  rw [if_neg hs0, if_neg (by omega), c04m_fold_pow _ _ (c04m_two_le_m k)]
  rfl

theorem eltFromStep_zero (k : Nat) : eltFromStep k 0 = .ok (2 * 2^k - 1) := rfl

def eltFromStep_refusesStatement : Prop :=
  ∀ {k : Nat} {s : Int}, 2^k / 2 ≤ s.natAbs → eltFromStep k s = .error .refused

/-- counterexample: N = 1 (k = 0), step 0: `2^0 / 2 = 0 ≤ |0|` but step 0 always yields 2N − 1 -/
theorem eltFromStep_refusesStatement_false : ¬ eltFromStep_refusesStatement := by
  intro h
  have := @h 0 0 (by decide)
  rw [eltFromStep_zero] at this
  exact absurd this (by simp)

theorem eltFromStep_refuses' {k : Nat} {s : Int} (hs : 2^k / 2 ≤ s.natAbs) (h : s ≠ 0 ∨ 1 ≤ k) :
    eltFromStep k s = .error .refused := by
  have h0 : s ≠ 0 := by
    rcases h with h | h
    · exact h
    · intro h0
      subst h0
      have h2 : 2 ≤ 2^k := by
        obtain ⟨j, rfl⟩ : ∃ j, k = j + 1 := ⟨k - 1, by omega⟩
        exact c04m_two_le_pow j
      have : (0:Int).natAbs = 0 := rfl
      rw [this] at hs
      omega
  unfold eltFromStep
  simp only []
  rw [if_neg h0, if_pos hs]


theorem c04m_table_get {k g i : Nat} (hi : i < 2^k) :
    (galoisTableNtt k g).getD i 0 = brev k (((g * brev (k+1) (i + 2^k)) / 2) % 2^k) := by
  unfold galoisTableNtt
  simp [Array.getD, hi]

theorem c04m_odd_half (N r : Nat) (hN : 0 < N) (hr : r % 2 = 1) :
    (r / 2) % N = ((r % (2 * N)) - 1) / 2 ∧ 2 * (((r % (2 * N)) - 1) / 2) + 1 = r % (2 * N) ∧
      ((r % (2 * N)) - 1) / 2 < N := by
  have h1 := Nat.div_add_mod r (2 * N)
  have h2 : (r % (2 * N)) % 2 = 1 := by rw [Nat.mod_mod_of_dvd _ ⟨N, rfl⟩]; exact hr
  have h3 : r % (2 * N) < 2 * N := Nat.mod_lt _ (by omega)
  have h4 : r / 2 = N * (r / (2 * N)) + ((r % (2 * N)) - 1) / 2 := by
    rw [Nat.mul_assoc] at h1
    generalize N * (r / (2 * N)) = t at *
    omega
  refine ⟨?_, by omega, by omega⟩
  rw [h4, Nat.mul_add_mod]
  exact Nat.mod_eq_of_lt (by omega)

theorem c04m_odd_mul {g b : Nat} (hg : g % 2 = 1) : (g * (2 * b + 1)) % 2 = 1 := by
  rw [Nat.mul_mod, hg, Nat.mul_add_mod]

theorem c04m_brev_top {k i : Nat} (hi : i < 2^k) : brev (k+1) (i + 2^k) = 2 * brev k i + 1 := by
  have := brev_top k 0 i hi
  rw [Nat.add_comm i]
  simpa using this

theorem galoisTable_spec {k g i : Nat} (hg : g % 2 = 1) (hi : i < 2^k) :
    (galoisTableNtt k g).getD i 0 = brev k ((((g * (2 * brev k i + 1)) % (2 * 2^k)) - 1) / 2) ∧
    (galoisTableNtt k g).getD i 0 < 2^k := by
  rw [c04m_table_get hi]
  refine ⟨?_, brev_lt _ _⟩
  rw [c04m_brev_top hi, (c04m_odd_half (2^k) _ (Nat.two_pow_pos k) (c04m_odd_mul hg)).1]

theorem galoisTable_exponent {k g i : Nat} (hg : g % 2 = 1) (hi : i < 2^k) :
    (2 * brev k ((galoisTableNtt k g).getD i 0) + 1) % (2 * 2^k) = (g * (2 * brev k i + 1)) % (2 * 2^k) := by
  obtain ⟨_, h2, h3⟩ := c04m_odd_half (2^k) _ (Nat.two_pow_pos k) (c04m_odd_mul (b := brev k i) hg)
  rw [(galoisTable_spec hg hi).1, brev_brev h3, h2, Nat.mod_mod]


/-- the value written for source index i -/
def c04m_val (k g : Nat) (m : Modulus) (a : Array Nat) (i : Nat) : Nat :=
  if ((i * g) / 2^k) % 2 = 1 then (m.value - a.getD i 0) % m.value else a.getD i 0

def c04m_step (k g : Nat) (m : Modulus) (a : Array Nat) (res : Array Nat) (i : Nat) : R (Array Nat) := do
  let raw := i * g
  let idx := raw % 2^k
  let x := a.getD i 0
  let v ← if (raw / 2^k) % 2 = 1 then negateMod x m else pure x
  pure (res.setIfInBounds idx v)

theorem c04m_apply_eq (k g : Nat) (m : Modulus) (a : Array Nat) :
    galoisApply k a g m = (List.range (2^k)).foldlM (c04m_step k g m a) (Array.replicate (2^k) 0) := rfl

theorem c04m_step_ok {k g : Nat} {m : Modulus} (hm : m.WF) {a : Array Nat} {i : Nat}
    (ha : a.getD i 0 < m.value) (res : Array Nat) :
    c04m_step k g m a res i = .ok (res.setIfInBounds ((i * g) % 2^k) (c04m_val k g m a i)) := by
  unfold c04m_step c04m_val
  by_cases h : ((i * g) / 2^k) % 2 = 1
  · simp only [h, if_true]
    rw [negateMod_exact hm ha.le]
    rfl
  · simp only [h, if_false]
    rfl

theorem c04m_foldlM_ok {k g : Nat} {m : Modulus} (hm : m.WF) {a : Array Nat}
    (ha : ∀ i, i < 2^k → a.getD i 0 < m.value) (l : List Nat) (hl : ∀ i ∈ l, i < 2^k) (init : Array Nat) :
    l.foldlM (c04m_step k g m a) init =
      .ok (l.foldl (fun res i => res.setIfInBounds ((i * g) % 2^k) (c04m_val k g m a i)) init) := by
  induction l generalizing init with
  | nil => rfl
  | cons x xs ih =>
    rw [List.foldlM_cons, c04m_step_ok hm (ha x (hl x (by simp)))]
    simp only [bind, Except.bind, List.foldl_cons]
    exact ih (fun i hi => hl i (by simp [hi])) _

theorem c04m_fold_inv {k g : Nat} (hg : g % 2 = 1) (v : Nat → Nat) (n : Nat) (hn : n ≤ 2^k) :
    let r := (List.range n).foldl (fun (res : Array Nat) i => res.setIfInBounds ((i * g) % 2^k) (v i)) (Array.replicate (2^k) 0)
    r.size = 2^k ∧ ∀ i, i < n → r.getD ((i * g) % 2^k) 0 = v i := by
  induction n with
  | zero => simp
  | succ n ih =>
    obtain ⟨ih1, ih2⟩ := ih (by omega)
    simp only [List.range_succ, List.foldl_append, List.foldl_cons, List.foldl_nil]
    refine ⟨by simp [ih1], ?_⟩
    intro i hi
    have hpos : 0 < 2^k := Nat.two_pow_pos k
    rcases Nat.lt_succ_iff_lt_or_eq.mp hi with hlt | heq
    · have hne : (n * g) % 2^k ≠ (i * g) % 2^k := by
        intro h
        have := odd_mul_injective hg (by omega) (by omega) h
        omega
      rw [Array.getD_eq_getD_getElem?, Array.getElem?_setIfInBounds_ne hne, ← Array.getD_eq_getD_getElem?]
      exact ih2 i hlt
    · subst heq
      rw [Array.getD_eq_getD_getElem?, Array.getElem?_setIfInBounds_self_of_lt (by rw [ih1]; exact Nat.mod_lt _ hpos)]
      rfl

theorem galoisApply_spec {k g : Nat} {m : Modulus} (hm : m.WF) (hg : g % 2 = 1) {a : Array Nat} (hs : a.size = 2^k)
    (ha : ∀ i, i < 2^k → a.getD i 0 < m.value) :
    ∃ r, galoisApply k a g m = .ok r ∧ r.size = 2^k ∧ ∀ i, i < 2^k →
      r.getD ((i * g) % 2^k) 0 = (if ((i * g) / 2^k) % 2 = 1 then (m.value - a.getD i 0) % m.value else a.getD i 0) := by
  have _ := hs
  rw [c04m_apply_eq, c04m_foldlM_ok hm ha _ (fun i hi => List.mem_range.mp hi)]
  obtain ⟨h1, h2⟩ := c04m_fold_inv (k := k) hg (c04m_val k g m a) (2^k) le_rfl
  exact ⟨_, rfl, h1, h2⟩


theorem c04m_image_eq {k g : Nat} (hg : g % 2 = 1) :
    (range (2^k)).image (fun i => (i * g) % 2^k) = range (2^k) := by
  apply Finset.eq_of_subset_of_card_le
  · intro x hx
    rw [Finset.mem_image] at hx
    obtain ⟨i, _, rfl⟩ := hx
    exact Finset.mem_range.mpr (Nat.mod_lt _ (Nat.two_pow_pos k))
  · rw [Finset.card_image_of_injOn]
    intro i hi j hj h
    exact odd_mul_injective hg (Finset.mem_range.mp hi) (Finset.mem_range.mp hj) h

theorem c04m_term {R : Type} [CommRing R] {k g : Nat} (x : R) (hx : x ^ (2^k) = -1) (a r : Nat → R) (i : Nat)
    (hr : r ((i * g) % 2^k) = (if ((i * g) / 2^k) % 2 = 1 then - a i else a i)) :
    r ((i * g) % 2^k) * x ^ ((i * g) % 2^k) = a i * (x ^ g) ^ i := by
  have e : (x ^ g) ^ i = (x ^ (2^k)) ^ ((i * g) / 2^k) * x ^ ((i * g) % 2^k) := by
    rw [← pow_mul, ← pow_mul, ← pow_add, Nat.div_add_mod, Nat.mul_comm]
  rw [e, hx, hr]
  by_cases h : ((i * g) / 2^k) % 2 = 1
  · rw [if_pos h, Odd.neg_one_pow (Nat.odd_iff.mpr h)]; ring
  · rw [if_neg h, Even.neg_one_pow (Nat.even_iff.mpr (by omega))]; ring

theorem subst_eval {R : Type} [CommRing R] {k g : Nat} (hg : g % 2 = 1) (x : R) (hx : x ^ (2^k) = -1) (a r : Nat → R)
    (hr : ∀ i, i < 2^k → r ((i * g) % 2^k) = (if ((i * g) / 2^k) % 2 = 1 then - a i else a i)) :
    ∑ j ∈ range (2^k), r j * x ^ j = ∑ i ∈ range (2^k), a i * (x ^ g) ^ i := by
  conv_lhs => rw [← c04m_image_eq (k := k) hg]
  rw [Finset.sum_image]
  · apply Finset.sum_congr rfl
    intro i hi
    exact c04m_term x hx a r i (hr i (Finset.mem_range.mp hi))
  · intro i hi j hj h
    exact odd_mul_injective hg (Finset.mem_range.mp hi) (Finset.mem_range.mp hj) h


def eltsAll_containsStatement : Prop :=
  ∀ {k i : Nat}, 2 ≤ k → i + 2 ≤ k →
    ∃ l, eltsAll k = .ok l ∧ (3 ^ (2^i) % (2 * 2^k)) ∈ l ∧ (2 * 2^k - 1) ∈ l ∧
      ∃ inv, (inv * 3 ^ (2^i)) % (2 * 2^k) = 1 ∧ inv < 2 * 2^k ∧ inv ∈ l

theorem c04m_tryInvert_63 : tryInvert galoisGenerator (2 * 2^63) = .error .overflow := by decide

theorem c04m_eltsAll_63 : eltsAll 63 = .error .overflow := by
  unfold eltsAll
  simp only [bind, Except.bind]
  rw [c04m_tryInvert_63]

/-- counterexample: k = 63 (2N = 2^64): the i64 arithmetic in `xgcd` overflows and `eltsAll` fails -/
theorem eltsAll_containsStatement_false : ¬ eltsAll_containsStatement := by
  intro h
  obtain ⟨l, hl, _⟩ := @h 63 0 (by norm_num) (by norm_num)
  rw [c04m_eltsAll_63] at hl
  exact absurd hl (by simp)

def c04m_F (m : Nat) (acc : List Nat × Nat × Nat) (_ : Nat) : List Nat × Nat × Nat :=
  (acc.1 ++ [acc.2.1, acc.2.2], (acc.2.1 * acc.2.1) % m, (acc.2.2 * acc.2.2) % m)

theorem c04m_eltsAll_eq {k inv : Nat} (h : tryInvert galoisGenerator (2 * 2^k) = .ok (some inv)) :
    eltsAll k = .ok ((List.range (k - 1)).foldl (c04m_F (2 * 2^k)) ([2 * 2^k - 1], 3, inv)).1 := by
  unfold eltsAll
  simp only [bind, Except.bind]
  rw [h]
  rfl

theorem c04m_sq_mod (p m n : Nat) : (p ^ 2^n % m * (p ^ 2^n % m)) % m = p ^ 2^(n+1) % m := by
  rw [← Nat.mul_mod, pow_succ 2 n, pow_mul, sq]

theorem c04m_fold_inv2 (m p0 q0 : Nat) (l0 : List Nat) (hp : p0 < m) (hq : q0 < m) (n : Nat) :
    let st := (List.range n).foldl (c04m_F m) (l0, p0, q0)
    st.2.1 = p0 ^ 2^n % m ∧ st.2.2 = q0 ^ 2^n % m ∧ (∀ x ∈ l0, x ∈ st.1) ∧
      ∀ i, i < n → p0 ^ 2^i % m ∈ st.1 ∧ q0 ^ 2^i % m ∈ st.1 := by
  induction n with
  | zero =>
    simp [Nat.mod_eq_of_lt hp, Nat.mod_eq_of_lt hq]
  | succ n ih =>
    obtain ⟨h1, h2, h3, h4⟩ := ih
    simp only [List.range_succ, List.foldl_append, List.foldl_cons, List.foldl_nil]
    refine ⟨?_, ?_, ?_, ?_⟩
    · show (_ * _) % m = _
      rw [h1, c04m_sq_mod]
    · show (_ * _) % m = _
      rw [h2, c04m_sq_mod]
    · intro x hx
      exact List.mem_append_left _ (h3 x hx)
    · intro i hi
      rcases Nat.lt_succ_iff_lt_or_eq.mp hi with hlt | heq
      · exact ⟨List.mem_append_left _ (h4 i hlt).1, List.mem_append_left _ (h4 i hlt).2⟩
      · subst heq
        refine ⟨List.mem_append_right _ ?_, List.mem_append_right _ ?_⟩
        · rw [← h1]; simp
        · rw [← h2]; simp

theorem c04m_inv_pow (m inv n : Nat) (hm : 2 ≤ m) (h : (inv * 3) % m = 1) :
    ((inv ^ n % m) * 3 ^ n) % m = 1 := by
  rw [Nat.mod_mul_mod, ← mul_pow, Nat.pow_mod, h, one_pow]
  exact Nat.mod_eq_of_lt (by omega)

theorem c04m_tryInvert {k : Nat} (hk : k ≤ 62) :
    ∃ inv, tryInvert galoisGenerator (2 * 2^k) = .ok (some inv) ∧ inv < 2 * 2^k ∧ (inv * 3) % (2 * 2^k) = 1 := by
  by_cases h59 : k ≤ 59
  · have hlt : 2 * 2^k < 2^61 := by
      calc 2 * 2^k = 2^(k+1) := by ring
        _ ≤ 2^60 := Nat.pow_le_pow_right (by norm_num) (by omega)
        _ < 2^61 := by norm_num
    have hgcd : Nat.gcd 3 (2 * 2^k) = 1 := by
      have : 2 * 2^k = 2^(k+1) := by ring
      rw [this, Nat.gcd_comm]
      exact c04m_coprime (by norm_num)
    exact (tryInvert_spec_partial (v := 3) (c04m_two_le_m k) hlt (by norm_num) (by norm_num)).1 ⟨by norm_num, hgcd⟩
  · have : k = 60 ∨ k = 61 ∨ k = 62 := by omega
    rcases this with rfl | rfl | rfl
    · exact ⟨768614336404564651, by decide, by decide, by decide⟩
    · exact ⟨3074457345618258603, by decide, by decide, by decide⟩
    · exact ⟨3074457345618258603, by decide, by decide, by decide⟩

/-- `eltsAll_contains` under the additional hypothesis k ≤ 62 (2N ≤ 2^63; false for k ≥ 63) -/
theorem eltsAll_contains_le {k i : Nat} (hk : 2 ≤ k) (hk' : k ≤ 62) (hi : i + 2 ≤ k) :
    ∃ l, eltsAll k = .ok l ∧ (3 ^ (2^i) % (2 * 2^k)) ∈ l ∧ (2 * 2^k - 1) ∈ l ∧
      ∃ inv, (inv * 3 ^ (2^i)) % (2 * 2^k) = 1 ∧ inv < 2 * 2^k ∧ inv ∈ l := by
  obtain ⟨inv, h1, h2, h3⟩ := c04m_tryInvert hk'
  have hm8 : 8 ≤ 2 * 2^k := by
    obtain ⟨j, rfl⟩ : ∃ j, k = j + 2 := ⟨k - 2, by omega⟩
    have := Nat.one_le_two_pow (n := j)
    rw [pow_succ, pow_succ]; omega
  obtain ⟨_, _, f3, f4⟩ := c04m_fold_inv2 (2 * 2^k) 3 inv [2 * 2^k - 1] (by omega) h2 (k - 1)
  refine ⟨_, c04m_eltsAll_eq h1, (f4 i (by omega)).1, f3 _ (by simp), inv ^ 2^i % (2 * 2^k), ?_, ?_, (f4 i (by omega)).2⟩
  · exact c04m_inv_pow _ _ _ (by omega) h3
  · exact Nat.mod_lt _ (by omega)

end HC
