import Heathcliff.Gen.LadderFns
import Heathcliff.Model.Context

/-!
  Translator tie (phase 3) for `HeContext::validate` (src/context.rs): the CONDITIONS of four error returns, generated into
  `Heathcliff/Gen/LadderFns.lean` (namespace `HC.GenL`), against the conditions of `validate` / `validateBfv` of
  `Heathcliff/Model/Context.lean`, and the position of these rungs in the model's ladder.  Helper names start with `gy_`.
-/
namespace HC

theorem gy_cond_size_eq (k : Nat) :
    GenL.cond_InvalidCoeffModulusSize k = decide (k > Gen.HE_COEFF_MOD_COUNT_MAX ∨ k < Gen.HE_COEFF_MOD_COUNT_MIN) := rfl

theorem gy_cond_bits_eq (q : Nat) :
    GenL.cond_InvalidCoeffModulusBitCount q =
      decide (q / 2^Gen.HE_USER_MOD_BIT_COUNT_MAX > 0 ∨ q / 2^(Gen.HE_USER_MOD_BIT_COUNT_MIN - 1) = 0) := by
  unfold GenL.cond_InvalidCoeffModulusBitCount
  simp only [Nat.shiftRight_eq_div_pow]; rfl

theorem gy_cond_degree_eq (n : Nat) :
    GenL.cond_InvalidPolyModulusDegree n = decide (n < Gen.HE_POLY_MOD_DEGREE_MIN ∨ n > Gen.HE_POLY_MOD_DEGREE_MAX) := by
  unfold GenL.cond_InvalidPolyModulusDegree
  have : Gen.HE_POLY_MOD_DEGREE_MIN = 2 := rfl
  have : Gen.HE_POLY_MOD_DEGREE_MAX = 131072 := rfl
  apply decide_eq_decide.mpr; omega

theorem gy_cond_plain_eq (t : Nat) :
    GenL.cond_InvalidPlainModulusBitCount t =
      decide (t / 2^Gen.HE_PLAIN_MOD_BIT_COUNT_MAX > 0 ∨ t / 2^(Gen.HE_PLAIN_MOD_BIT_COUNT_MIN - 1) = 0) := by
  unfold GenL.cond_InvalidPlainModulusBitCount
  simp only [Nat.shiftRight_eq_div_pow]; rfl

open HC.Ctx HC.Gen

/-- rung 2 of the model's ladder fires exactly on the generated condition of the code's `InvalidCoeffModulusSize` return -/
theorem gy_validate_size (isPrime : Nat → Bool) (p : Params) (sec : SecLevel) (hs : p.scheme ≠ .None)
    (h : GenL.cond_InvalidCoeffModulusSize p.q.length = true) :
    validate isPrime p sec = pure { parms := p, err := .InvalidCoeffModulusSize } := by
  rw [gy_cond_size_eq, decide_eq_true_eq] at h
  unfold validate
  simp only [hs, if_false, h, if_true]

theorem gy_validate_bits (isPrime : Nat → Bool) (p : Params) (sec : SecLevel) (hs : p.scheme ≠ .None)
    (h1 : GenL.cond_InvalidCoeffModulusSize p.q.length = false)
    (h2 : p.q.any (fun q => GenL.cond_InvalidCoeffModulusBitCount q) = true) :
    validate isPrime p sec = pure { parms := p, err := .InvalidCoeffModulusBitCount } := by
  rw [gy_cond_size_eq, decide_eq_false_iff_not] at h1
  have h2' : p.q.any (fun q => decide (q / 2^HE_USER_MOD_BIT_COUNT_MAX > 0 ∨ q / 2^(HE_USER_MOD_BIT_COUNT_MIN - 1) = 0)) = true := by
    rw [← h2]; congr 1; funext q; rw [gy_cond_bits_eq]
  unfold validate
  simp only [hs, if_false, h1, h2', if_true]

theorem gy_validate_degree (isPrime : Nat → Bool) (p : Params) (sec : SecLevel) (hs : p.scheme ≠ .None)
    (h1 : GenL.cond_InvalidCoeffModulusSize p.q.length = false)
    (h2 : p.q.any (fun q => GenL.cond_InvalidCoeffModulusBitCount q) = false)
    (h3 : GenL.cond_InvalidPolyModulusDegree p.n = true) :
    validate isPrime p sec = pure { ctx1 p with err := .InvalidPolyModulusDegree } := by
  rw [gy_cond_size_eq, decide_eq_false_iff_not] at h1
  rw [gy_cond_degree_eq, decide_eq_true_eq] at h3
  have h2' : p.q.any (fun q => decide (q / 2^HE_USER_MOD_BIT_COUNT_MAX > 0 ∨ q / 2^(HE_USER_MOD_BIT_COUNT_MIN - 1) = 0)) = false := by
    rw [← h2]; congr 1; funext q; rw [gy_cond_bits_eq]
  unfold validate
  simp only [hs, if_false, h1, h2', h3, if_true, Bool.false_eq_true]

theorem gy_validateBfv_plain (isPrime : Nat → Bool) (c : ContextData) (kp Q : Nat)
    (h : GenL.cond_InvalidPlainModulusBitCount c.parms.t = true) :
    validateBfv isPrime c kp Q = pure ({ c with err := .InvalidPlainModulusBitCount }, false) := by
  rw [gy_cond_plain_eq, decide_eq_true_eq] at h
  unfold validateBfv
  simp only [h, if_true]
end HC
