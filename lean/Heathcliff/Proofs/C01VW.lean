/- C01 part V, non-vacuity: the hypotheses of the driver-object end-to-end theorems (`DrvCtx`, every constructor of `DrvMode`, the
   margins) are inhabited simultaneously in the concrete worlds of C01LW (N = 4, key level q = {97, 113, 193}, GENUINE public key from the
   model's key generation): BFV / BGV / CKKS × {public key at the head of the chain, through the special prime, at a lower level,
   secret key, seed-compressed}. -/
import Heathcliff.Proofs.C01V
import Heathcliff.Proofs.C01LW
namespace HC
open Finset

attribute [local instance] c01w_decRnsCanon c01w_decWFOp

/-- the key material of the C01LW world is a `DrvCtx` (the public key IS the output of `genPublicKey`, by `genPublicKey_pkRel`) -/
theorem c01vw_ctx {s : Scheme} {t : Nat} (hkl : Drv.Sch.mkLevel s 4 [97, 113, 193] t = .ok (c01w_pl s t)) (hbgv : s = .bgv → t ≠ 0)
    (hcan : RnsCanon (c01w_pl s t) (c01w_a.extract 0 (c01w_pl s t).size)) :
    DrvCtx s 4 t [97, 113, 193] (c01w_pl s t) c01w_sk (c01w_pk0 (c01w_pl s t)) (c01w_a.extract 0 (c01w_pl s t).size) := by
  obtain ⟨a1, a2, a3, a4, a5, a6, a7, a8, a9⟩ := mkLevel_ok hkl
  refine ⟨hkl, hbgv, rfl, by decide, c01w_epk, false, rfl, by decide, hcan, ?_⟩
  obtain ⟨pk0, h, -, -⟩ := genPublicKey_pkRel a1 (c01v_t64 hkl) (sk := c01w_sk) (by rw [a6]; rfl) hcan (e := c01w_epk) (by rw [a6]; rfl) false
  have : c01w_pk0 (c01w_pl s t) = pk0 := by unfold c01w_pk0; rw [h]; rfl
  rw [this]; exact h

theorem c01vw_ctx_bfv : DrvCtx .bfv 4 17 [97, 113, 193] (c01w_pl .bfv 17) c01w_sk (c01w_pk0 (c01w_pl .bfv 17))
    (c01w_a.extract 0 (c01w_pl .bfv 17).size) := c01vw_ctx c01w_pl_ok_bfv (by decide) (by decide +kernel)
theorem c01vw_ctx_bgv : DrvCtx .bgv 4 17 [97, 113, 193] (c01w_pl .bgv 17) c01w_sk (c01w_pk0 (c01w_pl .bgv 17))
    (c01w_a.extract 0 (c01w_pl .bgv 17).size) := c01vw_ctx c01w_pl_ok_bgv (by decide) (by decide +kernel)
theorem c01vw_ctx_ckks : DrvCtx .ckks 4 0 [97, 113, 193] (c01w_pl .ckks 0) c01w_sk (c01w_pk0 (c01w_pl .ckks 0))
    (c01w_a.extract 0 (c01w_pl .ckks 0).size) := c01vw_ctx c01w_pl_ok_ckks (by decide) (by decide +kernel)

/-! ### the four kinds of admissible modes in the concrete world -/

/-- special-prime path: level {97, 113}, previous level = key level {97, 113, 193} (r = []) -/
theorem c01vw_mode_sp {s : Scheme} {t : Nat} {pk0 pk1 : RnsPoly} (hpl : Drv.Sch.mkLevel s 4 [97, 113, 193] t = .ok (c01w_pl s t)) :
    DrvMode s 4 t [97, 113, 193] c01w_sk pk0 pk1 [97, 113] (c01w_l s t)
      (.asym (some (c01w_pl s t)) #[pk0, pk1] (rnsOfInt (c01w_pl s t) c01w_u) #[rnsOfInt (c01w_pl s t) c01w_e0, rnsOfInt (c01w_pl s t) c01w_e1])
      (spBound 193 (21 * (2 * 4 + 1)) (drvSlack s) 4) :=
  DrvMode.pkPrev (qL := 193) (r := []) rfl hpl rfl rfl rfl (by decide) (by decide) (by decide)

/-- head of the chain: level = key level {97, 113, 193}, no previous level (r = []) -/
theorem c01vw_mode_head (s : Scheme) (t : Nat) (pk0 pk1 : RnsPoly) :
    DrvMode s 4 t [97, 113, 193] c01w_sk pk0 pk1 [97, 113, 193] (c01w_pl s t)
      (.asym none #[pk0, pk1] (rnsOfInt (c01w_pl s t) c01w_u) #[rnsOfInt (c01w_pl s t) c01w_e0, rnsOfInt (c01w_pl s t) c01w_e1])
      (21 * (2 * 4 + 1)) :=
  DrvMode.pk (r := []) rfl rfl rfl rfl (by decide) (by decide) (by decide)

/-- a LOWER level: level {97}, previous level {97, 113}, key level {97, 113, 193} (r = [193]) -/
theorem c01vw_mode_lower {s : Scheme} {t : Nat} {pk0 pk1 : RnsPoly} (hpl : Drv.Sch.mkLevel s 4 [97, 113] t = .ok (c01w_l s t)) :
    DrvMode s 4 t [97, 113, 193] c01w_sk pk0 pk1 [97] (c01w_lv s [97] t)
      (.asym (some (c01w_l s t)) #[pk0, pk1] (rnsOfInt (c01w_l s t) c01w_u) #[rnsOfInt (c01w_l s t) c01w_e0, rnsOfInt (c01w_l s t) c01w_e1])
      (spBound 113 (21 * (2 * 4 + 1)) (drvSlack s) 4) :=
  DrvMode.pkPrev (qL := 113) (r := [193]) rfl hpl rfl rfl rfl (by decide) (by decide) (by decide)

/-- secret key / seed-compressed at level {97, 113} -/
theorem c01vw_mode_sk (s : Scheme) (t : Nat) (pk0 pk1 : RnsPoly) (hcan : RnsCanon (c01w_l s t) (c01w_a.extract 0 (c01w_l s t).size))
    (saveSeed : Bool) :
    DrvMode s 4 t [97, 113, 193] c01w_sk pk0 pk1 [97, 113] (c01w_l s t)
      (.sym c01w_sk (c01w_a.extract 0 (c01w_l s t).size) (rnsOfInt (c01w_l s t) c01w_e0) saveSeed) 21 :=
  DrvMode.sk (e := c01w_e0) hcan rfl (by decide) saveSeed

/-! ### BFV -/

/-- NON-VACUITY of `drv_bfv_encrypt_decrypt`, special-prime path (margin `FreshEncOK` evaluated: B = 3) -/
theorem c01vw_bfv_sp :
    ∃ cdp ct, Drv.C01E.bfvConsts (c01w_l .bfv 17) [97, 113] 17 = .ok cdp ∧
      bfvEncrypt (c01w_l .bfv 17) cdp (Spec.prodL [97, 113] % 17) ((17 + 1) / 2)
        (.asym (some (c01w_pl .bfv 17)) #[c01w_pk0 (c01w_pl .bfv 17), c01w_a.extract 0 (c01w_pl .bfv 17).size]
          (rnsOfInt (c01w_pl .bfv 17) c01w_u) #[rnsOfInt (c01w_pl .bfv 17) c01w_e0, rnsOfInt (c01w_pl .bfv 17) c01w_e1]) c01w_plain = .ok ct ∧
      bfvDecrypt (c01w_l .bfv 17) c01w_sk ct = .ok (trimPlain (padPlain 4 c01w_plain)) :=
  drv_bfv_encrypt_decrypt c01vw_ctx_bfv c01w_l_ok_bfv (by decide) (c01vw_mode_sp c01w_pl_ok_bfv) (by decide) (by decide)
    (by unfold FreshEncOK; decide +kernel)

/-- NON-VACUITY of `drv_bfv_encrypt_decrypt_inputs`, head of the chain (margin on the inputs: 4·17·190 ≤ 97·113·193) -/
theorem c01vw_bfv_head :
    ∃ cdp ct, Drv.C01E.bfvConsts (c01w_pl .bfv 17) [97, 113, 193] 17 = .ok cdp ∧
      bfvEncrypt (c01w_pl .bfv 17) cdp (Spec.prodL [97, 113, 193] % 17) ((17 + 1) / 2)
        (.asym none #[c01w_pk0 (c01w_pl .bfv 17), c01w_a.extract 0 (c01w_pl .bfv 17).size]
          (rnsOfInt (c01w_pl .bfv 17) c01w_u) #[rnsOfInt (c01w_pl .bfv 17) c01w_e0, rnsOfInt (c01w_pl .bfv 17) c01w_e1]) c01w_plain = .ok ct ∧
      bfvDecrypt (c01w_pl .bfv 17) c01w_sk ct = .ok (trimPlain (padPlain 4 c01w_plain)) :=
  drv_bfv_encrypt_decrypt_inputs c01vw_ctx_bfv c01w_pl_ok_bfv (by decide) (c01vw_mode_head _ _ _ _) (by decide) (by decide) (by decide)

/-- NON-VACUITY, secret key and seed-compressed (margin on the inputs: 4·17·22 ≤ 97·113) -/
theorem c01vw_bfv_sk (saveSeed : Bool) :
    ∃ cdp ct, Drv.C01E.bfvConsts (c01w_l .bfv 17) [97, 113] 17 = .ok cdp ∧
      bfvEncrypt (c01w_l .bfv 17) cdp (Spec.prodL [97, 113] % 17) ((17 + 1) / 2)
        (.sym c01w_sk (c01w_a.extract 0 (c01w_l .bfv 17).size) (rnsOfInt (c01w_l .bfv 17) c01w_e0) saveSeed) c01w_plain = .ok ct ∧
      bfvDecrypt (c01w_l .bfv 17) c01w_sk ct = .ok (trimPlain (padPlain 4 c01w_plain)) :=
  drv_bfv_encrypt_decrypt_inputs c01vw_ctx_bfv c01w_l_ok_bfv (by decide) (c01vw_mode_sk _ _ _ _ (by decide +kernel) saveSeed)
    (by decide) (by decide) (by decide)

/-- NON-VACUITY of `drv_bfv_encrypt_zero_decrypt` (`encrypt_zero_at` through the special prime decrypts to the zero plaintext) -/
theorem c01vw_bfv_zero :
    ∃ z, encryptZeroInternal (c01w_l .bfv 17)
        (.asym (some (c01w_pl .bfv 17)) #[c01w_pk0 (c01w_pl .bfv 17), c01w_a.extract 0 (c01w_pl .bfv 17).size]
          (rnsOfInt (c01w_pl .bfv 17) c01w_u) #[rnsOfInt (c01w_pl .bfv 17) c01w_e0, rnsOfInt (c01w_pl .bfv 17) c01w_e1]) = .ok z ∧
      bfvDecrypt (c01w_l .bfv 17) c01w_sk z = .ok #[0] :=
  drv_bfv_encrypt_zero_decrypt c01vw_ctx_bfv c01w_l_ok_bfv (by decide) (c01vw_mode_sp c01w_pl_ok_bfv)
    (by unfold FreshEncOK; decide +kernel)

/-! ### BGV -/

/-- NON-VACUITY of `drv_bgv_encrypt_decrypt`: special-prime path -/
theorem c01vw_bgv_sp :
    ∃ ct, bgvEncrypt (c01w_l .bgv 17) (Drv.C01E.bgvIncr [97, 113] 17).1 ((17 + 1) / 2) (Drv.C01E.bgvIncr [97, 113] 17).2
        (.asym (some (c01w_pl .bgv 17)) #[c01w_pk0 (c01w_pl .bgv 17), c01w_a.extract 0 (c01w_pl .bgv 17).size]
          (rnsOfInt (c01w_pl .bgv 17) c01w_u) #[rnsOfInt (c01w_pl .bgv 17) c01w_e0, rnsOfInt (c01w_pl .bgv 17) c01w_e1]) c01w_plain = .ok ct ∧
      ct.cf = 1 ∧ bgvDecrypt (c01w_l .bgv 17) c01w_sk ct = .ok (trimPlain (padPlain 4 c01w_plain)) :=
  drv_bgv_encrypt_decrypt c01vw_ctx_bgv c01w_l_ok_bgv (c01vw_mode_sp c01w_pl_ok_bgv) (by decide) (by decide) (by decide)

/-- … head of the chain -/
theorem c01vw_bgv_head :
    ∃ ct, bgvEncrypt (c01w_pl .bgv 17) (Drv.C01E.bgvIncr [97, 113, 193] 17).1 ((17 + 1) / 2) (Drv.C01E.bgvIncr [97, 113, 193] 17).2
        (.asym none #[c01w_pk0 (c01w_pl .bgv 17), c01w_a.extract 0 (c01w_pl .bgv 17).size]
          (rnsOfInt (c01w_pl .bgv 17) c01w_u) #[rnsOfInt (c01w_pl .bgv 17) c01w_e0, rnsOfInt (c01w_pl .bgv 17) c01w_e1]) c01w_plain = .ok ct ∧
      ct.cf = 1 ∧ bgvDecrypt (c01w_pl .bgv 17) c01w_sk ct = .ok (trimPlain (padPlain 4 c01w_plain)) :=
  drv_bgv_encrypt_decrypt c01vw_ctx_bgv c01w_pl_ok_bgv (c01vw_mode_head _ _ _ _) (by decide) (by decide) (by decide)

/-- … a LOWER level ({97}, below {97, 113}, key level {97, 113, 193}), t = 17 < 97: margin 2·17·(B+1) < 97 with B = 5 fails (204 > 97):
    the zero-encryption statement at this level is therefore shown for CKKS below; BGV here at level {97, 113} with the secret key and
    both seed variants -/
theorem c01vw_bgv_sk (saveSeed : Bool) :
    ∃ ct, bgvEncrypt (c01w_l .bgv 17) (Drv.C01E.bgvIncr [97, 113] 17).1 ((17 + 1) / 2) (Drv.C01E.bgvIncr [97, 113] 17).2
        (.sym c01w_sk (c01w_a.extract 0 (c01w_l .bgv 17).size) (rnsOfInt (c01w_l .bgv 17) c01w_e0) saveSeed) c01w_plain = .ok ct ∧
      ct.cf = 1 ∧ bgvDecrypt (c01w_l .bgv 17) c01w_sk ct = .ok (trimPlain (padPlain 4 c01w_plain)) :=
  drv_bgv_encrypt_decrypt c01vw_ctx_bgv c01w_l_ok_bgv (c01vw_mode_sk _ _ _ _ (by decide +kernel) saveSeed) (by decide) (by decide) (by decide)

theorem c01w_pl_ok_bgv101 : Drv.Sch.mkLevel .bgv 4 [97, 113, 193] 101 = .ok (c01w_pl .bgv 101) := c01w_lv_ok _ _ _ (by decide +kernel)

/-- … the MULTI-WORD plaintext lift chosen BY THE DRIVER'S OWN RULE (t = 101 ≥ q_0 = 97: `bgvIncr` takes the non-fast path), special-prime
    path, margin 2·101·6 < 97·113 -/
theorem c01vw_bgv_sp_multiword :
    (Drv.C01E.bgvIncr [97, 113] 101).1 = false ∧
    ∃ ct, bgvEncrypt (c01w_l .bgv 101) (Drv.C01E.bgvIncr [97, 113] 101).1 ((101 + 1) / 2) (Drv.C01E.bgvIncr [97, 113] 101).2
        (.asym (some (c01w_pl .bgv 101)) #[c01w_pk0 (c01w_pl .bgv 101), c01w_a.extract 0 (c01w_pl .bgv 101).size]
          (rnsOfInt (c01w_pl .bgv 101) c01w_u) #[rnsOfInt (c01w_pl .bgv 101) c01w_e0, rnsOfInt (c01w_pl .bgv 101) c01w_e1]) c01w_plain101 = .ok ct ∧
      ct.cf = 1 ∧ bgvDecrypt (c01w_l .bgv 101) c01w_sk ct = .ok (trimPlain (padPlain 4 c01w_plain101)) :=
  ⟨by decide, drv_bgv_encrypt_decrypt (c01vw_ctx c01w_pl_ok_bgv101 (by decide) (by decide +kernel)) c01w_l_ok_bgv101
    (c01vw_mode_sp c01w_pl_ok_bgv101) (by decide) (by decide) (by decide)⟩

/-- NON-VACUITY of `drv_bgv_encrypt_zero_decrypt` -/
theorem c01vw_bgv_zero :
    ∃ z, encryptZeroInternal (c01w_l .bgv 17)
        (.asym (some (c01w_pl .bgv 17)) #[c01w_pk0 (c01w_pl .bgv 17), c01w_a.extract 0 (c01w_pl .bgv 17).size]
          (rnsOfInt (c01w_pl .bgv 17) c01w_u) #[rnsOfInt (c01w_pl .bgv 17) c01w_e0, rnsOfInt (c01w_pl .bgv 17) c01w_e1]) = .ok z ∧
      z.cf = 1 ∧ bgvDecrypt (c01w_l .bgv 17) c01w_sk z = .ok #[0] :=
  drv_bgv_encrypt_zero_decrypt c01vw_ctx_bgv c01w_l_ok_bgv (c01vw_mode_sp c01w_pl_ok_bgv) (by decide)

/-! ### CKKS -/

def c01vw_M : Array Int := #[3, -2, 0, 5]

theorem c01vw_l97_ok_ckks : Drv.Sch.mkLevel .ckks 4 [97] 0 = .ok (c01w_lv .ckks [97] 0) := c01w_lv_ok _ _ _ (by decide +kernel)

/-- NON-VACUITY of `drv_ckks_encrypt_decrypt`: special-prime path, 2(|M_c| + 3) < 97·113 -/
theorem c01vw_ckks_sp :
    ∃ (ν : Nat → Int) (ct : Ct) (dec : RnsPoly), (∀ c, c < 4 → (ν c).natAbs ≤ spBound 193 (21 * (2 * 4 + 1)) (drvSlack .ckks) 4) ∧
      ckksEncrypt (c01w_l .ckks 0)
        (.asym (some (c01w_pl .ckks 0)) #[c01w_pk0 (c01w_pl .ckks 0), c01w_a.extract 0 (c01w_pl .ckks 0).size]
          (rnsOfInt (c01w_pl .ckks 0) c01w_u) #[rnsOfInt (c01w_pl .ckks 0) c01w_e0, rnsOfInt (c01w_pl .ckks 0) c01w_e1])
        (ckksPlainOfInt (c01w_l .ckks 0) c01vw_M) = .ok ct ∧
      ckksDecrypt (c01w_l .ckks 0) c01w_sk ct = .ok dec ∧ RnsCanon (c01w_l .ckks 0) dec ∧
      (∀ c, c < 4 → (Drv.Sch.exactPhase (c01w_l .ckks 0) [97, 113] c01w_sk ct).getD c 0 = c01vw_M.getD c 0 + ν c) ∧
      ∀ i, i < (c01w_l .ckks 0).size → ∀ c, c < 4 →
        (intt ((c01w_l .ckks 0).tbl i) (dec.getD i #[])).getD c 0 = Spec.imod (c01vw_M.getD c 0 + ν c) ((c01w_l .ckks 0).q i).value :=
  drv_ckks_encrypt_decrypt c01vw_ctx_ckks c01w_l_ok_ckks (c01vw_mode_sp c01w_pl_ok_ckks) rfl (by decide)

/-- … at a LOWER level ({97} below {97, 113}; the key level is {97, 113, 193}, r = [193]): 2(|M_c| + 4) < 97 -/
theorem c01vw_ckks_lower :
    ∃ (ν : Nat → Int) (ct : Ct) (dec : RnsPoly), (∀ c, c < 4 → (ν c).natAbs ≤ spBound 113 (21 * (2 * 4 + 1)) (drvSlack .ckks) 4) ∧
      ckksEncrypt (c01w_lv .ckks [97] 0)
        (.asym (some (c01w_l .ckks 0)) #[c01w_pk0 (c01w_pl .ckks 0), c01w_a.extract 0 (c01w_pl .ckks 0).size]
          (rnsOfInt (c01w_l .ckks 0) c01w_u) #[rnsOfInt (c01w_l .ckks 0) c01w_e0, rnsOfInt (c01w_l .ckks 0) c01w_e1])
        (ckksPlainOfInt (c01w_lv .ckks [97] 0) c01vw_M) = .ok ct ∧
      ckksDecrypt (c01w_lv .ckks [97] 0) c01w_sk ct = .ok dec ∧ RnsCanon (c01w_lv .ckks [97] 0) dec ∧
      (∀ c, c < 4 → (Drv.Sch.exactPhase (c01w_lv .ckks [97] 0) [97] c01w_sk ct).getD c 0 = c01vw_M.getD c 0 + ν c) ∧
      ∀ i, i < (c01w_lv .ckks [97] 0).size → ∀ c, c < 4 →
        (intt ((c01w_lv .ckks [97] 0).tbl i) (dec.getD i #[])).getD c 0 =
          Spec.imod (c01vw_M.getD c 0 + ν c) ((c01w_lv .ckks [97] 0).q i).value :=
  drv_ckks_encrypt_decrypt c01vw_ctx_ckks c01vw_l97_ok_ckks (c01vw_mode_lower c01w_l_ok_ckks) rfl (by decide)

/-- … secret key / seed-compressed -/
theorem c01vw_ckks_sk (saveSeed : Bool) :
    ∃ (ν : Nat → Int) (ct : Ct) (dec : RnsPoly), (∀ c, c < 4 → (ν c).natAbs ≤ 21) ∧
      ckksEncrypt (c01w_l .ckks 0)
        (.sym c01w_sk (c01w_a.extract 0 (c01w_l .ckks 0).size) (rnsOfInt (c01w_l .ckks 0) c01w_e0) saveSeed)
        (ckksPlainOfInt (c01w_l .ckks 0) c01vw_M) = .ok ct ∧
      ckksDecrypt (c01w_l .ckks 0) c01w_sk ct = .ok dec ∧ RnsCanon (c01w_l .ckks 0) dec ∧
      (∀ c, c < 4 → (Drv.Sch.exactPhase (c01w_l .ckks 0) [97, 113] c01w_sk ct).getD c 0 = c01vw_M.getD c 0 + ν c) ∧
      ∀ i, i < (c01w_l .ckks 0).size → ∀ c, c < 4 →
        (intt ((c01w_l .ckks 0).tbl i) (dec.getD i #[])).getD c 0 = Spec.imod (c01vw_M.getD c 0 + ν c) ((c01w_l .ckks 0).q i).value :=
  drv_ckks_encrypt_decrypt c01vw_ctx_ckks c01w_l_ok_ckks (c01vw_mode_sk _ _ _ _ (by decide +kernel) saveSeed) rfl (by decide)

/-- NON-VACUITY of `drv_ckks_encrypt_zero_decrypt` at the LOWER level {97}: 2·4 < 97 -/
theorem c01vw_ckks_zero_lower :
    ∃ (ν : Nat → Int) (z : Ct) (dec : RnsPoly), (∀ c, c < 4 → (ν c).natAbs ≤ spBound 113 (21 * (2 * 4 + 1)) (drvSlack .ckks) 4) ∧
      encryptZeroInternal (c01w_lv .ckks [97] 0)
        (.asym (some (c01w_l .ckks 0)) #[c01w_pk0 (c01w_pl .ckks 0), c01w_a.extract 0 (c01w_pl .ckks 0).size]
          (rnsOfInt (c01w_l .ckks 0) c01w_u) #[rnsOfInt (c01w_l .ckks 0) c01w_e0, rnsOfInt (c01w_l .ckks 0) c01w_e1]) = .ok z ∧
      ckksDecrypt (c01w_lv .ckks [97] 0) c01w_sk z = .ok dec ∧ RnsCanon (c01w_lv .ckks [97] 0) dec ∧
      (∀ c, c < 4 → (Drv.Sch.exactPhase (c01w_lv .ckks [97] 0) [97] c01w_sk z).getD c 0 = ν c) ∧
      ∀ i, i < (c01w_lv .ckks [97] 0).size → ∀ c, c < 4 →
        (intt ((c01w_lv .ckks [97] 0).tbl i) (dec.getD i #[])).getD c 0 = Spec.imod (ν c) ((c01w_lv .ckks [97] 0).q i).value :=
  drv_ckks_encrypt_zero_decrypt c01vw_ctx_ckks c01vw_l97_ok_ckks (c01vw_mode_lower c01w_l_ok_ckks) (by decide)

/-! ### the margins at a realistic size (pure arithmetic; the level bundles at this size cannot be evaluated by the kernel, they are
    THEOREMS for whatever `mkLevel` returns): N = 8192, three 40-bit primes ≡ 1 mod 2N (the last one the special prime), t = 786433
    (20 bits, ≡ 1 mod 2N) -/

/-- noise bound through the special prime at N = 8192: BFV / CKKS 4096, BGV 8193 -/
example : spBound 1099510824961 (21 * (2 * 8192 + 1)) 1 8192 = 4096 ∧ spBound 1099510824961 (21 * (2 * 8192 + 1)) 2 8192 = 8193 := by
  unfold spBound; decide

/-- BFV margin on the inputs (`drv_bfv_encrypt_decrypt_inputs`) through the special prime, and at the head of the chain -/
example : 4 * (786433 * (spBound 1099510824961 (21 * (2 * 8192 + 1)) 1 8192 + 1)) ≤ Spec.prodL [1099511480321, 1099510890497] ∧
    4 * (786433 * (21 * (2 * 8192 + 1) + 1)) ≤ Spec.prodL [1099511480321, 1099510890497, 1099510824961] := by
  unfold spBound; decide

/-- BGV margin (`drv_bgv_encrypt_decrypt`) through the special prime -/
example : 2 * (786433 * (spBound 1099510824961 (21 * (2 * 8192 + 1)) 2 8192 + 1)) < Spec.prodL [1099511480321, 1099510890497] := by
  unfold spBound; decide

/-- CKKS (`drv_ckks_encrypt_decrypt`): plaintext coefficients up to 2^60 through the special prime -/
example : 2 * (2^60 + spBound 1099510824961 (21 * (2 * 8192 + 1)) 1 8192) < Spec.prodL [1099511480321, 1099510890497] := by
  unfold spBound; decide

end HC
