/-
  C20: output re-encoding vs. output decoding (block level), selected-terms transport, and the rotation algebra the BOLT
  slot-packing variants rest on.
-/
import Heathcliff.Proofs.C20B

namespace HC
open Finset HC.MM

/-- `encode_outputs_*` writes entry (db, dj) of a block exactly where `decrypt_outputs_*` reads it (`outPos`), and nothing else:
    reading the encoded block at the decoder's positions returns the entries (inverse pair at block level) -/
theorem c20_encOutput_spec {R : Type} (zero : R) (h : Helper) (y : Nat → R) (hfit : h.bb * h.ib * h.ob ≤ h.n) (hib : 0 < h.ib)
    (li ui lj uj : Nat) (hb : ui - li ≤ h.bb) (ho : uj - lj ≤ h.ob) :
    ∃ p, encOutputBlock h zero y li ui lj uj = .ok p ∧ p.size = h.n ∧
      (∀ q, (∀ db dj, db < ui - li → dj < uj - lj → outPos h db dj ≠ q) → p.getD q zero = zero) ∧
      (∀ db dj, db < ui - li → dj < uj - lj → readAt p (outPos h db dj) = .ok (y ((li + db) * h.od + (lj + dj)))) := by
  have hM : h.bb * (h.ob * h.ib) ≤ h.n := by rw [Nat.mul_comm h.ob h.ib, ← Nat.mul_assoc]; exact hfit
  have hbound : ∀ db dj, db < ui - li → dj < uj - lj → outPos h db dj < h.n := by
    intro db dj h1 h2
    have a1 := c20_succ_mul_le (ib := h.ob * h.ib) (lt_of_lt_of_le h1 hb)
    have a2 := c20_succ_mul_le (ib := h.ib) (lt_of_lt_of_le h2 ho)
    rw [c20_outPos_eq h _ _ hib]; omega
  obtain ⟨a, hf, hs, hz, hv⟩ := c20_scatter_map zero h.n h.n (pairs (ui - li) (uj - lj))
    (fun p => outPos h p.1 p.2) (fun p => y ((li + p.1) * h.od + (lj + p.2)))
    (by
      intro p hp
      obtain ⟨h1, h2⟩ := c20_mem_pairs.mp hp
      exact ⟨hbound _ _ h1 h2, hbound _ _ h1 h2⟩)
    (by
      intro p hp p' hp' he
      obtain ⟨h1, h2⟩ := c20_mem_pairs.mp hp
      obtain ⟨h1', h2'⟩ := c20_mem_pairs.mp hp'
      simp only [c20_outPos_eq h _ _ hib] at he
      have a2 := c20_succ_mul_le (ib := h.ib) (lt_of_lt_of_le h2 ho)
      have a2' := c20_succ_mul_le (ib := h.ib) (lt_of_lt_of_le h2' ho)
      obtain ⟨e2, e1⟩ := c20_digit_unique (W := h.ob * h.ib) (by omega) (by omega) he
      have e3 : p.2 * h.ib + (h.ib - 1) = p'.2 * h.ib + (h.ib - 1) := e2
      obtain ⟨_, e4⟩ := c20_digit_unique (W := h.ib) (by omega) (by omega) e3
      rw [e1, e4])
  refine ⟨a, hf, hs, ?_, ?_⟩
  · intro q hq
    exact hz q (fun p hp => by obtain ⟨h1, h2⟩ := c20_mem_pairs.mp hp; exact hq p.1 p.2 h1 h2)
  · intro db dj h1 h2
    have hv' := hv (db, dj) (c20_mem_pairs.mpr ⟨h1, h2⟩)
    have hlt : outPos h db dj < a.size := by rw [hs]; exact hbound db dj h1 h2
    unfold readAt
    rw [Array.getD_eq_getD_getElem?] at hv'
    have hsome : a[outPos h db dj]? = some a[outPos h db dj] := Array.getElem?_eq_getElem hlt
    rw [hsome] at hv' ⊢
    simpa using hv'

/-- selected-terms transport: every position the decoder reads is among the transported terms (`output_terms`) -/
theorem c20_terms_superset (h : Helper) (db dj : Nat) (hdb : db < h.bb) (hdj : dj < h.ob) : outPos h db dj ∈ outputTerms h := by
  unfold outputTerms
  exact List.mem_map.mpr ⟨(db, dj), c20_mem_pairs.mpr ⟨hdb, hdj⟩, rfl⟩

/-! ### rotation algebra (BOLT variants) -/

/-- cyclic rotation of a row of `n` slots by `s` (what `rotate_rows` does to each of the two rows) -/
def c20_rot {α : Type} (n s : Nat) (v : Nat → α) : Nat → α := fun i => v ((i + s) % n)

/-- rotations compose additively modulo the row length -/
theorem c20_rot_add {α : Type} (n a b : Nat) (v : Nat → α) (i : Nat) :
    c20_rot n b (c20_rot n a v) i = c20_rot n (a + b) v i := by
  unfold c20_rot
  congr 1
  rw [Nat.add_mod ((i + b) % n) a n, Nat.mod_mod, ← Nat.add_mod]
  congr 1; omega

/-- baby-step / giant-step identity: rotating by `g·a + b` = rotating by `b` (baby steps, done on the inputs) then by `g·a`
    (giant steps, done on the partial sums) -/
theorem c20_rot_bsgs {α : Type} (n g a b : Nat) (v : Nat → α) (i : Nat) :
    c20_rot n (g * a) (c20_rot n b v) i = c20_rot n (g * a + b) v i := by
  rw [c20_rot_add, Nat.add_comm]

/-- a rotation by a multiple of the row length is the identity; rotation amounts only matter modulo the row length -/
theorem c20_rot_mod {α : Type} (n s : Nat) (v : Nat → α) (i : Nat) : c20_rot n (s % n) v i = c20_rot n s v i := by
  unfold c20_rot
  congr 1
  rw [Nat.add_mod i (s % n) n, Nat.mod_mod, ← Nat.add_mod]

/-- slot-wise product distributes over rotation (why rotated inputs can be multiplied with pre-rotated weights) -/
theorem c20_rot_mul {R : Type} [Mul R] (n s : Nat) (u v : Nat → R) (i : Nat) :
    c20_rot n s (fun k => u k * v k) i = c20_rot n s u i * c20_rot n s v i := rfl

end HC
