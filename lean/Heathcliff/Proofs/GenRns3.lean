import Heathcliff.Proofs.GenRns2
import Heathcliff.Proofs.C05U

/-!
  Phase 4c, part 3: the generated `mod_t_and_divide_q_last_ntt_inplace` composed with the C05 ciphertext-level theorem
  `c05u_bgv_poly` (BGV division by the dropped prime), i.e. the BGV analogue of `gr_divide_and_round_q_last_inplace_rounds`.
-/
namespace HC
open HC.GenW HC.GenR

theorem gr_tdflt_eq : gr_tdflt = c05u_dflt := rfl

/-- the hypotheses of `gr_mod_t_and_divide_q_last_ntt_inplace_eq` follow from the level bundles of C05 -/
theorem gr_mtdn_eq_of_level {l : Level} (hl : l.WF) (h : c05u_ToolOK l) (hg : c05u_BgvOK l) (h2 : 2 ≤ l.size)
    (hsn : l.size * l.n < 2^64) (hinvs : l.size - 1 ≤ l.tool.invQLastModQ.size) {p : RnsPoly} (hp : RnsCanon l p) :
    GenR.mod_t_and_divide_q_last_ntt_inplace (flatP p) l.tool.baseQ.size l.tool.baseQ.base.toList l.tool.n l.tool.invQLastModQ.toList l.tool.t
        l.tool.invQLastModT (fun i x => .ok (gr_IT l.tables i x)) (fun i x => .ok (gr_NT l.tables i x))
      = (l.tool.modTAndDivideQLastNtt l.tables p).map flatP := by
  have hs := c05u_size h
  have hq := c05u_q h
  have htb := c05u_tables_ok hl h
  have hn : ∀ i, i < l.tool.baseQ.size → (p.getD i #[]).size = l.tool.n :=
    fun i hi => by rw [hs] at hi; rw [h.tn]; exact (hp.2 i hi).1
  have hc : ∀ i j, i < l.tool.baseQ.size → j < l.tool.n → (p.getD i #[]).getD j 0 < (l.tool.baseQ.q i).value :=
    fun i j hi hj => by rw [hs] at hi; rw [h.tn] at hj; rw [hq]; exact (hp.2 i hi).2 j hj
  obtain ⟨f1, f2, -, -⟩ := c05u_lastcNtt_facts (by rw [hs]; exact h2) htb hn hc
  have hn0 : 0 < l.n := by rw [hl.npow]; exact Nat.pow_pos (by norm_num)
  have hs64 : l.size < 2^64 := Nat.lt_of_le_of_lt (Nat.le_mul_of_pos_right _ hn0) hsn
  have hLlt := (h.bwf.mwf (l.tool.baseQ.size - 1) (by omega)).lt
  refine gr_mod_t_and_divide_q_last_ntt_inplace_eq l.tool l.tables p (by omega) (fun i hi => h.bwf.mwf i hi) (by rw [hg.tt]; exact hg.twf)
    (by have := hg.invt_lt; have := hg.twf.lt; omega) (by rw [hs]; exact hinvs) (by rw [hs, h.tn]; exact hsn) (by rw [hs]; exact hs64)
    ⟨by rw [hs]; exact hp.1, hn⟩ f1 ?_ ?_
  · intro x hx
    have := mem_lt_of_getD (fun j hj => f2 j (by rw [← f1]; exact hj)) x hx
    omega
  · intro i a hi ha hb
    obtain ⟨htw, htm, htn⟩ := htb i (by omega)
    rw [← htn]
    refine (ntt_sim htw a (by rw [ha, htn]) ?_).1
    intro j _
    rw [htm]
    have hb0 : 0 < 2 * (l.tool.baseQ.q i).value := by have := (h.bwf.mwf i (by omega)).two_le; omega
    have := getD_lt_of_forall hb hb0 j
    omega

/-- **END TO END (C05 / C10, BGV division)**: the function generated from the Rust source of `RNSTool::mod_t_and_divide_q_last_ntt_inplace`, run on
    the flat buffer of a canonical NTT-form polynomial of a well-formed BGV level, returns the flat buffer of a polynomial whose first `size-1`
    components are (in NTT form) the residues of  y = (X − [X]_{q_L})/q_L − [−X·q_L⁻¹]_t  for the CRT value X of every coefficient, and
    y·q_L ≡ X (mod t). -/
theorem gr_mod_t_and_divide_q_last_ntt_inplace_bgv {l : Level} (hl : l.WF) (h : c05u_ToolOK l) (hg : c05u_BgvOK l) (h2 : 2 ≤ l.size)
    (hsn : l.size * l.n < 2^64) (hinvs : l.size - 1 ≤ l.tool.invQLastModQ.size) {p : RnsPoly} (hp : RnsCanon l p) :
    ∃ out : RnsPoly,
      GenR.mod_t_and_divide_q_last_ntt_inplace (flatP p) l.tool.baseQ.size l.tool.baseQ.base.toList l.tool.n l.tool.invQLastModQ.toList l.tool.t
        l.tool.invQLastModT (fun i x => .ok (gr_IT l.tables i x)) (fun i x => .ok (gr_NT l.tables i x)) = .ok (flatP out) ∧
      c05u_BgvDivOfNtt l p (out.extract 0 (l.size - 1)) ∧
      ∀ X : Nat, (c05u_bgvY l.t.value (l.q (l.size - 1)).value l.tool.invQLastModT X * ((l.q (l.size - 1)).value : Int) - (X : Int)) % (l.t.value : Int) = 0 := by
  obtain ⟨o, ho, hdiv⟩ := c05u_bgv_poly hl h hg h2 hp
  cases hm : l.tool.modTAndDivideQLastNtt l.tables p with
  | error e => rw [hm] at ho; cases ho
  | ok out =>
    rw [hm, ok_bind] at ho
    cases ho
    refine ⟨out, by rw [gr_mtdn_eq_of_level hl h hg h2 hsn hinvs hp, hm]; rfl, hdiv, fun X => ?_⟩
    have hLwf := c05u_qwf h (show l.size - 1 < l.size by omega)
    have hq0 := c05u_qwf h (show 0 < l.size by omega)
    have := (modTDivLast_scalar (x := X) (qi := (l.q 0).value) (inv := (l.tool.invQLastModQ.getD 0 default).operand)
      hg.twf.two_le hLwf.two_le hq0.two_le (h.inv 0 (by omega)).2 hg.invt hg.invt_lt).2.1
    exact this
