/-
  Translator phase 4i (stream mode), ciphertext level: the COMPACT format `impl SerializableWithHeContext for Ciphertext :: serialize`
  (Gen/SerFns.lean `ct_serialize`: three nested loops over polynomials / RNS components / coefficients, each coefficient through
  `write_u64_limited` with the width `get_u64_limit(q_j)`; then the seed words) is the chunk program of the model's `ctC`.
  Helper prefix `gd_`.
-/
import Heathcliff.Proofs.GenSerC
namespace HC.GS
open HC HC.Codec HC.GenS

variable {S E : Type}

theorem wlift_ok {α} (a : α) : (wlift (.ok a) : W S E α) = wpure a := rfl
theorem runChunks_nil (st : WStream S E) : runChunks st [] = wpure 0 := rfl

/-- innermost loop: the coefficients of one RNS component, width `limits[j]` -/
theorem gd_loop1 (st : WStream S E) (limits : List Nat) (j w : Nat) (hw : limits[j]? = some w) (comp : List Nat)
    (hfit : ∀ x ∈ comp, x < 256 ^ w) (acc : Nat) :
    ct_serialize_loop1 st limits j comp acc
      = wbind (runChunks st (seqChunks (List.replicate comp.length (limC w)) comp)) fun n => wpure (acc + n) := by
  have hp : pidx limits j = .ok w := by simp [pidx, hw]
  induction comp generalizing acc with
  | nil => simp [ct_serialize_loop1, seqChunks, runChunks, wbind_wpure]
  | cons x xs ih =>
    have hx := gl_write_u64_limited st x w (hfit x List.mem_cons_self)
    have ih' := fun a => ih (fun y hy => hfit y (List.mem_cons_of_mem _ hy)) a
    simp only [ct_serialize_loop1, hp, wlift_ok, wbind_wpure, hx, ih', List.length_cons, List.replicate_succ, seqChunks,
      runChunks_append, wbind_assoc]
    congr 1; funext n; congr 1; funext m; rw [Nat.add_assoc]

/-- middle loop: the components `s .. s+m` of polynomial `i` -/
theorem gd_loop2 (st : WStream S E) (v : CtV) (moduli : List Nat) (n i : Nat) (p : Poly)
    (hcomp : ∀ j, v.comp i j = p.getD j []) (hp : p.length = moduli.length) (hlen : ∀ comp ∈ p, comp.length = n)
    (hfit : ∀ j (hj : j < p.length), ∀ x ∈ p[j], x < 256 ^ u64Limit (moduli.getD j 0))
    (m s : Nat) (hs : s + m ≤ moduli.length) (acc : Nat) :
    ct_serialize_loop2 st v (moduli.map u64Limit) i (List.range' s m) acc
      = wbind (runChunks st (seqChunks (((moduli.drop s).take m).map (fun q => repC n (limC (u64Limit q)))) ((p.drop s).take m)))
          fun k => wpure (acc + k) := by
  induction m generalizing s acc with
  | zero => simp [ct_serialize_loop2, seqChunks, runChunks, wbind_wpure]
  | succ m ih =>
    have hsm : s < moduli.length := by omega
    have hsp : s < p.length := by omega
    have hdm : moduli.drop s = moduli[s] :: moduli.drop (s + 1) := by rw [List.drop_eq_getElem_cons hsm]
    have hdp : p.drop s = p[s] :: p.drop (s + 1) := by rw [List.drop_eq_getElem_cons hsp]
    have hc : v.comp i s = p[s] := by
      rw [hcomp, List.getD_eq_getElem?_getD, List.getElem?_eq_getElem hsp]; rfl
    have hw : (moduli.map u64Limit)[s]? = some (u64Limit moduli[s]) := by
      rw [List.getElem?_map, List.getElem?_eq_getElem hsm]; rfl
    have hg : moduli.getD s 0 = moduli[s] := by
      rw [List.getD_eq_getElem?_getD, List.getElem?_eq_getElem hsm]; rfl
    have hf : ∀ x ∈ p[s], x < 256 ^ u64Limit moduli[s] := by
      intro x hx; have := hfit s hsp x hx; rwa [hg] at this
    have hl : (p[s]).length = n := hlen _ (List.getElem_mem hsp)
    have h1 := fun a => gd_loop1 st (moduli.map u64Limit) s _ hw p[s] hf a
    simp only [List.range'_succ, ct_serialize_loop2, hc, h1, hl, ih (s + 1) (by omega), hdm, hdp, List.take_succ_cons, List.map_cons,
      seqChunks, runChunks_append, wbind_assoc, wbind_wpure]
    have hr : (repC n (limC (u64Limit moduli[s]))).chunks p[s] = seqChunks (List.replicate n (limC (u64Limit moduli[s]))) p[s] := rfl
    rw [hr]
    congr 1; funext a; congr 1; funext b; rw [Nat.add_assoc]

/-- outer loop: the polynomials `s .. s+m` -/
theorem gd_loop3 (st : WStream S E) (v : CtV) (lv : Level) (polys : List Poly)
    (hcomp : ∀ i j, v.comp i j = (polys.getD i []).getD j [])
    (hshape : ∀ p ∈ polys, p.length = lv.moduli.length ∧ ∀ comp ∈ p, comp.length = lv.n)
    (hfit : ∀ p ∈ polys, ∀ j (hj : j < p.length), ∀ x ∈ p[j], x < 256 ^ u64Limit (lv.moduli.getD j 0))
    (m s : Nat) (hs : s + m ≤ polys.length) (acc : Nat) :
    ct_serialize_loop3 st v lv.moduli (lv.moduli.map u64Limit) (List.range' s m) acc
      = wbind (runChunks st (seqChunks (List.replicate m (polyC lv)) ((polys.drop s).take m))) fun k => wpure (acc + k) := by
  induction m generalizing s acc with
  | zero => simp [ct_serialize_loop3, seqChunks, runChunks, wbind_wpure]
  | succ m ih =>
    have hsp : s < polys.length := by omega
    have hdp : polys.drop s = polys[s] :: polys.drop (s + 1) := by rw [List.drop_eq_getElem_cons hsp]
    have hmem : polys[s] ∈ polys := List.getElem_mem hsp
    have hc : ∀ j, v.comp s j = (polys[s]).getD j [] := by
      intro j; rw [hcomp, List.getD_eq_getElem?_getD (l := polys), List.getElem?_eq_getElem hsp]; rfl
    have h2 := fun a => gd_loop2 st v lv.moduli lv.n s polys[s] hc (hshape _ hmem).1 (hshape _ hmem).2 (hfit _ hmem)
      lv.moduli.length 0 (by omega) a
    have ht : List.take lv.moduli.length polys[s] = polys[s] := List.take_of_length_le (by rw [(hshape _ hmem).1])
    simp only [List.range'_succ, ct_serialize_loop3, Nat.sub_zero, h2, List.drop_zero, List.take_length, ht, ih (s + 1) (by omega), hdp,
      List.take_succ_cons, List.replicate_succ, seqChunks, runChunks_append, wbind_assoc, wbind_wpure]
    have hr : (polyC lv).chunks polys[s] = seqChunks (lv.moduli.map (fun q => repC lv.n (limC (u64Limit q)))) polys[s] := rfl
    rw [hr]
    congr 1; funext a; congr 1; funext b; rw [Nat.add_assoc]

theorem gd_loop4 (st : WStream S E) (l : List Nat) (acc : Nat) :
    ct_serialize_loop4 st l acc
      = wbind (runChunks st (seqChunks (List.replicate l.length u64C) l)) fun n => wpure (acc + n) := by
  induction l generalizing acc with
  | nil => simp [ct_serialize_loop4, seqChunks, runChunks, wbind_wpure]
  | cons x xs ih =>
    simp only [ct_serialize_loop4, List.length_cons, List.replicate_succ, seqChunks, runChunks_append, gs_u64_serialize, ih,
      wbind_assoc, wbind_wpure]
    congr 1; funext n; congr 1; funext m; rw [Nat.add_assoc]

/-! ### the whole writer -/

/-- the wire tuple's scheme-dependent field -/
def ctExtra (lv : Level) (c : Ct) : List Nat :=
  if lv.scheme == 2 then [c.scale] else if lv.scheme == 3 then [c.cf] else []

theorem gd_ct_chunks (ctx : Ctx) (expand : List Nat → Level → Poly) (c : Ct) :
    (ctC ctx expand).chunks c =
      pidC.chunks c.pid ++ (usizeC.chunks c.size ++ (boolC.chunks c.ntt ++
        ((extraC ((ctx.find c.pid).getD noLevel).scheme).chunks (ctExtra ((ctx.find c.pid).getD noLevel) c) ++
          (boolC.chunks c.seeded ++
            (seqChunks (if c.seeded then [polyC ((ctx.find c.pid).getD noLevel)]
                else (polyC ((ctx.find c.pid).getD noLevel) :: List.replicate (c.size - 1) (polyC ((ctx.find c.pid).getD noLevel))).take c.size) c.polys ++
              seqChunks (List.replicate (if c.seeded then seedWords else 0) u64C) c.seed))))) := by
  obtain ⟨pid, size, ntt, scale, cf, polys, seed⟩ := c
  cases polys <;> rfl

theorem gd_take_replicate {α} (x : α) (n : Nat) : (x :: List.replicate (n - 1) x).take n = List.replicate n x := by
  cases n with
  | zero => rfl
  | succ k =>
    have : x :: List.replicate (k + 1 - 1) x = List.replicate (k + 1) x := by simp [List.replicate_succ]
    rw [this, List.take_of_length_le (by simp)]

/-- shape of a model ciphertext relative to its level, as the library's constructors establish it (`resize`, `from_members`):
    polynomial count, `k` components of `N` coefficients each, every coefficient representable in the component's byte width
    (true for reduced residues: `limit_width`), seed words present iff seeded -/
structure CtShape (lv : Level) (c : Ct) : Prop where
  count : c.polys.length = (if c.seeded then 1 else c.size)
  shape : ∀ p ∈ c.polys, p.length = lv.moduli.length ∧ ∀ comp ∈ p, comp.length = lv.n
  fit : ∀ p ∈ c.polys, ∀ j (hj : j < p.length), ∀ x ∈ p[j], x < 256 ^ u64Limit (lv.moduli.getD j 0)
  seed : c.seed.length = (if c.seeded then seedWords else 0)

/-- COMPACT FORMAT: `Ciphertext::serialize` = the chunk program of `ctC`, for every stream.  `v` is a view of `c` (header fields,
    `poly_component(i, j)` = component `j` of polynomial `i`, `poly(1)[1..9]` = the seed words of a seeded object), `lv` the level the
    context finds with `u64` moduli, the writer's shape check passes, the scheme is BFV / CKKS / BGV, `c` has the level's shape. -/
theorem gd_ct_serialize (st : WStream S E) (ctx : Ctx) (expand : List Nat → Level → Poly) (c : Ct) (lv : Level) (v : CtV)
    (hfind : ctx.find c.pid = some lv) (hq : ∀ q ∈ lv.moduli, q < 2 ^ 64)
    (hpid : v.pid = c.pid) (hl : c.pid.length = 4) (hsize : v.size = c.size) (hntt : v.ntt = c.ntt) (hscale : v.scale = c.scale)
    (hcf : v.cf = c.cf) (hseeded : v.seeded = c.seeded)
    (hcomp : ∀ i j, v.comp i j = (c.polys.getD i []).getD j [])
    (hseedw : c.seeded = true → 9 ≤ (v.poly 1).length ∧ ((v.poly 1).drop 1).take 8 = c.seed)
    (hchk : v.cms = lv.moduli.length ∧ v.deg = lv.n)
    (hsch : lv.scheme = 1 ∨ lv.scheme = 2 ∨ lv.scheme = 3) (hw : CtShape lv c) :
    ct_serialize st ctx v = runChunks st ((ctC ctx expand).chunks c) := by
  have hlv : (ctx.find c.pid).getD noLevel = lv := by rw [hfind]; rfl
  rw [gd_ct_chunks, hlv]
  have hlim := gr_limits lv.moduli hq
  have hc1 : ((v.cms != lv.moduli.length) || (v.deg != lv.n)) = false := by simp [hchk.1, hchk.2]
  cases hsd : c.seeded with
  | false =>
    have hcount : c.polys.length = c.size := by have := hw.count; simpa [hsd] using this
    have hseed0 : c.seed = [] := by
      have := hw.seed; simp only [hsd, Bool.false_eq_true, if_false] at this
      exact List.eq_nil_of_length_eq_zero this
    have h3 := fun acc => gd_loop3 st v lv c.polys hcomp hw.shape hw.fit c.size 0 (by omega) acc
    have htk : (c.polys.drop 0).take c.size = c.polys := by
      rw [List.drop_zero, List.take_of_length_le (by omega)]
    unfold ct_serialize
    simp only [hpid, hfind]
    simp only [hc1, Bool.false_eq_true, if_false, hpid, hsize, hntt, hscale, hcf, hseeded, hsd, gr_pbind_pure, hlim, wlift_ok,
      gs_pid_serialize st _ hl, gs_usize_serialize, gs_bool_serialize, gs_f64_serialize, gs_u64_serialize, Nat.sub_zero, h3, htk,
      gd_take_replicate, hseed0, seqChunks, List.append_nil, runChunks_append, wbind_assoc, wbind_wpure, Nat.zero_add]
    rcases hsch with h | h | h
    · simp only [h, ctExtra, extraC, show ((1 : Nat) == 1) = true from rfl, show ((1 : Nat) == 2) = false from rfl,
        show ((1 : Nat) == 3) = false from rfl, if_true, Bool.false_eq_true, if_false, repC, seqC, seqChunks, runChunks, wbind_wpure,
        List.replicate_zero, Nat.add_assoc, Nat.zero_add, Nat.add_zero, runChunks_nil]
    · simp only [h, ctExtra, extraC, show ((2 : Nat) == 1) = false from rfl, show ((2 : Nat) == 2) = true from rfl, if_true,
        Bool.false_eq_true, if_false, repC, seqC, List.replicate_succ, List.replicate_zero, seqChunks, List.append_nil, wbind_assoc,
        wbind_wpure, Nat.add_assoc, Nat.add_zero, runChunks_nil]
    · simp only [h, ctExtra, extraC, show ((3 : Nat) == 1) = false from rfl, show ((3 : Nat) == 2) = false from rfl,
        show ((3 : Nat) == 3) = true from rfl, if_true, Bool.false_eq_true, if_false, repC, seqC, List.replicate_succ,
        List.replicate_zero, seqChunks, List.append_nil, wbind_assoc, wbind_wpure, f64C, Nat.add_assoc, Nat.add_zero, runChunks_nil]
  | true =>
    have hcount : c.polys.length = 1 := by have := hw.count; simpa [hsd] using this
    have hseedl : c.seed.length = 8 := by have := hw.seed; simpa [hsd, seedWords] using this
    obtain ⟨hp1, hsw⟩ := hseedw hsd
    have h3 := fun acc => gd_loop3 st v lv c.polys hcomp hw.shape hw.fit 1 0 (by omega) acc
    have htk : (c.polys.drop 0).take 1 = c.polys := by
      rw [List.drop_zero, List.take_of_length_le (by omega)]
    have hg : (1 ≤ 1 + (64 + 7) / 8 ∧ 1 + (64 + 7) / 8 ≤ (v.poly 1).length) := ⟨by decide, by omega⟩
    have hsw' : List.take (1 + (64 + 7) / 8 - 1) (List.drop 1 (v.poly 1)) = c.seed := hsw
    have h4 := fun acc => gd_loop4 st c.seed acc
    unfold ct_serialize
    simp only [hpid, hfind]
    simp only [hc1, Bool.false_eq_true, if_false, hpid, hsize, hntt, hscale, hcf, hseeded, hsd, if_true, gr_pbind_pure, hlim, wlift_ok,
      gs_pid_serialize st _ hl, gs_usize_serialize, gs_bool_serialize, gs_f64_serialize, gs_u64_serialize, Nat.sub_zero, h3, htk,
      hg, and_self, hsw', h4, hseedl, seedWords, seqChunks, runChunks_append, wbind_assoc, wbind_wpure, Nat.zero_add]
    have hone : [polyC lv] = List.replicate 1 (polyC lv) := rfl
    rw [hone]
    rcases hsch with h | h | h
    · simp only [h, ctExtra, extraC, show ((1 : Nat) == 1) = true from rfl, show ((1 : Nat) == 2) = false from rfl,
        show ((1 : Nat) == 3) = false from rfl, if_true, Bool.false_eq_true, if_false, repC, seqC, seqChunks, runChunks, wbind_wpure,
        List.replicate_zero, Nat.add_assoc, Nat.zero_add, Nat.add_zero, runChunks_nil]
    · simp only [h, ctExtra, extraC, show ((2 : Nat) == 1) = false from rfl, show ((2 : Nat) == 2) = true from rfl, if_true,
        Bool.false_eq_true, if_false, repC, seqC, List.replicate_succ, List.replicate_zero, seqChunks, List.append_nil, wbind_assoc,
        wbind_wpure, Nat.add_assoc, Nat.add_zero, runChunks_nil]
    · simp only [h, ctExtra, extraC, show ((3 : Nat) == 1) = false from rfl, show ((3 : Nat) == 2) = false from rfl,
        show ((3 : Nat) == 3) = true from rfl, if_true, Bool.false_eq_true, if_false, repC, seqC, List.replicate_succ,
        List.replicate_zero, seqChunks, List.append_nil, wbind_assoc, wbind_wpure, f64C, Nat.add_assoc, Nat.add_zero, runChunks_nil]

/-- the view of a model `Ct` the code works with (`poly(1)` of a seeded object = flag word, then the seed words) -/
def ctvOfCt (lv : Level) (c : Ct) : CtV :=
  { pid := c.pid, size := c.size, ntt := c.ntt, scale := c.scale, cf := c.cf, seeded := c.seeded, data := [],
    poly := fun i => if i = 1 then seedFlag :: c.seed else [], comp := fun i j => (c.polys.getD i []).getD j [],
    cms := lv.moduli.length, deg := lv.n }

theorem gd_ct_serialize_view (st : WStream S E) (ctx : Ctx) (expand : List Nat → Level → Poly) (c : Ct) (lv : Level)
    (hfind : ctx.find c.pid = some lv) (hq : ∀ q ∈ lv.moduli, q < 2 ^ 64) (hl : c.pid.length = 4)
    (hsch : lv.scheme = 1 ∨ lv.scheme = 2 ∨ lv.scheme = 3) (hw : CtShape lv c) :
    ct_serialize st ctx (ctvOfCt lv c) = runChunks st ((ctC ctx expand).chunks c) := by
  refine gd_ct_serialize st ctx expand c lv _ hfind hq rfl hl rfl rfl rfl rfl rfl (fun _ _ => rfl) (fun hs => ?_) ⟨rfl, rfl⟩ hsch hw
  have h8 : c.seed.length = 8 := by have := hw.seed; simpa [hs, seedWords] using this
  refine ⟨?_, ?_⟩
  · show 9 ≤ (seedFlag :: c.seed).length
    simp [h8]
  · show List.take 8 (List.drop 1 (seedFlag :: c.seed)) = c.seed
    simp only [List.drop_succ_cons, List.drop_zero]
    exact List.take_of_length_le (by omega)

/-! ### property-level statements (restated in Props/C14.lean, Props/C15.lean) -/

/-- C14: on an in-memory stream the generated compact `Ciphertext::serialize` (= `PublicKey::serialize`) appends exactly `ctC.enc` and
    returns its length -/
theorem c14g_ct_serialize (ctx : Ctx) (expand : List Nat → Level → Poly) (c : Ct) (lv : Level)
    (hfind : ctx.find c.pid = some lv) (hq : ∀ q ∈ lv.moduli, q < 2 ^ 64) (hl : c.pid.length = 4)
    (hsch : lv.scheme = 1 ∨ lv.scheme = 2 ∨ lv.scheme = 3) (hw : CtShape lv c) (s : Bytes) :
    ct_serialize idealStream ctx (ctvOfCt lv c) s
      = (.ok ((ctC ctx expand).enc c).length, s ++ (ctC ctx expand).enc c) :=
  gs_ideal (ctC ctx expand) c _ (gd_ct_serialize_view idealStream ctx expand c lv hfind hq hl hsch hw) s

/-- C15: … and on every faulty sink: complete encoding with the right count, or the stream's error with a prefix -/
theorem c15g_ct_serialize_fails_cleanly (ctx : Ctx) (expand : List Nat → Level → Poly) (c : Ct) (lv : Level)
    (hfind : ctx.find c.pid = some lv) (hq : ∀ q ∈ lv.moduli, q < 2 ^ 64) (hl : c.pid.length = 4)
    (hsch : lv.scheme = 1 ∨ lv.scheme = 2 ∨ lv.scheme = 3) (hw : CtShape lv c) (s : Sink) :
    let w := ct_serialize sinkStream ctx (ctvOfCt lv c)
    (∀ n, (w s).1 = .ok n → n = ((ctC ctx expand).enc c).length ∧ (w s).2.out = s.out ++ (ctC ctx expand).enc c) ∧
    (∀ e, (w s).1 = .error e → (∃ io, e = .io io) ∧
      ∃ j, j ≤ ((ctC ctx expand).enc c).length ∧ (w s).2.out = s.out ++ ((ctC ctx expand).enc c).take j) :=
  gs_writer_clean (ctC ctx expand) c _ (gd_ct_serialize_view sinkStream ctx expand c lv hfind hq hl hsch hw) s

/-- reduced residues satisfy the `fit` clause of `CtShape` (composition with the width rule) -/
theorem gd_fit_of_reduced (lv : Level) (polys : List Poly) (hp : ∀ p ∈ polys, p.length = lv.moduli.length)
    (hr : ∀ p ∈ polys, ∀ j (hj : j < p.length), ∀ x ∈ p[j], x < lv.moduli.getD j 0) :
    ∀ p ∈ polys, ∀ j (hj : j < p.length), ∀ x ∈ p[j], x < 256 ^ u64Limit (lv.moduli.getD j 0) :=
  fun p hpm j hj x hx => u64Limit_width _ x (hr p hpm j hj x hx)

end HC.GS
