import Heathcliff.Proofs.GenScaling
import Heathcliff.Proofs.C01J

/-!
  Phase 4a, composition: the code generated from `multiply_add_plain` / `multiply_sub_plain` (src/util/scaling_variant.rs) adds /
  subtracts `Δ(m) = round(Q·m/t)` modulo `q_j` to / from every destination word — `Proofs/GenScaling.lean` (generated = traversal of
  cells) composed with the arithmetic of one cell (`multiplyAddPlain_coeff`, Proofs/C01J.lean).  Helper names start with `gz_`.
-/
namespace HC
open HC.GenW HC.GenS

/-- the scaled, rounded coefficient the code computes for one plaintext word in one component: `Δ(m) mod q_j` -/
theorem gz_sc_exact {mq : Modulus} (hq : mq.WF) {Q t m : Nat} (ht : 2 ≤ t) (ht64 : t < 2^61) (hm : m < t)
    {op : MulOperand} (hop : WFOp mq op) (hopv : op.operand = (Q / t) % mq.value) :
    mulOperandAddMod m op (gz_fix t (Q % t) ((t + 1) / 2) m) mq = .ok (deltaM Q t m % mq.value) := by
  have hlo : mulLo m (Q % t) < B64 := Nat.mod_lt _ B64_pos
  have hr : Q % t < t := Nat.mod_lt _ (by omega)
  have hh : (t + 1) / 2 < B64 := by rw [B64_eq]; omega
  have e := mulHiLo m (Q % t)
  have hprod : m * (Q % t) < t * t := Nat.mul_lt_mul'' hm hr
  have htt : t * t < 2^61 * 2^61 := Nat.mul_lt_mul'' ht64 ht64
  have hhi : mulHi m (Q % t) < 2^58 := by
    unfold mulHi
    apply Nat.div_lt_of_lt_mul
    rw [B64_eq]; omega
  have hs : addU64 (mulLo m (Q % t)) ((t + 1) / 2) =
      ((mulLo m (Q % t) + (t + 1) / 2) % B64, (mulLo m (Q % t) + (t + 1) / 2) / B64) :=
    Prod.ext (addU64_fst _ _) (addU64_snd hlo hh)
  unfold gz_fix
  rw [hs]
  simp only []
  have hnum : (mulLo m (Q % t) + (t + 1) / 2) % B64 +
      B64 * (mulHi m (Q % t) + (mulLo m (Q % t) + (t + 1) / 2) / B64) = (Q % t) * m + (t + 1) / 2 := by
    have := Nat.mod_add_div (mulLo m (Q % t) + (t + 1) / 2) B64
    rw [Nat.mul_add, Nat.mul_comm (Q % t) m, ← e]
    omega
  rw [hnum]
  have hfix : ((Q % t) * m + (t + 1) / 2) / t < 2^61 + 1 := by
    apply Nat.div_lt_of_lt_mul
    have h1 : (Q % t) * m + (t + 1) / 2 < t * t + t := by rw [Nat.mul_comm (Q % t) m]; omega
    have h2 : t * t + t = t * (t + 1) := by ring
    have h3 : t * (t + 1) ≤ t * (2^61 + 1) := Nat.mul_le_mul_left _ (by omega)
    omega
  rw [Nat.mod_eq_of_lt (by rw [B64_eq]; omega)]
  rw [mulOperandAddMod_exact hq (by omega) hop.1 (by omega) (c01j_wfop_new_eq hq hop)]
  have key : (m * (Q / t % mq.value) + ((Q % t) * m + (t + 1) / 2) / t) % mq.value =
      (Q / t * m + ((Q % t) * m + (t + 1) / 2) / t) % mq.value := by
    rw [Nat.add_mod, Nat.mul_mod_mod, ← Nat.add_mod, Nat.mul_comm]
  unfold deltaM
  rw [hopv, key]

/-- what the context of a BFV level provides to the scaling: well-formed moduli, a plain modulus `2 ≤ t < 2^61`, and for every
    component the Harvey operand of `⌊Q/t⌋ mod q_j` (`coeff_div_plain_modulus`; C13 ties these constants to their definitions) -/
structure ScalingOK (l : Level) (Q : Nat) (cdp : Array MulOperand) : Prop where
  qwf : ∀ j, j < l.size → (l.q j).WF
  t2 : 2 ≤ l.t.value
  t61 : l.t.value < 2^61
  cdpSize : l.size ≤ cdp.size
  op : ∀ j, j < l.size → WFOp (l.q j) (cdp.getD j default) ∧ (cdp.getD j default).operand = (Q / l.t.value) % (l.q j).value

theorem gz_cells_exact {l : Level} {Q : Nat} {cdp : Array MulOperand} (h : ScalingOK l Q cdp) (plain : Poly)
    (hm : ∀ i, i < plain.size → plain.getD i 0 < l.t.value) {i j : Nat} (hi : i < plain.size) (hj : j < l.size) :
    mulOperandAddMod (plain.toList.getD i 0) (cdp.toList.getD j default)
        (gz_fix l.t.value (Q % l.t.value) ((l.t.value + 1) / 2) (plain.toList.getD i 0)) (l.qs.toList.getD j default) =
      .ok (deltaM Q l.t.value (plain.getD i 0) % (l.q j).value) := by
  rw [gz_toList_getD, gz_toList_getD, gz_toList_getD]
  exact gz_sc_exact (h.qwf j hj) h.t2 h.t61 (hm i hi) (h.op j hj).1 (h.op j hj).2

/-- ONE THEOREM (C01, add): the code generated from the Rust source of `multiply_add_plain`, run on a flat destination buffer whose
    words under the plaintext are canonical, with the level's context constants (`plain_upper_half_threshold = ⌊(t+1)/2⌋`,
    `coeff_modulus_mod_plain_modulus = Q mod t`), succeeds and adds `Δ(m_i) = round(Q·m_i/t)` modulo `q_j` to the word of
    coefficient `i` in component `j`; the words beyond the plaintext's length are left unchanged. -/
theorem gen_multiply_add_plain_spec {l : Level} {Q : Nat} {cdp : Array MulOperand} (h : ScalingOK l Q cdp) (plain : Poly) (dest : List Nat)
    (hp : plain.size ≤ l.n) (hm : ∀ i, i < plain.size → plain.getD i 0 < l.t.value)
    (hl : dest.length = l.size * l.n) (hB : dest.length < B64)
    (hd : ∀ j, j < l.size → ∀ i, i < plain.size → dest.getD (j * l.n + i) 0 < (l.q j).value) :
    GenS.multiply_add_plain dest l.qs.toList plain.size l.n l.t cdp.toList ((l.t.value + 1) / 2) (Q % l.t.value) plain.toList =
      .ok ((List.range (l.size * l.n)).map fun p =>
        if p % l.n < plain.size then (dest.getD p 0 + deltaM Q l.t.value (plain.getD (p % l.n) 0)) % (l.q (p / l.n)).value
        else dest.getD p 0) := by
  have ht := h.t2; have ht61 := h.t61
  unfold GenS.multiply_add_plain
  simp only []
  rw [if_pos hp, if_pos (by simp), gz_add_loop1_eq _ _ _ _ _ _ _ _ _ rfl,
    gz_ref1_ok addMod l.qs.toList l.n cdp.toList plain.toList ((l.t.value + 1) / 2) l.size plain.size (by simp [Level.size])
      (by simpa using h.cdpSize) (by simp) hp (by omega) (Nat.lt_trans (Nat.mod_lt _ (by omega)) (by omega))
      (fun i hi => by rw [gz_toList_getD]; have := hm i hi; omega)
      (fun i j => (dest.getD (j * l.n + i) 0 + deltaM Q l.t.value (plain.getD i 0)) % (l.q j).value) plain.size 0 dest (by omega) hl hB
      (fun i' _ h2 j hj => by
        unfold gz_cell2
        rw [gz_cells_exact h plain hm h2 hj]
        show addMod _ _ _ = _
        rw [gz_toList_getD l.qs]
        show addMod _ _ (l.q j) = _
        rw [addMod_exact (h.qwf j hj) (hd j hj i' h2) (Nat.mod_lt _ (by have := (h.qwf j hj).two_le; omega)), Nat.add_mod_mod])]
  congr 1
  apply List.map_congr_left
  intro p hp'
  by_cases hc : p % l.n < plain.size
  · rw [if_pos ⟨Nat.zero_le _, hc⟩, if_pos hc, gz_div_mod]
  · rw [if_neg (fun h => hc h.2), if_neg hc]

/-- ONE THEOREM (C02, `sub_plain` for BFV): likewise `multiply_sub_plain` subtracts `Δ(m_i)` modulo `q_j` -/
theorem gen_multiply_sub_plain_spec {l : Level} {Q : Nat} {cdp : Array MulOperand} (h : ScalingOK l Q cdp) (plain : Poly) (dest : List Nat)
    (hp : plain.size ≤ l.n) (hm : ∀ i, i < plain.size → plain.getD i 0 < l.t.value)
    (hl : dest.length = l.size * l.n) (hB : dest.length < B64)
    (hd : ∀ j, j < l.size → ∀ i, i < plain.size → dest.getD (j * l.n + i) 0 < (l.q j).value) :
    GenS.multiply_sub_plain dest l.qs.toList plain.size l.n l.t cdp.toList ((l.t.value + 1) / 2) (Q % l.t.value) plain.toList =
      .ok ((List.range (l.size * l.n)).map fun p =>
        if p % l.n < plain.size then
          (dest.getD p 0 + (l.q (p / l.n)).value - deltaM Q l.t.value (plain.getD (p % l.n) 0) % (l.q (p / l.n)).value) % (l.q (p / l.n)).value
        else dest.getD p 0) := by
  have ht := h.t2; have ht61 := h.t61
  unfold GenS.multiply_sub_plain
  simp only []
  rw [gz_sub_loop1_eq _ _ _ _ _ _ _ _ _ rfl,
    gz_ref1_ok subMod l.qs.toList l.n cdp.toList plain.toList ((l.t.value + 1) / 2) l.size plain.size (by simp [Level.size])
      (by simpa using h.cdpSize) (by simp) hp (by omega) (Nat.lt_trans (Nat.mod_lt _ (by omega)) (by omega))
      (fun i hi => by rw [gz_toList_getD]; have := hm i hi; omega)
      (fun i j => (dest.getD (j * l.n + i) 0 + (l.q j).value - deltaM Q l.t.value (plain.getD i 0) % (l.q j).value) % (l.q j).value)
      plain.size 0 dest (by omega) hl hB
      (fun i' _ h2 j hj => by
        unfold gz_cell2
        rw [gz_cells_exact h plain hm h2 hj]
        show subMod _ _ _ = _
        rw [gz_toList_getD l.qs]
        show subMod _ _ (l.q j) = _
        rw [subMod_exact (h.qwf j hj) (hd j hj i' h2) (Nat.mod_lt _ (by have := (h.qwf j hj).two_le; omega))])]
  congr 1
  apply List.map_congr_left
  intro p hp'
  by_cases hc : p % l.n < plain.size
  · rw [if_pos ⟨Nat.zero_le _, hc⟩, if_pos hc, gz_div_mod]
  · rw [if_neg (fun h => hc h.2), if_neg hc]

/-! ### non-vacuity: a concrete level satisfying `ScalingOK` and every hypothesis of the two theorems above -/

def gz_m17 : Modulus := ⟨17, 1085102592571150095, 1085102592571150095, 1, 5⟩
def gz_m97 : Modulus := ⟨97, 11600529778312192253, 190172619316593315, 35, 7⟩
def gz_m113 : Modulus := ⟨113, 4897365683285721667, 163245522776190722, 109, 7⟩
theorem gz_m97_wf : gz_m97.WF := (Modulus.mk?_wf (v := 97) (m := gz_m97) (by rfl) (by decide)).1
theorem gz_m113_wf : gz_m113.WF := (Modulus.mk?_wf (v := 113) (m := gz_m113) (by rfl) (by decide)).1

/-- a BFV level with N = 2, moduli 97·113 = 10961, t = 17 -/
def gz_exLevel : Level := { scheme := .bfv, n := 2, k := 1, qs := #[gz_m97, gz_m113], t := gz_m17, tables := #[], tool := default }
def gz_exCdp : Array MulOperand := #[⟨62, 11790702397628785568⟩, ⟨79, 12896396299319067058⟩]

theorem gz_ex_scalingOK : ScalingOK gz_exLevel 10961 gz_exCdp where
  qwf := by
    intro j hj
    have : j = 0 ∨ j = 1 := by have : j < 2 := hj; omega
    rcases this with rfl | rfl
    · exact gz_m97_wf
    · exact gz_m113_wf
  t2 := by decide
  t61 := by decide
  cdpSize := by decide
  op := by
    intro j hj
    have : j = 0 ∨ j = 1 := by have : j < 2 := hj; omega
    rcases this with rfl | rfl
    · exact ⟨⟨by decide, by decide +kernel⟩, by decide⟩
    · exact ⟨⟨by decide, by decide +kernel⟩, by decide⟩

/-- the generated `multiply_add_plain` on the flat buffer [5, 6 | 7, 8] with plaintext (16, 3): all hypotheses hold, the result is
    the buffer with Δ(16) = 10316, Δ(3) = 1934 added modulo 97 resp. 113 -/
theorem gz_ex_multiply_add_plain :
    GenS.multiply_add_plain [5, 6, 7, 8] [gz_m97, gz_m113] 2 2 gz_m17 gz_exCdp.toList 9 (10961 % 17) [16, 3] = .ok [39, 0, 40, 21] := by
  have h := gen_multiply_add_plain_spec gz_ex_scalingOK #[16, 3] [5, 6, 7, 8] (by decide) (by decide) (by decide) (by decide) (by decide)
  rw [show (List.range (gz_exLevel.size * gz_exLevel.n)).map (fun p =>
        if p % gz_exLevel.n < (#[16, 3] : Poly).size then
          (([5, 6, 7, 8] : List Nat).getD p 0 + deltaM 10961 gz_exLevel.t.value ((#[16, 3] : Poly).getD (p % gz_exLevel.n) 0)) % (gz_exLevel.q (p / gz_exLevel.n)).value
        else ([5, 6, 7, 8] : List Nat).getD p 0) = [39, 0, 40, 21] by decide] at h
  exact h
end HC
