/- C04 part R, non-vacuity (split off `C04R.lean` so that the general theorems there do not import the NonVac world):
   the NonVac world one level down (N = 4, q = 97, P = 113, t = 17) with a genuine Galois key for g = 3.  Helper names carry the
   prefix `c04r_`; user-facing theorems are at the end under "Property theorems". -/
import Heathcliff.Proofs.C04R
import Heathcliff.Proofs.NonVac
namespace HC
open Finset

/-- non-vacuity of R2: N = 4, t = 17 (`nv_t17`, returned by `NTTTables.new 2 nv_m17 true 2`) -/
example : nv_t17.WF ∧ 2 ≤ nv_t17.k := ⟨nv_t17_wf, by decide⟩

/-! ## Non-vacuity: one concrete world for R2 / R3 — the NonVac world one level down (N = 4, q = 97, special prime P = 113, t = 17),
    secret s = X, a genuine (noise-free) Galois key for g = 3 = `eltFromStep 1`, a ciphertext of the plaintext 1 + 2X + 3X³ -/

def c04r_exSk : Array Int := #[0, 1, 0, 0]
/-- k1 = a = 1 + 2X + 3X² + 4X³, k0 = P·σ_3(s) − a⋆s (e = 0), stored in NTT form per key-level modulus -/
def c04r_exKey : KSKey := #[#[#[#[53, 61, 42, 54], #[35, 33, 77, 97]], #[#[30, 7, 64, 0], #[42, 96, 30, 62]]]]
def c04r_exPolys : Array RnsPoly := #[#[#[35, 7, 87, 92]], #[#[3, 10, 20, 30]]]

attribute [local instance] nv_decRnsCanon nv_decWFOp nv_decModWF

theorem c04r_exDecOK : DecOK nv_level1 := by
  refine c01p_decOK_of_new (l := nv_level1) (q := nv_base97) (aux := [nv_a0, nv_a1, nv_a2, nv_a3]) ?_ (by decide) nv_m17_wf ?_
    nv_base97_new nv_tool1_new
  · intro m hm
    have : m = nv_m97 := by simpa [nv_level1] using hm
    rw [this]; exact nv_m97_wf
  · intro m hm
    simp only [List.mem_cons, List.not_mem_nil, or_false] at hm
    rcases hm with rfl | rfl | rfl | rfl
    · exact (Modulus.mk?_wf nv_aux_mk.1 (by decide)).1
    · exact (Modulus.mk?_wf nv_aux_mk.2.1 (by decide)).1
    · exact (Modulus.mk?_wf nv_aux_mk.2.2.1 (by decide)).1
    · exact (Modulus.mk?_wf nv_aux_mk.2.2.2 (by decide)).1

theorem c04r_exLevelOf : c04k_LevelOf nv_kl nv_level1 := by
  refine ⟨rfl, rfl, fun i hi => ?_⟩
  have : i < 1 := hi
  interval_cases i
  rfl

theorem c04r_exKLOK : c04r_KLOK nv_kl nv_level1 := by
  obtain ⟨f1, f2, _, _, _, f6, _, f8⟩ := nv_ksinput_fields
  exact ⟨⟨nv_kl_wf_fields.1, nv_kl_wf_fields.2⟩, f1, f2, f6, f8⟩

theorem c04r_exKeyCoef :
    c04k_keyCoef nv_kl c04r_exKey 0 0 0 = #[4, 96, 95, 13] ∧ c04k_keyCoef nv_kl c04r_exKey 0 0 1 = #[1, 2, 3, 4] ∧
    c04k_keyCoef nv_kl c04r_exKey 1 0 0 = #[4, 112, 111, 110] ∧ c04k_keyCoef nv_kl c04r_exKey 1 0 1 = #[1, 2, 3, 4] := by
  decide +kernel

theorem c04r_exSigmaS : ∀ c, c < 4 → c04k_sigma 4 3 (fun p => c04r_exSk.getD p 0) c = if c = 3 then 1 else 0 := by
  intro c hc
  interval_cases c <;> simp [c04k_sigma, c04k_chi, Finset.sum_range_succ, c04r_exSk] <;> decide

theorem c04r_exGalKey : c04r_GalKey nv_kl nv_level1 c04r_exSk 3 c04r_exKey (fun _ _ => 0) (fun _ => 1) := by
  obtain ⟨k1, k2, k3, k4⟩ := c04r_exKeyCoef
  have hm0 : (nv_kl.m 0).value = 97 := rfl
  have hm1 : (nv_kl.m 1).value = 113 := rfl
  have hP : nv_kl.c04t_P = 113 := rfl
  have hn : nv_kl.n = 4 := rfl
  have hsz : nv_level1.size = 1 := rfl
  refine ⟨by decide, rfl, fun i hi => ?_, ⟨fun j hj i hi => ?_, fun idx hu i hi c hc => ?_⟩⟩
  · rw [hsz] at hi ⊢
    interval_cases i <;> (unfold c04t_KeyCanonAt; decide +kernel)
  · rw [hsz] at hj hi
    interval_cases j; interval_cases i
    rw [if_pos rfl]
  · rw [hsz] at hi hu
    interval_cases i
    rw [hn] at hc
    have hs := c04r_exSigmaS c hc
    have hidx : idx = 0 ∨ idx = 1 := by
      rcases hu with h | h
      · left; omega
      · right; rw [h]; rfl
    rcases hidx with rfl | rfl
    · rw [hm0, hP, hn, hs]
      unfold c04k_keyI
      rw [k1, k2]
      interval_cases c <;> simp [negMulR, Finset.sum_range_succ, c04r_exSk] <;> decide
    · rw [hm1, hP, hn, hs]
      unfold c04k_keyI
      rw [k3, k4]
      interval_cases c <;> simp [negMulR, Finset.sum_range_succ, c04r_exSk] <;> decide

theorem c04r_exCanon : ∀ k, k < 2 → RnsCanon nv_level1 (c04r_exPolys.getD k #[]) := by decide +kernel

/-- the input noise: |t·x − Q·round(t·x/Q)| ≤ 36 for every coefficient of the exact phase (5, 10, 0, 15) -/
theorem c04r_exNoise : ∀ c, c < nv_level1.n → (c04r_bfvNoise nv_level1.t.value (Spec.prodL (c01p_qvals nv_level1))
    ((Spec.phase (c01p_qvals nv_level1) nv_level1.n c04r_exSk c04r_exPolys.toList).getD c 0)).natAbs ≤ 36 := by
  unfold c04r_bfvNoise
  decide +kernel

theorem c04r_exV : (nv_level1.size * (97 * (nv_kl.n * 0)) + nv_kl.c04t_P / 2 *
    (1 + ∑ p ∈ range nv_kl.n, (c04r_exSk.getD p 0).natAbs)) / nv_kl.c04t_P ≤ 0 := by
  have hP : nv_kl.c04t_P = 113 := rfl
  have hn : nv_kl.n = 4 := rfl
  rw [hP, hn]
  simp [Finset.sum_range_succ, c04r_exSk]

theorem c04r_exMargin (len : Nat) : 2 * nv_level1.tool.gamma.value * (36 + len * (nv_level1.t.value * 0))
    + 2 * nv_level1.size * Spec.prodL (c01p_qvals nv_level1) ≤ Spec.prodL (c01p_qvals nv_level1) * nv_level1.tool.gamma.value := by
  rw [Nat.mul_zero, Nat.mul_zero, Nat.add_zero]
  decide +kernel

/-- NON-VACUITY of R3 (single step): all hypotheses of `c04r_rotate_bfv` hold on the concrete world, for `rotate_rows(1)` -/
theorem c04r_rotate_bfv_nonvacuous :
    ∃ ct' m m', applyGalois nv_kl nv_level1 .bfv ⟨c04r_exPolys, false, 1⟩ 3 c04r_exKey = .ok ct' ∧
      bfvDecrypt nv_level1 c04r_exSk ⟨c04r_exPolys, false, 1⟩ = .ok m ∧ bfvDecrypt nv_level1 c04r_exSk ct' = .ok m' ∧
      ∀ i, i < nv_level1.n → (batchDecode nv_t17 m').getD i 0 = (batchDecode nv_t17 m).getD (c04r_slotIdx nv_level1.k 1 i) 0 := by
  have hin := c04r_ksinput c04r_exLevelOf c04r_exKLOK c04r_exGalKey (polys := c04r_exPolys) false 1 c04r_exCanon
  refine c04r_rotate_bfv nv_level1_wf c04r_exDecOK c04r_exLevelOf nv_t17_wf rfl rfl (by decide) (step := 1) (by decide) rfl
    c04r_exCanon hin rfl rfl c04r_exGalKey.hke (fun _ _ => rfl) (E := 36) (V := 0) c04r_exNoise ?_ ?_
  · intro c hc
    exact le_trans (c04r_step_noise c04r_exLevelOf c04r_exKLOK (by decide) c04r_exGalKey 1 c04r_exCanon (A := 97) (Be := 0)
      (fun i hi => by have : i < 1 := hi; interval_cases i; exact le_refl _) (fun _ _ _ _ => le_refl _) c hc) c04r_exV
  · have := c04r_exMargin 0
    simpa using this

/-- NON-VACUITY of R3 (composed): `rotatePlan` with the single key element 3 for step 1, executed as a chain -/
theorem c04r_rotatePlan_bfv_nonvacuous :
    rotatePlan nv_level1.k [3] 1 1 = .ok [3] ∧
    ∃ ct' m m', c04r_applyChain nv_kl nv_level1 .bfv (fun _ => c04r_exKey) [3] ⟨c04r_exPolys, false, 1⟩ = .ok ct' ∧
      bfvDecrypt nv_level1 c04r_exSk ⟨c04r_exPolys, false, 1⟩ = .ok m ∧ bfvDecrypt nv_level1 c04r_exSk ct' = .ok m' ∧
      ∀ i, i < nv_level1.n → (batchDecode nv_t17 m').getD i 0 =
        (batchDecode nv_t17 m).getD (c04r_rotIdx nv_level1.k (c04r_stepExp nv_level1.k 1) i) 0 := by
  have hplan : rotatePlan nv_level1.k [3] 1 1 = .ok [3] := by decide
  refine ⟨hplan, ?_⟩
  exact (c04r_rotatePlan_bfv nv_level1_wf c04r_exDecOK c04r_exLevelOf c04r_exKLOK nv_t17_wf rfl rfl (by decide) rfl
    (fun _ => c04r_exKey) (fun _ _ _ => 0) (fun _ _ => 1) (A := 97) (Be := 0) (V := 0)
    (fun i hi => by have : i < 1 := hi; interval_cases i; exact le_refl _) c04r_exV
    (keys := [3]) (fun g hg => by
      rw [List.mem_singleton] at hg; subst hg
      exact ⟨c04r_exGalKey, fun _ _ _ _ => le_refl _⟩)
    hplan rfl c04r_exCanon c04r_exNoise (c04r_exMargin _)).2.2


/-- the BGV-specific bundles are satisfiable on the same world: same tables, `c04t_BgvData` (14·113 ≡ 1 mod 17), plain modulus -/
example : c04r_SameTables nv_kl nv_level1 ∧ c04t_BgvData nv_kl ∧ nv_kl.t.value = nv_level1.t.value := by
  refine ⟨fun j hj => ?_, ⟨nv_m17_wf, by decide, by decide⟩, rfl⟩
  have : j < 1 := hj
  interval_cases j
  rfl

/-! ## Property theorems -/

/-- NON-VACUITY: all hypotheses hold on the concrete world N = 4, q = 97, P = 113, t = 17 -/
theorem rotate_rows_bfv_nonvacuous : type_of% @c04r_rotate_bfv_nonvacuous := @c04r_rotate_bfv_nonvacuous
theorem rotatePlan_rotate_bfv_nonvacuous : type_of% @c04r_rotatePlan_bfv_nonvacuous := @c04r_rotatePlan_bfv_nonvacuous

end HC
