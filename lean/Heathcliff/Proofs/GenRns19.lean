import Heathcliff.Proofs.GenRns18
import Heathcliff.Proofs.C01P

/-!
  Phase 4k: `RNSTool::decrypt_mod_t` generated from src/util/rns.rs = the hand model `RNSTool.decryptModT` (its call of
  `base_q_to_t_conv.as_ref().unwrap().exact_convey_array(..)` is the GENERATED `exact_convey_array` on the model's `qToT`), and END TO END with C01's
  model-side theorem `c01p_decryptModT_of_crt`: the BGV decryption step returns the centred residue modulo t.  Helper names start with `gr_`.
-/
namespace HC
open HC.GenW HC.GenR

/-- the generated exact conversion of a model converter, with the erased f64 pipeline `roundQ` -/
def gr_exactF (c : BaseConverter) (roundQ : List Nat → Nat) : List Nat → List Nat → R (List Nat) := fun a b =>
  GenR.exact_convey_array a b c.ibase.size c.obase.size c.ibase.invPunct.toList c.ibase.base.toList c.obase.base.toList
    (limbsOf c.ibase.size c.ibase.prod) (c.matrix.toList.map Array.toList) roundQ

/-- **`RNSTool::decrypt_mod_t` (generated) = `RNSTool.decryptModT`** under the hypotheses of `gr_exact_convey_array_eq` for the tool's `qToT` -/
theorem gr_decrypt_mod_t_eq (r : RNSTool) {cT : BaseConverter} (hqT : r.qToT = some cT)
    (hi : cT.ibase.WF) (ho : cT.obase.WF) (hM : gr_MatOK cT) (ho1 : cT.obase.size = 1)
    (p : RnsPoly) (d : Poly) (roundQ : List Nat → Nat)
    (hp : p.size = cT.ibase.size) (hpn : ∀ i, i < cT.ibase.size → (p.getD i #[]).size = r.n)
    (hw : ∀ i j, i < cT.ibase.size → j < r.n → (p.getD i #[]).getD j 0 < 2^64)
    (hd : d.size = r.n) (hkn : cT.ibase.size * r.n < 2^64)
    (hrw : ∀ l, roundQ l < 2^64)
    (hround : ∀ j, j < r.n → roundQ (gr_ecaScaled cT p j) = exactRound cT (gr_ecaScaled cT p j)) :
    GenR.decrypt_mod_t (flatP p) d.toList (gr_exactF cT roundQ) = (r.decryptModT p).map Array.toList := by
  unfold GenR.decrypt_mod_t gr_exactF RNSTool.decryptModT
  rw [gr_exact_convey_array_eq cT hi ho hM ho1 p d r.n roundQ hp hpn hw hd hkn hrw hround]
  simp only [hqT]
  cases (transpose p r.n).toList.mapM (fun x => cT.exactConvey x) with
  | error e => rfl
  | ok cols => simp [Except.map, gr_pure, pure, Except.pure, bind, Except.bind]

/-- **END TO END (BGV decryption, exact base conversion q → t)**: on a level whose tool is the level's BEHZ tool (`DecOK`), for every canonical input whose
    coefficient `j` has CRT value `X j < Q` (not the tie `2·X j = Q`), the function GENERATED from `RNSTool::decrypt_mod_t` returns word `j` =
    the centred representative of `X j` reduced modulo t — PROVIDED the erased f64 pipeline `roundQ` returns a u64 that equals the exact rational
    rounding on the scaled residues of every coefficient -/
theorem gr_decrypt_mod_t_centred {l : Level} (hd : DecOK l) {p : RnsPoly} (hp : RnsCanon l p) (dst : Poly) (hdst : dst.size = l.n)
    (hsn : l.size * l.n < 2^64) (roundQ : List Nat → Nat) (hrw : ∀ x, roundQ x < 2^64)
    (X : Nat → Nat)
    (hX : ∀ j, j < l.n → X j < l.tool.baseQ.prod ∧ ∀ i, i < l.size → X j % (l.q i).value = (p.getD i #[]).getD j 0)
    (htie : ∀ j, j < l.n → 2 * X j ≠ l.tool.baseQ.prod) :
    ∃ cT, l.tool.qToT = some cT ∧
      ((∀ j, j < l.n → roundQ (gr_ecaScaled cT p j) = exactRound cT (gr_ecaScaled cT p j)) →
        ∃ out, GenR.decrypt_mod_t (flatP p) dst.toList (gr_exactF cT roundQ) = .ok out ∧ out.length = l.n ∧
          ∀ j, j < l.n → out.getD j 0 = Spec.imod (Spec.centred (X j) l.tool.baseQ.prod) l.t.value) := by
  obtain ⟨bt, cT, hqT, hbt, hbt1, hbt0, hnew⟩ := hd.tool.qT
  refine ⟨cT, hqT, fun hround => ?_⟩
  have hsz := c01p_base_size hd
  obtain ⟨ei, eo, hM⟩ := gr_matOK_new hd.tool.qwf hbt hnew
  obtain ⟨dm, hdok, hdsz, hdv⟩ := c01p_decryptModT_of_crt hd hp X hX htie
  have hb := hd.tool.qwf
  rw [gr_decrypt_mod_t_eq l.tool hqT (ei ▸ hb) (eo ▸ hbt) hM (by rw [eo]; exact hbt1) p dst roundQ (by rw [ei, hsz]; exact hp.1)
    (fun i hi' => by rw [ei, hsz] at hi'; rw [hd.n_eq]; exact (hp.2 i hi').1)
    (fun i j hi' hj => by
      rw [ei, hsz] at hi'; rw [hd.n_eq] at hj
      have h1 := (hp.2 i hi').2 j hj
      have h2 := (hb.mwf i (by omega)).lt
      rw [c01p_base_q hd hi'] at h2
      omega)
    (by rw [hd.n_eq]; exact hdst) (by rw [ei, hsz, hd.n_eq]; exact hsn) hrw (fun j hj => hround j (by rw [← hd.n_eq]; exact hj)), hdok]
  refine ⟨dm.toList, rfl, by rw [Array.length_toList, hdsz], fun j hj => ?_⟩
  rw [← gr_arr_getD]; exact hdv j hj

end HC
