/- C01: fresh encryptions decrypt to the plaintext — the scalar/ring lemmas behind it.
   `Spec.roundDiv a b = ⌊(2a + b) / 2b⌋` (nearest integer, ties up), `Spec.centred x Q` = representative in (-Q/2, Q/2],
   `Spec.imod x m = (x mod m).toNat` (Heathcliff/Spec/RNS.lean). -/
import Heathcliff.Spec.Scheme
import Heathcliff.Proofs.NTTDefs
import Heathcliff.Proofs.C08A
import Mathlib.Data.Int.ModEq
import Mathlib.Tactic.Ring
import Mathlib.Tactic.Linarith
import Mathlib.Tactic.Positivity
import Mathlib.Algebra.Order.BigOperators.Group.Finset
namespace HC
open Finset

/-- the scaled plaintext coefficient that `multiply_add_plain` adds: ⌊q/t⌋·m + ⌊((q mod t)·m + ⌊(t+1)/2⌋)/t⌋ -/
def deltaM (q t m : Nat) : Nat := (q / t) * m + ((q % t) * m + (t + 1) / 2) / t

/-- it is the nearest integer to q·m/t (ties up):  ⌊(q·m + ⌊(t+1)/2⌋)/t⌋ -/
theorem deltaM_eq (q t m : Nat) (ht : 0 < t) : deltaM q t m = (q * m + (t + 1) / 2) / t := by
  unfold deltaM
  have h : q * m + (t + 1) / 2 = t * ((q / t) * m) + ((q % t) * m + (t + 1) / 2) := by
    conv_lhs => rw [← Nat.div_add_mod q t]
    ring
  rw [h, Nat.mul_add_div ht]

/-- |t·Δ(m) − q·m| ≤ t/2 + 1/2, i.e. the rounding error of the scaling is at most (t+1)/2 -/
theorem deltaM_err (q t m : Nat) (ht : 0 < t) :
    ((t * deltaM q t m : Nat) : Int) - (q * m : Nat) ≤ (t + 1) / 2 ∧ (q * m : Nat) - ((t * deltaM q t m : Nat) : Int) ≤ t / 2 := by
  rw [deltaM_eq q t m ht]
  have h1 := Nat.div_mul_le_self (q * m + (t + 1) / 2) t
  have h2 := Nat.lt_div_mul_add (a := q * m + (t + 1) / 2) ht
  rw [Nat.mul_comm ((q * m + (t + 1) / 2) / t) t] at h1 h2
  generalize t * ((q * m + (t + 1) / 2) / t) = X at *
  generalize q * m = P at *
  omega

/-! ### characterisations of the Spec helpers -/

theorem c01j_roundDiv_eq {a w : Int} {b : Nat} (hb : 0 < b) (h1 : 2 * (b : Int) * w ≤ 2 * a + b)
    (h2 : 2 * a + b < 2 * (b : Int) * (w + 1)) : Spec.roundDiv a b = w := by
  unfold Spec.roundDiv
  have hb' : (0 : Int) < 2 * (b : Int) := by omega
  apply Int.le_antisymm
  · apply Int.le_of_lt_add_one
    rw [Int.ediv_lt_iff_lt_mul hb']
    linarith
  · rw [Int.le_ediv_iff_mul_le hb']
    linarith

theorem c01j_imod_cast (x : Int) {m : Nat} (hm : 0 < m) : ((Spec.imod x m : Nat) : Int) = x % (m : Int) := by
  unfold Spec.imod
  exact Int.toNat_of_nonneg (Int.emod_nonneg _ (by omega))

theorem c01j_imod_lt (x : Int) {m : Nat} (hm : 0 < m) : Spec.imod x m < m := by
  have h := c01j_imod_cast x hm
  have := Int.emod_lt_of_pos x (show (0 : Int) < m by omega)
  omega

/-- centred lift of a reduced value: it differs from the value by a multiple of Q -/
theorem c01j_centred_imod (x : Int) {Q : Nat} (hQ : 0 < Q) :
    ∃ κ : Int, Spec.centred (Spec.imod x Q) Q = x - Q * κ := by
  have hlt := c01j_imod_lt x hQ
  have hc := c01j_imod_cast x hQ
  have hd := Int.emod_add_mul_ediv x Q
  unfold Spec.centred
  rw [Nat.mod_eq_of_lt hlt]
  split
  · refine ⟨x / Q + 1, ?_⟩
    rw [hc]; linarith
  · refine ⟨x / Q, ?_⟩
    rw [hc]; linarith

/-- a small integer is its own centred lift -/
theorem c01j_centred_small {x : Int} {Q : Nat} (h : 2 * x.natAbs < Q) :
    Spec.centred (Spec.imod x Q) Q = x := by
  have hQ : 0 < Q := by omega
  have hlt := c01j_imod_lt x hQ
  have hc := c01j_imod_cast x hQ
  unfold Spec.centred
  rw [Nat.mod_eq_of_lt hlt]
  by_cases hx : 0 ≤ x
  · have e : x % (Q : Int) = x := Int.emod_eq_of_lt hx (by omega)
    rw [e] at hc
    rw [if_neg (by omega)]; exact hc
  · have e : x % (Q : Int) = x + Q := by
      rw [← Int.add_mul_emod_self_left x Q 1, Int.mul_one]
      exact Int.emod_eq_of_lt (by omega) (by omega)
    rw [e] at hc
    rw [if_pos (by omega)]; omega

theorem c01j_imod_sub_mul (m : Nat) (κ : Int) {t : Nat} (hm : m < t) : Spec.imod ((m : Int) - t * κ) t = m := by
  have ht : 0 < t := by omega
  have hc := c01j_imod_cast ((m : Int) - t * κ) ht
  rw [Int.sub_mul_emod_self_left, Int.emod_eq_of_lt (by omega) (by omega)] at hc
  exact_mod_cast hc

theorem c01j_imod_add_mul (m : Nat) (κ : Int) {t : Nat} (hm : m < t) : Spec.imod ((m : Int) + t * κ) t = m := by
  have ht : 0 < t := by omega
  have hc := c01j_imod_cast ((m : Int) + t * κ) ht
  rw [Int.add_mul_emod_self_left, Int.emod_eq_of_lt (by omega) (by omega)] at hc
  exact_mod_cast hc

theorem c01j_mul_natAbs_bounds (t : Nat) (v : Int) :
    -((t : Int) * (v.natAbs : Int)) ≤ t * v ∧ (t : Int) * v ≤ (t : Int) * (v.natAbs : Int) := by
  have h1 : -(v.natAbs : Int) ≤ v := by omega
  have h2 : v ≤ (v.natAbs : Int) := by omega
  have ht : (0 : Int) ≤ t := by omega
  constructor
  · have := mul_le_mul_of_nonneg_left h1 ht
    linarith
  · exact mul_le_mul_of_nonneg_left h2 ht

/-- BFV SCALE ROUND TRIP: for every q, t ≥ 2, m < t and every noise v with 2·t·(|v| + 1) < q:
    decoding (Δ(m) + v) mod q — centred lift, multiply by t, divide by q with rounding, reduce mod t — returns m.
    Covers upper-half values, q mod t ≠ 0, t a power of two, t larger than a prime factor of q. -/
theorem bfv_scale_round_trip {q t m : Nat} {v : Int} (ht : 2 ≤ t) (hm : m < t) (hv : 2 * t * (v.natAbs + 1) < q) :
    Spec.imod (Spec.roundDiv (t * Spec.centred (Spec.imod ((deltaM q t m : Int) + v) q) q) q) t = m := by
  have hq : 0 < q := by omega
  obtain ⟨κ, hκ⟩ := c01j_centred_imod ((deltaM q t m : Int) + v) hq
  obtain ⟨e1, e2⟩ := deltaM_err q t m (by omega)
  obtain ⟨b1, b2⟩ := c01j_mul_natAbs_bounds t v
  rw [hκ]
  have hv' : 2 * (t * v.natAbs) + 2 * t < q := by
    have : 2 * t * (v.natAbs + 1) = 2 * (t * v.natAbs) + 2 * t := by ring
    omega
  push_cast at e1 e2
  have hv'' : 2 * ((t : Int) * (v.natAbs : Int)) + 2 * t < q := by exact_mod_cast hv'
  have hw : Spec.roundDiv (t * ((deltaM q t m : Int) + v - q * κ)) q = (m : Int) - t * κ := by
    apply c01j_roundDiv_eq hq
    · have h3 : ((t : Int)) / 2 ≤ t := by omega
      linarith
    · have h3 : ((t : Int) + 1) / 2 ≤ t := by omega
      linarith
  rw [hw]
  exact c01j_imod_sub_mul m κ hm

/-- BGV lift of a plaintext coefficient: m if m < ⌈t/2⌉ else m − t (the `plain_upper_half_threshold/increment` lift) -/
def bgvLift (t m : Nat) : Int := if m ≥ (t + 1) / 2 then (m : Int) - t else m

theorem c01j_bgvLift_bounds {t m : Nat} (hm : m < t) : 2 * (bgvLift t m).natAbs ≤ t := by
  unfold bgvLift
  split <;> omega

theorem c01j_bgvLift_imod {t m : Nat} (hm : m < t) (v : Int) : Spec.imod (bgvLift t m + t * v) t = m := by
  unfold bgvLift
  split
  · have : (m : Int) - t + t * v = (m : Int) + t * (v - 1) := by ring
    rw [this]; exact c01j_imod_add_mul m _ hm
  · exact c01j_imod_add_mul m _ hm

/-- BGV ROUND TRIP: phase = lift(m) + t·v with |lift(m) + t·v| < q/2 decodes (centred mod q, then mod t) to m -/
theorem bgv_round_trip {q t m : Nat} {v : Int} (ht : 2 ≤ t) (hm : m < t) (hq : 2 * (t * (v.natAbs + 1)) < q) :
    Spec.imod (Spec.centred (Spec.imod (bgvLift t m + t * v) q) q) t = m := by
  have hb := c01j_bgvLift_bounds hm
  have hsmall : 2 * (bgvLift t m + t * v).natAbs < q := by
    have h1 := Int.natAbs_add_le (bgvLift t m) (t * v)
    have h2 : ((t : Int) * v).natAbs = t * v.natAbs := by rw [Int.natAbs_mul]; rfl
    have h3 : t * (v.natAbs + 1) = t * v.natAbs + t := by ring
    omega
  rw [c01j_centred_small hsmall]
  exact c01j_bgvLift_imod hm v

/-- correction factor: decoding multiplies by cf^{-1} mod t.
    ORIGINAL STATEMENT — FALSE as given (no bound on `t`): `Spec.egcd` runs Euclid's algorithm with fuel 400, so for
    consecutive Fibonacci numbers cf = F₄₀₁, t = F₄₀₂ (279 bits) it runs out of fuel, `Spec.invMod cf t = 0` and the decoded
    value is 0 ≠ m = 1; see `c01j_bgv_round_trip_cf_false`. -/
def bgv_round_trip_cfStatement : Prop :=
  ∀ {q t m cf : Nat} {v : Int}, 2 ≤ t → m < t → Nat.Coprime cf t →
    2 * (t * (v.natAbs + 1)) < q → ∀ {x : Int}, x = bgvLift t ((cf * m) % t) + t * v →
    (Spec.imod (Spec.centred (Spec.imod x q) q) t * Spec.invMod cf t) % t = m

/-- same statement with the inverse property of `Spec.invMod cf t` as a hypothesis -/
theorem bgv_round_trip_cf_of_inv {q t m cf : Nat} {v : Int} (ht : 2 ≤ t) (hm : m < t)
    (hinv : (Spec.invMod cf t * cf) % t = 1 % t)
    (hq : 2 * (t * (v.natAbs + 1)) < q) {x : Int} (hx : x = bgvLift t ((cf * m) % t) + t * v) :
    (Spec.imod (Spec.centred (Spec.imod x q) q) t * Spec.invMod cf t) % t = m := by
  subst hx
  rw [bgv_round_trip ht (Nat.mod_lt _ (by omega)) hq]
  calc (cf * m) % t * Spec.invMod cf t % t = (cf * m) * Spec.invMod cf t % t := Nat.mod_mul_mod _ _ _
    _ = m * (Spec.invMod cf t * cf) % t := by congr 1; ring
    _ = m * ((Spec.invMod cf t * cf) % t) % t := (Nat.mul_mod_mod _ _ _).symm
    _ = m := by rw [hinv, Nat.mul_mod_mod, Nat.mul_one, Nat.mod_eq_of_lt hm]

/-! ### phase identities in any commutative ring (R = Z_q[X]/(X^N+1)) -/
section ring
variable {R : Type} [CommRing R]

/-- public-key encryption: pk = (−(a·s + e), a), ct = (pk0·u + e0 + M, pk1·u + e1): phase = M − e·u + e0 + e1·s -/
theorem phase_fresh_pk (a s e u e0 e1 M : R) :
    ((-(a * s + e)) * u + e0 + M) + (a * u + e1) * s = M - e * u + e0 + e1 * s := by ring

/-- secret-key encryption: ct = (−(a·s + e) + M, a): phase = M − e -/
theorem phase_fresh_sk (a s e M : R) : (-(a * s + e) + M) + a * s = M - e := by ring

/-- BGV variants: errors enter multiplied by t -/
theorem phase_fresh_pk_bgv (a s e u e0 e1 M t : R) :
    ((-(a * s + t * e)) * u + t * e0 + M) + (a * u + t * e1) * s = M + t * (- e * u + e0 + e1 * s) := by ring
end ring

/-! ### deterministic noise bound -/

/-- ‖a·b mod (X^n+1)‖∞ ≤ n·‖a‖∞·‖b‖∞ for integer coefficient vectors (negMulR over ℤ) -/
theorem negMul_norm_le (n : Nat) (a b : Nat → Int) (A B : Nat)
    (ha : ∀ i, i < n → (a i).natAbs ≤ A) (hb : ∀ i, i < n → (b i).natAbs ≤ B) :
    ∀ c, c < n → (negMulR n a b c).natAbs ≤ n * A * B := by
  intro c hc
  unfold negMulR
  refine (Int.natAbs_sum_le _ _).trans ?_
  have h : ∀ i ∈ range n, (if i ≤ c then a i * b (c - i) else -(a i * b (n + c - i))).natAbs ≤ A * B := by
    intro i hi
    rw [mem_range] at hi
    split
    · rw [Int.natAbs_mul]; exact Nat.mul_le_mul (ha i hi) (hb _ (by omega))
    · rw [Int.natAbs_neg, Int.natAbs_mul]; exact Nat.mul_le_mul (ha i hi) (hb _ (by omega))
  refine (Finset.sum_le_sum h).trans ?_
  rw [Finset.sum_const, card_range, smul_eq_mul, Nat.mul_assoc]

/-- FRESH NOISE: with ternary u, s (‖·‖ ≤ 1) and errors bounded by 21 (C16: `cbd_bound`) the fresh public-key noise
    −e·u + e0 + e1·s has infinity norm ≤ 21·(2n + 1); the secret-key noise ≤ 21 -/
theorem fresh_noise_bound (n : Nat) (e u e0 e1 s : Nat → Int)
    (he : ∀ i, i < n → (e i).natAbs ≤ 21) (he0 : ∀ i, i < n → (e0 i).natAbs ≤ 21) (he1 : ∀ i, i < n → (e1 i).natAbs ≤ 21)
    (hu : ∀ i, i < n → (u i).natAbs ≤ 1) (hs : ∀ i, i < n → (s i).natAbs ≤ 1) :
    ∀ c, c < n → (- negMulR n e u c + e0 c + negMulR n e1 s c).natAbs ≤ 21 * (2 * n + 1) := by
  intro c hc
  have h1 := negMul_norm_le n e u 21 1 he hu c hc
  have h2 := negMul_norm_le n e1 s 21 1 he1 hs c hc
  have h3 := he0 c hc
  generalize negMulR n e u c = X at *
  generalize negMulR n e1 s c = Y at *
  generalize e0 c = Z at *
  omega

/-- FRESH DECRYPTION (BFV): phase coefficient Δ(m_c) + v_c with the fresh bound decodes to m_c as soon as
    2·t·(21·(2n+1) + 1) < q — an explicit, decidable predicate on the parameter set -/
def FreshOK (n t q : Nat) : Prop := 2 * t * (21 * (2 * n + 1) + 1) < q
instance (n t q : Nat) : Decidable (FreshOK n t q) := by unfold FreshOK; infer_instance

theorem decrypt_fresh_bfv {n q t m : Nat} {v : Int} (ht : 2 ≤ t) (hm : m < t) (hok : FreshOK n t q)
    (hv : v.natAbs ≤ 21 * (2 * n + 1)) :
    Spec.imod (Spec.roundDiv (t * Spec.centred (Spec.imod ((deltaM q t m : Int) + v) q) q) q) t = m := by
  apply bfv_scale_round_trip ht hm
  unfold FreshOK at hok
  exact Nat.lt_of_le_of_lt (Nat.mul_le_mul_left _ (by omega)) hok

/-- non-vacuity: N = 8192, three 40-bit primes, t of 20 bits satisfies FreshOK -/
example : FreshOK 8192 (2^20) (2^117) := by unfold FreshOK; norm_num

/-! ### `Spec.invMod` is a modular inverse when the fuel of `Spec.egcd` suffices (modulus below 2^199) -/

theorem c01j_go_zero (r0 r1 s0 s1 : Int) : Spec.egcd.go 0 r0 r1 s0 s1 = (r0, s0) := rfl

theorem c01j_go_succ (f : Nat) (r0 r1 s0 s1 : Int) :
    Spec.egcd.go (f + 1) r0 r1 s0 s1 =
      if r1 = 0 then (r0, s0) else Spec.egcd.go f r1 (r0 - r0 / r1 * r1) s1 (s0 - r0 / r1 * s1) := rfl

/-- Euclid's loop: with remainders 0 ≤ r1 ≤ r0 coprime, r_i ≡ s_i·x (mod M) and r0·r1 < 2^f, `f + 1` units of fuel
    reach remainder 1 with a Bézout coefficient of x modulo M -/
theorem c01j_go_spec (x M : Int) : ∀ (f : Nat) (r0 r1 s0 s1 : Int), 0 ≤ r1 → r1 ≤ r0 → r0 * r1 < 2 ^ f →
    M ∣ r0 - s0 * x → M ∣ r1 - s1 * x → Int.gcd r0 r1 = 1 →
    ∃ a, Spec.egcd.go (f + 1) r0 r1 s0 s1 = (1, a) ∧ M ∣ 1 - a * x := by
  intro f
  induction f with
  | zero =>
    intro r0 r1 s0 s1 h1 h10 hp d0 d1 hg
    have hr1 : r1 = 0 := by
      by_contra hne
      have h1' : 1 ≤ r1 := by omega
      have : 1 * 1 ≤ r0 * r1 := mul_le_mul (by omega) h1' (by omega) (by omega)
      omega
    subst hr1
    rw [c01j_go_succ, if_pos rfl]
    rw [Int.gcd_zero_right] at hg
    have : r0 = 1 := by omega
    subst this
    exact ⟨s0, rfl, d0⟩
  | succ f ih =>
    intro r0 r1 s0 s1 h1 h10 hp d0 d1 hg
    rw [c01j_go_succ]
    by_cases hr1 : r1 = 0
    · subst hr1
      rw [if_pos rfl]
      rw [Int.gcd_zero_right] at hg
      have : r0 = 1 := by omega
      subst this
      exact ⟨s0, rfl, d0⟩
    · rw [if_neg hr1]
      have hpos : 0 < r1 := by omega
      have hmod : r0 - r0 / r1 * r1 = r0 % r1 := by
        have := Int.emod_add_mul_ediv r0 r1
        rw [Int.mul_comm (r0 / r1) r1]; omega
      have hm0 : 0 ≤ r0 % r1 := Int.emod_nonneg _ hr1
      have hm1 : r0 % r1 < r1 := Int.emod_lt_of_pos _ hpos
      have hq1 : 1 ≤ r0 / r1 := by
        rw [Int.le_ediv_iff_mul_le hpos]; omega
      have hm2 : r0 % r1 ≤ r0 - r1 := by
        have : 1 * r1 ≤ r0 / r1 * r1 := mul_le_mul_of_nonneg_right hq1 (by omega)
        omega
      apply ih
      · rw [hmod]; exact hm0
      · rw [hmod]; omega
      · rw [hmod]
        have h2 : 2 * (r0 % r1) ≤ r0 := by omega
        have h3 : r1 * (2 * (r0 % r1)) ≤ r1 * r0 := mul_le_mul_of_nonneg_left h2 (by omega)
        have h4 : (2 : Int) ^ (f + 1) = 2 * 2 ^ f := by ring
        have h5 : r1 * (2 * (r0 % r1)) = 2 * (r1 * (r0 % r1)) := by ring
        have h6 : r1 * r0 = r0 * r1 := by ring
        omega
      · exact d1
      · have : r0 - r0 / r1 * r1 - (s0 - r0 / r1 * s1) * x = (r0 - s0 * x) - r0 / r1 * (r1 - s1 * x) := by ring
        rw [this]
        exact dvd_sub d0 (Dvd.dvd.mul_left d1 _)
      · rw [Int.gcd_sub_mul_right_right, Int.gcd_comm]; exact hg

theorem c01j_egcd_spec {c M : Nat} (hc : c < M) (hM : M < 2 ^ 199) (hg : Nat.gcd c M = 1) :
    ∃ a, Spec.egcd (c : Int) (M : Int) = (1, a) ∧ (M : Int) ∣ 1 - a * c := by
  have hM0 : (M : Int) ≠ 0 := by omega
  have e : Spec.egcd (c : Int) (M : Int) = Spec.egcd.go 399 (M : Int) (c : Int) 0 1 := by
    show Spec.egcd.go (399 + 1) (c : Int) (M : Int) 1 0 = _
    rw [c01j_go_succ, if_neg hM0, Int.ediv_eq_zero_of_lt (by omega) (by omega)]
    simp
  rw [e]
  apply c01j_go_spec (c : Int) (M : Int) 398
  · omega
  · omega
  · have h1 : M * c < 2 ^ 199 * 2 ^ 199 := Nat.mul_lt_mul'' hM (by omega)
    have h2 : (2 : Nat) ^ 199 * 2 ^ 199 = 2 ^ 398 := by rw [← pow_add]
    rw [h2] at h1
    exact_mod_cast h1
  · simp
  · simp
  · rw [Int.gcd_comm]; exact_mod_cast hg

/-- `Spec.invMod cf t` is an inverse of cf modulo t for coprime cf, t with t < 2^199 -/
theorem c01j_invMod_spec {cf t : Nat} (ht : 2 ≤ t) (ht199 : t < 2 ^ 199) (hcf : Nat.Coprime cf t) :
    (Spec.invMod cf t * cf) % t = 1 % t := by
  have hg : Nat.gcd (cf % t) t = 1 := by
    rw [← Nat.gcd_rec, Nat.gcd_comm]; exact hcf
  obtain ⟨a, ha, hd⟩ := c01j_egcd_spec (Nat.mod_lt cf (by omega)) ht199 hg
  have hinv : Spec.invMod cf t = (a % (t : Int)).toNat := by
    unfold Spec.invMod
    rw [ha]
    simp
  have hcast : ((Spec.invMod cf t : Nat) : Int) = a % (t : Int) := by
    rw [hinv]; exact Int.toNat_of_nonneg (Int.emod_nonneg _ (by omega))
  have h1 : ((Spec.invMod cf t * cf : Nat) : Int) ≡ ((1 : Nat) : Int) [ZMOD (t : Int)] := by
    push_cast
    rw [hcast]
    have e1 : a % (t : Int) * (cf : Int) ≡ a * ((cf % t : Nat) : Int) [ZMOD (t : Int)] := by
      apply Int.ModEq.mul (Int.mod_modEq a t)
      push_cast
      exact (Int.mod_modEq _ _).symm
    have e2 : a * ((cf % t : Nat) : Int) ≡ 1 [ZMOD (t : Int)] := by
      rw [Int.modEq_iff_dvd]
      exact hd
    exact e1.trans e2
  exact Int.natCast_modEq_iff.mp h1

/-- correction factor: the given statement under the explicit bound t < 2^199 (fuel of `Spec.egcd` suffices) -/
theorem bgv_round_trip_cf_bounded {q t m cf : Nat} {v : Int} (ht : 2 ≤ t) (ht199 : t < 2 ^ 199) (hm : m < t)
    (hcf : Nat.Coprime cf t)
    (hq : 2 * (t * (v.natAbs + 1)) < q) {x : Int} (hx : x = bgvLift t ((cf * m) % t) + t * v) :
    (Spec.imod (Spec.centred (Spec.imod x q) q) t * Spec.invMod cf t) % t = m :=
  bgv_round_trip_cf_of_inv ht hm (c01j_invMod_spec ht ht199 hcf) hq hx

/-! ### the unbounded statement is false: Fibonacci witness exhausting the fuel of `Spec.egcd` -/

/-- F₄₀₁ -/
def c01j_F401 : Nat := 284812298108489611757988937681460995615380088782304890986477195645969271404032323901
/-- F₄₀₂ (279 bits) -/
def c01j_F402 : Nat := 460835978753503578226215883073872246385764472086797082873203188542544616448248343576

set_option maxRecDepth 100000 in
theorem c01j_invMod_fib : Spec.invMod c01j_F401 c01j_F402 = 0 := by decide

theorem c01j_coprime_fib : Nat.Coprime c01j_F401 c01j_F402 := by decide

/-- COUNTEREXAMPLE to the given `bgv_round_trip_cf`: t = F₄₀₂, cf = F₄₀₁ (coprime), m = 1, v = 0, q = 2t + 1:
    `Spec.invMod cf t = 0` (fuel 400 exhausted), so the left-hand side is 0, not 1. -/
theorem c01j_bgv_round_trip_cf_false : ¬ bgv_round_trip_cfStatement := by
  intro h
  have h1 := @h (2 * c01j_F402 + 1) c01j_F402 1 c01j_F401 0 (by decide) (by decide) c01j_coprime_fib
    (by simp) _ rfl
  rw [c01j_invMod_fib, Nat.mul_zero, Nat.zero_mod] at h1
  exact absurd h1 (by decide)

/-! ### model link -/

theorem c01j_wfop_new_eq {mq : Modulus} (h : mq.WF) {o : MulOperand} (ho : WFOp mq o) :
    MulOperand.new o.operand mq = .ok o := by
  obtain ⟨o', h1, h2, h3⟩ := mulOperand_new h ho.1
  rw [h1]
  congr 1
  cases o; cases o'
  simp only [MulOperand.mk.injEq]
  exact ⟨h2, h3.trans ho.2.symm⟩

/-- MODEL LINK: the coefficient `multiply_add_plain` adds in component j is Δ(m) mod q_j, for a well-formed modulus and
    the context constants ⌊Q/t⌋ mod q_j (as Harvey operand), Q mod t, ⌊(t+1)/2⌋ -/
theorem multiplyAddPlain_coeff {mq : Modulus} (hq : mq.WF) {Q t m d : Nat} (ht : 2 ≤ t) (ht64 : t < 2^61) (hm : m < t)
    (hd : d < mq.value) {op : MulOperand} (hop : WFOp mq op) (hopv : op.operand = (Q / t) % mq.value) :
    (do
      let lo := mulLo m (Q % t)
      let hi := mulHi m (Q % t)
      let (n0, carry) := addU64 lo ((t + 1) / 2)
      let n1 ← ckAdd hi carry
      let fix := ((n0 + B64 * n1) / t) % B64
      let sc ← mulOperandAddMod m op fix mq
      addMod d sc mq) = .ok ((d + deltaM Q t m) % mq.value) := by
  have hlo : mulLo m (Q % t) < B64 := Nat.mod_lt _ B64_pos
  have hr : Q % t < t := Nat.mod_lt _ (by omega)
  have hh : (t + 1) / 2 < B64 := by rw [B64_eq]; omega
  have e := mulHiLo m (Q % t)
  have hprod : m * (Q % t) < t * t := Nat.mul_lt_mul'' hm hr
  have htt : t * t < 2^61 * 2^61 := Nat.mul_lt_mul'' ht64 ht64
  have hhi : mulHi m (Q % t) < 2^58 := by
    unfold mulHi
    apply Nat.div_lt_of_lt_mul
    rw [B64_eq]; omega
  have hs : addU64 (mulLo m (Q % t)) ((t + 1) / 2) =
      ((mulLo m (Q % t) + (t + 1) / 2) % B64, (mulLo m (Q % t) + (t + 1) / 2) / B64) :=
    Prod.ext (addU64_fst _ _) (addU64_snd hlo hh)
  simp only [hs]
  have hc : (mulLo m (Q % t) + (t + 1) / 2) / B64 ≤ 1 := by
    have : (mulLo m (Q % t) + (t + 1) / 2) / B64 < 2 := by
      apply Nat.div_lt_of_lt_mul; omega
    omega
  have hck : ckAdd (mulHi m (Q % t)) ((mulLo m (Q % t) + (t + 1) / 2) / B64) =
      .ok (mulHi m (Q % t) + (mulLo m (Q % t) + (t + 1) / 2) / B64) := by
    unfold ckAdd
    rw [if_pos (by rw [B64_eq]; omega)]
  rw [hck]
  simp only [bind, Except.bind]
  have hnum : (mulLo m (Q % t) + (t + 1) / 2) % B64 +
      B64 * (mulHi m (Q % t) + (mulLo m (Q % t) + (t + 1) / 2) / B64) = (Q % t) * m + (t + 1) / 2 := by
    have := Nat.mod_add_div (mulLo m (Q % t) + (t + 1) / 2) B64
    rw [Nat.mul_add, Nat.mul_comm (Q % t) m, ← e]
    omega
  rw [hnum]
  have hfix : ((Q % t) * m + (t + 1) / 2) / t < 2^61 + 1 := by
    apply Nat.div_lt_of_lt_mul
    have h1 : (Q % t) * m + (t + 1) / 2 < t * t + t := by rw [Nat.mul_comm (Q % t) m]; omega
    have h2 : t * t + t = t * (t + 1) := by ring
    have h3 : t * (t + 1) ≤ t * (2^61 + 1) := Nat.mul_le_mul_left _ (by omega)
    omega
  rw [Nat.mod_eq_of_lt (by rw [B64_eq]; omega)]
  rw [mulOperandAddMod_exact hq (by omega) hop.1 (by omega) (c01j_wfop_new_eq hq hop)]
  simp only []
  rw [addMod_exact hq hd (Nat.mod_lt _ (by have := hq.two_le; omega))]
  have key : (m * (Q / t % mq.value) + ((Q % t) * m + (t + 1) / 2) / t) % mq.value =
      (Q / t * m + ((Q % t) * m + (t + 1) / 2) / t) % mq.value := by
    rw [Nat.add_mod, Nat.mul_mod_mod, ← Nat.add_mod, Nat.mul_comm]
  unfold deltaM
  rw [hopv, key, Nat.add_mod_mod]

end HC
