/- C01 part V: END TO END ON THE DRIVER'S OWN OBJECTS.  Every level is what `Drv.Sch.mkLevel` returns, every context constant is what
   the driver computes from its definition (`Drv.C01E.bfvConsts`, `Drv.C01E.bgvIncr`), the public key is what the model's key
   generation `genPublicKey` returns; the remaining hypotheses are the ranges of the drawn polynomials (ternary secret and u, errors
   bounded by 21 — the proved CBD bound), validity of the plaintext and a decidable margin.
     `DrvCtx`        the key material of one context (key level, ternary secret, generated public key);
     `DrvMode`       the admissible calls of `encrypt_zero_internal` on these objects, each with the noise bound it guarantees
                     (public key at the head of the chain / through the previous level — special-prime path and every lower level /
                      secret key and seed-compressed, any level);
     `drvMode_fresh` every admissible call is a fresh encryption of zero within its bound;
     V1 BFV, V2 BGV: decrypt ∘ encrypt = id for ALL admissible modes at once; V3 CKKS: the decrypted plaintext is M + ν over the
     INTEGERS (centred lift; exact RNS residues); V4: encryptions of zero (`encrypt_zero_at`) decrypt to zero / to the noise.
   Helper names carry the prefix `c01v_`. -/
import Heathcliff.Proofs.C01U
namespace HC
open Finset Polynomial

/-! ## the driver's objects -/

/-- the key material of one context, as the driver has it on an `enc_op` / `keygen_op` line: the key level built by `mkLevel` on the
    key-level moduli, a ternary secret (signed coefficients), and the public key (pk0, pk1) RETURNED BY the model's key generation
    `genPublicKey` (= `KeyGenerator::create_public_key`) from a canonical mask pk1 and an error polynomial with ‖e‖∞ ≤ 21 -/
structure DrvCtx (scheme : Scheme) (n t : Nat) (kqs : List Nat) (kl : Level) (sk : Array Int) (pk0 pk1 : RnsPoly) : Prop where
  klOk : Drv.Sch.mkLevel scheme n kqs t = .ok kl
  /-- a BGV context has a plain modulus (with t = 0 `mkLevel` builds a tool without BGV constants: `mkLevel_t0`) -/
  bgvT : scheme = .bgv → t ≠ 0
  skSize : sk.size = n
  skTern : ∀ p, p < n → (sk.getD p 0).natAbs ≤ 1
  pkGen : ∃ (epk : Array Int) (saveSeed : Bool), epk.size = n ∧ (∀ p, p < n → (epk.getD p 0).natAbs ≤ 21) ∧ RnsCanon kl pk1 ∧
    genPublicKey kl sk pk1 (rnsOfInt kl epk) saveSeed = .ok ⟨#[pk0, pk1], true, 1⟩

/-- the slack of the division by the last prime: 2 for the t-compatible BGV division, 1 for BFV / CKKS rounding -/
def drvSlack (scheme : Scheme) : Nat := if scheme = .bgv then 2 else 1

/-- THE ADMISSIBLE CALLS of `encrypt_zero_internal` at the level on `lqs` (a prefix of the key-level moduli `kqs`), each with the
    bound on the noise of the encryption of zero it guarantees -/
inductive DrvMode (scheme : Scheme) (n t : Nat) (kqs : List Nat) (sk : Array Int) (pk0 pk1 : RnsPoly) (lqs : List Nat) (l : Level) :
    EncMode → Nat → Prop
  /-- public key, no previous level (the code reaches this branch at the head of the chain, `r = []`): noise ≤ 21(2N+1) -/
  | pk {r : List Nat} {u e0 e1 : Array Int} (hk : kqs = lqs ++ r)
      (hus : u.size = n) (he0s : e0.size = n) (he1s : e1.size = n)
      (hu1 : ∀ p, p < n → (u.getD p 0).natAbs ≤ 1) (he0 : ∀ p, p < n → (e0.getD p 0).natAbs ≤ 21)
      (he1 : ∀ p, p < n → (e1.getD p 0).natAbs ≤ 21) :
      DrvMode scheme n t kqs sk pk0 pk1 lqs l (.asym none #[pk0, pk1] (rnsOfInt l u) #[rnsOfInt l e0, rnsOfInt l e1]) (21 * (2 * n + 1))
  /-- public key THROUGH THE PREVIOUS LEVEL `pl` (built by `mkLevel` on `lqs ++ [qL]`): the special-prime path of the first level
      (`r = []`) and every lower level; the drawn polynomials are encoded with the previous level's moduli;
      noise ≤ ⌊(2·21(2N+1) + slack·q_L(1+N)) / (2 q_L)⌋ -/
  | pkPrev {pl : Level} {qL : Nat} {r : List Nat} {u e0 e1 : Array Int} (hk : kqs = (lqs ++ [qL]) ++ r)
      (hpl : Drv.Sch.mkLevel scheme n (lqs ++ [qL]) t = .ok pl)
      (hus : u.size = n) (he0s : e0.size = n) (he1s : e1.size = n)
      (hu1 : ∀ p, p < n → (u.getD p 0).natAbs ≤ 1) (he0 : ∀ p, p < n → (e0.getD p 0).natAbs ≤ 21)
      (he1 : ∀ p, p < n → (e1.getD p 0).natAbs ≤ 21) :
      DrvMode scheme n t kqs sk pk0 pk1 lqs l (.asym (some pl) #[pk0, pk1] (rnsOfInt pl u) #[rnsOfInt pl e0, rnsOfInt pl e1])
        (spBound qL (21 * (2 * n + 1)) (drvSlack scheme) n)
  /-- secret key, with or without a saved seed (the value is the expanded view, `expandSeed_toSeeded`), any level: noise ≤ 21 -/
  | sk {a : RnsPoly} {e : Array Int} (ha : RnsCanon l a) (hes : e.size = n) (he : ∀ p, p < n → (e.getD p 0).natAbs ≤ 21)
      (saveSeed : Bool) :
      DrvMode scheme n t kqs sk pk0 pk1 lqs l (.sym sk a (rnsOfInt l e) saveSeed) 21

/-- the generated public key is an encryption of zero under the secret with error tt·e, ‖e‖∞ ≤ 21 (`genPublicKey_pkRel`) -/
theorem DrvCtx.pkRel {scheme : Scheme} {n t : Nat} {kqs : List Nat} {kl : Level} {sk : Array Int} {pk0 pk1 : RnsPoly}
    (h : DrvCtx scheme n t kqs kl sk pk0 pk1) :
    ∃ epk : Nat → Int, (∀ p, p < n → (epk p).natAbs ≤ 21) ∧ PkRel kl sk (fun c => (encTT kl : Int) * epk c) pk0 pk1 := by
  obtain ⟨epk, ss, hsz, hb, hcan, hgen⟩ := h.pkGen
  obtain ⟨a1, a2, a3, a4, a5, a6, a7, a8, a9⟩ := mkLevel_ok h.klOk
  obtain ⟨_, _, _, _, _, ht61, _, _⟩ := mkLevel_ok_inputs h.klOk
  have ht64 : kl.t.value < 2^64 := by
    rw [a9]
    have : (2:Nat)^61 < 2^64 := by norm_num
    omega
  obtain ⟨pk0', hgen', _, hrel⟩ := genPublicKey_pkRel a1 ht64 (by rw [a6]; exact h.skSize) hcan (by rw [a6]; exact hsz) ss
  rw [hgen] at hgen'
  have e : (⟨#[pk0, pk1], true, 1⟩ : Ct) = ⟨#[pk0', pk1], true, 1⟩ := by injection hgen'
  have e0 : pk0 = pk0' := by
    have := congrArg (fun c : Ct => c.polys.getD 0 #[]) e
    simpa using this
  subst e0
  exact ⟨fun c => epk.getD c 0, hb, hrel⟩

theorem c01v_pkRel_at {l kl : Level} (hp : LevelPrefix l kl) (hs : l.scheme = kl.scheme) (ht : l.t = kl.t) {sk : Array Int}
    {epk : Nat → Int} {pk0 pk1 : RnsPoly} (hrel : PkRel kl sk (fun c => (encTT kl : Int) * epk c) pk0 pk1) :
    PkRel l sk (fun c => (encTT l : Int) * epk c) pk0 pk1 := by
  have e : encTT l = encTT kl := by unfold encTT; rw [hs, ht]
  rw [e]
  exact PkRel.lower hp hrel

theorem c01v_last_q {pl : Level} {lqs : List Nat} {qL : Nat} (h : c01p_qvals pl = lqs ++ [qL]) :
    (pl.q (pl.size - 1)).value = qL := by
  have hlen := c01u_qvals_length h
  simp only [List.length_append, List.length_singleton] at hlen
  have hj : pl.size - 1 < pl.size := by omega
  rw [← c01u_qvals_getD h hj]
  have e : pl.size - 1 = lqs.length := by omega
  rw [e]
  simp [List.getD]

theorem c01v_t64 {scheme : Scheme} {n : Nat} {qs : List Nat} {t : Nat} {l : Level}
    (h : Drv.Sch.mkLevel scheme n qs t = .ok l) : l.t.value < 2^64 := by
  obtain ⟨_, _, _, _, _, ht61, _, _⟩ := mkLevel_ok_inputs h
  rw [(mkLevel_ok h).2.2.2.2.2.2.2.2]
  have : (2:Nat)^61 < 2^64 := by norm_num
  omega

/-- EVERY ADMISSIBLE CALL IS A FRESH ENCRYPTION OF ZERO within its bound: for the driver's levels, the generated public key and drawn
    polynomials in their ranges, `encrypt_zero_internal` succeeds with a canonical size-2 ciphertext in the scheme's form, correction
    factor 1, whose exact phase is tt·ν modulo Q with ‖ν‖∞ ≤ B -/
theorem drvMode_fresh {scheme : Scheme} {n t : Nat} {kqs : List Nat} {kl : Level} {sk : Array Int} {pk0 pk1 : RnsPoly}
    {lqs : List Nat} {l : Level} {mode : EncMode} {B : Nat}
    (hc : DrvCtx scheme n t kqs kl sk pk0 pk1) (hl : Drv.Sch.mkLevel scheme n lqs t = .ok l)
    (hm : DrvMode scheme n t kqs sk pk0 pk1 lqs l mode B) :
    ∃ ν : Nat → Int, FreshZero l sk (encryptZeroInternal l mode) ν ∧ ∀ c, c < l.n → (ν c).natAbs ≤ B := by
  obtain ⟨b1, b2, b3, b4, b5, b6, b7, b8, b9⟩ := mkLevel_ok hl
  obtain ⟨epk, hE, hrelK⟩ := hc.pkRel
  have ht64 := c01v_t64 hl
  have hsk := hc.skSize
  have hs1 := hc.skTern
  subst b6
  cases hm with
  | pk hk hus he0s he1s hu1 he0 he1 =>
    subst hk
    obtain ⟨hp, hs, ht, _, _⟩ := mkLevel_prefix hl hc.klOk
    have hrel := c01v_pkRel_at hp hs ht hrelK
    exact ⟨_, encryptZeroInternal_fresh_pk b1 b2 ht64 hrel hus he0s he1s,
      pkNoise_bound l.n epk _ _ _ _ hE he0 he1 hu1 hs1⟩
  | @pkPrev pl qL r u e0 e1 hk hpl hus he0s he1s hu1 he0 he1 =>
    subst hk
    obtain ⟨a1, a2, a3, a4, a5, a6, a7, a8, a9⟩ := mkLevel_ok hpl
    obtain ⟨hp, hs, ht, _, _⟩ := mkLevel_prefix hpl hc.klOk
    have hrel := c01v_pkRel_at hp hs ht hrelK
    have hprev := mkLevel_prevLevelOK hl hpl hc.bgvT
    obtain ⟨ν', hf, hb⟩ := encryptZeroInternal_fresh_pk_prev_bounded hprev hs1 hrel hE (by rw [a6]; exact hus) (by rw [a6]; exact he0s)
      (by rw [a6]; exact he1s) hu1 he0 he1
    have hsl : encSlack pl = drvSlack scheme := by unfold encSlack drvSlack; rw [a5]
    rw [c01v_last_q a8, hsl] at hb
    exact ⟨ν', hf, hb⟩
  | sk ha hes he saveSeed =>
    exact ⟨_, encryptZeroInternal_fresh_sk b1 b2 ht64 hsk ha hes saveSeed, fun c hc => by rw [Int.natAbs_neg]; exact he c hc⟩

/-! ## margins on the inputs -/

/-- the BFV margin `FreshEncOK` from a condition on the driver's INPUTS only: 4·t·(B+1) ≤ Q (the auxiliary prime γ chosen by `mkLevel`
    exceeds 2^60 and there are at most 64 moduli) -/
theorem mkLevel_freshEncOK {scheme : Scheme} {n : Nat} {qs : List Nat} {t : Nat} {l : Level}
    (hl : Drv.Sch.mkLevel scheme n qs t = .ok l) (ht : t ≠ 0) {B : Nat} (h : 4 * (t * (B + 1)) ≤ Spec.prodL qs) : FreshEncOK l B := by
  obtain ⟨b1, b2, b3, b4, b5, b6, b7, b8, b9⟩ := mkLevel_ok hl
  obtain ⟨_, _, _, _, h64, _, _, _⟩ := mkLevel_ok_inputs hl
  have hg := c01q_mkLevel_gamma hl ht
  have hsz : l.size ≤ 64 := by rw [← c01u_qvals_length b8]; exact h64
  unfold FreshEncOK
  rw [b8, b9]
  generalize l.tool.gamma.value = γ at *
  generalize Spec.prodL qs = Q at *
  generalize t * (B + 1) = X at *
  have h1 : 2 * γ * X * 2 ≤ Q * γ := by
    calc 2 * γ * X * 2 = γ * (4 * X) := by ring
      _ ≤ γ * Q := Nat.mul_le_mul_left _ h
      _ = Q * γ := by ring
  have h2 : 2 * l.size * Q * 2 ≤ Q * γ := by
    calc 2 * l.size * Q * 2 = Q * (4 * l.size) := by ring
      _ ≤ Q * γ := Nat.mul_le_mul_left _ (by
          have : (256:Nat) < 2^60 := by norm_num
          omega)
  have e : 2 * γ * X + 2 * l.size * Q = 2 * γ * X + 2 * l.size * Q := rfl
  omega

/-- the SHARP form of the BFV margin on the inputs: 2·t·(B+1) ≤ Q·(1 − 2^-53), written 2^54·t·(B+1) ≤ (2^53 − 1)·Q -/
theorem mkLevel_freshEncOK_sharp {scheme : Scheme} {n : Nat} {qs : List Nat} {t : Nat} {l : Level}
    (hl : Drv.Sch.mkLevel scheme n qs t = .ok l) (ht : t ≠ 0) {B : Nat} (h : 2^54 * (t * (B + 1)) ≤ (2^53 - 1) * Spec.prodL qs) :
    FreshEncOK l B := by
  obtain ⟨b1, b2, b3, b4, b5, b6, b7, b8, b9⟩ := mkLevel_ok hl
  obtain ⟨_, _, _, _, h64, _, _, _⟩ := mkLevel_ok_inputs hl
  have hg := c01q_mkLevel_gamma hl ht
  have hsz : l.size ≤ 64 := by rw [← c01u_qvals_length b8]; exact h64
  unfold FreshEncOK
  rw [b8, b9]
  generalize l.tool.gamma.value = γ at *
  generalize Spec.prodL qs = Q at *
  generalize t * (B + 1) = X at *
  generalize l.size = k at *
  have h' : 2^54 * X + Q ≤ 2^53 * Q := by
    have e : (2^53 - 1) * Q + Q = 2^53 * Q := by
      have : (2:Nat)^53 - 1 + 1 = 2^53 := by norm_num
      calc (2^53 - 1) * Q + Q = (2^53 - 1 + 1) * Q := by ring
        _ = 2^53 * Q := by rw [this]
    omega
  have h1 := Nat.mul_le_mul_left γ h'
  have h2 : 2^54 * k * Q ≤ γ * Q := Nat.mul_le_mul_right Q (by
    have : (2:Nat)^54 * 64 = 2^60 := by norm_num
    have : 2^54 * k ≤ 2^54 * 64 := Nat.mul_le_mul_left _ hsz
    omega)
  have e1 : γ * (2^54 * X + Q) = 2^54 * (γ * X) + γ * Q := by ring
  have e2 : γ * (2^53 * Q) = 2^53 * (γ * Q) := by ring
  have e3 : 2^54 * k * Q = 2^54 * (k * Q) := by ring
  have e4 : 2 * γ * X + 2 * k * Q = 2 * (γ * X) + 2 * (k * Q) := by ring
  have e5 : Q * γ = γ * Q := by ring
  rw [e1, e2] at h1
  rw [e3] at h2
  rw [e4, e5]
  generalize γ * X = a at *
  generalize γ * Q = b at *
  generalize k * Q = c at *
  norm_num at h1 h2 ⊢
  omega

/-- the BGV margin `FreshEncOKBgv` IS a condition on the inputs: 2·t·(B+1) < Q -/
theorem mkLevel_freshEncOKBgv {scheme : Scheme} {n : Nat} {qs : List Nat} {t : Nat} {l : Level}
    (hl : Drv.Sch.mkLevel scheme n qs t = .ok l) {B : Nat} : FreshEncOKBgv l B ↔ 2 * (t * (B + 1)) < Spec.prodL qs := by
  obtain ⟨b1, b2, b3, b4, b5, b6, b7, b8, b9⟩ := mkLevel_ok hl
  unfold FreshEncOKBgv
  rw [b8, b9]

/-! ## V1: BFV -/

/-- V1, END TO END, BFV, ALL MODES (public key at the head of the chain, public key through the special prime / at every lower level,
    secret key, seed-compressed): on the driver's objects, the constants `bfvConsts` exist, `bfvEncrypt` succeeds and the model's
    decryption of the model's encryption is the plaintext (padded to N, trimmed) — for every plaintext of length ≤ N with coefficients
    < t, under the decidable margin `FreshEncOK l B` for the mode's bound B -/
theorem drv_bfv_encrypt_decrypt {n t : Nat} {kqs : List Nat} {kl : Level} {sk : Array Int} {pk0 pk1 : RnsPoly}
    {lqs : List Nat} {l : Level} {mode : EncMode} {B : Nat}
    (hc : DrvCtx .bfv n t kqs kl sk pk0 pk1) (hl : Drv.Sch.mkLevel .bfv n lqs t = .ok l) (ht : t ≠ 0)
    (hm : DrvMode .bfv n t kqs sk pk0 pk1 lqs l mode B)
    {plain : Poly} (hp : plain.size ≤ n) (hpm : ∀ i, i < plain.size → plain.getD i 0 < t) (hok : FreshEncOK l B) :
    ∃ cdp ct, Drv.C01E.bfvConsts l lqs t = .ok cdp ∧
      bfvEncrypt l cdp (Spec.prodL lqs % t) ((t + 1) / 2) mode plain = .ok ct ∧
      bfvDecrypt l sk ct = .ok (trimPlain (padPlain n plain)) := by
  obtain ⟨b1, b2, b3, b4, b5, b6, b7, b8, b9⟩ := mkLevel_ok hl
  obtain ⟨_, _, _, _, _, _, ht1, _⟩ := mkLevel_ok_inputs hl
  obtain ⟨cdp, hcdp, hsc⟩ := bfvConsts_scalingOK hl (show 2 ≤ t by omega)
  obtain ⟨ν, hf, hν⟩ := drvMode_fresh hc hl hm
  obtain ⟨ct, h1, h2⟩ := bfv_encrypt_decrypt_of_fresh b1 (b4 ht).1 b5 hsc (by rw [b6]; exact hc.skSize) hf hν
    (by rw [b6]; exact hp) (by rw [b9]; exact hpm) hok
  rw [b8, b9] at h1
  rw [b6] at h2
  exact ⟨cdp, ct, hcdp, h1, h2⟩

/-- V1 with the margin on the inputs: 4·t·(B+1) ≤ Q -/
theorem drv_bfv_encrypt_decrypt_inputs {n t : Nat} {kqs : List Nat} {kl : Level} {sk : Array Int} {pk0 pk1 : RnsPoly}
    {lqs : List Nat} {l : Level} {mode : EncMode} {B : Nat}
    (hc : DrvCtx .bfv n t kqs kl sk pk0 pk1) (hl : Drv.Sch.mkLevel .bfv n lqs t = .ok l) (ht : t ≠ 0)
    (hm : DrvMode .bfv n t kqs sk pk0 pk1 lqs l mode B)
    {plain : Poly} (hp : plain.size ≤ n) (hpm : ∀ i, i < plain.size → plain.getD i 0 < t)
    (hok : 4 * (t * (B + 1)) ≤ Spec.prodL lqs) :
    ∃ cdp ct, Drv.C01E.bfvConsts l lqs t = .ok cdp ∧
      bfvEncrypt l cdp (Spec.prodL lqs % t) ((t + 1) / 2) mode plain = .ok ct ∧
      bfvDecrypt l sk ct = .ok (trimPlain (padPlain n plain)) :=
  drv_bfv_encrypt_decrypt hc hl ht hm hp hpm (mkLevel_freshEncOK hl ht hok)

/-- V1 with the SHARP margin on the inputs: 2·t·(B+1) ≤ Q·(1 − 2^-53) -/
theorem drv_bfv_encrypt_decrypt_inputs_sharp {n t : Nat} {kqs : List Nat} {kl : Level} {sk : Array Int} {pk0 pk1 : RnsPoly}
    {lqs : List Nat} {l : Level} {mode : EncMode} {B : Nat}
    (hc : DrvCtx .bfv n t kqs kl sk pk0 pk1) (hl : Drv.Sch.mkLevel .bfv n lqs t = .ok l) (ht : t ≠ 0)
    (hm : DrvMode .bfv n t kqs sk pk0 pk1 lqs l mode B)
    {plain : Poly} (hp : plain.size ≤ n) (hpm : ∀ i, i < plain.size → plain.getD i 0 < t)
    (hok : 2^54 * (t * (B + 1)) ≤ (2^53 - 1) * Spec.prodL lqs) :
    ∃ cdp ct, Drv.C01E.bfvConsts l lqs t = .ok cdp ∧
      bfvEncrypt l cdp (Spec.prodL lqs % t) ((t + 1) / 2) mode plain = .ok ct ∧
      bfvDecrypt l sk ct = .ok (trimPlain (padPlain n plain)) :=
  drv_bfv_encrypt_decrypt hc hl ht hm hp hpm (mkLevel_freshEncOK_sharp hl ht hok)

/-! ## V2: BGV -/

/-- V2, END TO END, BGV, ALL MODES: on the driver's objects with the lift constants `bgvIncr` the driver computes (fast path iff every
    q_i > t; otherwise the multi-word increment Q − t — plain moduli larger than a coefficient prime), `bgvEncrypt` succeeds, the fresh
    correction factor is 1 and the model's decryption returns the plaintext, under the margin 2·t·(B+1) < Q on the inputs -/
theorem drv_bgv_encrypt_decrypt {n t : Nat} {kqs : List Nat} {kl : Level} {sk : Array Int} {pk0 pk1 : RnsPoly}
    {lqs : List Nat} {l : Level} {mode : EncMode} {B : Nat}
    (hc : DrvCtx .bgv n t kqs kl sk pk0 pk1) (hl : Drv.Sch.mkLevel .bgv n lqs t = .ok l)
    (hm : DrvMode .bgv n t kqs sk pk0 pk1 lqs l mode B)
    {plain : Poly} (hp : plain.size ≤ n) (hpm : ∀ i, i < plain.size → plain.getD i 0 < t)
    (hok : 2 * (t * (B + 1)) < Spec.prodL lqs) :
    ∃ ct, bgvEncrypt l (Drv.C01E.bgvIncr lqs t).1 ((t + 1) / 2) (Drv.C01E.bgvIncr lqs t).2 mode plain = .ok ct ∧ ct.cf = 1 ∧
      bgvDecrypt l sk ct = .ok (trimPlain (padPlain n plain)) := by
  obtain ⟨b1, b2, b3, b4, b5, b6, b7, b8, b9⟩ := mkLevel_ok hl
  have ht : t ≠ 0 := hc.bgvT rfl
  have htQ : t < Spec.prodL lqs := by
    have : t * 1 ≤ t * (B + 1) := Nat.mul_le_mul_left _ (by omega)
    omega
  obtain ⟨ν, hf, hν⟩ := drvMode_fresh hc hl hm
  obtain ⟨ct, h1, h2, h3⟩ := bgv_encrypt_decrypt_of_fresh b1 (b4 ht).1 b5 (bgvIncr_liftOK hl htQ) (by rw [b6]; exact hc.skSize) hf hν
    (by rw [b6]; exact hp) (by rw [b9]; exact hpm) ((mkLevel_freshEncOKBgv hl).mpr hok)
  rw [b6] at h3
  exact ⟨ct, h1, h2, h3⟩

/-! ## V3: CKKS over the integers -/

/-- CKKS on ANY fresh zero, OVER THE INTEGERS: if the (canonical, NTT-form) RNS plaintext encodes the integer polynomial M (its
    coefficient form is M modulo every q_i) and 2(|M_c| + B) < Q, then encryption and decryption succeed, the exact phase of the
    ciphertext — the centred lift of the decryption — is EXACTLY M + ν coefficient-wise, and the decrypted RNS plaintext is the RNS
    form of M + ν (equality of residues, not only congruence) -/
theorem ckks_encrypt_decrypt_int_of_fresh {l : Level} (hl : l.WF) (hq : c07s_LevelQ l) (hc : l.scheme = .ckks)
    {sk : Array Int} (hsk : sk.size = l.n) {mode : EncMode} {ν : Nat → Int}
    (hf : FreshZero l sk (encryptZeroInternal l mode) ν) {B : Nat} (hν : ∀ c, c < l.n → (ν c).natAbs ≤ B)
    {plain : RnsPoly} (hpl : RnsCanon l plain) {M : Nat → Int}
    (hM : ∀ i, i < l.size → ∀ c, c < l.n → (((intt (l.tbl i) (plain.getD i #[])).getD c 0 : Nat) : Int) ≡ M c [ZMOD ((l.q i).value : Int)])
    (hsmall : ∀ c, c < l.n → 2 * ((M c).natAbs + B) < Spec.prodL (c01p_qvals l)) :
    ∃ ct dec, ckksEncrypt l mode plain = .ok ct ∧ ckksDecrypt l sk ct = .ok dec ∧ RnsCanon l dec ∧
      (∀ c, c < l.n → (Spec.phase (c01p_qvals l) l.n sk (ct.polys.toList.map (rnsIntt l))).getD c 0 = M c + ν c) ∧
      ∀ i, i < l.size → ∀ c, c < l.n → (intt (l.tbl i) (dec.getD i #[])).getD c 0 = Spec.imod (M c + ν c) (l.q i).value := by
  have hn : l.scheme.encNtt = true := by rw [hc]; rfl
  have htt : encTT l = 1 := c01f_encTT_other (by rw [hc]; decide)
  obtain ⟨c0, c1, hz, hC0, hC1, hph⟩ := hf
  rw [hn] at hz hph
  obtain ⟨c0', hadd, hC0', hav⟩ := c02v_rnsAdd_spec (c02v_qsWF_of_levelWF hl) hC0 hpl
  have hI := c01i_intt_add_comp hl hC0 hpl hC0' hav
  have hph' : ∀ c, c < l.n → (Spec.phase (c01p_qvals l) l.n sk [rnsIntt l c0', rnsIntt l c1]).getD c 0 ≡ M c + ν c
      [ZMOD (Spec.prodL (c01p_qvals l) : Int)] := by
    intro c hc
    have h1 := c01g_phase_add_c0 hq (sk := sk) (C0 := rnsIntt l c0) (C0' := rnsIntt l c0') (C1 := rnsIntt l c1)
      (M := M) (c01p_rnsIntt_size l _) (c01p_rnsIntt_size l _) (c01p_rnsIntt_size l _)
      (fun i hi c hc => by
        rw [c01o_rnsIntt_getD l _ hi, c01o_rnsIntt_getD l _ hi, hI i hi c hc]
        refine (cast_mod_modEq _ _).trans ?_
        push_cast
        exact Int.ModEq.add (Int.ModEq.refl _) (hM i hi c hc)) c hc
    have h2 := hph c hc
    unfold encPhase cview at h2
    simp only [↓reduceIte, htt, Nat.cast_one, one_mul] at h2
    refine h1.trans ?_
    rw [add_comm]
    exact Int.ModEq.add (Int.ModEq.refl _) h2
  have hval : ∀ c, c < l.n → (Spec.phase (c01p_qvals l) l.n sk [rnsIntt l c0', rnsIntt l c1]).getD c 0 = M c + ν c := by
    intro c hc
    have hs : 2 * (M c + ν c).natAbs < Spec.prodL (c01p_qvals l) := by
      have a1 := Int.natAbs_add_le (M c) (ν c)
      have a2 := hν c hc
      have a3 := hsmall c hc
      omega
    have h := hph' c hc
    rw [c01p_phase2_getD _ _ _ _ _ hc] at h ⊢
    exact c01i_centred_unique hs h
  obtain ⟨dec, hdec, hdC, hdv, -⟩ := ckksDecrypt_intt_eq_phase hl hq hsk (polys := #[c0', c1]) (by simp)
    (fun k hk => by
      have hk' : k < 2 := hk
      interval_cases k
      · exact hC0'
      · exact hC1) 1
  have e : (#[c0', c1] : Array RnsPoly).toList.map (rnsIntt l) = [rnsIntt l c0', rnsIntt l c1] := rfl
  refine ⟨⟨#[c0', c1], true, 1⟩, dec, ?_, hdec, hdC, fun c hc => ?_, fun i hi c hc => ?_⟩
  · unfold ckksEncrypt
    rw [hz, ok_bind]
    show (do let c0 ← rnsAdd l c0 plain
             pure (⟨(#[c0, c1] : Array RnsPoly).setIfInBounds 0 c0, true, 1⟩ : Ct)) = _
    rw [hadd]; rfl
  · show (Spec.phase (c01p_qvals l) l.n sk ((#[c0', c1] : Array RnsPoly).toList.map (rnsIntt l))).getD c 0 = _
    rw [e]; exact hval c hc
  · rw [hdv i hi c hc, e, hval c hc]

/-- the NTT-form RNS plaintext of an integer polynomial (what the CKKS encoder hands to `encrypt` after its `f64` computation:
    integer coefficients, decomposed modulo every q_i, transformed) -/
def ckksPlainOfInt (l : Level) (M : Array Int) : RnsPoly := rnsNtt l (rnsOfInt l M)

/-- … is canonical and its coefficient form is M modulo every q_i -/
theorem ckksPlainOfInt_spec {l : Level} (hl : l.WF) {M : Array Int} (hM : M.size = l.n) :
    RnsCanon l (ckksPlainOfInt l M) ∧ ∀ i, i < l.size → ∀ c, c < l.n →
      (((intt (l.tbl i) ((ckksPlainOfInt l M).getD i #[])).getD c 0 : Nat) : Int) ≡ M.getD c 0 [ZMOD ((l.q i).value : Int)] := by
  have hC := c01e_rnsOfInt_canon hl hM
  refine ⟨c01e_rnsNtt_canon hl hC.pre, fun i hi c hc => ?_⟩
  obtain ⟨htw, htm, htn, hqw⟩ := c01o_level_comp hl hi
  unfold ckksPlainOfInt
  rw [c01o_rnsNtt_getD l _ hi, intt_ntt htw _ (by rw [(hC.2 i hi).1, htn]) (fun j hj => by rw [htm]; exact (hC.2 i hi).2 j (by omega))]
  exact c01e_rnsOfInt_modEq M hi (by have := hqw.two_le; omega) c

/-- V3, END TO END, CKKS, ALL MODES, OVER THE INTEGERS: on the driver's objects, for the plaintext of an integer polynomial M with
    2(|M_c| + B) < Q: encryption and decryption succeed; the centred lift of the decryption (`Spec.phase`, what the driver's oracle and
    `ckksDecrypt_intt_eq_phase` evaluate) is M + ν coefficient-wise over ℤ with ‖ν‖∞ ≤ B, and the decrypted RNS plaintext is the RNS
    form of M + ν -/
theorem drv_ckks_encrypt_decrypt {n t : Nat} {kqs : List Nat} {kl : Level} {sk : Array Int} {pk0 pk1 : RnsPoly}
    {lqs : List Nat} {l : Level} {mode : EncMode} {B : Nat}
    (hc : DrvCtx .ckks n t kqs kl sk pk0 pk1) (hl : Drv.Sch.mkLevel .ckks n lqs t = .ok l)
    (hm : DrvMode .ckks n t kqs sk pk0 pk1 lqs l mode B)
    {M : Array Int} (hMs : M.size = n) (hsmall : ∀ c, c < n → 2 * ((M.getD c 0).natAbs + B) < Spec.prodL lqs) :
    ∃ (ν : Nat → Int) (ct : Ct) (dec : RnsPoly), (∀ c, c < n → (ν c).natAbs ≤ B) ∧
      ckksEncrypt l mode (ckksPlainOfInt l M) = .ok ct ∧ ckksDecrypt l sk ct = .ok dec ∧ RnsCanon l dec ∧
      (∀ c, c < n → (Drv.Sch.exactPhase l lqs sk ct).getD c 0 = M.getD c 0 + ν c) ∧
      ∀ i, i < l.size → ∀ c, c < n → (intt (l.tbl i) (dec.getD i #[])).getD c 0 = Spec.imod (M.getD c 0 + ν c) (l.q i).value := by
  obtain ⟨b1, b2, b3, b4, b5, b6, b7, b8, b9⟩ := mkLevel_ok hl
  obtain ⟨ν, hf, hν⟩ := drvMode_fresh hc hl hm
  obtain ⟨hpC, hpM⟩ := ckksPlainOfInt_spec b1 (M := M) (by rw [b6]; exact hMs)
  obtain ⟨ct, dec, h1, h2, h3, h4, h5⟩ := ckks_encrypt_decrypt_int_of_fresh b1 b2 b5 (by rw [b6]; exact hc.skSize) hf hν hpC
    (M := fun c => M.getD c 0) hpM (by rw [b6, b8]; exact hsmall)
  have hntt : ct.ntt = true := by
    unfold ckksEncrypt at h1
    obtain ⟨z, hz, h1'⟩ := c01p_bind_ok h1
    obtain ⟨c0', _, h1''⟩ := c01p_bind_ok h1'
    injection h1'' with h1''
    obtain ⟨c0, c1, hz', _⟩ := hf
    rw [hz] at hz'
    injection hz' with hz'
    rw [← h1'', hz', b5]; rfl
  rw [b6] at hν h4 h5
  refine ⟨ν, ct, dec, hν, h1, h2, h3, fun c hc => ?_, h5⟩
  have := h4 c hc
  rw [b8] at this
  unfold Drv.Sch.exactPhase Drv.Sch.coeffPolys
  rw [hntt, b6]
  simpa using this

/-! ## V4: encryptions of zero (`encrypt_zero_at`, every level, every mode) -/

theorem c01v_deltaM_zero (q : Nat) {t : Nat} (ht : 2 ≤ t) : deltaM q t 0 = 0 := by
  rw [deltaM_eq q t 0 (by omega)]
  simp only [Nat.mul_zero, Nat.zero_add]
  exact Nat.div_eq_of_lt (by omega)

/-- V4, BFV: on ANY fresh encryption of zero within the margin the model's decryption returns the zero plaintext -/
theorem bfv_decrypt_fresh_zero {l : Level} (hl : l.WF) (hd : DecOK l) (hb : l.scheme = .bfv) {sk : Array Int} (hsk : sk.size = l.n)
    {r : R Ct} {ν : Nat → Int} (hf : FreshZero l sk r ν) {B : Nat} (hν : ∀ c, c < l.n → (ν c).natAbs ≤ B) (hok : FreshEncOK l B) :
    ∃ z, r = .ok z ∧ bfvDecrypt l sk z = .ok (trimPlain (padPlain l.n #[])) := by
  have hn : l.scheme.encNtt = false := by rw [hb]; rfl
  have htt : encTT l = 1 := c01f_encTT_other (by rw [hb]; decide)
  have ht2 : 2 ≤ l.t.value := by have := hd.tool.twf.two_le; rw [hd.t_eq] at this; exact this
  obtain ⟨c0, c1, hz, hC0, hC1, hph⟩ := hf
  rw [hn] at hz hph
  refine ⟨_, hz, ?_⟩
  apply c01e_decrypt_of_phase hl hd hsk hC0 hC1 (plain := #[]) (fun i hi => absurd hi (by simp)) (v := ν) hν hok
  intro c hc
  have h2 := hph c hc
  unfold encPhase cview at h2
  simp only [Bool.false_eq_true, ↓reduceIte, htt, Nat.cast_one, one_mul] at h2
  have e : (#[] : Poly).getD c 0 = 0 := by simp
  rw [e, c01v_deltaM_zero _ ht2]
  simpa using h2

/-- V4, BGV: on ANY fresh encryption of zero within the margin the model's decryption returns the zero plaintext -/
theorem bgv_decrypt_fresh_zero {l : Level} (hl : l.WF) (hd : DecOK l) (hb : l.scheme = .bgv) {sk : Array Int} (hsk : sk.size = l.n)
    {r : R Ct} {ν : Nat → Int} (hf : FreshZero l sk r ν) {B : Nat} (hν : ∀ c, c < l.n → (ν c).natAbs ≤ B) (hok : FreshEncOKBgv l B) :
    ∃ z, r = .ok z ∧ z.cf = 1 ∧ bgvDecrypt l sk z = .ok (trimPlain (padPlain l.n #[])) := by
  have hn : l.scheme.encNtt = true := by rw [hb]; rfl
  have htt : encTT l = l.t.value := c01f_encTT_bgv hb
  have ht2 : 2 ≤ l.t.value := by have := hd.tool.twf.two_le; rw [hd.t_eq] at this; exact this
  obtain ⟨c0, c1, hz, hC0, hC1, hph⟩ := hf
  rw [hn] at hz hph
  refine ⟨_, hz, rfl, ?_⟩
  apply c01i_bgv_decrypt_of_phase hl hd hsk hC0 hC1 (plain := #[]) (fun i hi => absurd hi (by simp)) (v := ν) hν hok
  intro c hc
  have h2 := hph c hc
  unfold encPhase cview at h2
  simp only [↓reduceIte, htt] at h2
  have e : (#[] : Poly).getD c 0 = 0 := by simp
  rw [e, c01i_lift_zero (by omega)]
  simpa using h2

theorem c01v_sig_replicate (k : Nat) : sigWords (List.replicate k 0) = 0 := by
  unfold sigWords
  rw [List.reverse_replicate]
  induction k with
  | zero => rfl
  | succ k ih => rw [List.replicate_succ, List.dropWhile_cons_of_pos (by simp)]; exact ih

/-- the zero plaintext as the decryptor returns it: one zero coefficient -/
theorem trimPlain_padPlain_empty {n : Nat} (hn : 0 < n) : trimPlain (padPlain n #[]) = #[0] := by
  have hz : padPlain n #[] = Array.replicate n 0 := by
    apply array_ext_getD (n := n) (by simp [padPlain]) (by simp)
    intro c hc
    simp [padPlain, Array.getD, hc]
  rw [hz]
  unfold trimPlain
  simp only [Array.toList_replicate, c01v_sig_replicate, Nat.max_eq_right (Nat.zero_le 1)]
  apply array_ext_getD (n := 1) (by simp; omega) (by simp)
  intro c hc
  have : c = 0 := by omega
  subst this
  simp [Array.getD, hn]

/-- V4, END TO END, `encrypt_zero_at`, BFV: every admissible encryption of zero on the driver's objects decrypts to the zero plaintext -/
theorem drv_bfv_encrypt_zero_decrypt {n t : Nat} {kqs : List Nat} {kl : Level} {sk : Array Int} {pk0 pk1 : RnsPoly}
    {lqs : List Nat} {l : Level} {mode : EncMode} {B : Nat}
    (hc : DrvCtx .bfv n t kqs kl sk pk0 pk1) (hl : Drv.Sch.mkLevel .bfv n lqs t = .ok l) (ht : t ≠ 0)
    (hm : DrvMode .bfv n t kqs sk pk0 pk1 lqs l mode B) (hok : FreshEncOK l B) :
    ∃ z, encryptZeroInternal l mode = .ok z ∧ bfvDecrypt l sk z = .ok #[0] := by
  obtain ⟨b1, b2, b3, b4, b5, b6, b7, b8, b9⟩ := mkLevel_ok hl
  obtain ⟨ν, hf, hν⟩ := drvMode_fresh hc hl hm
  obtain ⟨z, h1, h2⟩ := bfv_decrypt_fresh_zero b1 (b4 ht).1 b5 (by rw [b6]; exact hc.skSize) hf hν hok
  rw [trimPlain_padPlain_empty (c01q_n_pos b1)] at h2
  exact ⟨z, h1, h2⟩

/-- V4, END TO END, `encrypt_zero_at`, BGV (correction factor 1) -/
theorem drv_bgv_encrypt_zero_decrypt {n t : Nat} {kqs : List Nat} {kl : Level} {sk : Array Int} {pk0 pk1 : RnsPoly}
    {lqs : List Nat} {l : Level} {mode : EncMode} {B : Nat}
    (hc : DrvCtx .bgv n t kqs kl sk pk0 pk1) (hl : Drv.Sch.mkLevel .bgv n lqs t = .ok l)
    (hm : DrvMode .bgv n t kqs sk pk0 pk1 lqs l mode B) (hok : 2 * (t * (B + 1)) < Spec.prodL lqs) :
    ∃ z, encryptZeroInternal l mode = .ok z ∧ z.cf = 1 ∧ bgvDecrypt l sk z = .ok #[0] := by
  obtain ⟨b1, b2, b3, b4, b5, b6, b7, b8, b9⟩ := mkLevel_ok hl
  obtain ⟨ν, hf, hν⟩ := drvMode_fresh hc hl hm
  obtain ⟨z, h1, h2, h3⟩ := bgv_decrypt_fresh_zero b1 (b4 (hc.bgvT rfl)).1 b5 (by rw [b6]; exact hc.skSize) hf hν
    ((mkLevel_freshEncOKBgv hl).mpr hok)
  rw [trimPlain_padPlain_empty (c01q_n_pos b1)] at h3
  exact ⟨z, h1, h2, h3⟩

/-- V4, END TO END, `encrypt_zero_at`, CKKS: the centred lift of the decryption of an encryption of zero IS the noise ν (‖ν‖∞ ≤ B)
    whenever 2B < Q -/
theorem drv_ckks_encrypt_zero_decrypt {n t : Nat} {kqs : List Nat} {kl : Level} {sk : Array Int} {pk0 pk1 : RnsPoly}
    {lqs : List Nat} {l : Level} {mode : EncMode} {B : Nat}
    (hc : DrvCtx .ckks n t kqs kl sk pk0 pk1) (hl : Drv.Sch.mkLevel .ckks n lqs t = .ok l)
    (hm : DrvMode .ckks n t kqs sk pk0 pk1 lqs l mode B) (hok : 2 * B < Spec.prodL lqs) :
    ∃ (ν : Nat → Int) (z : Ct) (dec : RnsPoly), (∀ c, c < n → (ν c).natAbs ≤ B) ∧
      encryptZeroInternal l mode = .ok z ∧ ckksDecrypt l sk z = .ok dec ∧ RnsCanon l dec ∧
      (∀ c, c < n → (Drv.Sch.exactPhase l lqs sk z).getD c 0 = ν c) ∧
      ∀ i, i < l.size → ∀ c, c < n → (intt (l.tbl i) (dec.getD i #[])).getD c 0 = Spec.imod (ν c) (l.q i).value := by
  obtain ⟨b1, b2, b3, b4, b5, b6, b7, b8, b9⟩ := mkLevel_ok hl
  obtain ⟨ν, hf, hν⟩ := drvMode_fresh hc hl hm
  have hn : l.scheme.encNtt = true := by rw [b5]; rfl
  have htt : encTT l = 1 := c01f_encTT_other (by rw [b5]; decide)
  obtain ⟨c0, c1, hz, hC0, hC1, hph⟩ := hf
  rw [hn] at hz hph
  obtain ⟨dec, hdec, hdC, hdv, -⟩ := ckksDecrypt_intt_eq_phase b1 b2 (by rw [b6]; exact hc.skSize) (polys := #[c0, c1]) (by simp)
    (fun k hk => by
      have hk' : k < 2 := hk
      interval_cases k
      · exact hC0
      · exact hC1) 1
  have e : (#[c0, c1] : Array RnsPoly).toList.map (rnsIntt l) = [rnsIntt l c0, rnsIntt l c1] := rfl
  have hval : ∀ c, c < l.n → (Spec.phase (c01p_qvals l) l.n sk [rnsIntt l c0, rnsIntt l c1]).getD c 0 = ν c := by
    intro c hc
    have h2 := hph c hc
    unfold encPhase cview at h2
    simp only [↓reduceIte, htt, Nat.cast_one, one_mul] at h2
    have hs : 2 * (ν c).natAbs < Spec.prodL (c01p_qvals l) := by
      have := hν c hc
      rw [b8]; omega
    rw [c01p_phase2_getD _ _ _ _ _ hc] at h2 ⊢
    exact c01i_centred_unique hs h2
  rw [b6] at hν hval hdv
  refine ⟨ν, _, dec, hν, hz, hdec, hdC, fun c hc => ?_, fun i hi c hc => ?_⟩
  · have := hval c hc
    rw [b8] at this
    unfold Drv.Sch.exactPhase Drv.Sch.coeffPolys
    rw [b6]
    simpa using this
  · rw [hdv i hi c hc, e, hval c hc]

end HC
