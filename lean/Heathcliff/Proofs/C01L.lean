/- C01 part L: the END-TO-END statements per scheme and encryption mode, composed from the dispatch branches (C01G, C01H) and the
   plaintext layers (C01I).  `…_pk` = public key at a level without a previous level, `…_pk_sp` = public key through the previous
   level (special-prime path / lower levels), `…_sk` = secret key and seed-compressed. -/
import Heathcliff.Proofs.C01I
namespace HC
open Finset Polynomial

/-- the bundle of facts about two consecutive levels `pl` (previous; where the encryption of zero is made) and `l` that the
    special-prime path needs; every part is derived from the constructors for the levels the driver builds (`mkLevel_ok`) -/
structure PrevLevelOK (pl l : Level) : Prop where
  plWF : pl.WF
  plQ : c07s_LevelQ pl
  plTool : c05u_ToolOK pl
  plSize : 2 ≤ pl.size
  plBgv : pl.scheme = .bgv → c05u_BgvOK pl
  plT : pl.t.value < 2^64
  lQ : c07s_LevelQ l
  lTool : c05u_ToolOK l
  next : c05u_IsNext pl l
  tbl : ∀ i, i < l.size → l.tbl i = pl.tbl i
  scheme : l.scheme = pl.scheme
  t : l.t = pl.t

/-- the level is a prefix of its previous level: `PkRel` of the previous level carries over (`PkRel.lower`) -/
theorem PrevLevelOK.levelPrefix {pl l : Level} (h : PrevLevelOK pl l) : LevelPrefix l pl :=
  ⟨by have := h.next.size; omega, h.next.n, h.next.q, h.tbl⟩

/-- public key through the previous level, with the standard bounds (ternary s and u, errors ≤ 21, public-key error ≤ 21): a fresh
    encryption of zero at `l` whose noise is at most `spBound q_L (21(2N+1)) slack N` = ⌊(2·21(2N+1) + slack·q_L(1+N)) / (2 q_L)⌋ -/
theorem encryptZeroInternal_fresh_pk_prev_bounded {pl l : Level} (h : PrevLevelOK pl l)
    {sk : Array Int} (hs1 : ∀ p, p < l.n → (sk.getD p 0).natAbs ≤ 1)
    {pk0 pk1 : RnsPoly} {epk : Nat → Int} (hpk : PkRel pl sk (fun c => (encTT pl : Int) * epk c) pk0 pk1)
    (hE : ∀ p, p < l.n → (epk p).natAbs ≤ 21)
    {u e0 e1 : Array Int} (hus : u.size = pl.n) (he0s : e0.size = pl.n) (he1s : e1.size = pl.n)
    (hu1 : ∀ p, p < l.n → (u.getD p 0).natAbs ≤ 1) (he0 : ∀ p, p < l.n → (e0.getD p 0).natAbs ≤ 21)
    (he1 : ∀ p, p < l.n → (e1.getD p 0).natAbs ≤ 21) :
    ∃ ν' : Nat → Int,
      FreshZero l sk (encryptZeroInternal l (.asym (some pl) #[pk0, pk1] (rnsOfInt pl u) #[rnsOfInt pl e0, rnsOfInt pl e1])) ν' ∧
      ∀ c, c < l.n → (ν' c).natAbs ≤ spBound (pl.q (pl.size - 1)).value (21 * (2 * l.n + 1)) (encSlack pl) l.n := by
  obtain ⟨ν', ρ, hf, hb⟩ := encryptZeroInternal_fresh_pk_prev h.plWF h.plQ h.plTool h.plSize h.plBgv h.plT h.lQ h.lTool h.next h.tbl
    h.scheme h.t hpk hus he0s he1s
  have hn := h.next.n
  have hqL : 0 < (pl.q (pl.size - 1)).value := by
    have := (c05u_qwf h.plTool (show pl.size - 1 < pl.size by have := h.plSize; omega)).two_le; omega
  refine ⟨ν', hf, fun c hc => ?_⟩
  obtain ⟨b1, b2⟩ := hb c hc
  have hnb := pkNoise_bound l.n epk (fun p => u.getD p 0) (fun p => e0.getD p 0) (fun p => e1.getD p 0) (fun p => sk.getD p 0)
    hE he0 he1 hu1 hs1 c hc
  rw [← hn] at b1
  exact spBound_le hqL (skNorm1_le l.n sk hs1) b1 hnb b2

/-! ## BFV -/

/-- END TO END, BFV, PUBLIC KEY THROUGH THE SPECIAL PRIME (the default parameters; also every lower level): the model's decryption of
    the model's encryption is the plaintext, under the decidable margin `FreshEncOK l B'` with the explicit rounding term in
    B' = ⌊(2·21(2N+1) + q_L(1+N)) / (2 q_L)⌋ -/
theorem bfv_encrypt_decrypt_pk_sp {pl l : Level} (h : PrevLevelOK pl l) (hl : l.WF) (hd : DecOK l) (hb : l.scheme = .bfv)
    {cdp : Array MulOperand} (hsc : ScalingOK l (Spec.prodL (c01p_qvals l)) cdp)
    {sk : Array Int} (hsk : sk.size = l.n) (hs1 : ∀ p, p < l.n → (sk.getD p 0).natAbs ≤ 1)
    {pk0 pk1 : RnsPoly} {epk : Nat → Int} (hpk : PkRel pl sk (fun c => (encTT pl : Int) * epk c) pk0 pk1)
    (hE : ∀ p, p < l.n → (epk p).natAbs ≤ 21)
    {u e0 e1 : Array Int} (hus : u.size = pl.n) (he0s : e0.size = pl.n) (he1s : e1.size = pl.n)
    (hu1 : ∀ p, p < l.n → (u.getD p 0).natAbs ≤ 1) (he0 : ∀ p, p < l.n → (e0.getD p 0).natAbs ≤ 21)
    (he1 : ∀ p, p < l.n → (e1.getD p 0).natAbs ≤ 21)
    {plain : Poly} (hp : plain.size ≤ l.n) (hm : ∀ i, i < plain.size → plain.getD i 0 < l.t.value)
    (hok : FreshEncOK l (spBound (pl.q (pl.size - 1)).value (21 * (2 * l.n + 1)) 1 l.n)) :
    ∃ ct, bfvEncrypt l cdp (Spec.prodL (c01p_qvals l) % l.t.value) ((l.t.value + 1) / 2)
        (.asym (some pl) #[pk0, pk1] (rnsOfInt pl u) #[rnsOfInt pl e0, rnsOfInt pl e1]) plain = .ok ct ∧
      bfvDecrypt l sk ct = .ok (trimPlain (padPlain l.n plain)) := by
  obtain ⟨ν', hf, hb'⟩ := encryptZeroInternal_fresh_pk_prev_bounded h hs1 hpk hE hus he0s he1s hu1 he0 he1
  have hs : encSlack pl = 1 := by unfold encSlack; rw [if_neg (by rw [← h.scheme, hb]; decide)]
  rw [hs] at hb'
  exact bfv_encrypt_decrypt_of_fresh hl hd hb hsc hsk hf hb' hp hm hok

/-! ## BGV -/

/-- END TO END, BGV, PUBLIC KEY (level without a previous level) -/
theorem bgv_encrypt_decrypt_pk {l : Level} (hl : l.WF) (hd : DecOK l) (hb : l.scheme = .bgv) {fast : Bool} {thr : Nat}
    {incr : Array Nat} (hlift : BgvLiftOK l fast thr incr)
    {sk : Array Int} (hsk : sk.size = l.n) (hs1 : ∀ p, p < l.n → (sk.getD p 0).natAbs ≤ 1)
    {pk0 pk1 : RnsPoly} {epk : Nat → Int} (hpk : PkRel l sk (fun c => (encTT l : Int) * epk c) pk0 pk1)
    (hE : ∀ p, p < l.n → (epk p).natAbs ≤ 21)
    {u e0 e1 : Array Int} (hus : u.size = l.n) (he0s : e0.size = l.n) (he1s : e1.size = l.n)
    (hu1 : ∀ p, p < l.n → (u.getD p 0).natAbs ≤ 1) (he0 : ∀ p, p < l.n → (e0.getD p 0).natAbs ≤ 21)
    (he1 : ∀ p, p < l.n → (e1.getD p 0).natAbs ≤ 21)
    {plain : Poly} (hp : plain.size ≤ l.n) (hm : ∀ i, i < plain.size → plain.getD i 0 < l.t.value)
    (hok : FreshEncOKBgv l (21 * (2 * l.n + 1))) :
    ∃ ct, bgvEncrypt l fast thr incr (.asym none #[pk0, pk1] (rnsOfInt l u) #[rnsOfInt l e0, rnsOfInt l e1]) plain = .ok ct ∧
      ct.cf = 1 ∧ bgvDecrypt l sk ct = .ok (trimPlain (padPlain l.n plain)) := by
  have ht : l.t.value < 2^64 := by have := hd.tool.twf.lt; rw [hd.t_eq] at this; omega
  exact bgv_encrypt_decrypt_of_fresh hl hd hb hlift hsk
    (encryptZeroInternal_fresh_pk hl (c04r_levelQ_of_decOK hd) ht hpk hus he0s he1s)
    (pkNoise_bound l.n epk _ _ _ _ hE he0 he1 hu1 hs1) hp hm hok

/-- END TO END, BGV, SECRET KEY and SEED-COMPRESSED (any level) -/
theorem bgv_encrypt_decrypt_sk {l : Level} (hl : l.WF) (hd : DecOK l) (hb : l.scheme = .bgv) {fast : Bool} {thr : Nat}
    {incr : Array Nat} (hlift : BgvLiftOK l fast thr incr)
    {sk : Array Int} (hsk : sk.size = l.n) {a : RnsPoly} (ha : RnsCanon l a)
    {e : Array Int} (hes : e.size = l.n) {B : Nat} (he : ∀ p, p < l.n → (e.getD p 0).natAbs ≤ B) (saveSeed : Bool)
    {plain : Poly} (hp : plain.size ≤ l.n) (hm : ∀ i, i < plain.size → plain.getD i 0 < l.t.value)
    (hok : FreshEncOKBgv l B) :
    ∃ ct, bgvEncrypt l fast thr incr (.sym sk a (rnsOfInt l e) saveSeed) plain = .ok ct ∧
      ct.cf = 1 ∧ bgvDecrypt l sk ct = .ok (trimPlain (padPlain l.n plain)) := by
  have ht : l.t.value < 2^64 := by have := hd.tool.twf.lt; rw [hd.t_eq] at this; omega
  exact bgv_encrypt_decrypt_of_fresh hl hd hb hlift hsk
    (encryptZeroInternal_fresh_sk hl (c04r_levelQ_of_decOK hd) ht hsk ha hes saveSeed)
    (fun c hc => by rw [Int.natAbs_neg]; exact he c hc) hp hm hok

/-- END TO END, BGV, PUBLIC KEY THROUGH THE SPECIAL PRIME (and every lower level): margin with the rounding term of the t-compatible
    division, B' = ⌊(2·21(2N+1) + 2 q_L(1+N)) / (2 q_L)⌋ -/
theorem bgv_encrypt_decrypt_pk_sp {pl l : Level} (h : PrevLevelOK pl l) (hl : l.WF) (hd : DecOK l) (hb : l.scheme = .bgv)
    {fast : Bool} {thr : Nat} {incr : Array Nat} (hlift : BgvLiftOK l fast thr incr)
    {sk : Array Int} (hsk : sk.size = l.n) (hs1 : ∀ p, p < l.n → (sk.getD p 0).natAbs ≤ 1)
    {pk0 pk1 : RnsPoly} {epk : Nat → Int} (hpk : PkRel pl sk (fun c => (encTT pl : Int) * epk c) pk0 pk1)
    (hE : ∀ p, p < l.n → (epk p).natAbs ≤ 21)
    {u e0 e1 : Array Int} (hus : u.size = pl.n) (he0s : e0.size = pl.n) (he1s : e1.size = pl.n)
    (hu1 : ∀ p, p < l.n → (u.getD p 0).natAbs ≤ 1) (he0 : ∀ p, p < l.n → (e0.getD p 0).natAbs ≤ 21)
    (he1 : ∀ p, p < l.n → (e1.getD p 0).natAbs ≤ 21)
    {plain : Poly} (hp : plain.size ≤ l.n) (hm : ∀ i, i < plain.size → plain.getD i 0 < l.t.value)
    (hok : FreshEncOKBgv l (spBound (pl.q (pl.size - 1)).value (21 * (2 * l.n + 1)) 2 l.n)) :
    ∃ ct, bgvEncrypt l fast thr incr
        (.asym (some pl) #[pk0, pk1] (rnsOfInt pl u) #[rnsOfInt pl e0, rnsOfInt pl e1]) plain = .ok ct ∧
      ct.cf = 1 ∧ bgvDecrypt l sk ct = .ok (trimPlain (padPlain l.n plain)) := by
  obtain ⟨ν', hf, hb'⟩ := encryptZeroInternal_fresh_pk_prev_bounded h hs1 hpk hE hus he0s he1s hu1 he0 he1
  have hs : encSlack pl = 2 := by unfold encSlack; rw [if_pos (by rw [← h.scheme, hb])]
  rw [hs] at hb'
  exact bgv_encrypt_decrypt_of_fresh hl hd hb hlift hsk hf hb' hp hm hok

/-! ## CKKS -/

/-- CKKS STATEMENT, PUBLIC KEY (level without a previous level): decrypted = plaintext + ν in every RNS component, ‖ν‖∞ ≤ 21(2N+1) -/
theorem ckks_encrypt_decrypt_pk {l : Level} (hl : l.WF) (hq : c07s_LevelQ l) (htool : c05u_ToolOK l) (hc : l.scheme = .ckks)
    (ht : l.t.value < 2^64)
    {sk : Array Int} (hsk : sk.size = l.n) (hs1 : ∀ p, p < l.n → (sk.getD p 0).natAbs ≤ 1)
    {pk0 pk1 : RnsPoly} {epk : Nat → Int} (hpk : PkRel l sk (fun c => (encTT l : Int) * epk c) pk0 pk1)
    (hE : ∀ p, p < l.n → (epk p).natAbs ≤ 21)
    {u e0 e1 : Array Int} (hus : u.size = l.n) (he0s : e0.size = l.n) (he1s : e1.size = l.n)
    (hu1 : ∀ p, p < l.n → (u.getD p 0).natAbs ≤ 1) (he0 : ∀ p, p < l.n → (e0.getD p 0).natAbs ≤ 21)
    (he1 : ∀ p, p < l.n → (e1.getD p 0).natAbs ≤ 21) {plain : RnsPoly} (hpl : RnsCanon l plain) :
    ∃ (ν : Nat → Int) (ct : Ct) (dec : RnsPoly), (∀ c, c < l.n → (ν c).natAbs ≤ 21 * (2 * l.n + 1)) ∧
      ckksEncrypt l (.asym none #[pk0, pk1] (rnsOfInt l u) #[rnsOfInt l e0, rnsOfInt l e1]) plain = .ok ct ∧
      ckksDecrypt l sk ct = .ok dec ∧ RnsCanon l dec ∧
      ∀ i, i < l.size → ∀ c, c < l.n → (((intt (l.tbl i) (dec.getD i #[])).getD c 0 : Nat) : Int) ≡
        (((intt (l.tbl i) (plain.getD i #[])).getD c 0 : Nat) : Int) + ν c [ZMOD ((l.q i).value : Int)] := by
  obtain ⟨ct, dec, h1, h2, h3, h4⟩ := ckks_encrypt_decrypt_of_fresh hl hq htool hc hsk
    (encryptZeroInternal_fresh_pk hl hq ht hpk hus he0s he1s) hpl
  exact ⟨_, ct, dec, pkNoise_bound l.n epk _ _ _ _ hE he0 he1 hu1 hs1, h1, h2, h3, h4⟩

/-- CKKS STATEMENT, SECRET KEY and SEED-COMPRESSED (every level): decrypted = plaintext − e in every RNS component -/
theorem ckks_encrypt_decrypt_sk {l : Level} (hl : l.WF) (hq : c07s_LevelQ l) (htool : c05u_ToolOK l) (hc : l.scheme = .ckks)
    (ht : l.t.value < 2^64) {sk : Array Int} (hsk : sk.size = l.n) {a : RnsPoly} (ha : RnsCanon l a)
    {e : Array Int} (hes : e.size = l.n) (saveSeed : Bool) {plain : RnsPoly} (hpl : RnsCanon l plain) :
    ∃ (ct : Ct) (dec : RnsPoly), ckksEncrypt l (.sym sk a (rnsOfInt l e) saveSeed) plain = .ok ct ∧
      ckksDecrypt l sk ct = .ok dec ∧ RnsCanon l dec ∧
      ∀ i, i < l.size → ∀ c, c < l.n → (((intt (l.tbl i) (dec.getD i #[])).getD c 0 : Nat) : Int) ≡
        (((intt (l.tbl i) (plain.getD i #[])).getD c 0 : Nat) : Int) + - e.getD c 0 [ZMOD ((l.q i).value : Int)] :=
  ckks_encrypt_decrypt_of_fresh hl hq htool hc hsk (encryptZeroInternal_fresh_sk hl hq ht hsk ha hes saveSeed) hpl

/-- CKKS STATEMENT, PUBLIC KEY THROUGH THE SPECIAL PRIME (the first level of the default parameters, and every lower level):
    ‖ν‖∞ ≤ ⌊(2·21(2N+1) + q_L(1+N)) / (2 q_L)⌋ -/
theorem ckks_encrypt_decrypt_pk_sp {pl l : Level} (h : PrevLevelOK pl l) (hl : l.WF) (hc : l.scheme = .ckks)
    {sk : Array Int} (hsk : sk.size = l.n) (hs1 : ∀ p, p < l.n → (sk.getD p 0).natAbs ≤ 1)
    {pk0 pk1 : RnsPoly} {epk : Nat → Int} (hpk : PkRel pl sk (fun c => (encTT pl : Int) * epk c) pk0 pk1)
    (hE : ∀ p, p < l.n → (epk p).natAbs ≤ 21)
    {u e0 e1 : Array Int} (hus : u.size = pl.n) (he0s : e0.size = pl.n) (he1s : e1.size = pl.n)
    (hu1 : ∀ p, p < l.n → (u.getD p 0).natAbs ≤ 1) (he0 : ∀ p, p < l.n → (e0.getD p 0).natAbs ≤ 21)
    (he1 : ∀ p, p < l.n → (e1.getD p 0).natAbs ≤ 21) {plain : RnsPoly} (hpl : RnsCanon l plain) :
    ∃ (ν : Nat → Int) (ct : Ct) (dec : RnsPoly),
      (∀ c, c < l.n → (ν c).natAbs ≤ spBound (pl.q (pl.size - 1)).value (21 * (2 * l.n + 1)) 1 l.n) ∧
      ckksEncrypt l (.asym (some pl) #[pk0, pk1] (rnsOfInt pl u) #[rnsOfInt pl e0, rnsOfInt pl e1]) plain = .ok ct ∧
      ckksDecrypt l sk ct = .ok dec ∧ RnsCanon l dec ∧
      ∀ i, i < l.size → ∀ c, c < l.n → (((intt (l.tbl i) (dec.getD i #[])).getD c 0 : Nat) : Int) ≡
        (((intt (l.tbl i) (plain.getD i #[])).getD c 0 : Nat) : Int) + ν c [ZMOD ((l.q i).value : Int)] := by
  obtain ⟨ν', hf, hb'⟩ := encryptZeroInternal_fresh_pk_prev_bounded h hs1 hpk hE hus he0s he1s hu1 he0 he1
  have hs : encSlack pl = 1 := by unfold encSlack; rw [if_neg (by rw [← h.scheme, hc]; decide)]
  rw [hs] at hb'
  obtain ⟨ct, dec, h1, h2, h3, h4⟩ := ckks_encrypt_decrypt_of_fresh hl h.lQ h.lTool hc hsk hf hpl
  exact ⟨ν', ct, dec, hb', h1, h2, h3, h4⟩

end HC
