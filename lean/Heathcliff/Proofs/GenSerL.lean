/-
  Translator phase 4i (stream mode): the compact-width helpers `write_u64_limited` / `read_u64_limited` of src/serialize.rs
  (Gen/SerFns.lean) are the model's `limC`: `limit` single-byte calls through the `u8` impl, least significant byte first; the writer
  panics AFTER having written the truncated bytes when the value does not fit.  Helper prefix `gl_`.
-/
import Heathcliff.Proofs.GenSer
import Heathcliff.Proofs.GenSerR
import Mathlib.Tactic.Ring
namespace HC.GS
open HC HC.Codec HC.GenS

variable {S E : Type}

theorem gl_low_byte (v : Nat) : (v &&& 255) % 256 = v % 256 := by
  have h255 : (255 : Nat) = 2 ^ 8 - 1 := by decide
  rw [h255, Nat.and_two_pow_sub_one_eq_mod]
  exact Nat.mod_mod _ _

theorem gl_limC_chunks (limit v : Nat) :
    (limC limit).chunks v = seqChunks (List.replicate limit u8C) (leBytes limit v) := rfl

theorem gl_write_loop (st : WStream S E) (l : List Nat) (acc v : Nat) :
    write_u64_limited_loop1 st l v acc
      = wbind (runChunks st (seqChunks (List.replicate l.length u8C) (leBytes l.length v)))
          fun n => wpure (v / 256 ^ l.length, acc + n) := by
  induction l generalizing acc v with
  | nil => simp [write_u64_limited_loop1, seqChunks, runChunks, wbind_wpure, leBytes]
  | cons x xs ih =>
    have hb : v % 256 < 256 := Nat.mod_lt _ (by decide)
    have hs : v >>> 8 = v / 256 := by rw [Nat.shiftRight_eq_div_pow]
    have hd : v / 256 / 256 ^ xs.length = v / 256 ^ (xs.length + 1) := by
      rw [Nat.div_div_eq_div_mul, Nat.pow_succ, Nat.mul_comm]
    simp only [write_u64_limited_loop1, List.length_cons, List.replicate_succ, leBytes, seqChunks, runChunks_append, gl_low_byte,
      gs_u8_serialize st _ hb, hs, ih, wbind_assoc, wbind_wpure, hd]
    congr 1; funext n; congr 1; funext m; rw [Nat.add_assoc]

/-- a value that fits in `limit` bytes: exactly the model's chunks -/
theorem gl_write_u64_limited (st : WStream S E) (v limit : Nat) (hv : v < 256 ^ limit) :
    write_u64_limited st v limit = runChunks st ((limC limit).chunks v) := by
  have h0 : v / 256 ^ limit = 0 := Nat.div_eq_of_lt hv
  simp only [write_u64_limited, gl_write_loop, List.length_range', Nat.sub_zero, gl_limC_chunks, wbind_assoc, wbind_wpure, h0,
    Nat.zero_add]
  simp [wbind_pure_right]

/-- the excluded point: the value does NOT fit — the truncated bytes are written, then `assert_eq!(value, 0)` panics -/
theorem gl_write_u64_limited_panics (st : WStream S E) (v limit : Nat) (hv : 256 ^ limit ≤ v) :
    write_u64_limited st v limit = wbind (runChunks st ((limC limit).chunks v)) fun _ => wpanic := by
  have h0 : (v / 256 ^ limit == 0) = false := by
    have : 0 < v / 256 ^ limit := Nat.div_pos hv (Nat.pow_pos (by decide))
    simp; omega
  simp only [write_u64_limited, gl_write_loop, List.length_range', Nat.sub_zero, gl_limC_chunks, wbind_assoc, wbind_wpure, h0]
  simp

/-! ### reader -/

theorem gl_u8_dec_cons (b : Nat) (r : Bytes) : u8C.dec (b :: r) = .ok (b, r) := by
  simp [u8C, scalarC, readExact, leVal]

theorem gl_u8_dec_nil : u8C.dec [] = .error (.eof .u8) := by
  simp [u8C, scalarC, readExact]

theorem gl_or_add (acc b s : Nat) (hacc : acc < 256 ^ s) (hb : b < 256) (hs : s < 8) :
    acc ||| ((b <<< (8 * s)) % 18446744073709551616) = acc + 256 ^ s * b := by
  have hp : (2 : Nat) ^ (8 * s) = 256 ^ s := by rw [Nat.pow_mul]
  have hlt : b <<< (8 * s) < 18446744073709551616 := by
    rw [Nat.shiftLeft_eq, hp]
    have h1 : 256 ^ s ≤ 256 ^ 7 := Nat.pow_le_pow_right (by decide) (by omega)
    calc b * 256 ^ s < 256 * 256 ^ s := Nat.mul_lt_mul_of_pos_right hb (Nat.pow_pos (by decide))
      _ ≤ 256 * 256 ^ 7 := Nat.mul_le_mul_left _ h1
      _ = 18446744073709551616 := by decide
  rw [Nat.mod_eq_of_lt hlt, Nat.or_comm]
  have hacc' : acc < 2 ^ (8 * s) := by rw [hp]; exact hacc
  rw [← Nat.shiftLeft_add_eq_or_of_lt hacc', Nat.shiftLeft_eq, hp]
  ring

theorem gl_read_loop (k : Nat) (start acc : Nat) (bs : Bytes) (hbs : ∀ b ∈ bs, b < 256) (hacc : acc < 256 ^ start)
    (hk : start + k ≤ 8) :
    read_u64_limited_loop1 (List.range' start k) acc bs
      = match seqDec (List.replicate k u8C) bs with
        | .ok (xs, r) => .ok (acc + 256 ^ start * leVal xs, r)
        | .error e => .error e := by
  induction k generalizing start acc bs with
  | zero => simp [read_u64_limited_loop1, seqDec, rpure, leVal]
  | succ k ih =>
    simp only [List.range'_succ, read_u64_limited_loop1, List.replicate_succ, seqDec, rbind, gr_u8_deserialize]
    cases bs with
    | nil => simp [gl_u8_dec_nil]
    | cons b r =>
      have hb : b < 256 := hbs b List.mem_cons_self
      have hr : ∀ x ∈ r, x < 256 := fun x hx => hbs x (List.mem_cons_of_mem _ hx)
      have hlt : 8 * start < 64 := by omega
      have hacc' : acc + 256 ^ start * b < 256 ^ (start + 1) := by
        rw [Nat.pow_succ]
        calc acc + 256 ^ start * b < 256 ^ start + 256 ^ start * b := by omega
          _ = 256 ^ start * (b + 1) := by ring
          _ ≤ 256 ^ start * 256 := Nat.mul_le_mul_left _ (by omega)
      simp only [gl_u8_dec_cons, hlt, if_true, gl_or_add acc b start hacc hb (by omega)]
      rw [ih (start + 1) _ r hr hacc' (by omega)]
      cases seqDec (List.replicate k u8C) r with
      | error e => rfl
      | ok q =>
        obtain ⟨xs, r2⟩ := q
        simp only [leVal]
        congr 2
        rw [Nat.pow_succ]; ring

/-- `read_u64_limited` = the model's `limC` decoder for every width the code can ask for (`get_u64_limit ≤ 8`), on a stream of bytes.
    (For `limit > 8` the code's shift `<< (8 * i)` overflows: a panic in debug builds — never reached, since `limit ≤ 8`.) -/
theorem gl_read_u64_limited (limit : Nat) (hl : limit ≤ 8) (bs : Bytes) (hbs : ∀ b ∈ bs, b < 256) :
    read_u64_limited limit bs = (limC limit).dec bs := by
  simp only [read_u64_limited, rbind, Nat.sub_zero, limC, restrictC, mapC, repC, seqC]
  rw [gl_read_loop limit 0 0 bs hbs (by simp) (by omega)]
  cases seqDec (List.replicate limit u8C) bs with
  | error e => rfl
  | ok q => simp [rpure]

theorem gs_limC_enc_bytes (limit v : Nat) :
    ∀ b ∈ flat (seqChunks (List.replicate limit u8C) (leBytes limit v)), b < 256 := by
  induction limit generalizing v with
  | zero => intro b hb; simp [leBytes, seqChunks, flat] at hb
  | succ n ih =>
    intro b hb
    simp only [List.replicate_succ, leBytes, seqChunks, flat_append, List.mem_append] at hb
    rcases hb with h | h
    · have : flat (u8C.chunks (v % 256)) = [v % 256 % 256] := by simp [u8C, scalarC, flat, leBytes]
      rw [this] at h
      have : b = v % 256 % 256 := by simpa using h
      omega
    · exact ih _ b h

/-- `get_u64_limit` never asks for more than 8 bytes -/
theorem gl_u64Limit_le (q : Nat) (hq : q < 2 ^ 64) : u64Limit q ≤ 8 := by
  unfold u64Limit Codec.bitCount
  split
  · omega
  · have : Nat.log2 q < 64 := by
      rw [Nat.log2_lt (by omega)]; exact hq
    omega

end HC.GS
