/-
  Phase 4m, part 9: composition.  The generated `invariant_noise_budget` (skeleton) on the composed noise polynomial returns
  `bits(Q) - bits(norm) - 1` clamped at 0 with `norm` the MODEL's centred infinity norm of the coefficient values - the last lines of
  `noiseBudget` (Model/Scheme.lean), which `noiseBudget_eq_spec` (Props/C07.lean) ties to the exact-integer definition.
-/
import Heathcliff.Proofs.GenDec8
namespace HC
open HC.GenDec

/-- the last lines of the model's `noiseBudget` are `budgetOfBits (bits Q) (bits (normFoldV Q ((Q+1)/2) vals 0))` -/
theorem gd_noiseBudget_unfold (l : Level) (sk : Array Int) (ct : Ct) :
    noiseBudget l sk ct = (do
      if ct.ntt then .error .refused else
      if l.scheme = .ckks then .error .refused else
      let ph ← dotProductCtSk l sk ct
      let ph ← if l.scheme = .bfv then
          (List.range l.size).foldlM (fun acc i => do
            let c ← mapM' (ph.getD i #[]) (fun x => mulMod x l.t.value (l.q i))
            pure (acc.push c)) (#[] : RnsPoly)
        else pure ph
      let vals ← (transpose ph l.n).toList.mapM (fun col => l.tool.baseQ.compose col)
      pure (budgetOfBits (bitCount l.tool.baseQ.prod)
        (bitCount (normFoldV l.tool.baseQ.prod ((l.tool.baseQ.prod + 1) / 2) vals 0)))) := by
  unfold noiseBudget budgetOfBits normFoldV
  rfl

/-- SOURCE → MODEL: generated `invariant_noise_budget` on a valid BFV / BGV ciphertext in coefficient form whose composed noise polynomial is
    `composed` (n coefficients of k words, each ≤ Q): the plan of the opaque steps and the model's budget of the coefficient VALUES.
    `hthr`: the threshold computed by the generated `half_round_up_uint` (its value is `(Q + 1) / 2` by `halfRoundUp_spec`, C08). -/
theorem gd_budget_source_spec (size : Nat) (scheme : Scheme) (k n : Nat) (Q : List Nat) (tb : Nat) (composed plan thr : List Nat)
    (hsize : 2 ≤ size) (hs : scheme = .bfv ∨ scheme = .bgv) (hk : 1 ≤ k) (hk64 : 64 * k < 2^63)
    (hQ : Limbs Q) (lQ : Q.length = k) (hp : Limbs composed) (hlen : composed.length = n * k) (hnk : n * k < 2^64)
    (hcQ : ∀ j, j < n → toNat (coefW composed k j) ≤ toNat Q) (htb : tb < 2^63)
    (hthr : half_round_up_uint Q (List.replicate k 0) = .ok thr) (hthrL : Limbs thr) :
    dec_invariant_noise_budget true size scheme false k n Q tb composed plan =
      .ok (plan ++ [1] ++ (if scheme = .bfv then [2] else []) ++ [3],
           budgetOfBits tb (bitCount (normFoldV (toNat Q) (toNat thr) ((List.range' 0 n).map (fun j => toNat (coefW composed k j))) 0))) := by
  obtain ⟨r, hr, lr, hrL, hrv⟩ := gd_poly_infty_norm_spec composed k Q thr (List.replicate k 0) n hk hQ hp lQ (by simp) hlen (by omega) hcQ hthr hthrL
  have hbits : get_significant_bit_count_uint r = .ok (bitCount (toNat r)) := by
    rw [gd_get_significant_bit_count_uint_eq r hrL (by rw [lr]; omega)]
    unfold bitCountUint
    cases r with
    | nil => simp at lr; omega
    | cons x xs => rfl
  have hnb : bitCount (toNat r) < 2^63 := by
    have h1 : toNat r < 2^(64 * k) := by have := toNat_lt hrL; rw [lr] at this; exact this
    have : bitCount (toNat r) ≤ 64 * k := dv_bc_le_iff.2 h1
    omega
  rw [gd_invariant_noise_budget_eq true size scheme false k n Q tb composed plan r (bitCount (toNat r)) rfl hsize hs rfl hnk hlen hr hbits htb hnb, hrv]

end HC
