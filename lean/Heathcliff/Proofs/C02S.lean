/- C02 / C03 (task S): the squaring routines of the MODEL (`bgvSquare`, `ckksSquare` — mirrors of `bgv_square` / `ckks_square` of
   src/evaluator.rs with their size-2 fast path `c0², c0·c1 + c0·c1, c1²`) ARE the products of the ciphertext with itself
   (`bgvMultiply l x x`, `ctMultiplyDyadic l x x`) on every canonical ciphertext; hence the `_spec` / `_phase` theorems of the
   product (Proofs/C02V.lean) transfer: phase(square x) = phase(x)².  Helper names carry the prefix `c02s_`. -/
import Heathcliff.Model.Evaluator
import Heathcliff.Proofs.C02V
namespace HC
open Finset

/-! ## canonical RNS polynomials are determined by their residues -/

theorem c02s_array_ext_getD {α : Type} (d : α) {x y : Array α} (hs : x.size = y.size)
    (h : ∀ j, j < x.size → x.getD j d = y.getD j d) : x = y := by
  apply Array.ext hs
  intro j h1 h2
  have := h j h1
  simpa [Array.getD, h1, h2] using this

theorem c02s_rnsCanon_ext {l : Level} {x y : RnsPoly} (hx : RnsCanon l x) (hy : RnsCanon l y)
    (h : ∀ i, i < l.size → ∀ j, j < l.n → (x.getD i #[]).getD j 0 = (y.getD i #[]).getD j 0) : x = y := by
  apply c02s_array_ext_getD #[] (by rw [hx.1, hy.1])
  intro i hi
  rw [hx.1] at hi
  apply c02s_array_ext_getD 0 (by rw [(hx.2 i hi).1, (hy.2 i hi).1])
  intro j hj
  rw [(hx.2 i hi).1] at hj
  exact h i hi j hj

/-- adding to the zero accumulator (first step of the accumulation loop of the product) returns the canonical summand itself -/
theorem c02s_rnsAdd_zero {l : Level} (hq : c02v_QsWF l) {x : RnsPoly} (hx : RnsCanon l x) :
    rnsAdd l (rnsZero l) x = .ok x := by
  obtain ⟨z1, z2⟩ := c02v_rnsZero_spec hq
  obtain ⟨r, hr, cr, vr⟩ := c02v_rnsAdd_spec hq z1 hx
  rw [hr]
  congr 1
  apply c02s_rnsCanon_ext cr hx
  intro i hi j hj
  rw [vr i hi j hj, z2 i hi j hj, Nat.zero_add]
  exact Nat.mod_eq_of_lt ((hx.2 i hi).2 j hj)

/-- the dyadic product of canonical polynomials is commutative (as VALUES of the model, not only modulo q) -/
theorem c02s_rnsDyadic_comm {l : Level} (hq : c02v_QsWF l) {x y : RnsPoly} (hx : RnsCanon l x) (hy : RnsCanon l y) :
    rnsDyadic l x y = rnsDyadic l y x := by
  obtain ⟨r, hr, cr, vr⟩ := c02v_rnsDyadic_spec hq hx hy
  obtain ⟨r', hr', cr', vr'⟩ := c02v_rnsDyadic_spec hq hy hx
  rw [hr, hr']
  congr 1
  apply c02s_rnsCanon_ext cr cr'
  intro i hi j hj
  rw [vr i hi j hj, vr' i hi j hj, Nat.mul_comm]

/-! ## the product of a size-2 ciphertext with itself, unfolded -/

theorem c02s_mulPairs_220 : mulPairs 2 2 0 = [(0, 0)] := by decide
theorem c02s_mulPairs_221 : mulPairs 2 2 1 = [(0, 1), (1, 0)] := by decide
theorem c02s_mulPairs_222 : mulPairs 2 2 2 = [(1, 1)] := by decide

/-- for a canonical NTT-form ciphertext of size 2 the four kernel calls of the fast path succeed, and the general product routine
    applied to (x, x) returns exactly their results: `c0·c0`, `(0 + c0·c1) + c1·c0 = c0·c1 + c0·c1`, `c1·c1` -/
theorem c02s_dyadic_size2 {l : Level} (hq : c02v_QsWF l) {a : Ct} (ha : CtCanon l a) (hna : a.ntt = true)
    (hs : a.polys.size = 2) :
    ∃ d0 m d1 d2, rnsDyadic l (a.polys.getD 0 #[]) (a.polys.getD 0 #[]) = .ok d0 ∧
      rnsDyadic l (a.polys.getD 0 #[]) (a.polys.getD 1 #[]) = .ok m ∧ rnsAdd l m m = .ok d1 ∧
      rnsDyadic l (a.polys.getD 1 #[]) (a.polys.getD 1 #[]) = .ok d2 ∧
      ctMultiplyDyadic l a a = .ok { a with polys := #[d0, d1, d2] } := by
  have c0 := ha.canon 0 (by omega)
  have c1 := ha.canon 1 (by omega)
  obtain ⟨d0, h0, cd0, _⟩ := c02v_rnsDyadic_spec hq c0 c0
  obtain ⟨m, hm, cm, _⟩ := c02v_rnsDyadic_spec hq c0 c1
  obtain ⟨d2, h2, cd2, _⟩ := c02v_rnsDyadic_spec hq c1 c1
  obtain ⟨d1, h1, _, _⟩ := c02v_rnsAdd_spec hq cm cm
  have hm' : rnsDyadic l (a.polys.getD 1 #[]) (a.polys.getD 0 #[]) = .ok m := by
    rw [c02s_rnsDyadic_comm hq c1 c0]; exact hm
  refine ⟨d0, m, d1, d2, h0, hm, h1, h2, ?_⟩
  unfold ctMultiplyDyadic
  rw [if_neg (by simp [hna])]
  simp only [hs]
  rw [if_neg (by omega), if_neg (by decide)]
  have r3 : List.range (2 + 2 - 1) = [0, 1, 2] := by decide
  rw [r3]
  simp only [List.mapM_cons, List.mapM_nil, c02s_mulPairs_220, c02s_mulPairs_221, c02s_mulPairs_222, List.foldlM_cons,
    List.foldlM_nil, h0, hm, hm', h2, bind, Except.bind, pure, Except.pure, c02s_rnsAdd_zero hq cd0, c02s_rnsAdd_zero hq cm,
    c02s_rnsAdd_zero hq cd2, h1]

/-! ## Property theorems -/

/-- S1 (CKKS).  `ckksSquare` — the model of `ckks_square`: fast path for size 2, `ckks_multiply(x, x.clone())` otherwise — IS the dyadic
    product of the ciphertext with itself, for EVERY canonical ciphertext (all sizes 2..16, both representations: a coefficient-form
    operand and a result size 2n − 1 > 16, i.e. n > 8, are refused by both sides) -/
theorem ckksSquare_eq {l : Level} (hq : c02v_QsWF l) {a : Ct} (ha : CtCanon l a) :
    ckksSquare l a = ctMultiplyDyadic l a a := by
  unfold ckksSquare
  by_cases hna : a.ntt = true
  · rw [if_neg (by simp [hna])]
    by_cases hs : a.polys.size = 2
    · rw [if_neg (by simp [hs])]
      obtain ⟨d0, m, d1, d2, h0, hm, h1, h2, hmul⟩ := c02s_dyadic_size2 hq ha hna hs
      rw [hmul, if_neg (by rw [hs]; decide)]
      simp only [h0, hm, h1, h2, bind, Except.bind, pure, Except.pure]
    · rw [if_pos hs]
  · rw [if_pos (by simpa using hna), ctMultiplyDyadic_refuse l a a (Or.inl (by simpa using hna))]

/-- S1 (BGV).  `bgvSquare` — the model of `bgv_square` — IS `bgvMultiply l x x`, for EVERY canonical ciphertext -/
theorem bgvSquare_eq {l : Level} (hq : c02v_QsWF l) {a : Ct} (ha : CtCanon l a) :
    bgvSquare l a = bgvMultiply l a a := by
  unfold bgvSquare
  by_cases hna : a.ntt = true
  · rw [if_neg (by simp [hna])]
    by_cases hs : a.polys.size = 2
    · rw [if_neg (by simp [hs])]
      obtain ⟨d0, m, d1, d2, h0, hm, h1, h2, hmul⟩ := c02s_dyadic_size2 hq ha hna hs
      unfold bgvMultiply
      rw [hmul, if_neg (by rw [hs]; decide)]
      simp only [h0, hm, h1, h2, bind, Except.bind, pure, Except.pure]
    · rw [if_pos hs]
  · rw [if_pos (by simpa using hna), bgvMultiply_refuse l a a (Or.inl (by simpa using hna))]

/-- refusals of the squares: coefficient form -/
theorem ckksSquare_refuse (l : Level) (a : Ct) (h : a.ntt = false) : ckksSquare l a = .error .refused := by
  unfold ckksSquare
  rw [if_pos (by simp [h])]

theorem bgvSquare_refuse (l : Level) (a : Ct) (h : a.ntt = false) : bgvSquare l a = .error .refused := by
  unfold bgvSquare
  rw [if_pos (by simp [h])]

/-- refusals of the squares: more than 8 polynomials (the result would have 2n − 1 > 16), whatever the data are -/
theorem ckksSquare_refuse_size (l : Level) (a : Ct) (h : 8 < a.polys.size) : ckksSquare l a = .error .refused := by
  unfold ckksSquare
  split
  · rfl
  · rw [if_pos (by omega)]
    exact ctMultiplyDyadic_refuse_size l a a ((ctResizeRefuses_eq_true_iff _).mpr (Or.inr (by omega)))

theorem bgvSquare_refuse_size (l : Level) (a : Ct) (h : 8 < a.polys.size) : bgvSquare l a = .error .refused := by
  unfold bgvSquare
  split
  · rfl
  · rw [if_pos (by omega)]
    unfold bgvMultiply
    rw [ctMultiplyDyadic_refuse_size l a a ((ctResizeRefuses_eq_true_iff _).mpr (Or.inr (by omega)))]
    rfl

/-- S2 residues (CKKS): the square of a canonical NTT-form ciphertext of size n ≤ 8 succeeds, has 2n − 1 canonical polynomials, and
    residue (i, j) of polynomial k is Σ_{x + y = k} a_x[i][j] · a_y[i][j] mod q_i -/
theorem ckksSquare_spec {l : Level} (hq : c02v_QsWF l) {a : Ct} (ha : CtCanon l a) (hna : a.ntt = true) (h8 : a.polys.size ≤ 8) :
    ∃ r, ckksSquare l a = .ok r ∧ r.polys.size = 2 * a.polys.size - 1 ∧ r.ntt = true ∧ r.cf = a.cf ∧ CtCanon l r ∧
      ∀ k, k < 2 * a.polys.size - 1 → ∀ i, i < l.size → ∀ j, j < l.n →
        r.c02v_res k i j = ((mulPairs a.polys.size a.polys.size k).map (fun p => a.c02v_res p.1 i j * a.c02v_res p.2 i j)).sum
          % (l.q i).value := by
  obtain ⟨r, hr, hsz, hn, hcf, _, hcan, hres⟩ := ctMultiplyDyadic_spec hq ha ha hna hna (by omega)
  refine ⟨r, by rw [ckksSquare_eq hq ha]; exact hr, by omega, hn, hcf, hcan (by omega), fun k hk => hres k (by omega)⟩

/-- S2 phase (CKKS): in every commutative ring in which `q_i = 0`, NTT slots read through orthogonal idempotents `e`,
    phase(square x) = phase(x)², for every secret `s` -/
theorem ckksSquare_phase {S : Type} [CommRing S] {l : Level} (hq : c02v_QsWF l) {a r : Ct} (ha : CtCanon l a)
    (hr : ckksSquare l a = .ok r)
    {i : Nat} (hi : i < l.size) (hS : (((l.q i).value : Nat) : S) = 0) (e : Nat → S)
    (he : ∀ j j', j < l.n → j' < l.n → e j * e j' = if j = j' then e j else 0) (s : S) :
    c02v_phase l r i e s = c02v_phase l a i e s ^ 2 := by
  rw [ckksSquare_eq hq ha] at hr
  rw [ctMultiplyDyadic_phase hq ha ha hr hi hS e he s, sq]

/-- S2 (BGV): the square succeeds on canonical BGV ciphertexts of size n ≤ 8 with unit correction factor; the result is canonical,
    carries the factor cf² mod t (again a unit), and its polynomial part is the dyadic square (`ckksSquare`, to which
    `ckksSquare_spec` applies) -/
theorem bgvSquare_spec {l : Level} (hq : c02v_QsWF l) (ht : l.t.WF) {a : Ct} (ha : CtCanon l a) (hna : a.ntt = true)
    (hs : l.scheme = .bgv) (h8 : a.polys.size ≤ 8) (c1 : Nat.Coprime a.cf l.t.value) :
    ∃ r c, bgvSquare l a = .ok r ∧ ckksSquare l a = .ok c ∧ r = { c with cf := (a.cf * a.cf) % l.t.value } ∧ CtCanon l r ∧
      Nat.Coprime r.cf l.t.value := by
  obtain ⟨c, hc, _⟩ := ctMultiplyDyadic_spec hq ha ha hna hna (by omega)
  obtain ⟨r, hr, hcan, hcf, hcop⟩ := bgvMultiply_canon hq ht ha ha hna hna hs (by omega) c1 c1
  have hfa := ha.cf
  unfold c02v_cfOk at hfa
  rw [hs] at hfa
  simp only at hfa
  have htlt := ht.lt
  have hr' := bgvMultiply_spec ht hc (show a.cf < 2^64 by omega) (show a.cf < 2^64 by omega)
  rw [hr] at hr'
  refine ⟨r, c, by rw [bgvSquare_eq hq ha]; exact hr, by rw [ckksSquare_eq hq ha]; exact hc, Except.ok.inj hr', hcan, hcop⟩

/-- S2 phase (BGV): phase(square x) = phase(x)² in every commutative ring in which `q_i = 0`, for every secret -/
theorem bgvSquare_phase {S : Type} [CommRing S] {l : Level} (hq : c02v_QsWF l) {a r : Ct} (ha : CtCanon l a)
    (hr : bgvSquare l a = .ok r)
    {i : Nat} (hi : i < l.size) (hS : (((l.q i).value : Nat) : S) = 0) (e : Nat → S)
    (he : ∀ j j', j < l.n → j' < l.n → e j * e j' = if j = j' then e j else 0) (s : S) :
    c02v_phase l r i e s = c02v_phase l a i e s ^ 2 := by
  rw [bgvSquare_eq hq ha] at hr
  unfold bgvMultiply at hr
  cases hc : ctMultiplyDyadic l a a with
  | error err => rw [hc] at hr; cases hr
  | ok c =>
    rw [hc] at hr
    cases hm : mulMod a.cf a.cf l.t with
    | error err => simp only [bind, Except.bind, hm] at hr; cases hr
    | ok f =>
      simp only [bind, Except.bind, hm, pure, Except.pure] at hr
      obtain rfl := Except.ok.inj hr
      have := ctMultiplyDyadic_phase hq ha ha hc hi hS e he s
      rw [sq, ← this]
      rfl

/-- the correction factor of a successful BGV square is cf·cf mod t -/
theorem bgvSquare_cf {l : Level} (hq : c02v_QsWF l) (ht : l.t.WF) {a r : Ct} (ha : CtCanon l a) (hcf : a.cf < 2^64)
    (hr : bgvSquare l a = .ok r) : r.cf = (a.cf * a.cf) % l.t.value := by
  rw [bgvSquare_eq hq ha] at hr
  cases hc : ctMultiplyDyadic l a a with
  | error err => unfold bgvMultiply at hr; rw [hc] at hr; cases hr
  | ok c =>
    rw [bgvMultiply_spec ht hc hcf hcf] at hr
    obtain rfl := Except.ok.inj hr
    rfl

/-! ## non-vacuity: a size-2 (fast path) and a size-3 (fallback) canonical ciphertext on the example BGV level (two moduli 17, n = 2, t = 5) -/

theorem c02s_witness_fast : ∃ r, bgvSquare c02v_exLevel c02v_exCt2 = .ok r ∧ r.polys.size = 3 ∧ r.cf = 4 ∧ CtCanon c02v_exLevel r := by
  obtain ⟨r, c, hr, hc, he, hcan, _⟩ := bgvSquare_spec c02v_exLevel_qsWF c02v_exT_wf c02v_exCt2_canon rfl rfl (by decide) (by decide)
  obtain ⟨c', hc', hsz, _⟩ := ckksSquare_spec c02v_exLevel_qsWF c02v_exCt2_canon rfl (by decide)
  rw [hc] at hc'
  obtain rfl := Except.ok.inj hc'
  refine ⟨r, hr, ?_, ?_, hcan⟩
  · rw [he]; exact hsz
  · rw [he]; rfl

theorem c02s_witness_fallback : ∃ r, bgvSquare c02v_exLevel c02v_exCt = .ok r ∧ r.polys.size = 5 ∧ r.cf = 4 := by
  obtain ⟨r, c, hr, hc, he, _, _⟩ := bgvSquare_spec c02v_exLevel_qsWF c02v_exT_wf c02v_exCt_canon rfl rfl (by decide) (by decide)
  obtain ⟨c', hc', hsz, _⟩ := ckksSquare_spec c02v_exLevel_qsWF c02v_exCt_canon rfl (by decide)
  rw [hc] at hc'
  obtain rfl := Except.ok.inj hc'
  refine ⟨r, hr, ?_, ?_⟩
  · rw [he]; exact hsz
  · rw [he]; rfl

end HC
