import Heathcliff.Proofs.GenContext2
import Heathcliff.Proofs.GenRns

/-!
  Translator tie, round 7 (worker T), part 3: the CKKS constants of `HeContext::validate` (Gen/ContextFns.lean `GenX.validate_ckks_consts`:
  `plain_upper_half_threshold = 2^63`, `plain_upper_half_increment[i] = -2^64 mod q_i`, `upper_half_threshold = ⌈Q/2⌉`).  Helper names `gcx_`.
-/
namespace HC
open HC.GenW HC.Ctx

theorem gcx_prodL_le61 : ∀ (qs : List Nat), (∀ q ∈ qs, q < 2^61) → prodL qs ≤ 2^(61 * qs.length)
  | [], _ => by simp [prodL]
  | x :: xs, h => by
    have hx : x < 2^61 := h x (by simp)
    have ih := gcx_prodL_le61 xs (fun q hq => h q (by simp [hq]))
    rw [prodL, List.length_cons, Nat.mul_succ, Nat.pow_add, Nat.mul_comm (2^(61 * xs.length))]
    exact Nat.mul_le_mul (Nat.le_of_lt hx) ih

/-- `2^64 mod q_i`-based increment for one modulus -/
theorem gcx_ckks_cell {m : Modulus} (hw : m.WF) :
    (GenR.modulus_reduce m ((1 <<< 63) % B64) >>= fun v4 => ckSub m.value 2 >>= fun t3 => GenW.multiply_u64_mod v4 t3 m) =
      .ok ((m.value - 2^64 % m.value) % m.value) := by
  have h2 := hw.two_le
  have h61 := hw.lt
  have e63 : (1 <<< 63) % B64 = 2^63 := by decide
  have hlt : 2^63 % m.value < 2^64 := Nat.lt_of_lt_of_le (Nat.mod_lt _ (by omega)) (by omega)
  rw [e63, gr_modulus_reduce_eq, barrett64_exact hw (by norm_num)]
  simp only [bind, Except.bind, ckSub, if_pos h2, gw_multiply_u64_mod_eq]
  rw [mulMod_exact hw hlt (by omega), neg_two64 h2]

theorem gcx_ckks_loop (ms : List Modulus) (total : List Nat) (puht k : Nat) (hw : ∀ m ∈ ms, m.WF) :
    ∀ (n i : Nat) (a : List Nat), i + n = ms.length → a.length = ms.length →
      GenX.validate_ckks_consts_loop1 ms total puht k n i a =
        GenX.validate_ckks_consts_loop1 ms total puht k 0 0 (a.take i ++ (ms.drop i).map (fun m => (m.value - 2^64 % m.value) % m.value)) := by
  intro n
  induction n with
  | zero =>
    intro i a hi ha
    have hd : ms.drop i = [] := List.drop_eq_nil_of_le (by omega)
    rw [hd, List.map_nil, List.append_nil, List.take_of_length_le (by omega)]; rfl
  | succ n ih =>
    intro i a hi ha
    have hlt : i < ms.length := by omega
    have hcell := gcx_ckks_cell (hw _ (List.getElem_mem hlt))
    have h2 := (hw _ (List.getElem_mem hlt)).two_le
    conv => lhs; unfold GenX.validate_ckks_consts_loop1
    simp only [gcx_idxT_eq ms i hlt, bind, Except.bind] at hcell ⊢
    cases hr : GenR.modulus_reduce ms[i] ((1 <<< 63) % B64) with
    | error e => rw [hr] at hcell; cases hcell
    | ok v4 =>
      rw [hr] at hcell
      simp only [ckSub, if_pos h2] at hcell ⊢
      rw [hcell]
      simp only [gx_setIdx_ok a i _ (show i < a.length by omega)]
      rw [ih (i+1) (a.set i _) (by omega) (by simp [ha]), gcx_take_set_succ a i _ (by omega), List.drop_eq_getElem_cons hlt]
      simp only [List.map_cons, List.append_assoc, List.singleton_append]

/-- **the CKKS constants as generated from the source**: for every chain of well-formed moduli (at least one) with `total` = the limbs of `Q = Π q_i`,
    the generated range returns `plain_upper_half_increment = ((q_i − 2^64 mod q_i) mod q_i)_i` (= −2^64 mod q_i), `upper_half_threshold` = the limbs of
    `⌊(Q+1)/2⌋ = ⌈Q/2⌉`, and `plain_upper_half_threshold = 2^63` -/
theorem gcx_validate_ckks_consts_ok {ms : List Modulus} {p0 u0 : List Nat} (hw : ∀ m ∈ ms, m.WF) (hk : 1 ≤ ms.length) :
    GenX.validate_ckks_consts ms (fromNat ms.length (prodL (ms.map (·.value)))) p0 u0 =
      .ok (ms.map (fun m => (m.value - 2^64 % m.value) % m.value), fromNat ms.length ((prodL (ms.map (·.value)) + 1) / 2), 2^63) := by
  have h61 : ∀ q ∈ ms.map (·.value), q < 2^61 := by
    intro q hq
    obtain ⟨m, hm, rfl⟩ := List.mem_map.mp hq
    exact (hw m hm).lt
  have hQ := gcx_prodL_le61 _ h61
  rw [List.length_map] at hQ
  have hpow : 2^(61 * ms.length) + 2^(61 * ms.length) ≤ 2^(64 * ms.length) := by
    have e : 2^(64 * ms.length) = 2^(61 * ms.length) * 2^(3 * ms.length) := by rw [← Nat.pow_add]; congr 1; omega
    have h3 : 2 ≤ 2^(3 * ms.length) := by
      calc 2 = 2^1 := rfl
        _ ≤ 2^(3 * ms.length) := Nat.pow_le_pow_right (by decide) (by omega)
    rw [e, ← Nat.mul_two]
    exact Nat.mul_le_mul_left _ h3
  have hone : 1 < 2^(61 * ms.length) := Nat.one_lt_two_pow (by omega)
  generalize prodL (ms.map (·.value)) = Q at hQ ⊢
  have hQ1 : Q + 1 < 2^(64 * ms.length) := by omega
  obtain ⟨r, c, hadd, hrl, hrL, hc, hval⟩ :=
    addUintU64_spec (a := fromNat ms.length Q) (w := 1) (n := ms.length) hk (fromNat_limbs _ _) (by norm_num) (by rw [fromNat_length])
  rw [List.take_of_length_le (by rw [fromNat_length]), gcx_toNat_fromNat_lt (by omega)] at hval
  have hr := toNat_lt hrL
  rw [hrl] at hr
  have hc0 : c = 0 := by
    rcases Nat.lt_or_ge c 1 with h | h
    · omega
    · have : c = 1 := by omega
      subst this; omega
  subst hc0
  have hrv : toNat r = Q + 1 := by omega
  obtain ⟨s, hsh, hsl, hsL, hsv⟩ := rightShiftUint_spec (a := r) (s := 1) (cnt := ms.length) hrL (by omega) (by omega)
  rw [List.take_of_length_le (by omega), hrv] at hsv
  unfold GenX.validate_ckks_consts
  simp only []
  rw [gcx_ckks_loop ms _ _ _ hw ms.length 0 (List.replicate ms.length 0) (by omega) List.length_replicate]
  unfold GenX.validate_ckks_consts_loop1
  simp only [List.take_zero, List.nil_append, List.drop_zero, gx_add_uint_u64_eq, List.length_replicate, hadd, bind, Except.bind,
    GenX.right_shift_uint_inplace, hsh, pure, Except.pure]
  rw [gcx_eq_fromNat hsL hsl (show toNat s = (Q + 1) / 2 by rw [hsv]; simp)]
  rfl

/-- the same with the moduli given by their values -/
theorem gcx_validate_ckks_consts_values {ms : List Modulus} {qs p0 u0 : List Nat} (hms : ms.map (·.value) = qs) (hw : ∀ m ∈ ms, m.WF)
    (hk : 1 ≤ qs.length) :
    GenX.validate_ckks_consts ms (fromNat qs.length (prodL qs)) p0 u0 =
      .ok (qs.map (fun q => (q - 2^64 % q) % q), fromNat qs.length ((prodL qs + 1) / 2), 2^63) := by
  have hlen : ms.length = qs.length := by rw [← hms, List.length_map]
  have h := gcx_validate_ckks_consts_ok (ms := ms) (p0 := p0) (u0 := u0) hw (by omega)
  rw [hms, hlen] at h
  rw [h, ← hms, List.map_map]
  rfl

/-- **generated constants = model constants on every valid CKKS level** -/
theorem gcx_level_constants_ckks {isPrime : Nat → Bool} {p : Params} {sec : SecLevel} {c : ContextData}
    (h : validate isPrime p sec = .ok c) (hs : c.err = .Success) (hsch : p.scheme = .CKKS)
    {ms : List Modulus} (hms : ms.map (·.value) = p.q) (hw : ∀ m ∈ ms, m.WF) (tot0 p0 u0 : List Nat) :
    GenX.validate_total p.q tot0 = .ok (c.total, c.totalBits) ∧
    GenX.validate_ckks_consts ms c.total p0 u0 = .ok (c.plainUpperHalfIncrement, c.upperHalfThreshold, c.plainUpperHalfThreshold) := by
  obtain ⟨_, hk, hq, _⟩ := validate_sound h hs
  obtain ⟨_, htot, _, hbits, _⟩ := constants_common h hs
  obtain ⟨_, _, _, hpuht, hpuhi, huht, _⟩ := constants_ckks h hs hsch
  have hne : p.q ≠ [] := by intro e; rw [e] at hk; simp at hk
  have hlimb : Limbs p.q := fun q hq' => by have := (hq q hq').2; omega
  exact ⟨by rw [gcx_validate_total_ok hne hlimb, htot, hbits],
    by rw [htot, gcx_validate_ckks_consts_values hms hw hk.1, hpuht, hpuhi, huht]⟩
end HC
