import Heathcliff.Gen.EvalCtFns
import Heathcliff.Proofs.GenPolyRns

/-!
  Phase 4d of the translator tie: ciphertext-level evaluator primitives (`Evaluator::negate_inplace`, `translate_inplace`; generated as
  skeletons over the flat ciphertext buffers into `Heathcliff/Gen/EvalCtFns.lean`, `HC.GenC`) against `ctNegate` / `ctTranslate` of
  Model/Evaluator.lean on `unflattenCt` / `flattenCt`.  Helper names start with `gc_`.
-/
namespace HC
open HC.GenW HC.GenP HC.GenC

/-- the model ciphertext whose flat buffer is `d` (`size` polynomials of `l.size` components of `l.n` words) -/
def unflattenCt (l : Level) (size : Nat) (d : List Nat) (ntt : Bool) (cf : Nat) : Ct :=
  ⟨((List.range size).map fun i => unflattenRns l.size l.n (gp_blk (l.size * l.n) d i)).toArray, ntt, cf⟩

/-- the flat buffer of a model ciphertext -/
def flattenCt (l : Level) (c : Ct) : List Nat := (c.polys.toList.map (flattenRns l.size l.n)).flatten

theorem gc_mapM_comp {α β γ : Type} (g : α → β) (f : β → R γ) : ∀ (l : List α), (l.map g).mapM f = l.mapM (fun x => f (g x)) := by
  intro l
  induction l with
  | nil => rfl
  | cons x t ih => rw [List.map_cons, List.mapM_cons, List.mapM_cons, ih]

/-- `Evaluator::negate_inplace` (generated from src/evaluator.rs; the ciphertext check as a Boolean input) on the flat buffer IS the hand
    model's `ctNegate` -/
theorem gc_negate_inplace_eq (l : Level) (d : List Nat) (size : Nat) (ntt : Bool) (cf : Nat) (hd : d.length = size * (l.size * l.n))
    (hpl : l.n * l.size < B64) (hB : d.length < B64) :
    GenC.ct_negate_inplace d size true l.qs.toList l.n = Except.map (flattenCt l) (ctNegate l (unflattenCt l size d ntt cf)) := by
  unfold GenC.ct_negate_inplace ctNegate
  simp only [if_true]
  rw [gp_poly_negate_inplace_ps_model l d size hpl (by omega) hB]
  have hp : (unflattenCt l size d ntt cf).polys.toList = (List.range size).map fun i => unflattenRns l.size l.n (gp_blk (l.size * l.n) d i) := by
    simp [unflattenCt]
  rw [hp, gc_mapM_comp, ← hd, List.drop_length]
  cases (List.range size).mapM (fun i => rnsNeg l (unflattenRns l.size l.n (gp_blk (l.size * l.n) d i))) with
  | error e => rfl
  | ok outs => simp [bind, Except.bind, pure, Except.pure, Except.map, flattenCt]

/-- an invalid ciphertext (`check_ciphertext` panics) is refused -/
theorem gc_negate_inplace_refuses (d : List Nat) (size : Nat) (mods : List Modulus) (n : Nat) :
    GenC.ct_negate_inplace d size false mods n = .error .refused := by
  unfold GenC.ct_negate_inplace; simp

theorem gc_resizeL_same (d : List Nat) (n : Nat) (h : d.length = n) : GenC.resizeL d n 0 = d := by
  unfold GenC.resizeL; rw [← h, List.take_length, Nat.sub_self]; simp

theorem gc_translateShape_eq (n : Nat) : translateShape n n = (List.range n).map TrTerm.both := by
  unfold translateShape
  rw [Nat.max_self, Nat.min_self]
  apply List.map_congr_left
  intro i hi
  rw [if_pos (List.mem_range.mp hi)]

theorem gc_polys_size (l : Level) (size : Nat) (d : List Nat) (ntt : Bool) (cf : Nat) : (unflattenCt l size d ntt cf).polys.size = size := by
  simp [unflattenCt]

theorem gc_polys_getD (l : Level) (size : Nat) (d : List Nat) (ntt : Bool) (cf : Nat) (i : Nat) (hi : i < size) :
    (unflattenCt l size d ntt cf).polys.getD i #[] = unflattenRns l.size l.n (gp_blk (l.size * l.n) d i) := by
  unfold unflattenCt
  rw [gz_toArray_getD, gz_getD_map_range _ _ _ _ hi]

/-- `translate_inplace` (add / sub of two ciphertexts), equal correction factors and EQUAL sizes, all checks passed: the generated
    function on the flat buffers IS the hand model's `ctTranslate`; size and correction factor are unchanged -/
theorem gc_translate_inplace_same_size (l : Level) (d1 d2 : List Nat) (size : Nat) (ntt : Bool) (cf : Nat) (sub : Bool) (t : Modulus)
    (hs : size = 0 ∨ (2 ≤ size ∧ size ≤ 16)) (hl1 : 1 ≤ l.size)
    (h1 : d1.length = size * (l.size * l.n)) (h2 : d2.length = size * (l.size * l.n)) (hpl : l.n * l.size < B64) (hB : d1.length < B64) :
    GenC.ct_translate_inplace_eq d1 size cf d2 size cf sub true true true false true l.qs.toList t l.n =
      Except.map (fun c => (flattenCt l c, size, cf)) (ctTranslate l (unflattenCt l size d1 ntt cf) (unflattenCt l size d2 ntt cf) sub) := by
  have hlen : l.qs.toList.length = l.size := by simp [Level.size]
  have hle : size * l.n ≤ size * (l.size * l.n) := Nat.mul_le_mul_left _ (Nat.le_mul_of_pos_left _ hl1)
  have hck1 : ckMul size l.n = .ok (size * l.n) := by unfold ckMul; rw [if_pos (by omega)]
  have hck2 : ckMul (size * l.n) l.size = .ok (size * (l.size * l.n)) := by
    unfold ckMul
    have : size * l.n * l.size = size * (l.size * l.n) := by rw [Nat.mul_assoc, Nat.mul_comm l.n l.size]
    rw [this, if_pos (by omega)]
  have hsz : ¬ ((size < 2 ∧ size ≠ 0) ∨ size > 16) := by omega
  unfold GenC.ct_translate_inplace_eq
  simp only [if_true, Nat.max_self, Nat.min_self, ne_eq, not_true_eq_false, if_false, hsz, not_false_eq_true, hlen, hck1, hck2,
    bind, Except.bind, gc_resizeL_same d1 _ h1, Nat.lt_irrefl, pure, Except.pure, Bool.false_eq_true]
  have hR : ctTranslate l (unflattenCt l size d1 ntt cf) (unflattenCt l size d2 ntt cf) sub =
      (do let ps ← (List.range size).mapM (fun i =>
            if sub then rnsSub l (unflattenRns l.size l.n (gp_blk (l.size * l.n) d1 i)) (unflattenRns l.size l.n (gp_blk (l.size * l.n) d2 i))
            else rnsAdd l (unflattenRns l.size l.n (gp_blk (l.size * l.n) d1 i)) (unflattenRns l.size l.n (gp_blk (l.size * l.n) d2 i)))
          pure { unflattenCt l size d1 ntt cf with polys := ps.toArray }) := by
    unfold ctTranslate
    rw [if_neg (by simp [unflattenCt]), if_neg (by simp [unflattenCt]), gc_polys_size, gc_polys_size, gc_translateShape_eq, gc_mapM_comp]
    refine congrArg (fun (m : R (List RnsPoly)) => m >>= fun ps => pure { unflattenCt l size d1 ntt cf with polys := ps.toArray }) ?_
    apply gp_mapM_congr'
    intro i hi
    have hi := List.mem_range.mp hi
    simp only [gc_polys_getD _ _ _ _ _ _ hi]
  rw [hR]
  cases sub with
  | false =>
    simp only [Bool.false_eq_true, not_false_eq_true, if_true, if_false]
    rw [gp_poly_add_inplace_ps_model l d1 d2 size hpl (by omega) (by omega) hB, ← h1, List.drop_length]
    cases (List.range size).mapM (fun i => rnsAdd l (unflattenRns l.size l.n (gp_blk (l.size * l.n) d1 i))
        (unflattenRns l.size l.n (gp_blk (l.size * l.n) d2 i))) with
    | error e => rfl
    | ok outs => simp [bind, Except.bind, pure, Except.pure, Except.map, flattenCt]
  | true =>
    simp only [not_true_eq_false, if_true, if_false]
    rw [gp_poly_sub_inplace_ps_model l d1 d2 size hpl (by omega) (by omega) hB, ← h1, List.drop_length]
    cases (List.range size).mapM (fun i => rnsSub l (unflattenRns l.size l.n (gp_blk (l.size * l.n) d1 i))
        (unflattenRns l.size l.n (gp_blk (l.size * l.n) d2 i))) with
    | error e => rfl
    | ok outs => simp [bind, Except.bind, pure, Except.pure, Except.map, flattenCt]
/-- PARTIAL (flat level): with different correction factors `translate_inplace` scales ALL polynomials of both operands by the balancing
    factors (`multiply_scalar_inplace_ps` with the operand's own size) and continues with the equal-factor routine at the new factor —
    the shape of `ctTranslateBalanced`.  Missing for the model-level statement: `poly_multiply_scalar_inplace_ps` is tied to the model
    (`gp_poly_multiply_scalar_inplace_ps_model`), the unequal-size tail of the equal-factor routine is not. -/
theorem gc_translate_inplace_balance_partial (d1 d2 : List Nat) (s1 s2 cf1 cf2 : Nat) (sub : Bool) (mods : List Modulus) (t : Modulus) (n : Nat)
    (hcf : cf1 ≠ cf2) :
    GenC.ct_translate_inplace d1 s1 cf1 d2 s2 cf2 sub true true true false true mods t n =
      (do let f ← GenE.balance_correction_factors cf1 cf2 t
          let a ← GenP.poly_multiply_scalar_inplace_ps d1 f.2.1 s1 n mods
          let b ← GenP.poly_multiply_scalar_inplace_ps d2 f.2.2 s2 n mods
          GenC.ct_translate_inplace_eq a s1 f.1 b s2 f.1 sub true true true false true mods t n) := by
  unfold GenC.ct_translate_inplace
  simp only [if_true, Bool.false_eq_true, if_false, ne_eq, hcf, not_false_eq_true, bind, Except.bind, pure, Except.pure, decide_true,
    decide_false, Bool.decide_eq_true]
  cases GenE.balance_correction_factors cf1 cf2 t with
  | error e => rfl
  | ok f =>
    obtain ⟨f0, e1, e2⟩ := f
    simp only []
    cases GenP.poly_multiply_scalar_inplace_ps d1 e1 s1 n mods with
    | error e => rfl
    | ok a =>
      simp only []
      cases GenP.poly_multiply_scalar_inplace_ps d2 e2 s2 n mods with
      | error e => rfl
      | ok b =>
        simp only []
        cases GenC.ct_translate_inplace_eq a s1 f0 b s2 f0 sub true true true false true mods t n with
        | error e => rfl
        | ok r => rfl

/-- PARTIAL (flat level): subtracting a LARGER ciphertext from a smaller one (`size1 < size2`, equal factors, checks passed): the common
    polynomials are subtracted, the extra polynomials of the subtrahend are copied and then NEGATED (`negate_inplace_ps` over
    `size2 - size1` polynomials: fixed defect 6b4d058) — the `.right i ↦ rnsNeg` terms of `ctTranslate`.  Missing for the model-level
    statement: splitting `translateShape` into the common part and the tail (each of the three calls is tied to the model). -/
theorem gc_translate_inplace_sub_tail_partial (d1 d2 : List Nat) (s1 s2 cf : Nat) (mods : List Modulus) (t : Modulus) (n : Nat)
    (hlt : s1 < s2) (hs : 2 ≤ s2 ∧ s2 ≤ 16) (hB : s2 * (n * mods.length) < B64) (hn : 1 ≤ mods.length) :
    GenC.ct_translate_inplace_eq d1 s1 cf d2 s2 cf true true true true false true mods t n =
      (do let a ← GenP.poly_sub_inplace_ps (GenC.resizeL d1 (s2 * n * mods.length) 0) d2 s1 n mods
          let _ ← GenP.slice a (s1 * (n * mods.length)) (s2 * (n * mods.length))
          let src ← GenP.slice d2 (s1 * (n * mods.length)) (s2 * (n * mods.length))
          let a ← GenP.copySlice a (s1 * (n * mods.length)) (s2 * (n * mods.length)) src
          let tail ← GenP.slice a (s1 * (n * mods.length)) (s2 * (n * mods.length))
          let o ← GenP.poly_negate_inplace_ps tail (s2 - s1) n mods
          pure (GenP.splice a (s1 * (n * mods.length)) o, s2, cf)) := by
  have hmax : max s1 s2 = s2 := Nat.max_eq_right (Nat.le_of_lt hlt)
  have hmin : min s1 s2 = s1 := Nat.min_eq_left (Nat.le_of_lt hlt)
  have hsz : ¬ ((s2 < 2 ∧ s2 ≠ 0) ∨ s2 > 16) := by omega
  have hnk : n * mods.length ≤ s2 * (n * mods.length) := Nat.le_mul_of_pos_left _ (by omega)
  have hck0 : ckMul n mods.length = .ok (n * mods.length) := by unfold ckMul; rw [if_pos (by omega)]
  have hck1 : ckMul s1 (n * mods.length) = .ok (s1 * (n * mods.length)) := by
    unfold ckMul; rw [if_pos (Nat.lt_of_le_of_lt (Nat.mul_le_mul_right _ (Nat.le_of_lt hlt)) hB)]
  have hck2 : ckMul s2 (n * mods.length) = .ok (s2 * (n * mods.length)) := by unfold ckMul; rw [if_pos hB]
  have hck3 : ckMul s2 n = .ok (s2 * n) := by
    unfold ckMul; rw [if_pos]
    have : s2 * n ≤ s2 * (n * mods.length) := Nat.mul_le_mul_left _ (Nat.le_mul_of_pos_right _ hn)
    omega
  have hck4 : ckMul (s2 * n) mods.length = .ok (s2 * n * mods.length) := by
    unfold ckMul; rw [Nat.mul_assoc, if_pos hB]
  have hsub : ckSub s2 s1 = .ok (s2 - s1) := by unfold ckSub; rw [if_pos (Nat.le_of_lt hlt)]
  unfold GenC.ct_translate_inplace_eq
  simp only [if_true, Bool.false_eq_true, if_false, ne_eq, not_true_eq_false, hmax, hmin, hsz, not_false_eq_true, hck0, hck1, hck2, hck3,
    hck4, hsub, hlt, bind, Except.bind, pure, Except.pure]
  cases GenP.poly_sub_inplace_ps (GenC.resizeL d1 (s2 * n * mods.length) 0) d2 s1 n mods with
  | error e => rfl
  | ok a =>
    simp only []
    cases GenP.slice a (s1 * (n * mods.length)) (s2 * (n * mods.length)) with
    | error e => rfl
    | ok x =>
      simp only []
      cases GenP.slice d2 (s1 * (n * mods.length)) (s2 * (n * mods.length)) with
      | error e => rfl
      | ok src =>
        simp only []
        cases GenP.copySlice a (s1 * (n * mods.length)) (s2 * (n * mods.length)) src with
        | error e => rfl
        | ok a2 =>
          simp only []
          cases GenP.slice a2 (s1 * (n * mods.length)) (s2 * (n * mods.length)) with
          | error e => rfl
          | ok tl =>
            simp only []
            cases GenP.poly_negate_inplace_ps tl (s2 - s1) n mods with
            | error e => rfl
            | ok o => rfl
end HC
