/-
  C20I: the whole-tensor statement for the 2-D convolution helper of `Model/Matmul.lean` (conv2d.rs), composed from the block
  theorems of C20E / C20F (helpers tagged `c20_`).

    encode the image tiles (`cvEncodeInputs`: batch blocks × overlapping tiles × input-channel blocks, flattened as the code does),
    encode the weights (`cvEncodeWeights`), multiply every (tile, input-channel block) polynomial with the (output-channel block,
    input-channel block) polynomial in S[X]/(X^n + 1) and accumulate over the input-channel blocks (`c20_cvEval`), decode
    (`cvDecodeOutputs`)   =   the VALID cross-correlation  y[b][c][i][j] = Σ_ic Σ_ki Σ_kj x[b][ic][i+ki][j+kj] · w[c][ic][ki][kj]

  for EVERY shape and EVERY block tuple with `b·ci·co·h·w ≤ n`, kernel inside the tile, positive blocks (in particular the tuple the
  model's search returns: `c20_conv2d_search`), in an ARBITRARY commutative ring S.
-/
import Heathcliff.Proofs.C20F
import Heathcliff.Proofs.C20H
namespace HC
open Finset HC.MM

/-! ### index arithmetic -/

theorem c20_divmod {X W j : Nat} (hj : j < W) : (X * W + j) / W = X ∧ (X * W + j) % W = j := by
  have hW : 0 < W := by omega
  constructor
  · rw [Nat.add_comm, Nat.add_mul_div_right _ _ hW, Nat.div_eq_of_lt hj, Nat.zero_add]
  · rw [Nat.add_comm, Nat.add_mul_mod_self_right, Nat.mod_eq_of_lt hj]

/-- a list of `A` lists of `C` items, concatenated, is the list of `A·C` items indexed by quotient and remainder -/
theorem c20_flatten_grid {β : Type} (f : Nat → Nat → β) (A C : Nat) :
    ((List.range A).map fun a => (List.range C).map fun c => f a c).flatten
      = (List.range (A * C)).map fun k => f (k / C) (k % C) := by
  induction A with
  | zero => simp
  | succ A ih =>
    rw [List.range_succ, List.map_append, List.flatten_append, ih, Nat.succ_mul, List.range_add, List.map_append]
    congr 1
    simp only [List.map_cons, List.map_nil, List.flatten_cons, List.flatten_nil, List.append_nil, List.map_map]
    apply List.map_congr_left
    intro c hc
    have hc' : c < C := List.mem_range.mp hc
    obtain ⟨e1, e2⟩ := c20_divmod (X := A) hc'
    show f A c = f ((A * C + c) / C) ((A * C + c) % C)
    rw [e1, e2]

theorem c20_pairs_eq (A C : Nat) : pairs A C = (List.range (A * C)).map fun k => (k / C, k % C) := by
  unfold pairs
  rw [List.flatMap_def]
  exact c20_flatten_grid (fun a c => (a, c)) A C

/-- the flat row-major index of a 4-tensor entry in digit form -/
theorem c20_flat4_eq (C H W b c i j : Nat) : b * C * H * W + c * H * W + i * W + j = ((b * C + c) * H + i) * W + j := by ring

theorem c20_flat4_lt {B C H W b c i j : Nat} (hb : b < B) (hc : c < C) (hi : i < H) (hj : j < W) :
    ((b * C + c) * H + i) * W + j < B * C * H * W := by
  have h1 : b * C + c + 1 ≤ B * C := by
    have := c20_succ_mul_le (ib := C) hb; omega
  have h2 : (b * C + c) * H + i + 1 ≤ B * C * H := by
    have := Nat.mul_le_mul_right H h1
    rw [Nat.succ_mul] at this; omega
  have h3 := Nat.mul_le_mul_right W h2
  rw [Nat.succ_mul] at h3; omega

theorem c20_digits4 {C H W b c i j : Nat} (hc : c < C) (hi : i < H) (hj : j < W) :
    (((b * C + c) * H + i) * W + j) % W = j ∧ (((b * C + c) * H + i) * W + j) / W % H = i ∧
    (((b * C + c) * H + i) * W + j) / W / H % C = c ∧ (((b * C + c) * H + i) * W + j) / W / H / C = b := by
  obtain ⟨a1, a2⟩ := c20_divmod (X := (b * C + c) * H + i) hj
  obtain ⟨b1, b2⟩ := c20_divmod (X := b * C + c) hi
  obtain ⟨c1, c2⟩ := c20_divmod (X := b) hc
  rw [a1, a2, b1, b2, c1, c2]
  exact ⟨rfl, rfl, rfl, rfl⟩

theorem c20_mod_lt_blk {b B bb : Nat} (hbb : 0 < bb) (hb : b < B) : b % bb < min B (b / bb * bb + bb) - b / bb * bb := by
  have er := Nat.div_add_mod' b bb
  have := Nat.mod_lt b hbb
  omega

variable {S : Type}

/-! ### the encoders over all blocks -/

/-- encoded input polynomial: batch block starting at `lb`, tile (t1, t2), input-channel block starting at `lci` -/
def c20_cvInBlk (zero : S) (h : CHelper) (x : Nat → S) (lb t1 t2 lci : Nat) : Array S :=
  c20_val #[] (cvEncInputBlock h zero x lb (min h.S.b (lb + h.bb)) lci (min h.S.ci (lci + h.cib))
    (t1 * (h.hb - (h.S.kh - 1))) (min h.S.h (t1 * (h.hb - (h.S.kh - 1)) + h.hb))
    (t2 * (h.wb - (h.S.kw - 1))) (min h.S.w (t2 * (h.wb - (h.S.kw - 1)) + h.wb)))

/-- encoded weight polynomial: output-channel block starting at `loc`, input-channel block starting at `lic` -/
def c20_cvWBlk (zero : S) (h : CHelper) (w : Nat → S) (loc lic : Nat) : Array S :=
  c20_val #[] (cvEncWeightBlock h zero w loc (min h.S.co (loc + h.cob)) lic (min h.S.ci (lic + h.cib)))

/-- the bundle of block conditions (what the block search establishes) -/
structure c20_CvOK (h : CHelper) : Prop where
  bb : 0 < h.bb
  cib : 0 < h.cib
  cob : 0 < h.cob
  kh : 1 ≤ h.S.kh
  kw : 1 ≤ h.S.kw
  khb : h.S.kh ≤ h.hb
  kwb : h.S.kw ≤ h.wb
  fit : h.bb * (h.cib * h.cob) * (h.hb * h.wb) ≤ h.n

theorem c20_CvOK.fitW {h : CHelper} (ok : c20_CvOK h) : h.cob * h.cib * (h.hb * h.wb) ≤ h.n := by
  have := Nat.le_mul_of_pos_left (h.cib * h.cob * (h.hb * h.wb)) ok.bb
  have e : h.bb * (h.cib * h.cob * (h.hb * h.wb)) = h.bb * (h.cib * h.cob) * (h.hb * h.wb) := by ring
  have e2 : h.cob * h.cib * (h.hb * h.wb) = h.cib * h.cob * (h.hb * h.wb) := by ring
  have := ok.fit
  omega

/-- `encode_inputs_*` over all (batch block, tile, input-channel block): total; the groups are flattened as in the code -/
theorem c20_cvEncodeInputs_ok (zero : S) (h : CHelper) (x : Nat → S) (ok : c20_CvOK h) :
    cvEncodeInputs h zero x (h.S.b * h.S.ci * h.S.h * h.S.w)
      = .ok ((List.range (ceilDiv h.S.b h.bb * (h.sh * h.sw))).map fun eb =>
          (List.range (ceilDiv h.S.ci h.cib)).map fun icb =>
            c20_cvInBlk zero h x (eb / (h.sh * h.sw) * h.bb) (eb % (h.sh * h.sw) / h.sw) (eb % (h.sh * h.sw) % h.sw) (icb * h.cib)) := by
  unfold cvEncodeInputs
  have hkh := ok.kh; have hkw := ok.kw; have hbb := ok.bb; have hcib := ok.cib
  rw [if_neg (by simp), if_neg (by omega)]
  have hg : (blockStarts h.S.b h.bb).mapM (fun lb => (pairs h.sh h.sw).mapM fun (t : Nat × Nat) =>
      (blockStarts h.S.ci h.cib).mapM fun lci =>
        cvEncInputBlock h zero x lb (min h.S.b (lb + h.bb)) lci (min h.S.ci (lci + h.cib))
          (t.1 * (h.hb - (h.S.kh - 1))) (min h.S.h (t.1 * (h.hb - (h.S.kh - 1)) + h.hb))
          (t.2 * (h.wb - (h.S.kw - 1))) (min h.S.w (t.2 * (h.wb - (h.S.kw - 1)) + h.wb)))
      = .ok ((blockStarts h.S.b h.bb).map fun lb => (pairs h.sh h.sw).map fun (t : Nat × Nat) =>
          (blockStarts h.S.ci h.cib).map fun lci => c20_cvInBlk zero h x lb t.1 t.2 lci) := by
    apply c20_mapM_eq
    intro lb _
    apply c20_mapM_eq
    intro t _
    apply c20_mapM_eq
    intro lci _
    obtain ⟨px, hpx, _⟩ := c20_cvEncInput_spec zero h x ok.fit ok.cob lb (min h.S.b (lb + h.bb)) lci (min h.S.ci (lci + h.cib))
      (t.1 * (h.hb - (h.S.kh - 1))) (min h.S.h (t.1 * (h.hb - (h.S.kh - 1)) + h.hb))
      (t.2 * (h.wb - (h.S.kw - 1))) (min h.S.w (t.2 * (h.wb - (h.S.kw - 1)) + h.wb))
      (by omega) (by omega) (by omega) (by omega)
    exact c20_val_ok #[] hpx
  simp only [bind, Except.bind]
  rw [hg]
  show Except.ok (List.flatten _) = _
  congr 1
  simp only [blockStarts, c20_pairs_eq, List.map_map]
  exact c20_flatten_grid (fun g k => (List.range (ceilDiv h.S.ci h.cib)).map fun icb =>
    c20_cvInBlk zero h x (g * h.bb) (k / h.sw) (k % h.sw) (icb * h.cib)) _ _

/-- `encode_weights_*` over all (output-channel block, input-channel block): total (incl. the `encode_polynomial` size check) -/
theorem c20_cvEncodeWeights_ok (zero : S) (h : CHelper) (w : Nat → S) (ok : c20_CvOK h) :
    cvEncodeWeights h zero w (h.S.kh * h.S.kw * h.S.ci * h.S.co)
      = .ok ((List.range (ceilDiv h.S.co h.cob)).map fun ocb => (List.range (ceilDiv h.S.ci h.cib)).map fun icb =>
          c20_cvWBlk zero h w (ocb * h.cob) (icb * h.cib)) := by
  unfold cvEncodeWeights
  have hcib := ok.cib; have hcob := ok.cob
  rw [if_neg (by simp), if_neg (by omega)]
  have : (blockStarts h.S.co h.cob).mapM (fun loc => (blockStarts h.S.ci h.cib).mapM fun lic =>
      cvEncWeightBlock h zero w loc (min h.S.co (loc + h.cob)) lic (min h.S.ci (lic + h.cib)))
      = .ok ((blockStarts h.S.co h.cob).map fun loc => (blockStarts h.S.ci h.cib).map fun lic => c20_cvWBlk zero h w loc lic) := by
    apply c20_mapM_eq
    intro loc _
    apply c20_mapM_eq
    intro lic _
    obtain ⟨pw, hpw, _⟩ := c20_cvEncWeight_spec zero h w ok.fitW ok.khb ok.kwb loc (min h.S.co (loc + h.cob)) lic
      (min h.S.ci (lic + h.cib)) (by omega) (by omega)
    exact c20_val_ok #[] hpw
  rw [this, c20_blocks_eq]

/-! ### the decoder over all blocks -/

/-- the loop nest of `decrypt_outputs_*` / `encode_outputs_*` for group `eb`, output-channel block starting at `lc`, as a predicate -/
theorem c20_mem_cvOutIdx (h : CHelper) (eb lc : Nat) (pi : Nat × Nat) :
    pi ∈ cvOutIdx h eb lc ↔ ∃ q1 q2 q3 q4,
      q1 < min h.S.b (eb / (h.sh * h.sw) * h.bb + h.bb) - eb / (h.sh * h.sw) * h.bb ∧ q2 < min h.S.co (lc + h.cob) - lc ∧
      q3 < h.hb - h.S.kh + 1 ∧ q4 < h.wb - h.S.kw + 1 ∧
      eb % (h.sh * h.sw) / h.sw * (h.hb - h.S.kh + 1) + q3 < h.S.h - h.S.kh + 1 ∧
      eb % h.sw * (h.wb - h.S.kw + 1) + q4 < h.S.w - h.S.kw + 1 ∧
      pi = (cyPos h q1 q2 q3 q4,
        (eb / (h.sh * h.sw) * h.bb + q1) * h.S.co * (h.S.h - h.S.kh + 1) * (h.S.w - h.S.kw + 1)
          + (lc + q2) * (h.S.h - h.S.kh + 1) * (h.S.w - h.S.kw + 1)
          + (eb % (h.sh * h.sw) / h.sw * (h.hb - h.S.kh + 1) + q3) * (h.S.w - h.S.kw + 1)
          + (eb % h.sw * (h.wb - h.S.kw + 1) + q4)) := by
  unfold cvOutIdx
  simp only [List.mem_map, List.mem_filter, c20_mem_quads, decide_eq_true_eq]
  constructor
  · rintro ⟨q, ⟨⟨h1, h2, h3, h4⟩, h5, h6⟩, rfl⟩
    exact ⟨q.1, q.2.1, q.2.2.1, q.2.2.2, h1, h2, h3, h4, h5, h6, rfl⟩
  · rintro ⟨q1, q2, q3, q4, h1, h2, h3, h4, h5, h6, rfl⟩
    exact ⟨(q1, q2, q3, q4), ⟨⟨h1, h2, h3, h4⟩, h5, h6⟩, rfl⟩

/-- the index map of `decrypt_outputs_*` for ANY family of decoded polynomials whose block (eb, ocb) carries, at every position
    the loop nest reads, the value `G` of the flat output index it is written to: the result holds `G k` at every written index -/
theorem c20_cvDecode_spec (zero : S) (h : CHelper) (bufs : List (List (Array S))) (G : Nat → S) (ok : c20_CvOK h)
    (hbufs : ∀ eb ocb, eb < h.totalBatch → ocb < ceilDiv h.S.co h.cob → ∃ buf, getPoly bufs eb ocb = .ok buf ∧
      ∀ pi ∈ cvOutIdx h eb (ocb * h.cob), readAt buf pi.1 = .ok (G pi.2))
    (hbound : ∀ eb ocb, eb < h.totalBatch → ocb < ceilDiv h.S.co h.cob → ∀ pi ∈ cvOutIdx h eb (ocb * h.cob),
      pi.2 < h.S.b * h.S.co * (h.S.h - h.S.kh + 1) * (h.S.w - h.S.kw + 1)) :
    ∃ Y, cvDecodeOutputs h zero bufs = .ok Y ∧ Y.size = h.S.b * h.S.co * (h.S.h - h.S.kh + 1) * (h.S.w - h.S.kw + 1) ∧
      ∀ eb ocb, eb < h.totalBatch → ocb < ceilDiv h.S.co h.cob → ∀ pi ∈ cvOutIdx h eb (ocb * h.cob),
        Y.getD pi.2 zero = G pi.2 := by
  let size := h.S.b * h.S.co * (h.S.h - h.S.kh + 1) * (h.S.w - h.S.kw + 1)
  let ws : List (List (Nat × S)) := (pairs h.totalBatch (ceilDiv h.S.co h.cob)).map fun d =>
    (cvOutIdx h d.1 (d.2 * h.cob)).map fun pi => (pi.2, G pi.2)
  have hmem : ∀ pv, pv ∈ ws.flatten ↔ ∃ d ∈ pairs h.totalBatch (ceilDiv h.S.co h.cob),
      ∃ pi ∈ cvOutIdx h d.1 (d.2 * h.cob), pv = (pi.2, G pi.2) := by
    intro pv
    simp only [ws, List.mem_flatten, List.mem_map]
    constructor
    · rintro ⟨l, ⟨d, hd, rfl⟩, hpv⟩
      obtain ⟨pi, hpi, rfl⟩ := List.mem_map.mp hpv
      exact ⟨d, hd, pi, hpi, rfl⟩
    · rintro ⟨d, hd, pi, hpi, rfl⟩
      exact ⟨_, ⟨d, hd, rfl⟩, List.mem_map.mpr ⟨pi, hpi, rfl⟩⟩
  have hkh := ok.kh; have hkw := ok.kw; have hbb := ok.bb; have hcob := ok.cob
  have hrun : cvDecodeOutputs h zero bufs = scatterA zero size size ws.flatten := by
    unfold cvDecodeOutputs
    rw [if_neg (by omega)]
    have hw : (pairs h.totalBatch (ceilDiv h.S.co h.cob)).mapM (fun (d : Nat × Nat) => do
        let buf ← getPoly bufs d.1 d.2
        (cvOutIdx h d.1 (d.2 * h.cob)).mapM fun (pi : Nat × Nat) => do
          let v ← readAt buf pi.1
          (pure (pi.2, v) : R (Nat × S))) = .ok ws := by
      apply c20_mapM_eq
      intro d hd
      obtain ⟨hd1, hd2⟩ := c20_mem_pairs.mp hd
      obtain ⟨buf, hbuf, hread⟩ := hbufs d.1 d.2 hd1 hd2
      rw [hbuf]
      show (cvOutIdx _ _ _).mapM _ = _
      apply c20_mapM_eq
      intro pi hpi
      rw [hread pi hpi]
      rfl
    simp only []
    rw [hw]
    rfl
  have hb : ∀ pv ∈ ws.flatten, pv.1 < size ∧ pv.1 < (Array.replicate size zero).size := by
    intro pv hpv
    obtain ⟨d, hd, pi, hpi, rfl⟩ := (hmem pv).mp hpv
    obtain ⟨hd1, hd2⟩ := c20_mem_pairs.mp hd
    have := hbound d.1 d.2 hd1 hd2 pi hpi
    simp only [Array.size_replicate]
    exact ⟨this, this⟩
  obtain ⟨Y, hY, hsz, _, hval⟩ := c20_scatter_fold size ws.flatten (Array.replicate size zero) hb
  refine ⟨Y, by rw [hrun]; exact hY, by simpa using hsz, ?_⟩
  intro eb ocb heb hocb pi hpi
  have hin : (pi.2, G pi.2) ∈ ws.flatten :=
    (hmem _).mpr ⟨(eb, ocb), c20_mem_pairs.mpr ⟨heb, hocb⟩, pi, hpi, rfl⟩
  have huniq : ∀ pv ∈ ws.flatten, pv.1 = pi.2 → pv.2 = G pi.2 := by
    intro pv hpv heq
    obtain ⟨d, _, pi', _, rfl⟩ := (hmem pv).mp hpv
    show G pi'.2 = G pi.2
    rw [show pi'.2 = pi.2 from heq]
  have := hval pi.2 (G pi.2) hin huniq
  rw [Array.getD_eq_getD_getElem?, this]; rfl

/-! ### the plaintext-level evaluation and the whole-tensor theorem -/

/-- what `conv2d` computes at plaintext level: output polynomial `[group eb][output-channel block ocb]` is
    `Σ_icb X[eb][icb] ⋆ W[ocb][icb]` in S[X]/(X^n + 1) -/
def c20_cvEvalPoly [CommRing S] (h : CHelper) (X W : List (List (Array S))) (eb ocb : Nat) : Array S :=
  Array.ofFn (n := h.n) fun p => ∑ icb ∈ range (ceilDiv h.S.ci h.cib),
    negMulR h.n (fun q => ((X.getD eb []).getD icb #[]).getD q 0) (fun q => ((W.getD ocb []).getD icb #[]).getD q 0) p.val

def c20_cvEval [CommRing S] (h : CHelper) (X W : List (List (Array S))) : List (List (Array S)) :=
  (List.range h.totalBatch).map fun eb => (List.range (ceilDiv h.S.co h.cob)).map fun ocb => c20_cvEvalPoly h X W eb ocb

/-- the valid cross-correlation (no padding, stride 1): entry (b, c, i, j) of the output tensor -/
def c20_xcorr [CommRing S] (Sh : ConvShape) (x w : Nat → S) (b c i j : Nat) : S :=
  ∑ ic ∈ range Sh.ci, ∑ ki ∈ range Sh.kh, ∑ kj ∈ range Sh.kw,
    x (b * Sh.ci * (Sh.h * Sh.w) + ic * (Sh.h * Sh.w) + (i + ki) * Sh.w + (j + kj))
      * w ((c * Sh.ci + ic) * (Sh.kh * Sh.kw) + ki * Sh.kw + kj)

theorem c20_cyPos_lt {h : CHelper} (ok : c20_CvOK h) {db dc i j : Nat} (hdb : db < h.bb) (hdc : dc < h.cob)
    (hi : i < h.hb - h.S.kh + 1) (hj : j < h.wb - h.S.kw + 1) : cyPos h db dc i j < h.n := by
  have hkh := ok.kh; have hkw := ok.kw; have hkhb := ok.khb; have hkwb := ok.kwb; have hcib := ok.cib
  rw [c20_cyPos_eq h db dc i j ok.cib ok.kh ok.kw ok.khb ok.kwb]
  have e : ((db * h.cob + dc) * h.cib + (h.cib - 1)) * (h.hb * h.wb)
      = db * (h.cib * h.cob) * (h.hb * h.wb) + (dc * h.cib + (h.cib - 1)) * (h.hb * h.wb) := by ring
  rw [e]
  have hc : dc * h.cib + (h.cib - 1) < h.cib * h.cob := by
    have := c20_succ_mul_le (ib := h.cib) hdc
    rw [Nat.mul_comm h.cib h.cob]; omega
  exact c20_pos4_bound (C := h.cib * h.cob) hdb hc (by omega) (by omega) ok.fit

theorem c20_sh_eq {h : CHelper} (ok : c20_CvOK h) (hH : h.S.kh ≤ h.S.h) :
    h.sh = ceilDiv (h.S.h - h.S.kh + 1) (h.hb - h.S.kh + 1) := by
  have := ok.kh; have := ok.khb
  unfold CHelper.sh
  congr 1 <;> omega

theorem c20_sw_eq {h : CHelper} (ok : c20_CvOK h) (hW : h.S.kw ≤ h.S.w) :
    h.sw = ceilDiv (h.S.w - h.S.kw + 1) (h.wb - h.S.kw + 1) := by
  have := ok.kw; have := ok.kwb
  unfold CHelper.sw
  congr 1 <;> omega

/-- **2-D convolution, whole tensor** (any commutative ring, ALL shapes with the kernel inside the image, ALL block tuples with
    positive blocks, kernel inside the tile and `b·ci·co·h·w ≤ n`): encoding the image tiles and the weights with the model's
    encoders, multiplying and accumulating over the input-channel blocks in S[X]/(X^n + 1), and decoding with the model's decoder
    returns the valid cross-correlation, row major `b × co × (H − kh + 1) × (W − kw + 1)`. -/
theorem c20_conv2d_whole [CommRing S] (h : CHelper) (x w : Nat → S) (ok : c20_CvOK h) (hH : h.S.kh ≤ h.S.h) (hW : h.S.kw ≤ h.S.w) :
    ∃ X Wt Y, cvEncodeInputs h 0 x (h.S.b * h.S.ci * h.S.h * h.S.w) = .ok X ∧
      cvEncodeWeights h 0 w (h.S.kh * h.S.kw * h.S.ci * h.S.co) = .ok Wt ∧
      cvDecodeOutputs h 0 (c20_cvEval h X Wt) = .ok Y ∧
      Y.size = h.S.b * h.S.co * (h.S.h - h.S.kh + 1) * (h.S.w - h.S.kw + 1) ∧
      ∀ b c i j, b < h.S.b → c < h.S.co → i < h.S.h - h.S.kh + 1 → j < h.S.w - h.S.kw + 1 →
        Y.getD (b * h.S.co * (h.S.h - h.S.kh + 1) * (h.S.w - h.S.kw + 1) + c * (h.S.h - h.S.kh + 1) * (h.S.w - h.S.kw + 1)
            + i * (h.S.w - h.S.kw + 1) + j) 0 = c20_xcorr h.S x w b c i j := by
  have hkh := ok.kh; have hkw := ok.kw; have hkhb := ok.khb; have hkwb := ok.kwb
  have hbb := ok.bb; have hcib := ok.cib; have hcob := ok.cob
  -- abbreviations
  set T := h.sh * h.sw with hT
  set yh := h.hb - h.S.kh + 1 with hyh
  set yw := h.wb - h.S.kw + 1 with hyw
  set oyh := h.S.h - h.S.kh + 1 with hoyh
  set oyw := h.S.w - h.S.kw + 1 with hoyw
  have htb : h.totalBatch = ceilDiv h.S.b h.bb * T := by unfold CHelper.totalBatch; rw [hT, Nat.mul_assoc]
  -- value by flat output index
  let G : Nat → S := fun k => c20_xcorr h.S x w (k / oyw / oyh / h.S.co) (k / oyw / oyh % h.S.co) (k / oyw % oyh) (k % oyw)
  let X := (List.range (ceilDiv h.S.b h.bb * T)).map fun eb =>
          (List.range (ceilDiv h.S.ci h.cib)).map fun icb =>
            c20_cvInBlk 0 h x (eb / T * h.bb) (eb % T / h.sw) (eb % T % h.sw) (icb * h.cib)
  let Wt := (List.range (ceilDiv h.S.co h.cob)).map fun ocb => (List.range (ceilDiv h.S.ci h.cib)).map fun icb =>
          c20_cvWBlk 0 h w (ocb * h.cob) (icb * h.cib)
  -- facts about the members of the loop nest
  have hfacts : ∀ eb ocb, eb < h.totalBatch → ocb < ceilDiv h.S.co h.cob → ∀ pi ∈ cvOutIdx h eb (ocb * h.cob),
      ∃ q1 q2 q3 q4, q1 < min h.S.b (eb / T * h.bb + h.bb) - eb / T * h.bb ∧ q2 < min h.S.co (ocb * h.cob + h.cob) - ocb * h.cob ∧
        q3 < yh ∧ q4 < yw ∧ eb % T / h.sw * yh + q3 < oyh ∧ eb % h.sw * yw + q4 < oyw ∧
        pi = (cyPos h q1 q2 q3 q4,
          (((eb / T * h.bb + q1) * h.S.co + (ocb * h.cob + q2)) * oyh + (eb % T / h.sw * yh + q3)) * oyw + (eb % h.sw * yw + q4)) := by
    intro eb ocb _ _ pi hpi
    obtain ⟨q1, q2, q3, q4, h1, h2, h3, h4, h5, h6, rfl⟩ := (c20_mem_cvOutIdx h eb (ocb * h.cob) pi).mp hpi
    exact ⟨q1, q2, q3, q4, h1, h2, h3, h4, h5, h6, by rw [c20_flat4_eq]⟩
  obtain ⟨Y, hY, hsz, hval⟩ := c20_cvDecode_spec (0 : S) h (c20_cvEval h X Wt) G ok
    (by
      intro eb ocb heb hocb
      refine ⟨c20_cvEvalPoly h X Wt eb ocb, ?_, ?_⟩
      · unfold c20_cvEval
        exact c20_getPoly_grid _ _ _ _ _ heb hocb
      · intro pi hpi
        obtain ⟨q1, q2, q3, q4, h1, h2, h3, h4, h5, h6, rfl⟩ := hfacts eb ocb heb hocb pi hpi
        have hlt : cyPos h q1 q2 q3 q4 < h.n := c20_cyPos_lt ok (by omega) (by omega) h3 h4
        have hb' : eb / T * h.bb + q1 < h.S.b := by omega
        have hc' : ocb * h.cob + q2 < h.S.co := by omega
        obtain ⟨d1, d2, d3, d4⟩ := c20_digits4 (b := eb / T * h.bb + q1) hc' h5 h6
        show readAt _ (cyPos h q1 q2 q3 q4) = Except.ok (G _)
        unfold readAt c20_cvEvalPoly
        rw [Array.getElem?_eq_getElem (by simpa using hlt), Array.getElem_ofFn]
        show Except.ok _ = Except.ok _
        congr 1
        show _ = c20_xcorr h.S x w _ _ _ _
        rw [d1, d2, d3, d4]
        unfold c20_xcorr
        rw [← c20_sum_blocks (fun ic => ∑ ki ∈ range h.S.kh, ∑ kj ∈ range h.S.kw,
            x ((eb / T * h.bb + q1) * h.S.ci * (h.S.h * h.S.w) + ic * (h.S.h * h.S.w)
                + (eb % T / h.sw * yh + q3 + ki) * h.S.w + (eb % h.sw * yw + q4 + kj))
              * w (((ocb * h.cob + q2) * h.S.ci + ic) * (h.S.kh * h.S.kw) + ki * h.S.kw + kj)) h.cib h.S.ci hcib]
        apply Finset.sum_congr rfl
        intro icb hicb
        have hicb' : icb < ceilDiv h.S.ci h.cib := Finset.mem_range.mp hicb
        have hebT : eb < ceilDiv h.S.b h.bb * T := by rw [← htb]; exact heb
        have hmod : eb % T % h.sw = eb % h.sw := Nat.mod_mod_of_dvd eb (Dvd.intro_left h.sh rfl)
        have hst1 : eb % T / h.sw * (h.hb - (h.S.kh - 1)) = eb % T / h.sw * yh := by congr 1; omega
        have hst2 : eb % h.sw * (h.wb - (h.S.kw - 1)) = eb % h.sw * yw := by congr 1; omega
        obtain ⟨px, pw, hpx, hpw, heq⟩ := c20_conv2d_coeff h x w ok.fit hkh hkw hkhb hkwb
          (eb / T * h.bb) (min h.S.b (eb / T * h.bb + h.bb)) (icb * h.cib) (min h.S.ci (icb * h.cib + h.cib))
          (eb % T / h.sw * (h.hb - (h.S.kh - 1))) (min h.S.h (eb % T / h.sw * (h.hb - (h.S.kh - 1)) + h.hb))
          (eb % h.sw * (h.wb - (h.S.kw - 1))) (min h.S.w (eb % h.sw * (h.wb - (h.S.kw - 1)) + h.wb))
          (ocb * h.cob) (min h.S.co (ocb * h.cob + h.cob))
          (by omega) (by omega) (by omega) (by omega) (by omega) q1 q2 q3 q4 h1 h2
          (by rw [hst1]; omega) (by rw [hst2]; omega)
        have eX : (X.getD eb []).getD icb #[] = px := by
          show ((List.map _ (List.range _)).getD eb []).getD icb #[] = px
          rw [c20_range_map_getD _ _ _ _ hebT, c20_range_map_getD _ _ _ _ hicb']
          unfold c20_cvInBlk
          rw [hmod, hpx]; rfl
        have eW : (Wt.getD ocb []).getD icb #[] = pw := by
          show ((List.map _ (List.range _)).getD ocb []).getD icb #[] = pw
          rw [c20_range_map_getD _ _ _ _ hocb, c20_range_map_getD _ _ _ _ hicb']
          unfold c20_cvWBlk
          rw [hpw]; rfl
        rw [eX, eW, heq]
        apply Finset.sum_congr rfl; intro ic _
        apply Finset.sum_congr rfl; intro ki _
        apply Finset.sum_congr rfl; intro kj _
        rw [hst1, hst2]
        congr 2
        ring)
    (by
      intro eb ocb heb hocb pi hpi
      obtain ⟨q1, q2, q3, q4, h1, h2, h3, h4, h5, h6, rfl⟩ := hfacts eb ocb heb hocb pi hpi
      exact c20_flat4_lt (by omega) (by omega) h5 h6)
  refine ⟨X, Wt, Y, ?_, c20_cvEncodeWeights_ok 0 h w ok, hY, hsz, ?_⟩
  · rw [c20_cvEncodeInputs_ok 0 h x ok]
  · intro b c i j hb hc hi hj
    -- the block and the loop indices that write entry (b, c, i, j)
    have hyh0 : 0 < yh := by omega
    have hyw0 : 0 < yw := by omega
    have ht1 : i / yh < h.sh := by rw [c20_sh_eq ok hH]; exact c20_div_lt_ceilDiv hyh0 hi
    have ht2 : j / yw < h.sw := by rw [c20_sw_eq ok hW]; exact c20_div_lt_ceilDiv hyw0 hj
    have hob : b / h.bb < ceilDiv h.S.b h.bb := c20_div_lt_ceilDiv hbb hb
    have hocb : c / h.cob < ceilDiv h.S.co h.cob := c20_div_lt_ceilDiv hcob hc
    have htl : i / yh * h.sw + j / yw < T := by
      have := c20_succ_mul_le (ib := h.sw) ht1; omega
    obtain ⟨e1, e2⟩ := c20_divmod (X := b / h.bb) htl
    obtain ⟨e3, e4⟩ := c20_divmod (X := i / yh) ht2
    have e5 : (b / h.bb * T + (i / yh * h.sw + j / yw)) % h.sw = j / yw := by
      have : b / h.bb * T + (i / yh * h.sw + j / yw) = (b / h.bb * h.sh + i / yh) * h.sw + j / yw := by rw [hT]; ring
      rw [this]; exact (c20_divmod ht2).2
    have heb : b / h.bb * T + (i / yh * h.sw + j / yw) < h.totalBatch := by
      rw [htb]
      have := c20_succ_mul_le (ib := T) hob; omega
    have er := Nat.div_add_mod' b h.bb
    have ec := Nat.div_add_mod' c h.cob
    have ei := Nat.div_add_mod' i yh
    have ej := Nat.div_add_mod' j yw
    have hmb := Nat.mod_lt b hbb
    have hmc := Nat.mod_lt c hcob
    have hmi := Nat.mod_lt i hyh0
    have hmj := Nat.mod_lt j hyw0
    have hpi : (cyPos h (b % h.bb) (c % h.cob) (i % yh) (j % yw),
        b * h.S.co * oyh * oyw + c * oyh * oyw + i * oyw + j) ∈
          cvOutIdx h (b / h.bb * T + (i / yh * h.sw + j / yw)) (c / h.cob * h.cob) := by
      rw [c20_mem_cvOutIdx]
      simp only [← hT, ← hyh, ← hyw, ← hoyh, ← hoyw]
      refine ⟨b % h.bb, c % h.cob, i % yh, j % yw, ?_, ?_, hmi, hmj, ?_, ?_, ?_⟩
      · rw [e1]; exact c20_mod_lt_blk hbb hb
      · exact c20_mod_lt_blk hcob hc
      · rw [e2, e3]; omega
      · rw [e5]; omega
      · rw [e1, e2, e3, e5, er, ec, ei, ej]
    have := hval _ _ heb hocb _ hpi
    rw [this]
    show c20_xcorr h.S x w _ _ _ _ = _
    rw [c20_flat4_eq]
    obtain ⟨d1, d2, d3, d4⟩ := c20_digits4 (b := b) hc hi hj
    rw [d1, d2, d3, d4]

/-- **... for the blocks the model's search returns**: every admissible shape (positive dimensions ≤ 2^15, kernel inside the image,
    `kh·kw ≤ N`), every objective -/
theorem c20_conv2d_search [CommRing S] (Sh : ConvShape) (N : Nat) (obj : Objective) (hb : 1 ≤ Sh.b) (hci : 1 ≤ Sh.ci)
    (hco : 1 ≤ Sh.co) (hkh : 1 ≤ Sh.kh) (hkw : 1 ≤ Sh.kw) (hh : Sh.kh ≤ Sh.h) (hw : Sh.kw ≤ Sh.w) (hN : Sh.kh * Sh.kw ≤ N)
    (hsz : Sh.b ≤ 2^15 ∧ Sh.ci ≤ 2^15 ∧ Sh.co ≤ 2^15 ∧ Sh.h ≤ 2^15 ∧ Sh.w ≤ 2^15) (x w : Nat → S) :
    ∃ X Wt Y, cvEncodeInputs (CHelper.new Sh N obj) 0 x (Sh.b * Sh.ci * Sh.h * Sh.w) = .ok X ∧
      cvEncodeWeights (CHelper.new Sh N obj) 0 w (Sh.kh * Sh.kw * Sh.ci * Sh.co) = .ok Wt ∧
      cvDecodeOutputs (CHelper.new Sh N obj) 0 (c20_cvEval (CHelper.new Sh N obj) X Wt) = .ok Y ∧
      Y.size = Sh.b * Sh.co * (Sh.h - Sh.kh + 1) * (Sh.w - Sh.kw + 1) ∧
      ∀ b c i j, b < Sh.b → c < Sh.co → i < Sh.h - Sh.kh + 1 → j < Sh.w - Sh.kw + 1 →
        Y.getD (b * Sh.co * (Sh.h - Sh.kh + 1) * (Sh.w - Sh.kw + 1) + c * (Sh.h - Sh.kh + 1) * (Sh.w - Sh.kw + 1)
            + i * (Sh.w - Sh.kw + 1) + j) 0 = c20_xcorr Sh x w b c i j := by
  obtain ⟨b1, _, h1, _, w1, _, ci1, _, co1, _, hfit⟩ := c20_cvSearch_sound Sh N obj hb hci hco hkh hkw hh hw hN hsz
  have ok : c20_CvOK (CHelper.new Sh N obj) :=
    ⟨b1, ci1, co1, hkh, hkw, h1, w1, by
      show (cvSearch Sh N obj).b * ((cvSearch Sh N obj).ci * (cvSearch Sh N obj).co) * ((cvSearch Sh N obj).h * (cvSearch Sh N obj).w) ≤ N
      have e : (cvSearch Sh N obj).b * ((cvSearch Sh N obj).ci * (cvSearch Sh N obj).co) * ((cvSearch Sh N obj).h * (cvSearch Sh N obj).w)
          = (cvSearch Sh N obj).ci * (cvSearch Sh N obj).co * (cvSearch Sh N obj).w * (cvSearch Sh N obj).h * (cvSearch Sh N obj).b := by ring
      rw [e]; exact hfit⟩
  exact c20_conv2d_whole (CHelper.new Sh N obj) x w ok hh hw

end HC
