import Heathcliff.Proofs.GenRns7
import Heathcliff.Proofs.GenRns9

/-!
  Phase 4k of the translator tie: `RNSTool::fastbconv_sk` generated from src/util/rns.rs EQUALS the hand model's `RNSTool.fastbconvSk` on the flat
  layout; the two receiver calls `self.base_B_to_q_conv.fast_convert_array(..)`, `self.base_B_to_m_sk_conv.fast_convert_array(..)` are the GENERATED
  `fast_convert_array` on the fields of the model's `bToQ`, `bToMsk` (`gr_convF`).  Helper names start with `gr_`.
-/
namespace HC
open HC.GenW HC.GenR

/-- the hand model computed to the closed form of the generated code -/
theorem gr_sk_model (r : RNSTool) (p destA tempA : RnsPoly)
    (hdest : r.bToQ.fastConvertArray (p.extract 0 r.baseB.size) r.n = .ok destA)
    (htemp : r.bToMsk.fastConvertArray (p.extract 0 r.baseB.size) r.n = .ok tempA)
    (hn : (tempA.getD 0 #[]).size = r.n) :
    r.fastbconvSk p = ((List.range' 0 r.n).mapM (fun j => gr_skAlpha r.mSk r.invProdBModMsk ((tempA.getD 0 #[]).toList.getD j 0)
          ((p.getD r.baseB.size #[]).toList.getD j 0)) >>= fun alpha =>
        (List.range' 0 r.baseQ.size).mapM (fun i => gr_skComp (r.baseQ.q i) r.mSk (r.prodBModQ.getD i 0) (r.mSk.value / 2) r.n alpha (destA.getD i #[]).toList)
          >>= fun outs => .ok (outs.map List.toArray).toArray) := by
  unfold RNSTool.fastbconvSk
  dsimp only
  rw [hdest, gr_ok_bind, htemp, gr_ok_bind, gr_zipM'_eq, hn]
  have hA : (List.range' 0 r.n).mapM (fun j => (do
        let d ← ckSub r.mSk.value ((p.getD r.baseB.size #[]).toList.getD j 0)
        let s ← ckAdd ((tempA.getD 0 #[]).toList.getD j 0) d
        mulOperandMod s r.invProdBModMsk r.mSk))
      = (List.range' 0 r.n).mapM (fun j => gr_skAlpha r.mSk r.invProdBModMsk ((tempA.getD 0 #[]).toList.getD j 0)
          ((p.getD r.baseB.size #[]).toList.getD j 0)) := gr_mapM_congr _ _ _ (fun j _ => rfl)
  rw [hA]
  cases hm : (List.range' 0 r.n).mapM (fun j => gr_skAlpha r.mSk r.invProdBModMsk ((tempA.getD 0 #[]).toList.getD j 0)
          ((p.getD r.baseB.size #[]).toList.getD j 0)) with
  | error e => rfl
  | ok alpha =>
    have hal : alpha.length = r.n := by rw [gr_mapM_length _ _ _ hm, List.length_range']
    simp only [gr_ok_bind]
    refine Eq.trans (congrArg (fun m => m >>= _) (gr_mapM_congr _ (fun i => gr_skComp (r.baseQ.q i) r.mSk (r.prodBModQ.getD i 0) (r.mSk.value / 2) r.n alpha
        (destA.getD i #[]).toList >>= fun c => .ok c.toArray) _ ?hb)) ?rest
    case hb =>
      intro i _
      unfold gr_skComp
      cases MulOperand.new (r.prodBModQ.getD i 0) (r.baseQ.q i) with
      | error e => rfl
      | ok pb =>
        simp only [gr_ok_bind]
        cases ckSub (r.baseQ.q i).value (r.prodBModQ.getD i 0) with
        | error e => rfl
        | ok v =>
          simp only [gr_ok_bind]
          cases MulOperand.new v (r.baseQ.q i) with
          | error e => rfl
          | ok npb =>
            simp only [gr_ok_bind]
            rw [gr_zipM'_eq]
            simp only [List.size_toArray, hal]
            have hcg : (List.range' 0 r.n).mapM (fun j =>
                  if alpha.getD j 0 > r.mSk.value / 2 then do
                    let na ← negateMod (alpha.getD j 0) r.mSk
                    mulOperandAddMod na pb ((destA.getD i #[]).toList.getD j 0) (r.baseQ.q i)
                  else mulOperandAddMod (alpha.getD j 0) npb ((destA.getD i #[]).toList.getD j 0) (r.baseQ.q i))
                = (List.range' 0 r.n).mapM (fun j => gr_skElt (r.baseQ.q i) r.mSk pb npb (r.mSk.value / 2) (alpha.getD j 0)
                    ((destA.getD i #[]).toList.getD j 0)) := gr_mapM_congr _ _ _ (fun j _ => rfl)
            rw [hcg]
    case rest =>
      rw [List.range_eq_range', gr_mapM_map_ok]
      cases (List.range' 0 r.baseQ.size).mapM (fun i => gr_skComp (r.baseQ.q i) r.mSk (r.prodBModQ.getD i 0) (r.mSk.value / 2) r.n alpha
          (destA.getD i #[]).toList) with
      | error e => rfl
      | ok outs => rfl

/-- **`RNSTool::fastbconv_sk` (generated from src/util/rns.rs) = the hand model `RNSTool.fastbconvSk`**; input = flat buffer of the `|B| + 1` components
    (base B, then m_sk), destination = ANY flat buffer of `|q|` components.  The α_sk loop (`m_sk − x`, `temp + …`), the operand set-up
    `MultiplyU64ModOperand::new`, `b − [B]_b`, `negate_u64_mod`, the multiply-add trap on both sides alike. -/
theorem gr_fastbconv_sk_eq (r : RNSTool) (p d : RnsPoly)
    (hc1 : gr_ConvOK r.bToQ r.baseB.size r.baseQ.size) (hc2 : gr_ConvOK r.bToMsk r.baseB.size 1)
    (hp1 : p.size = r.baseB.size + 1) (hp2 : ∀ i, i < r.baseB.size + 1 → (p.getD i #[]).size = r.n)
    (hw : ∀ i j, i < r.baseB.size → j < r.n → (p.getD i #[]).getD j 0 < 2^64)
    (hd1 : d.size = r.baseQ.size) (hd2 : ∀ i, i < r.baseQ.size → (d.getD i #[]).size = r.n)
    (hpq : r.prodBModQ.size = r.baseQ.size) (hpqw : ∀ x ∈ r.prodBModQ, x < 2^64) (hqw : ∀ i, i < r.baseQ.size → (r.baseQ.q i).value < 2^64)
    (hsn : r.baseQ.size * r.n < 2^64) (hbn : (r.baseB.size + 1) * r.n < 2^64) :
    GenR.fastbconv_sk (flatP p) (flatP d) r.baseQ.size r.baseB.size r.n r.mSk r.invProdBModMsk r.baseQ.base.toList r.prodBModQ.toList
        (gr_convF r.bToQ) (gr_convF r.bToMsk)
      = (r.fastbconvSk p).map flatP := by
  obtain ⟨hi1, ho1, hM1, hsi1, hso1⟩ := hc1
  obtain ⟨hi2, ho2, hM2, hsi2, hso2⟩ := hc2
  obtain ⟨hcs, hn⟩ := gr_shape_cs' hp1 hp2
  obtain ⟨hds, hdn⟩ := gr_shape_cs' hd1 hd2
  have hle : r.baseB.size * r.n ≤ (r.baseB.size + 1) * r.n := Nat.mul_le_mul_right _ (by omega)
  have hn64 : r.n ≤ (r.baseB.size + 1) * r.n := Nat.le_mul_of_pos_left _ (by omega)
  have hexg : ∀ i, i < r.baseB.size → (p.extract 0 r.baseB.size).getD i #[] = p.getD i #[] := fun i hi' => gr_extract_getD p _ i (by omega) hi'
  -- conversion B → q
  have hex1 : (p.extract 0 r.baseB.size).size = r.bToQ.ibase.size := by simp; omega
  have hexw1 : ∀ i j, i < r.bToQ.ibase.size → j < r.n → ((p.extract 0 r.baseB.size).getD i #[]).getD j 0 < 2^64 := by
    intro i j hi' hj; rw [hexg i (by omega)]; exact hw i j (by omega) hj
  have hmodel1 := gr_fca_model r.bToQ hi1 ho1 hM1 (p.extract 0 r.baseB.size) r.n hex1 hexw1
  obtain ⟨hA1, hA2⟩ := gr_fca_model_shape r.bToQ (p.extract 0 r.baseB.size) r.n
  generalize hdestA : (((List.range r.bToQ.obase.size).map (fun o => ((List.range r.n).map (fun j => gr_fcaD r.bToQ (p.extract 0 r.baseB.size) o j)).toArray)).toArray : RnsPoly) = destA at hmodel1 hA1 hA2
  have hF1 : gr_convF r.bToQ ((p.toList.map Array.toList).take r.baseB.size).flatten (flatP d) = .ok (flatP destA) := by
    rw [← gr_flatP_extract]
    unfold gr_convF
    rw [gr_fca_core r.bToQ hi1 ho1 hM1 (p.extract 0 r.baseB.size) d r.n hex1
      (fun i hi' => by rw [hexg i (by omega)]; exact hp2 i (by omega)) hexw1 (by omega) (fun i hi' => hd2 i (by omega)) (by rw [hsi1]; omega) (by rw [hso1]; omega), hmodel1]
    rfl
  -- conversion B → {m_sk}
  have hex2 : (p.extract 0 r.baseB.size).size = r.bToMsk.ibase.size := by simp; omega
  have hexw2 : ∀ i j, i < r.bToMsk.ibase.size → j < r.n → ((p.extract 0 r.baseB.size).getD i #[]).getD j 0 < 2^64 := by
    intro i j hi' hj; rw [hexg i (by omega)]; exact hw i j (by omega) hj
  have hmodel2 := gr_fca_model r.bToMsk hi2 ho2 hM2 (p.extract 0 r.baseB.size) r.n hex2 hexw2
  obtain ⟨hB1, hB2⟩ := gr_fca_model_shape r.bToMsk (p.extract 0 r.baseB.size) r.n
  generalize htempA : (((List.range r.bToMsk.obase.size).map (fun o => ((List.range r.n).map (fun j => gr_fcaD r.bToMsk (p.extract 0 r.baseB.size) o j)).toArray)).toArray : RnsPoly) = tempA at hmodel2 hB1 hB2
  have hts : tempA.size = 1 := by rw [hB1, hso2]
  have htn : (tempA.getD 0 #[]).size = r.n := hB2 0 (by omega)
  have hflatT : flatP tempA = (tempA.getD 0 #[]).toList := by
    unfold flatP
    have h1 : tempA.toList.map Array.toList = [(tempA.getD 0 #[]).toList] := by
      apply List.ext_getElem
      · simp [hts]
      · intro i h1 h2
        have hi0 : i = 0 := by simpa [hts] using h1
        subst hi0
        have h0 : 0 < tempA.size := by omega
        simp [Array.getD, h0]
    rw [h1]; simp
  have hF2 : gr_convF r.bToMsk ((p.toList.map Array.toList).take r.baseB.size).flatten (List.replicate r.n 0) = .ok (tempA.getD 0 #[]).toList := by
    rw [← gr_flatP_extract, ← hflatT]
    have hz : List.replicate r.n 0 = flatP (Array.replicate 1 (Array.replicate r.n 0)) := by rw [gr_flatP_zero]; simp
    rw [hz]
    unfold gr_convF
    rw [gr_fca_core r.bToMsk hi2 ho2 hM2 (p.extract 0 r.baseB.size) (Array.replicate 1 (Array.replicate r.n 0)) r.n hex2
      (fun i hi' => by rw [hexg i (by omega)]; exact hp2 i (by omega)) hexw2 (by simp [hso2])
      (fun i hi' => by rw [hso2] at hi'; simp [Array.getD, hi']) (by rw [hsi2]; omega) (by rw [hso2]; omega), hmodel2]
    rfl
  obtain ⟨hvs, hvn⟩ := gr_shape_cs' (hso1 ▸ hA1) (fun i hi' => hA2 i (by omega))
  have hgen := gr_sk_list (p.toList.map Array.toList) (d.toList.map Array.toList) r.baseQ.size r.baseB.size r.n r.baseQ.base.toList r.prodBModQ.toList
    r.mSk r.invProdBModMsk (gr_convF r.bToQ) (gr_convF r.bToMsk) (destA.toList.map Array.toList) (tempA.getD 0 #[]).toList hcs hn
    (by simp [RNSBase.size]) (by simpa using hpq) (by intro x hx; exact hpqw x (by simpa using hx))
    (by intro i hi'; rw [gr_q_toList]; exact hqw i hi') hsn hbn hvs hvn (by rw [Array.length_toList]; exact htn) hF1 hF2
  unfold flatP at hgen ⊢
  rw [hgen, gr_sk_model r p destA tempA hmodel1 hmodel2 htn]
  simp only [gr_q_toList, gr_cs_getD]
  cases (List.range' 0 r.n).mapM (fun j => gr_skAlpha r.mSk r.invProdBModMsk ((tempA.getD 0 #[]).toList.getD j 0)
          ((p.getD r.baseB.size #[]).toList.getD j 0)) with
  | error e => rfl
  | ok alpha =>
    simp only [gr_ok_bind]
    have hpqg : ∀ i, r.prodBModQ.toList.getD i 0 = r.prodBModQ.getD i 0 := fun i => (gr_arr_getD _ _).symm
    simp only [hpqg]
    cases (List.range' 0 r.baseQ.size).mapM (fun i => gr_skComp (r.baseQ.q i) r.mSk (r.prodBModQ.getD i 0) (r.mSk.value / 2) r.n alpha
          (destA.getD i #[]).toList) with
    | error e => rfl
    | ok outs =>
      simp only [gr_ok_bind]
      show Except.ok _ = Except.ok _
      congr 1
      simp [List.map_map, Function.comp_def]

end HC
