import Heathcliff.Gen.EvalFns
import Heathcliff.Model.Evaluator
import Heathcliff.Proofs.GenWord
import Heathcliff.Proofs.C02K
import Mathlib.Tactic.Linarith
import Mathlib.Tactic.Ring
import Mathlib.Tactic.NormNum

/-!
  Translator tie (phase 3) for src/evaluator.rs: `Evaluator::balance_correction_factors` generated into
  `Heathcliff/Gen/EvalFns.lean` (namespace `HC.GenE`) against `balanceCorrectionFactors` of `Heathcliff/Model/Evaluator.lean`.
  The code performs ~12 overflow-checked i64 operations per iteration that the hand model does not check (`x as i64 - t as i64`,
  `abs`, `+`, `/`, `%`, `q * b`); the invariants of the extended Euclid (0 ≤ a ≤ prev_a ≤ t, alternating signs with
  |b|·prev_a + |prev_b|·a = t) show that none of them can trap.  Helper names start with `gy_`.
-/
namespace HC
open HC.GenE

/-- `.ok a >>= f = f a`, deliberately NOT a `rfl`-lemma: `simp` then builds an explicit congruence proof instead of asking the kernel
    to re-check a definitional equality between large `do` blocks (which ends in "deep recursion") -/
theorem gy_ok_bind {α β : Type} (a : α) (f : α → R β) : ((Except.ok a : R α) >>= f) = f a := Eq.trans rfl rfl
theorem gy_err_bind {α β : Type} (e : Err) (f : α → R β) : ((Except.error e : R α) >>= f) = .error e := Eq.trans rfl rfl
theorem gy_pure_eq {α : Type} (a : α) : (pure a : R α) = .ok a := Eq.trans rfl rfl

/-- balanced representative as the code's closure `sum_abs` and the hand model compute it -/
def gy_bal (t x : Nat) : Int := if x > t / 2 then (x : Int) - t else x

theorem gy_bal_bound (t x : Nat) (ht : t < 2^61) (hx : x < 2^62) : (gy_bal t x).natAbs < 2^62 := by
  unfold gy_bal; split <;> omega

theorem gy_balpart (t x : Nat) (ht : t < 2^61) (hx : x < 2^62) :
    (if x > t / 2 then ckI64 ((x : Int) - (t : Int)) else (pure (x : Int) : R Int)) = .ok (gy_bal t x) := by
  unfold gy_bal
  by_cases h : x > t / 2
  · rw [if_pos h, if_pos h, ckI64_ok (by omega) (by omega)]
  · rw [if_neg h, if_neg h]; rfl

theorem gy_absck (v : Int) (h : v.natAbs < 2^62) : ckI64 (Int.ofNat v.natAbs) = .ok (v.natAbs : Int) := by
  rw [ckI64_ok (by simp only [Int.ofNat_eq_natCast]; omega) (by simp only [Int.ofNat_eq_natCast]; omega)]; rfl


theorem gy_closure1_eq (t x y : Nat) (ht : t < 2^61) (hx : x < 2^62) (hy : y < 2^62) :
    GenE.balance_correction_factors_closure1 t (t >>> 1) x y
      = .ok (((gy_bal t x).natAbs + (gy_bal t y).natAbs : Nat) : Int) := by
  have hxa : asI64 x = (x : Int) := asI64_small (by omega)
  have hya : asI64 y = (y : Int) := asI64_small (by omega)
  have hta : asI64 t = (t : Int) := asI64_small (by omega)
  have b1 := gy_bal_bound t x ht hx
  have b2 := gy_bal_bound t y ht hy
  unfold GenE.balance_correction_factors_closure1
  simp only [hxa, hya, hta,Nat.shiftRight_eq_div_pow, Nat.pow_one, gy_balpart t x ht hx, gy_balpart t y ht hy, gy_ok_bind,
    gy_absck _ b1, gy_absck _ b2]
  rw [ckI64_ok (by omega) (by omega)]
  simp only [Nat.cast_add]

theorem gy_div_ok (p a : Int) (ha : 0 < a) (hp0 : 0 ≤ p) (hp : p < 2^62) : GenW.ckDivI64 p a = .ok (Int.tdiv p a) := by
  unfold GenW.ckDivI64
  have h0 : 0 ≤ Int.tdiv p a := Int.tdiv_nonneg hp0 ha.le
  have h1 : Int.tdiv p a ≤ p := by
    have := Int.tdiv_le_self (b := a) hp0; exact this
  rw [if_neg (by omega), ckI64_ok (by omega) (by omega)]

theorem gy_mod_ok (p a : Int) (ha : 0 < a) : GenW.ckModI64 p a = .ok (Int.tmod p a) := by
  unfold GenW.ckModI64
  rw [if_neg (by omega), if_neg (by omega)]

/-- the invariant of the extended Euclid in `balance_correction_factors` (signs of the cofactors alternate) -/
def gy_Inv (t : Int) (prevA a prevB b : Int) : Prop :=
  0 ≤ a ∧ a ≤ prevA ∧ prevA ≤ t ∧
  ((0 ≤ b ∧ prevB ≤ 0 ∧ b * prevA - prevB * a = t) ∨ (b ≤ 0 ∧ 0 ≤ prevB ∧ prevB * a - b * prevA = t))

theorem gy_inv_step {t prevA a prevB b : Int} (h : gy_Inv t prevA a prevB b) (ha : a ≠ 0) :
    gy_Inv t a (Int.tmod prevA a) b (prevB - Int.tdiv prevA a * b) ∧
    -t ≤ Int.tdiv prevA a * b ∧ Int.tdiv prevA a * b ≤ t ∧
    -t ≤ prevB - Int.tdiv prevA a * b ∧ prevB - Int.tdiv prevA a * b ≤ t ∧ 0 ≤ Int.tmod prevA a := by
  obtain ⟨ha0, hale, hPt, hinv⟩ := h
  have hapos : 0 < a := by omega
  have hr0 : 0 ≤ Int.tmod prevA a := Int.tmod_nonneg _ (by omega)
  have hr1 : Int.tmod prevA a < a := Int.tmod_lt_of_pos _ hapos
  have hdef : Int.tmod prevA a = prevA - a * Int.tdiv prevA a := Int.tmod_def _ _
  have hq : 1 ≤ Int.tdiv prevA a := by
    by_contra hq
    have : Int.tdiv prevA a ≤ 0 := by omega
    nlinarith
  generalize Int.tmod prevA a = a' at *
  generalize Int.tdiv prevA a = q at *
  have hinv' : ((0 ≤ prevB - q * b ∧ b ≤ 0 ∧ (prevB - q * b) * a - b * a' = t) ∨
      (prevB - q * b ≤ 0 ∧ 0 ≤ b ∧ b * a' - (prevB - q * b) * a = t)) := by
    rcases hinv with ⟨hb0, hpb, heq⟩ | ⟨hb0, hpb, heq⟩
    · right
      refine ⟨by nlinarith, hb0, ?_⟩
      rw [hdef]; linear_combination heq
    · left
      refine ⟨by nlinarith, hb0, ?_⟩
      rw [hdef]; linear_combination heq
  have hbnd : -t ≤ prevB - q * b ∧ prevB - q * b ≤ t := by
    rcases hinv' with ⟨h1, h2, heq⟩ | ⟨h1, h2, heq⟩
    · constructor
      · omega
      · nlinarith
    · constructor
      · nlinarith
      · omega
  have hqb : -t ≤ q * b ∧ q * b ≤ t := by
    rcases hinv with ⟨hb0, hpb, heq⟩ | ⟨hb0, hpb, heq⟩
    · constructor
      · nlinarith
      · nlinarith
    · constructor
      · nlinarith
      · nlinarith
  exact ⟨⟨hr0, hr1.le, by omega, hinv'⟩, hqb.1, hqb.2, hbnd.1, hbnd.2, hr0⟩
theorem gy_barrett_ok {t : Modulus} (ht : t.WF) (x : Nat) (hx : x < 2^64) : GenW.barrett_reduce_u64 x t = .ok (x % t.value) := by
  rw [gw_barrett_reduce_u64_eq, barrett64_exact ht hx]
theorem gy_negate_ok {t : Modulus} (ht : t.WF) (x : Nat) (hx : x ≤ t.value) : GenW.negate_u64_mod x t = .ok ((t.value - x) % t.value) := by
  rw [gw_negate_u64_mod_eq, negateMod_exact ht hx]

def gy_step (t : Modulus) (prevA a prevB b : Int) (e1 e2 : Nat) (sum : Int) : Nat × Nat × Int :=
  if c02k_red (Int.tmod prevA a) t.value ≠ 0 ∧ gcdU64 (c02k_red (Int.tmod prevA a) t.value) t.value = 1 then
    if ((((gy_bal t.value (c02k_red (Int.tmod prevA a) t.value)).natAbs +
          (gy_bal t.value (c02k_red (prevB - Int.tdiv prevA a * b) t.value)).natAbs : Nat) : Int)) < sum then
      (c02k_red (Int.tmod prevA a) t.value, c02k_red (prevB - Int.tdiv prevA a * b) t.value,
        (((gy_bal t.value (c02k_red (Int.tmod prevA a) t.value)).natAbs +
          (gy_bal t.value (c02k_red (prevB - Int.tdiv prevA a * b) t.value)).natAbs : Nat) : Int))
    else (e1, e2, sum)
  else (e1, e2, sum)

theorem gy_step_gen {t : Modulus} (ht : t.WF) (f1 fuel : Nat) (prevA a prevB b : Int) (e1 e2 : Nat) (sum : Int)
    (hI : gy_Inv t.value prevA a prevB b) (hne : a ≠ 0) :
    GenE.balance_correction_factors_loop1 f1 t t.value (t.value >>> 1) (fuel+1) e1 e2 sum prevA prevB a b =
    GenE.balance_correction_factors_loop1 f1 t t.value (t.value >>> 1) fuel
      (gy_step t prevA a prevB b e1 e2 sum).1 (gy_step t prevA a prevB b e1 e2 sum).2.1 (gy_step t prevA a prevB b e1 e2 sum).2.2
      a b (Int.tmod prevA a) (prevB - Int.tdiv prevA a * b) := by
  have htl : (t.value : Int) < 2^61 := by exact_mod_cast ht.lt
  have htl' := ht.lt
  have htpos : 0 < t.value := by have := ht.two_le; omega
  obtain ⟨hI', q1, q2, b1, b2, hr0⟩ := gy_inv_step hI hne
  obtain ⟨ha0, hale, hPt, _⟩ := hI
  have ha : 0 < a := by omega
  have hnn : ¬ Int.tmod prevA a < 0 := by omega
  have hra : (Int.tmod prevA a).natAbs % t.value = c02k_red (Int.tmod prevA a) t.value := by unfold c02k_red; rw [if_neg hnn]
  have haa : (Int.tmod prevA a).natAbs < 2^64 := by
    have := hI'.2.1; omega
  have hbb : (prevB - Int.tdiv prevA a * b).natAbs < 2^64 := by omega
  have hle2 : (prevB - Int.tdiv prevA a * b).natAbs % t.value ≤ t.value := (Nat.mod_lt _ htpos).le
  have hrb : (if prevB - Int.tdiv prevA a * b < 0 then GenW.negate_u64_mod ((prevB - Int.tdiv prevA a * b).natAbs % t.value) t
      else Except.ok ((prevB - Int.tdiv prevA a * b).natAbs % t.value)) = .ok (c02k_red (prevB - Int.tdiv prevA a * b) t.value) := by
    unfold c02k_red
    by_cases hn : prevB - Int.tdiv prevA a * b < 0
    · rw [if_pos hn, if_pos hn, gy_negate_ok ht _ hle2]
    · rw [if_neg hn, if_neg hn]
  have ham := c02k_red_lt htpos (Int.tmod prevA a)
  have hbm := c02k_red_lt htpos (prevB - Int.tdiv prevA a * b)
  rw [GenE.balance_correction_factors_loop1]
  simp only [if_pos hne, gy_div_ok prevA a ha (by omega) (by omega), gy_mod_ok prevA a ha, gy_ok_bind,
    ckI64_ok (v := Int.tdiv prevA a * b) (by omega) (by omega), ckI64_ok (v := prevB - Int.tdiv prevA a * b) (by omega) (by omega),
    gy_barrett_ok ht _ haa, gy_barrett_ok ht _ hbb, if_neg hnn, gy_pure_eq, hra, hrb, gw_gcd_eq,
    gy_closure1_eq t.value _ _ htl' (by omega : c02k_red (Int.tmod prevA a) t.value < 2^62) (by omega : c02k_red (prevB - Int.tdiv prevA a * b) t.value < 2^62)]
  by_cases hc1 : c02k_red (Int.tmod prevA a) t.value ≠ 0
  · by_cases hc2 : gcdU64 (c02k_red (Int.tmod prevA a) t.value) t.value = 1
    · simp only [gy_step, hc1, hc2, if_true, decide_true, gy_ok_bind, and_self, ne_eq, not_false_eq_true]
    · simp only [gy_step, hc2, if_false, decide_false, gy_ok_bind, and_false, Bool.false_eq_true, ite_self]
  · simp only [gy_step, hc1, if_false, gy_ok_bind, false_and, Bool.false_eq_true]
theorem gy_step_model {t : Modulus} (ht : t.WF) (fuel : Nat) (prevA a prevB b : Int) (e1 e2 : Nat) (sum : Int)
    (hI : gy_Inv t.value prevA a prevB b) (hne : a ≠ 0) :
    balanceLoop t (fuel+1) prevA a prevB b e1 e2 sum =
    balanceLoop t fuel a (Int.tmod prevA a) b (prevB - Int.tdiv prevA a * b)
      (gy_step t prevA a prevB b e1 e2 sum).1 (gy_step t prevA a prevB b e1 e2 sum).2.1 (gy_step t prevA a prevB b e1 e2 sum).2.2 := by
  have htl : (t.value : Int) < 2^61 := by exact_mod_cast ht.lt
  have htpos : 0 < t.value := by have := ht.two_le; omega
  obtain ⟨hI', q1, q2, b1, b2, hr0⟩ := gy_inv_step hI hne
  obtain ⟨ha0, hale, hPt, _⟩ := hI
  have hnn : ¬ Int.tmod prevA a < 0 := by omega
  have haa : (Int.tmod prevA a).natAbs < 2^64 := by
    have := hI'.2.1; omega
  have hbb : (prevB - Int.tdiv prevA a * b).natAbs < 2^64 := by omega
  have hle2 : (prevB - Int.tdiv prevA a * b).natAbs % t.value ≤ t.value := (Nat.mod_lt _ htpos).le
  have hra : (Int.tmod prevA a).natAbs % t.value = c02k_red (Int.tmod prevA a) t.value := by unfold c02k_red; rw [if_neg hnn]
  have hrb : ∀ (h : prevB - Int.tdiv prevA a * b < 0),
      (t.value - (prevB - Int.tdiv prevA a * b).natAbs % t.value) % t.value
      = c02k_red (prevB - Int.tdiv prevA a * b) t.value := fun h => by unfold c02k_red; rw [if_pos h]
  have hrb' : ∀ (h : ¬ prevB - Int.tdiv prevA a * b < 0), (prevB - Int.tdiv prevA a * b).natAbs % t.value
      = c02k_red (prevB - Int.tdiv prevA a * b) t.value := fun h => by unfold c02k_red; rw [if_neg h]
  rw [balanceLoop, if_neg hne]
  simp only [bind, Except.bind, ckI64_ok (v := prevB - Int.tdiv prevA a * b) (by omega) (by omega), barrett64_exact ht haa, barrett64_exact ht hbb]
  by_cases hn' : prevB - Int.tdiv prevA a * b < 0 <;>
    simp only [hnn, hn', if_true, if_false, negateMod_exact ht hle2, pure, Except.pure]
  · rw [hra, hrb hn']; rfl
  · rw [hra, hrb' hn']; rfl
theorem gy_loop_eq {t : Modulus} (ht : t.WF) (f1 : Nat) : ∀ (fuel : Nat) (prevA a prevB b : Int) (e1 e2 : Nat) (sum : Int),
    gy_Inv t.value prevA a prevB b →
    GenE.balance_correction_factors_loop1 f1 t t.value (t.value >>> 1) fuel e1 e2 sum prevA prevB a b
    = (balanceLoop t fuel prevA a prevB b e1 e2 sum >>= fun r => mulMod r.1 f1 t >>= fun f => pure (f, r.1, r.2)) := by
  intro fuel
  induction fuel with
  | zero =>
    intro prevA a prevB b e1 e2 sum _
    rw [GenE.balance_correction_factors_loop1, balanceLoop, gy_err_bind]
  | succ n ih =>
    intro prevA a prevB b e1 e2 sum hI
    by_cases ha : a = 0
    · subst ha
      rw [c02k_loop_zero, gy_ok_bind, GenE.balance_correction_factors_loop1]
      simp only [ne_eq, not_true_eq_false, if_false, gw_multiply_u64_mod_eq]
    · rw [gy_step_gen ht f1 n prevA a prevB b e1 e2 sum hI ha, gy_step_model ht n prevA a prevB b e1 e2 sum hI ha]
      exact ih _ _ _ _ _ _ _ (gy_inv_step hI ha).1

/-- `Evaluator::balance_correction_factors` (generated) = `balanceCorrectionFactors` (hand model).
    Hypotheses: a well-formed plain modulus (`2 ≤ t < 2^61`, Barrett ratio: what `Modulus::new` guarantees), `factor1 < 2^63`
    (domain of the `try_invert_u64_mod_u64` equality: `x as i64` casts) and `factor2 < 2^64` (type of the parameter). -/
theorem gy_balance_correction_factors_eq {t : Modulus} (ht : t.WF) (f1 f2 : Nat) (h1 : f1 < 2^63) (h2 : f2 < 2^64) :
    GenE.balance_correction_factors f1 f2 t = balanceCorrectionFactors f1 f2 t := by
  have h2le := ht.two_le
  have hlt := ht.lt
  have htpos : 0 < t.value := by omega
  have hinv := tryInvert_spec_partial (v := f1) h2le hlt (by omega) (by omega)
  unfold GenE.balance_correction_factors balanceCorrectionFactors GenW.try_invert_u64_mod
  simp only [gw_try_invert_u64_mod_u64_eq f1 t.value 1 h1 h2le hlt]
  by_cases hc : f1 ≠ 0 ∧ Nat.gcd f1 t.value = 1
  · obtain ⟨inv, hti, hinvlt, hinv1⟩ := hinv.1 hc
    have hr : inv * f2 % t.value < t.value := Nat.mod_lt _ htpos
    rw [hti]
    simp only [gy_ok_bind, gy_pure_eq, decide_true, not_true_eq_false, if_false, gw_multiply_u64_mod_eq,
      mulMod_exact ht (x := inv) (y := f2) (by omega) (by omega),
      gy_closure1_eq t.value _ 1 hlt (by omega : inv * f2 % t.value < 2^62) (by norm_num),
      asI64_small (by omega : t.value < 2^63), asI64_small (by omega : inv * f2 % t.value < 2^63)]
    have hI : gy_Inv t.value (t.value : Int) ((inv * f2 % t.value : Nat) : Int) (Int.ofNat 0) (Int.ofNat 1) := by
      refine ⟨by positivity, by exact_mod_cast hr.le, le_refl _, Or.inl ⟨by decide, by decide, ?_⟩⟩
      simp only [Int.ofNat_eq_natCast, Nat.cast_one, Nat.cast_zero]; ring
    rw [gy_loop_eq ht f1 200 _ _ _ _ _ _ _ hI]
    simp only [gy_bal, Nat.cast_add, Int.ofNat_eq_natCast, Nat.cast_one, Nat.cast_zero, gy_pure_eq]
  · rw [hinv.2 (by by_cases h0 : f1 = 0; exact Or.inl h0; exact Or.inr (fun hg => hc ⟨h0, hg⟩))]
    rfl
/-! ### level walk: `Evaluator::mod_switch_to_inplace` (skeleton over chain indices) = `switchSteps` -/
theorem gy_walk_loop_eq (tgt : Nat) : ∀ (fuel cur : Nat) (trace : List Nat), tgt ≤ cur → cur - tgt < fuel →
    GenE.mod_switch_to_inplace_loop1 tgt trace fuel cur = .ok (trace ++ (List.range (cur - tgt)).map (fun i => cur - 1 - i)) := by
  intro fuel
  induction fuel with
  | zero => intro cur trace _ h; omega
  | succ n ih =>
    intro cur trace hle hf
    rw [GenE.mod_switch_to_inplace_loop1]
    by_cases hc : cur = tgt
    · subst hc; simp [gy_pure_eq]
    · have h1 : 1 ≤ cur := by omega
      have hs : ckSub cur 1 = .ok (cur - 1) := by unfold ckSub; rw [if_pos h1]
      simp only [ne_eq, hc, not_false_eq_true, if_true, hs, gy_ok_bind]
      rw [ih (cur - 1) _ (by omega) (by omega)]
      have : cur - tgt = (cur - 1 - tgt) + 1 := by omega
      rw [this, List.range_succ_eq_map, List.map_cons, List.map_map, List.append_assoc]
      rw [List.singleton_append, Nat.sub_zero]
      refine congrArg (fun l => (Except.ok (trace ++ (cur - 1) :: l) : R (List Nat))) ?_
      apply List.map_congr_left
      intro i _
      simp only [Function.comp]; omega

/-- `mod_switch_to_inplace` (decision skeleton over chain indices: guard, loop condition, one level down per step) = `switchSteps` -/
theorem gy_mod_switch_to_inplace_eq (cur tgt : Nat) (hc : cur < 2^64) :
    GenE.mod_switch_to_inplace cur tgt = switchSteps cur tgt := by
  unfold GenE.mod_switch_to_inplace switchSteps
  by_cases h : cur < tgt
  · simp only [h, if_true, gy_err_bind]
  · simp only [h, if_false, gy_pure_eq, gy_ok_bind]
    rw [gy_walk_loop_eq tgt _ cur _ (by omega) (by omega)]
    simp
end HC
