import Heathcliff.Proofs.GenPoly
import Heathcliff.Proofs.GenScaling
import Heathcliff.Model.Evaluator

/-!
  Phase 4b', the multi-component wrappers (`_p`: all RNS components of one polynomial, `_ps`: several polynomials) of
  src/util/polysmallmod.rs against the model's `RnsPoly`-level folds (`rnsZip` = `compsZip l.qs`, `rnsNeg`, `compsMap l.qs`) on
  `unflattenRns` / `flattenRns` (Proofs/GenScaling.lean).  Generic part: a wrapper loop is `gp_bloop` of a step of one of two shapes
  (`gp_step`, `gp_stepI`); `gp_step*_blocks` turns it into `gp_blocks` (kernel applied blockwise), `gp_blocks_model` into the model's
  component fold via the FLATTEN LEMMA `flattenRns_blocks`.  Helper names start with `gp_`.
-/
namespace HC
open HC.GenW HC.GenP

/-! ### blocks of the flat layout and the model's `RnsPoly` -/

/-- block `j` (words `j*n … j*n+n-1`) of a flat buffer -/
def gp_blk (n : Nat) (r : List Nat) (j : Nat) : List Nat := (r.drop (j * n)).take n

theorem gp_slice_blk (b : List Nat) (j n : Nat) (h : j * n + n ≤ b.length) : GenP.slice b (j * n) (j * n + n) = .ok (gp_blk n b j) := by
  unfold GenP.slice gp_blk
  rw [if_pos ⟨by omega, h⟩, Nat.add_sub_cancel_left]

theorem gp_blk_length (n : Nat) (r : List Nat) (j : Nat) (h : j * n + n ≤ r.length) : (gp_blk n r j).length = n := by
  unfold gp_blk; rw [List.length_take, List.length_drop]; omega

theorem gp_blk_getD (n : Nat) (r : List Nat) (j k : Nat) (hk : k < n) : (gp_blk n r j).getD k 0 = r.getD (j * n + k) 0 := by
  unfold gp_blk
  simp [List.getD, hk, List.getElem?_drop]

theorem gp_unflatten_blk (size n : Nat) (r : List Nat) (j : Nat) (hj : j < size) (h : j * n + n ≤ r.length) :
    (unflattenRns size n r).getD j #[] = (gp_blk n r j).toArray := by
  unfold unflattenRns
  rw [gz_toArray_getD, gz_getD_map_range _ _ _ _ hj]
  congr 1
  apply List.ext_getElem
  · simp [gp_blk_length n r j h]
  · intro k h1 h2
    have hk : k < n := by simpa using h1
    simp only [List.getElem_map, List.getElem_range]
    have := gp_blk_getD n r j k hk
    rw [← this]
    simp [List.getD, h2]

theorem gp_range_map_getD (b : List Nat) (n : Nat) (h : b.length = n) : (List.range n).map (fun x => b.getD x 0) = b := by
  apply List.ext_getElem
  · simp [h]
  · intro k h1 h2
    simp [List.getD, h2]

/-- FLATTEN LEMMA: the flat layout of an `RnsPoly` given as a list of `n`-blocks is the concatenation of the blocks -/
theorem flattenRns_blocks (n : Nat) : ∀ (bs : List (List Nat)), (∀ b, b ∈ bs → b.length = n) →
    flattenRns bs.length n (bs.map List.toArray).toArray = bs.flatten := by
  intro bs
  induction bs with
  | nil => intro _; simp [flattenRns]
  | cons b t ih =>
    intro h
    have hb : b.length = n := h b List.mem_cons_self
    have ht := ih (fun c hc => h c (List.mem_cons_of_mem _ hc))
    unfold flattenRns at ht ⊢
    rw [List.length_cons, Nat.succ_mul, Nat.add_comm (t.length * n) n, List.range_add, List.map_append, List.flatten_cons]
    congr 1
    · refine Eq.trans ?_ (gp_range_map_getD b n hb)
      apply List.map_congr_left
      intro x hx
      have hx : x < n := List.mem_range.mp hx
      rw [Nat.div_eq_of_lt hx, Nat.mod_eq_of_lt hx]
      simp
    · rw [← ht, List.map_map]
      apply List.map_congr_left
      intro y hy
      have hn : 0 < n := by
        have := List.mem_range.mp hy
        rcases Nat.eq_zero_or_pos n with h0 | h0
        · subst h0; simp at this
        · exact h0
      simp only [Function.comp]
      rw [Nat.add_div_left _ hn, Nat.add_mod_left]
      simp

/-! ### `gp_blocks` against the model's component folds -/

theorem gp_mapM_congr' {α β : Type} (f g : α → R β) : ∀ (l : List α), (∀ k, k ∈ l → f k = g k) → l.mapM f = l.mapM g := by
  intro l
  induction l with
  | nil => intro _; rfl
  | cons x t ih =>
    intro h
    rw [List.mapM_cons, List.mapM_cons, h x (List.mem_cons_self), ih (fun k hk => h k (List.mem_cons_of_mem _ hk))]


theorem gp_blocks_mapM (B : Nat → List Nat → R (List Nat)) (n : Nat) (r0 : List Nat) : ∀ cnt i,
    gp_blocks B n cnt i (r0.drop (i * n)) =
      (do let outs ← (List.range' i cnt).mapM (fun j => B j (gp_blk n r0 j)); pure (outs.flatten ++ r0.drop ((i + cnt) * n))) := by
  intro cnt
  induction cnt with
  | zero => intro i; simp [gp_blocks]
  | succ c ih =>
    intro i
    rw [gp_blocks, List.drop_drop, show i * n + n = (i + 1) * n by rw [Nat.succ_mul], ih (i + 1), List.range'_succ, List.mapM_cons]
    show (do let o ← B i (gp_blk n r0 i); _) = _
    cases B i (gp_blk n r0 i) with
    | error e => rfl
    | ok o =>
      simp only [bind, Except.bind]
      cases (List.range' (i + 1) c).mapM (fun j => B j (gp_blk n r0 j)) with
      | error e => rfl
      | ok outs =>
        simp only [pure, Except.pure, List.flatten_cons, List.append_assoc]
        rw [show i + 1 + c = i + (c + 1) by omega]

theorem gp_foldl_pushG {α β : Type} (h : α → R β) : ∀ (l : List α) (acc : Array β),
    l.foldlM (fun acc i => do let y ← h i; pure (acc.push y)) acc = (do let vs ← l.mapM h; pure (acc ++ vs.toArray)) := by
  intro l
  induction l with
  | nil => intro acc; simp
  | cons x t ih =>
    intro acc
    simp only [List.foldlM_cons, List.mapM_cons, bind_assoc, pure_bind, ih]
    congr 1; funext y; congr 1; funext vs
    simp

theorem gp_mapM_map {α β γ : Type} (f : α → R β) (g : β → γ) : ∀ (l : List α),
    l.mapM (fun j => Except.map g (f j)) = Except.map (List.map g) (l.mapM f) := by
  intro l
  induction l with
  | nil => rfl
  | cons x t ih =>
    rw [List.mapM_cons, List.mapM_cons, ih]
    cases f x with
    | error e => rfl
    | ok y =>
      cases t.mapM f with
      | error e => rfl
      | ok ys => rfl

theorem gp_mapM_all {α β : Type} (f : α → R β) (P : β → Prop) : ∀ (l : List α) (cs : List β), l.mapM f = .ok cs →
    (∀ j c, j ∈ l → f j = .ok c → P c) → ∀ c, c ∈ cs → P c := by
  intro l
  induction l with
  | nil => intro cs h _ c hc; simp at h; cases h; simp at hc
  | cons x t ih =>
    intro cs h hP c hc
    rw [List.mapM_cons] at h
    cases hx : f x with
    | error e => rw [hx] at h; cases h
    | ok y =>
      rw [hx] at h
      cases ht : t.mapM f with
      | error e => rw [ht] at h; cases h
      | ok ys =>
        rw [ht] at h
        cases h
        rcases List.mem_cons.mp hc with rfl | hc'
        · exact hP x _ List.mem_cons_self hx
        · exact ih ys ht (fun j c' hj => hP j c' (List.mem_cons_of_mem _ hj)) c hc'

theorem gp_mapM_lengthG {α β : Type} (f : α → R β) : ∀ (l : List α) (vs : List β), l.mapM f = .ok vs → vs.length = l.length := by
  intro l
  induction l with
  | nil => intro vs h; simp at h; cases h; rfl
  | cons x t ih =>
    intro vs h
    rw [List.mapM_cons] at h
    cases hx : f x with
    | error e => rw [hx] at h; cases h
    | ok y =>
      rw [hx] at h
      cases ht : t.mapM f with
      | error e => rw [ht] at h; cases h
      | ok ws => rw [ht] at h; cases h; simp [ih ws ht]

/-- a blockwise computation on the flat buffer whose blocks are the model's component computations `C j` IS the model's component fold
    (`rnsZip` / `rnsMap` / `rnsNeg` … are literally such folds), flattened -/
theorem gp_blocks_model (B : Nat → List Nat → R (List Nat)) (C : Nat → R (Array Nat)) (n size : Nat) (r0 : List Nat)
    (hl : r0.length = size * n)
    (hBC : ∀ j, j < size → B j (gp_blk n r0 j) = Except.map Array.toList (C j))
    (hlen : ∀ j o, j < size → C j = .ok o → o.size = n) :
    gp_blocks B n size 0 r0 =
      Except.map (flattenRns size n) ((List.range size).foldlM (fun acc j => do let c ← C j; pure (acc.push c)) #[]) := by
  have h := gp_blocks_mapM B n r0 size 0
  simp only [Nat.zero_mul, List.drop_zero, Nat.zero_add] at h
  rw [h, gp_foldl_pushG, ← List.range_eq_range',
    gp_mapM_congr' _ (fun j => Except.map Array.toList (C j)) _ (fun j hj => hBC j (List.mem_range.mp hj)), gp_mapM_map]
  cases hm : (List.range size).mapM C with
  | error e => rfl
  | ok cs =>
    have hcl : cs.length = size := by rw [gp_mapM_lengthG _ _ _ hm, List.length_range]
    have hall : ∀ c, c ∈ cs → c.size = n :=
      gp_mapM_all C (fun c => c.size = n) _ cs hm (fun j c hj hc => hlen j c (List.mem_range.mp hj) hc)
    have hfl := flattenRns_blocks n (cs.map Array.toList) (by
      intro b hb
      obtain ⟨c, hc, rfl⟩ := List.mem_map.mp hb
      simpa using hall c hc)
    have hmm : (cs.map Array.toList).map List.toArray = cs := by simp [List.map_map, Function.comp_def]
    rw [hmm, List.length_map, hcl] at hfl
    have e1 : (#[] : Array (Array Nat)) ++ cs.toArray = cs.toArray := by simp
    show (Except.ok ((cs.map Array.toList).flatten ++ r0.drop (size * n)) : R (List Nat)) = Except.ok (flattenRns size n (#[] ++ cs.toArray))
    rw [e1, hfl, ← hl, List.drop_length, List.append_nil]

/-! ### the two shapes of a wrapper iteration -/

/-- out-of-place shape: the other arguments (`Pre`: sub-slices of the inputs, `&moduli[i]`) are evaluated before the destination block -/
def gp_step {α : Type} (Pre : Nat → Nat → Nat → R α) (K : Nat → α → List Nat → R (List Nat)) (i off up : Nat) (r : List Nat) : R (List Nat) := do
  let a ← Pre i off up
  let t ← GenP.slice r off up
  let o ← K i a t
  pure (GenP.splice r off o)

/-- in-place shape: the destination block is the first argument -/
def gp_stepI {α : Type} (Post : Nat → Nat → Nat → R α) (K : Nat → α → List Nat → R (List Nat)) (i off up : Nat) (r : List Nat) : R (List Nat) := do
  let t ← GenP.slice r off up
  let a ← Post i off up
  let o ← K i a t
  pure (GenP.splice r off o)

theorem gp_step_blocks {α : Type} (Pre : Nat → Nat → Nat → R α) (K : Nat → α → List Nat → R (List Nat)) (n : Nat)
    (hlen : ∀ i a x o, K i a x = .ok o → o.length = x.length) (size : Nat) (r : List Nat) (hr : size * n ≤ r.length) (hB : r.length < B64) :
    gp_bloop (gp_step Pre K) n size 0 r 0 = gp_blocks (fun j x => do let a ← Pre j (j * n) (j * n + n); K j a x) n size 0 r := by
  have h := gp_bloop_blocks (gp_step Pre K) (fun j x => do let a ← Pre j (j * n) (j * n + n); K j a x) n
    (by
      intro i pre rest hp hn
      simp only [gp_step, bind_assoc]
      cases h1 : Pre i (i * n) (i * n + n) with
      | error e => rfl
      | ok a =>
        simp only [bind, Except.bind, gp_slice_block pre rest i n hp hn]
        cases h3 : K i a (rest.take n) with
        | error e => rfl
        | ok o =>
          have ho : o.length = n := by rw [hlen _ _ _ _ h3, List.length_take, Nat.min_eq_left hn]
          simp only [pure, Except.pure, gp_splice_block pre rest o i n hp ho])
    (by
      intro i x o h
      cases h1 : Pre i (i * n) (i * n + n) with
      | error e => simp only [h1, bind, Except.bind] at h; cases h
      | ok a => simp only [h1, bind, Except.bind] at h; exact hlen _ _ _ _ h)
    size 0 [] r (by simp) hr (by simpa using hB)
  simp only [List.nil_append, Nat.zero_mul] at h
  rw [h]
  cases gp_blocks (fun j x => do let a ← Pre j (j * n) (j * n + n); K j a x) n size 0 r with
  | error e => rfl
  | ok x => rfl

theorem gp_stepI_blocks {α : Type} (Post : Nat → Nat → Nat → R α) (K : Nat → α → List Nat → R (List Nat)) (n : Nat)
    (hlen : ∀ i a x o, K i a x = .ok o → o.length = x.length) (size : Nat) (r : List Nat) (hr : size * n ≤ r.length) (hB : r.length < B64) :
    gp_bloop (gp_stepI Post K) n size 0 r 0 = gp_blocks (fun j x => do let a ← Post j (j * n) (j * n + n); K j a x) n size 0 r := by
  have h := gp_bloop_blocks (gp_stepI Post K) (fun j x => do let a ← Post j (j * n) (j * n + n); K j a x) n
    (by
      intro i pre rest hp hn
      simp only [gp_stepI, bind_assoc, gp_slice_block pre rest i n hp hn]
      simp only [bind, Except.bind]
      cases h1 : Post i (i * n) (i * n + n) with
      | error e => rfl
      | ok a =>
        simp only []
        cases h3 : K i a (rest.take n) with
        | error e => rfl
        | ok o =>
          have ho : o.length = n := by rw [hlen _ _ _ _ h3, List.length_take, Nat.min_eq_left hn]
          simp only [pure, Except.pure, gp_splice_block pre rest o i n hp ho])
    (by
      intro i x o h
      cases h1 : Post i (i * n) (i * n + n) with
      | error e => simp only [h1, bind, Except.bind] at h; cases h
      | ok a => simp only [h1, bind, Except.bind] at h; exact hlen _ _ _ _ h)
    size 0 [] r (by simp) hr (by simpa using hB)
  simp only [List.nil_append, Nat.zero_mul] at h
  rw [h]
  cases gp_blocks (fun j x => do let a ← Post j (j * n) (j * n + n); K j a x) n size 0 r with
  | error e => rfl
  | ok x => rfl
end HC
